import Gv.Proofs.FastaRT
import Gv.Model.Fmt.Nexus
import Gv.Proofs.StockholmRT
import Gv.Model.Fmt.Auto
import Gv.Proofs.NexusRT
import Gv.Proofs.ReprRows
/-!
C02 — every alignment format round-trips losslessly through writer and parser.

`Spec.Fmt.repr<Fmt>` is the decidable representability predicate (the property's quantifier);
"the same detected alphabet" is `Model.autoAlphabet` of the rows that were written (goalign's own
detection over the character classes regenerated from the source).

Proved: FASTA (every wrap width `w > 0`, every number of rows, every length, every duplicate-name policy,
with or without the proposed "no sequence ⇒ error" patch), Stockholm, Nexus (repaired parser; the unrepaired
one has the kernel-checked counter-example below), Phylip (`roundtrip_phylip`: all 8 combinations of
strict / one-line / no-block; `roundtrip_phylip_widths`: every line and group width; `phylip_multi`), Clustal
(`roundtrip_clustal`), and the auto-detection of the written format.  Helper developments:
`Proofs/{FastaRT, StockholmRT, NexusRT, PhylipRT … PhylipRT4, ClustalRT … ClustalRT4, ReprRows}.lean`.

The multi-alignment Phylip stream (`ParseMultiple`) is `phylip_multi`.  Nothing of the property's statement is
left open; `.gz` / `.xz` files are observed on the implementation only (compression is a trusted external).
-/
namespace Gv.Props.C02
open Gv Gv.Model Gv.Model.Fmt Gv.Model.Fmt.Fasta Gv.Proofs.FastaRT
open Gv.Spec.Fmt (reprFasta reprBase rectangular residuesOk distinct isPrintable isNt isAa isSpecial)

set_option maxRecDepth 100000

private theorem printable_ok : ∀ b : Byte, isPrintable b = true → identChar b = true ∧ b ≠ SP := by decide

private theorem residue_ok : ∀ b : Byte, (isNt b || isSpecial b) = true ∨ (isAa b || isSpecial b) = true →
    identChar b = true ∧ b ≠ GT ∧ b ≠ SP := by decide

/-- what `reprFasta` gives row by row -/
private theorem repr_rows (rows : List XRow) (h : reprFasta rows = true) :
    rows ≠ [] ∧ (∀ r ∈ rows, ValidRow r) ∧
    (∃ L, 1 ≤ L ∧ rows.head?.map (·.2.length) = some L ∧ ∀ r ∈ rows, r.2.length = L) ∧
    distinct (rows.map (·.1)) = true := by
  simp only [reprFasta, reprBase, Bool.and_eq_true] at h
  obtain ⟨⟨⟨⟨hrect, hres⟩, hdist⟩, hnames⟩, hgt⟩ := h
  cases rows with
  | nil => simp [rectangular] at hrect
  | cons r0 rs =>
    simp only [rectangular, Bool.and_eq_true, decide_eq_true_eq, List.all_eq_true, beq_iff_eq] at hrect
    have hlen : ∀ r ∈ r0 :: rs, r.2.length = r0.2.length := by
      intro r hr
      cases hr with
      | head => rfl
      | tail _ hr => exact hrect.2 r hr
    refine ⟨by simp, ?_, ⟨r0.2.length, hrect.1, by simp, hlen⟩, hdist⟩
    intro r hr
    have hn := (List.all_eq_true.mp hnames) r hr
    simp only [Bool.and_eq_true, Bool.not_eq_true', List.all_eq_true] at hn
    have hg := (List.all_eq_true.mp hgt) r hr
    have hne : r.1 ≠ [] := by
      intro e; rw [e] at hn; simp at hn
    have hresr : ∀ b ∈ r.2, identChar b = true ∧ b ≠ GT ∧ b ≠ SP := by
      intro b hb
      apply residue_ok
      simp only [residuesOk, Bool.or_eq_true, List.all_eq_true] at hres
      cases hres with
      | inl h1 => left; simpa using h1 r hr b hb
      | inr h1 => right; simpa using h1 r hr b hb
    have hq : r.2 ≠ [] := by
      intro e
      have := hlen r hr
      rw [e] at this
      simp at this
      omega
    refine ⟨⟨⟨hne, fun b hb => (printable_ok b (hn.2 b hb)).1, ?_⟩, ?_⟩, hq, hresr⟩
    · have hg' : ¬ (r.1.head? = some 62) := by simpa using hg
      exact hg'
    · cases hr1 : r.1 with
      | nil => exact absurd hr1 hne
      | cons x xs =>
        have := (printable_ok x (hn.2 x (by rw [hr1]; simp))).2
        simpa using this

/-- **FASTA round trip.**  For every line width `w > 0` (Go: `FASTA_LINE = 80`), every representable
alignment (any number of rows, any length), every duplicate-name policy, auto-detected alphabet:
parsing the writer's output gives back the same names in the same order, the same residues, the same
length and the detected alphabet.  Holds for the code as it is (`fix = false`) and with the proposed
patch (`fix = true`). -/
theorem roundtrip_fasta (w : Nat) (hw : 0 < w) (fix : Bool) (o : POpts) (ho : normAlphabet o.alphabet = 2)
    (rows : List XRow) (h : reprFasta rows = true) :
    ∃ L : Nat, 1 ≤ L ∧ (∀ r ∈ rows, r.2.length = L) ∧
      Fasta.parse fix o (Fasta.write w rows) = .ok ⟨autoAlphabet (rows.map (·.2)), L, rows⟩ := by
  obtain ⟨hne, hvalid, ⟨L, hL1, _, hlen⟩, hdist⟩ := repr_rows rows h
  refine ⟨L, hL1, hlen, ?_⟩
  have hl := lex_write w hw rows hvalid
  have hbag : parseBag o.ignore (Fasta.write w rows) =
      some { ignore := normIgnore o.ignore, length := L, rows := rows } := by
    unfold parseBag
    rw [hl]
    cases rows with
    | nil => exact absurd rfl hne
    | cons r rs =>
      have hb := body_rows w hw (r :: rs) hvalid { bag := { ignore := normIgnore o.ignore } } (Or.inr ⟨rfl, rfl⟩)
      simp only [List.flatMap_cons, rowToks, List.cons_append, skipEol] at hb ⊢
      rw [loop, hb]
      · have := addAll_ok L (r :: rs) { ignore := normIgnore o.ignore } hlen (Or.inl ⟨rfl, rfl⟩)
          (by intro _ _ q hq; simp at hq) hdist
        simpa [pending] using this
      · intro ts hts; cases hts
  unfold Fasta.parse
  rw [hbag]
  have hnotempty : rows.isEmpty = false := by
    cases rows with
    | nil => exact absurd rfl hne
    | cons _ _ => rfl
  simp only [hnotempty, Bool.and_false, Bool.false_eq_true, if_false]
  simp [Bag.finish, ho, BOTH, Bag.detect, autoAlphabet]

/-- non-vacuity: a two-row nucleotide alignment with a gap is representable -/
example : reprFasta [([115, 49], [65, 67, 45, 84]), ([115, 50], [65, 67, 71, 116])] = true := by decide

/-- the theorem instantiated at Go's line width -/
theorem roundtrip_fasta_go (rows : List XRow) (h : reprFasta rows = true) :
    ∃ L : Nat, Fasta.parse false {} (Fasta.write Gen.c_FASTA_LINE.toNat rows) =
      .ok ⟨autoAlphabet (rows.map (·.2)), L, rows⟩ := by
  obtain ⟨L, _, _, h⟩ := roundtrip_fasta Gen.c_FASTA_LINE.toNat (by decide) false {} (by decide) rows h
  exact ⟨L, h⟩

/-- **Nexus: the round trip is FALSE for the code as it is.**  The protein alignment `a = END`, `b = ENV`
is representable (`reprNexus`), the writer emits it, and the parser rejects the writer's output because
`scanIdent` turns the residue row `END` into the keyword token (finding `nexus-keyword-row`). -/
theorem roundtrip_nexus_counterexample :
    Spec.Fmt.reprNexus [([97], [69, 78, 68]), ([98], [69, 78, 86])] = true ∧
    Nexus.parse ⟨false, false, false, false, false, false, false⟩ {} (Nexus.write 0 [([97], [69, 78, 68]), ([98], [69, 78, 86])]) = .error := by
  decide

/-- with `proposed_fixes/c02-nexus-keyword-rows.diff` the witness round-trips -/
theorem roundtrip_nexus_patched_witness :
    Nexus.parse ⟨false, false, false, true, false, false, false⟩ {} (Nexus.write 0 [([97], [69, 78, 68]), ([98], [69, 78, 86])]) =
      .ok ⟨0, 3, [([97], [69, 78, 68]), ([98], [69, 78, 86])]⟩ := by
  decide

/-! ## Stockholm -/

section Stockholm
open Gv.Model.Fmt.Stockholm Gv.Proofs.StockholmRT
open Gv.Spec.Fmt (reprStockholm)

private theorem st_name_byte : ∀ b : Byte, isPrintable b = true → b ≠ 91 → b ≠ 93 → b ≠ 59 → b ≠ 61 →
    Stockholm.identChar b = true := by decide

private theorem st_residue_byte : ∀ b : Byte, (isNt b || isSpecial b) = true ∨ (isAa b || isSpecial b) = true →
    Stockholm.identChar b = true ∧ b ≠ 46 ∧ b ≠ 35 ∧ b ≠ 43 ∧ b ≠ 47 ∧ Stockholm.isDigit b = false ∧
      Stockholm.upper b ≠ 79 := by decide

private theorem isInt64_false (q : Seq) (hne : q ≠ []) (h : ∀ b ∈ q, Stockholm.isDigit b = false ∧ b ≠ 43) :
    Stockholm.isInt64 q = false := by
  unfold Stockholm.isInt64
  cases q with
  | nil => exact absurd rfl hne
  | cons c t =>
    have hc := h c (by simp)
    by_cases c45 : c = 45
    · subst c45
      cases t with
      | nil => simp
      | cons d u =>
        have hd := (h d (by simp)).1
        simp [hd]
    · have c43 : c ≠ 43 := hc.2
      split
      rename_i neg ds hm
      split at hm
      · rename_i t' he; simp at he; exact absurd he.1 c45
      · rename_i t' he; simp at he; exact absurd he.1 c43
      · simp only [Prod.mk.injEq] at hm
        obtain ⟨hn, hd⟩ := hm
        subst hn; subst hd
        simp [hc.1]

private theorem dotsToGaps_id (q : Seq) (h : ∀ b ∈ q, b ≠ 46) : Stockholm.dotsToGaps q = q := by
  unfold Stockholm.dotsToGaps
  induction q with
  | nil => rfl
  | cons c t ih =>
    have hc : (c == 46) = false := by simp [h c (by simp)]
    simp only [List.map_cons, hc, Bool.false_eq_true, if_false]
    rw [ih (fun b hb => h b (by simp [hb]))]

private theorem upper_eq : Stockholm.upper = Spec.Fmt.upper := rfl

private theorem st_printable_ascii : ∀ b : Byte, isPrintable b = true → b < 0x80 := by decide
private theorem st_residue_ascii : ∀ b : Byte, (isNt b || isSpecial b) = true ∨ (isAa b || isSpecial b) = true →
    b < 0x80 := by decide
/-- `strings.ToUpper` on an ASCII literal (the keyword test of the lexer model) is the byte-wise upper case -/
private theorem st_upperLit (l : Seq) (h : ∀ b ∈ l, b < 0x80) : Utf8.upperLit l = l.map Stockholm.upper :=
  Gv.Proofs.Utf8Norm.upperLit_ascii l (Gv.Proofs.Utf8Norm.allAscii_of_forall l h)

/-- what `reprStockholm` gives row by row -/
private theorem st_repr_rows (rows : List XRow) (h : reprStockholm rows = true) :
    rows ≠ [] ∧ (∀ r ∈ rows, RowOk r) ∧
    (∃ L, 1 ≤ L ∧ ∀ r ∈ rows, r.2.length = L) ∧ distinct (rows.map (·.1)) = true := by
  simp only [reprStockholm, reprBase, Bool.and_eq_true] at h
  obtain ⟨⟨⟨⟨hrect, hres⟩, hdist⟩, hnames⟩, hst⟩ := h
  cases rows with
  | nil => simp [rectangular] at hrect
  | cons r0 rs =>
    simp only [rectangular, Bool.and_eq_true, decide_eq_true_eq, List.all_eq_true, beq_iff_eq] at hrect
    have hlen : ∀ r ∈ r0 :: rs, r.2.length = r0.2.length := by
      intro r hr
      cases hr with
      | head => rfl
      | tail _ hr => exact hrect.2 r hr
    refine ⟨by simp, ?_, ⟨r0.2.length, hrect.1, hlen⟩, hdist⟩
    intro r hr
    have hn := (List.all_eq_true.mp hnames) r hr
    simp only [Bool.and_eq_true, Bool.not_eq_true', List.all_eq_true] at hn
    have hs := (List.all_eq_true.mp hst) r hr
    simp only [Bool.and_eq_true, List.all_eq_true, bne_iff_ne, ne_eq] at hs
    obtain ⟨⟨⟨hdel, hhash⟩, hslash⟩, hkw⟩ := hs
    have hne : r.1 ≠ [] := by
      intro e; rw [e] at hn; simp at hn
    have hresr : ∀ b ∈ r.2, _ := fun b hb => st_residue_byte b (by
      simp only [residuesOk, Bool.or_eq_true, List.all_eq_true] at hres
      cases hres with
      | inl h1 => left; simpa using h1 r hr b hb
      | inr h1 => right; simpa using h1 r hr b hb)
    have hq : r.2 ≠ [] := by
      intro e
      have := hlen r hr
      rw [e] at this
      simp at this
      omega
    have hnameRun : Run r.1 := by
      refine ⟨hne, ?_, by simpa using hhash⟩
      intro b hb
      have hd := hdel b hb
      exact st_name_byte b (hn.2 b hb) hd.1.1.1 hd.1.1.2 hd.1.2 hd.2
    have hseqRun : Run r.2 := by
      refine ⟨hq, fun b hb => (hresr b hb).1, ?_⟩
      cases hr2 : r.2 with
      | nil => exact absurd hr2 hq
      | cons x xs =>
        have := (hresr x (by rw [hr2]; simp)).2.2.1
        simpa using this
    refine ⟨hnameRun, ?_, hseqRun, ?_, dotsToGaps_id r.2 (fun b hb => (hresr b hb).2.1)⟩
    · -- the name is an identifier or a number
      unfold Stockholm.classify
      by_cases hi : Stockholm.isInt64 r.1 = true
      · right; simp [hi]
      · left
        have hk : ¬ (r.1.map Stockholm.upper = [83, 84, 79, 67, 75, 72, 79, 76, 77]) := by
          rw [upper_eq]; exact hkw
        simp [hi, st_upperLit r.1 (fun b hb => st_printable_ascii b (hn.2 b hb)), hk, hslash]
    · -- the residues are an identifier
      unfold Stockholm.classify
      have hi := isInt64_false r.2 hq (fun b hb => ⟨(hresr b hb).2.2.2.2.2.1, (hresr b hb).2.2.2.1⟩)
      have hk : ¬ (r.2.map Stockholm.upper = [83, 84, 79, 67, 75, 72, 79, 76, 77]) := by
        intro e
        have : (79 : Byte) ∈ r.2.map Stockholm.upper := by rw [e]; simp
        obtain ⟨b, hb, hb2⟩ := List.mem_map.mp this
        exact (hresr b hb).2.2.2.2.2.2 hb2
      have hsl : ¬ (r.2 = [47, 47]) := by
        intro e
        have : (47 : Byte) ∈ r.2 := by rw [e]; simp
        exact (hresr 47 this).2.2.2.2.1 rfl
      have hasc : ∀ b ∈ r.2, b < 0x80 := fun b hb => st_residue_ascii b (by
        simp only [residuesOk, Bool.or_eq_true, List.all_eq_true] at hres
        cases hres with
        | inl h1 => left; simpa using h1 r hr b hb
        | inr h1 => right; simpa using h1 r hr b hb)
      simp [hi, st_upperLit r.2 hasc, hk, hsl]

private def stH1 : Seq := [32, 83, 84, 79, 67, 75, 72, 79, 76, 77, 32, 49, 46, 48, 10, 35, 61, 71, 70, 32, 73, 68, 32, 32, 32, 71, 111, 97, 108, 105, 103, 110, 32, 103, 101, 110, 101, 114, 97, 116, 101, 100, 32, 97, 108, 105, 103, 110, 109, 101, 110, 116, 10]
private def stH2 : Seq := [32, 49, 46, 48, 10, 35, 61, 71, 70, 32, 73, 68, 32, 32, 32, 71, 111, 97, 108, 105, 103, 110, 32, 103, 101, 110, 101, 114, 97, 116, 101, 100, 32, 97, 108, 105, 103, 110, 109, 101, 110, 116, 10]
private def stH3 : Seq := [10, 35, 61, 71, 70, 32, 73, 68, 32, 32, 32, 71, 111, 97, 108, 105, 103, 110, 32, 103, 101, 110, 101, 114, 97, 116, 101, 100, 32, 97, 108, 105, 103, 110, 109, 101, 110, 116, 10]

private theorem st_s1 (body : Seq) : Stockholm.scanIW (Stockholm.header ++ body) = (.markup, stH1 ++ body) := by
  simp [Stockholm.header, stH1, Stockholm.scanIW, Stockholm.scan, Stockholm.isWS, NL, CR, SP, TAB]

private theorem st_s2 (body : Seq) :
    Stockholm.scanIW (stH1 ++ body) = (.stockholm [83, 84, 79, 67, 75, 72, 79, 76, 77], stH2 ++ body) := by
  simp [stH1, stH2, Stockholm.scanIW, Stockholm.scan, Stockholm.identFrom, Stockholm.classify,
    Stockholm.isInt64, Stockholm.isWS, Stockholm.identChar, Stockholm.afterRun, NL, CR, SP, TAB,
    Gv.Proofs.Utf8Norm.upperLit_ascii, allAscii, Gv.Proofs.Utf8Norm.upperByte, Stockholm.isDigit]

private theorem st_s3 (body : Seq) :
    Stockholm.scanIW (stH2 ++ body) = (.ident [49, 46, 48], stH3 ++ body) := by
  simp [stH2, stH3, Stockholm.scanIW, Stockholm.scan, Stockholm.identFrom, Stockholm.classify,
    Stockholm.isInt64, Stockholm.isWS, Stockholm.identChar, Stockholm.afterRun, NL, CR, SP, TAB,
    Gv.Proofs.Utf8Norm.upperLit_ascii, allAscii, Gv.Proofs.Utf8Norm.upperByte, Stockholm.isDigit]

/-- the blank-line token and the `#=GF` markup line cost two iterations of the main loop -/
private theorem st_s4 (m : Bool) (k : Nat) (body : Seq) (bag : Bag) :
    Stockholm.loop m (k + 2) (stH3 ++ body) bag = Stockholm.loop m k body bag := by
  rw [Stockholm.loop]
  simp [stH3, Stockholm.scanIW, Stockholm.scan, Stockholm.isWS, NL, CR, SP, TAB]
  rw [Stockholm.loop]
  simp [Stockholm.skipMarkup, Stockholm.scanIW, Stockholm.scan, Stockholm.identFrom, Stockholm.classify,
    Stockholm.isInt64, Stockholm.isWS, Stockholm.identChar, Stockholm.afterRun, NL, CR, SP, TAB,
    Gv.Proofs.Utf8Norm.upperLit_ascii, allAscii, Gv.Proofs.Utf8Norm.upperByte, Stockholm.isDigit]

/-- the header lines of the writer, then the rows -/
private theorem st_parse_header (m e : Bool) (o : POpts) (body : Seq) :
    Stockholm.parse m e o (Stockholm.header ++ body) =
      match Stockholm.loop m (body.length + 39) body { ignore := normIgnore o.ignore } with
      | .ok bag =>
        if (e && bag.rows.isEmpty) || bag.length == 0 then .error
        else match bag.finish (normAlphabet o.alphabet) with
          | none => .error
          | some a => .ok a
      | .error => .error
      | .exit => .exit
      | .panic => .panic
      | .hang => .hang := by
  have hl : (stH3 ++ body).length + 2 = (body.length + 39) + 2 := by
    rw [List.length_append]
    have : stH3.length = 39 := by decide
    omega
  unfold Stockholm.parse
  rw [st_s1]; simp only
  rw [st_s2]; simp only
  rw [st_s3]; simp only [Stockholm.lit, bne_self_eq_false, Bool.false_eq_true, if_false]
  rw [hl, st_s4]
  rfl

/-- **Stockholm round trip**, for the code as it is and for every combination of the proposed guards
(`m`, `e`), every duplicate-name policy, auto-detected alphabet: parsing the writer's output gives back
the same names in the same order, the same residues, the same length and the detected alphabet. -/
theorem roundtrip_stockholm (m e : Bool) (o : POpts) (ho : normAlphabet o.alphabet = 2)
    (rows : List XRow) (h : reprStockholm rows = true) :
    ∃ L : Nat, 1 ≤ L ∧ (∀ r ∈ rows, r.2.length = L) ∧
      Stockholm.parse m e o (Stockholm.write rows) = .ok ⟨autoAlphabet (rows.map (·.2)), L, rows⟩ := by
  obtain ⟨hne, hok, ⟨L, hL1, hlen⟩, hdist⟩ := st_repr_rows rows h
  refine ⟨L, hL1, hlen, ?_⟩
  unfold Stockholm.write
  rw [List.append_assoc, st_parse_header]
  -- the loop over the rows and the end marker, with exactly the fuel it needs, then with the fuel it has
  have hmin : Stockholm.loop m (1 + 2 * rows.length) (rows.flatMap line ++ [47, 47])
      { ignore := normIgnore o.ignore } = .ok { ignore := normIgnore o.ignore, length := L, rows := rows } := by
    rw [loop_rows m rows hok 1 [47, 47]]
    have := addAll_ok L rows { ignore := normIgnore o.ignore } hlen (Or.inl ⟨rfl, rfl⟩)
      (by intro _ _ q hq; simp at hq) hdist
    rw [this]
    simp only
    rw [loop_end m 0]
    cases rows with
    | nil => exact absurd rfl hne
    | cons _ _ => simp
  have hlenb := flatMap_line_length rows
  have hfl : (fun (r : XRow) => r.1 ++ [TAB] ++ r.2 ++ [NL]) = line := rfl
  rw [hfl]
  have hbig := loop_mono_le m _ ((rows.flatMap line ++ [47, 47]).length + 39)
    (by rw [List.length_append]; simp only [List.length_cons, List.length_nil]; omega) _ _ _ hmin (by simp)
  rw [hbig]
  have hnotempty : rows.isEmpty = false := by
    cases rows with
    | nil => exact absurd rfl hne
    | cons _ _ => rfl
  have hL0 : ((L : Int) == 0) = false := by
    have : (L : Int) ≠ 0 := by omega
    simpa using this
  simp only [hnotempty, Bool.and_false, hL0, Bool.or_false, Bool.false_eq_true, if_false]
  simp [Bag.finish, ho, BOTH, Bag.detect, autoAlphabet]

end Stockholm

/-! ## Auto-detection selects the format that was written -/

/-- **Auto-detection**: for every non-empty list of rows (any names, any residues, any options) the first
byte of each writer's output makes `ParseAlignmentAuto` / `ParseMultiAlignmentsAuto` pick the parser of
the format that was written: `>` FASTA, `#` Nexus, `C` Clustal, a blank Phylip.  (An empty alignment is not
representable; FASTA would then write nothing and the dispatch reports an error.) -/
theorem autodetect_selects_written_format (rows : List XRow) (hne : rows ≠ []) (w : Nat)
    (strict oneline noblock : Bool) (alphabet : Nat) (version : Seq) :
    Auto.detect (Fasta.write w rows) = some .fasta ∧
    Auto.detect (Nexus.write alphabet rows) = some .nexus ∧
    Auto.detect (Clustal.write version alphabet rows) = some .clustal ∧
    Auto.detect (Phylip.write strict oneline noblock rows) = some .phylip := by
  refine ⟨?_, ?_, ?_, ?_⟩
  · cases rows with
    | nil => exact absurd rfl hne
    | cons r rs => simp [Fasta.write, Fasta.writeRow, Auto.detect, Fasta.GT]
  · simp [Nexus.write, Auto.detect]
  · simp [Clustal.write, Auto.detect]
  · simp [Phylip.write, Auto.detect, SP]

/-! ## Nexus -/

section NexusRT
open Gv.Proofs.NexusRT
open Gv.Spec.Fmt (reprNexus nexusKeywords upperName)

private theorem nx_name_byte : ∀ b : Byte, isPrintable b = true → b ≠ 91 → b ≠ 93 → b ≠ 59 → b ≠ 61 →
    Nexus.identChar b = true := by decide

private theorem nx_residue_byte : ∀ b : Byte, (isNt b || isSpecial b) = true ∨ (isAa b || isSpecial b) = true →
    Nexus.identChar b = true ∧ b ≠ 46 ∧ b ≠ 43 ∧ Phylip.isDigit b = false := by decide

private theorem nx_keys : Nexus.keywords.map (·.1) = nexusKeywords := by decide
private theorem nx_upper : Nexus.upper = Spec.Fmt.upper := rfl
private theorem nx_printable_ascii : ∀ b : Byte, isPrintable b = true → b < 0x80 := by decide
private theorem nx_residue_ascii : ∀ b : Byte, (isNt b || isSpecial b) = true ∨ (isAa b || isSpecial b) = true →
    b < 0x80 := by decide
/-- `strings.ToUpper` on an ASCII literal (the keyword test of the lexer model) is the byte-wise upper case -/
private theorem nx_upperLit (l : Seq) (h : ∀ b ∈ l, b < 0x80) : Utf8.upperLit l = l.map Nexus.upper :=
  Gv.Proofs.Utf8Norm.upperLit_ascii l (Gv.Proofs.Utf8Norm.allAscii_of_forall l h)
private theorem nx_iskw : ∀ p ∈ Nexus.keywords, Nexus.isKeyword p.2 = true := by decide

private theorem lookup_none_of_not_mem {β} (k : Seq) : ∀ (l : List (Seq × β)), ¬ k ∈ l.map (·.1) → lookup k l = none
  | [], _ => rfl
  | (k', v) :: t, h => by
    simp only [List.map_cons, List.mem_cons, not_or] at h
    simp only [lookup]
    have : (k == k') = false := by simp [h.1]
    rw [this]
    exact lookup_none_of_not_mem k t h.2

private theorem parseInt64_none (q : Seq) (hne : q ≠ []) (h : ∀ b ∈ q, Phylip.isDigit b = false ∧ b ≠ 43) :
    Phylip.parseInt64 q = none := by
  unfold Phylip.parseInt64
  cases q with
  | nil => exact absurd rfl hne
  | cons c t =>
    have hc := h c (by simp)
    by_cases c45 : c = 45
    · subst c45
      cases t with
      | nil => simp
      | cons d u =>
        have hd := (h d (by simp)).1
        simp [hd]
    · have c43 : c ≠ 43 := hc.2
      split
      rename_i neg ds hm
      split at hm
      · rename_i t' he; simp at he; exact absurd he.1 c45
      · rename_i t' he; simp at he; exact absurd he.1 c43
      · simp only [Prod.mk.injEq] at hm
        obtain ⟨hn, hd⟩ := hm
        subst hn; subst hd
        simp [hc.1]

/-- the detected alphabet of an alignment over the property's residue alphabet is never "unknown" -/
private theorem nt_could : ∀ c : Byte, (isNt c || isSpecial c) = true →
    (Gen.alpha_bag_both.contains (toUpper c) || Gen.alpha_bag_nt.contains (toUpper c)) = true := by decide
private theorem aa_could : ∀ c : Byte, (isAa c || isSpecial c) = true →
    (Gen.alpha_bag_both.contains (toUpper c) || Gen.alpha_bag_aa.contains (toUpper c)) = true := by decide

private theorem fold_nt (q : Seq) (h : ∀ c ∈ q, (isNt c || isSpecial c) = true) : ∀ st : Bool × Bool, st.2 = true →
    (q.foldl (alphaStep Gen.alpha_bag_both Gen.alpha_bag_nt Gen.alpha_bag_aa) st).2 = true := by
  induction q with
  | nil => intro st hs; exact hs
  | cons c t ih =>
    intro st hs
    simp only [List.foldl_cons]
    apply ih (fun x hx => h x (by simp [hx]))
    simp only [alphaStep, hs, Bool.true_and]
    exact nt_could c (h c (by simp))

private theorem fold_aa (q : Seq) (h : ∀ c ∈ q, (isAa c || isSpecial c) = true) : ∀ st : Bool × Bool, st.1 = true →
    (q.foldl (alphaStep Gen.alpha_bag_both Gen.alpha_bag_nt Gen.alpha_bag_aa) st).1 = true := by
  induction q with
  | nil => intro st hs; exact hs
  | cons c t ih =>
    intro st hs
    simp only [List.foldl_cons]
    apply ih (fun x hx => h x (by simp [hx]))
    simp only [alphaStep, hs, Bool.true_and]
    exact aa_could c (h c (by simp))

private theorem detect_known (rows : List XRow) (h : residuesOk rows = true) :
    detectAlphabetBag (rows.map (·.2)) ≠ UNKNOWN := by
  unfold detectAlphabetBag
  simp only [residuesOk, Bool.or_eq_true, List.all_eq_true] at h
  have key : ∀ st : Bool × Bool, (st.1 = true ∨ st.2 = true) → alphaOfFlags st ≠ UNKNOWN := by
    intro st hst
    unfold alphaOfFlags
    cases hst with
    | inl h1 => simp [h1]; split <;> simp [BOTH, AMINOACIDS, NUCLEOTIDS, UNKNOWN]
    | inr h2 => simp [h2]; split <;> simp [BOTH, AMINOACIDS, NUCLEOTIDS, UNKNOWN]
  apply key
  cases h with
  | inl hnt =>
    right
    have : ∀ (l : List XRow), (∀ r ∈ l, ∀ c ∈ r.2, (isNt c || isSpecial c) = true) → ∀ st : Bool × Bool, st.2 = true →
        ((l.map (·.2)).foldl (fun st s => s.foldl (alphaStep Gen.alpha_bag_both Gen.alpha_bag_nt Gen.alpha_bag_aa) st) st).2 = true := by
      intro l
      induction l with
      | nil => intro _ st hs; exact hs
      | cons r t ih =>
        intro hl st hs
        simp only [List.map_cons, List.foldl_cons]
        exact ih (fun x hx => hl x (by simp [hx])) _ (fold_nt r.2 (hl r (by simp)) st hs)
    exact this rows (fun r hr c hc => by simpa using hnt r hr c hc) (true, true) rfl
  | inr haa =>
    left
    have : ∀ (l : List XRow), (∀ r ∈ l, ∀ c ∈ r.2, (isAa c || isSpecial c) = true) → ∀ st : Bool × Bool, st.1 = true →
        ((l.map (·.2)).foldl (fun st s => s.foldl (alphaStep Gen.alpha_bag_both Gen.alpha_bag_nt Gen.alpha_bag_aa) st) st).1 = true := by
      intro l
      induction l with
      | nil => intro _ st hs; exact hs
      | cons r t ih =>
        intro hl st hs
        simp only [List.map_cons, List.foldl_cons]
        exact ih (fun x hx => hl x (by simp [hx])) _ (fold_aa r.2 (hl r (by simp)) st hs)
    exact this rows (fun r hr c hc => by simpa using haa r hr c hc) (true, true) rfl

/-- what `reprNexus` gives row by row -/
private theorem nx_repr_rows (f : Nexus.Facts) (rows : List XRow) (h : reprNexus rows = true)
    (hk : f.keywordRowsAreResidues = true ∨ ∀ r ∈ rows, ¬ (upperName r.2 ∈ nexusKeywords)) :
    rows ≠ [] ∧ (∀ r ∈ rows, RowOk f r) ∧ residuesOk rows = true ∧
    (∃ L, 1 ≤ L ∧ ∀ r ∈ rows, r.2.length = L) ∧ distinct (rows.map (·.1)) = true ∧
    (∀ r ∈ rows, ∀ c ∈ r.2, c ≠ POINT) := by
  simp only [reprNexus, reprBase, Bool.and_eq_true] at h
  obtain ⟨⟨⟨⟨hrect, hres⟩, hdist⟩, hnames⟩, hnx⟩ := h
  cases rows with
  | nil => simp [rectangular] at hrect
  | cons r0 rs =>
    simp only [rectangular, Bool.and_eq_true, decide_eq_true_eq, List.all_eq_true, beq_iff_eq] at hrect
    have hlen : ∀ r ∈ r0 :: rs, r.2.length = r0.2.length := by
      intro r hr
      cases hr with
      | head => rfl
      | tail _ hr => exact hrect.2 r hr
    have hresr : ∀ r ∈ r0 :: rs, ∀ b ∈ r.2, _ := fun r hr b hb => nx_residue_byte b (by
      simp only [residuesOk, Bool.or_eq_true, List.all_eq_true] at hres
      cases hres with
      | inl h1 => left; simpa using h1 r hr b hb
      | inr h1 => right; simpa using h1 r hr b hb)
    refine ⟨by simp, ?_, hres, ⟨r0.2.length, hrect.1, hlen⟩, hdist, fun r hr c hc => (hresr r hr c hc).2.1⟩
    intro r hr
    have hn := (List.all_eq_true.mp hnames) r hr
    simp only [Bool.and_eq_true, Bool.not_eq_true', List.all_eq_true] at hn
    have hs := (List.all_eq_true.mp hnx) r hr
    simp only [Bool.and_eq_true, List.all_eq_true, bne_iff_ne, ne_eq, Bool.not_eq_true'] at hs
    obtain ⟨hdel, hkw⟩ := hs
    have hne : r.1 ≠ [] := by
      intro e; rw [e] at hn; simp at hn
    have hq : r.2 ≠ [] := by
      intro e
      have := hlen r hr
      rw [e] at this
      simp at this
      omega
    have hnameRun : Run r.1 := by
      refine ⟨hne, ?_⟩
      intro b hb
      have hd := hdel b hb
      exact nx_name_byte b (hn.2 b hb) hd.1.1.1 hd.1.1.2 hd.1.2 hd.2
    have hseqRun : Run r.2 := ⟨hq, fun b hb => (hresr r hr b hb).1⟩
    refine ⟨hnameRun, ?_, hseqRun, ?_⟩
    · -- the name: a number or, not being a reserved word, an identifier
      unfold Nexus.classify
      rw [nx_upperLit r.1 (fun b hb => nx_printable_ascii b (hn.2 b hb))]
      by_cases hi : (Phylip.parseInt64 r.1).isSome = true
      · right; simp [hi]
      · left
        have hnot : ¬ r.1.map Nexus.upper ∈ Nexus.keywords.map (·.1) := by
          rw [nx_keys, nx_upper]
          intro hm
          have : nexusKeywords.contains (upperName r.1) = true := by
            simp only [List.contains_iff_mem]; exact hm
          rw [this] at hkw
          exact absurd hkw (by simp)
        simp [hi, lookup_none_of_not_mem _ _ hnot]
    · -- the residues: not a number; an identifier, or a reserved word that the repaired row loop accepts
      unfold SeqTok Nexus.classify
      rw [nx_upperLit r.2 (fun b hb => nx_residue_ascii b (by
        simp only [residuesOk, Bool.or_eq_true, List.all_eq_true] at hres
        cases hres with
        | inl h1 => left; simpa using h1 r hr b hb
        | inr h1 => right; simpa using h1 r hr b hb))]
      have hi : Phylip.parseInt64 r.2 = none :=
        parseInt64_none r.2 hq (fun b hb => ⟨(hresr r hr b hb).2.2.2, (hresr r hr b hb).2.2.1⟩)
      simp only [hi, Option.isSome_none, Bool.false_eq_true, if_false]
      cases hl : lookup (r.2.map Nexus.upper) Nexus.keywords with
      | none => left; rfl
      | some k =>
        cases hk with
        | inl hf => right; exact ⟨hf, nx_iskw _ (lookup_eq_some_mem hl)⟩
        | inr hno =>
          exfalso
          apply hno r hr
          have := lookup_eq_some_mem hl
          have hm : r.2.map Nexus.upper ∈ Nexus.keywords.map (·.1) := List.mem_map.mpr ⟨_, this, rfl⟩
          rw [nx_keys, nx_upper] at hm
          exact hm

/-- the writer's output in the cons / append form used by the stepping lemmas -/
private theorem nx_write_eq (alphabet : Nat) (rows : List XRow) (L : Nat) (hne : rows ≠ [])
    (hlen : ∀ r ∈ rows, r.2.length = L) :
    Nexus.write alphabet rows =
      fileText rows.length L (if alphabet == AMINOACIDS then txtProtein else txtDna) rows := by
  cases rows with
  | nil => exact absurd rfl hne
  | cons r rs =>
    have hL : r.2.length = L := hlen r (by simp)
    have hint : ∀ n : Nat, intDec (n : Int) = natDec n := by
      intro n; simp [intDec]
    unfold Nexus.write fileText blockText
    simp only [hint, hL]
    have hfm : ((r :: rs).flatMap fun r => r.1 ++ [SP] ++ r.2 ++ [NL]) = (r :: rs).flatMap rowLine := rfl
    rw [hfm]
    split <;> simp [kwNexus, kwBegin, kwData, kwDimensions, kwNtax, kwNchar, kwFormat, kwDatatype, kwMatrix, kwEnd,
      txtProtein, txtDna, NL, SP, List.append_assoc]

/-- **Nexus round trip** (all four repair facts arbitrary, except that rows spelling a reserved word need the
keyword-row repair of commit 2d2dfb5): for every representable alignment whose counts fit Go's `int`, every
duplicate-name policy and auto-detected alphabet, parsing the writer's output gives back the same names in
the same order, the same residues, the same length and the detected alphabet (which the writer passes
through `datatype=dna|protein`). -/
theorem roundtrip_nexus (f : Nexus.Facts) (o : POpts) (ho : normAlphabet o.alphabet = 2) (rows : List XRow)
    (h : reprNexus rows = true)
    (hk : f.keywordRowsAreResidues = true ∨ ∀ r ∈ rows, ¬ (upperName r.2 ∈ nexusKeywords))
    (hsize : rows.length ≤ 9223372036854775807 ∧ ∀ r ∈ rows, r.2.length ≤ 9223372036854775807) :
    ∃ L : Nat, 1 ≤ L ∧ (∀ r ∈ rows, r.2.length = L) ∧
      Nexus.parse f o (Nexus.write (autoAlphabet (rows.map (·.2))) rows) =
        .ok ⟨autoAlphabet (rows.map (·.2)), L, rows⟩ := by
  obtain ⟨hne, hok, hres, ⟨L, hL1, hlen⟩, hdist, hdot⟩ := nx_repr_rows f rows h hk
  refine ⟨L, hL1, hlen, ?_⟩
  have hLmax : L ≤ 9223372036854775807 := by
    cases rows with
    | nil => exact absurd rfl hne
    | cons r rs => rw [← hlen r (by simp)]; exact hsize.2 r (by simp)
  rw [nx_write_eq _ rows L hne hlen]
  have hknown := detect_known rows hres
  -- the alphabet the writer announces is the one the parser sets
  by_cases haa : (autoAlphabet (rows.map (·.2)) == AMINOACIDS) = true
  · simp only [haa, if_true]
    apply parse_written f o ho rows.length L rfl hsize.1 hLmax hL1 txtProtein ⟨by decide, by decide⟩ (by decide)
      hne hok hlen hdist hdot AMINOACIDS (by decide)
    have e : autoAlphabet (rows.map (·.2)) = AMINOACIDS := by simpa using haa
    rw [e]
    unfold autoAlphabet at e
    simp only at e
    have hd : detectAlphabetBag (rows.map (·.2)) = AMINOACIDS := by
      revert e
      generalize detectAlphabetBag (rows.map (·.2)) = d
      intro e
      split at e
      · simp [NUCLEOTIDS, AMINOACIDS] at e
      · split at e
        · rename_i h2; simpa using h2
        · simp [UNKNOWN, AMINOACIDS] at e
    simp [Bag.finish, Bag.detect, hd, BOTH, AMINOACIDS, NUCLEOTIDS, UNKNOWN]
  · simp only [haa, Bool.false_eq_true, if_false]
    apply parse_written f o ho rows.length L rfl hsize.1 hLmax hL1 txtDna ⟨by decide, by decide⟩ (by decide)
      hne hok hlen hdist hdot NUCLEOTIDS (by decide)
    -- the detection is nucleotide-compatible
    have hcases : detectAlphabetBag (rows.map (·.2)) = BOTH ∨ detectAlphabetBag (rows.map (·.2)) = NUCLEOTIDS := by
      have hne' : autoAlphabet (rows.map (·.2)) ≠ AMINOACIDS := by simpa using haa
      unfold autoAlphabet at hne'
      simp only at hne'
      revert hne' hknown
      unfold detectAlphabetBag alphaOfFlags
      generalize (List.foldl _ (true, true) (rows.map (·.2))) = st
      intro hne' hknown
      repeat' split at hknown
      all_goals simp_all [BOTH, AMINOACIDS, NUCLEOTIDS, UNKNOWN]
    have hauto : autoAlphabet (rows.map (·.2)) = NUCLEOTIDS := by
      unfold autoAlphabet
      cases hcases with
      | inl e => simp [e]
      | inr e => simp [e]
    rw [hauto]
    cases hcases with
    | inl e => simp [Bag.finish, Bag.detect, e, BOTH, AMINOACIDS, NUCLEOTIDS, UNKNOWN]
    | inr e => simp [Bag.finish, Bag.detect, e, BOTH, AMINOACIDS, NUCLEOTIDS, UNKNOWN]

end NexusRT

/-! ## Phylip -/

section PhylipRT
open Gv.Proofs.PhylipRT Gv.Proofs.ReprRows
open Gv.Spec.Fmt (reprPhylip)

/-- **Phylip round trip, every line width and group width** (`line`, `block` > 0; Go: 60 and 10, the alignment
length with `oneline`, the line width with `noblock`), strict and relaxed name column, every duplicate-name
policy, auto-detected alphabet: parsing the blocks the writer lays out gives back the same names in the same
order, the same residues, the same length and the detected alphabet.  `af` = "the parser allocates its row
tables from the header count" (`Gen.FmtFacts.phylip_allocates_from_header`, false since the repair): with it
the count must stay below the band where `make` is no longer prompt.  The counts must fit Go's `int64`
(`strconv.ParseInt` of the header) — no Go slice is longer. -/
theorem roundtrip_phylip_widths (af strict : Bool) (line block : Nat) (hl : 0 < line) (hb : 0 < block)
    (o : POpts) (hs : o.strict = strict) (ho : normAlphabet o.alphabet = 2) (rows : List XRow)
    (h : reprPhylip strict rows = true)
    (hsize : rows.length ≤ 9223372036854775807 ∧ ∀ r ∈ rows, r.2.length ≤ 9223372036854775807)
    (halloc : af = false ∨ rows.length < 134217728) :
    ∃ L : Nat, 1 ≤ L ∧ (∀ r ∈ rows, r.2.length = L) ∧
      Phylip.parse af o (writeLB strict line block L rows) =
        .ok (some ⟨autoAlphabet (rows.map (·.2)), L, rows⟩) := by
  obtain ⟨hne, L, hL1, hok, hdist⟩ := ph_repr_rows strict rows h
  have hlen : ∀ r ∈ rows, r.2.length = L := fun r hr => (hok r hr).len
  have hLmax : L ≤ 9223372036854775807 := by
    cases rows with
    | nil => exact absurd rfl hne
    | cons r rs => rw [← hlen r (by simp)]; exact hsize.2 r (by simp)
  exact ⟨L, hL1, hlen, parse_written af strict o hs ho line block L hl hb hL1 hLmax rows hne hsize.1 halloc hok hdist⟩

/-- **Phylip round trip** for the writer as it is: all 8 combinations of `strict` / `oneline` / `noblock`
(interleaved blocks of `PHYLIP_LINE` = 60 residues in groups of `PHYLIP_BLOCK` = 10, one line per row, one
group per line), every representable alignment (any number of rows, any length — in particular every length
around the multiples of 10 and 60), every duplicate-name policy, auto-detected alphabet. -/
theorem roundtrip_phylip (af strict oneline noblock : Bool) (o : POpts) (hs : o.strict = strict)
    (ho : normAlphabet o.alphabet = 2) (rows : List XRow) (h : reprPhylip strict rows = true)
    (hsize : rows.length ≤ 9223372036854775807 ∧ ∀ r ∈ rows, r.2.length ≤ 9223372036854775807)
    (halloc : af = false ∨ rows.length < 134217728) :
    ∃ L : Nat, 1 ≤ L ∧ (∀ r ∈ rows, r.2.length = L) ∧
      Phylip.parse af o (Phylip.write strict oneline noblock rows) =
        .ok (some ⟨autoAlphabet (rows.map (·.2)), L, rows⟩) := by
  obtain ⟨hne, L, hL1, hok, _⟩ := ph_repr_rows strict rows h
  have hlen : ∀ r ∈ rows, r.2.length = L := fun r hr => (hok r hr).len
  have hline : 0 < (if oneline then L else Gen.c_PHYLIP_LINE.toNat) := by
    split
    · exact hL1
    · decide
  have hblock : 0 < (if noblock then (if oneline then L else Gen.c_PHYLIP_LINE.toNat) else Gen.c_PHYLIP_BLOCK.toNat) := by
    split
    · exact hline
    · decide
  obtain ⟨L', hL1', hlen', hp⟩ := roundtrip_phylip_widths af strict _ _ hline hblock o hs ho rows h hsize halloc
  have hLL : L' = L := by
    cases rows with
    | nil => exact absurd rfl hne
    | cons r rs => rw [← hlen r (by simp), ← hlen' r (by simp)]
  subst hLL
  exact ⟨L', hL1', hlen', by rw [write_eq strict oneline noblock rows L' hne hlen]; exact hp⟩

/-- non-vacuity: a strict-representable protein alignment with a gap, a numeric name and a 10-byte name -/
example : reprPhylip true [([49, 50], [65, 82, 45, 76]), ([97, 98, 99, 100, 101, 102, 103, 104, 105, 106], [97, 69, 68, 42])] = true := by
  decide

/-- the theorem's conclusion evaluated on that alignment (strict names, interleaved layout) -/
example : Phylip.parse false ⟨true, 0, 2⟩ (Phylip.write true false false
      [([49, 50], [65, 82, 45, 76]), ([97, 98, 99, 100, 101, 102, 103, 104, 105, 106], [97, 69, 68, 42])]) =
    .ok (some ⟨AMINOACIDS, 4, [([49, 50], [65, 82, 45, 76]), ([97, 98, 99, 100, 101, 102, 103, 104, 105, 106], [97, 69, 68, 42])]⟩) := by
  decide


/-- **Multi-alignment Phylip streams** (`ParseMultiple`, e.g. bootstrap replicates): writing any list of
representable alignments one after the other (any of the 8 layouts) and parsing the stream gives back every
alignment — names, order, residues, length (`alnOf`: the length of its first row), detected alphabet — and
no error, whatever the fuel of the model's loop above the number of alignments. -/
theorem phylip_multi (af strict oneline noblock : Bool) (o : POpts) (hs : o.strict = strict)
    (ho : normAlphabet o.alphabet = 2) (as : List (List XRow)) (h : ∀ a ∈ as, reprPhylip strict a = true)
    (hsize : ∀ a ∈ as, a.length ≤ 9223372036854775807 ∧ ∀ r ∈ a, r.2.length ≤ 9223372036854775807)
    (halloc : af = false ∨ ∀ a ∈ as, a.length < 134217728) (fuel : Nat) (hf : as.length + 1 ≤ fuel) :
    Phylip.parseMulti af o fuel { inp := as.flatMap (Phylip.write strict oneline noblock) } [] =
      .done (as.map alnOf) true := by
  have hgood : ∀ a ∈ as, Good af strict a := fun a ha =>
    ph_good af strict a (h a ha) (hsize a ha) (halloc.imp id (fun hh => hh a ha))
  have := multi_written af strict oneline noblock o hs ho as hgood fuel
    ⟨as.flatMap (Phylip.write strict oneline noblock), .eof, false⟩ [] hf (At.fresh .eof)
  simpa using this

/-- the same with the fuel the oracle gives the loop (`len + 2`) -/
theorem phylip_multi_oracle_fuel (af strict oneline noblock : Bool) (o : POpts) (hs : o.strict = strict)
    (ho : normAlphabet o.alphabet = 2) (as : List (List XRow)) (h : ∀ a ∈ as, reprPhylip strict a = true)
    (hsize : ∀ a ∈ as, a.length ≤ 9223372036854775807 ∧ ∀ r ∈ a, r.2.length ≤ 9223372036854775807)
    (halloc : af = false ∨ ∀ a ∈ as, a.length < 134217728) :
    Phylip.parseMulti af o ((as.flatMap (Phylip.write strict oneline noblock)).length + 2)
      { inp := as.flatMap (Phylip.write strict oneline noblock) } [] = .done (as.map alnOf) true :=
  phylip_multi af strict oneline noblock o hs ho as h hsize halloc _
    (by have := stream_length strict oneline noblock as; omega)

/-- non-vacuity and the conclusion evaluated: two alignments of different shapes in one relaxed stream -/
example : Phylip.parseMulti false {} 3
      { inp := List.flatMap (Phylip.write false false false) [[([97], [65, 67]), ([98], [71, 84])], [([49], [65, 45, 67])]] } [] =
    .done [alnOf [([97], [65, 67]), ([98], [71, 84])], alnOf [([49], [65, 45, 67])]] true := by
  rfl

end PhylipRT

/-! ## Clustal -/

section ClustalRT
open Gv.Proofs.ClustalRT Gv.Proofs.ReprRows
open Gv.Spec.Fmt (reprClustal upperName)

/-- **Clustal round trip**: for every representable alignment (any number of rows, any length: any number
of blocks of `CLUSTAL_LINE` = 50 residues with their cumulative counts and conservation lines), whatever
alphabet the writer is given for the conservation line, every duplicate-name policy, with or without the
row-index guard (`c`), auto-detected alphabet: parsing the writer's output gives back the same names in the
same order, the same residues, the same length and the detected alphabet.  The header line carries the
build's version text, which must not contain a line break (`\n`, `\r`) or NUL — with one the header line
would end early; the cumulative counts must fit Go's `int64` (a longer Go string does not exist). -/
theorem roundtrip_clustal (c : Bool) (version : Seq) (hv : ∀ b ∈ version, b ≠ 10 ∧ b ≠ 13 ∧ b ≠ 0)
    (alphabet : Nat) (o : POpts) (ho : normAlphabet o.alphabet = 2) (rows : List XRow)
    (h : reprClustal rows = true) (hsize : ∀ r ∈ rows, r.2.length ≤ 9223372036854775807) :
    ∃ L : Nat, 1 ≤ L ∧ (∀ r ∈ rows, r.2.length = L) ∧
      Clustal.parse c o (Clustal.write version alphabet rows) =
        .ok ⟨autoAlphabet (rows.map (·.2)), L, rows⟩ := by
  obtain ⟨hne, L, hL1, hok, hdist⟩ := cl_repr_rows rows h
  have hlen : ∀ r ∈ rows, r.2.length = L := fun r hr => (hok r hr).len
  have hLmax : L ≤ 9223372036854775807 := by
    cases rows with
    | nil => exact absurd rfl hne
    | cons r rs => rw [← hlen r (by simp)]; exact hsize r (by simp)
  exact ⟨L, hL1, hlen, parse_written c version hv alphabet o ho L hL1 hLmax rows hne hok hdist⟩

/-- the theorem at the version text of the harness build (`version.Version` = "Unset") -/
theorem roundtrip_clustal_harness (c : Bool) (alphabet : Nat) (rows : List XRow) (h : reprClustal rows = true)
    (hsize : ∀ r ∈ rows, r.2.length ≤ 9223372036854775807) :
    ∃ L : Nat, Clustal.parse c {} (Clustal.write [85, 110, 115, 101, 116] alphabet rows) =
      .ok ⟨autoAlphabet (rows.map (·.2)), L, rows⟩ := by
  obtain ⟨L, _, _, hp⟩ := roundtrip_clustal c [85, 110, 115, 101, 116] (by decide) alphabet {} (by decide) rows h hsize
  exact ⟨L, hp⟩

/-- non-vacuity: a representable protein alignment with a gap and a numeric name -/
example : reprClustal [([49, 50], [65, 82, 45, 76]), ([115, 50], [97, 69, 68, 42])] = true := by decide

/-- the version hypothesis is needed: with a line break in the version text the writer's output is rejected -/
example : Clustal.parse true {} (Clustal.write [10] 0 [([97], [65, 76])]) = .error := by decide

end ClustalRT

end Gv.Props.C02
