import Gv.Model.Mask
import Gv.Spec.Mask
import Gv.Proofs.MaskOcc
import Gv.Proofs.Majority
/-!
# C15 — masking rewrites exactly the selected residues and nothing else
-/
namespace Gv.Props.C15
open Gv Gv.Model

/-- what a successful `Mask` returns: every row keeps its name and is rewritten cell by cell -/
theorem mask_result (rows : CRows) (L : Int) (alphabet : Nat) (refseq : String) (start len : Int) (mr : MaskRep)
    (nogap noref : Bool) (out : CRows) (h : mask rows L alphabet refseq start len mr nogap noref = some out) :
    ∃ rep0 refs, repChar alphabet mr = some rep0 ∧
      out = rows.map (fun r => (r.1, r.2.mapIdx fun i c =>
        maskCell rows L start len mr rep0 nogap (refseq != "" && noref) refs i c)) := by
  unfold mask maskWithRef at h
  split at h
  · cases h
  · split at h
    · cases h
    · split at h
      · cases h
      · rename_i rep0 hrep
        simp only [] at h
        split at h
        · cases h
        · rename_i refs _
          simp only [Option.some.injEq] at h
          exact ⟨rep0, refs, hrep, h.symm⟩

/-- **All names, the row order and the alignment length are unchanged.** -/
theorem mask_frame_names_lengths (rows : CRows) (L : Int) (alphabet : Nat) (refseq : String) (start len : Int)
    (mr : MaskRep) (nogap noref : Bool) (out : CRows)
    (h : mask rows L alphabet refseq start len mr nogap noref = some out) :
    out.map Prod.fst = rows.map Prod.fst ∧ out.map (fun r => r.2.length) = rows.map (fun r => r.2.length) := by
  obtain ⟨rep0, refs, _, e⟩ := mask_result _ _ _ _ _ _ _ _ _ _ h
  subst e
  constructor <;> simp [List.map_map, Function.comp_def]

/-- **Every residue outside the window, every protected gap and every residue protected by the
reference is left unchanged; every other residue of the window becomes the replacement character**:
cell `i` of row `k` of the result is `maskCell … i c` of the original cell `c`, which is `c` itself
unless `i` lies in `[start, start+len) ∩ [0, L)` and the cell is not protected. -/
theorem mask_cells (rows : CRows) (L : Int) (alphabet : Nat) (refseq : String) (start len : Int)
    (mr : MaskRep) (nogap noref : Bool) (out : CRows)
    (h : mask rows L alphabet refseq start len mr nogap noref = some out) :
    ∃ rep0 refs, repChar alphabet mr = some rep0 ∧ ∀ (k i : Nat) (r : String × Seq) (c : Byte),
      rows[k]? = some r → r.2[i]? = some c →
      ∃ r', out[k]? = some r' ∧ r'.1 = r.1 ∧
        r'.2[i]? = some (if inWindow L start len i && !protectedCell nogap (refseq != "" && noref) refs i c
                          then repAt rows mr rep0 i else c) := by
  obtain ⟨rep0, refs, hrep, e⟩ := mask_result _ _ _ _ _ _ _ _ _ _ h
  subst e
  refine ⟨rep0, refs, hrep, ?_⟩
  intro k i r c hk hi
  refine ⟨(r.1, r.2.mapIdx fun i c => maskCell rows L start len mr rep0 nogap (refseq != "" && noref) refs i c), ?_, rfl, ?_⟩
  · rw [List.getElem?_map, hk]; rfl
  · rw [List.getElem?_mapIdx, hi]; rfl

/-- in particular a residue outside the window is never touched -/
theorem mask_outside_window_unchanged (L start len : Int) (i : Nat) (h : ¬ (start ≤ (i : Int) ∧ (i : Int) < start + len))
    (rows : CRows) (mr : MaskRep) (rep0 : Byte) (nogap useRef : Bool) (refs : Seq) (c : Byte) :
    maskCell rows L start len mr rep0 nogap useRef refs i c = c := by
  unfold maskCell inWindow
  have : (decide (start ≤ (i : Int)) && decide ((i : Int) < start + len)) = false := by
    simp only [Bool.and_eq_false_iff, decide_eq_false_iff_not]
    by_cases a : start ≤ (i : Int)
    · right; intro b; exact h ⟨a, b⟩
    · left; exact a
  simp [this]

/-- **A window extending past the end is truncated rather than failing**: success only depends on
`0 ≤ start ≤ L`, the replacement mode and the reference name -/
theorem mask_ok_iff (rows : CRows) (L : Int) (alphabet : Nat) (refseq : String) (start len : Int)
    (mr : MaskRep) (nogap noref : Bool) :
    (mask rows L alphabet refseq start len mr nogap noref).isSome = true ↔
      (0 ≤ start ∧ start ≤ L ∧ (repChar alphabet mr).isSome = true ∧
       ((refseq != "" && noref) = true → (rows.find? fun r => r.1 == refseq).isSome = true)) := by
  unfold mask maskWithRef
  by_cases h1 : start < 0
  · simp [h1]; intro; omega
  · by_cases h2 : start > L
    · simp [h1, h2]; intro _ _; omega
    · simp only [h1, h2, if_false]
      cases hr : repChar alphabet mr with
      | none => simp
      | some rep0 =>
        simp only []
        by_cases hu : (refseq != "" && noref) = true
        · simp only [hu, if_true]
          cases hf : rows.find? (fun r => r.1 == refseq) with
          | none => simp
          | some r => simp; omega
        · simp only [hu]
          simp; omega

/-- the replacement character follows the mode: N or X by alphabet, a gap, the given character -/
theorem repChar_spec :
    repChar AMINOACIDS .ambig = some 88 ∧ repChar NUCLEOTIDS .ambig = some 78 ∧ repChar UNKNOWN .ambig = none ∧
    (∀ a, repChar a .gap = some GAP) ∧ (∀ a c, repChar a (.char c) = some c) ∧ (∀ a, repChar a .bad = none) := by
  refine ⟨by decide, by decide, by decide, fun _ => rfl, fun _ _ => rfl, fun _ => rfl⟩


/-! ## the column majority (mode MAJ of `Mask` and `MaskOccurences`) -/

open Gv.Spec Gv.Proofs.MaskOcc Gv.Proofs.Majority

/-- **MAJ: the replacement is the most frequent residue of the column, the lowest byte on ties**
(`majorityChar` mirrors the `num > max` scan over `occurences[0..129]`): it occurs in the column, no byte
the table can count is more frequent, and every equally frequent one is not smaller.  The incoming
value `d` plays no role. -/
theorem majority_replacement (col : List Byte) (d : Byte) (h : ∃ c ∈ col, c.toNat < 130) :
    majorityChar col d ∈ col ∧ (majorityChar col d).toNat < 130 ∧
    (∀ c : Byte, c.toNat < 130 → col.count c ≤ col.count (majorityChar col d)) ∧
    (∀ c : Byte, c.toNat < 130 → col.count c = col.count (majorityChar col d) → majorityChar col d ≤ c) ∧
    (∀ d', majorityChar col d' = majorityChar col d) :=
  let ⟨a, b, c, e⟩ := majorityChar_spec col d h
  ⟨a, b, c, e, fun d' => majorityChar_indep col d' d h⟩

/-- the replacement character of `Mask` in every mode: N / X by alphabet, a gap, the given character, or
(MAJ) the column majority of *all* rows, whatever is protected -/
theorem mask_replacement_char (rows : CRows) (alphabet : Nat) (mr : MaskRep) (rep0 : Byte) (i : Nat)
    (h : repChar alphabet mr = some rep0) :
    (mr = .ambig → alphabet = AMINOACIDS → repAt rows mr rep0 i = 88) ∧
    (mr = .ambig → alphabet = NUCLEOTIDS → repAt rows mr rep0 i = 78) ∧
    (mr = .gap → repAt rows mr rep0 i = GAP) ∧
    (∀ c, mr = .char c → repAt rows mr rep0 i = c) ∧
    (mr = .maj → repAt rows mr rep0 i = majorityChar (columnAt rows i) POINT) := by
  refine ⟨?_, ?_, ?_, ?_, ?_⟩
  · intro e1 e2; subst e1 e2
    have : rep0 = 88 := by simpa [repChar] using h.symm
    simp [repAt, this]
  · intro e1 e2; subst e1 e2
    have : rep0 = 78 := by
      have h' : repChar NUCLEOTIDS .ambig = some 78 := by decide
      rw [h'] at h; simpa using h.symm
    simp [repAt, this]
  · intro e1; subst e1
    have : rep0 = GAP := by simpa [repChar] using h.symm
    simp [repAt, this]
  · intro c e1; subst e1
    have : rep0 = c := by simpa [repChar] using h.symm
    simp [repAt, this]
  · intro e1; subst e1
    have : rep0 = POINT := by simpa [repChar] using h.symm
    simp [repAt, this]

/-! ## `MaskOccurences` / `MaskUnique`

The model `Model.maskOccurences` mirrors the Go loop: per column an occurrence table keyed by row index,
the `num <= maxOccurence && num > 0 && c != rep && c != GAP` test, the MAJ replacement carried from one
column to the next.  `Gv.Spec.maskOccCell` states the outcome residue by residue (`occCounts`: which rows
take part in the count — reference handling; `occSelected`: counted, not a gap, count ≤ threshold;
`occRepAt`: the replacement of the column). -/

/-- what a successful `MaskOccurences` returns: every row keeps its name, and residue `i` of a row is
`maskOccCell` of that row, for every column `i < L` -/
theorem maskOcc_result (rows : CRows) (L : Int) (alphabet : Nat) (refseq : String) (maxOcc : Int) (mr : MaskRep)
    (out : CRows) (h : maskOccurences rows L alphabet refseq maxOcc mr = some out) :
    ∃ rep0 refs, repChar alphabet mr = some rep0 ∧
      (if refseq != "" then (rows.find? fun r => r.1 == refseq).map Prod.snd else some []) = some refs ∧
      out = rows.map fun r => (r.1, (List.range L.toNat).map fun i => maskOccCell rows refseq refs maxOcc mr rep0 i r) :=
  maskOccurences_closed rows L alphabet refseq maxOcc mr out h

/-- `MaskOccurences` fails exactly on an unknown replacement mode (or AMBIG on an unknown alphabet) and on a
reference name that is not in the alignment; the threshold never makes it fail -/
theorem maskOcc_ok_iff (rows : CRows) (L : Int) (alphabet : Nat) (refseq : String) (maxOcc : Int) (mr : MaskRep) :
    (maskOccurences rows L alphabet refseq maxOcc mr).isSome = true ↔
      ((repChar alphabet mr).isSome = true ∧
       ((refseq != "") = true → (rows.find? fun r => r.1 == refseq).isSome = true)) := by
  unfold maskOccurences maskOccWithRef
  cases hr : repChar alphabet mr with
  | none => simp
  | some rep0 =>
    simp only []
    by_cases hu : (refseq != "") = true
    · simp only [hu, if_true]
      cases hf : rows.find? (fun r => r.1 == refseq) <;> simp
    · simp only [hu]
      simp

/-- an alignment in the sense of the model: every row has the cached length -/
def Aligned (rows : CRows) (L : Int) : Prop := ∀ r ∈ rows, (r.2.length : Int) = L

/-- **Frame: all names, the row order and the alignment length are unchanged** — the result has the same
names in the same order and every row has length `L`; for an alignment (all rows of length `L`) every row
keeps its own length. -/
theorem maskOcc_frame_names_lengths (rows : CRows) (L : Int) (alphabet : Nat) (refseq : String) (maxOcc : Int)
    (mr : MaskRep) (out : CRows) (h : maskOccurences rows L alphabet refseq maxOcc mr = some out) :
    out.map Prod.fst = rows.map Prod.fst ∧ (∀ r ∈ out, r.2.length = L.toNat) ∧
    (Aligned rows L → out.map (fun r => r.2.length) = rows.map (fun r => r.2.length)) := by
  obtain ⟨rep0, refs, _, _, e⟩ := maskOcc_result _ _ _ _ _ _ _ h
  subst e
  refine ⟨by simp [List.map_map, Function.comp_def], ?_, ?_⟩
  · intro r hr
    obtain ⟨r0, _, e⟩ := List.mem_map.mp hr
    subst e; simp
  · intro ha
    rw [List.map_map]
    apply List.map_congr_left
    intro r hr
    have := ha r hr
    simp only [Function.comp, List.length_map, List.length_range]
    omega

/-- **Frame and selection, residue by residue**: in column `i < L` the residue `c` of row `k` becomes the
replacement character of the column if it is selected, and stays `c` otherwise. -/
theorem maskOcc_cells (rows : CRows) (L : Int) (alphabet : Nat) (refseq : String) (maxOcc : Int)
    (mr : MaskRep) (out : CRows) (h : maskOccurences rows L alphabet refseq maxOcc mr = some out) :
    ∃ rep0 refs, repChar alphabet mr = some rep0 ∧
      (if refseq != "" then (rows.find? fun r => r.1 == refseq).map Prod.snd else some []) = some refs ∧
      ∀ (k i : Nat) (r : String × Seq), rows[k]? = some r → i < L.toNat →
        ∃ r', out[k]? = some r' ∧ r'.1 = r.1 ∧
          r'.2[i]? = some (if occSelected rows refseq refs maxOcc i r then occRepAt rows refseq refs mr rep0 i
                           else r.2.getD i 0) := by
  obtain ⟨rep0, refs, hrep, href, e⟩ := maskOcc_result _ _ _ _ _ _ _ h
  subst e
  refine ⟨rep0, refs, hrep, href, ?_⟩
  intro k i r hk hi
  refine ⟨(r.1, (List.range L.toNat).map fun i => maskOccCell rows refseq refs maxOcc mr rep0 i r),
    by rw [List.getElem?_map, hk]; rfl, rfl, ?_⟩
  simp only [List.getElem?_map, List.getElem?_range hi, Option.map_some]
  rfl

/-- **Which residues are selected**: the row takes part in the count (no reference given; or it is not
the reference row and its residue differs from the reference residue or the reference has a gap there), the
residue is not a gap, and it occurs at most `maxOcc` times among the residues that take part in the count
of the column. -/
theorem maskOcc_selected_exactly (rows : CRows) (refseq : String) (refs : Seq) (maxOcc : Int) (i : Nat) (x : String × Seq) :
    occSelected rows refseq refs maxOcc i x = true ↔
      ((refseq = "" ∨ (x.1 ≠ refseq ∧ (x.2.getD i 0 ≠ refs.getD i 0 ∨ refs.getD i 0 = GAP))) ∧
       x.2.getD i 0 ≠ GAP ∧
       ((occChars rows refseq refs i).count (x.2.getD i 0) : Int) ≤ maxOcc) := by
  unfold occSelected occCounts
  simp only [Bool.and_eq_true, Bool.or_eq_true, beq_iff_eq, bne_iff_ne, ne_eq, decide_eq_true_eq]
  constructor
  · rintro ⟨⟨a, b⟩, c⟩; exact ⟨a, b, c⟩
  · rintro ⟨a, b, c⟩; exact ⟨⟨a, b⟩, c⟩

private theorem sel_parts (rows : CRows) (refseq : String) (refs : Seq) (maxOcc : Int) (i : Nat) (x : String × Seq) :
    occSelected rows refseq refs maxOcc i x = true ↔
      occCounts refseq refs i x = true ∧ x.2.getD i 0 ≠ GAP ∧
        ((occChars rows refseq refs i).count (x.2.getD i 0) : Int) ≤ maxOcc := by
  unfold occSelected
  simp only [Bool.and_eq_true, bne_iff_ne, ne_eq, decide_eq_true_eq, and_assoc]

/-- a residue changes iff it is selected and differs from the replacement; it then becomes the replacement -/
theorem maskOcc_changed_iff (rows : CRows) (refseq : String) (refs : Seq) (maxOcc : Int) (mr : MaskRep) (rep0 : Byte)
    (i : Nat) (x : String × Seq) :
    (maskOccCell rows refseq refs maxOcc mr rep0 i x ≠ x.2.getD i 0 ↔
      occSelected rows refseq refs maxOcc i x = true ∧ x.2.getD i 0 ≠ occRepAt rows refseq refs mr rep0 i) ∧
    (maskOccCell rows refseq refs maxOcc mr rep0 i x ≠ x.2.getD i 0 →
      maskOccCell rows refseq refs maxOcc mr rep0 i x = occRepAt rows refseq refs mr rep0 i) := by
  unfold maskOccCell
  cases hs : occSelected rows refseq refs maxOcc i x
  · simp
  · simp only [↓reduceIte]
    exact ⟨⟨fun h => ⟨by simp, fun e => h e.symm⟩, fun h e => h.2 e.symm⟩, fun _ => by simp⟩

/-- **Reference handling and the other protected residues**: the reference row, residues equal to a
non-gap reference residue, gaps, and residues more frequent than the threshold are never selected — hence
(by `maskOcc_cells`) unchanged. -/
theorem maskOcc_not_selected (rows : CRows) (refseq : String) (refs : Seq) (maxOcc : Int) (i : Nat) (x : String × Seq) :
    (refseq ≠ "" → x.1 = refseq → occSelected rows refseq refs maxOcc i x = false) ∧
    (refseq ≠ "" → x.2.getD i 0 = refs.getD i 0 → refs.getD i 0 ≠ GAP → occSelected rows refseq refs maxOcc i x = false) ∧
    (x.2.getD i 0 = GAP → occSelected rows refseq refs maxOcc i x = false) ∧
    (maxOcc < ((occChars rows refseq refs i).count (x.2.getD i 0) : Int) → occSelected rows refseq refs maxOcc i x = false) := by
  refine ⟨?_, ?_, ?_, ?_⟩
  · intro h1 h2
    apply Bool.eq_false_iff.mpr
    intro hs
    obtain ⟨a, _, _⟩ := (maskOcc_selected_exactly _ _ _ _ _ _).mp hs
    rcases a with a | ⟨a, _⟩
    · exact h1 a
    · exact a h2
  · intro h1 h2 h3
    apply Bool.eq_false_iff.mpr
    intro hs
    obtain ⟨a, _, _⟩ := (maskOcc_selected_exactly _ _ _ _ _ _).mp hs
    rcases a with a | ⟨_, a | a⟩
    · exact h1 a
    · exact a h2
    · exact h3 a
  · intro h
    apply Bool.eq_false_iff.mpr
    intro hs
    exact ((sel_parts _ _ _ _ _ _).mp hs).2.1 h
  · intro h
    apply Bool.eq_false_iff.mpr
    intro hs
    have := ((sel_parts _ _ _ _ _ _).mp hs).2.2
    omega

/-- the thresholds at both ends: with `maxOcc ≤ 0` nothing is selected; with `maxOcc ≥` the number of rows
every counted non-gap residue is -/
theorem maskOcc_threshold_extremes (rows : CRows) (refseq : String) (refs : Seq) (maxOcc : Int) (i : Nat) (x : String × Seq)
    (hx : x ∈ rows) :
    (maxOcc ≤ 0 → occSelected rows refseq refs maxOcc i x = false) ∧
    ((rows.length : Int) ≤ maxOcc →
      (occSelected rows refseq refs maxOcc i x = true ↔ occCounts refseq refs i x = true ∧ x.2.getD i 0 ≠ GAP)) := by
  constructor
  · intro h
    apply Bool.eq_false_iff.mpr
    intro hs
    obtain ⟨a, _, c⟩ := (sel_parts _ _ _ _ _ _).mp hs
    have := count_pos_of_counted rows refseq refs i x hx a
    omega
  · intro h
    have h1 : (occChars rows refseq refs i).count (x.2.getD i 0) ≤ (occChars rows refseq refs i).length := List.count_le_length
    have h2 : (occChars rows refseq refs i).length ≤ rows.length := by
      unfold occChars; rw [List.length_map]; exact List.length_filter_le _ _
    rw [sel_parts]
    constructor
    · rintro ⟨a, b, _⟩; exact ⟨a, b⟩
    · rintro ⟨a, b⟩; exact ⟨a, b, by omega⟩

/-- **The replacement character of `MaskOccurences` in every mode**: N / X by alphabet, a gap, the given
character; for MAJ the most frequent residue *among the counted ones* of the column (lowest byte on ties)
whenever the column has a counted residue the table can hold (otherwise nothing is selected there, or the
residues lie outside the ASCII range of the property). -/
theorem maskOcc_replacement_char (rows : CRows) (refseq : String) (refs : Seq) (alphabet : Nat) (mr : MaskRep) (rep0 : Byte)
    (i : Nat) (h : repChar alphabet mr = some rep0) :
    (mr ≠ .maj → occRepAt rows refseq refs mr rep0 i = rep0) ∧
    (mr = .ambig → alphabet = AMINOACIDS → rep0 = 88) ∧ (mr = .ambig → alphabet = NUCLEOTIDS → rep0 = 78) ∧
    (mr = .gap → rep0 = GAP) ∧ (∀ c, mr = .char c → rep0 = c) ∧
    (mr = .maj → (∃ c ∈ occChars rows refseq refs i, c.toNat < 130) →
      occRepAt rows refseq refs mr rep0 i = majorityChar (occChars rows refseq refs i) 0 ∧
      occRepAt rows refseq refs mr rep0 i ∈ occChars rows refseq refs i ∧
      (∀ c : Byte, c.toNat < 130 →
        (occChars rows refseq refs i).count c ≤ (occChars rows refseq refs i).count (occRepAt rows refseq refs mr rep0 i)) ∧
      (∀ c : Byte, c.toNat < 130 →
        (occChars rows refseq refs i).count c = (occChars rows refseq refs i).count (occRepAt rows refseq refs mr rep0 i) →
        occRepAt rows refseq refs mr rep0 i ≤ c)) := by
  refine ⟨?_, ?_, ?_, ?_, ?_, ?_⟩
  · intro hm
    exact occRepAt_not_maj rows refseq refs mr rep0 (by simpa using hm) i
  · intro e1 e2; subst e1 e2; simpa [repChar] using h.symm
  · intro e1 e2; subst e1 e2
    have h' : repChar NUCLEOTIDS .ambig = some 78 := by decide
    rw [h'] at h; simpa using h.symm
  · intro e1; subst e1; simpa [repChar] using h.symm
  · intro c e1; subst e1; simpa [repChar] using h.symm
  · intro e1 hex
    subst e1
    have e : occRepAt rows refseq refs .maj rep0 i = majorityChar (occChars rows refseq refs i) 0 := by
      cases i with
      | zero => simp only [occRepAt, beq_self_eq_true, if_true]; exact majorityChar_indep _ _ _ hex
      | succ i => simp only [occRepAt, beq_self_eq_true, if_true]; exact majorityChar_indep _ _ _ hex
    obtain ⟨a, _, c, d⟩ := majorityChar_spec _ 0 hex
    rw [e]
    exact ⟨rfl, a, c, d⟩

/-- in a column without counted residue nothing is selected (so the carried MAJ value is never written) -/
theorem maskOcc_empty_column (rows : CRows) (refseq : String) (refs : Seq) (maxOcc : Int) (i : Nat) (x : String × Seq)
    (hx : x ∈ rows) (h : occChars rows refseq refs i = []) : occSelected rows refseq refs maxOcc i x = false := by
  apply Bool.eq_false_iff.mpr
  intro hs
  have := count_pos_of_counted rows refseq refs i x hx ((sel_parts _ _ _ _ _ _).mp hs).1
  rw [h] at this
  simp at this

/-- **`MaskUnique`** is `MaskOccurences` with threshold 1: a counted non-gap residue is selected iff no
other counted residue of its column equals it -/
theorem maskUnique_selected (rows : CRows) (L : Int) (alphabet : Nat) (refseq : String) (mr : MaskRep) (refs : Seq)
    (i : Nat) (x : String × Seq) (hx : x ∈ rows) :
    maskUnique rows L alphabet refseq mr = maskOccurences rows L alphabet refseq 1 mr ∧
    (occSelected rows refseq refs 1 i x = true ↔
      occCounts refseq refs i x = true ∧ x.2.getD i 0 ≠ GAP ∧ (occChars rows refseq refs i).count (x.2.getD i 0) = 1) := by
  refine ⟨rfl, ?_⟩
  rw [sel_parts]
  constructor
  · rintro ⟨a, b, c⟩
    have := count_pos_of_counted rows refseq refs i x hx a
    exact ⟨a, b, by omega⟩
  · rintro ⟨a, b, c⟩
    exact ⟨a, b, by omega⟩

/-! ## non-vacuity -/

example : mask [("a", [65, 45, 67, 71]), ("b", [65, 65, 67, 84])] 4 1 "a" 1 9 .ambig true true
    = some [("a", [65, 45, 67, 71]), ("b", [65, 78, 67, 78])] := by decide


-- `MaskOccurences`: reference `r` = ACGT-; threshold 1; row `c`'s `T` (col 0) and `A` (col 4, facing a gap of
-- the reference) are unique among the counted residues and masked; `G` in column 1 occurs twice and stays
example : maskOccurences [("r", [65, 67, 71, 84, 45]), ("b", [65, 71, 71, 84, 67]), ("c", [84, 71, 71, 84, 65])] 5 1 "r" 1 .ambig
    = some [("r", [65, 67, 71, 84, 45]), ("b", [65, 71, 71, 84, 78]), ("c", [78, 71, 71, 84, 78])] := by decide
example : Aligned [("r", [65, 67, 71, 84, 45]), ("b", [65, 71, 71, 84, 67]), ("c", [84, 71, 71, 84, 65])] 5 := by
  intro r hr; simp at hr; rcases hr with rfl | rfl | rfl <;> rfl
-- MAJ without reference: column `A, C, C, G` → the unique `A` and `G` become the majority `C`
set_option maxRecDepth 100000 in
example : maskUnique [("a", [65]), ("b", [67]), ("c", [67]), ("d", [71])] 1 1 "" .maj
    = some [("a", [67]), ("b", [67]), ("c", [67]), ("d", [67])] := by decide
set_option maxRecDepth 100000 in
example : ∃ c ∈ occChars [("a", [65]), ("b", [67]), ("c", [67]), ("d", [71])] "" [] 0, c.toNat < 130 := ⟨65, by decide, by decide⟩
set_option maxRecDepth 100000 in
example : majorityChar [65, 67, 67, 65] 0 = 65 := by decide   -- tie: lowest byte

end Gv.Props.C15
