import Gv.Model.Mask
/-!
# C15 — masking rewrites exactly the selected residues and nothing else
-/
namespace Gv.Props.C15
open Gv Gv.Model

/-- what a successful `Mask` returns: every row keeps its name and is rewritten cell by cell -/
theorem mask_result (rows : CRows) (L : Int) (alphabet : Nat) (refseq : String) (start len : Int) (mr : MaskRep)
    (nogap noref : Bool) (out : CRows) (h : mask rows L alphabet refseq start len mr nogap noref = some out) :
    ∃ rep0 refs, repChar alphabet mr = some rep0 ∧
      out = rows.map (fun r => (r.1, r.2.mapIdx fun i c =>
        maskCell rows L start len mr rep0 nogap (refseq != "" && noref) refs i c)) := by
  unfold mask at h
  split at h
  · cases h
  · split at h
    · cases h
    · split at h
      · cases h
      · rename_i rep0 hrep
        simp only [] at h
        split at h
        · cases h
        · rename_i refs _
          simp only [Option.some.injEq] at h
          exact ⟨rep0, refs, hrep, h.symm⟩

/-- **All names, the row order and the alignment length are unchanged.** -/
theorem mask_frame_names_lengths (rows : CRows) (L : Int) (alphabet : Nat) (refseq : String) (start len : Int)
    (mr : MaskRep) (nogap noref : Bool) (out : CRows)
    (h : mask rows L alphabet refseq start len mr nogap noref = some out) :
    out.map Prod.fst = rows.map Prod.fst ∧ out.map (fun r => r.2.length) = rows.map (fun r => r.2.length) := by
  obtain ⟨rep0, refs, _, e⟩ := mask_result _ _ _ _ _ _ _ _ _ _ h
  subst e
  constructor <;> simp [List.map_map, Function.comp_def]

/-- **Every residue outside the window, every protected gap and every residue protected by the
reference is left unchanged; every other residue of the window becomes the replacement character**:
cell `i` of row `k` of the result is `maskCell … i c` of the original cell `c`, which is `c` itself
unless `i` lies in `[start, start+len) ∩ [0, L)` and the cell is not protected. -/
theorem mask_cells (rows : CRows) (L : Int) (alphabet : Nat) (refseq : String) (start len : Int)
    (mr : MaskRep) (nogap noref : Bool) (out : CRows)
    (h : mask rows L alphabet refseq start len mr nogap noref = some out) :
    ∃ rep0 refs, repChar alphabet mr = some rep0 ∧ ∀ (k i : Nat) (r : String × Seq) (c : Byte),
      rows[k]? = some r → r.2[i]? = some c →
      ∃ r', out[k]? = some r' ∧ r'.1 = r.1 ∧
        r'.2[i]? = some (if inWindow L start len i && !protectedCell nogap (refseq != "" && noref) refs i c
                          then repAt rows mr rep0 i else c) := by
  obtain ⟨rep0, refs, hrep, e⟩ := mask_result _ _ _ _ _ _ _ _ _ _ h
  subst e
  refine ⟨rep0, refs, hrep, ?_⟩
  intro k i r c hk hi
  refine ⟨(r.1, r.2.mapIdx fun i c => maskCell rows L start len mr rep0 nogap (refseq != "" && noref) refs i c), ?_, rfl, ?_⟩
  · rw [List.getElem?_map, hk]; rfl
  · rw [List.getElem?_mapIdx, hi]; rfl

/-- in particular a residue outside the window is never touched -/
theorem mask_outside_window_unchanged (L start len : Int) (i : Nat) (h : ¬ (start ≤ (i : Int) ∧ (i : Int) < start + len))
    (rows : CRows) (mr : MaskRep) (rep0 : Byte) (nogap useRef : Bool) (refs : Seq) (c : Byte) :
    maskCell rows L start len mr rep0 nogap useRef refs i c = c := by
  unfold maskCell inWindow
  have : (decide (start ≤ (i : Int)) && decide ((i : Int) < start + len)) = false := by
    simp only [Bool.and_eq_false_iff, decide_eq_false_iff_not]
    by_cases a : start ≤ (i : Int)
    · right; intro b; exact h ⟨a, b⟩
    · left; exact a
  simp [this]

/-- **A window extending past the end is truncated rather than failing**: success only depends on
`0 ≤ start ≤ L`, the replacement mode and the reference name -/
theorem mask_ok_iff (rows : CRows) (L : Int) (alphabet : Nat) (refseq : String) (start len : Int)
    (mr : MaskRep) (nogap noref : Bool) :
    (mask rows L alphabet refseq start len mr nogap noref).isSome = true ↔
      (0 ≤ start ∧ start ≤ L ∧ (repChar alphabet mr).isSome = true ∧
       ((refseq != "" && noref) = true → (rows.find? fun r => r.1 == refseq).isSome = true)) := by
  unfold mask
  by_cases h1 : start < 0
  · simp [h1]; intro; omega
  · by_cases h2 : start > L
    · simp [h1, h2]; intro _ _; omega
    · simp only [h1, h2, if_false]
      cases hr : repChar alphabet mr with
      | none => simp
      | some rep0 =>
        simp only []
        by_cases hu : (refseq != "" && noref) = true
        · simp only [hu, if_true]
          cases hf : rows.find? (fun r => r.1 == refseq) with
          | none => simp
          | some r => simp; omega
        · simp only [hu]
          simp; omega

/-- the replacement character follows the mode: N or X by alphabet, a gap, the given character -/
theorem repChar_spec :
    repChar AMINOACIDS .ambig = some 88 ∧ repChar NUCLEOTIDS .ambig = some 78 ∧ repChar UNKNOWN .ambig = none ∧
    (∀ a, repChar a .gap = some GAP) ∧ (∀ a c, repChar a (.char c) = some c) ∧ (∀ a, repChar a .bad = none) := by
  refine ⟨by decide, by decide, by decide, fun _ => rfl, fun _ _ => rfl, fun _ => rfl⟩

/-! ## non-vacuity -/

example : mask [("a", [65, 45, 67, 71]), ("b", [65, 65, 67, 84])] 4 1 "a" 1 9 .ambig true true
    = some [("a", [65, 45, 67, 71]), ("b", [65, 78, 67, 78])] := by decide

end Gv.Props.C15
