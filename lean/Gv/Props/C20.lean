import Gv.Proofs.WeightsNorm
import Gv.Proofs.IncGamma
import Mathlib.Data.List.Sort
import Mathlib.Analysis.SpecialFunctions.Gamma.Basic
/-!
# C20 — random site weights and rate categories are correctly normalised

All theorems are over `ℝ` and about the hand-written, executable models of `lean/Gv/Model/Weights.lean`
(generic in the numeric type; the oracle runs the same text at `Float` and replays the Go calls exactly
from the seed).  Randomised code is a program over `rand.Float64()` draws (`FProg`); theorems quantify
over **every answer tape** (`runTape`), and `runSeedF_is_runTape` shows every seeded run of the Go
generator replica is a tape run — so they cover every seed.  Rejection loops carry a fuel bound in the
model; an exhausted fuel is the explicit outcome `none` / `Res.fuel`, about which nothing is claimed.

What is proved at full strength
* every value accepted by the three branches of `stats.gamma` is `> 0` (`alpha > 1`: any tape;
  `alpha = 1`: draws `< 1`; `alpha < 1`: draws in `(0,1)`, and `≥ 0` for draws in `[0,1)` — the draw `0`
  (probability `2^-63`) yields the value `0`, see the `example`);
* `Dirichlet`: error iff `len(alpha) <= 2` or some `alpha_i <= 0`; an `ok` sample has one entry per
  parameter, sums to `factor` (draws in `(0,1)`; or, for any tape, whenever the total of the gamma
  draws is non-zero) and is entrywise `> 0`; `Dirichlet1`: error iff `nvalues <= 2`, sums to `factor`;
* `BuildWeightsGamma` (`L ≥ 2`, ANY tape) and `BuildWeightsDirichlet` (`L ≥ 3`, draws in `[0,1)`): never an
  error/exit, one strictly positive weight per site, sum `= L`;
* `DiscreteGamma`: for ANY primitive and ANY quantiles the categories sum to `ncat` (mean 1); they are
  `≥ 0` for a monotone `[0,1]`-valued primitive and sorted quantiles;
* `IncompleteGamma`: the series loop returns exactly the series prefix up to the first term `≤ 1e-8`
  and terminates for every `x ≥ 0`, `alpha > 0`; value of the series branch; the guards; the test
  `math.Abs(pn[5]) < .0` is never true.

NOT proved (checked numerically by the correspondence run, see `PARTIAL` in `driver/props/c20.py`):
monotonicity / range / accuracy of the floating incomplete-gamma ratio, the continued-fraction branch,
gonum's `Quantile`, that categories are non-decreasing (`discreteGamma_nondecreasing_partial` reduces
it to convexity of the primitive along the quantiles), and everything about float rounding
(`math.Log/Exp/Pow/Sqrt/Gamma` are trusted externals).
-/
namespace Gv.Props.C20
open Gv Gv.Model Gv.Model.FProg Gv.Model.Weights
open Gv.Proofs.WeightsTape Gv.Proofs.WeightsNorm Gv.Proofs.IncGamma

/-! ## every seeded run is a tape run -/

private theorem runGen_toRProg {α} (p : FProg Float α) : ∀ s,
    RProg.runGen goGen p.toRProg s = FProg.runGen GoRng.float64 p s := by
  induction p with
  | pure a => intro s; rfl
  | unit k ih => intro s; simp only [FProg.toRProg, RProg.runGen, FProg.runGen, goGen]; exact ih _ _

/-- the exact replay `rand.Seed(seed)` + program is the tape run on the draws it made: whatever holds
for all tapes holds for every seed -/
theorem runSeedF_is_runTape {α} (p : FProg Float α) (seed : Int) :
    ∃ t, FProg.runTape p t = some (runSeedF p seed, []) := by
  refine ⟨FProg.trace GoRng.float64 p (GoRng.seed seed), ?_⟩
  rw [FProg.runGen_is_runTape]
  simp [runSeedF, runSeed, runGen_toRProg]

theorem gammaS_every_seed (alpha beta : Float) (fuel : ℕ) (seed : Int) :
    ∃ t, FProg.runTape (gammaS alpha beta fuel) t = some (runSeedF (gammaS alpha beta fuel) seed, []) :=
  runSeedF_is_runTape _ _

theorem weightsGamma_every_seed (L fuel : ℕ) (seed : Int) :
    ∃ t, FProg.runTape (buildWeightsGamma (φ := Float) L fuel) t = some (runSeedF (buildWeightsGamma L fuel) seed, []) :=
  runSeedF_is_runTape _ _

theorem weightsDirichlet_every_seed (L fuel : ℕ) (seed : Int) :
    ∃ t, FProg.runTape (buildWeightsDirichlet (φ := Float) L fuel) t = some (runSeedF (buildWeightsDirichlet L fuel) seed, []) :=
  runSeedF_is_runTape _ _

/-! ## the gamma sampler: accepted values are positive -/

/-- `alpha > 1` (Cheng): `x·beta = alpha·e^v·beta > 0` on every tape (the acceptance region requires
`1e-7 < u1 < .9999999`; positivity does not even need it) -/
theorem gammaCheng_pos {alpha beta : ℝ} (ha : 0 < alpha) (hb : 0 < beta) (fuel : ℕ) (t : List ℝ)
    {x : ℝ} {t' : List ℝ} (h : runTape (gammaCheng alpha beta fuel) t = some (some x, t')) : 0 < x :=
  (gammaCheng_post (fun _ => True) ha hb fuel).result (fun _ _ => trivial) h x rfl

/-- `alpha == 1`: `-log u · beta > 0` because the loop only lets `1e-7 < u` through and `Float64() < 1` -/
theorem gammaOne_pos {beta : ℝ} (hb : 0 < beta) (fuel : ℕ) (t : List ℝ) (ht : ∀ u ∈ t, u < 1)
    {x : ℝ} {t' : List ℝ} (h : runTape (gammaOne beta fuel) t = some (some x, t')) : 0 < x :=
  (gammaOne_post (A := fun u => u < 1) (fun _ h => h) hb fuel).result ht h x rfl

/-- `alpha < 1` (Kennedy & Gentle): the two-piece inverse is `> 0` for draws in `(0,1)` -/
theorem gammaKG_pos {alpha beta : ℝ} (ha : 0 < alpha) (hb : 0 < beta) (fuel : ℕ) (t : List ℝ)
    (ht : ∀ u ∈ t, 0 < u ∧ u < 1) {x : ℝ} {t' : List ℝ}
    (h : runTape (gammaKG alpha beta fuel) t = some (some x, t')) : 0 < x :=
  (gammaKG_post (A := Open01) (P := fun x => 0 < x)
    (fun _ hu => mul_pos (kgX_pos ha hu.1 hu.2) hb) fuel).result ht h x rfl

/-- … and `≥ 0` for every answer of `rand.Float64()` (draws in `[0,1)`) -/
theorem gammaKG_nonneg {alpha beta : ℝ} (ha : 0 < alpha) (hb : 0 < beta) (fuel : ℕ) (t : List ℝ)
    (ht : ∀ u ∈ t, 0 ≤ u ∧ u < 1) {x : ℝ} {t' : List ℝ}
    (h : runTape (gammaKG alpha beta fuel) t = some (some x, t')) : 0 ≤ x :=
  (gammaKG_post (A := Unit01) (P := fun x => 0 ≤ x)
    (fun _ hu => mul_nonneg (kgX_nonneg ha hu.1 hu.2) hb.le) fuel).result ht h x rfl

/-- the sampler `gamma(alpha, beta)`, whichever branch the shape selects -/
theorem gammaS_pos {alpha beta : ℝ} (ha : 0 < alpha) (hb : 0 < beta) (fuel : ℕ) (t : List ℝ)
    (ht : ∀ u ∈ t, 0 < u ∧ u < 1) {x : ℝ} {t' : List ℝ}
    (h : runTape (gammaS alpha beta fuel) t = some (some x, t')) : 0 < x :=
  (gammaS_post ha hb fuel).result ht h x rfl

/-- non-vacuity (`alpha == 1`): the draw `1/2` is accepted at once and gives `-log(1/2)·beta` -/
example : runTape (gammaOne (2 : ℝ) 1) [1 / 2] = some (some (-(Real.log (1 / 2)) * 2), []) := by
  simp only [gammaOne, runTape, RealLike.real_leb, c1em7_real, RealLike.real_log]
  norm_num [runTape]

/-- the corner the strict statement excludes: `rand.Float64()` can return `0` (probability `2^-63`), and
then the `alpha < 1` branch returns the value `0` (in floating point the same happens far more often
through underflow of `p^(1/alpha)` for tiny shapes — known finding) -/
example : runTape (gammaKG (1 / 2 : ℝ) 1 1) [0, 1 / 2] = some (some 0, []) := by
  have h0 : kgX (1 / 2 : ℝ) 0 = 0 := kgX_zero (by norm_num)
  simp only [gammaKG, runTape, h0, mul_zero, RealLike.real_ltb, RealLike.real_leb, RealLike.real_exp,
    RealLike.real_one, neg_zero, Real.exp_zero, zero_mul]
  norm_num [runTape]

/-! ## Dirichlet -/

/-- **Dirichlet samples sum to the requested total** — for EVERY tape, given a non-zero total of the
gamma draws: an `ok` result is `factor·g_i/Σg` for one draw `g_i` per parameter -/
theorem dirichlet_sums_to_factor (factor : ℝ) (alphas : List ℝ) (fuel : ℕ) (t : List ℝ)
    {w : List ℝ} {t' : List ℝ} (h : runTape (dirichlet factor alphas fuel) t = some (.ok w, t')) :
    ∃ gs : List ℝ, gs.length = alphas.length ∧ w = gs.map (fun x => factor * x / gs.sum) ∧
      (gs.sum ≠ 0 → w.sum = factor) := by
  have hp := (dirichlet_post (A := fun _ => True) (Pg := fun _ => True) fuel factor alphas
    (fun a _ _ => Post.mono (Post.trivial _) (fun _ _ _ _ => trivial))).result (fun _ _ => trivial) h w rfl
  obtain ⟨_, _, gs, h1, _, h3⟩ := hp
  refine ⟨gs, h1, h3, ?_⟩
  intro hS
  rw [h3, sum_map_mul_div]; field_simp

/-- … and unconditionally for draws in `(0,1)`: one entry per parameter, sum `= factor` -/
theorem dirichlet_sums_to_factor_every_tape (factor : ℝ) (alphas : List ℝ) (fuel : ℕ) (t : List ℝ)
    (ht : ∀ u ∈ t, 0 < u ∧ u < 1) {w : List ℝ} {t' : List ℝ}
    (h : runTape (dirichlet factor alphas fuel) t = some (.ok w, t')) :
    w.length = alphas.length ∧ w.sum = factor := by
  have hp := (dirichlet_post (A := Open01) (Pg := fun x => 0 < x) fuel factor alphas
    (fun a _ ha => gammaS_post ha one_pos fuel)).result ht h w rfl
  obtain ⟨hlen, _, gs, h1, h2, h3⟩ := hp
  have hne : gs ≠ [] := by intro e; rw [e] at h1; simp at h1; omega
  subst h3
  exact ⟨by simp [h1], normalised_sum hne h2⟩

/-- every entry of a Dirichlet sample with a positive factor is strictly positive (draws in `(0,1)`) -/
theorem dirichlet_entries_pos {factor : ℝ} (hf : 0 < factor) (alphas : List ℝ) (fuel : ℕ) (t : List ℝ)
    (ht : ∀ u ∈ t, 0 < u ∧ u < 1) {w : List ℝ} {t' : List ℝ}
    (h : runTape (dirichlet factor alphas fuel) t = some (.ok w, t')) : ∀ x ∈ w, 0 < x := by
  have hp := (dirichlet_post (A := Open01) (Pg := fun x => 0 < x) fuel factor alphas
    (fun a _ ha => gammaS_post ha one_pos fuel)).result ht h w rfl
  obtain ⟨hlen, _, gs, h1, h2, h3⟩ := hp
  have hne : gs ≠ [] := by intro e; rw [e] at h1; simp at h1; omega
  have hS := sum_pos_of_pos gs hne h2
  subst h3
  intro x hx
  simp only [List.mem_map] at hx
  obtain ⟨g, hg, rfl⟩ := hx
  have := h2 g hg
  positivity

/-- **invalid Dirichlet parameters are reported**: with a parameter `≤ 0` no tape yields a sample -/
theorem dirichlet_rejects_nonpositive_alpha (factor : ℝ) (alphas : List ℝ) (fuel : ℕ) (t : List ℝ)
    (hbad : ∃ a ∈ alphas, a ≤ 0) {r : Res (List ℝ)} {t' : List ℝ}
    (h : runTape (dirichlet factor alphas fuel) t = some (r, t')) : r = .err ∨ r = .fuel :=
  ((dirichlet_err (A := fun _ => True) fuel factor alphas).result (fun _ _ => trivial) h).2.1
    (Or.inr (hbad.imp fun _ h => ⟨h.1, Or.inl h.2⟩))

/-- the complete error rule, including the arity rule as coded (`len(alpha) <= 2`, although the message
says "less than 2 values"): unless the model's fuel ran out, `err` iff at most two parameters or
some parameter `≤ 0` or `+Inf` (`math.IsInf(a, 1)`, i.e. `> MaxFloat64`; NaN is not a real number: at
`Float` the test `!(a > 0.0)` rejects it); `os.Exit` is never reached -/
theorem dirichlet_error_iff (factor : ℝ) (alphas : List ℝ) (fuel : ℕ) (t : List ℝ)
    {r : Res (List ℝ)} {t' : List ℝ} (h : runTape (dirichlet factor alphas fuel) t = some (r, t')) (hfuel : r ≠ .fuel) :
    (r = .err ↔ (alphas.length ≤ 2 ∨ ∃ a ∈ alphas, a ≤ 0 ∨ (maxFloat : ℝ) < a)) ∧ r ≠ .exit := by
  obtain ⟨h1, h2, h3⟩ := (dirichlet_err (A := fun _ => True) fuel factor alphas).result (fun _ _ => trivial) h
  exact ⟨⟨h1, fun hc => (h2 hc).resolve_right hfuel⟩, h3⟩

example : runTape (dirichlet (1 : ℝ) [1, 1] 5) [] = some (.err, []) := by simp [dirichlet, runTape]
example : runTape (dirichlet (1 : ℝ) [0, 1, 1] 5) [] = some (.err, []) := by
  simp [dirichlet, dirichletLoop, runTape, FProg.bind]

/-! ### Dirichlet1 -/

private theorem insertAsc_eq (a : ℝ) : ∀ l : List ℝ, insertAsc a l = l.orderedInsert (· ≤ ·) a
  | [] => rfl
  | b :: l => by
    simp only [insertAsc, List.orderedInsert_cons, RealLike.real_leb, decide_eq_true_eq, insertAsc_eq a l]

private theorem sortAsc_eq : ∀ l : List ℝ, sortAsc l = l.insertionSort (· ≤ ·)
  | [] => rfl
  | a :: l => by simp only [sortAsc, List.insertionSort_cons, sortAsc_eq l, insertAsc_eq]

private theorem scaledDiffs_sum (F : ℝ) : ∀ (l : List ℝ) (a : ℝ),
    (scaledDiffs F (a :: l)).sum = F * ((a :: l).getLast (by simp) - a)
  | [], a => by simp [scaledDiffs]
  | b :: l, a => by
    have ih := scaledDiffs_sum F l b
    simp only [scaledDiffs, List.sum_cons, ih, List.getLast_cons_cons]
    ring

private theorem scaledDiffs_length (F : ℝ) : ∀ (l : List ℝ) (a : ℝ), (scaledDiffs F (a :: l)).length = l.length
  | [], a => by simp [scaledDiffs]
  | b :: l, a => by simp [scaledDiffs, scaledDiffs_length F l b]

private theorem scaledDiffs_nonneg {F : ℝ} (hF : 0 ≤ F) : ∀ (l : List ℝ) (a : ℝ),
    List.Pairwise (· ≤ ·) (a :: l) → ∀ x ∈ scaledDiffs F (a :: l), 0 ≤ x
  | [], a, _, x, hx => by simp [scaledDiffs] at hx
  | b :: l, a, hp, x, hx => by
    simp only [scaledDiffs, List.mem_cons] at hx
    rcases hx with rfl | hx
    · have : a ≤ b := (List.pairwise_cons.1 hp).1 b (by simp)
      exact mul_nonneg hF (by linarith)
    · exact scaledDiffs_nonneg hF l b (List.pairwise_cons.1 hp).2 x hx

private theorem le_getLast : ∀ (l : List ℝ) (a : ℝ), List.Pairwise (· ≤ ·) (a :: l) →
    ∀ b ∈ a :: l, b ≤ (a :: l).getLast (by simp)
  | [], a, _, b, hb => by simp at hb; simp [hb]
  | c :: l, a, hp, b, hb => by
    rw [List.getLast_cons_cons]
    have hp' := (List.pairwise_cons.1 hp)
    have ih := le_getLast l c hp'.2
    rcases List.mem_cons.1 hb with rfl | hb
    · exact le_trans (hp'.1 c (by simp)) (ih c (by simp))
    · exact ih b hb

private theorem drawN_post {A : ℝ → Prop} : ∀ n : ℕ,
    Post A (drawN n) (fun us => us.length = n ∧ ∀ u ∈ us, A u)
  | 0 => Post.pure ⟨rfl, by simp⟩
  | n + 1 => by
    unfold drawN
    refine Post.unit fun u hu => Post.bind (drawN_post n) ?_
    rintro l ⟨h1, h2⟩
    refine Post.pure ⟨by simp [h1], ?_⟩
    intro v hv
    rcases List.mem_cons.1 hv with rfl | hv
    · exact hu
    · exact h2 v hv

/-- `Dirichlet1`: an error iff `nvalues <= 2` (on every tape) -/
theorem dirichlet1_error_iff (factor : ℝ) (n : ℕ) (t : List ℝ) {r : Res (List ℝ)} {t' : List ℝ}
    (h : runTape (dirichlet1 factor n) t = some (r, t')) : r = .err ↔ n ≤ 2 := by
  unfold dirichlet1 at h
  split at h
  · rename_i hn
    simp only [runTape, Option.some.injEq, Prod.mk.injEq] at h
    exact ⟨fun _ => hn, fun _ => h.1.symm⟩
  · rename_i hn
    rw [runTape_bind] at h
    cases hd : runTape (drawN (φ := ℝ) (n - 1)) t with
    | none => simp [hd] at h
    | some v =>
      simp only [hd, Option.bind_some, runTape, Option.some.injEq, Prod.mk.injEq] at h
      exact ⟨fun e => (by rw [← h.1] at e; cases e), fun hle => absurd hle hn⟩

/-- `Dirichlet1` samples have `nvalues` non-negative entries that sum to `factor` (draws in `[0,1]`) -/
theorem dirichlet1_sums_to_factor {factor : ℝ} (hf : 0 ≤ factor) (n : ℕ) (t : List ℝ)
    (ht : ∀ u ∈ t, 0 ≤ u ∧ u ≤ 1) {w : List ℝ} {t' : List ℝ}
    (h : runTape (dirichlet1 factor n) t = some (.ok w, t')) :
    w.length = n ∧ w.sum = factor ∧ ∀ x ∈ w, 0 ≤ x := by
  unfold dirichlet1 at h
  split at h
  · simp [runTape] at h
  · rename_i hn
    rw [runTape_bind] at h
    cases hd : runTape (drawN (φ := ℝ) (n - 1)) t with
    | none => simp [hd] at h
    | some v =>
      obtain ⟨us, t₁⟩ := v
      simp only [hd, Option.bind_some, runTape, Option.some.injEq, Prod.mk.injEq, Res.ok.injEq] at h
      obtain ⟨hus, hA⟩ := (drawN_post (A := fun u => 0 ≤ u ∧ u ≤ 1) (n - 1)).result ht hd
      obtain ⟨hw, _⟩ := h
      simp only [RealLike.real_zero, RealLike.real_one, sortAsc_eq] at hw
      -- the sorted intervals
      set s := (0 :: 1 :: us).insertionSort (· ≤ ·) with hs
      have hperm : s.Perm (0 :: 1 :: us) := List.perm_insertionSort _ _
      have hsorted : s.Pairwise (· ≤ ·) := List.pairwise_insertionSort _ _
      have hmem : ∀ x ∈ s, 0 ≤ x ∧ x ≤ 1 := by
        intro x hx
        have := hperm.mem_iff.1 hx
        simp only [List.mem_cons] at this
        rcases this with rfl | rfl | hx
        · exact ⟨le_rfl, zero_le_one⟩
        · exact ⟨zero_le_one, le_rfl⟩
        · exact hA x hx
      have hlen : s.length = us.length + 2 := by rw [hperm.length_eq]; simp
      obtain ⟨a, l, hsl⟩ : ∃ a l, s = a :: l := by
        cases hs' : s with
        | nil => rw [hs'] at hlen; simp at hlen
        | cons a l => exact ⟨a, l, rfl⟩
      rw [hsl] at hw hsorted hmem hlen
      have h0 : (0 : ℝ) ∈ a :: l := by rw [← hsl]; exact hperm.mem_iff.2 (by simp)
      have h1 : (1 : ℝ) ∈ a :: l := by rw [← hsl]; exact hperm.mem_iff.2 (by simp)
      have ha : a = 0 := by
        apply le_antisymm _ (hmem a (by simp)).1
        rcases List.mem_cons.1 h0 with e | e
        · exact e.ge
        · exact (List.pairwise_cons.1 hsorted).1 0 e
      have hlast : (a :: l).getLast (by simp) = 1 := by
        apply le_antisymm (hmem _ (List.getLast_mem _)).2
        exact le_getLast l a hsorted 1 h1
      subst hw
      refine ⟨?_, ?_, scaledDiffs_nonneg hf l a hsorted⟩
      · rw [scaledDiffs_length]; simp at hlen; omega
      · rw [scaledDiffs_sum, hlast, ha]; ring

/-! ## weight vectors of the weighted bootstrap -/

/-- `BuildWeightsGamma` (alignment length `L ≥ 2`; the shape is `L/(L-1) > 1`, Cheng's branch): on EVERY
tape on which it returns, the result is a vector of `L` strictly positive weights that sum to `L` -/
theorem weightsGamma_sum_eq_length {L : ℕ} (hL : 2 ≤ L) (fuel : ℕ) (t : List ℝ)
    {r : Res (List ℝ)} {t' : List ℝ} (h : runTape (buildWeightsGamma L fuel) t = some (r, t')) :
    r ≠ .err ∧ r ≠ .exit ∧ ∀ w, r = .ok w → w.length = L ∧ (∀ x ∈ w, 0 < x) ∧ w.sum = (L : ℝ) :=
  (buildWeightsGamma_post (fun _ => True) hL fuel).result (fun _ _ => trivial) h

/-- `BuildWeightsDirichlet` (`L ≥ 3`; `Dirichlet(L; 1,…,1)` through the `alpha == 1` branch): for every tape
of `rand.Float64()` answers (`[0,1)`), `L` strictly positive weights that sum to `L` -/
theorem weightsDirichlet_sum_eq_length {L : ℕ} (hL : 3 ≤ L) (fuel : ℕ) (t : List ℝ)
    (ht : ∀ u ∈ t, 0 ≤ u ∧ u < 1) {r : Res (List ℝ)} {t' : List ℝ}
    (h : runTape (buildWeightsDirichlet L fuel) t = some (r, t')) :
    r ≠ .err ∧ r ≠ .exit ∧ ∀ w, r = .ok w → w.length = L ∧ (∀ x ∈ w, 0 < x) ∧ w.sum = (L : ℝ) :=
  (buildWeightsDirichlet_post hL fuel).result ht h

/-- **weights sum to the alignment length** — both builders, all lengths `≥ 3`, all admissible tapes -/
theorem weights_sum_eq_length {L : ℕ} (hL : 3 ≤ L) (fuel : ℕ) (t : List ℝ) (ht : ∀ u ∈ t, 0 ≤ u ∧ u < 1)
    {w : List ℝ} {t' : List ℝ}
    (h : runTape (buildWeightsGamma L fuel) t = some (.ok w, t') ∨
         runTape (buildWeightsDirichlet L fuel) t = some (.ok w, t')) :
    w.length = L ∧ (∀ x ∈ w, 0 < x) ∧ w.sum = (L : ℝ) := by
  rcases h with h | h
  · exact (weightsGamma_sum_eq_length (by omega) fuel t h).2.2 w rfl
  · exact (weightsDirichlet_sum_eq_length hL fuel t ht h).2.2 w rfl

/-- non-vacuity of the hypotheses of `weights_sum_eq_length`: the admissible tape `[1/2, 1/2, 1/2]` makes
`BuildWeightsDirichlet` return a weight vector for an alignment of length 3 (each draw is accepted at once) -/
example : ∃ w, runTape (buildWeightsDirichlet (φ := ℝ) 3 1) [1 / 2, 1 / 2, 1 / 2] = some (.ok w, []) := by
  have hm : ¬ (maxFloat : ℝ) < 1 := not_lt.2 one_le_maxFloat
  refine ⟨?w, ?h⟩
  case h =>
    simp only [buildWeightsDirichlet, dirichlet, List.replicate, List.length_cons, List.length_nil, dirichletLoop,
      gammaS, gammaOne, RealLike.real_ltb, RealLike.real_leb, RealLike.real_eqb, RealLike.real_one,
      RealLike.real_zero, c1em7_real, RealLike.real_ofNat', RealLike.real_log]
    norm_num [FProg.bind, runTape, dirichletLoop, gammaS, gammaOne, hm]
    rfl

/-- for alignments of length `≤ 2` `BuildWeightsDirichlet` silently returns no weights (the error of
`Dirichlet` is dropped) — outside the property's quantifier, recorded for the model -/
example : runTape (buildWeightsDirichlet (φ := ℝ) 2 5) [] = some (.ok [], []) := by
  simp [buildWeightsDirichlet, dirichlet, FProg.bind, runTape]

/-- non-vacuity of Cheng's branch: the draws `u1 = 1/2`, `Float64() = 0` are accepted (`v = 0`,
`x = alpha`, `z = 1/4`, `r = -log 4 = log z`) and give `alpha·beta` -/
example : runTape (gammaCheng (2 : ℝ) 1 1) [1 / 2, 0] = some (some (2 * 1), []) := by
  have e1 : ((1 : ℝ) / 2) / (1 - 1 / 2) = 1 := by norm_num
  have e2 : Real.log ((1 : ℝ) / 4) ≤ -Real.log 4 := by rw [one_div, Real.log_inv]
  simp only [gammaCheng, runTape, RealLike.real_ltb, RealLike.real_leb, RealLike.real_log, RealLike.real_exp,
    RealLike.real_sqrt, c1em7_real, c9999999_real, RealLike.real_one, RealLike.real_zero, RealLike.real_ofNat,
    e1, Real.log_one, zero_div, mul_zero, Real.exp_zero, add_zero, mul_one]
  norm_num [runTape]
  rw [if_pos (Or.inr e2)]
  simp [runTape]

/-! ## discrete-gamma rate categories -/

/-- consecutive differences -/
def increments : List ℝ → List ℝ
  | a :: b :: l => (b - a) :: increments (b :: l)
  | _ => []

private theorem categoriesOf_eq_increments (F : ℝ) : ∀ (l : List ℝ) (prev : ℝ),
    categoriesOf F prev l = (increments (prev :: l ++ [1])).map (· * F)
  | [], prev => by simp [categoriesOf, increments]
  | f :: rest, prev => by
    simp only [categoriesOf, List.cons_append, increments, List.map_cons, categoriesOf_eq_increments F rest f]

private theorem forall₂_mem_right {α β : Type} {R : α → β → Prop} : ∀ {l₁ : List α} {l₂ : List β},
    List.Forall₂ R l₁ l₂ → ∀ b ∈ l₂, ∃ a ∈ l₁, R a b
  | _, _, .nil, b, hb => by simp at hb
  | _, _, .cons (a := a) (l₁ := l₁) h ht, b, hb => by
    rcases List.mem_cons.1 hb with rfl | hb
    · exact ⟨a, by simp, h⟩
    · obtain ⟨a', ha', hr⟩ := forall₂_mem_right ht b hb
      exact ⟨a', by simp [ha'], hr⟩

/-- what `DiscreteGamma` returns, for ANY primitive `ig` (values `freq`): `ncat` numbers that sum to `ncat` -/
theorem discreteGamma_mean_one (ig : ℝ → Option ℝ) {alpha : ℝ} (ha : alpha ≠ 0) (ncat : ℕ) (quantiles : List ℝ)
    (hq : quantiles.length + 1 = ncat) {r : List ℝ} (h : discreteGammaWith ig alpha ncat quantiles = some r) :
    r.length = ncat ∧ r.sum = (ncat : ℝ) ∧ r.sum / (ncat : ℝ) = 1 := by
  unfold discreteGammaWith at h
  simp only [RealLike.real_ofNat', div_self ha, one_mul] at h
  cases hm : mapOpt (fun q => ig (q * alpha)) quantiles with
  | none => simp [hm] at h
  | some freq =>
    have hl := mapOpt_length _ _ _ hm
    simp only [hm, Option.bind_some] at h
    cases freq with
    | nil => simp [assemble] at h
    | cons f0 rest =>
      simp only [assemble, Option.some.injEq] at h
      subst h
      have hn : (0 : ℝ) < (ncat : ℝ) := by exact_mod_cast (by omega : 0 < ncat)
      have hsum : (f0 * (ncat : ℝ) :: categoriesOf (ncat : ℝ) f0 rest).sum = (ncat : ℝ) := by
        rw [List.sum_cons, categoriesOf_sum]; ring
      refine ⟨?_, hsum, ?_⟩
      · simp only [List.length_cons, categoriesOf_length]
        simp only [List.length_cons] at hl
        omega
      · rw [hsum, div_self hn.ne']

/-- categories are non-negative when the primitive is monotone with values in `[0,1]` and the quantiles
are sorted (`alpha > 0`) -/
theorem discreteGamma_nonneg_of_monotone_primitive (ig : ℝ → Option ℝ) {alpha : ℝ} (ha : 0 < alpha) (ncat : ℕ)
    (quantiles : List ℝ) (hsorted : List.IsChain (· ≤ ·) quantiles)
    (hmono : ∀ x y a b, x ≤ y → ig x = some a → ig y = some b → a ≤ b)
    (hrange : ∀ x a, ig x = some a → 0 ≤ a ∧ a ≤ 1)
    {r : List ℝ} (h : discreteGammaWith ig alpha ncat quantiles = some r) : ∀ x ∈ r, 0 ≤ x := by
  unfold discreteGammaWith at h
  simp only [RealLike.real_ofNat', div_self ha.ne', one_mul] at h
  cases hm : mapOpt (fun q => ig (q * alpha)) quantiles with
  | none => simp [hm] at h
  | some freq =>
    have hspec := mapOpt_spec _ _ _ hm
    simp only [hm, Option.bind_some] at h
    -- the stored values form a chain and lie in [0,1]
    have hchain : List.IsChain (· ≤ ·) freq := by
      clear h hm
      induction hspec with
      | nil => exact List.IsChain.nil
      | @cons q f qs fs hqf hrest ih =>
        cases hrest with
        | nil => exact List.IsChain.singleton _
        | @cons q2 f2 qs2 fs2 hqf2 hrest2 =>
          cases hsorted with
          | cons_cons hle hc =>
            exact List.IsChain.cons_cons
              (hmono _ _ _ _ (mul_le_mul_of_nonneg_right hle ha.le) hqf hqf2) (ih hc)
    have hr01 : ∀ f ∈ freq, 0 ≤ f ∧ f ≤ 1 := by
      intro f hf
      obtain ⟨q, _, hq⟩ := forall₂_mem_right hspec f hf
      exact hrange _ _ hq
    cases freq with
    | nil => simp [assemble] at h
    | cons f0 rest =>
      simp only [assemble, Option.some.injEq] at h
      subst h
      have hn : (0 : ℝ) ≤ (ncat : ℝ) := Nat.cast_nonneg _
      intro x hx
      rcases List.mem_cons.1 hx with rfl | hx
      · exact mul_nonneg (hr01 f0 (by simp)).1 hn
      · exact categoriesOf_nonneg hn rest f0 hchain (fun f hf => (hr01 f hf).2) x hx

/-- the categories ARE the increments of the primitive along `0, q₁, …, q_{K-1}, ∞` times `ncat`; hence they
are non-decreasing **iff those increments are** — a convexity property of the exact gamma law that is not
provable for an arbitrary primitive (partial: checked numerically on the real code) -/
theorem discreteGamma_nondecreasing_partial (ig : ℝ → Option ℝ) {alpha : ℝ} (ha : alpha ≠ 0) (ncat : ℕ)
    (quantiles : List ℝ) {r : List ℝ} (h : discreteGammaWith ig alpha ncat quantiles = some r) :
    ∃ freq, mapOpt (fun q => ig (q * alpha)) quantiles = some freq ∧
      r = (increments (0 :: freq ++ [1])).map (· * (ncat : ℝ)) ∧
      (List.IsChain (· ≤ ·) (increments (0 :: freq ++ [1])) → List.IsChain (· ≤ ·) r) := by
  unfold discreteGammaWith at h
  simp only [RealLike.real_ofNat', div_self ha, one_mul] at h
  cases hm : mapOpt (fun q => ig (q * alpha)) quantiles with
  | none => simp [hm] at h
  | some freq =>
    simp only [hm, Option.bind_some] at h
    cases freq with
    | nil => simp [assemble] at h
    | cons f0 rest =>
      simp only [assemble, Option.some.injEq] at h
      have hr : r = (increments (0 :: (f0 :: rest) ++ [1])).map (· * (ncat : ℝ)) := by
        rw [← h, categoriesOf_eq_increments]
        simp [increments]
      refine ⟨f0 :: rest, rfl, hr, ?_⟩
      intro hc
      rw [hr, List.isChain_map]
      exact hc.imp fun a b hab => mul_le_mul_of_nonneg_right hab (Nat.cast_nonneg _)

/-- non-vacuity: a concrete primitive and two quantiles give three categories with mean one -/
example : discreteGammaWith (fun x : ℝ => some (x / (1 + x))) (1 : ℝ) 3 [1, 3] = some [1 / 2 * 3, (3 / 4 - 1 / 2) * 3, (1 - 3 / 4) * 3] := by
  simp only [discreteGammaWith, mapOpt, assemble, categoriesOf, RealLike.real_ofNat', RealLike.real_one, Option.bind_some]
  norm_num

/-! ## the incomplete gamma ratio -/

/-- **the series loop computes the series prefix and stops at the first term `≤ 1e-8`**
(`seriesTerm x p k = x^k/((p+1)…(p+k))`, `seriesPrefix x p n = Σ_{k≤n}`) -/
theorem incompleteGamma_series_is_partial_sum (x p : ℝ) (fuel : ℕ) {g : ℝ}
    (h : igSeries x fuel p 1 1 = some g) :
    ∃ n, 1 ≤ n ∧ g = seriesPrefix x p n ∧ seriesTerm x p n ≤ 1 / 100000000 ∧
      ∀ j, 1 ≤ j → j < n → 1 / 100000000 < seriesTerm x p j := by
  have := igSeries_spec x p fuel 0 g (by simpa [seriesTerm_zero, seriesPrefix_zero] using h)
  obtain ⟨n, h1, h2, h3, h4⟩ := this
  exact ⟨n, h1, h2, h3, fun j hj => h4 j hj⟩

/-- **termination for every `x ≥ 0`, `alpha > 0`** (Archimedean: `x^n/n! → 0`): there is a bound beyond
which any fuel suffices, and the loop then returns the prefix up to the first small term -/
theorem incompleteGamma_series_terminates {x p : ℝ} (hx : 0 ≤ x) (hp : 0 < p) :
    ∃ N n, 1 ≤ n ∧ seriesTerm x p n ≤ 1 / 100000000 ∧
      ∀ fuel, N ≤ fuel → igSeries x fuel p 1 1 = some (seriesPrefix x p n) := by
  classical
  have hex := exists_small_term hx hp
  let n := Nat.find hex
  obtain ⟨hn1, hn2⟩ := Nat.find_spec hex
  refine ⟨n, n, hn1, hn2, ?_⟩
  intro fuel hf
  have := igSeries_returns x p (n - 1) 0 n fuel (by omega) (by omega) hn2 (by
    intro j hj1 hj2
    by_contra hc
    exact Nat.find_min hex hj2 ⟨hj1, not_lt.1 hc⟩)
  simpa [seriesTerm_zero, seriesPrefix_zero] using this

/-- the guards of `IncompleteGamma`: `|x| < DBL_MIN → 0`; otherwise `x < 0` or `alpha <= 0` → `-1` -/
theorem incompleteGamma_guards (x p g : ℝ) (fuel : ℕ) :
    (|x| < (dblMin : ℝ) → incompleteGamma x p g fuel = some 0) ∧
    (¬ |x| < (dblMin : ℝ) → (x < 0 ∨ p ≤ 0) → incompleteGamma x p g fuel = some (-1)) := by
  constructor
  · intro h
    simp [incompleteGamma, h]
  · intro h1 h2
    unfold incompleteGamma
    simp only [RealLike.real_ltb, RealLike.real_leb, RealLike.real_abs, RealLike.real_zero, RealLike.real_one]
    rw [if_neg (by simpa using h1), if_pos (by simpa using h2)]

/-- value of the series branch (`!(x > 1 && x >= alpha)`): prefix · `exp(p·log x − x − g) / p`.  With
`g = log Γ(p)` this is the textbook series `x^p e^{-x}/Γ(p+1) · Σ_k x^k/((p+1)…(p+k))` truncated at the
first term `≤ 1e-8` -/
theorem incompleteGamma_series_branch_value {x p g : ℝ} (fuel : ℕ) (hx : ¬ |x| < (dblMin : ℝ)) (hx0 : 0 ≤ x)
    (hp : 0 < p) (hbr : ¬ (1 < x ∧ p ≤ x)) {v : ℝ} (h : incompleteGamma x p g fuel = some v) :
    ∃ n, 1 ≤ n ∧ v = seriesPrefix x p n * (Real.exp (p * Real.log x - x - g) / p) ∧
      seriesTerm x p n ≤ 1 / 100000000 ∧ ∀ j, 1 ≤ j → j < n → 1 / 100000000 < seriesTerm x p j := by
  unfold incompleteGamma at h
  simp only [RealLike.real_ltb, RealLike.real_leb, RealLike.real_abs, RealLike.real_zero, RealLike.real_one,
    RealLike.real_exp, RealLike.real_log] at h
  rw [if_neg (by simpa using hx), if_neg (by simp [not_lt.2 hx0, hp]), if_neg (by simpa using hbr)] at h
  cases hs : igSeries x fuel p 1 1 with
  | none => simp [hs] at h
  | some gin =>
    simp only [hs, Option.map_some, Option.some.injEq] at h
    obtain ⟨n, h1, h2, h3, h4⟩ := incompleteGamma_series_is_partial_sum x p fuel hs
    exact ⟨n, h1, by rw [← h, h2], h3, h4⟩

/-- the prefactor of the series branch when the caller passes `ln_gamma_alpha = log Γ(alpha)` (as `DiscreteGamma`
does through `math.Log(math.Gamma(·))`): `exp(p·log x − x − log Γ(p)) / p = x^p e^{-x} / Γ(p+1)`, the
prefactor of the textbook series `P(p,x) = x^p e^{-x}/Γ(p+1) · Σ_k x^k/((p+1)…(p+k))` -/
theorem incompleteGamma_series_prefactor {x p : ℝ} (hx : 0 < x) (hp : 0 < p) :
    Real.exp (p * Real.log x - x - Real.log (Real.Gamma p)) / p = x ^ p * Real.exp (-x) / Real.Gamma (p + 1) := by
  have hG : 0 < Real.Gamma p := Real.Gamma_pos_of_pos hp
  rw [Real.Gamma_add_one hp.ne', Real.rpow_def_of_pos hx, sub_eq_add_neg, sub_eq_add_neg, Real.exp_add, Real.exp_add,
    Real.exp_neg (Real.log _), Real.exp_log hG, mul_comm (Real.log x) p]
  field_simp

/-- `if math.Abs(pn[5]) < .0 { goto l35 }` is dead code: the condition is never true -/
theorem cfStep_dead_branch (y : ℝ) : RealLike.ltb (RealLike.abs y) (0 : ℝ) = false := by
  simp [not_lt.2 (abs_nonneg y)]

/-- non-vacuity: at `x = 0` the first term is `0 ≤ 1e-8`; the loop stops after one round with prefix `1` -/
example (p : ℝ) : igSeries (0 : ℝ) 1 p 1 1 = some 1 := by
  simp [igSeries]

end Gv.Props.C20
