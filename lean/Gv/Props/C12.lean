import Gv.Model.Clean
import Gv.Proofs.CleanSeqs
/-!
# C12 — cleaning removes exactly the sites and sequences that meet the cutoff

`q : List Bool` says, site by site, whether the site meets the cutoff (`test nb total` on the counts of
`siteCounts`, or on the majority counts).  The theorems are about the tracker loop and the removal pass
of `lean/Gv/Model/Clean.lean`, for every `q` (hence every alignment, cutoff and option set).
-/
namespace Gv.Props.C12
open Gv Gv.Model Gv.Proofs.BagInv Gv.Proofs.CleanSeqs

/-- length of the maximal all-true prefix / suffix -/
def prefixRun (q : List Bool) : Nat := (q.takeWhile id).length
def suffixRun (q : List Bool) : Nat := (q.reverse.takeWhile id).length

private theorem takeWhile_append_true (p : List Bool) (h : (p.takeWhile id).length = p.length) :
    ((p ++ [true]).takeWhile id).length = p.length + 1 := by
  induction p with
  | nil => rfl
  | cons a t ih =>
    cases a with
    | false => simp at h
    | true =>
      simp only [List.takeWhile_cons, id, if_true, List.length_cons, Nat.add_right_cancel_iff] at h
      simp [List.takeWhile_cons, ih h]

private theorem takeWhile_append_of_lt (p : List Bool) (b : Bool) (h : (p.takeWhile id).length ≠ p.length) :
    ((p ++ [b]).takeWhile id).length = (p.takeWhile id).length := by
  induction p with
  | nil => simp at h
  | cons a t ih =>
    cases a with
    | false => simp [List.takeWhile_cons]
    | true =>
      simp only [List.takeWhile_cons, id, if_true, List.length_cons, ne_eq, Nat.add_right_cancel_iff] at h
      simp [List.takeWhile_cons, ih h]

private theorem takeWhile_le (p : List Bool) : (p.takeWhile id).length ≤ p.length :=
  (List.takeWhile_sublist _).length_le

private theorem takeWhile_append_false (p : List Bool) :
    ((p ++ [false]).takeWhile id).length = (p.takeWhile id).length := by
  induction p with
  | nil => rfl
  | cons a t ih => cases a <;> simp [List.takeWhile_cons, ih]

/-- loop invariant of the trackers, processing `t` after the already processed prefix `p` -/
private theorem trackLoop_inv (L : Nat) : ∀ (t p : List Bool), p.length + t.length = L →
    trackLoop L t p.length (prefixRun p) (if suffixRun p = 0 then L else p.length - suffixRun p) =
      (prefixRun (p ++ t), if suffixRun (p ++ t) = 0 then L else L - suffixRun (p ++ t)) := by
  intro t
  induction t with
  | nil =>
    intro p h
    simp only [List.length_nil, Nat.add_zero] at h
    simp [trackLoop, h]
  | cons b t ih =>
    intro p h
    simp only [List.length_cons] at h
    have hsuf_le : suffixRun p ≤ p.length := by
      unfold suffixRun; have := takeWhile_le p.reverse; simpa using this
    have key := ih (p ++ [b]) (by simp; omega)
    simp only [List.append_assoc, List.singleton_append, List.length_append, List.length_singleton] at key
    rw [← key]
    cases b with
    | true =>
      simp only [trackLoop, if_true]
      have hs : suffixRun (p ++ [true]) = suffixRun p + 1 := by
        unfold suffixRun; simp [List.takeWhile_cons]
      congr 1
      · -- firstcontinuous
        unfold prefixRun
        by_cases e : (p.takeWhile id).length = p.length
        · have : (p.length == (p.takeWhile id).length) = true := by simp [e]
          rw [if_pos this, takeWhile_append_true p e, e]
        · have : (p.length == (p.takeWhile id).length) = false := by
            simp; exact fun x => e x.symm
          rw [this]; simp only [Bool.false_eq_true, if_false]
          rw [takeWhile_append_of_lt p true e]
      · -- lastcontinuous
        rw [hs]
        simp only [Nat.add_eq_zero_iff, Nat.one_ne_zero, and_false, if_false]
        by_cases e : suffixRun p = 0
        · simp [e]
        · simp only [e, if_false]
          have : (p.length - suffixRun p == L) = false := by simp; omega
          rw [this]; simp only [Bool.false_eq_true, if_false]
          omega
    | false =>
      simp only [trackLoop, Bool.false_eq_true, if_false]
      have hs : suffixRun (p ++ [false]) = 0 := by
        unfold suffixRun; simp [List.takeWhile_cons]
      congr 1
      · unfold prefixRun; rw [takeWhile_append_false]
      · simp [hs]

/-- **The trackers of the `ends` mode compute the maximal qualifying prefix and suffix**: the reported
leading count is the length of the longest all-qualifying prefix, the trailing count the length of the
longest all-qualifying suffix. -/
theorem trackers_spec (q : List Bool) :
    trackLoop q.length q 0 0 q.length = (prefixRun q, q.length - suffixRun q) := by
  have := trackLoop_inv q.length q [] (by simp)
  simp only [List.length_nil, List.nil_append] at this
  have h0 : prefixRun [] = 0 := rfl
  have h1 : suffixRun [] = 0 := rfl
  rw [h0, h1] at this
  simp only [if_true] at this
  rw [this]
  by_cases e : suffixRun q = 0 <;> simp [e]

/-- membership in the removed set of the removal pass -/
theorem removed_iff (rows : CRows) (hne : rows ≠ []) (q : List Bool) (ends : Bool) (i : Nat) :
    i ∈ (removeSites rows q.length q ends).removed ↔
      i < q.length ∧ q.getD i false = true ∧ (ends = false ∨ i < prefixRun q ∨ i ≥ q.length - suffixRun q) := by
  unfold removeSites
  rw [trackers_spec]
  have : rows.isEmpty = false := by cases rows <;> simp_all
  simp only [this, Bool.false_eq_true, if_false, List.mem_filter, List.mem_range, Bool.and_eq_true,
    Bool.or_eq_true, Bool.not_eq_true', decide_eq_true_eq]
  constructor
  · rintro ⟨h1, h2, h3⟩
    refine ⟨h1, h2, ?_⟩
    rcases h3 with (h | h) | h
    · exact Or.inl h
    · exact Or.inr (Or.inr (by omega))
    · exact Or.inr (Or.inl (by omega))
  · rintro ⟨h1, h2, h3⟩
    refine ⟨h1, h2, ?_⟩
    rcases h3 with h | h | h
    · exact Or.inl (Or.inl h)
    · exact Or.inr (by omega)
    · exact Or.inl (Or.inr (by omega))

/-- **Without `ends`, a site is removed iff it meets the cutoff.** -/
theorem site_removed_iff (rows : CRows) (hne : rows ≠ []) (q : List Bool) (i : Nat) :
    i ∈ (removeSites rows q.length q false).removed ↔ (i < q.length ∧ q.getD i false = true) := by
  rw [removed_iff rows hne]; simp

private theorem getD_of_lt_prefix (q : List Bool) (i : Nat) (h : i < prefixRun q) : q.getD i false = true := by
  unfold prefixRun at h
  induction q generalizing i with
  | nil => simp at h
  | cons a t ih =>
    cases a with
    | false => simp at h
    | true =>
      cases i with
      | zero => rfl
      | succ i =>
        simp only [List.takeWhile_cons, id, if_true, List.length_cons, Nat.add_lt_add_iff_right] at h
        simpa using ih i h

private theorem getD_of_ge_suffix (q : List Bool) (i : Nat) (h1 : i < q.length) (h : i ≥ q.length - suffixRun q) :
    q.getD i false = true := by
  have := getD_of_lt_prefix q.reverse (q.length - 1 - i) (by unfold suffixRun at h; unfold prefixRun; omega)
  rw [List.getD_eq_getElem?_getD, List.getElem?_reverse (by omega)] at this
  have e : q.length - 1 - (q.length - 1 - i) = i := by omega
  rw [e] at this
  rw [List.getD_eq_getElem?_getD]; exact this

/-- **In `ends` mode exactly the maximal qualifying prefix and suffix are removed.** -/
theorem ends_mode_removes_maximal_prefix_suffix (rows : CRows) (hne : rows ≠ []) (q : List Bool) (i : Nat) :
    i ∈ (removeSites rows q.length q true).removed ↔
      (i < q.length ∧ (i < prefixRun q ∨ i ≥ q.length - suffixRun q)) := by
  rw [removed_iff rows hne]
  constructor
  · rintro ⟨h1, _, h3⟩
    rcases h3 with h | h
    · simp at h
    · exact ⟨h1, h⟩
  · rintro ⟨h1, h3⟩
    refine ⟨h1, ?_, Or.inr h3⟩
    rcases h3 with h | h
    · exact getD_of_lt_prefix q i h
    · exact getD_of_ge_suffix q i h1 h

/-- **The reported kept and removed indices partition the original columns**, each list increasing,
and the reported leading/trailing counts are the prefix and suffix runs. -/
theorem kept_removed_partition (rows : CRows) (hne : rows ≠ []) (q : List Bool) (ends : Bool) :
    let r := removeSites rows q.length q ends
    (r.kept ++ r.removed).Perm (List.range q.length) ∧ r.kept.Pairwise (· < ·) ∧ r.removed.Pairwise (· < ·) ∧
    (∀ i, i ∈ r.kept → i ∉ r.removed) ∧ r.first = prefixRun q ∧ r.last = suffixRun q := by
  have he : rows.isEmpty = false := by cases rows <;> simp_all
  have hsuf : suffixRun q ≤ q.length := by
    unfold suffixRun; have := takeWhile_le q.reverse; simpa using this
  unfold removeSites
  rw [trackers_spec]
  simp only [he, Bool.false_eq_true, if_false]
  refine ⟨?_, ?_, ?_, ?_, by first | rfl | trivial, by first | omega | trivial⟩
  · have := List.filter_append_perm (fun i => !(q.getD i false && (!ends || decide (i ≥ q.length - suffixRun q) || decide (i + 1 ≤ prefixRun q)))) (List.range q.length)
    simpa using this
  · exact (List.pairwise_lt_range).sublist List.filter_sublist
  · exact (List.pairwise_lt_range).sublist List.filter_sublist
  · intro i hk hr
    simp only [List.mem_filter] at hk hr
    have := hk.2
    rw [hr.2] at this
    simp at this

/-- **The result equals the selection of the kept columns, names and row order intact**, and the new
length is the old one minus the number of removed sites. -/
theorem result_eq_select_kept (rows : CRows) (hne : rows ≠ []) (q : List Bool) (ends : Bool) :
    let r := removeSites rows q.length q ends
    r.rows = rows.map (fun x => (x.1, r.kept.map fun j => x.2.getD j 0)) ∧
    r.rows.map Prod.fst = rows.map Prod.fst ∧ r.length = (q.length : Int) - r.removed.length := by
  have he : rows.isEmpty = false := by cases rows <;> simp_all
  unfold removeSites
  simp only [he, Bool.false_eq_true, if_false]
  refine ⟨by first | rfl | trivial, by simp [List.map_map, Function.comp_def], by first | rfl | trivial⟩

/-- the qualification list used by `RemoveCharacterSites` is the cutoff test on the counts computed
over the rows not excluded by the options **of the alignment's own alphabet** -/
theorem removeCharacterSites_unfold (test : Nat → Nat → Bool) (rows : CRows) (L : Nat) (alphabet : Nat)
    (cs : List Byte) (ends ic ig iN rev : Bool) :
    removeCharacterSites test rows (L : Int) alphabet cs ends ic ig iN rev =
      removeSites rows L ((List.range L).map fun j =>
        test (siteCounts (columnAt rows j) cs alphabet ic ig iN rev).1 (siteCounts (columnAt rows j) cs alphabet ic ig iN rev).2) ends := by
  unfold removeCharacterSites
  have : ¬ ((L : Int) < 0) := by omega
  simp [this]

/-- the qualification list used by `RemoveMajorityCharacterSites` is the cutoff test on the majority
counts of `MaxCharStats` (C14: independent of the map iteration order), computed with the wildcard of
the alignment's own alphabet; every theorem above about `removeSites` applies to it unchanged -/
theorem removeMajoritySites_unfold (test : Nat → Nat → Bool) (rows : CRows) (L : Nat) (alphabet : Nat)
    (ends ig iN : Bool) :
    removeMajoritySites test rows (L : Int) alphabet ends ig iN =
      removeSites rows L ((List.range L).map fun j =>
        test (maxCharSite alphabet ig iN (columnAt rows j)).2.1 (maxCharSite alphabet ig iN (columnAt rows j)).2.2) ends := by
  unfold removeMajoritySites
  have : ¬ ((L : Int) < 0) := by omega
  simp [this]

/-- the wildcard follows the alphabet: `X`/`x` for proteins, `N`/`n` otherwise -/
theorem wildcard_follows_alphabet :
    wildcard AMINOACIDS = (88, 120) ∧ wildcard NUCLEOTIDS = (78, 110) ∧ wildcard UNKNOWN = (78, 110) := by decide

/-! ## non-vacuity: the documented example `T T F T T F T` -/

example : prefixRun [true, true, false, true, true, false, true] = 2 ∧ suffixRun [true, true, false, true, true, false, true] = 1 := by decide
example : (removeSites [("a", [65, 65, 65, 65, 65, 65, 65])] 7 [true, true, false, true, true, false, true] true).removed = [0, 1, 6] := by decide
example : (removeSites [("a", [65, 65])] 2 [true, true] true).first = 2 ∧ (removeSites [("a", [65, 65])] 2 [true, true] true).last = 2 := by decide

/-! ## the per-sequence variant: `RemoveCharacterSeqs` / `RemoveGapSeqs`

`AlignWF b`: `b` is an alignment whose rows are uniquely named and all have the cached length (the C01
invariant).  `seqCounts s c alphabet ic ig iN` are the counts of `siteCounts` (the site variant above)
with the sequence in the role of the column: number of characters equal to `c` (case folded with `ic`),
and number of characters not excluded by the ignore-gaps / ignore-N-or-X options **of the alignment's
own alphabet**.  `meets test … s` is the cutoff test on these counts. -/

/-- the counting loop of `RemoveCharacterSeqs` computes `seqCounts` (hence the same counts as the site
variant, with the wildcard of the alignment's own alphabet) -/
theorem seqCounts_spec (s : Seq) (c : Byte) (alphabet : Nat) (ic ig iN : Bool) :
    seqCounts s c alphabet ic ig iN =
      ((s.filter fun x => x == c || (ic && toLower x == toLower c)).length,
       (s.filter fun x => !(ig && x == GAP) && !(iN && (x == (wildcard alphabet).1 || x == (wildcard alphabet).2))).length) :=
  seqCounts_eq s c alphabet ic ig iN

/-- **`RemoveCharacterSeqs` on a well-formed alignment never panics** (the site loop stays inside every row) -/
theorem removeCharacterSeqs_never_panics (test : Nat → Nat → Bool) (c : Byte) (ic ig iN : Bool) (b : Bag)
    (hw : AlignWF b) : (removeCharacterSeqs test c ic ig iN b).isSome = true := by
  obtain ⟨b', h, _⟩ := removeCharacterSeqs_eval test c ic ig iN b hw
  rw [h]; rfl

/-- **A sequence is removed iff it meets the cutoff; the others are kept in order, untouched.**
The rows of the result (names and sequences) are exactly the rows of the input that do not meet the
cutoff, in the input order; a row of the input is in the result iff it does not meet the cutoff; the
returned count is the number of rows that meet it. -/
theorem seq_removed_iff (test : Nat → Nat → Bool) (c : Byte) (ic ig iN : Bool) (b b' : Bag) (k : Nat)
    (hw : AlignWF b) (h : removeCharacterSeqs test c ic ig iN b = some (b', k)) :
    pairs b' = (pairs b).filter (fun p => !meets test c b.alphabet ic ig iN p.2) ∧
    (∀ p ∈ pairs b, (p ∈ pairs b' ↔ meets test c b.alphabet ic ig iN p.2 = false)) ∧
    k = ((pairs b).filter fun p => meets test c b.alphabet ic ig iN p.2).length ∧
    k + b'.rows.length = b.rows.length := by
  obtain ⟨b'', h', hp, _⟩ := removeCharacterSeqs_eval test c ic ig iN b hw
  rw [h'] at h
  simp only [Option.some.injEq, Prod.mk.injEq] at h
  obtain ⟨e1, e2⟩ := h
  subst e1
  refine ⟨hp, ?_, e2.symm, ?_⟩
  · intro p hpm
    rw [hp, List.mem_filter]
    simp [hpm]
  · have h1 := length_filter_add (pairs b) (fun p => meets test c b.alphabet ic ig iN p.2)
    have h2 : b''.rows.length = (pairs b'').length := by simp [pairs]
    have h3 : b.rows.length = (pairs b).length := by simp [pairs]
    rw [h2, h3, hp, ← e2]; exact h1

/-- **The result is again a well-formed alignment** of the same alphabet and policy: unique names, every
kept row of the old length, cached length `-1` iff nothing is kept; the name index satisfies the
container invariant of C01. -/
theorem seqs_result_wellformed (test : Nat → Nat → Bool) (c : Byte) (ic ig iN : Bool) (b b' : Bag) (k : Nat)
    (hw : AlignWF b) (h : removeCharacterSeqs test c ic ig iN b = some (b', k)) :
    AlignWF b' ∧ Inv b' ∧ b'.alphabet = b.alphabet ∧ b'.policy = b.policy ∧
    b'.length = (if b'.rows = [] then -1 else b.length) := by
  obtain ⟨b'', h', hp, hl, ha, hpo, hal, hinv⟩ := removeCharacterSeqs_eval test c ic ig iN b hw
  rw [h'] at h
  simp only [Option.some.injEq, Prod.mk.injEq] at h
  obtain ⟨e1, _⟩ := h
  subst e1
  have hnil : ((pairs b).filter (fun p => !meets test c b.alphabet ic ig iN p.2) = []) ↔ b''.rows = [] := by
    rw [← hp]; simp [pairs]
  have hlen : b''.length = (if b''.rows = [] then -1 else b.length) := by
    rw [hl]; by_cases e : b''.rows = []
    · rw [if_pos e, if_pos (hnil.mpr e)]
    · rw [if_neg e, if_neg (fun x => e (hnil.mp x))]
  refine ⟨⟨hal, ?_, ?_⟩, hinv, ha, hpo, hlen⟩
  · have : b''.rows.map (·.name) = (pairs b'').map Prod.fst := by simp [pairs, List.map_map, Function.comp_def]
    rw [this, hp]
    have hs : ((pairs b).filter (fun p => !meets test c b.alphabet ic ig iN p.2)).Sublist (pairs b) := List.filter_sublist
    have : (pairs b).map Prod.fst = b.rows.map (·.name) := by simp [pairs, List.map_map, Function.comp_def]
    exact (this ▸ hw.names_nodup).sublist (hs.map _)
  · intro r hr
    have hne : b''.rows ≠ [] := fun e => by rw [e] at hr; simp at hr
    rw [hlen, if_neg hne]
    have : (r.name, r.seq) ∈ pairs b'' := List.mem_map.mpr ⟨r, hr, rfl⟩
    rw [hp] at this
    obtain ⟨r0, hr0, e⟩ := List.mem_map.mp (List.mem_filter.mp this).1
    have := hw.rect r0 hr0
    simp only [Prod.mk.injEq] at e
    rw [← e.2]; exact this

/-- `RemoveGapSeqs(cutoff, ignoreNs)` is `RemoveCharacterSeqs('-', cutoff, false, false, ignoreNs)` -/
def removeGapSeqs (test : Nat → Nat → Bool) (ignoreNs : Bool) (b : Bag) : Option (Bag × Nat) :=
  removeCharacterSeqs test GAP false false ignoreNs b

/-- **`RemoveGapSeqs` removes a sequence iff the number of its gaps, against the number of its
characters that are not the N/X wildcard of the alignment's own alphabet (all characters without
`ignoreNs`), meets the cutoff**; the other rows are kept in order, untouched. -/
theorem gapSeq_removed_iff (test : Nat → Nat → Bool) (iN : Bool) (b b' : Bag) (k : Nat)
    (hw : AlignWF b) (h : removeGapSeqs test iN b = some (b', k)) :
    pairs b' = (pairs b).filter (fun p =>
      !test (p.2.filter (· == GAP)).length
            (p.2.filter fun x => !(iN && (x == (wildcard b.alphabet).1 || x == (wildcard b.alphabet).2))).length) ∧
    k + b'.rows.length = b.rows.length := by
  obtain ⟨h1, _, _, h4⟩ := seq_removed_iff test GAP false false iN b b' k hw h
  refine ⟨?_, h4⟩
  rw [h1]
  apply List.filter_congr
  intro p _
  unfold meets
  rw [seqCounts_spec]
  simp

/-! ## non-vacuity of the per-sequence theorems: three rows, exact cutoff 1/2 -/

def demoAl : Bag := addAllIgnore (newAlign NUCLEOTIDS) [("a", [65, 45, 45, 45]), ("b", [65, 67, 71, 84]), ("c", [45, 45, 78, 78])]
/-- cutoff 1/2 as an exact test: `nb ≥ total / 2` -/
def half (nb total : Nat) : Bool := decide (2 * nb ≥ total)
example : AlignWF demoAl := ⟨by decide, by decide, by decide⟩
example : (removeGapSeqs half false demoAl).map (fun r => (pairs r.1, r.2)) = some ([("b", [65, 67, 71, 84])], 2) := by decide
-- ignoring Ns changes the denominator: `-NNN` has 1 gap of 4 characters, but 1 gap of 1 counted character
example : meets half GAP NUCLEOTIDS false false true [45, 78, 78, 78] = true ∧
    meets half GAP NUCLEOTIDS false false false [45, 78, 78, 78] = false := by decide

end Gv.Props.C12
