import Gv.Proofs.ProtDistReal
/-!
# C17 — protein distances are likelihood maximisers forming a sane matrix

The theorems are about `Gv.Model.ProtDist` — the hand-written model of `distance/protein/{lk,model,utils}.go`
(validated against the real code by the correspondence run) over the constants, literals, ambiguity
characters and JC69 cell **regenerated from the Go source on every run** (`Gv.Gen.ProtDist`).

Proved, for all alignments / all objectives:

* matrix assembly (any numeric type): `matrix_symmetric`, `matrix_diag_zero`, `entry_is_pair_result`,
  `zero_when_no_unambiguous_difference`;
* counts (any numeric type): `pairFreq_masks_ambiguous`, `counts_row_swap`, `jcCounts_symmetric`;
  (over ℝ) `pairFreq_sums_to_one`, `counts_column_permutation`, `selection_row_permutation`;
* the regenerated JC69 cell (ℝ): `jc69_eq_published`, `jc69_range`, `jc69_zero_of_no_difference`;
* the Brent minimiser, for ANY objective `f : ℝ → ℝ` and either stop rule: `brent_evaluations_bounded`
  (termination: at most `BRENT_ITMAX + 1` evaluations), `brent_result_ge_blmin`, `brent_result_is_best_evaluated`;
* what `MLDist` stores (ℝ): `entry_in_range_or_missing_marker`, `missing_marker_only_without_counted_weight`,
  `range_0_20` (repaired source, positive weights, protein alphabet), `reported_distance_is_best_evaluated`;
* `source_shape_known`: the three statements the model's variant is read from have a shape the model knows.

NOT proved (see `PARTIAL` in driver/props/c17.py):
* that the returned distance maximises the likelihood over the whole range — only "no *evaluated* point is
  better"; the run tests it with an independent likelihood on a grid;
* an upper bound `≤ BL_MAX` on Brent's abscissa for an arbitrary objective: it is **not** a theorem of the code
  as written — a forced minimal step `x ± tol1` may leave the bracket `[a, b]` when the bracket is narrower
  than `2·tol1` (standard Brent excludes this through its stop test, which the unchanged tree replaced).  What
  the property needs is proved instead: `lk_Dist` clamps its argument into `[BL_MIN, BL_MAX]`
  (`likelihood_clamps_distance`) and `MLDist` caps the stored value at 20;
* that permuting rows permutes the *distances*: proved for the counts; for the distances it needs
  reversibility of the numerically computed `P(t)` (`lnL_transpose_of_reversible_partial` gives the step
  under that hypothesis).
-/
namespace Gv.Props.C17
open Gv Gv.Model.ProtDist Gv.Gen.ProtDist Gv.Proofs.ProtDistCounts Gv.Proofs.ProtDistReal Gv.Proofs.Brent
open Gv.Spec.Subst Gv.Proofs.SubstReal

/-! ## T3: the source has a shape the model knows -/

/-- the stop test of `dist_F_Brent`, the statement `aaFrequency` executes for a character outside the alphabet
and the test / call of `check2SequencesDiff` are, each, the unchanged tree's or the repaired one
(`proposed_fixes/c17-*.diff`); otherwise the model does not claim to mirror the source -/
theorem source_shape_known : sourceVariant.isSome = true := by decide

/-! ## matrix assembly (any numeric type) -/

section
variable {α : Type} [RealLike α]

/-- **symmetric**: whatever the pairs evaluate to -/
theorem matrix_symmetric {v : Variant} {m : Subst α} {rg : Bool} {rows : List Seq} {ws : Option (List α)}
    {M : List (List α)} (h : mlDist v m rg rows ws = .ok M) {i j : Nat} (hi : i < rows.length) (hj : j < rows.length) :
    entry M i j = entry M j i := by
  unfold mlDist at h
  split at h
  · injection h with h; subst h; exact symMatrix_symm _ _ hi hj
  · cases h

/-- **zero diagonal** -/
theorem matrix_diag_zero {v : Variant} {m : Subst α} {rg : Bool} {rows : List Seq} {ws : Option (List α)}
    {M : List (List α)} (h : mlDist v m rg rows ws = .ok M) {i : Nat} (hi : i < rows.length) :
    entry M i i = 0 := by
  unfold mlDist at h
  split at h
  · injection h with h; subst h; exact symMatrix_diag _ _ hi
  · cases h

/-- the entry above the diagonal is what the body of the `k` loop computed for that pair of rows -/
theorem entry_is_pair_result {v : Variant} {m : Subst α} {rg : Bool} {rows : List Seq} {ws : Option (List α)}
    {M : List (List α)} (h : mlDist v m rg rows ws = .ok M) {i j : Nat} (hij : i < j) (hj : j < rows.length) :
    pairOut v m rg rows ws (i, j) = .ok (entry M i j) := by
  unfold mlDist at h
  split at h
  · rename_i ds hds
    injection h with h; subst h
    rw [symMatrix_upper _ _ hij hj]
    exact stored_of_collect hds (mem_pairOrder.mpr ⟨hij, hj⟩)
  · cases h

/-- **pairs with no unambiguous difference are at 0** (`seqsDiffer` is `check2SequencesDiff`: some site where
both residues are unambiguous and differ) -/
theorem zero_when_no_unambiguous_difference {v : Variant} {m : Subst α} {rg : Bool} {rows : List Seq}
    {ws : Option (List α)} {M : List (List α)} (h : mlDist v m rg rows ws = .ok M) {i j : Nat} (hij : i < j)
    (hj : j < rows.length) (hno : seqsDiffer v (pairSites rg rows ws i j) = false) :
    entry M i j = 0 ∧ entry M j i = 0 := by
  have hp := entry_is_pair_result h hij hj
  have h0 : entry M i j = 0 := by
    unfold pairOut pairDist pairDistWith at hp
    simp only [hno, Bool.false_eq_true, if_false] at hp
    injection hp with hp
    exact hp.symm
  exact ⟨h0, by rw [← matrix_symmetric h (by omega) hj, h0]⟩

/-! ## counts (any numeric type) -/

/-- **ambiguity masking**: cell `(i, j)` of the pair-frequency matrix is the sum, in site order, of the weights of
the selected sites where the two rows hold the amino acids `i` and `j`; gaps, `.`, `*`, `X` never count -/
theorem pairFreq_masks_ambiguous (l : List (PSite α)) (i j : Nat) :
    fCell l i j = ((l.filter (hits i j)).map (·.w)).foldl (· + ·) 0 := fCell_eq_naive l i j

/-- **rows swapped ⇒ transposed counts**: for the pair `(j, i)` the weighted counts are those of `(i, j)`
transposed, the total is the same, and so is the test for an unambiguous difference -/
theorem counts_row_swap (v : Variant) (rg : Bool) (rows : List Seq) (ws : Option (List α)) (i j a b : Nat) :
    fCell (pairSites rg rows ws j i) a b = fCell (pairSites rg rows ws i j) b a ∧
    fLen (pairSites rg rows ws j i) = fLen (pairSites rg rows ws i j) ∧
    seqsDiffer v (pairSites rg rows ws j i) = seqsDiffer v (pairSites rg rows ws i j) := by
  have e : pairSites rg rows ws j i = (pairSites rg rows ws i j).map PSite.swap := by
    unfold pairSites; exact psites_swap _ _ _ _ _
  rw [e]
  exact ⟨fCell_swap _ _ _, fLen_swap _, seqsDiffer_swap _ _⟩

/-- the JC69 counters (differing / comparable weight) do not depend on the order of the two rows -/
theorem jcCounts_symmetric (rg : Bool) (rows : List Seq) (ws : Option (List α)) (i j : Nat) :
    jcCounts (pairSites rg rows ws j i) = jcCounts (pairSites rg rows ws i j) := by
  have e : pairSites rg rows ws j i = (pairSites rg rows ws i j).map PSite.swap := by
    unfold pairSites; exact psites_swap _ _ _ _ _
  rw [e]; exact jcCounts_swap _


end

/-- `A`/`R` at a selected site: an unambiguous difference; `A`/`X` and `-`/`R`: none -/
example : seqsDiffer (α := Nat → Nat) Variant.asIs [⟨65, 82, true, id⟩] = true := by decide
example : seqsDiffer (α := Nat → Nat) Variant.asIs [⟨65, 88, true, id⟩, ⟨45, 82, true, id⟩] = false := by decide

/-! ## counts (over the reals) -/

/-- **normalisation**: once some weight was counted the pair frequencies handed to the optimiser sum to one
(also through the stored 20×20 matrix) -/
theorem pairFreq_sums_to_one (l : List (PSite ℝ)) (h : 0 < fLen l) :
    fSum (fNorm l) = 1 ∧ fSum (ofCells (cellsOf (fNorm l))) = 1 := by
  rw [fSum_ofCells]; exact ⟨fSum_fNorm l h, fSum_fNorm l h⟩

/-- **columns permuted ⇒ same counts**: for a permutation `σ` of the columns (weights permuted along, gap-site
removal recomputed on the permuted alignment) every pair's site list is a permutation of the original one; hence
the pair-frequency cells, their total, the JC69 counters and the difference test are unchanged -/
theorem counts_column_permutation (v : Variant) (rg : Bool) {rows : List Seq} (w : List ℝ) {σ : List ℕ}
    (hσ : σ.Perm (List.range (alLength rows))) {i j : ℕ} (hi : i < rows.length) (hj : j < rows.length) :
    let rows' := rows.map fun s => permCols σ s 0
    let l' := pairSites rg rows' (some (permCols σ w 0)) i j
    let l := pairSites rg rows (some w) i j
    l'.Perm l ∧ (∀ a b, fCell l' a b = fCell l a b) ∧ fLen l' = fLen l ∧ jcCounts l' = jcCounts l ∧
      seqsDiffer v l' = seqsDiffer v l := by
  intro rows' l' l
  have hne : rows ≠ [] := by intro e; rw [e] at hi; simp at hi
  have hlen : σ.length = alLength rows := by simpa using hσ.length_eq
  have hal : alLength rows' = alLength rows := by
    cases rows with
    | nil => exact absurd rfl hne
    | cons r rs => simp [rows', alLength, permCols, hlen]
  have hperm : l'.Perm l := by
    show (pairSites rg rows' (some (permCols σ w 0)) i j).Perm (pairSites rg rows (some w) i j)
    unfold pairSites
    simp only [defaultWeights, hal]
    rw [selectedSites_permCols hσ hne]
    have ei : rows'.getD i [] = permCols σ (rows.getD i []) 0 := by
      simp [rows', List.getD_eq_getElem?_getD, List.getElem?_map, List.getElem?_eq_getElem hi]
    have ej : rows'.getD j [] = permCols σ (rows.getD j []) 0 := by
      simp [rows', List.getD_eq_getElem?_getD, List.getElem?_map, List.getElem?_eq_getElem hj]
    rw [ei, ej]
    have ez : permCols σ w (0 : ℝ) = permCols σ w (@OfNat.ofNat ℝ 0 (instOfNatOfRealLike 0)) := by
      rw [RealLike.real_zero]
    rw [ez]
    exact psites_perm_of_cols (α := ℝ) hσ _ _ _ _
  exact ⟨hperm, fun a b => fCell_perm hperm a b, fLen_perm hperm, jcCounts_perm hperm, seqsDiffer_perm v hperm⟩

/-- **rows permuted ⇒ same site selection** (with `counts_row_swap`: the counts of the permuted alignment are the
permuted, possibly transposed, counts) -/
theorem selection_row_permutation {rows rows' : List Seq} (h : rows.Perm rows')
    (hal : alLength rows' = alLength rows) (rg : Bool) :
    selectedSites rows' rg = selectedSites rows rg := selectedSites_perm_rows h hal rg

/-! ## the regenerated JC69 cell -/

/-- on its domain (`p < 19/20`) the regenerated cell is the published JC69 estimator for 20 states,
`−19/20 · ln(1 − 20/19 · p)`, capped at `PROT_DIST_MAX = 20`; `p` is the weighted proportion of differing sites -/
theorem jc69_eq_published {p0 len : ℝ} (hl : 0 < len) (hdom : p0 / len < 19 / 20) :
    (jc69Cell p0 len).1 = p0 / len ∧
    (jc69Cell p0 len).2 = min 20 (-(19 / 20) * Real.log (1 - 20 / 19 * (p0 / len))) := by
  refine ⟨?_, jc69Cell_published hl hdom⟩
  rw [jc69Cell_fst]; simp [hl]

/-- the initial distance lies in `[0, 20]` whatever the counts (saturated or empty pairs are at 20) -/
theorem jc69_range {p0 len : ℝ} (h0 : 0 ≤ p0) : 0 ≤ (jc69Cell p0 len).2 ∧ (jc69Cell p0 len).2 ≤ 20 :=
  ⟨jc69Cell_nonneg h0, jc69Cell_le p0 len⟩

theorem jc69_zero_of_no_difference {len : ℝ} (hl : 0 < len) : (jc69Cell 0 len).2 = 0 := jc69Cell_zero hl

example : (0 : ℝ) < 10 ∧ (3 : ℝ) / 10 < 19 / 20 := by norm_num

/-! ## Brent's minimiser, for any objective -/

/-- **termination**: the loop evaluates the objective at most `BRENT_ITMAX + 1` times (then it returns, or reports
"too many iterations") -/
theorem brent_evaluations_bounded (f : ℝ → ℝ) (bracket : Bool) (ax bx cx tol : ℝ) (nmax : ℕ) (param0 dist : ℝ) :
    (brent f bracket ax bx cx tol nmax param0).evals.length ≤ BRENT_ITMAX + 1 ∧
    (optDistF f bracket dist).evals.length ≤ BRENT_ITMAX + 1 :=
  ⟨brent_evals_length f bracket ax bx cx tol nmax param0, optDistF_evals_length f bracket dist⟩

/-- the returned abscissa is at least `BL_MIN` (started at `bx ≥ BL_MIN`, as `opt_Dist_F` does) -/
theorem brent_result_ge_blmin (f : ℝ → ℝ) (bracket : Bool) (ax bx cx tol : ℝ) (nmax : ℕ) (param0 : ℝ)
    (hbx : (BL_MIN : ℝ) ≤ bx) (hst : (brent f bracket ax bx cx tol nmax param0).status ≠ BStatus.tooMany) :
    (BL_MIN : ℝ) ≤ (brent f bracket ax bx cx tol nmax param0).param :=
  let g := brent_good f bracket ax bx cx tol nmax param0 hbx hst
  g.ge _ g.mem

/-- **no evaluated point is better**: the returned abscissa is one of the evaluated points, the returned value is
the objective there, and it is ≤ the objective at every point the loop evaluated -/
theorem brent_result_is_best_evaluated (f : ℝ → ℝ) (bracket : Bool) (ax bx cx tol : ℝ) (nmax : ℕ) (param0 : ℝ)
    (hbx : (BL_MIN : ℝ) ≤ bx) (hst : (brent f bracket ax bx cx tol nmax param0).status ≠ BStatus.tooMany) :
    let r := brent f bracket ax bx cx tol nmax param0
    r.param ∈ r.evals ∧ r.value = f r.param ∧ ∀ p ∈ r.evals, f r.param ≤ f p :=
  let g := brent_good f bracket ax bx cx tol nmax param0 hbx hst
  ⟨g.mem, g.value_eq, g.best⟩

/-- the same through `opt_Dist_F`, which starts Brent at `max(dist, BL_MIN)`: no hypothesis on `dist` -/
theorem optDistF_result (f : ℝ → ℝ) (bracket : Bool) (dist : ℝ)
    (hst : (optDistF f bracket dist).status ≠ BStatus.tooMany) :
    let r := optDistF f bracket dist
    (BL_MIN : ℝ) ≤ r.param ∧ r.param ∈ r.evals ∧ ∀ p ∈ r.evals, f r.param ≤ f p :=
  let g := optDistF_good f bracket dist hst
  ⟨g.ge _ g.mem, g.mem, g.best⟩

/-- the hypothesis "did not run out of iterations" is satisfiable: with an iteration cap of 0 the first trial point
that is not worse ends the search -/
example : (brent (fun _ : ℝ => 0) false (BL_MIN : ℝ) 1 (BL_MAX : ℝ) (brentTol : ℝ) 0 1).status ≠ BStatus.tooMany := by
  simp [brent, brentLoop, brentStop, BRENT_ITMAX]

/-- `lk_Dist` only sees its argument through the clamp into `[BL_MIN, BL_MAX]` -/
theorem likelihood_clamps_distance (m : Subst ℝ) (F : ℕ → ℕ → ℝ) (t : ℝ) :
    lkDist m F t = lkDist m F (clampBL t) ∧ (BL_MIN : ℝ) ≤ clampBL t ∧ clampBL t ≤ (BL_MAX : ℝ) := by
  have hmin := blMin_eq
  have hmax := blMax_eq
  have hc : (BL_MIN : ℝ) ≤ clampBL t ∧ clampBL t ≤ (BL_MAX : ℝ) := by
    unfold clampBL
    simp only [RealLike.real_ltb, decide_eq_true_eq]
    split_ifs with h1 h2
    · rw [hmin, hmax]; norm_num
    · rw [hmin, hmax]; norm_num
    · exact ⟨not_lt.mp h1, not_lt.mp h2⟩
  refine ⟨?_, hc⟩
  have idem : clampBL (clampBL t) = clampBL t := by
    obtain ⟨h1, h2⟩ := hc
    generalize clampBL t = c at h1 h2
    unfold clampBL
    simp [not_lt.mpr h1, not_lt.mpr h2]
  unfold lkDist
  simp only [idem]

/-! ## what `MLDist` stores -/

/-- **range** (any variant): an entry is 0, or the missing-value marker −1 of the unchanged tree, or lies in
`[BL_MIN, 20]` -/
theorem entry_in_range_or_missing_marker {v : Variant} {m : Subst ℝ} {rg : Bool} {rows : List Seq}
    {ws : Option (List ℝ)} {M : List (List ℝ)} (h : mlDist v m rg rows ws = .ok M) {i j : ℕ}
    (hi : i < rows.length) (hj : j < rows.length) :
    entry M i j = 0 ∨ entry M i j = -1 ∨ ((BL_MIN : ℝ) ≤ entry M i j ∧ entry M i j ≤ 20) := by
  -- it suffices to look above the diagonal
  have upper : ∀ {a b : ℕ}, a < b → b < rows.length →
      entry M a b = 0 ∨ entry M a b = -1 ∨ ((BL_MIN : ℝ) ≤ entry M a b ∧ entry M a b ≤ 20) := by
    intro a b hab hb
    have hp := entry_is_pair_result h hab hb
    unfold pairOut pairDist at hp
    rcases pairDistWith_cases _ _ _ _ _ hp with ⟨_, h0⟩ | ⟨_, _, h1⟩ | ⟨_, _, hst, hd⟩
    · exact Or.inl h0
    · exact Or.inr (Or.inl h1)
    · right; right
      have g := optDistF_good _ _ _ hst
      have hge := g.ge _ g.mem
      rw [hd, capDist_eq]
      have hmin := blMin_eq
      split_ifs with hc
      · rw [hmin]; norm_num
      · exact ⟨hge, le_of_lt (not_le.mp hc)⟩
  rcases Nat.lt_trichotomy i j with hlt | heq | hgt
  · exact upper hlt hj
  · subst heq; exact Or.inl ((matrix_diag_zero h hi).trans RealLike.real_zero)
  · rw [matrix_symmetric h hi hj]; exact upper hgt hi

/-- the marker −1 is stored only for a pair whose frequency matrix sums to less than 0.001 — over the reals: no
selected site where both rows hold an amino acid carries weight — although the two rows differ somewhere -/
theorem missing_marker_only_without_counted_weight {v : Variant} {m : Subst ℝ} {rg : Bool} {rows : List Seq}
    {ws : Option (List ℝ)} {M : List (List ℝ)} (h : mlDist v m rg rows ws = .ok M) {i j : ℕ} (hij : i < j)
    (hj : j < rows.length) (hm : entry M i j = -1) :
    seqsDiffer v (pairSites rg rows ws i j) = true ∧ fSum (fNorm (pairSites rg rows ws i j)) < 1 / 1000 := by
  have hp := entry_is_pair_result h hij hj
  unfold pairOut pairDist at hp
  rcases pairDistWith_cases _ _ _ _ _ hp with ⟨_, h0⟩ | ⟨hd, hlow, _⟩ | ⟨_, _, hst, hd⟩
  · rw [hm] at h0; norm_num at h0
  · exact ⟨hd, hlow⟩
  · exfalso
    have g := optDistF_good _ _ _ hst
    have hge := g.ge _ g.mem
    have hpos := blMin_pos
    rw [hm, capDist_eq] at hd
    split_ifs at hd with hc <;> linarith

/-- the hypothesis `mlDist … = .ok M` of the matrix theorems is satisfiable (two identical rows `AR`, `AR`: no search runs) -/
example (m : Subst ℝ) : ∃ M, mlDist Variant.asIs m false [[65, 82], [65, 82]] none = .ok M := ⟨_, rfl⟩

/-- every residue is one of the 20 amino acids or one of the characters `isAmbigu` knows (`-`, `.`, `*`, `X`) -/
def ProteinAlphabet (l : List (PSite ℝ)) : Prop :=
  ∀ s ∈ l, (isAmbigu s.a = true ∨ (aaIndex s.a).isSome = true) ∧ (isAmbigu s.b = true ∨ (aaIndex s.b).isSome = true)

private theorem fLen_pos_of_differ {l : List (PSite ℝ)} (hw : ∀ s ∈ l, 0 < s.w) (hal : ProteinAlphabet l)
    (hd : seqsDiffer ⟨true, true, true⟩ l = true) : 0 < fLen l := by
  rw [fLen_eq_sum]
  have hnn : ∀ s ∈ l, 0 ≤ lenTerm s := by
    intro s hs
    unfold lenTerm fWeight
    split_ifs <;> first | exact le_of_lt (hw s hs) | simp
  obtain ⟨s, hs, hsd⟩ := List.any_eq_true.mp hd
  simp only [Bool.not_true, Bool.false_or, Bool.and_eq_true, Bool.not_eq_eq_eq_not, Bool.not_true,
    bne_iff_ne, ne_eq] at hsd
  obtain ⟨⟨hsel, hna, hnb⟩, _⟩ := hsd
  have ha : (aaIndex s.a).isSome = true := by
    rcases (hal s hs).1 with h | h
    · rw [hna] at h; cases h
    · exact h
  have hb : (aaIndex s.b).isSome = true := by
    rcases (hal s hs).2 with h | h
    · rw [hnb] at h; cases h
    · exact h
  have hst : (fStates s).isSome = true := by
    unfold fStates
    cases h1 : aaIndex s.a with
    | none => rw [h1] at ha; cases ha
    | some x =>
      cases h2 : aaIndex s.b with
      | none => rw [h2] at hb; cases hb
      | some y => rfl
  have hterm : lenTerm s = s.w := by
    unfold lenTerm
    rw [fWeight_of_states hst]
    simp [hsel, hst]
  have hle : lenTerm s ≤ (l.map lenTerm).sum :=
    List.single_le_sum (by
      intro x hx
      obtain ⟨t, ht, rfl⟩ := List.mem_map.mp hx
      exact hnn t ht) _ (List.mem_map.mpr ⟨s, hs, rfl⟩)
  have := hw s hs
  linarith

/-- `A`/`-` and `X`/`R` are within the protein alphabet -/
example : ProteinAlphabet [⟨65, 45, true, 1⟩, ⟨88, 82, false, 2⟩] := by
  intro s hs
  simp at hs
  rcases hs with rfl | rfl <;> decide

/-- **distances lie in [0, 20]** — for the repaired source (`check2SequencesDiff` honours the site selection),
positive site weights and residues among the 20 amino acids, `-`, `.`, `*`, `X`.  (For the unchanged tree see
`entry_in_range_or_missing_marker`: it stores −1 for a pair that differs only outside the selected sites.) -/
theorem range_0_20 {m : Subst ℝ} {rg : Bool} {rows : List Seq} {ws : Option (List ℝ)} {M : List (List ℝ)}
    (h : mlDist ⟨true, true, true⟩ m rg rows ws = .ok M)
    (hw : ∀ i j, ∀ s ∈ pairSites rg rows ws i j, 0 < s.w)
    (hal : ∀ i j, ProteinAlphabet (pairSites rg rows ws i j))
    {i j : ℕ} (hi : i < rows.length) (hj : j < rows.length) :
    0 ≤ entry M i j ∧ entry M i j ≤ 20 := by
  have upper : ∀ {a b : ℕ}, a < b → b < rows.length → 0 ≤ entry M a b ∧ entry M a b ≤ 20 := by
    intro a b hab hb
    rcases entry_in_range_or_missing_marker (i := a) (j := b) h (by omega) hb with h0 | h1 | ⟨h2, h3⟩
    · rw [h0]; norm_num
    · exfalso
      obtain ⟨hd, hlow⟩ := missing_marker_only_without_counted_weight h hab hb h1
      have hpos := fLen_pos_of_differ (hw a b) (hal a b) hd
      rw [fSum_fNorm _ hpos] at hlow
      norm_num at hlow
    · exact ⟨le_trans (le_of_lt blMin_pos) h2, h3⟩
  rcases Nat.lt_trichotomy i j with hlt | heq | hgt
  · exact upper hlt hj
  · subst heq; rw [(matrix_diag_zero h hi).trans RealLike.real_zero]; norm_num
  · rw [matrix_symmetric h hi hj]; exact upper hgt hi

/-- the 20×20 frequency matrix `MLDist` hands to the optimiser for the pair of rows `(i, j)` -/
noncomputable def pairF (rg : Bool) (rows : List Seq) (ws : Option (List ℝ)) (i j : ℕ) : ℕ → ℕ → ℝ :=
  ofCells (cellsOf (fNorm (pairSites rg rows ws i j)))

/-- the Brent search `MLDist` runs for the pair of rows `(i, j)`: objective `t ↦ −lk_Dist(F, t)`, started at the
JC69 distance (or 0.1) -/
noncomputable def pairSearch (v : Variant) (m : Subst ℝ) (rg : Bool) (rows : List Seq) (ws : Option (List ℝ))
    (i j : ℕ) : BResult ℝ :=
  optDistF (fun t => -(lkDist m (pairF rg rows ws i j) t)) v.brentBracketStop
    (mlInit (jcPair (pairSites rg rows ws i j)).2)

/-- **an entry below the cap is the best evaluated point**: a stored distance that is neither 0 nor the marker and
is below 20 is the abscissa Brent returned for that pair's frequency matrix `F`, it is one of the (at most
`BRENT_ITMAX + 1`) distances at which the likelihood was evaluated, and no evaluated distance has a higher
likelihood -/
theorem reported_distance_is_best_evaluated {v : Variant} {m : Subst ℝ} {rg : Bool} {rows : List Seq}
    {ws : Option (List ℝ)} {M : List (List ℝ)} (h : mlDist v m rg rows ws = .ok M) {i j : ℕ} (hij : i < j)
    (hj : j < rows.length) (h0 : entry M i j ≠ 0) (h1 : entry M i j ≠ -1) (hcap : entry M i j < 20) :
    entry M i j = (pairSearch v m rg rows ws i j).param ∧
    (pairSearch v m rg rows ws i j).param ∈ (pairSearch v m rg rows ws i j).evals ∧
    (pairSearch v m rg rows ws i j).evals.length ≤ BRENT_ITMAX + 1 ∧
    ∀ p ∈ (pairSearch v m rg rows ws i j).evals,
      lkDist m (pairF rg rows ws i j) p ≤ lkDist m (pairF rg rows ws i j) (entry M i j) := by
  have hp : pairDistWith v (lkDist m) (pairSites rg rows ws i j) (jcPair (pairSites rg rows ws i j)).2 =
      PairOut.ok (entry M i j) := entry_is_pair_result h hij hj
  unfold pairSearch pairF
  rcases pairDistWith_cases _ _ _ _ _ hp with ⟨_, e0⟩ | ⟨_, _, e1⟩ | ⟨_, _, hst, hd⟩
  · exact absurd e0 h0
  · exact absurd e1 h1
  · have g := optDistF_good _ _ _ hst
    have hd' : entry M i j =
        (optDistF (fun t => -(lkDist m (ofCells (cellsOf (fNorm (pairSites rg rows ws i j)))) t)) v.brentBracketStop
          (mlInit (jcPair (pairSites rg rows ws i j)).2)).param := by
      rw [hd, capDist_eq]
      split_ifs with hc
      · exfalso; rw [hd, capDist_eq, if_pos hc] at hcap; exact lt_irrefl _ hcap
      · rfl
    refine ⟨hd', g.mem, optDistF_evals_length _ _ _, ?_⟩
    intro p hp
    have := g.best p hp
    rw [hd']
    exact neg_le_neg_iff.mp this

/-! ## rows in the other order: the likelihood under a reversible model -/

private theorem list_sum_range (n : ℕ) (g : ℕ → ℝ) : ((List.range n).map g).sum = ∑ i ∈ Finset.range n, g i := by
  induction n with
  | zero => simp
  | succ n ih => simp [List.range_succ, Finset.sum_range_succ, ih]

private theorem lnLOf_eq_sum (pi : ℕ → ℝ) (F P : ℕ → ℕ → ℝ) :
    lnLOf pi F P = ∑ i ∈ Finset.range ns, ∑ j ∈ Finset.range ns, F i j * Real.log (pi i * P i j) := by
  unfold lnLOf
  simp only [RealLike.real_zero, RealLike.real_log, zero_add]
  have inner : ∀ (i : ℕ) (acc : ℝ),
      (List.range ns).foldl (fun acc j => acc + F i j * Real.log (pi i * P i j)) acc =
        acc + ∑ j ∈ Finset.range ns, F i j * Real.log (pi i * P i j) := by
    intro i acc
    rw [foldl_add_eq (fun j => F i j * Real.log (pi i * P i j)) _ (fun _ _ => rfl) (List.range ns) acc,
      list_sum_range]
  simp only [inner]
  rw [foldl_add_eq (fun i => ∑ j ∈ Finset.range ns, F i j * Real.log (pi i * P i j)) _ (fun _ _ => rfl),
    list_sum_range]
  simp

/-- *partial* (needs reversibility, which the numerically decomposed `P(t)` only has up to rounding): when
`π_i P_ij = π_j P_ji`, the log-likelihood of the transposed pair frequencies equals that of the original ones; with
`counts_row_swap` this is why listing the two rows in the other order leaves the objective, hence the distance,
unchanged -/
theorem lnL_transpose_of_reversible_partial (pi : ℕ → ℝ) (F P : ℕ → ℕ → ℝ)
    (hrev : ∀ i j, pi i * P i j = pi j * P j i) :
    lnLOf pi (fun i j => F j i) P = lnLOf pi F P := by
  rw [lnLOf_eq_sum, lnLOf_eq_sum, Finset.sum_comm]
  apply Finset.sum_congr rfl
  intro i _
  apply Finset.sum_congr rfl
  intro j _
  rw [hrev j i]

example : ∀ i j : ℕ, (fun _ : ℕ => (1 : ℝ) / 20) i * (fun _ _ : ℕ => (1 : ℝ) / 20) i j =
    (fun _ : ℕ => (1 : ℝ) / 20) j * (fun _ _ : ℕ => (1 : ℝ) / 20) j i := by intro i j; rfl

end Gv.Props.C17
