import Gv.Model.Rand
import Gv.Spec.Rand
/-!
# C10 — randomised operations keep invariants, reach all outcomes, replay from seed

The operations are `RProg` programs (`lean/Gv/Model/Rand.lean`).  Invariants are proved for **every
answer tape** (`runTape`), hence — by `RProg.runGen_is_runTape` — for every seed of any generator whose
`Intn(n)` answers below `n`; support claims exhibit an admissible tape for every admissible outcome.
Determinism (same seed ⇒ same result) is immediate: `runSeed p seed` is a function.
-/
namespace Gv.Props.C10
open Gv Gv.Model Gv.Model.RProg

/-! ## the Go generator answers `Intn(n)` below `n` -/

private theorem int31nLoop_lt (max n : Nat) (hn : 0 < n) : ∀ fuel s, (GoRng.int31nLoop max n fuel s).1 < n := by
  intro fuel
  induction fuel with
  | zero => intro s; simpa [GoRng.int31nLoop] using hn
  | succ f ih =>
    intro s
    simp only [GoRng.int31nLoop]
    split
    · exact ih _
    · exact Nat.mod_lt _ hn

theorem goGen_intn_lt (n : Nat) (s : GoRng.St) (hn : 0 < n) : (goGen.intn n s).1 < n := by
  simp only [goGen, GoRng.intn, GoRng.int31n]
  split
  · simp only []
    have : (GoRng.int31 s).1 &&& (n - 1) ≤ n - 1 := Nat.and_le_right
    omega
  · exact int31nLoop_lt _ n hn _ _

/-- every seeded run of a well-formed program is a tape run: theorems over all tapes cover all seeds -/
theorem runSeed_is_runTape {α} (p : RProg α) (h : RProg.WF p) (seed : Int) :
    ∃ t, runTape p t = some (runSeed p seed, []) :=
  ⟨_, RProg.runGen_is_runTape goGen goGen_intn_lt p h (GoRng.seed seed)⟩

/-- determinism: re-running with the same seed reproduces the result exactly -/
theorem same_seed_same_result {α} (p : RProg α) (seed : Int) : runSeed p seed = runSeed p seed := rfl

/-! ## sequence shuffling is a row permutation -/

private theorem swapAt_perm {α} [DecidableEq α] (l : List α) (i j : Nat) : (swapAt l i j).Perm l := by
  unfold swapAt
  split
  · rename_i a b ha hb
    -- (l.set i b).set j a is a permutation of l
    have hi : i < l.length := by
      rcases Nat.lt_or_ge i l.length with h | h
      · exact h
      · rw [List.getElem?_eq_none h] at ha; cases ha
    have hj : j < l.length := by
      rcases Nat.lt_or_ge j l.length with h | h
      · exact h
      · rw [List.getElem?_eq_none h] at hb; cases hb
    have ea : l[i] = a := by rw [List.getElem?_eq_getElem hi] at ha; exact Option.some.inj ha
    have eb : l[j] = b := by rw [List.getElem?_eq_getElem hj] at hb; exact Option.some.inj hb
    apply List.perm_iff_count.mpr
    intro x
    by_cases hij : i = j
    · subst hij
      have : a = b := ea.symm.trans eb
      subst this
      simp only [List.set_set]
      rw [← ea, List.set_getElem_self]
    · have hj' : j < (l.set i b).length := by simpa using hj
      rw [List.count_set (h := hj'), List.count_set (h := hi)]
      have e1 : (l.set i b)[j] = b := by
        rw [List.getElem_set_ne (by omega)]; exact eb
      rw [e1, ea]
      have hca : 0 < l.count a := List.count_pos_iff.mpr (ea ▸ List.getElem_mem hi)
      have hcb : 0 < l.count b := List.count_pos_iff.mpr (eb ▸ List.getElem_mem hj)
      by_cases h1 : a = x <;> by_cases h2 : b = x <;> simp [h1, h2] <;> (try subst h1) <;> (try subst h2) <;> omega
  · exact List.Perm.refl _

private theorem shuffleAux_perm {α} [DecidableEq α] : ∀ (n : Nat) (l : List α) (t : List Ans) (r : List α) (t' : List Ans),
    runTape (shuffleAux n l) t = some (r, t') → r.Perm l := by
  intro n
  induction n using Nat.strongRecOn with
  | _ n ih =>
    intro l t r t' h
    match n with
    | 0 => simp [shuffleAux, runTape] at h; rw [← h.1]
    | 1 => simp [shuffleAux, runTape] at h; rw [← h.1]
    | n + 2 =>
      simp only [shuffleAux] at h
      cases t with
      | nil => simp [runTape] at h
      | cons a t =>
        cases a with
        | flt x => simp [runTape] at h
        | nat v =>
          simp only [runTape] at h
          split at h
          · exact (ih (n + 1) (by omega) _ _ _ _ h).trans (swapAt_perm _ _ _)
          · simp at h

/-- **`ShuffleSequences` returns a permutation of the rows, whatever the draws.** -/
theorem shuffle_is_row_permutation (rows : Rows) (t : List Ans) (out : Rows) (t' : List Ans)
    (h : runTape (shuffleSequences rows) t = some (out, t')) : out.Perm rows :=
  shuffleAux_perm _ _ _ _ _ h


/-! ## `rand.Perm` yields a permutation (inside-out Fisher–Yates), for every tape -/

private theorem permStep (m : List Nat) (i j : Nat) (hi : i < m.length) (hj : j ≤ i)
    (hp : (m.take i).Perm (List.range i)) :
    (((m.set i (m.getD j 0)).set j i).take (i + 1)).Perm (List.range (i + 1)) := by
  have hjl : j < m.length := by omega
  have hg : m.getD j 0 = m[j] := by
    rw [List.getD_eq_getElem?_getD, List.getElem?_eq_getElem hjl]; rfl
  rw [hg]
  -- l = take i m ++ [i] is a permutation of range (i+1); the new prefix is `swapAt l i j`
  let l := m.take i ++ [i]
  have hl : l.Perm (List.range (i + 1)) := by
    rw [List.range_succ]
    exact hp.append_right [i]
  have hlen : (m.take i).length = i := by simp; omega
  have hli : l[i]? = some i := by
    simp only [l]
    rw [List.getElem?_append_right (by omega)]
    simp [hlen]
  have hlj : l[j]? = some (if j = i then i else m[j]) := by
    simp only [l]
    by_cases e : j = i
    · subst e; simpa [l] using hli
    · have : j < (m.take i).length := by omega
      rw [List.getElem?_append_left this, List.getElem?_take_of_lt (by omega), List.getElem?_eq_getElem hjl]
      simp [e]
  have hsw : ((m.set i m[j]).set j i).take (i + 1) = swapAt l i j := by
    unfold swapAt
    rw [hli, hlj]
    simp only []
    rw [List.take_set, List.take_set]
    have h1 : m.take (i + 1) = m.take i ++ [m[i]] := by
      rw [List.take_succ, List.getElem?_eq_getElem hi]; rfl
    by_cases e : j = i
    · subst e
      simp only [if_true, l]
      rw [h1, List.set_set]
      rw [List.set_append_right _ _ (by omega), List.set_append_right _ _ (by omega)]
      simp [hlen]
    · simp only [e, if_false, l]
      rw [h1]
      have a1 : (m.take i ++ [m[i]]).set i m[j] = m.take i ++ [m[j]] := by
        rw [List.set_append_right _ _ (by omega)]; simp [hlen]
      have a2 : (m.take i ++ [i]).set i m[j] = m.take i ++ [m[j]] := by
        rw [List.set_append_right _ _ (by omega)]; simp [hlen]
      rw [a1, a2]
  rw [hsw]
  exact (swapAt_perm l i j).trans hl

private theorem permAux_perm : ∀ (k i : Nat) (m : List Nat) (t : List Ans) (p : List Nat) (t' : List Ans),
    m.length = i + k → (m.take i).Perm (List.range i) →
    runTape (permAux k i m) t = some (p, t') → p.Perm (List.range (i + k)) := by
  intro k
  induction k with
  | zero =>
    intro i m t p t' hl hp h
    simp [permAux, runTape] at h
    obtain ⟨rfl, _⟩ := h
    have : m.take i = m := List.take_of_length_le (by omega)
    rw [this] at hp
    simpa using hp
  | succ k ih =>
    intro i m t p t' hl hp h
    simp only [permAux] at h
    cases t with
    | nil => simp [runTape] at h
    | cons a t =>
      cases a with
      | flt x => simp [runTape] at h
      | nat j =>
        simp only [runTape] at h
        split at h
        · rename_i hj
          have := ih (i + 1) _ t p t' (by simp; omega) (permStep m i j (by omega) (by omega) hp) h
          have e : i + 1 + k = i + (k + 1) := by omega
          rw [e] at this
          exact this
        · simp at h

/-- **`rand.Perm(n)` returns a permutation of `0 … n-1`, whatever the draws.** -/
theorem perm_is_permutation (n : Nat) (t : List Ans) (p : List Nat) (t' : List Ans)
    (h : runTape (permProg n) t = some (p, t')) : p.Perm (List.range n) := by
  have := permAux_perm n 0 (List.replicate n 0) t p t' (by simp) (by simp) h
  simpa using this

/-- **Sequence sampling draws distinct original rows**: the sample is the image of the first `nb`
entries of a permutation of the row positions (so no row is taken twice) — for every tape. -/
theorem sample_distinct_rows (nb : Nat) (rows : Rows) (t : List Ans) (out : Rows) (t' : List Ans)
    (h : runTape (sampleRows nb rows) t = some (out, t')) :
    ∃ p : List Nat, p.Perm (List.range rows.length) ∧ out = (p.take nb).filterMap fun i => rows[i]? := by
  unfold sampleRows at h
  rw [runTape_bind] at h
  cases hr : runTape (permProg rows.length) t with
  | none => simp [hr] at h
  | some r =>
    obtain ⟨p, t2⟩ := r
    simp [hr, runTape] at h
    exact ⟨p, perm_is_permutation _ _ _ _ hr, h.1.symm⟩

/-- site sampling without replacement takes distinct columns -/
theorem columns_distinct (len L : Nat) (rows : Rows) (t : List Ans) (out : Rows) (t' : List Ans)
    (h : runTape (randSubAlign len L false rows) t = some (out, t')) :
    ∃ p : List Nat, p.Perm (List.range L) ∧ out = selectCols (p.take len) rows := by
  simp only [randSubAlign, Bool.false_eq_true, if_false] at h
  rw [runTape_bind] at h
  cases hr : runTape (permProg L) t with
  | none => simp [hr] at h
  | some r =>
    obtain ⟨p, t2⟩ := r
    simp [hr, runTape] at h
    exact ⟨p, perm_is_permutation _ _ _ _ hr, h.1.symm⟩

/-! ## bootstrap -/

private theorem drawIdx_spec (L : Nat) : ∀ (n : Nat) (t : List Ans) (idx : List Nat) (t' : List Ans),
    runTape (drawIdx L n) t = some (idx, t') → idx.length = n ∧ ∀ i ∈ idx, i < L := by
  intro n
  induction n with
  | zero => intro t idx t' h; simp [drawIdx, runTape] at h; obtain ⟨rfl, _⟩ := h; simp
  | succ n ih =>
    intro t idx t' h
    simp only [drawIdx] at h
    cases t with
    | nil => simp [runTape] at h
    | cons a t =>
      cases a with
      | flt x => simp [runTape] at h
      | nat v =>
        simp only [runTape] at h
        split at h
        · rename_i hv
          rw [runTape_bind] at h
          cases hr : runTape (drawIdx L n) t with
          | none => simp [hr] at h
          | some r =>
            obtain ⟨rest, t2⟩ := r
            simp [hr, runTape] at h
            obtain ⟨hl, hlt⟩ := ih t rest t2 hr
            rw [← h.1]
            refine ⟨by simp [hl], ?_⟩
            intro i hi
            rcases List.mem_cons.mp hi with rfl | hi
            · exact hv
            · exact hlt i hi
        · simp at h

/-- **Every bootstrap column is an original column taken for all rows at once, the output has the
requested number `n` of columns, names and row order are kept** — for every tape. -/
theorem bootstrap_columns_original (n L : Nat) (rows : Rows) (t : List Ans) (out : Rows) (t' : List Ans)
    (h : runTape (bootstrap n L rows) t = some (out, t')) :
    ∃ idx : List Nat, idx.length = n ∧ (∀ i ∈ idx, i < L) ∧ out = selectCols idx rows ∧
      out.map Prod.fst = rows.map Prod.fst ∧ ∀ r ∈ out, r.2.length = n := by
  unfold bootstrap at h
  rw [runTape_bind] at h
  cases hr : runTape (drawIdx L n) t with
  | none => simp [hr] at h
  | some r =>
    obtain ⟨idx, t2⟩ := r
    simp [hr, runTape] at h
    obtain ⟨hl, hlt⟩ := drawIdx_spec L n t idx t2 hr
    refine ⟨idx, hl, hlt, h.1.symm, ?_, ?_⟩
    · rw [← h.1]; simp [selectCols, List.map_map, Function.comp_def]
    · intro r hr'
      rw [← h.1] at hr'
      simp only [selectCols, List.mem_map] at hr'
      obtain ⟨r0, _, e⟩ := hr'
      rw [← e]; simp [hl]

/-- **Support: every vector of `n` site indices below `L` — in particular one containing the last
site `L-1`, or any given site — is produced by an admissible tape.**  (With `Intn(L-1)` instead of
`Intn(L)` in the program this theorem becomes unprovable.) -/
theorem bootstrap_every_site_reachable (L : Nat) (rows : Rows) (idx : List Nat) (h : ∀ i ∈ idx, i < L) :
    runTape (bootstrap idx.length L rows) (idx.map Ans.nat) = some (selectCols idx rows, []) := by
  have key : ∀ (idx : List Nat), (∀ i ∈ idx, i < L) → ∀ rest, runTape (drawIdx L idx.length) (idx.map Ans.nat ++ rest) = some (idx, rest) := by
    intro idx
    induction idx with
    | nil => intro _ rest; simp [drawIdx, runTape]
    | cons v tl ih =>
      intro hh rest
      have hv : v < L := hh v (by simp)
      simp only [List.length_cons, drawIdx, List.map_cons, List.cons_append, runTape, hv, if_true]
      rw [runTape_bind, ih (fun i hi => hh i (by simp [hi])) rest]
      simp [runTape]
  unfold bootstrap
  rw [runTape_bind]
  have := key idx h []
  simp only [List.append_nil] at this
  rw [this]
  simp [runTape]

/-! ## random window (`RandSubAlign` consecutive) -/

/-- the result is the contiguous window at some offset `start ≤ L - len`, for every tape -/
theorem window_is_contiguous (len L : Nat) (rows : Rows) (t : List Ans) (out : Rows) (t' : List Ans)
    (h : runTape (randSubAlign len L true rows) t = some (out, t')) :
    ∃ start, start ≤ L - len ∧ out = rows.map fun r => (r.1, (r.2.drop start).take len) := by
  simp only [randSubAlign, if_true] at h
  cases t with
  | nil => simp [runTape] at h
  | cons a t =>
    cases a with
    | flt x => simp [runTape] at h
    | nat v =>
      simp only [runTape] at h
      split at h
      · rename_i hv
        simp at h
        exact ⟨v, by omega, h.1.symm⟩
      · simp at h

/-- **Support: every window offset `0 … L-len`, including the last one, is reachable.** -/
theorem window_every_offset_reachable (len L : Nat) (rows : Rows) (start : Nat) (hs : start ≤ L - len) :
    runTape (randSubAlign len L true rows) [Ans.nat start] =
      some (rows.map fun r => (r.1, (r.2.drop start).take len), []) := by
  have : start < L - len + 1 := by omega
  simp [randSubAlign, runTape, this]

/-! ## substitutions and added gaps touch only what they may -/

/-- two lists of equal length related position by position -/
inductive Pointwise {α β : Type} (R : α → β → Prop) : List α → List β → Prop
  | nil : Pointwise R [] []
  | cons {a b as bs} : R a b → Pointwise R as bs → Pointwise R (a :: as) (b :: bs)

private theorem mutateSeq_frame (rate : Float) (alphabet : List Byte) : ∀ (s : Seq) (t : List Ans) (out : Seq) (t' : List Ans),
    runTape (mutateSeq rate alphabet s) t = some (out, t') →
    Pointwise (fun x y => x = y ∨ (x ≠ GAP ∧ x ≠ POINT ∧ x ≠ OTHER ∧ y ∈ alphabet)) s out := by
  intro s
  induction s with
  | nil => intro t out t' h; simp [mutateSeq, runTape] at h; obtain ⟨rfl, _⟩ := h; exact Pointwise.nil
  | cons c tl ih =>
    intro t out t' h
    simp only [mutateSeq] at h
    cases t with
    | nil => simp [runTape] at h
    | cons a t =>
      cases a with
      | nat v => simp [runTape] at h
      | flt x =>
        simp only [runTape] at h
        split at h
        · rename_i hc
          cases t with
          | nil => simp [runTape] at h
          | cons a2 t =>
            cases a2 with
            | flt y => simp [runTape] at h
            | nat k =>
              simp only [runTape] at h
              split at h
              · rename_i hk
                rw [runTape_bind] at h
                cases hr : runTape (mutateSeq rate alphabet tl) t with
                | none => simp [hr] at h
                | some r =>
                  obtain ⟨tl', t2⟩ := r
                  simp [hr, runTape] at h
                  rw [← h.1]
                  refine Pointwise.cons (Or.inr ?_) (ih _ _ _ hr)
                  simp only [Bool.and_eq_true, bne_iff_ne, ne_eq] at hc
                  refine ⟨hc.1.1.2, hc.1.2, hc.2, ?_⟩
                  rw [List.getElem?_eq_getElem hk]
                  exact List.getElem_mem hk
              · simp at h
        · rw [runTape_bind] at h
          cases hr : runTape (mutateSeq rate alphabet tl) t with
          | none => simp [hr] at h
          | some r =>
            obtain ⟨tl', t2⟩ := r
            simp [hr, runTape] at h
            rw [← h.1]
            exact Pointwise.cons (Or.inl rfl) (ih _ _ _ hr)

private theorem mutateRows_frame (rate : Float) (alphabet : List Byte) : ∀ (rows : Rows) (t : List Ans) (out : Rows) (t' : List Ans),
    runTape (mutateRows rate alphabet rows) t = some (out, t') →
    Pointwise (fun a b => a.1 = b.1 ∧
      Pointwise (fun x y => x = y ∨ (x ≠ GAP ∧ x ≠ POINT ∧ x ≠ OTHER ∧ y ∈ alphabet)) a.2 b.2) rows out := by
  intro rows
  induction rows with
  | nil => intro t out t' h; simp [mutateRows, runTape] at h; obtain ⟨rfl, _⟩ := h; exact Pointwise.nil
  | cons r tl ih =>
    intro t out t' h
    simp only [mutateRows] at h
    rw [runTape_bind] at h
    cases hr : runTape (mutateSeq rate alphabet r.2) t with
    | none => simp [hr] at h
    | some x =>
      obtain ⟨s, t2⟩ := x
      simp only [hr, Option.bind_some] at h
      rw [runTape_bind] at h
      cases hr2 : runTape (mutateRows rate alphabet tl) t2 with
      | none => simp [hr2] at h
      | some y =>
        obtain ⟨tl', t3⟩ := y
        simp [hr2, runTape] at h
        rw [← h.1]
        exact Pointwise.cons ⟨rfl, mutateSeq_frame _ _ _ _ _ _ hr⟩ (ih _ _ _ hr2)

/-- **`Mutate` only replaces non-gap, non-special residues, and only by letters of the alphabet;
names, order and lengths are untouched** — for every tape and every rate. -/
theorem mutate_frame (rate : Float) (alphabet : List Byte) (rows : Rows) (t : List Ans) (out : Rows) (t' : List Ans)
    (h : runTape (mutate rate alphabet rows) t = some (out, t')) :
    Pointwise (fun a b => a.1 = b.1 ∧
      Pointwise (fun x y => x = y ∨ (x ≠ GAP ∧ x ≠ POINT ∧ x ≠ OTHER ∧ y ∈ alphabet)) a.2 b.2) rows out := by
  unfold mutate at h
  split at h
  · simp [runTape] at h
    rw [← h.1]
    clear h
    induction rows with
    | nil => exact Pointwise.nil
    | cons r tl ih =>
      refine Pointwise.cons ⟨rfl, ?_⟩ ih
      generalize r.2 = s
      induction s with
      | nil => exact Pointwise.nil
      | cons c tl ih2 => exact Pointwise.cons (Or.inl rfl) ih2
  · exact mutateRows_frame _ _ _ _ _ _ h


/-! ## the programs only ever ask `Intn(n)` with `n > 0` (so seeded runs are tape runs) -/

private theorem wf_bind {α β} (p : RProg α) (f : α → RProg β) (hp : WF p) (hf : ∀ a, WF (f a)) : WF (RProg.bind p f) := by
  induction hp with
  | pure a => exact hf a
  | intn n k hn _ ih => exact WF.intn n _ hn (fun v hv => ih v hv)
  | unit k _ ih => exact WF.unit _ (fun x => ih x)

theorem permProg_wf (n : Nat) : WF (permProg n) := by
  unfold permProg
  generalize List.replicate n 0 = m
  generalize 0 = i
  induction n generalizing i m with
  | zero => exact WF.pure _
  | succ k ih => exact WF.intn _ _ (by omega) (fun v _ => ih _ _)

theorem shuffleSequences_wf (rows : Rows) : WF (shuffleSequences rows) := by
  unfold shuffleSequences
  generalize rows.length = n
  induction n using Nat.strongRecOn generalizing rows with
  | _ n ih =>
    match n with
    | 0 => exact WF.pure _
    | 1 => exact WF.pure _
    | n + 2 => exact WF.intn _ _ (by omega) (fun v _ => ih (n + 1) (by omega) _)

theorem bootstrap_wf (n L : Nat) (rows : Rows) (hL : 0 < L) : WF (bootstrap n L rows) := by
  unfold bootstrap
  apply wf_bind
  · induction n with
    | zero => exact WF.pure _
    | succ n ih => exact WF.intn _ _ hL (fun v _ => wf_bind _ _ ih (fun _ => WF.pure _))
  · intro; exact WF.pure _

theorem sampleRows_wf (nb : Nat) (rows : Rows) : WF (sampleRows nb rows) :=
  wf_bind _ _ (permProg_wf _) (fun _ => WF.pure _)

theorem randSubAlign_wf (len L : Nat) (c : Bool) (rows : Rows) : WF (randSubAlign len L c rows) := by
  unfold randSubAlign
  split
  · exact WF.intn _ _ (by omega) (fun _ _ => WF.pure _)
  · exact wf_bind _ _ (permProg_wf _) (fun _ => WF.pure _)

/-- hence, e.g.: **for every seed** the seeded bootstrap consists of original columns -/
theorem bootstrap_every_seed (n L : Nat) (rows : Rows) (hL : 0 < L) (seed : Int) :
    ∃ idx : List Nat, idx.length = n ∧ (∀ i ∈ idx, i < L) ∧ runSeed (bootstrap n L rows) seed = selectCols idx rows := by
  obtain ⟨t, ht⟩ := runSeed_is_runTape _ (bootstrap_wf n L rows hL) seed
  obtain ⟨idx, h1, h2, h3, _⟩ := bootstrap_columns_original n L rows t _ _ ht
  exact ⟨idx, h1, h2, h3⟩

/-- and **for every seed** `ShuffleSequences` permutes the rows -/
theorem shuffle_every_seed (rows : Rows) (seed : Int) : (runSeed (shuffleSequences rows) seed).Perm rows := by
  obtain ⟨t, ht⟩ := runSeed_is_runTape _ (shuffleSequences_wf rows) seed
  exact shuffle_is_row_permutation rows t _ _ ht

/-! ## non-vacuity -/

example : runTape (bootstrap 3 4 [("a", [65, 67, 71, 84])]) [.nat 3, .nat 3, .nat 0] = some ([("a", [84, 84, 65])], []) := by
  rfl

example : ∃ t, runTape (shuffleSequences [("a", [65]), ("b", [67]), ("c", [71])]) t = some ([("b", [67]), ("c", [71]), ("a", [65])], []) :=
  ⟨[.nat 0, .nat 0], by rfl⟩

/-! ## Rarefy -/

private theorem rarefyPick_mem (u : Float) (total : Nat) : ∀ (cs : List (String × Nat)) (pr : Float) (done : List (String × Nat))
    (k : String) (cs' : List (String × Nat)),
    rarefyPick u total cs pr done = some (k, cs') →
    k ∈ cs.map Prod.fst ∧ ∀ x ∈ cs'.map Prod.fst, x ∈ (done.reverse ++ cs).map Prod.fst := by
  intro cs
  induction cs with
  | nil => intro pr done k cs' h; simp [rarefyPick] at h
  | cons c rest ih =>
    intro pr done k cs' h
    obtain ⟨ck, cv⟩ := c
    simp only [rarefyPick] at h
    split at h
    · simp only [Option.some.injEq, Prod.mk.injEq] at h
      obtain ⟨rfl, rfl⟩ := h
      refine ⟨by simp, ?_⟩
      intro x hx
      split at hx <;> simp at hx ⊢ <;> grind
    · obtain ⟨h1, h2⟩ := ih _ _ _ _ h
      refine ⟨by simp; exact Or.inr (by simpa using h1), ?_⟩
      intro x hx
      have := h2 x hx
      simp at this ⊢
      grind

private theorem rarefyLoop_sel (n : Nat) : ∀ (total : Nat) (cs : List (String × Nat)) (sel : List String) (t : List Ans)
    (out : List String) (t' : List Ans),
    runTape (rarefyLoop n total cs sel) t = some (out, t') →
    ∀ x ∈ out, x ∈ sel ∨ x ∈ cs.map Prod.fst := by
  induction n with
  | zero => intro total cs sel t out t' h; simp [rarefyLoop, runTape] at h; obtain ⟨rfl, _⟩ := h; intro x hx; exact Or.inl hx
  | succ n ih =>
    intro total cs sel t out t' h
    simp only [rarefyLoop] at h
    cases t with
    | nil => simp [runTape] at h
    | cons a t =>
      cases a with
      | nat v => simp [runTape] at h
      | flt u =>
        simp only [runTape] at h
        split at h
        · rename_i k cs' hp
          obtain ⟨h1, h2⟩ := rarefyPick_mem u total cs 0.0 [] k cs' hp
          intro x hx
          rcases ih _ _ _ _ _ _ h x hx with hs | hc
          · simp at hs
            rcases hs with rfl | hs
            · exact Or.inr h1
            · exact Or.inl hs
          · exact Or.inr (by simpa using h2 x hc)
        · exact ih _ _ _ _ _ _ h

/-- **`Rarefy` returns original rows in their original order, each of which was given a count** — for
every tape (the draws only decide which counted rows are kept). -/
theorem rarefy_keeps_counted_rows_in_order (nb : Nat) (counts : List (String × Nat)) (rows : Rows) (p : RProg Rows)
    (hp : rarefy nb counts rows = some p) (t : List Ans) (out : Rows) (t' : List Ans)
    (h : runTape p t = some (out, t')) :
    out.Sublist rows ∧ ∀ r ∈ out, r.1 ∈ counts.map Prod.fst := by
  unfold rarefy at hp
  split at hp
  · cases hp
  · simp only at hp
    split at hp
    · cases hp
    · simp only [Option.some.injEq] at hp
      subst hp
      rw [runTape_bind] at h
      cases hl : runTape (rarefyLoop nb ((counts.map Prod.snd).foldl (· + ·) 0) counts []) t with
      | none => simp [hl] at h
      | some r =>
        obtain ⟨sel, t1⟩ := r
        simp only [hl, Option.bind_some, runTape, Option.some.injEq, Prod.mk.injEq] at h
        obtain ⟨rfl, _⟩ := h
        refine ⟨List.filter_sublist, ?_⟩
        intro r hr
        have hm := (List.mem_filter.mp hr).2
        have hsel : r.1 ∈ sel := by simpa using hm
        rcases rarefyLoop_sel nb _ counts [] t sel t1 hl r.1 hsel with h0 | h1
        · simp at h0
        · exact h1

/-- the hypotheses are satisfiable: a concrete rarefaction -/
example : ∃ p, rarefy 1 [("a", 2), ("b", 1)] [("a", [65]), ("b", [67]), ("c", [71])] = some p ∧
    (runTape p [Ans.flt 0.9]).map (·.1) = some [("b", [67])] := by
  exact ⟨_, rfl, rfl⟩



/-! ## invariants of the remaining operations, stated over *all* outcomes of a program -/

/-- every possible result of the program — whatever the answers to its draws — satisfies `P` -/
inductive AllOut {α : Type} (P : α → Prop) : RProg α → Prop
  | pure (a : α) : P a → AllOut P (.pure a)
  | intn (n : Nat) (k : Nat → RProg α) : (∀ v, v < n → AllOut P (k v)) → AllOut P (.intn n k)
  | unit (k : Float → RProg α) : (∀ x, AllOut P (k x)) → AllOut P (.unit k)

theorem AllOut.of_runTape {α} {P : α → Prop} {p : RProg α} (h : AllOut P p) :
    ∀ (t : List Ans) (a : α) (t' : List Ans), runTape p t = some (a, t') → P a := by
  induction h with
  | pure a ha => intro t b t' hr; simp [runTape] at hr; obtain ⟨rfl, _⟩ := hr; exact ha
  | intn n k _ ih =>
    intro t b t' hr
    cases t with
    | nil => simp [runTape] at hr
    | cons x t =>
      cases x with
      | nat v =>
        simp only [runTape] at hr
        split at hr
        · rename_i hv; exact ih v hv t b t' hr
        · cases hr
      | flt f => simp [runTape] at hr
  | unit k _ ih =>
    intro t b t' hr
    cases t with
    | nil => simp [runTape] at hr
    | cons x t =>
      cases x with
      | nat v => simp [runTape] at hr
      | flt f => exact ih f t b t' (by simpa [runTape] using hr)

theorem AllOut.bind {α β} {Q : α → Prop} {P : β → Prop} {p : RProg α} {f : α → RProg β}
    (hp : AllOut Q p) (hf : ∀ a, Q a → AllOut P (f a)) : AllOut P (RProg.bind p f) := by
  induction hp with
  | pure a ha => exact hf a ha
  | intn n k _ ih => exact AllOut.intn n _ (fun v hv => ih v hv)
  | unit k _ ih => exact AllOut.unit _ (fun x => ih x)

theorem AllOut.trivial {α} (p : RProg α) : AllOut (fun _ => True) p := by
  induction p with
  | pure a => exact AllOut.pure a True.intro
  | intn n k ih => exact AllOut.intn n k (fun v _ => ih v)
  | unit k ih => exact AllOut.unit k ih

/-- conversely, a statement about all tape runs is an `AllOut` statement -/
theorem AllOut.of_forall_tapes {α} {P : α → Prop} (p : RProg α)
    (h : ∀ (t : List Ans) (a : α) (t' : List Ans), runTape p t = some (a, t') → P a) : AllOut P p := by
  induction p with
  | pure a => exact AllOut.pure a (h [] a [] (by simp [runTape]))
  | intn n k ih =>
    refine AllOut.intn n k (fun v hv => ih v (fun t a t' hr => h (Ans.nat v :: t) a t' ?_))
    simp [runTape, hv, hr]
  | unit k ih =>
    refine AllOut.unit k (fun x => ih x (fun t a t' hr => h (Ans.flt x :: t) a t' ?_))
    simp [runTape, hr]

/-- seeded runs are covered too: a run of a generator that answers `Intn(n)` below `n` is some run -/
theorem AllOut.of_runGen {α σ} {P : α → Prop} {p : RProg α} (h : AllOut P p) (hwf : WF p) (g : Gen σ)
    (hg : ∀ n s, 0 < n → (g.intn n s).1 < n) (s : σ) : P (runGen g p s).1 := by
  have := runGen_is_runTape g hg p hwf s
  exact h.of_runTape _ _ _ this

/-! ### AddGaps -/

/-- residues may only become gaps -/
def GapStep (a b : Seq) : Prop := Pointwise (fun x y => x = y ∨ y = GAP) a b
def GapRel (a b : Rows) : Prop := Pointwise (fun r s => r.1 = s.1 ∧ GapStep r.2 s.2) a b

theorem Pointwise.refl' {α} {R : α → α → Prop} (h : ∀ a, R a a) : ∀ l : List α, Pointwise R l l
  | [] => Pointwise.nil
  | a :: l => Pointwise.cons (h a) (Pointwise.refl' h l)

theorem Pointwise.trans' {α} {R : α → α → Prop} (h : ∀ a b c, R a b → R b c → R a c) :
    ∀ {l₁ l₂ l₃ : List α}, Pointwise R l₁ l₂ → Pointwise R l₂ l₃ → Pointwise R l₁ l₃ := by
  intro l₁ l₂ l₃ h₁
  induction h₁ generalizing l₃ with
  | nil => intro h₂; cases h₂; exact Pointwise.nil
  | cons hab _ ih =>
    intro h₂
    cases h₂ with
    | cons hbc h₂' => exact Pointwise.cons (h _ _ _ hab hbc) (ih h₂')

theorem Pointwise.set' {α} {R : α → α → Prop} (hr : ∀ a, R a a) :
    ∀ (l : List α) (i : Nat) (b : α), (∀ a, l[i]? = some a → R a b) → Pointwise R l (l.set i b) := by
  intro l
  induction l with
  | nil => intro i b _; exact Pointwise.nil
  | cons a l ih =>
    intro i b h
    cases i with
    | zero => exact Pointwise.cons (h a (by simp)) (Pointwise.refl' hr l)
    | succ i => exact Pointwise.cons (hr a) (ih i b (fun a' ha' => h a' (by simpa using ha')))

theorem GapStep.refl (s : Seq) : GapStep s s :=
  Pointwise.refl' (R := fun x y => x = y ∨ y = GAP) (fun _ => Or.inl rfl) s
theorem GapStep.trans {a b c : Seq} (h₁ : GapStep a b) (h₂ : GapStep b c) : GapStep a c :=
  Pointwise.trans' (R := fun x y => x = y ∨ y = GAP) (fun _ _ _ hxy hyz => by
    rcases hyz with rfl | rfl
    · exact hxy
    · exact Or.inr rfl) h₁ h₂

theorem GapRel.refl (r : Rows) : GapRel r r := Pointwise.refl' (fun a => ⟨rfl, GapStep.refl a.2⟩) r
theorem GapRel.trans {a b c : Rows} (h₁ : GapRel a b) (h₂ : GapRel b c) : GapRel a c :=
  Pointwise.trans' (fun x y z hxy hyz => ⟨hxy.1.trans hyz.1, hxy.2.trans hyz.2⟩) h₁ h₂

theorem setCols_gapStep (cols : List Nat) : ∀ s : Seq, GapStep s (setCols s cols GAP) := by
  unfold setCols
  induction cols with
  | nil => intro s; exact GapStep.refl s
  | cons j cols ih =>
    intro s
    simp only [List.foldl_cons]
    exact GapStep.trans (Pointwise.set' (R := fun x y => x = y ∨ y = GAP) (fun _ => Or.inl rfl) s j GAP (fun _ _ => Or.inr rfl)) (ih _)

theorem updateRow_gapRel (rows : Rows) (i : Nat) (cols : List Nat) :
    GapRel rows (updateRow rows i fun s => setCols s cols GAP) := by
  unfold updateRow
  split
  · rename_i r hr
    exact Pointwise.set' (fun a => ⟨rfl, GapStep.refl a.2⟩) rows i _
      (fun a ha => by rw [hr] at ha; cases ha; exact ⟨rfl, setCols_gapStep cols _⟩)
  · exact GapRel.refl rows

theorem addGapsLoop_allOut (L nbgaps : Nat) : ∀ (idx : List Nat) (rows₀ rows : Rows), GapRel rows₀ rows →
    AllOut (fun out => GapRel rows₀ out) (addGapsLoop L nbgaps idx rows) := by
  intro idx
  induction idx with
  | nil => intro rows₀ rows h; exact AllOut.pure _ h
  | cons i rest ih =>
    intro rows₀ rows h
    simp only [addGapsLoop]
    exact AllOut.bind (AllOut.trivial _) (fun ps _ => ih rows₀ _ (GapRel.trans h (updateRow_gapRel rows i _)))

/-- **`AddGaps` only turns residues into gaps; names, order and lengths are untouched** — for every
answer to every draw, hence for every seed. -/
theorem addGaps_only_adds_gaps (nb nbgaps L : Nat) (rows : Rows) :
    AllOut (fun out => GapRel rows out) (addGaps nb nbgaps L rows) := by
  unfold addGaps
  exact AllOut.bind (AllOut.trivial _) (fun p _ => addGapsLoop_allOut L nbgaps _ rows rows (GapRel.refl rows))

theorem addGaps_every_tape (nb nbgaps L : Nat) (rows : Rows) (t : List Ans) (out : Rows) (t' : List Ans)
    (h : runTape (addGaps nb nbgaps L rows) t = some (out, t')) : GapRel rows out :=
  (addGaps_only_adds_gaps nb nbgaps L rows).of_runTape t out t' h


/-! ### Recombine -/

private theorem splice_len (a b : Seq) (pos len L : Nat) (ha : a.length = L) (hb : b.length = L) (h : pos + len ≤ L) :
    (a.take pos ++ (b.drop pos).take len ++ a.drop (pos + len)).length = L := by
  simp [List.length_take, List.length_drop]; omega

private theorem splice_get (a b : Seq) (pos len L : Nat) (ha : a.length = L) (hb : b.length = L) (h : pos + len ≤ L) (j : Nat) :
    (a.take pos ++ (b.drop pos).take len ++ a.drop (pos + len))[j]? =
      if j < pos then a[j]? else if j < pos + len then b[j]? else a[j]? := by
  have l1 : (a.take pos).length = pos := by simp; omega
  have l2 : ((b.drop pos).take len).length = len := by simp; omega
  by_cases h1 : j < pos
  · rw [if_pos h1, List.append_assoc, List.getElem?_append_left (by omega), List.getElem?_take, if_pos h1]
  · rw [if_neg h1, List.append_assoc, List.getElem?_append_right (by omega), l1]
    by_cases h2 : j < pos + len
    · rw [if_pos h2, List.getElem?_append_left (by omega), List.getElem?_take, if_pos (by omega), List.getElem?_drop]
      congr 1; omega
    · rw [if_neg h2, List.getElem?_append_right (by omega), l2, List.getElem?_drop]
      congr 1; omega

/-- what `Recombine` promises about its output `out`, given the input `rows₀` of width `L`: same names in
the same order, still `L` columns, and every residue of `out` occurs in `rows₀` **at the same column** -/
structure ColCopy (L : Nat) (rows₀ out : Rows) : Prop where
  names : out.map Prod.fst = rows₀.map Prod.fst
  rect : ∀ s ∈ out, s.2.length = L
  cols : ∀ s ∈ out, ∀ (j : Nat) (c : Byte), s.2[j]? = some c → ∃ r ∈ rows₀, r.2[j]? = some c

theorem ColCopy.refl (L : Nat) (rows : Rows) (h : ∀ s ∈ rows, s.2.length = L) : ColCopy L rows rows :=
  ⟨rfl, h, fun s hs j c hc => ⟨s, hs, hc⟩⟩

private theorem map_fst_set (rows : Rows) (i : Nat) (a : String × Seq) (x : Seq) (h : rows[i]? = some a) :
    (rows.set i (a.1, x)).map Prod.fst = rows.map Prod.fst := by
  rw [List.map_set]
  apply List.ext_getElem?
  intro k
  by_cases hk : k = i
  · subst hk
    by_cases hl : k < rows.length
    · have := (List.getElem?_eq_some_iff.mp h).2
      simp [List.getElem?_set, hl, ← this]
    · have : rows[k]? = none := by simp; omega
      rw [this] at h; cases h
  · simp [List.getElem?_set, Ne.symm hk]

private theorem colCopy_set (L : Nat) (rows₀ rows : Rows) (h : ColCopy L rows₀ rows) (i : Nat) (a : String × Seq)
    (ha : rows[i]? = some a) (x : Seq) (hx : x.length = L)
    (hc : ∀ (j : Nat) (c : Byte), x[j]? = some c → ∃ r ∈ rows₀, r.2[j]? = some c) : ColCopy L rows₀ (rows.set i (a.1, x)) := by
  refine ⟨by rw [map_fst_set rows i a x ha]; exact h.names, ?_, ?_⟩
  · intro s hs
    rcases List.mem_or_eq_of_mem_set hs with hs | rfl
    · exact h.rect s hs
    · exact hx
  · intro s hs
    rcases List.mem_or_eq_of_mem_set hs with hs | rfl
    · exact h.cols s hs
    · exact hc

private theorem recombOne_colCopy (L : Nat) (rows₀ rows : Rows) (h : ColCopy L rows₀ rows) (i j pos len : Nat)
    (hpl : pos + len ≤ L) (swap : Bool) : ColCopy L rows₀ (recombOne rows i j pos len swap) := by
  unfold recombOne
  split
  · rename_i a b ha hb
    have ma := List.mem_of_getElem? ha
    have mb := List.mem_of_getElem? hb
    have la := h.rect a ma
    have lb := h.rect b mb
    have ca : ∀ (k : Nat) (c : Byte), (a.2.take pos ++ (b.2.drop pos).take len ++ a.2.drop (pos + len))[k]? = some c →
        ∃ r ∈ rows₀, r.2[k]? = some c := by
      intro k c hk
      rw [splice_get a.2 b.2 pos len L la lb hpl k] at hk
      split at hk
      · exact h.cols a ma k c hk
      · split at hk
        · exact h.cols b mb k c hk
        · exact h.cols a ma k c hk
    have cb : ∀ (k : Nat) (c : Byte), (b.2.take pos ++ (a.2.drop pos).take len ++ b.2.drop (pos + len))[k]? = some c →
        ∃ r ∈ rows₀, r.2[k]? = some c := by
      intro k c hk
      rw [splice_get b.2 a.2 pos len L lb la hpl k] at hk
      split at hk
      · exact h.cols b mb k c hk
      · split at hk
        · exact h.cols a ma k c hk
        · exact h.cols b mb k c hk
    have h1 := colCopy_set L rows₀ rows h i a ha _ (splice_len a.2 b.2 pos len L la lb hpl) ca
    cases swap
    · simpa using h1
    · simp only [if_true]
      by_cases hij : i = j
      · subst hij
        have hb' : (rows.set i (a.1, a.2.take pos ++ (b.2.drop pos).take len ++ a.2.drop (pos + len)))[i]? =
            some (a.1, a.2.take pos ++ (b.2.drop pos).take len ++ a.2.drop (pos + len)) := by
          have : i < rows.length := (List.getElem?_eq_some_iff.mp ha).1
          simp [this]
        have hab : a = b := by rw [ha] at hb; exact Option.some.inj hb
        have := colCopy_set L rows₀ _ h1 i _ hb' _ (splice_len b.2 a.2 pos len L lb la hpl) cb
        simpa [hab] using this
      · have hb' : (rows.set i (a.1, a.2.take pos ++ (b.2.drop pos).take len ++ a.2.drop (pos + len)))[j]? = some b := by
          rw [List.getElem?_set_ne hij]; exact hb
        exact colCopy_set L rows₀ _ h1 j b hb' _ (splice_len b.2 a.2 pos len L lb la hpl) cb
  · exact h

private theorem recombLoop_allOut (L len nb : Nat) (hlen : len ≤ L) (swap : Bool) (p : List Nat) (rows₀ : Rows) :
    ∀ (k i : Nat) (rows : Rows), ColCopy L rows₀ rows →
      AllOut (fun out => ColCopy L rows₀ out) (recombLoop L len nb swap p k i rows) := by
  intro k
  induction k with
  | zero => intro i rows h; exact AllOut.pure _ h
  | succ k ih =>
    intro i rows h
    simp only [recombLoop]
    exact AllOut.intn _ _ (fun pos hpos => ih _ _ (recombOne_colCopy L rows₀ rows h _ _ pos len (by omega) swap))

/-- **`Recombine` only copies residues between rows at the same column**: names, order and width are kept
and every residue of the result stands, in the input, in the same column — for every answer to every
draw (`len ≤ L` is what `int(lenprop·L)` with `lenprop ≤ 1` gives). -/
theorem recombine_copies_within_columns (nb len L : Nat) (hlen : len ≤ L) (swap : Bool) (rows : Rows)
    (hrect : ∀ s ∈ rows, s.2.length = L) :
    AllOut (fun out => ColCopy L rows out) (recombine nb len L swap rows) := by
  unfold recombine
  exact AllOut.bind (AllOut.trivial _) (fun p _ => recombLoop_allOut L len nb hlen swap p rows _ _ rows (ColCopy.refl L rows hrect))

example : ∀ s ∈ ([("a", [65, 67, 71]), ("b", [84, 84, 84])] : Rows), s.2.length = 3 := by decide


/-! ### Swap -/

/-- column `k` of a container (0 where a row is too short) -/
def colK (k : Nat) (rows : Rows) : List Byte := rows.map fun r => r.2.getD k 0

private theorem colK_set (k : Nat) (rows : Rows) (i : Nat) (x : String × Seq) :
    colK k (rows.set i x) = (colK k rows).set i (x.2.getD k 0) := by
  unfold colK; rw [List.map_set]

private theorem tails_getD (a b : Seq) (pos L k : Nat) (ha : a.length = L) (hb : b.length = L) :
    (a.take pos ++ b.drop pos).getD k 0 = if k < pos then a.getD k 0 else b.getD k 0 := by
  simp only [List.getD_eq_getElem?_getD]
  by_cases hp : pos ≤ L
  · have l1 : (a.take pos).length = pos := by simp; omega
    by_cases h1 : k < pos
    · rw [if_pos h1, List.getElem?_append_left (by omega), List.getElem?_take, if_pos h1]
    · rw [if_neg h1, List.getElem?_append_right (by omega), l1, List.getElem?_drop]
      congr 2; omega
  · have e1 : a.take pos = a := List.take_of_length_le (by omega)
    have e2 : b.drop pos = [] := List.drop_eq_nil_of_le (by omega)
    rw [e1, e2, List.append_nil]
    by_cases h1 : k < pos
    · rw [if_pos h1]
    · rw [if_neg h1]
      have : a[k]? = none := by simp; omega
      have : b[k]? = none := by simp; omega
      simp [*]

private theorem tails_len (a b : Seq) (pos L : Nat) (ha : a.length = L) (hb : b.length = L) :
    (a.take pos ++ b.drop pos).length = L := by
  simp [List.length_take, List.length_drop]; omega

/-- what `Swap` promises: same names in the same order, still `L` columns, and every column keeps its
multiset of characters -/
structure ColPerm (L : Nat) (rows₀ out : Rows) : Prop where
  names : out.map Prod.fst = rows₀.map Prod.fst
  rect : ∀ s ∈ out, s.2.length = L
  cols : ∀ k : Nat, (colK k out).Perm (colK k rows₀)

theorem ColPerm.refl (L : Nat) (rows : Rows) (h : ∀ s ∈ rows, s.2.length = L) : ColPerm L rows rows :=
  ⟨rfl, h, fun _ => List.Perm.refl _⟩

private theorem swapTails_colPerm (L : Nat) (rows₀ rows : Rows) (h : ColPerm L rows₀ rows) (i j pos : Nat) :
    ColPerm L rows₀ (swapTails rows i j pos) := by
  unfold swapTails
  split
  · rename_i a b ha hb
    have ma := List.mem_of_getElem? ha
    have mb := List.mem_of_getElem? hb
    have la := h.rect a ma
    have lb := h.rect b mb
    have hi : i < rows.length := (List.getElem?_eq_some_iff.mp ha).1
    have hj : j < rows.length := (List.getElem?_eq_some_iff.mp hb).1
    by_cases hij : i = j
    · subst hij
      have hab : a = b := by rw [ha] at hb; exact Option.some.inj hb
      subst hab
      have e : (a.1, a.2.take pos ++ a.2.drop pos) = a := by simp
      have : (rows.set i a) = rows := by
        have := (List.getElem?_eq_some_iff.mp ha).2
        rw [← this]; exact List.set_getElem_self hi
      simp only [e, List.set_set, this]
      exact h
    · have hb' : (rows.set i (a.1, a.2.take pos ++ b.2.drop pos))[j]? = some b := by
        rw [List.getElem?_set_ne hij]; exact hb
      refine ⟨?_, ?_, ?_⟩
      · rw [map_fst_set _ j b _ hb', map_fst_set rows i a _ ha]; exact h.names
      · intro s hs
        rcases List.mem_or_eq_of_mem_set hs with hs | rfl
        · rcases List.mem_or_eq_of_mem_set hs with hs | rfl
          · exact h.rect s hs
          · exact tails_len a.2 b.2 pos L la lb
        · exact tails_len b.2 a.2 pos L lb la
      · intro k
        refine List.Perm.trans ?_ (h.cols k)
        rw [colK_set, colK_set]
        simp only [tails_getD a.2 b.2 pos L k la lb, tails_getD b.2 a.2 pos L k lb la]
        have ca : (colK k rows)[i]? = some (a.2.getD k 0) := by unfold colK; simp [ha]
        have cb : (colK k rows)[j]? = some (b.2.getD k 0) := by unfold colK; simp [hb]
        by_cases hk : k < pos
        · simp only [if_pos hk]
          have e1 : (colK k rows).set i (a.2.getD k 0) = colK k rows := by
            have := (List.getElem?_eq_some_iff.mp ca).2
            rw [← this]; exact List.set_getElem_self _
          rw [e1]
          have e2 : (colK k rows).set j (b.2.getD k 0) = colK k rows := by
            have := (List.getElem?_eq_some_iff.mp cb).2
            rw [← this]; exact List.set_getElem_self _
          rw [e2]
        · simp only [if_neg hk]
          have : ((colK k rows).set i (b.2.getD k 0)).set j (a.2.getD k 0) = swapAt (colK k rows) i j := by
            unfold swapAt; rw [ca, cb]
          rw [this]
          exact swapAt_perm _ i j
  · exact h

private theorem swapLoop_allOut (L half : Nat) (fixedPos : Option Nat) (p : List Nat) (rows₀ : Rows) :
    ∀ (k i : Nat) (rows : Rows), ColPerm L rows₀ rows →
      AllOut (fun out => ColPerm L rows₀ out) (swapLoop L half fixedPos p k i rows) := by
  intro k
  induction k with
  | zero => intro i rows h; exact AllOut.pure _ h
  | succ k ih =>
    intro i rows h
    simp only [swapLoop]
    cases fixedPos with
    | none => exact AllOut.intn _ _ (fun pos _ => ih _ _ (swapTails_colPerm L rows₀ rows h _ _ pos))
    | some pos => exact ih _ _ (swapTails_colPerm L rows₀ rows h _ _ pos)

/-- **`Swap` preserves every column's character multiset** (and names, order, width) — for every answer
to every draw, with a random or a fixed break point. -/
theorem swap_keeps_column_multisets (nb L : Nat) (fixedPos : Option Nat) (rows : Rows)
    (hrect : ∀ s ∈ rows, s.2.length = L) :
    AllOut (fun out => ColPerm L rows out) (swapRows nb L fixedPos rows) := by
  unfold swapRows
  exact AllOut.bind (AllOut.trivial _) (fun p _ => swapLoop_allOut L _ fixedPos p rows _ _ rows (ColPerm.refl L rows hrect))


/-! ### SimulateRogue -/

/-- row by row: same name, residues permuted -/
def RowPermRel (a b : String × Seq) : Prop := a.1 = b.1 ∧ b.2.Perm a.2

/-- what `SimulateRogue` promises about the rows: names and order kept, every row is a permutation of
its own residues, and rows outside `chosen` are untouched -/
def RogueRel (chosen : List Nat) (rows₀ out : Rows) : Prop :=
  Pointwise RowPermRel rows₀ out ∧ ∀ i, i ∉ chosen → out[i]? = rows₀[i]?

private theorem rowPermRel_refl (a : String × Seq) : RowPermRel a a := ⟨rfl, List.Perm.refl _⟩
private theorem rowPermRel_trans (a b c : String × Seq) (h₁ : RowPermRel a b) (h₂ : RowPermRel b c) : RowPermRel a c :=
  ⟨h₁.1.trans h₂.1, h₂.2.trans h₁.2⟩

private theorem rogueShuffle_perm (sites : List Nat) : ∀ (k : Nat) (s₀ s : Seq), s.Perm s₀ →
    AllOut (fun out => out.Perm s₀) (rogueShuffle sites k s) := by
  intro k
  induction k with
  | zero => intro s₀ s h; exact AllOut.pure _ h
  | succ k ih =>
    intro s₀ s h
    simp only [rogueShuffle]
    exact AllOut.intn _ _ (fun j _ => ih s₀ _ ((swapAt_perm s _ _).trans h))

private theorem rogueLoop_allOut (L len : Nat) (chosen : List Nat) (rows₀ : Rows) :
    ∀ (todo : List Nat) (rows : Rows), (∀ r ∈ todo, r ∈ chosen) → RogueRel chosen rows₀ rows →
      AllOut (fun out => RogueRel chosen rows₀ out) (rogueLoop L len todo rows) := by
  intro todo
  induction todo with
  | nil => intro rows _ h; exact AllOut.pure _ h
  | cons r rest ih =>
    intro rows hsub h
    simp only [rogueLoop]
    refine AllOut.bind (AllOut.trivial _) (fun ps _ => ?_)
    have hrest : ∀ x ∈ rest, x ∈ chosen := fun x hx => hsub x (List.mem_cons_of_mem _ hx)
    split
    · exact ih rows hrest h
    · rename_i row hrow
      refine AllOut.bind (rogueShuffle_perm _ _ row.2 row.2 (List.Perm.refl _)) (fun s hs => ih _ hrest ?_)
      refine ⟨Pointwise.trans' rowPermRel_trans h.1
        (Pointwise.set' rowPermRel_refl rows r (row.1, s) (fun a ha => by rw [hrow] at ha; cases ha; exact ⟨rfl, hs⟩)), ?_⟩
      intro i hi
      have : r ≠ i := fun e => hi (e ▸ hsub r List.mem_cons_self)
      rw [List.getElem?_set_ne this]
      exact h.2 i hi

private theorem filterMap_range'_getElem? {α β} (f : α → β) : ∀ (l pre : List α),
    (List.range' pre.length l.length).filterMap (fun i => ((pre ++ l)[i]?).map f) = l.map f := by
  intro l
  induction l with
  | nil => intro pre; simp
  | cons x l ih =>
    intro pre
    have h0 : (pre ++ x :: l)[pre.length]? = some x := by simp
    have := ih (pre ++ [x])
    simp only [List.length_append, List.length_singleton, List.append_assoc, List.singleton_append] at this
    simp only [List.length_cons, List.range'_succ, List.filterMap_cons, h0, Option.map_some, List.map_cons]
    rw [this]

private theorem filterMap_range_getElem? {α β} (f : α → β) (l : List α) :
    (List.range l.length).filterMap (fun i => (l[i]?).map f) = l.map f := by
  have := filterMap_range'_getElem? f l []
  simpa [List.range_eq_range'] using this

theorem permProg_allOut (n : Nat) : AllOut (fun p => p.Perm (List.range n)) (permProg n) :=
  AllOut.of_forall_tapes _ (fun t p t' h => perm_is_permutation n t p t' h)

/-- **`SimulateRogue` permutes residues within the chosen rows only, and the rogue and intact names it
reports partition the rows**: there is a set of chosen row indices such that the reported rogue names are
the names of those rows, every row keeps its name and is a permutation of its own residues, rows outside
the chosen set are untouched, and rogue ++ intact is a permutation of all names — for every answer to
every draw. -/
theorem rogue_permutes_chosen_rows_and_partitions_names (nb len L : Nat) (rows : Rows) :
    AllOut (fun res => ∃ chosen : List Nat,
        res.2.1 = chosen.filterMap (fun i => (rows[i]?).map Prod.fst) ∧
        RogueRel chosen rows res.1 ∧
        (res.2.1 ++ res.2.2).Perm (rows.map Prod.fst)) (simulateRogue nb len L rows) := by
  unfold simulateRogue
  refine AllOut.bind (permProg_allOut rows.length) (fun p hp => ?_)
  refine AllOut.bind (rogueLoop_allOut L len (p.take nb) rows (p.take nb) rows (fun _ h => h)
    ⟨Pointwise.refl' rowPermRel_refl rows, fun _ _ => rfl⟩) (fun rows' hr => ?_)
  refine AllOut.pure _ ⟨p.take nb, rfl, hr, ?_⟩
  simp only
  rw [← List.filterMap_append, List.take_append_drop, ← filterMap_range_getElem? Prod.fst rows]
  exact hp.filterMap _

/-! ### these programs only ask `Intn(n)` with `n > 0`, so the statements hold for every seed -/

private theorem addGapsLoop_wf (L nbgaps : Nat) : ∀ (idx : List Nat) (rows : Rows), WF (addGapsLoop L nbgaps idx rows) := by
  intro idx
  induction idx with
  | nil => intro rows; exact WF.pure _
  | cons i rest ih => intro rows; exact wf_bind _ _ (permProg_wf L) (fun _ => ih _)

theorem addGaps_wf (nb nbgaps L : Nat) (rows : Rows) : WF (addGaps nb nbgaps L rows) :=
  wf_bind _ _ (permProg_wf _) (fun _ => addGapsLoop_wf L nbgaps _ rows)

private theorem swapLoop_wf (L half : Nat) (fixedPos : Option Nat) (hL : 0 < L ∨ fixedPos.isSome) (p : List Nat) :
    ∀ (k i : Nat) (rows : Rows), WF (swapLoop L half fixedPos p k i rows) := by
  intro k
  induction k with
  | zero => intro i rows; exact WF.pure _
  | succ k ih =>
    intro i rows
    simp only [swapLoop]
    cases fixedPos with
    | none =>
      have : 0 < L := by rcases hL with h | h; exact h; simp at h
      exact WF.intn _ _ this (fun _ _ => ih _ _)
    | some pos => exact ih _ _

theorem swapRows_wf (nb L : Nat) (fixedPos : Option Nat) (hL : 0 < L ∨ fixedPos.isSome) (rows : Rows) :
    WF (swapRows nb L fixedPos rows) :=
  wf_bind _ _ (permProg_wf _) (fun p => swapLoop_wf L _ fixedPos hL p _ _ rows)

private theorem recombLoop_wf (L len nb : Nat) (swap : Bool) (p : List Nat) :
    ∀ (k i : Nat) (rows : Rows), WF (recombLoop L len nb swap p k i rows) := by
  intro k
  induction k with
  | zero => intro i rows; exact WF.pure _
  | succ k ih => intro i rows; exact WF.intn _ _ (by omega) (fun _ _ => ih _ _)

theorem recombine_wf (nb len L : Nat) (swap : Bool) (rows : Rows) : WF (recombine nb len L swap rows) :=
  wf_bind _ _ (permProg_wf _) (fun p => recombLoop_wf L len nb swap p _ _ rows)

private theorem rogueShuffle_wf (sites : List Nat) : ∀ (k : Nat) (s : Seq), WF (rogueShuffle sites k s) := by
  intro k
  induction k with
  | zero => intro s; exact WF.pure _
  | succ k ih => intro s; exact WF.intn _ _ (by omega) (fun _ _ => ih _)

private theorem rogueLoop_wf (L len : Nat) : ∀ (todo : List Nat) (rows : Rows), WF (rogueLoop L len todo rows) := by
  intro todo
  induction todo with
  | nil => intro rows; exact WF.pure _
  | cons r rest ih =>
    intro rows
    simp only [rogueLoop]
    refine wf_bind _ _ (permProg_wf L) (fun ps => ?_)
    split
    · exact ih _
    · exact wf_bind _ _ (rogueShuffle_wf _ _ _) (fun _ => ih _)

theorem simulateRogue_wf (nb len L : Nat) (rows : Rows) : WF (simulateRogue nb len L rows) :=
  wf_bind _ _ (permProg_wf _) (fun _ => wf_bind _ _ (rogueLoop_wf L len _ rows) (fun _ => WF.pure _))

/-- **For every seed**: the added gaps, the swap, the recombination and the rogue simulation of the Go
generator keep their promise (instances of the statements above at the seeded run). -/
theorem addGaps_every_seed (nb nbgaps L : Nat) (rows : Rows) (seed : Int) :
    GapRel rows (runSeed (addGaps nb nbgaps L rows) seed) :=
  (addGaps_only_adds_gaps nb nbgaps L rows).of_runGen (addGaps_wf nb nbgaps L rows) goGen goGen_intn_lt _

theorem swap_every_seed (nb L : Nat) (fixedPos : Option Nat) (hL : 0 < L ∨ fixedPos.isSome) (rows : Rows)
    (hrect : ∀ s ∈ rows, s.2.length = L) (seed : Int) :
    ColPerm L rows (runSeed (swapRows nb L fixedPos rows) seed) :=
  (swap_keeps_column_multisets nb L fixedPos rows hrect).of_runGen (swapRows_wf nb L fixedPos hL rows) goGen goGen_intn_lt _

theorem recombine_every_seed (nb len L : Nat) (hlen : len ≤ L) (swap : Bool) (rows : Rows)
    (hrect : ∀ s ∈ rows, s.2.length = L) (seed : Int) :
    ColCopy L rows (runSeed (recombine nb len L swap rows) seed) :=
  (recombine_copies_within_columns nb len L hlen swap rows hrect).of_runGen (recombine_wf nb len L swap rows) goGen goGen_intn_lt _


/-! ### ShuffleSites -/

private theorem swapCell_colPerm (L : Nat) (rows₀ rows : Rows) (h : ColPerm L rows₀ rows) (i j site : Nat) :
    ColPerm L rows₀ (swapCell rows i j site) := by
  unfold swapCell
  split
  · rename_i a b ha hb
    split
    · exact h
    · rename_i hne
      have hij : i ≠ j := by simpa using hne
      have ma := List.mem_of_getElem? ha
      have mb := List.mem_of_getElem? hb
      have la := h.rect a ma
      have lb := h.rect b mb
      have hb' : (rows.set i (a.1, a.2.set site (b.2.getD site 0)))[j]? = some b := by
        rw [List.getElem?_set_ne hij]; exact hb
      refine ⟨?_, ?_, ?_⟩
      · rw [map_fst_set _ j b _ hb', map_fst_set rows i a _ ha]; exact h.names
      · intro s hs
        rcases List.mem_or_eq_of_mem_set hs with hs | rfl
        · rcases List.mem_or_eq_of_mem_set hs with hs | rfl
          · exact h.rect s hs
          · simpa using la
        · simpa using lb
      · intro k
        refine List.Perm.trans ?_ (h.cols k)
        rw [colK_set, colK_set]
        have ca : (colK k rows)[i]? = some (a.2.getD k 0) := by unfold colK; simp [ha]
        have cb : (colK k rows)[j]? = some (b.2.getD k 0) := by unfold colK; simp [hb]
        by_cases hk : k = site
        · subst hk
          by_cases hkl : k < L
          · have e1 : (a.2.set k (b.2.getD k 0)).getD k 0 = b.2.getD k 0 := by
              simp [List.getD_eq_getElem?_getD, List.getElem?_set, la, hkl]
            have e2 : (b.2.set k (a.2.getD k 0)).getD k 0 = a.2.getD k 0 := by
              simp [List.getD_eq_getElem?_getD, List.getElem?_set, lb, hkl]
            simp only [e1, e2]
            have : ((colK k rows).set i (b.2.getD k 0)).set j (a.2.getD k 0) = swapAt (colK k rows) i j := by
              unfold swapAt; rw [ca, cb]
            rw [this]
            exact swapAt_perm _ i j
          · -- the column does not exist: both cells read 0 and nothing is written
            have e1 : (a.2.set k (b.2.getD k 0)).getD k 0 = a.2.getD k 0 := by
              simp [List.getD_eq_getElem?_getD, List.getElem?_set, la, hkl]
            have e2 : (b.2.set k (a.2.getD k 0)).getD k 0 = b.2.getD k 0 := by
              simp [List.getD_eq_getElem?_getD, List.getElem?_set, lb, hkl]
            simp only [e1, e2]
            have s1 : (colK k rows).set i (a.2.getD k 0) = colK k rows := by
              have := (List.getElem?_eq_some_iff.mp ca).2
              rw [← this]; exact List.set_getElem_self _
            rw [s1]
            have s2 : (colK k rows).set j (b.2.getD k 0) = colK k rows := by
              have := (List.getElem?_eq_some_iff.mp cb).2
              rw [← this]; exact List.set_getElem_self _
            rw [s2]
        · have e1 : (a.2.set site (b.2.getD site 0)).getD k 0 = a.2.getD k 0 := by
            simp [List.getD_eq_getElem?_getD, List.getElem?_set, Ne.symm hk]
          have e2 : (b.2.set site (a.2.getD site 0)).getD k 0 = b.2.getD k 0 := by
            simp [List.getD_eq_getElem?_getD, List.getElem?_set, Ne.symm hk]
          simp only [e1, e2]
          have s1 : (colK k rows).set i (a.2.getD k 0) = colK k rows := by
            have := (List.getElem?_eq_some_iff.mp ca).2
            rw [← this]; exact List.set_getElem_self _
          rw [s1]
          have s2 : (colK k rows).set j (b.2.getD k 0) = colK k rows := by
            have := (List.getElem?_eq_some_iff.mp cb).2
            rw [← this]; exact List.set_getElem_self _
          rw [s2]
  · exact h

private theorem shuffleColumn_allOut (L : Nat) (rows₀ : Rows) (site : Nat) : ∀ (n : Nat) (rows : Rows),
    ColPerm L rows₀ rows → AllOut (fun out => ColPerm L rows₀ out) (shuffleColumn site n rows) := by
  intro n
  induction n using Nat.strongRecOn with
  | _ n ih =>
    intro rows h
    match n with
    | 0 => exact AllOut.pure _ h
    | 1 => exact AllOut.pure _ h
    | n + 2 =>
      simp only [shuffleColumn]
      exact AllOut.intn _ _ (fun r _ => ih (n + 1) (by omega) _ (swapCell_colPerm L rows₀ rows h _ _ _))

private theorem shuffleColumns_allOut (L : Nat) (rows₀ : Rows) : ∀ (sites : List Nat) (rows : Rows),
    ColPerm L rows₀ rows → AllOut (fun out => ColPerm L rows₀ out) (shuffleColumns sites rows) := by
  intro sites
  induction sites with
  | nil => intro rows h; exact AllOut.pure _ h
  | cons s rest ih =>
    intro rows h
    simp only [shuffleColumns]
    exact AllOut.bind (shuffleColumn_allOut L rows₀ s _ rows h) (fun r hr => ih r hr)

private theorem rogueColumn_allOut (L : Nat) (rows₀ : Rows) (tax : List Nat) (site : Nat) : ∀ (k r : Nat) (rows : Rows),
    ColPerm L rows₀ rows → AllOut (fun out => ColPerm L rows₀ out) (rogueColumn tax site k r rows) := by
  intro k
  induction k with
  | zero => intro r rows h; exact AllOut.pure _ h
  | succ k ih =>
    intro r rows h
    simp only [rogueColumn]
    exact AllOut.intn _ _ (fun j _ => ih _ _ (swapCell_colPerm L rows₀ rows h _ _ _))

private theorem rogueColumns_allOut (L : Nat) (rows₀ : Rows) (tax : List Nat) (nbr : Nat) : ∀ (sites : List Nat) (rows : Rows),
    ColPerm L rows₀ rows → AllOut (fun out => ColPerm L rows₀ out) (rogueColumns tax nbr sites rows) := by
  intro sites
  induction sites with
  | nil => intro rows h; exact AllOut.pure _ h
  | cons s rest ih =>
    intro rows h
    simp only [rogueColumns]
    exact AllOut.bind (rogueColumn_allOut L rows₀ tax s _ _ rows h) (fun r hr => ih r hr)

/-- **`ShuffleSites` permutes characters within columns only**: names, order and width are kept and every
column keeps its multiset of characters — for every answer to every draw, with or without the extra
"rogue" pass. -/
theorem shuffleSites_permutes_within_columns (nbSites nbRogueSites nbRogueSeq : Nat) (rogueFirst : Bool) (rows : Rows)
    (L : Nat) (hrect : ∀ s ∈ rows, s.2.length = L) :
    AllOut (fun res => ColPerm L rows res.1) (shuffleSites nbSites nbRogueSites nbRogueSeq rogueFirst rows) := by
  unfold shuffleSites
  refine AllOut.bind (AllOut.trivial _) (fun pr _ => ?_)
  obtain ⟨sp, tax⟩ := pr
  refine AllOut.bind (shuffleColumns_allOut L rows _ rows (ColPerm.refl L rows hrect)) (fun r1 h1 => ?_)
  exact AllOut.bind (rogueColumns_allOut L rows tax nbRogueSeq _ r1 h1) (fun r2 h2 => AllOut.pure _ h2)

end Gv.Props.C10
