import Gv.Model.Rand
import Gv.Spec.Rand
/-!
# C10 — randomised operations keep invariants, reach all outcomes, replay from seed

The operations are `RProg` programs (`lean/Gv/Model/Rand.lean`).  Invariants are proved for **every
answer tape** (`runTape`), hence — by `RProg.runGen_is_runTape` — for every seed of any generator whose
`Intn(n)` answers below `n`; support claims exhibit an admissible tape for every admissible outcome.
Determinism (same seed ⇒ same result) is immediate: `runSeed p seed` is a function.
-/
namespace Gv.Props.C10
open Gv Gv.Model Gv.Model.RProg

/-! ## the Go generator answers `Intn(n)` below `n` -/

private theorem int31nLoop_lt (max n : Nat) (hn : 0 < n) : ∀ fuel s, (GoRng.int31nLoop max n fuel s).1 < n := by
  intro fuel
  induction fuel with
  | zero => intro s; simpa [GoRng.int31nLoop] using hn
  | succ f ih =>
    intro s
    simp only [GoRng.int31nLoop]
    split
    · exact ih _
    · exact Nat.mod_lt _ hn

theorem goGen_intn_lt (n : Nat) (s : GoRng.St) (hn : 0 < n) : (goGen.intn n s).1 < n := by
  simp only [goGen, GoRng.intn, GoRng.int31n]
  split
  · simp only []
    have : (GoRng.int31 s).1 &&& (n - 1) ≤ n - 1 := Nat.and_le_right
    omega
  · exact int31nLoop_lt _ n hn _ _

/-- every seeded run of a well-formed program is a tape run: theorems over all tapes cover all seeds -/
theorem runSeed_is_runTape {α} (p : RProg α) (h : RProg.WF p) (seed : Int) :
    ∃ t, runTape p t = some (runSeed p seed, []) :=
  ⟨_, RProg.runGen_is_runTape goGen goGen_intn_lt p h (GoRng.seed seed)⟩

/-- determinism: re-running with the same seed reproduces the result exactly -/
theorem same_seed_same_result {α} (p : RProg α) (seed : Int) : runSeed p seed = runSeed p seed := rfl

/-! ## sequence shuffling is a row permutation -/

private theorem swapAt_perm {α} [DecidableEq α] (l : List α) (i j : Nat) : (swapAt l i j).Perm l := by
  unfold swapAt
  split
  · rename_i a b ha hb
    -- (l.set i b).set j a is a permutation of l
    have hi : i < l.length := by
      rcases Nat.lt_or_ge i l.length with h | h
      · exact h
      · rw [List.getElem?_eq_none h] at ha; cases ha
    have hj : j < l.length := by
      rcases Nat.lt_or_ge j l.length with h | h
      · exact h
      · rw [List.getElem?_eq_none h] at hb; cases hb
    have ea : l[i] = a := by rw [List.getElem?_eq_getElem hi] at ha; exact Option.some.inj ha
    have eb : l[j] = b := by rw [List.getElem?_eq_getElem hj] at hb; exact Option.some.inj hb
    apply List.perm_iff_count.mpr
    intro x
    by_cases hij : i = j
    · subst hij
      have : a = b := ea.symm.trans eb
      subst this
      simp only [List.set_set]
      rw [← ea, List.set_getElem_self]
    · have hj' : j < (l.set i b).length := by simpa using hj
      rw [List.count_set (h := hj'), List.count_set (h := hi)]
      have e1 : (l.set i b)[j] = b := by
        rw [List.getElem_set_ne (by omega)]; exact eb
      rw [e1, ea]
      have hca : 0 < l.count a := List.count_pos_iff.mpr (ea ▸ List.getElem_mem hi)
      have hcb : 0 < l.count b := List.count_pos_iff.mpr (eb ▸ List.getElem_mem hj)
      by_cases h1 : a = x <;> by_cases h2 : b = x <;> simp [h1, h2] <;> (try subst h1) <;> (try subst h2) <;> omega
  · exact List.Perm.refl _

private theorem shuffleAux_perm {α} [DecidableEq α] : ∀ (n : Nat) (l : List α) (t : List Ans) (r : List α) (t' : List Ans),
    runTape (shuffleAux n l) t = some (r, t') → r.Perm l := by
  intro n
  induction n using Nat.strongRecOn with
  | _ n ih =>
    intro l t r t' h
    match n with
    | 0 => simp [shuffleAux, runTape] at h; rw [← h.1]
    | 1 => simp [shuffleAux, runTape] at h; rw [← h.1]
    | n + 2 =>
      simp only [shuffleAux] at h
      cases t with
      | nil => simp [runTape] at h
      | cons a t =>
        cases a with
        | flt x => simp [runTape] at h
        | nat v =>
          simp only [runTape] at h
          split at h
          · exact (ih (n + 1) (by omega) _ _ _ _ h).trans (swapAt_perm _ _ _)
          · simp at h

/-- **`ShuffleSequences` returns a permutation of the rows, whatever the draws.** -/
theorem shuffle_is_row_permutation (rows : Rows) (t : List Ans) (out : Rows) (t' : List Ans)
    (h : runTape (shuffleSequences rows) t = some (out, t')) : out.Perm rows :=
  shuffleAux_perm _ _ _ _ _ h


/-! ## `rand.Perm` yields a permutation (inside-out Fisher–Yates), for every tape -/

private theorem permStep (m : List Nat) (i j : Nat) (hi : i < m.length) (hj : j ≤ i)
    (hp : (m.take i).Perm (List.range i)) :
    (((m.set i (m.getD j 0)).set j i).take (i + 1)).Perm (List.range (i + 1)) := by
  have hjl : j < m.length := by omega
  have hg : m.getD j 0 = m[j] := by
    rw [List.getD_eq_getElem?_getD, List.getElem?_eq_getElem hjl]; rfl
  rw [hg]
  -- l = take i m ++ [i] is a permutation of range (i+1); the new prefix is `swapAt l i j`
  let l := m.take i ++ [i]
  have hl : l.Perm (List.range (i + 1)) := by
    rw [List.range_succ]
    exact hp.append_right [i]
  have hlen : (m.take i).length = i := by simp; omega
  have hli : l[i]? = some i := by
    simp only [l]
    rw [List.getElem?_append_right (by omega)]
    simp [hlen]
  have hlj : l[j]? = some (if j = i then i else m[j]) := by
    simp only [l]
    by_cases e : j = i
    · subst e; simpa [l] using hli
    · have : j < (m.take i).length := by omega
      rw [List.getElem?_append_left this, List.getElem?_take_of_lt (by omega), List.getElem?_eq_getElem hjl]
      simp [e]
  have hsw : ((m.set i m[j]).set j i).take (i + 1) = swapAt l i j := by
    unfold swapAt
    rw [hli, hlj]
    simp only []
    rw [List.take_set, List.take_set]
    have h1 : m.take (i + 1) = m.take i ++ [m[i]] := by
      rw [List.take_succ, List.getElem?_eq_getElem hi]; rfl
    by_cases e : j = i
    · subst e
      simp only [if_true, l]
      rw [h1, List.set_set]
      rw [List.set_append_right _ _ (by omega), List.set_append_right _ _ (by omega)]
      simp [hlen]
    · simp only [e, if_false, l]
      rw [h1]
      have a1 : (m.take i ++ [m[i]]).set i m[j] = m.take i ++ [m[j]] := by
        rw [List.set_append_right _ _ (by omega)]; simp [hlen]
      have a2 : (m.take i ++ [i]).set i m[j] = m.take i ++ [m[j]] := by
        rw [List.set_append_right _ _ (by omega)]; simp [hlen]
      rw [a1, a2]
  rw [hsw]
  exact (swapAt_perm l i j).trans hl

private theorem permAux_perm : ∀ (k i : Nat) (m : List Nat) (t : List Ans) (p : List Nat) (t' : List Ans),
    m.length = i + k → (m.take i).Perm (List.range i) →
    runTape (permAux k i m) t = some (p, t') → p.Perm (List.range (i + k)) := by
  intro k
  induction k with
  | zero =>
    intro i m t p t' hl hp h
    simp [permAux, runTape] at h
    obtain ⟨rfl, _⟩ := h
    have : m.take i = m := List.take_of_length_le (by omega)
    rw [this] at hp
    simpa using hp
  | succ k ih =>
    intro i m t p t' hl hp h
    simp only [permAux] at h
    cases t with
    | nil => simp [runTape] at h
    | cons a t =>
      cases a with
      | flt x => simp [runTape] at h
      | nat j =>
        simp only [runTape] at h
        split at h
        · rename_i hj
          have := ih (i + 1) _ t p t' (by simp; omega) (permStep m i j (by omega) (by omega) hp) h
          have e : i + 1 + k = i + (k + 1) := by omega
          rw [e] at this
          exact this
        · simp at h

/-- **`rand.Perm(n)` returns a permutation of `0 … n-1`, whatever the draws.** -/
theorem perm_is_permutation (n : Nat) (t : List Ans) (p : List Nat) (t' : List Ans)
    (h : runTape (permProg n) t = some (p, t')) : p.Perm (List.range n) := by
  have := permAux_perm n 0 (List.replicate n 0) t p t' (by simp) (by simp) h
  simpa using this

/-- **Sequence sampling draws distinct original rows**: the sample is the image of the first `nb`
entries of a permutation of the row positions (so no row is taken twice) — for every tape. -/
theorem sample_distinct_rows (nb : Nat) (rows : Rows) (t : List Ans) (out : Rows) (t' : List Ans)
    (h : runTape (sampleRows nb rows) t = some (out, t')) :
    ∃ p : List Nat, p.Perm (List.range rows.length) ∧ out = (p.take nb).filterMap fun i => rows[i]? := by
  unfold sampleRows at h
  rw [runTape_bind] at h
  cases hr : runTape (permProg rows.length) t with
  | none => simp [hr] at h
  | some r =>
    obtain ⟨p, t2⟩ := r
    simp [hr, runTape] at h
    exact ⟨p, perm_is_permutation _ _ _ _ hr, h.1.symm⟩

/-- site sampling without replacement takes distinct columns -/
theorem columns_distinct (len L : Nat) (rows : Rows) (t : List Ans) (out : Rows) (t' : List Ans)
    (h : runTape (randSubAlign len L false rows) t = some (out, t')) :
    ∃ p : List Nat, p.Perm (List.range L) ∧ out = selectCols (p.take len) rows := by
  simp only [randSubAlign, Bool.false_eq_true, if_false] at h
  rw [runTape_bind] at h
  cases hr : runTape (permProg L) t with
  | none => simp [hr] at h
  | some r =>
    obtain ⟨p, t2⟩ := r
    simp [hr, runTape] at h
    exact ⟨p, perm_is_permutation _ _ _ _ hr, h.1.symm⟩

/-! ## bootstrap -/

private theorem drawIdx_spec (L : Nat) : ∀ (n : Nat) (t : List Ans) (idx : List Nat) (t' : List Ans),
    runTape (drawIdx L n) t = some (idx, t') → idx.length = n ∧ ∀ i ∈ idx, i < L := by
  intro n
  induction n with
  | zero => intro t idx t' h; simp [drawIdx, runTape] at h; obtain ⟨rfl, _⟩ := h; simp
  | succ n ih =>
    intro t idx t' h
    simp only [drawIdx] at h
    cases t with
    | nil => simp [runTape] at h
    | cons a t =>
      cases a with
      | flt x => simp [runTape] at h
      | nat v =>
        simp only [runTape] at h
        split at h
        · rename_i hv
          rw [runTape_bind] at h
          cases hr : runTape (drawIdx L n) t with
          | none => simp [hr] at h
          | some r =>
            obtain ⟨rest, t2⟩ := r
            simp [hr, runTape] at h
            obtain ⟨hl, hlt⟩ := ih t rest t2 hr
            rw [← h.1]
            refine ⟨by simp [hl], ?_⟩
            intro i hi
            rcases List.mem_cons.mp hi with rfl | hi
            · exact hv
            · exact hlt i hi
        · simp at h

/-- **Every bootstrap column is an original column taken for all rows at once, the output has the
requested number `n` of columns, names and row order are kept** — for every tape. -/
theorem bootstrap_columns_original (n L : Nat) (rows : Rows) (t : List Ans) (out : Rows) (t' : List Ans)
    (h : runTape (bootstrap n L rows) t = some (out, t')) :
    ∃ idx : List Nat, idx.length = n ∧ (∀ i ∈ idx, i < L) ∧ out = selectCols idx rows ∧
      out.map Prod.fst = rows.map Prod.fst ∧ ∀ r ∈ out, r.2.length = n := by
  unfold bootstrap at h
  rw [runTape_bind] at h
  cases hr : runTape (drawIdx L n) t with
  | none => simp [hr] at h
  | some r =>
    obtain ⟨idx, t2⟩ := r
    simp [hr, runTape] at h
    obtain ⟨hl, hlt⟩ := drawIdx_spec L n t idx t2 hr
    refine ⟨idx, hl, hlt, h.1.symm, ?_, ?_⟩
    · rw [← h.1]; simp [selectCols, List.map_map, Function.comp_def]
    · intro r hr'
      rw [← h.1] at hr'
      simp only [selectCols, List.mem_map] at hr'
      obtain ⟨r0, _, e⟩ := hr'
      rw [← e]; simp [hl]

/-- **Support: every vector of `n` site indices below `L` — in particular one containing the last
site `L-1`, or any given site — is produced by an admissible tape.**  (With `Intn(L-1)` instead of
`Intn(L)` in the program this theorem becomes unprovable.) -/
theorem bootstrap_every_site_reachable (L : Nat) (rows : Rows) (idx : List Nat) (h : ∀ i ∈ idx, i < L) :
    runTape (bootstrap idx.length L rows) (idx.map Ans.nat) = some (selectCols idx rows, []) := by
  have key : ∀ (idx : List Nat), (∀ i ∈ idx, i < L) → ∀ rest, runTape (drawIdx L idx.length) (idx.map Ans.nat ++ rest) = some (idx, rest) := by
    intro idx
    induction idx with
    | nil => intro _ rest; simp [drawIdx, runTape]
    | cons v tl ih =>
      intro hh rest
      have hv : v < L := hh v (by simp)
      simp only [List.length_cons, drawIdx, List.map_cons, List.cons_append, runTape, hv, if_true]
      rw [runTape_bind, ih (fun i hi => hh i (by simp [hi])) rest]
      simp [runTape]
  unfold bootstrap
  rw [runTape_bind]
  have := key idx h []
  simp only [List.append_nil] at this
  rw [this]
  simp [runTape]

/-! ## random window (`RandSubAlign` consecutive) -/

/-- the result is the contiguous window at some offset `start ≤ L - len`, for every tape -/
theorem window_is_contiguous (len L : Nat) (rows : Rows) (t : List Ans) (out : Rows) (t' : List Ans)
    (h : runTape (randSubAlign len L true rows) t = some (out, t')) :
    ∃ start, start ≤ L - len ∧ out = rows.map fun r => (r.1, (r.2.drop start).take len) := by
  simp only [randSubAlign, if_true] at h
  cases t with
  | nil => simp [runTape] at h
  | cons a t =>
    cases a with
    | flt x => simp [runTape] at h
    | nat v =>
      simp only [runTape] at h
      split at h
      · rename_i hv
        simp at h
        exact ⟨v, by omega, h.1.symm⟩
      · simp at h

/-- **Support: every window offset `0 … L-len`, including the last one, is reachable.** -/
theorem window_every_offset_reachable (len L : Nat) (rows : Rows) (start : Nat) (hs : start ≤ L - len) :
    runTape (randSubAlign len L true rows) [Ans.nat start] =
      some (rows.map fun r => (r.1, (r.2.drop start).take len), []) := by
  have : start < L - len + 1 := by omega
  simp [randSubAlign, runTape, this]

/-! ## substitutions and added gaps touch only what they may -/

/-- two lists of equal length related position by position -/
inductive Pointwise {α β : Type} (R : α → β → Prop) : List α → List β → Prop
  | nil : Pointwise R [] []
  | cons {a b as bs} : R a b → Pointwise R as bs → Pointwise R (a :: as) (b :: bs)

private theorem mutateSeq_frame (rate : Float) (alphabet : List Byte) : ∀ (s : Seq) (t : List Ans) (out : Seq) (t' : List Ans),
    runTape (mutateSeq rate alphabet s) t = some (out, t') →
    Pointwise (fun x y => x = y ∨ (x ≠ GAP ∧ x ≠ POINT ∧ x ≠ OTHER ∧ y ∈ alphabet)) s out := by
  intro s
  induction s with
  | nil => intro t out t' h; simp [mutateSeq, runTape] at h; obtain ⟨rfl, _⟩ := h; exact Pointwise.nil
  | cons c tl ih =>
    intro t out t' h
    simp only [mutateSeq] at h
    cases t with
    | nil => simp [runTape] at h
    | cons a t =>
      cases a with
      | nat v => simp [runTape] at h
      | flt x =>
        simp only [runTape] at h
        split at h
        · rename_i hc
          cases t with
          | nil => simp [runTape] at h
          | cons a2 t =>
            cases a2 with
            | flt y => simp [runTape] at h
            | nat k =>
              simp only [runTape] at h
              split at h
              · rename_i hk
                rw [runTape_bind] at h
                cases hr : runTape (mutateSeq rate alphabet tl) t with
                | none => simp [hr] at h
                | some r =>
                  obtain ⟨tl', t2⟩ := r
                  simp [hr, runTape] at h
                  rw [← h.1]
                  refine Pointwise.cons (Or.inr ?_) (ih _ _ _ hr)
                  simp only [Bool.and_eq_true, bne_iff_ne, ne_eq] at hc
                  refine ⟨hc.1.1.2, hc.1.2, hc.2, ?_⟩
                  rw [List.getElem?_eq_getElem hk]
                  exact List.getElem_mem hk
              · simp at h
        · rw [runTape_bind] at h
          cases hr : runTape (mutateSeq rate alphabet tl) t with
          | none => simp [hr] at h
          | some r =>
            obtain ⟨tl', t2⟩ := r
            simp [hr, runTape] at h
            rw [← h.1]
            exact Pointwise.cons (Or.inl rfl) (ih _ _ _ hr)

private theorem mutateRows_frame (rate : Float) (alphabet : List Byte) : ∀ (rows : Rows) (t : List Ans) (out : Rows) (t' : List Ans),
    runTape (mutateRows rate alphabet rows) t = some (out, t') →
    Pointwise (fun a b => a.1 = b.1 ∧
      Pointwise (fun x y => x = y ∨ (x ≠ GAP ∧ x ≠ POINT ∧ x ≠ OTHER ∧ y ∈ alphabet)) a.2 b.2) rows out := by
  intro rows
  induction rows with
  | nil => intro t out t' h; simp [mutateRows, runTape] at h; obtain ⟨rfl, _⟩ := h; exact Pointwise.nil
  | cons r tl ih =>
    intro t out t' h
    simp only [mutateRows] at h
    rw [runTape_bind] at h
    cases hr : runTape (mutateSeq rate alphabet r.2) t with
    | none => simp [hr] at h
    | some x =>
      obtain ⟨s, t2⟩ := x
      simp only [hr, Option.bind_some] at h
      rw [runTape_bind] at h
      cases hr2 : runTape (mutateRows rate alphabet tl) t2 with
      | none => simp [hr2] at h
      | some y =>
        obtain ⟨tl', t3⟩ := y
        simp [hr2, runTape] at h
        rw [← h.1]
        exact Pointwise.cons ⟨rfl, mutateSeq_frame _ _ _ _ _ _ hr⟩ (ih _ _ _ hr2)

/-- **`Mutate` only replaces non-gap, non-special residues, and only by letters of the alphabet;
names, order and lengths are untouched** — for every tape and every rate. -/
theorem mutate_frame (rate : Float) (alphabet : List Byte) (rows : Rows) (t : List Ans) (out : Rows) (t' : List Ans)
    (h : runTape (mutate rate alphabet rows) t = some (out, t')) :
    Pointwise (fun a b => a.1 = b.1 ∧
      Pointwise (fun x y => x = y ∨ (x ≠ GAP ∧ x ≠ POINT ∧ x ≠ OTHER ∧ y ∈ alphabet)) a.2 b.2) rows out := by
  unfold mutate at h
  split at h
  · simp [runTape] at h
    rw [← h.1]
    clear h
    induction rows with
    | nil => exact Pointwise.nil
    | cons r tl ih =>
      refine Pointwise.cons ⟨rfl, ?_⟩ ih
      generalize r.2 = s
      induction s with
      | nil => exact Pointwise.nil
      | cons c tl ih2 => exact Pointwise.cons (Or.inl rfl) ih2
  · exact mutateRows_frame _ _ _ _ _ _ h


/-! ## the programs only ever ask `Intn(n)` with `n > 0` (so seeded runs are tape runs) -/

private theorem wf_bind {α β} (p : RProg α) (f : α → RProg β) (hp : WF p) (hf : ∀ a, WF (f a)) : WF (RProg.bind p f) := by
  induction hp with
  | pure a => exact hf a
  | intn n k hn _ ih => exact WF.intn n _ hn (fun v hv => ih v hv)
  | unit k _ ih => exact WF.unit _ (fun x => ih x)

theorem permProg_wf (n : Nat) : WF (permProg n) := by
  unfold permProg
  generalize List.replicate n 0 = m
  generalize 0 = i
  induction n generalizing i m with
  | zero => exact WF.pure _
  | succ k ih => exact WF.intn _ _ (by omega) (fun v _ => ih _ _)

theorem shuffleSequences_wf (rows : Rows) : WF (shuffleSequences rows) := by
  unfold shuffleSequences
  generalize rows.length = n
  induction n using Nat.strongRecOn generalizing rows with
  | _ n ih =>
    match n with
    | 0 => exact WF.pure _
    | 1 => exact WF.pure _
    | n + 2 => exact WF.intn _ _ (by omega) (fun v _ => ih (n + 1) (by omega) _)

theorem bootstrap_wf (n L : Nat) (rows : Rows) (hL : 0 < L) : WF (bootstrap n L rows) := by
  unfold bootstrap
  apply wf_bind
  · induction n with
    | zero => exact WF.pure _
    | succ n ih => exact WF.intn _ _ hL (fun v _ => wf_bind _ _ ih (fun _ => WF.pure _))
  · intro; exact WF.pure _

theorem sampleRows_wf (nb : Nat) (rows : Rows) : WF (sampleRows nb rows) :=
  wf_bind _ _ (permProg_wf _) (fun _ => WF.pure _)

theorem randSubAlign_wf (len L : Nat) (c : Bool) (rows : Rows) : WF (randSubAlign len L c rows) := by
  unfold randSubAlign
  split
  · exact WF.intn _ _ (by omega) (fun _ _ => WF.pure _)
  · exact wf_bind _ _ (permProg_wf _) (fun _ => WF.pure _)

/-- hence, e.g.: **for every seed** the seeded bootstrap consists of original columns -/
theorem bootstrap_every_seed (n L : Nat) (rows : Rows) (hL : 0 < L) (seed : Int) :
    ∃ idx : List Nat, idx.length = n ∧ (∀ i ∈ idx, i < L) ∧ runSeed (bootstrap n L rows) seed = selectCols idx rows := by
  obtain ⟨t, ht⟩ := runSeed_is_runTape _ (bootstrap_wf n L rows hL) seed
  obtain ⟨idx, h1, h2, h3, _⟩ := bootstrap_columns_original n L rows t _ _ ht
  exact ⟨idx, h1, h2, h3⟩

/-- and **for every seed** `ShuffleSequences` permutes the rows -/
theorem shuffle_every_seed (rows : Rows) (seed : Int) : (runSeed (shuffleSequences rows) seed).Perm rows := by
  obtain ⟨t, ht⟩ := runSeed_is_runTape _ (shuffleSequences_wf rows) seed
  exact shuffle_is_row_permutation rows t _ _ ht

/-! ## non-vacuity -/

example : runTape (bootstrap 3 4 [("a", [65, 67, 71, 84])]) [.nat 3, .nat 3, .nat 0] = some ([("a", [84, 84, 65])], []) := by
  rfl

example : ∃ t, runTape (shuffleSequences [("a", [65]), ("b", [67]), ("c", [71])]) t = some ([("b", [67]), ("c", [71]), ("a", [65])], []) :=
  ⟨[.nat 0, .nat 0], by rfl⟩

/-! ## Rarefy -/

private theorem rarefyPick_mem (u : Float) (total : Nat) : ∀ (cs : List (String × Nat)) (pr : Float) (done : List (String × Nat))
    (k : String) (cs' : List (String × Nat)),
    rarefyPick u total cs pr done = some (k, cs') →
    k ∈ cs.map Prod.fst ∧ ∀ x ∈ cs'.map Prod.fst, x ∈ (done.reverse ++ cs).map Prod.fst := by
  intro cs
  induction cs with
  | nil => intro pr done k cs' h; simp [rarefyPick] at h
  | cons c rest ih =>
    intro pr done k cs' h
    obtain ⟨ck, cv⟩ := c
    simp only [rarefyPick] at h
    split at h
    · simp only [Option.some.injEq, Prod.mk.injEq] at h
      obtain ⟨rfl, rfl⟩ := h
      refine ⟨by simp, ?_⟩
      intro x hx
      split at hx <;> simp at hx ⊢ <;> grind
    · obtain ⟨h1, h2⟩ := ih _ _ _ _ h
      refine ⟨by simp; exact Or.inr (by simpa using h1), ?_⟩
      intro x hx
      have := h2 x hx
      simp at this ⊢
      grind

private theorem rarefyLoop_sel (n : Nat) : ∀ (total : Nat) (cs : List (String × Nat)) (sel : List String) (t : List Ans)
    (out : List String) (t' : List Ans),
    runTape (rarefyLoop n total cs sel) t = some (out, t') →
    ∀ x ∈ out, x ∈ sel ∨ x ∈ cs.map Prod.fst := by
  induction n with
  | zero => intro total cs sel t out t' h; simp [rarefyLoop, runTape] at h; obtain ⟨rfl, _⟩ := h; intro x hx; exact Or.inl hx
  | succ n ih =>
    intro total cs sel t out t' h
    simp only [rarefyLoop] at h
    cases t with
    | nil => simp [runTape] at h
    | cons a t =>
      cases a with
      | nat v => simp [runTape] at h
      | flt u =>
        simp only [runTape] at h
        split at h
        · rename_i k cs' hp
          obtain ⟨h1, h2⟩ := rarefyPick_mem u total cs 0.0 [] k cs' hp
          intro x hx
          rcases ih _ _ _ _ _ _ h x hx with hs | hc
          · simp at hs
            rcases hs with rfl | hs
            · exact Or.inr h1
            · exact Or.inl hs
          · exact Or.inr (by simpa using h2 x hc)
        · exact ih _ _ _ _ _ _ h

/-- **`Rarefy` returns original rows in their original order, each of which was given a count** — for
every tape (the draws only decide which counted rows are kept). -/
theorem rarefy_keeps_counted_rows_in_order (nb : Nat) (counts : List (String × Nat)) (rows : Rows) (p : RProg Rows)
    (hp : rarefy nb counts rows = some p) (t : List Ans) (out : Rows) (t' : List Ans)
    (h : runTape p t = some (out, t')) :
    out.Sublist rows ∧ ∀ r ∈ out, r.1 ∈ counts.map Prod.fst := by
  unfold rarefy at hp
  split at hp
  · cases hp
  · simp only at hp
    split at hp
    · cases hp
    · simp only [Option.some.injEq] at hp
      subst hp
      rw [runTape_bind] at h
      cases hl : runTape (rarefyLoop nb ((counts.map Prod.snd).foldl (· + ·) 0) counts []) t with
      | none => simp [hl] at h
      | some r =>
        obtain ⟨sel, t1⟩ := r
        simp only [hl, Option.bind_some, runTape, Option.some.injEq, Prod.mk.injEq] at h
        obtain ⟨rfl, _⟩ := h
        refine ⟨List.filter_sublist, ?_⟩
        intro r hr
        have hm := (List.mem_filter.mp hr).2
        have hsel : r.1 ∈ sel := by simpa using hm
        rcases rarefyLoop_sel nb _ counts [] t sel t1 hl r.1 hsel with h0 | h1
        · simp at h0
        · exact h1

/-- the hypotheses are satisfiable: a concrete rarefaction -/
example : ∃ p, rarefy 1 [("a", 2), ("b", 1)] [("a", [65]), ("b", [67]), ("c", [71])] = some p ∧
    (runTape p [Ans.flt 0.9]).map (·.1) = some [("b", [67])] := by
  exact ⟨_, rfl, rfl⟩


end Gv.Props.C10
