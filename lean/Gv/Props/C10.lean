import Gv.Model.Rand
import Gv.Spec.Rand
namespace Gv.Props.C10
end Gv.Props.C10
