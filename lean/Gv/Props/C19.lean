import Gv.Model.MutFacts
import Gv.Model.MutFactsT
import Gv.Model.Heap
/-!
# C19 — queries never modify their input; copies share nothing with the original

Two parts.  (1) Theorems, by kernel evaluation, over the mutation facts regenerated from the source on
every run (`Gv.Gen.MutFacts`, tools/extract/mutfacts.go): no listed query reaches a statement that writes
sequence data through its input, and every listed copy-producing operation hands only freshly allocated
buffers to the new object.  (2) Theorems about the ownership model (`Gv.Model.HeapM`): a container built
from freshly allocated buffers shares no buffer with any existing container, and writes to buffers outside
a container never change what it shows — so arbitrary in-place mutations of the copy leave the original
unchanged and vice versa.
-/
namespace Gv.Props.C19
open Gv.Model.Mut Gv.Gen.MutFacts Gv.Model.HeapM
set_option maxRecDepth 100000

/-- the read-only operations of the property (writers, statistics, consensus, distance and likelihood
computations, phasing, ORF search, sub-alignment, site selection, transposition, bootstrap, cloning,
accessors) -/
def queries : List String :=
  ["WriteAlignment", "WriteSequences", "String",
   "CharStats", "UniqueCharacters", "CharStatsSeq", "CharStatsSite", "MaxCharStats", "Consensus", "Entropy",
   "NbVariableSites", "InformativeSites", "AvgAllelesPerSite", "Pssm", "CountDifferences",
   "NumGapsUniquePerSequence", "NumMutationsUniquePerSequence", "Frameshifts", "Stops", "SiteConservation",
   "NumMutationsComparedToReferenceSequence", "ListMutationsComparedToReferenceSequence",
   "RefCoordinates", "RefSites", "InverseCoordinates", "InversePositions",
   "DistMatrix", "MLDist", "JC69Dist", "Phase", "LongestORF",
   "SubAlign", "SelectSites", "Transpose", "BuildBootstrap", "Clone", "CloneSeqBag", "Split", "Unalign", "CodonAlign",
   "Identical", "Iterate", "IterateChar", "IterateAll", "GetSequence", "GetSequenceChar", "GetSequenceById",
   "GetSequenceByName", "Sequences", "DetectAlphabet", "NbSequences", "Length", "MaxNameLength"]

/-- **No listed query reaches a write to sequence data through its input** (closure of the call graph
by name over the regenerated facts; calls on freshly allocated objects are not followed). -/
theorem queries_pure : ∀ q ∈ queries, pure fns q = true := by decide +kernel

/-- copy-producing operations of the property that must own their data -/
def copyOps : List (String × String) :=
  [("align", "Clone"), ("seqbag", "CloneSeqBag"), ("align", "SubAlign"), ("align", "SelectSites"),
   ("align", "Transpose"), ("align", "BuildBootstrap"), ("align", "Split"), ("seqbag", "Unalign"), ("align", "CodonAlign"),
   ("align", "RandSubAlign")]

/-- **Clones, sub-alignments (random ones included: `RandSubAlign` re-sliced the rows of its source in its
consecutive mode until the repair 80ed920), site selections, transpositions and bootstraps hand only freshly
allocated buffers to the new object.** -/
theorem copies_own_data : ∀ c ∈ copyOps, ownsData fns c.1 c.2 = true := by decide +kernel

/-- the operations documented as sharing (outside the property's list) are seen as sharing — the
analysis does distinguish the two situations -/
theorem sampling_shares : sharesData fns "seqbag" "sampleSeqBag" = true := by
  decide +kernel

/-! ## cross-check over the TYPE-CHECKED mutation facts (tools/mutscan, `Gv.Gen.MutFactsT`)

The same statements over facts computed with go/types: call edges are the static callees (an interface call reaches
every implementation in the analysed packages), "fresh" is decided from the allocation site, a write is classified
by the type of the written location, calls leaving the analysed packages are listed and only the reviewed read-only
ones are accepted.  The analysis is flow-insensitive (unification of everything a variable is ever assigned) with ONE
flow-sensitive refinement ("fresh window", tools/mutscan): in the statements that follow `x := f(…)` in the same statement
list, where the result of `f` shares memory with no input / package-level / unknown memory, uses of `x` as receiver or
plain argument of calls whose summaries keep that input isolated are the fresh allocation (x not captured by a closure, its
address not taken).  That separates the reversed clone `rev` of `seqbag.LongestORF` from the rows `bestseq` may also hold:
`seqbag.LongestORF` IS in this list.  `phaser.Phase` is not: it adds the bytes of an input row to a NEW bag
(`orfs = NewSeqBag(…); orfs.AddSequenceChar(…, orf.SequenceChar(), …); orfs.AutoAlphabet()`); a region is "everything
reachable", so the new bag and the input's byte arrays are one region and the writes to the bag's own fields count as
writes to the input (the same holds for `Sample` / `Rarefy`, which build a new bag from the input's rows).  Phase stays
with the syntactic facts above and the run-time check. -/

/-- queries over the type-checked facts: `("", n)` = every function / method named `n` of the analysed packages
(all of goalign except `cmd`), `(r, n)` = method `n` of receiver type `r` -/
def queriesT : List (String × String) :=
  (["WriteAlignment", "WriteSequences", "String",
    "CharStats", "UniqueCharacters", "CharStatsSeq", "CharStatsSite", "MaxCharStats", "Consensus", "Entropy",
    "NbVariableSites", "InformativeSites", "AvgAllelesPerSite", "Pssm", "CountDifferences",
    "NumGapsUniquePerSequence", "NumMutationsUniquePerSequence", "Frameshifts", "Stops", "SiteConservation",
    "NumMutationsComparedToReferenceSequence", "ListMutationsComparedToReferenceSequence",
    "RefCoordinates", "RefSites", "InverseCoordinates", "InversePositions",
    "DistMatrix", "MLDist", "JC69Dist",
    "SubAlign", "SelectSites", "Transpose", "BuildBootstrap", "Clone", "CloneSeqBag", "Split", "Unalign", "CodonAlign",
    "Identical", "Iterate", "IterateChar", "IterateAll", "GetSequence", "GetSequenceChar", "GetSequenceById",
    "GetSequenceByName", "Sequences", "DetectAlphabet", "NbSequences", "Length", "MaxNameLength",
    -- interface methods documented as queries that the name-based list above does not contain
    "Alphabet", "AlphabetStr", "AlphabetCharacters", "AlphabetCharToIndex", "CharAt", "Comment", "Name",
    "GetSequenceCharById", "GetSequenceIdByName", "GetSequenceNameById", "NumGaps", "NumGapsFromEnd", "NumGapsFromStart",
    "NumGapsOpenning", "SameSequence", "Sequence", "SequenceChar", "SequenceByName", "SequencesChan", "RandSubAlign",
    "NewPwAligner", "MaxScore", "NbMatches", "NbMisMatches", "NbGaps", "Seq1Ali", "Seq2Ali", "AlignmentStr"].map fun n => ("", n)) ++
  [("seq", "LongestORF"), ("seqbag", "LongestORF"), ("seq", "Translate")]

/-- the copy operations of the typed statement: those of `copyOps` and `Sequence.Translate` (a new sequence) -/
def copyOpsT : List (String × String) := copyOps ++ [("seq", "Translate")]

/-- the fact table is indexed by id (what the closure relies on) and no function stores a reference into a
package-level variable (so memory reachable from package-level tables is never an input's memory) -/
theorem typed_facts_wellformed :
    Gv.Model.MutT.wellFormed Gv.Gen.MutFactsT.fns = true ∧ Gv.Model.MutT.noGlobalStores Gv.Gen.MutFactsT.fns = true := by
  decide +kernel

/-- **No listed query reaches, through memory shared with any of its inputs, a statement that writes a sequence-data
location, nor an external function outside the reviewed read-only list** (type-checked call graph, all
implementations of interface calls, allocation-site freshness). -/
theorem queries_pure_typed : ∀ q ∈ queriesT, Gv.Model.MutT.pure Gv.Gen.MutFactsT.fns q = true := by decide +kernel

/-- **The results of the copy-producing operations share no memory with any input**: every value reachable from
what they return was allocated inside (make / composite literal / append to a fresh slice / result of a function
whose results are fresh). -/
theorem copies_own_data_typed : ∀ c ∈ copyOpsT, Gv.Model.MutT.ownsData Gv.Gen.MutFactsT.fns c.1 c.2 = true := by
  decide +kernel

/-- the sampling operations, documented as sharing, are seen as sharing by the type-checked facts as well -/
theorem sampling_shares_typed :
    Gv.Model.MutT.sharesData Gv.Gen.MutFactsT.fns "seqbag" "sampleSeqBag" = true ∧
    Gv.Model.MutT.sharesData Gv.Gen.MutFactsT.fns "align" "Sample" = true := by decide +kernel

/-- **The pairwise aligner never touches its caller's sequences**: the constructor writes nothing through its
arguments and returns an object that shares no memory with them (it clones both sequences - decided from the
allocation sites), and every method of `pwaligner` (`Alignment` included) writes sequence data only through its
receiver, i.e. only inside that private object. -/
theorem pwaligner_isolated_typed :
    Gv.Model.MutT.pure Gv.Gen.MutFactsT.fns ("", "NewPwAligner") = true ∧
    Gv.Model.MutT.ownsData Gv.Gen.MutFactsT.fns "" "NewPwAligner" = true ∧
    (Gv.Gen.MutFactsT.fns.any fun f => f.recv == "pwaligner" && f.name == "Alignment") = true ∧
    ((Gv.Gen.MutFactsT.fns.filter (·.recv == "pwaligner")).all fun f =>
      Gv.Model.MutT.pureInArgs Gv.Gen.MutFactsT.fns ("pwaligner", f.name)) = true := by decide +kernel

/-! ## ownership model -/

private theorem read_alloc_other (h : Heap) (s : Seq) (b : Nat) (hb : b < h.next) (hw : ∀ c ∈ h.cells, c.1 < h.next) :
    (h.alloc s).1.read b = h.read b := by
  unfold Heap.read Heap.alloc
  simp only [List.find?_append]
  cases hf : h.cells.find? (fun c => c.1 == b) with
  | some c => simp
  | none =>
    have : ¬ (h.next == b) = true := by simp; omega
    simp [List.find?_cons, this]

private theorem wf_alloc (h : Heap) (s : Seq) (a : List HRow) (hw : WF h a) : WF (h.alloc s).1 a := by
  obtain ⟨h1, h2⟩ := hw
  refine ⟨?_, ?_⟩
  · intro c hc
    simp only [Heap.alloc, List.mem_append, List.mem_singleton] at hc
    rcases hc with hc | rfl
    · have := h1 c hc; simp only [Heap.alloc]; omega
    · simp [Heap.alloc]
  · intro r hr; have := h2 r hr; simp only [Heap.alloc]; omega

/-- **Building a copy does not change what the original shows, and the copy shares no buffer with
it**: every buffer of the new container is at or above the old allocation counter, every buffer of the
original is below it. -/
theorem allocRows_disjoint_and_preserves (rowsData : List (String × Seq)) (h : Heap) (a : List HRow) (hw : WF h a) :
    let r := allocRows h rowsData
    obs r.1 a = obs h a ∧ (∀ b ∈ bufs r.2, h.next ≤ b ∧ b < r.1.next) ∧ (∀ b ∈ bufs r.2, b ∉ bufs a) ∧
    WF r.1 a ∧ h.next ≤ r.1.next := by
  induction rowsData generalizing h with
  | nil =>
    simp only [allocRows]
    refine ⟨by first | rfl | trivial, by simp [bufs], by simp [bufs], hw, Nat.le_refl _⟩
  | cons p t ih =>
    obtain ⟨n, s⟩ := p
    simp only [allocRows]
    have hw1 := wf_alloc h s a hw
    obtain ⟨i1, i2, i3, i4, i5⟩ := ih (h.alloc s).1 hw1
    have hnext : (h.alloc s).1.next = h.next + 1 := rfl
    rw [hnext] at i2 i5
    have hfst : (h.alloc s).2 = h.next := rfl
    refine ⟨?_, ?_, ?_, i4, by omega⟩
    · show obs (allocRows (h.alloc s).1 t).1 a = obs h a
      rw [i1]
      unfold obs
      apply List.map_congr_left
      intro r hr
      rw [read_alloc_other h s r.buf (hw.2 r hr) hw.1]
    · intro b hb
      simp only [bufs, List.map_cons, List.mem_cons] at hb
      rcases hb with rfl | hb
      · rw [hfst]; exact ⟨Nat.le_refl _, by omega⟩
      · have := i2 b hb; exact ⟨by omega, this.2⟩
    · intro b hb hba
      simp only [bufs, List.map_cons, List.mem_cons] at hb
      obtain ⟨r, hr, e⟩ := List.mem_map.mp hba
      have hlt := hw.2 r hr
      rcases hb with rfl | hb
      · rw [hfst] at e; omega
      · have := i2 b hb; omega

/-- the copy shows the data it was built from -/
theorem allocRows_obs (rowsData : List (String × Seq)) (h : Heap) (hw : ∀ c ∈ h.cells, c.1 < h.next) :
    obs (allocRows h rowsData).1 (allocRows h rowsData).2 = rowsData := by
  induction rowsData generalizing h with
  | nil => rfl
  | cons p t ih =>
    obtain ⟨n, s⟩ := p
    simp only [allocRows]
    have hw1 : ∀ c ∈ (h.alloc s).1.cells, c.1 < (h.alloc s).1.next := (wf_alloc h s [] ⟨hw, by simp⟩).1
    have := ih (h.alloc s).1 hw1
    unfold obs at this ⊢
    simp only [List.map_cons]
    congr 1
    · -- the first buffer keeps its content while the others are allocated
      have key := (allocRows_disjoint_and_preserves t (h.alloc s).1 [⟨n, h.next⟩] ⟨hw1, by simp [Heap.alloc]⟩).1
      unfold obs at key
      simp only [List.map_cons, List.map_nil, List.cons.injEq, Prod.mk.injEq, true_and, and_true] at key
      have hs2 : (h.alloc s).2 = h.next := rfl
      rw [hs2, key]
      unfold Heap.read Heap.alloc
      simp only [List.find?_append]
      cases hf : h.cells.find? (fun c => c.1 == h.next) with
      | some c =>
        have := List.mem_of_find?_eq_some hf
        have hc := hw c this
        have := List.find?_some hf
        simp at this; omega
      | none => simp [List.find?_cons]

/-- **Frame: an in-place write to a buffer that a container does not reference never changes what the
container shows.**  Hence arbitrary mutations of a copy built by `allocRows` leave the original unchanged,
and mutations of the original leave the copy unchanged. -/
theorem write_frame (h : Heap) (a : List HRow) (b i : Nat) (c : UInt8) (hb : b ∉ bufs a) :
    obs (h.write b i c) a = obs h a := by
  unfold obs
  apply List.map_congr_left
  intro r hr
  have hne : r.buf ≠ b := fun e => hb (e ▸ List.mem_map_of_mem (f := (·.buf)) hr)
  unfold Heap.read Heap.write
  simp only [List.find?_map]
  congr 1
  have : ((fun (cell : Nat × Seq) => cell.1 == r.buf) ∘ fun cell => if cell.1 == b then (cell.1, cell.2.set i c) else cell)
      = fun cell => cell.1 == r.buf := by
    funext cell; simp only [Function.comp]; split <;> rfl
  rw [this]
  cases hf : h.cells.find? (fun cell => cell.1 == r.buf) with
  | none => rfl
  | some cell =>
    have := List.find?_some hf
    have hcb : ¬ cell.1 = b := by simp at this; omega
    simp [hcb]

/-- any sequence of writes confined to the copy's buffers -/
theorem writes_frame (h : Heap) (a : List HRow) (ws : List (Nat × Nat × UInt8)) (hb : ∀ w ∈ ws, w.1 ∉ bufs a) :
    obs (ws.foldl (fun hh w => hh.write w.1 w.2.1 w.2.2) h) a = obs h a := by
  induction ws generalizing h with
  | nil => rfl
  | cons w t ih =>
    simp only [List.foldl_cons]
    rw [ih _ (fun x hx => hb x (by simp [hx])), write_frame h a w.1 w.2.1 w.2.2 (hb w (by simp))]

/-- **Mutating the copy never changes the original**: combine the two. -/
theorem mutating_copy_preserves_original (h : Heap) (a : List HRow) (hw : WF h a) (rowsData : List (String × Seq))
    (ws : List (Nat × Nat × UInt8)) (hws : ∀ w ∈ ws, w.1 ∈ bufs (allocRows h rowsData).2) :
    obs (ws.foldl (fun hh w => hh.write w.1 w.2.1 w.2.2) (allocRows h rowsData).1) a = obs h a := by
  obtain ⟨p1, _, p3, _, _⟩ := allocRows_disjoint_and_preserves rowsData h a hw
  rw [writes_frame _ a ws (fun w hwm => p3 w.1 (hws w hwm)), p1]

/-! ## non-vacuity -/

example : WF { cells := [(0, [65, 67])], next := 1 } [⟨"a", 0⟩] := ⟨by simp, by simp⟩
example : obs (allocRows { cells := [(0, [65, 67])], next := 1 } [("a", [65, 67])]).1 [⟨"a", 0⟩] = [("a", [65, 67])] := by decide

end Gv.Props.C19
