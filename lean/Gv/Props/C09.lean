import Gv.Model.SW
import Gv.Spec.SW
import Gv.Spec.Matrices
import Gv.Proofs.SWSpec
import Gv.Proofs.SWFill
import Gv.Proofs.SWTrace
/-!
# C09 — pairwise local alignment is valid, self-consistent and optimal

Property theorems about `Gv.Model.SW` (model of `align/aligner.go`, shipped code `fixed = false` and
code with `proposed_fixes/c09-aligner.diff` applied `fixed = true`) and `Gv.Spec.SW` (independent
meaning).  All statements are for **all** inputs (induction; no bound on lengths or scores).

* validity — `sw_valid` (trace-back, any score / trace matrix, both stop rules), `sw_align_valid`
  (whole call, both variants), `sw_rows_denote_local_alignment`;
* the reference optimum — `enum_complete`, `enum_optimal`, `gotoh_upper_bound`, `gotoh_attained`,
  `gotoh_eq_enum`;
* score consistency and optimality of the repaired code — `sw_score_is_optimum`,
  `sw_score_of_returned_rows`, `sw_optimal` (C09's two score clauses at full strength),
  `sw_score_attained`; for the shipped code these are false, with kernel-checked counter-examples.

Helper developments: `Gv.Proofs.SWSpec` (specification side), `Gv.Proofs.SWFill` (what the repaired
fill computes), `Gv.Proofs.SWTrace` (what the trace-back returns on locally consistent matrices).
-/
namespace Gv.Props.C09
open Gv Gv.Model Gv.Model.SW
set_option maxRecDepth 100000

/-! ## validity of the trace-back, for any score / trace matrix -/

/-- what the loop of `backTrack_SW` maintains: the slices built so far spell `s1[pi .. e1)` and
`s2[pj .. e2)` (`e = end + 1`), have equal length and no all-gap column, and the counters add up -/
private structure Inv (s1 s2 : Seq) (e1 e2 pi pj : Nat) (st : BT) : Prop where
  lenEq : st.r1.length = st.r2.length
  lenRep : st.len = st.r1.length
  noGapCol : ∀ p ∈ st.r1.zip st.r2, ¬ (p.1 = GAP ∧ p.2 = GAP)
  row1 : ungap st.r1 = (s1.take e1).drop pi
  row2 : ungap st.r2 = (s2.take e2).drop pj
  counts : st.nm + st.nmm + st.ng = st.len
  le1 : pi ≤ e1
  le2 : pj ≤ e2

private theorem drop_pred {s : Seq} {e p : Nat} (hp : 0 < p) (hpe : p ≤ e) (he : e ≤ s.length) :
    (s.take e).drop (p - 1) = s.getD (p - 1) 0 :: (s.take e).drop p := by
  have hlt : p - 1 < (s.take e).length := by simp [List.length_take]; omega
  rw [List.drop_eq_getElem_cons hlt]
  have : p - 1 + 1 = p := by omega
  rw [this]
  congr 1
  have h2 : p - 1 < s.length := by omega
  simp [List.getElem_take, List.getD_eq_getElem?_getD, List.getElem?_eq_getElem h2]

private theorem getD_mem {s : Seq} {i : Nat} (h : i < s.length) : s.getD i 0 ∈ s := by
  simp [List.getD_eq_getElem?_getD, List.getElem?_eq_getElem h]

private theorem getD_ne_gap {s : Seq} (hs : GAP ∉ s) {i : Nat} (h : i < s.length) : s.getD i 0 ≠ GAP := by
  intro e; exact hs (e ▸ getD_mem h)

private theorem ungap_cons_ne {c : Byte} (h : c ≠ GAP) (r : Seq) : ungap (c :: r) = c :: ungap r := by
  simp [ungap, h]

private theorem ungap_cons_gap (r : Seq) : ungap (GAP :: r) = ungap r := by
  simp [ungap]

section
variable {s1 s2 : Seq} {e1 e2 : Nat}
variable (h1 : GAP ∉ s1) (h2 : GAP ∉ s2) (he1 : e1 ≤ s1.length) (he2 : e2 ≤ s2.length)

include h1 h2 he1 he2 in
private theorem inv_pushDiag {pi pj : Nat} {st : BT} (hi : 0 < pi) (hj : 0 < pj)
    (inv : Inv s1 s2 e1 e2 pi pj st) :
    Inv s1 s2 e1 e2 (pi - 1) (pj - 1) (st.pushDiag (s1.getD (pi - 1) 0) (s2.getD (pj - 1) 0)) := by
  have hc1 : s1.getD (pi - 1) 0 ≠ GAP := getD_ne_gap h1 (by have := inv.le1; omega)
  have hc2 : s2.getD (pj - 1) 0 ≠ GAP := getD_ne_gap h2 (by have := inv.le2; omega)
  refine ⟨?_, ?_, ?_, ?_, ?_, ?_, ?_, ?_⟩
  · simp [BT.pushDiag, inv.lenEq]
  · simp [BT.pushDiag, inv.lenRep]
  · intro p hp
    simp only [BT.pushDiag, List.zip_cons_cons, List.mem_cons] at hp
    rcases hp with rfl | hp
    · exact fun h => hc1 h.1
    · exact inv.noGapCol p hp
  · simp only [BT.pushDiag]
    rw [ungap_cons_ne hc1, inv.row1, drop_pred hi inv.le1 he1]
  · simp only [BT.pushDiag]
    rw [ungap_cons_ne hc2, inv.row2, drop_pred hj inv.le2 he2]
  · have := inv.counts
    simp only [BT.pushDiag]
    split <;> omega
  · have := inv.le1; omega
  · have := inv.le2; omega

include h1 he1 in
private theorem inv_pushUp (pj : Nat) : ∀ (k i : Nat) (st : BT), k ≤ i + 1 →
    Inv s1 s2 e1 e2 (i + 1) pj st → Inv s1 s2 e1 e2 (i + 1 - k) pj (BT.pushUp s1 k i st) := by
  intro k
  induction k with
  | zero => intro i st _ inv; simpa [BT.pushUp] using inv
  | succ k ih =>
    intro i st hk inv
    have hc : s1.getD i 0 ≠ GAP := getD_ne_gap h1 (by have := inv.le1; omega)
    have step : Inv s1 s2 e1 e2 i pj
        { st with r1 := s1.getD i 0 :: st.r1, r2 := GAP :: st.r2, len := st.len + 1, ng := st.ng + 1 } := by
      refine ⟨?_, ?_, ?_, ?_, ?_, ?_, ?_, inv.le2⟩
      · simp [inv.lenEq]
      · simp [inv.lenRep]
      · intro p hp
        simp only [List.zip_cons_cons, List.mem_cons] at hp
        rcases hp with rfl | hp
        · exact fun h => hc h.1
        · exact inv.noGapCol p hp
      · have := drop_pred (s := s1) (e := e1) (p := i + 1) (by omega) inv.le1 he1
        simp only [Nat.add_sub_cancel] at this
        show ungap (s1.getD i 0 :: st.r1) = _
        rw [ungap_cons_ne hc, inv.row1, this]
      · show ungap (GAP :: st.r2) = _
        rw [ungap_cons_gap, inv.row2]
      · have := inv.counts; show st.nm + st.nmm + (st.ng + 1) = st.len + 1; omega
      · have := inv.le1; omega
    simp only [BT.pushUp]
    cases i with
    | zero =>
      have : k = 0 := by omega
      subst this
      simpa [BT.pushUp] using step
    | succ i =>
      have := ih i _ (by omega) (by simpa using step)
      simpa [Nat.succ_sub_succ] using this

include h2 he2 in
private theorem inv_pushLeft (pi : Nat) : ∀ (k j : Nat) (st : BT), k ≤ j + 1 →
    Inv s1 s2 e1 e2 pi (j + 1) st → Inv s1 s2 e1 e2 pi (j + 1 - k) (BT.pushLeft s2 k j st) := by
  intro k
  induction k with
  | zero => intro j st _ inv; simpa [BT.pushLeft] using inv
  | succ k ih =>
    intro j st hk inv
    have hc : s2.getD j 0 ≠ GAP := getD_ne_gap h2 (by have := inv.le2; omega)
    have step : Inv s1 s2 e1 e2 pi j
        { st with r1 := GAP :: st.r1, r2 := s2.getD j 0 :: st.r2, len := st.len + 1, ng := st.ng + 1 } := by
      refine ⟨?_, ?_, ?_, ?_, ?_, ?_, inv.le1, ?_⟩
      · simp [inv.lenEq]
      · simp [inv.lenRep]
      · intro p hp
        simp only [List.zip_cons_cons, List.mem_cons] at hp
        rcases hp with rfl | hp
        · exact fun h => hc h.2
        · exact inv.noGapCol p hp
      · show ungap (GAP :: st.r1) = _
        rw [ungap_cons_gap, inv.row1]
      · have := drop_pred (s := s2) (e := e2) (p := j + 1) (by omega) inv.le2 he2
        simp only [Nat.add_sub_cancel] at this
        show ungap (s2.getD j 0 :: st.r2) = _
        rw [ungap_cons_ne hc, inv.row2, this]
      · have := inv.counts; show st.nm + st.nmm + (st.ng + 1) = st.len + 1; omega
      · have := inv.le2; omega
    simp only [BT.pushLeft]
    cases j with
    | zero =>
      have : k = 0 := by omega
      subst this
      simpa [BT.pushLeft] using step
    | succ j =>
      have := ih j _ (by omega) (by simpa using step)
      simpa [Nat.succ_sub_succ] using this

/-- the gap-length loop returns a length between 1 and `i` (it cannot run past row / column 0) -/
theorem gapLen_bounds (val : Nat → Int) (target gopen gext : Int) (i : Nat) :
    ∀ (f k : Nat), 1 ≤ k → k ≤ i → i ≤ f + k →
      k ≤ gapLen val target gopen gext i f k ∧ gapLen val target gopen gext i f k ≤ i := by
  intro f
  induction f with
  | zero => intro k _ hki hf; simp only [gapLen]; omega
  | succ f ih =>
    intro k hk hki hf
    simp only [gapLen]
    split
    · omega
    · rename_i hc
      have hne : ¬ (i - k = 0) := by
        intro h0; apply hc; simp [h0]
      have := ih (k + 1) (by omega) (by omega) (by omega)
      omega

include h1 h2 he1 he2 in
private theorem inv_btStep (gopen gext : Int) (m : Nat → Nat → Int) (tr : Nat → Nat → Dir)
    {pi pj : Nat} {st : BT} (hi : 0 < pi) (hj : 0 < pj) (inv : Inv s1 s2 e1 e2 pi pj st)
    {pi' pj' : Nat} {st' : BT} (h : btStep gopen gext m tr s1 s2 pi pj st = some (pi', pj', st')) :
    Inv s1 s2 e1 e2 pi' pj' st' ∧ pi' + pj' < pi + pj := by
  simp only [btStep] at h
  split at h
  · -- diag
    simp only [Option.some.injEq, Prod.mk.injEq] at h
    obtain ⟨rfl, rfl, rfl⟩ := h
    exact ⟨inv_pushDiag h1 h2 he1 he2 hi hj inv, by omega⟩
  · -- up
    split at h
    · simp at h
    · rename_i hne
      simp only [Option.some.injEq, Prod.mk.injEq] at h
      obtain ⟨rfl, rfl, rfl⟩ := h
      have hb := gapLen_bounds (fun r => m r (pj - 1)) (m (pi - 1) (pj - 1)) gopen gext (pi - 1)
        (pi - 1) 1 (by omega) (by omega) (by omega)
      have hpi : pi = (pi - 1) + 1 := by omega
      have inv' : Inv s1 s2 e1 e2 ((pi - 1) + 1) pj st := by rw [← hpi]; exact inv
      have := inv_pushUp h1 he1 pj _ (pi - 1) st (Nat.le_succ_of_le hb.2) inv'
      rw [← hpi] at this
      exact ⟨this, by omega⟩
  · -- left
    split at h
    · simp at h
    · rename_i hne
      simp only [Option.some.injEq, Prod.mk.injEq] at h
      obtain ⟨rfl, rfl, rfl⟩ := h
      have hb := gapLen_bounds (fun c => m (pi - 1) c) (m (pi - 1) (pj - 1)) gopen gext (pj - 1)
        (pj - 1) 1 (by omega) (by omega) (by omega)
      have hpj : pj = (pj - 1) + 1 := by omega
      have inv' : Inv s1 s2 e1 e2 pi ((pj - 1) + 1) st := by rw [← hpj]; exact inv
      have := inv_pushLeft h2 he2 pi _ (pj - 1) st (Nat.le_succ_of_le hb.2) inv'
      rw [← hpj] at this
      exact ⟨this, by omega⟩

include h1 h2 he1 he2 in
private theorem inv_btLoop (fixed : Bool) (gopen gext : Int) (m : Nat → Nat → Int) (tr : Nat → Nat → Dir) :
    ∀ (f pi pj : Nat) (st : BT), Inv s1 s2 e1 e2 pi pj st →
      ∀ {pi' pj' : Nat} {st' : BT}, btLoop fixed gopen gext m tr s1 s2 f pi pj st = some (pi', pj', st') →
        Inv s1 s2 e1 e2 pi' pj' st' := by
  intro f
  induction f with
  | zero =>
    intro pi pj st inv pi' pj' st' h
    simp only [btLoop, Option.some.injEq, Prod.mk.injEq] at h
    obtain ⟨rfl, rfl, rfl⟩ := h; exact inv
  | succ f ih =>
    intro pi pj st inv pi' pj' st' h
    simp only [btLoop] at h
    split at h
    · simp only [Option.some.injEq, Prod.mk.injEq] at h
      obtain ⟨rfl, rfl, rfl⟩ := h; exact inv
    · rename_i hz
      split at h
      · simp at h
      · rename_i a b c hstep
        have hs := inv_btStep h1 h2 he1 he2 gopen gext m tr (by omega) (by omega) inv hstep
        split at h
        · simp only [Option.some.injEq, Prod.mk.injEq] at h
          obtain ⟨rfl, rfl, rfl⟩ := h; exact hs.1
        · exact ih _ _ _ hs.1 h

end

/-- the validity part of C09 for one result: two gapped rows of equal length (the reported length),
no all-gap column, ungapped contents exactly `s1[start1 .. end1]` and `s2[start2 .. end2]`
(inclusive ends, inside the sequences), and the three counters add up to the length -/
def Valid (s1 s2 : Seq) (r : Result) : Prop :=
  r.row1.length = r.row2.length ∧
  r.length = r.row1.length ∧
  (∀ p ∈ r.row1.zip r.row2, ¬ (p.1 = GAP ∧ p.2 = GAP)) ∧
  (r.start1 ≤ r.end1 + 1 ∧ r.end1 < s1.length) ∧
  (r.start2 ≤ r.end2 + 1 ∧ r.end2 < s2.length) ∧
  ungap r.row1 = (s1.drop r.start1).take (r.end1 + 1 - r.start1) ∧
  ungap r.row2 = (s2.drop r.start2).take (r.end2 + 1 - r.start2) ∧
  r.nmatch + r.nmismatch + r.ngaps = r.length

/-- **sw_valid** — for *any* score matrix `m`, *any* trace matrix `tr`, any end cell inside the
matrix and either stop rule, whatever `backTrack_SW` returns is valid.  (`none` = the Go code
panics, which needs an `UP` in row 0 or a `LEFT` in column 0.)  Gap characters are excluded from
the inputs because `seqToindices` rejects them (`sw_align_valid`). -/
theorem sw_valid (fixed : Bool) (gopen gext : Int) (m : Nat → Nat → Int) (tr : Nat → Nat → Dir)
    (s1 s2 : Seq) (score : Int) (maxi maxj : Nat) (r : Result)
    (h1 : GAP ∉ s1) (h2 : GAP ∉ s2) (hi : maxi < s1.length) (hj : maxj < s2.length)
    (h : backTrack fixed gopen gext m tr s1 s2 score maxi maxj = some r) : Valid s1 s2 r := by
  simp only [backTrack] at h
  split at h
  · simp at h
  · rename_i pi pj st hloop
    have inv0 : Inv s1 s2 (maxi + 1) (maxj + 1) (maxi + 1) (maxj + 1) {} := by
      refine ⟨rfl, rfl, by simp, ?_, ?_, rfl, Nat.le_refl _, Nat.le_refl _⟩
      · simp [ungap]
      · simp [ungap]
    have inv := inv_btLoop h1 h2 (by omega : maxi + 1 ≤ s1.length) (by omega : maxj + 1 ≤ s2.length)
      fixed gopen gext m tr _ _ _ _ inv0 hloop
    simp only [Option.some.injEq] at h
    subst h
    exact ⟨inv.lenEq, inv.lenRep, inv.noGapCol, ⟨inv.le1, hi⟩, ⟨inv.le2, hj⟩,
      by simpa [List.drop_take] using inv.row1, by simpa [List.drop_take] using inv.row2, inv.counts⟩

/-- hypotheses of `sw_valid` are satisfiable, and the conclusion is not vacuous: a hand-made
trace matrix (`UP` then `DIAG`) on `ACG` / `AG`, end cell (2,1) -/
example :
    backTrack false (-4) (-2) (fun _ _ => 1) (fun i _ => if i = 1 then Dir.up else Dir.diag)
      [65, 67, 71] [65, 71] 7 2 1
    = some { score := 7, start1 := 0, start2 := 0, end1 := 2, end2 := 1, length := 3,
             nmatch := 2, nmismatch := 0, ngaps := 1, row1 := [65, 67, 71], row2 := [65, 45, 71] } := by
  decide

/-! ## the whole call: constructor, setters, `Alignment()` -/

/-- (table fact, re-checked against `align/const.go` on every run) neither index map has an entry
for the gap character, so `seqToindices` rejects gapped input -/
theorem gap_not_in_index_maps :
    lookup (toUpper GAP) Gen.dna_to_matrix_pos = none ∧ lookup (toUpper GAP) Gen.prot_to_matrix_pos = none := by
  decide

/-- **The built-in protein matrix is BLOSUM62 as published**: for every pair of the 24 symbols the index
map knows, the regenerated table holds the NCBI BLOSUM62 score (`Spec/Matrices.lean`, entered
independently) — in particular it is symmetric. -/
theorem blosum62_is_published : ∀ p ∈ Gen.prot_to_matrix_pos, ∀ q ∈ Gen.prot_to_matrix_pos,
    Spec.Matrices.protScore p.1 q.1 = some ((Gen.blosum62_subst_matrix.getD p.2 []).getD q.2 0) := by
  decide +kernel

/-- **The built-in nucleotide matrix is DNAfull (EDNAFULL / NUC.4.4) as published**, with `U` scored
as `T` and `X` as `N`. -/
theorem dnafull_is_published : ∀ p ∈ Gen.dna_to_matrix_pos, ∀ q ∈ Gen.dna_to_matrix_pos,
    Spec.Matrices.dnaScore p.1 q.1 = some ((Gen.dnafull_subst_matrix.getD p.2 []).getD q.2 0) := by
  decide +kernel

/-- the published matrices are symmetric -/
theorem published_matrices_symmetric :
    (∀ a ∈ Spec.Matrices.blosumOrder, ∀ b ∈ Spec.Matrices.blosumOrder,
      Spec.Matrices.protScore a b = Spec.Matrices.protScore b a) ∧
    (∀ a ∈ Spec.Matrices.dnaOrder, ∀ b ∈ Spec.Matrices.dnaOrder,
      Spec.Matrices.dnaScore a b = Spec.Matrices.dnaScore b a) := by
  decide +kernel

/-- (table fact) every position of an index map addresses a row and a column of its matrix, so
`matchScore` never indexes out of range -/
theorem index_maps_in_range :
    (∀ p ∈ Gen.dna_to_matrix_pos, p.2 < Gen.dnafull_subst_matrix.length ∧
        ∀ row ∈ Gen.dnafull_subst_matrix, p.2 < row.length) ∧
    (∀ p ∈ Gen.prot_to_matrix_pos, p.2 < Gen.blosum62_subst_matrix.length ∧
        ∀ row ∈ Gen.blosum62_subst_matrix, p.2 < row.length) := by
  decide

/-- the index map of a configured aligner is one of the two built-in maps or absent -/
private theorem configure_chartopos (den : Int) (s1 s2 : Seq) (go ge : Option Int) (mm : Option (Int × Int)) (fa : Bool) :
    (configure den s1 s2 go ge mm fa).chartopos = some Gen.dna_to_matrix_pos ∨
    (configure den s1 s2 go ge mm fa).chartopos = some Gen.prot_to_matrix_pos ∨
    (configure den s1 s2 go ge mm fa).chartopos = none := by
  have hn : (newPwAligner den s1 s2 fa).chartopos = some Gen.dna_to_matrix_pos ∨
      (newPwAligner den s1 s2 fa).chartopos = some Gen.prot_to_matrix_pos ∨
      (newPwAligner den s1 s2 fa).chartopos = none := by
    simp only [newPwAligner]
    generalize (if fa = true then _ else _ : Bool) = d
    generalize (if fa = true then _ else _ : Bool) = q
    cases d <;> cases q <;> simp
  unfold configure
  cases go <;> cases ge <;> cases mm <;>
    simpa only [Aligner.setGapOpenScore, Aligner.setGapExtendScore, Aligner.setScore] using hn

/-- `chartopos[unicode.ToUpper(c)]` -/
def idxOf (a : Aligner) (c : Byte) : Option Nat :=
  match a.chartopos with
  | none => none
  | some tbl => lookup (toUpper c) tbl

private theorem seqToIndices_eq (a : Aligner) (s : Seq) : seqToIndices a s = s.mapM (idxOf a) := rfl

private theorem seqToIndices_no_gap (a : Aligner)
    (ha : a.chartopos = some Gen.dna_to_matrix_pos ∨ a.chartopos = some Gen.prot_to_matrix_pos ∨ a.chartopos = none)
    (s : Seq) (idx : List Nat) (h : seqToIndices a s = some idx) : GAP ∉ s := by
  rw [seqToIndices_eq] at h
  induction s generalizing idx with
  | nil => simp
  | cons c t ih =>
    cases hc : idxOf a c with
    | none => simp [List.mapM_cons, hc] at h
    | some v =>
      cases ht : List.mapM (idxOf a) t with
      | none => simp [List.mapM_cons, hc, ht] at h
      | some w =>
        have iht := ih w ht
        intro hm
        rcases List.mem_cons.mp hm with e | hm
        · subst e
          unfold idxOf at hc
          rcases ha with ha | ha | ha <;> rw [ha] at hc
          · simp [gap_not_in_index_maps.1] at hc
          · simp [gap_not_in_index_maps.2] at hc
          · simp at hc
        · exact iht hm

private theorem mapM_length {α β} (f : α → Option β) : ∀ (l : List α) (r : List β), l.mapM f = some r → r.length = l.length := by
  intro l
  induction l with
  | nil => intro r h; simp at h; subst h; rfl
  | cons c t ih =>
    intro r h
    cases hc : f c with
    | none => simp [List.mapM_cons, hc] at h
    | some v =>
      cases ht : List.mapM f t with
      | none => simp [List.mapM_cons, hc, ht] at h
      | some w =>
        simp [List.mapM_cons, hc, ht] at h
        subst h
        simp [ih w ht]

private theorem zip3_length_le {α β γ} : ∀ (a : List α) (b : List β) (c : List γ), (zip3 a b c).length ≤ a.length := by
  intro a
  induction a with
  | nil => intro b c; simp [zip3]
  | cons x a ih =>
    intro b c
    cases b with
    | nil => simp [zip3]
    | cons y b =>
      cases c with
      | nil => simp [zip3]
      | cons z c => simp [zip3]; exact ih b c

/-- a row scan either leaves the running maximum alone or moves it to a cell of that row -/
private theorem rowScan_best (a : Aligner) (c1 : CI) (i : Nat) (hasUp : Bool) :
    ∀ (l : List (CI × Int × NInf)) (j : Nat) (diag : Int) (leftv : Option Int) (bx : NInf) (best : Best),
      (rowScan a c1 i hasUp j diag leftv bx best l).2 = best ∨
      ((rowScan a c1 i hasUp j diag leftv bx best l).2.i = i ∧
        j ≤ (rowScan a c1 i hasUp j diag leftv bx best l).2.j ∧
        (rowScan a c1 i hasUp j diag leftv bx best l).2.j < j + l.length) := by
  intro l
  induction l with
  | nil => intro j diag leftv bx best; left; rfl
  | cons e t ih =>
    intro j diag leftv bx best
    obtain ⟨c2, upv, maxa⟩ := e
    simp only [rowScan, List.length_cons]
    generalize ho : cellStep a.gapopen a.gapextend (matchScore a c1 c2) diag
      (if hasUp = true then some upv else none) leftv maxa bx = o
    rcases ih (j + 1) upv (some o.val) o.bx
      (if o.mscore > best.score then { score := o.mscore, i := i, j := j } else best) with h | h
    · rw [h]
      split
      · right; exact ⟨rfl, Nat.le_refl _, by show j < j + (t.length + 1); omega⟩
      · left; rfl
    · right; exact ⟨h.1, by omega, by omega⟩

private theorem fillRows_best (a : Aligner) (fixed : Bool) (x2 : List CI) :
    ∀ (t : List (CI × Cell)) (i : Nat) (prev : List Int) (maxa : List NInf) (best : Best),
      (fillRows a fixed x2 i prev maxa best t).2 = best ∨
      (i ≤ (fillRows a fixed x2 i prev maxa best t).2.i ∧
        (fillRows a fixed x2 i prev maxa best t).2.i < i + t.length ∧
        (fillRows a fixed x2 i prev maxa best t).2.j < x2.length) := by
  intro t
  induction t with
  | nil => intro i prev maxa best; left; rfl
  | cons e t ih =>
    intro i prev maxa best
    obtain ⟨c1, cell0⟩ := e
    simp only [fillRows, List.length_cons]
    cases fixed with
    | true =>
      simp only [if_true]
      have hr := rowScan_best a c1 i (decide (i > 0)) (zip3 x2 prev maxa) 0 0 none none best
      have hl := zip3_length_le x2 prev maxa
      generalize rowScan a c1 i (decide (i > 0)) 0 0 none none best (zip3 x2 prev maxa) = r at hr ⊢
      rcases ih (i + 1) (List.map (fun x => x.val) (List.map (fun x => x.1) r.1))
        (List.map (fun x => x.2) r.1) r.2 with h | h
      · rw [h]
        rcases hr with hr | hr
        · left; exact hr
        · right; exact ⟨by omega, by omega, by omega⟩
      · right; exact ⟨by omega, by omega, h.2.2⟩
    | false =>
      simp only [Bool.false_eq_true, if_false]
      have hr := rowScan_best a c1 i true (zip3 (x2.drop 1) (prev.drop 1) (maxa.drop 1)) 1 (prev.headD 0)
        (some cell0.val) (some (cell0.val + a.gapopen + a.gapextend)) best
      have hl := zip3_length_le (x2.drop 1) (prev.drop 1) (maxa.drop 1)
      simp only [List.length_drop] at hl
      generalize rowScan a c1 i true 1 (prev.headD 0) (some cell0.val)
        (some (cell0.val + a.gapopen + a.gapextend)) best
        (zip3 (x2.drop 1) (prev.drop 1) (maxa.drop 1)) = r at hr ⊢
      rcases ih (i + 1) (List.map (fun x => x.val) (cell0 :: List.map (fun x => x.1) r.1))
        (maxa.headD none :: List.map (fun x => x.2) r.1) r.2 with h | h
      · rw [h]
        rcases hr with hr | hr
        · left; exact hr
        · right; exact ⟨by omega, by omega, by omega⟩
      · right; exact ⟨by omega, by omega, h.2.2⟩

/-- the end cell reported by `fillMatrix_SW` lies inside the matrix -/
theorem fill_best_in_range (a : Aligner) (fixed : Bool) (x1 x2 : List CI) (h1 : x1 ≠ []) (h2 : x2 ≠ []) :
    (fill a fixed x1 x2).best.i < x1.length ∧ (fill a fixed x1 x2).best.j < x2.length := by
  have l1 : 0 < x1.length := List.length_pos_iff.mpr h1
  have l2 : 0 < x2.length := List.length_pos_iff.mpr h2
  cases fixed with
  | true =>
    simp only [fill, if_true]
    rcases fillRows_best a true x2 (x1.map fun c => (c, (⟨0, Dir.up⟩ : Cell))) 0 (x2.map fun _ => 0)
      (x2.map fun _ => none) ⟨0, 0, 0⟩ with h | h
    · rw [h]; exact ⟨l1, l2⟩
    · simp only [List.length_map] at h; exact ⟨by omega, h.2.2⟩
  | false =>
    simp only [fill, Bool.false_eq_true, if_false]
    cases x1 with
    | nil => exact absurd rfl h1
    | cons c1 t1 =>
      cases x2 with
      | nil => exact absurd rfl h2
      | cons c2 t2 =>
        simp only []
        generalize hrow : firstRowOrig a c1 none (c2 :: t2) = row0
        generalize hcol : firstColOrig a c2 none (c1 :: t1) = col0
        rcases fillRows_best a false (c2 :: t2) (((c1 :: t1).zip col0).drop 1) 1 (row0.map (·.1.val))
          (row0.map (·.2)) ⟨0, 0, 0⟩ with h | h
        · rw [h]; exact ⟨l1, l2⟩
        · have hz : (((c1 :: t1).zip col0).drop 1).length ≤ t1.length := by
            simp only [List.length_drop, List.length_zip, List.length_cons]; omega
          simp only [List.length_cons] at h ⊢
          exact ⟨by omega, h.2.2⟩

/-- **sw_align_valid** — whatever `NewPwAligner` + setters + `Alignment()` return without error for
*any* two sequences and *any* scores (shipped or repaired code) is valid in the sense of C09. -/
theorem sw_align_valid (fixed : Bool) (den : Int) (s1 s2 : Seq) (go ge : Option Int)
    (mm : Option (Int × Int)) (fa : Bool) (r : Result)
    (h : align (configure den s1 s2 go ge mm fa) fixed s1 s2 = Outcome.ok r) : Valid s1 s2 r := by
  have ha := configure_chartopos den s1 s2 go ge mm fa
  generalize configure den s1 s2 go ge mm fa = a at h ha
  simp only [align] at h
  split at h
  · simp at h
  · split at h
    · rename_i i1 i2 hi1 hi2
      split at h
      · simp at h
      · rename_i hne
        simp only [Bool.or_eq_true, List.isEmpty_iff, not_or] at hne
        split at h
        · rename_i r' hbt
          simp only [Outcome.ok.injEq] at h
          subst h
          have hl1 : (s1.zip i1).length = s1.length := by
            simp [List.length_zip, mapM_length _ _ _ (seqToIndices_eq a s1 ▸ hi1)]
          have hl2 : (s2.zip i2).length = s2.length := by
            simp [List.length_zip, mapM_length _ _ _ (seqToIndices_eq a s2 ▸ hi2)]
          have hb := fill_best_in_range a fixed (s1.zip i1) (s2.zip i2)
            (by intro e; have := congrArg List.length e; rw [hl1] at this; exact hne.1 (List.length_eq_zero_iff.mp this))
            (by intro e; have := congrArg List.length e; rw [hl2] at this; exact hne.2 (List.length_eq_zero_iff.mp this))
          rw [hl1, hl2] at hb
          exact sw_valid fixed _ _ _ _ s1 s2 _ _ _ r' (seqToIndices_no_gap a ha s1 i1 hi1)
            (seqToIndices_no_gap a ha s2 i2 hi2) hb.1 hb.2 hbt
        · simp at h
    · simp at h

/-- non-vacuity: the shipped code on `CGA` / `CATCA`, match 10, mismatch −1, gap −3 / −0.5 (×2)
returns `CGA` / `C-A` with reported score 19 (the rows are worth 17: finding `maxa-init`) -/
example :
    align (configure 2 [67, 71, 65] [67, 65, 84, 67, 65] (some (-6)) (some (-1)) (some (20, -2))) false
      [67, 71, 65] [67, 65, 84, 67, 65]
    = Outcome.ok { score := 38, start1 := 0, start2 := 3, end1 := 2, end2 := 4, length := 3, nmatch := 2,
                   nmismatch := 0, ngaps := 1, row1 := [67, 71, 65], row2 := [67, 45, 65] } := by
  decide

/-! ## the returned rows denote a local alignment in the sense of the specification -/

open Gv.Spec.SW in
private theorem colsOfRows_spec : ∀ (r1 r2 : Seq), r1.length = r2.length →
    (∀ p ∈ r1.zip r2, ¬ (p.1 = GAP ∧ p.2 = GAP)) →
    ∃ cols, colsOfRows r1 r2 = some cols ∧ proj1 cols = ungap r1 ∧ proj2 cols = ungap r2 := by
  intro r1
  induction r1 with
  | nil =>
    intro r2 hl _
    cases r2 with
    | nil => exact ⟨[], rfl, rfl, rfl⟩
    | cons _ _ => simp at hl
  | cons c1 t1 ih =>
    intro r2 hl hg
    cases r2 with
    | nil => simp at hl
    | cons c2 t2 =>
      obtain ⟨cols, hc, h1, h2⟩ := ih t2 (by simpa using hl)
        (fun p hp => hg p (by simp only [List.zip_cons_cons]; exact List.mem_cons_of_mem _ hp))
      have hng := hg (c1, c2) (by simp)
      simp only [colsOfRows, hc, Option.map_some]
      by_cases e2 : c2 = GAP
      · have e1 : c1 ≠ GAP := fun e => hng ⟨e, e2⟩
        subst e2
        refine ⟨Col.gap2 c1 :: cols, by simp [e1], ?_, ?_⟩
        · simp [proj1, h1, ungap, e1]
        · simp [proj2, h2, ungap]
      · by_cases e1 : c1 = GAP
        · subst e1
          refine ⟨Col.gap1 c2 :: cols, by simp [e2], ?_, ?_⟩
          · simp [proj1, h1, ungap]
          · simp [proj2, h2, ungap, e2]
        · refine ⟨Col.pair c1 c2 :: cols, by simp [e1, e2], ?_, ?_⟩
          · simp [proj1, h1, ungap, e1]
          · simp [proj2, h2, ungap, e2]

/-- **sw_rows_denote_local_alignment** — a valid result read column by column is a local alignment
of the two inputs starting at the reported offsets, spelling exactly the reported substrings; this is
the object whose score "the score of the returned alignment" refers to. -/
theorem sw_rows_denote_local_alignment (s1 s2 : Seq) (r : Result) (v : Valid s1 s2 r) :
    ∃ cols, Spec.SW.colsOfRows r.row1 r.row2 = some cols ∧
      Spec.SW.IsLocal s1 s2 r.start1 r.start2 cols ∧
      Spec.SW.proj1 cols = (s1.drop r.start1).take (r.end1 + 1 - r.start1) ∧
      Spec.SW.proj2 cols = (s2.drop r.start2).take (r.end2 + 1 - r.start2) := by
  obtain ⟨vlen, _, vgap, vb1, vb2, vr1, vr2, _⟩ := v
  obtain ⟨cols, hc, h1, h2⟩ := colsOfRows_spec r.row1 r.row2 vlen vgap
  refine ⟨cols, hc, ⟨by omega, by omega, ?_, ?_⟩, h1.trans vr1, h2.trans vr2⟩
  · rw [h1, vr1]; exact List.take_prefix _ _
  · rw [h2, vr2]; exact List.take_prefix _ _

/-! ## the reference optimum of the specification -/

/-- **enum_complete** — the brute-force enumeration used by the oracle on tiny inputs lists exactly
the column lists that align a prefix of `s` with a prefix of `t` -/
theorem enum_complete (s t : Seq) (cols : List Spec.SW.Col) :
    cols ∈ Spec.SW.enumAnchored s t ↔ Spec.SW.Anchored s t cols :=
  Spec.SW.mem_enumAnchored cols s t

/-- **enum_optimal** — `enumBest` bounds the score of every local alignment and is the score of one -/
theorem enum_optimal (S : Spec.SW.Scheme) (s1 s2 : Seq) :
    (∀ p1 p2 cols, Spec.SW.IsLocal s1 s2 p1 p2 cols → Spec.SW.score S cols ≤ Spec.SW.enumBest S s1 s2) ∧
    (∃ p1 p2 cols, Spec.SW.IsLocal s1 s2 p1 p2 cols ∧ Spec.SW.score S cols = Spec.SW.enumBest S s1 s2) :=
  ⟨fun _ _ _ h => Spec.SW.enum_upper S h, Spec.SW.enum_attained S s1 s2⟩

/-- **gotoh_upper_bound** — no local alignment of `s1`, `s2` scores more than the Gotoh optimum, for
every substitution function and every pair of gap penalties (no sign condition needed) -/
theorem gotoh_upper_bound (S : Spec.SW.Scheme) (s1 s2 : Seq) (p1 p2 : Nat) (cols : List Spec.SW.Col)
    (h : Spec.SW.IsLocal s1 s2 p1 p2 cols) : Spec.SW.score S cols ≤ Spec.SW.gotohBest S s1 s2 :=
  Spec.SW.gotoh_upper S h

/-- **gotoh_attained** — some local alignment has exactly the Gotoh optimum as its score -/
theorem gotoh_attained (S : Spec.SW.Scheme) (s1 s2 : Seq) :
    ∃ p1 p2 cols, Spec.SW.IsLocal s1 s2 p1 p2 cols ∧ Spec.SW.score S cols = Spec.SW.gotohBest S s1 s2 :=
  Spec.SW.gotoh_attained S s1 s2

/-- consequently the two reference computations of the oracle agree on every input -/
theorem gotoh_eq_enum (S : Spec.SW.Scheme) (s1 s2 : Seq) :
    Spec.SW.gotohBest S s1 s2 = Spec.SW.enumBest S s1 s2 := by
  obtain ⟨p1, p2, c, hc, e⟩ := Spec.SW.gotoh_attained S s1 s2
  obtain ⟨q1, q2, d, hd, f⟩ := Spec.SW.enum_attained S s1 s2
  have a := Spec.SW.enum_upper S hc
  have b := Spec.SW.gotoh_upper S hd
  omega

/-! ## score consistency and optimality of the aligner -/

/-- the scheme an aligner is configured with, as a scheme of the specification: residues are scored
through the aligner's own index map and matrix, or by byte equality after `SetScore` -/
def schemeOf (a : Aligner) : Spec.SW.Scheme where
  sub c1 c2 := matchScore a (c1, (idxOf a c1).getD 0) (c2, (idxOf a c2).getD 0)
  gapopen := a.gapopen
  gapext := a.gapextend

private theorem mapM_zip_mem {α β} (f : α → Option β) : ∀ (l : List α) (r : List β), l.mapM f = some r →
    ∀ c ∈ l.zip r, f c.1 = some c.2 := by
  intro l
  induction l with
  | nil => intro r _ c hc; simp at hc
  | cons x t ih =>
    intro r h c hc
    cases hx : f x with
    | none => simp [List.mapM_cons, hx] at h
    | some v =>
      cases ht : List.mapM f t with
      | none => simp [List.mapM_cons, hx, ht] at h
      | some w =>
        simp [List.mapM_cons, hx, ht] at h
        subst h
        simp only [List.zip_cons_cons, List.mem_cons] at hc
        rcases hc with rfl | hc
        · exact hx
        · exact ih w ht c hc

private theorem backTrack_score {fixed : Bool} {gopen gext : Int} {m : Nat → Nat → Int} {tr : Nat → Nat → Dir}
    {s1 s2 : Seq} {score : Int} {maxi maxj : Nat} {r : Result}
    (h : backTrack fixed gopen gext m tr s1 s2 score maxi maxj = some r) : r.score = score := by
  simp only [backTrack] at h
  split at h
  · simp at h
  · simp only [Option.some.injEq] at h; subst h; rfl

/-- **sw_score_is_optimum** — for the *repaired* code, all sequences, the built-in matrices or any
match/mismatch scores, and any gap penalties with `gapopen ≤ gapextend < 0`: the reported score
(`MaxScore()`) **equals** the optimum over all local alignments as defined by the specification
(Gotoh program, itself proved to bound every local alignment and to be attained). -/
theorem sw_score_is_optimum (den : Int) (s1 s2 : Seq) (go ge : Option Int) (mm : Option (Int × Int)) (fa : Bool) (r : Result)
    (hgap : (configure den s1 s2 go ge mm fa).gapopen ≤ (configure den s1 s2 go ge mm fa).gapextend ∧
            (configure den s1 s2 go ge mm fa).gapextend < 0)
    (h : align (configure den s1 s2 go ge mm fa) true s1 s2 = Outcome.ok r) :
    r.score = Spec.SW.gotohBest (schemeOf (configure den s1 s2 go ge mm fa)) s1 s2 := by
  generalize configure den s1 s2 go ge mm fa = a at h hgap
  simp only [align] at h
  split at h
  · simp at h
  · split at h
    · rename_i i1 i2 hi1 hi2
      split at h
      · simp at h
      · split at h
        · rename_i r' hbt
          simp only [Outcome.ok.injEq] at h
          subst h
          rw [backTrack_score hbt]
          have hl1 := mapM_length _ _ _ (seqToIndices_eq a s1 ▸ hi1)
          have hl2 := mapM_length _ _ _ (seqToIndices_eq a s2 ▸ hi2)
          have hz1 := mapM_zip_mem _ _ _ (seqToIndices_eq a s1 ▸ hi1)
          have hz2 := mapM_zip_mem _ _ _ (seqToIndices_eq a s2 ▸ hi2)
          have := Proofs.SWFill.fill_best_eq_gotoh a (schemeOf a) rfl rfl hgap.1 hgap.2 (s1.zip i1) (s2.zip i2)
            (by
              intro c1 h1 c2 h2
              show matchScore a c1 c2 = matchScore a (c1.1, (idxOf a c1.1).getD 0) (c2.1, (idxOf a c2.1).getD 0)
              rw [hz1 c1 h1, hz2 c2 h2]; rfl)
          rw [this]
          congr 1
          · exact List.map_fst_zip (by omega)
          · exact List.map_fst_zip (by omega)
        · simp at h
    · simp at h

/-- what a successful `Alignment()` went through -/
private theorem align_ok_inv {a : Aligner} {fixed : Bool} {s1 s2 : Seq} {r : Result}
    (h : align a fixed s1 s2 = Outcome.ok r) :
    ∃ i1 i2, seqToIndices a s1 = some i1 ∧ seqToIndices a s2 = some i2 ∧ s1 ≠ [] ∧ s2 ≠ [] ∧
      backTrack fixed a.gapopen a.gapextend (fill a fixed (s1.zip i1) (s2.zip i2)).m
        (fill a fixed (s1.zip i1) (s2.zip i2)).t s1 s2 (fill a fixed (s1.zip i1) (s2.zip i2)).best.score
        (fill a fixed (s1.zip i1) (s2.zip i2)).best.i (fill a fixed (s1.zip i1) (s2.zip i2)).best.j = some r := by
  simp only [align] at h
  split at h
  · simp at h
  · split at h
    · rename_i i1 i2 hi1 hi2
      split at h
      · simp at h
      · rename_i hne
        simp only [Bool.or_eq_true, List.isEmpty_iff, not_or] at hne
        split at h
        · rename_i r' hbt
          simp only [Outcome.ok.injEq] at h
          subst h
          exact ⟨i1, i2, hi1, hi2, hne.1, hne.2, hbt⟩
        · simp at h
    · simp at h

/-- **sw_never_panics** — the repaired `Alignment()` never indexes out of range, whatever the
sequences and scores: it returns a result or the explicit error (empty sequence, residue outside
the alphabet of the chosen matrix, incompatible alphabets). -/
theorem sw_never_panics (a : Aligner) (s1 s2 : Seq) : align a true s1 s2 ≠ Outcome.panic := by
  simp only [align]
  split
  · simp
  · rename_i hne
    simp only [Bool.true_and, Bool.or_eq_true, List.isEmpty_iff, not_or] at hne
    split
    · rename_i i1 i2 hi1 hi2
      rw [if_neg (by simp [hne.1, hne.2])]
      have hl1 := mapM_length _ _ _ (seqToIndices_eq a s1 ▸ hi1)
      have hl2 := mapM_length _ _ _ (seqToIndices_eq a s2 ▸ hi2)
      have hz1 : (s1.zip i1).length = s1.length := by simp [List.length_zip]; omega
      have hz2 : (s2.zip i2).length = s2.length := by simp [List.length_zip]; omega
      have hp1 : 0 < s1.length := List.length_pos_iff.mpr hne.1
      have hp2 : 0 < s2.length := List.length_pos_iff.mpr hne.2
      have hb := fill_best_in_range a true (s1.zip i1) (s2.zip i2)
        (by intro e; rw [e] at hz1; simp at hz1; omega) (by intro e; rw [e] at hz2; simp at hz2; omega)
      have htot := Proofs.SWTrace.btLoop_total true a.gapopen a.gapextend
        (fill a true (s1.zip i1) (s2.zip i2)).m (fill a true (s1.zip i1) (s2.zip i2)).t s1 s2
        (s1.zip i1).length (s2.zip i2).length
        (fun j hj => Proofs.SWTrace.fill_no_up_row0 a _ _ (by omega) j hj)
        (fun i hi => Proofs.SWTrace.fill_no_left_col0 a _ _ (by omega) i hi)
        ((fill a true (s1.zip i1) (s2.zip i2)).best.i + (fill a true (s1.zip i1) (s2.zip i2)).best.j + 2)
        ((fill a true (s1.zip i1) (s2.zip i2)).best.i + 1) ((fill a true (s1.zip i1) (s2.zip i2)).best.j + 1) {}
        (by omega) (by omega)
      simp only [backTrack]
      cases hloop : btLoop true a.gapopen a.gapextend (fill a true (s1.zip i1) (s2.zip i2)).m
          (fill a true (s1.zip i1) (s2.zip i2)).t s1 s2
          ((fill a true (s1.zip i1) (s2.zip i2)).best.i + (fill a true (s1.zip i1) (s2.zip i2)).best.j + 2)
          ((fill a true (s1.zip i1) (s2.zip i2)).best.i + 1) ((fill a true (s1.zip i1) (s2.zip i2)).best.j + 1) {} with
      | none => rw [hloop] at htot; simp at htot
      | some v => simp
    · simp

/-- **sw_score_of_returned_rows** — for the repaired code, whenever the reported score is positive
the two returned rows, read column by column, are an alignment whose affine-gap score under the
configured scheme is exactly the reported score. -/
theorem sw_score_of_returned_rows (den : Int) (s1 s2 : Seq) (go ge : Option Int) (mm : Option (Int × Int))
    (fa : Bool) (r : Result)
    (hgap : (configure den s1 s2 go ge mm fa).gapopen ≤ (configure den s1 s2 go ge mm fa).gapextend ∧
            (configure den s1 s2 go ge mm fa).gapextend < 0)
    (h : align (configure den s1 s2 go ge mm fa) true s1 s2 = Outcome.ok r) (hpos : 0 < r.score) :
    ∃ cols, Spec.SW.colsOfRows r.row1 r.row2 = some cols ∧
      Spec.SW.score (schemeOf (configure den s1 s2 go ge mm fa)) cols = r.score := by
  have hvalid := sw_align_valid true den s1 s2 go ge mm fa r h
  have hopt := sw_score_is_optimum den s1 s2 go ge mm fa r hgap h
  have ha := configure_chartopos den s1 s2 go ge mm fa
  generalize configure den s1 s2 go ge mm fa = a at h hgap hopt ha
  obtain ⟨i1, i2, hi1, hi2, hne1, hne2, hbt⟩ := align_ok_inv h
  have hl1 := mapM_length _ _ _ (seqToIndices_eq a s1 ▸ hi1)
  have hl2 := mapM_length _ _ _ (seqToIndices_eq a s2 ▸ hi2)
  have hz1 := mapM_zip_mem _ _ _ (seqToIndices_eq a s1 ▸ hi1)
  have hz2 := mapM_zip_mem _ _ _ (seqToIndices_eq a s2 ▸ hi2)
  have hg1 := seqToIndices_no_gap a ha s1 i1 hi1
  have hg2 := seqToIndices_no_gap a ha s2 i2 hi2
  have hm1 : (s1.zip i1).map (·.1) = s1 := List.map_fst_zip (by omega)
  have hm2 : (s2.zip i2).map (·.1) = s2 := List.map_fst_zip (by omega)
  have hsub : ∀ c1 ∈ s1.zip i1, ∀ c2 ∈ s2.zip i2, matchScore a c1 c2 = (schemeOf a).sub c1.1 c2.1 := by
    intro c1 h1 c2 h2
    show matchScore a c1 c2 = matchScore a (c1.1, (idxOf a c1.1).getD 0) (c2.1, (idxOf a c2.1).getD 0)
    rw [hz1 c1 h1, hz2 c2 h2]; rfl
  have cert := Proofs.SWTrace.fill_cert a (schemeOf a) rfl rfl hgap.1 hgap.2 (s1.zip i1) (s2.zip i2) hsub
  rw [hm1, hm2] at cert
  have hsc := backTrack_score hbt
  have hcell := Proofs.SWTrace.fill_best_cell a (s1.zip i1) (s2.zip i2) (by rw [← hsc]; exact hpos)
  generalize fill a true (s1.zip i1) (s2.zip i2) = f at hbt cert hsc hcell
  obtain ⟨hbi, hbj, hbm⟩ := hcell
  have hz1l : (s1.zip i1).length = s1.length := by simp [List.length_zip]; omega
  have hz2l : (s2.zip i2).length = s2.length := by simp [List.length_zip]; omega
  rw [hz1l] at hbi
  rw [hz2l] at hbj
  simp only [backTrack] at hbt
  split at hbt
  · simp at hbt
  · rename_i pi pj st hloop
    simp only [Option.some.injEq] at hbt
    obtain ⟨L, hL, hs⟩ := Proofs.SWTrace.btLoop_score (schemeOf a) hgap.1 hgap.2 cert hg1 hg2
      (f.best.i + f.best.j + 2) (f.best.i + 1) (f.best.j + 1) {} [] (by omega) (by omega) (by omega) (by omega)
      (by simp only [Nat.add_sub_cancel]; rw [hbm, ← hsc]; exact hpos) (by omega) rfl hloop
    simp only [Nat.add_sub_cancel, List.append_nil] at hL hs
    have hr1 : r.row1 = st.r1 := by rw [← hbt]
    have hr2 : r.row2 = st.r2 := by rw [← hbt]
    refine ⟨L, by rw [hr1, hr2]; exact hL, ?_⟩
    obtain ⟨cols', hc', hloc, _, _⟩ := sw_rows_denote_local_alignment s1 s2 r hvalid
    rw [hr1, hr2, hL] at hc'
    simp only [Option.some.injEq] at hc'
    subst hc'
    have hub := Spec.SW.gotoh_upper (schemeOf a) hloc
    rw [← hopt] at hub
    rw [hbm] at hs
    omega

/-- **sw_optimal** — C09's score clauses at full strength, for the repaired code: for every pair of
sequences, the built-in matrices or any match/mismatch scores, and any gap penalties with
`gapopen ≤ gapextend < 0`, whenever some local alignment has a positive score,

* (A) the reported score equals the score of the returned alignment under the configured scheme, and
* (B) no local alignment of the two sequences scores higher.

It is FALSE for the shipped code (`fixed = false`): see the `example`s below. -/
theorem sw_optimal (den : Int) (s1 s2 : Seq) (go ge : Option Int) (mm : Option (Int × Int)) (fa : Bool) (r : Result)
    (hgap : (configure den s1 s2 go ge mm fa).gapopen ≤ (configure den s1 s2 go ge mm fa).gapextend ∧
            (configure den s1 s2 go ge mm fa).gapextend < 0)
    (h : align (configure den s1 s2 go ge mm fa) true s1 s2 = Outcome.ok r)
    (hpos : ∃ p1 p2 cols, Spec.SW.IsLocal s1 s2 p1 p2 cols ∧
              0 < Spec.SW.score (schemeOf (configure den s1 s2 go ge mm fa)) cols) :
    (∃ cols, Spec.SW.colsOfRows r.row1 r.row2 = some cols ∧
        r.score = Spec.SW.score (schemeOf (configure den s1 s2 go ge mm fa)) cols) ∧
    (∀ p1 p2 cols, Spec.SW.IsLocal s1 s2 p1 p2 cols →
        Spec.SW.score (schemeOf (configure den s1 s2 go ge mm fa)) cols ≤ r.score) := by
  have hopt := sw_score_is_optimum den s1 s2 go ge mm fa r hgap h
  have hB : ∀ p1 p2 cols, Spec.SW.IsLocal s1 s2 p1 p2 cols →
      Spec.SW.score (schemeOf (configure den s1 s2 go ge mm fa)) cols ≤ r.score := by
    intro p1 p2 cols hl; rw [hopt]; exact Spec.SW.gotoh_upper _ hl
  obtain ⟨p1, p2, cols, hl, hp⟩ := hpos
  have hrpos : 0 < r.score := Int.lt_of_lt_of_le hp (hB p1 p2 cols hl)
  obtain ⟨c, hc, hs⟩ := sw_score_of_returned_rows den s1 s2 go ge mm fa r hgap h hrpos
  exact ⟨⟨c, hc, hs.symm⟩, hB⟩

/-- corollary: some local alignment attains the reported score even when it is 0 -/
theorem sw_score_attained (den : Int) (s1 s2 : Seq) (go ge : Option Int) (mm : Option (Int × Int)) (fa : Bool) (r : Result)
    (hgap : (configure den s1 s2 go ge mm fa).gapopen ≤ (configure den s1 s2 go ge mm fa).gapextend ∧
            (configure den s1 s2 go ge mm fa).gapextend < 0)
    (h : align (configure den s1 s2 go ge mm fa) true s1 s2 = Outcome.ok r) :
    ∃ p1 p2 cols, Spec.SW.IsLocal s1 s2 p1 p2 cols ∧
      Spec.SW.score (schemeOf (configure den s1 s2 go ge mm fa)) cols = r.score := by
  rw [sw_score_is_optimum den s1 s2 go ge mm fa r hgap h]
  exact Spec.SW.gotoh_attained _ s1 s2

/-- score, rows of an outcome (for stating concrete instances) -/
def scoreRows : Outcome → Option (Int × Seq × Seq)
  | .ok r => some (r.score, r.row1, r.row2)
  | _ => none

/-- the hypotheses of `sw_score_is_optimum` / `sw_optimal` are satisfiable: repaired code on
`CGA` / `CATCA` (10, −1, −3, −0.5): reported 17 (×2 = 34) = Gotoh optimum -/
example :
    let a := configure 2 [67, 71, 65] [67, 65, 84, 67, 65] (some (-6)) (some (-1)) (some (20, -2))
    scoreRows (align a true [67, 71, 65] [67, 65, 84, 67, 65]) = some (34, [67, 71, 65], [67, 45, 65]) ∧
      Spec.SW.gotohBest (schemeOf a) [67, 71, 65] [67, 65, 84, 67, 65] = 34 := by
  decide

/-- … including "some local alignment has a positive score": `C` / `C` at offsets (0, 0) scores 10 -/
example :
    let a := configure 2 [67, 71, 65] [67, 65, 84, 67, 65] (some (-6)) (some (-1)) (some (20, -2))
    Spec.SW.IsLocal [67, 71, 65] [67, 65, 84, 67, 65] 0 0 [Spec.SW.Col.pair 67 67] ∧
      0 < Spec.SW.score (schemeOf a) [Spec.SW.Col.pair 67 67] ∧ a.gapopen ≤ a.gapextend ∧ a.gapextend < 0 :=
  ⟨⟨by decide, by decide, ⟨[71, 65], rfl⟩, ⟨[65, 84, 67, 65], rfl⟩⟩, by decide, by decide, by decide⟩

/-- `sw_optimal` fails for the shipped code (`fixed = false`), 1: the best cell lies on the border and is not tracked.
`A` / `A`, match 1: reported score 0, the returned rows `A` / `A` are worth 1 (×2 = 2). -/
example :
    let a := configure 2 [65] [65] (some (-4)) (some (-2)) (some (2, -2))
    scoreRows (align a false [65] [65]) = some (0, [65], [65]) ∧
      Spec.SW.colsOfRows [65] [65] = some [Spec.SW.Col.pair 65 65] ∧
      Spec.SW.score (schemeOf a) [Spec.SW.Col.pair 65 65] = 2 := by
  decide

/-- 2: the trace-back runs through a non-positive border cell.  `AA` / `CA` (1, −1, −2, −1):
reported 1 (×2 = 2), returned rows `AA` / `CA` worth 0. -/
example :
    let a := configure 2 [65, 65] [67, 65] (some (-4)) (some (-2)) (some (2, -2))
    scoreRows (align a false [65, 65] [67, 65]) = some (2, [65, 65], [67, 65]) ∧
      Spec.SW.colsOfRows [65, 65] [67, 65] = some [Spec.SW.Col.pair 65 67, Spec.SW.Col.pair 65 65] ∧
      Spec.SW.score (schemeOf a) [Spec.SW.Col.pair 65 67, Spec.SW.Col.pair 65 65] = 0 := by
  decide

/-- 3: `maxa` initialised with the extension penalty.  `ACG` / `AGAG` (3, −0.5, −2.5, −0.5):
reported 5 (×2 = 10) for rows `ACG` / `A-G` worth 3.5 (×2 = 7), which is the optimum. -/
example :
    let a := configure 2 [65, 67, 71] [65, 71, 65, 71] (some (-5)) (some (-1)) (some (6, -1))
    scoreRows (align a false [65, 67, 71] [65, 71, 65, 71]) = some (10, [65, 67, 71], [65, 45, 71]) ∧
      Spec.SW.colsOfRows [65, 67, 71] [65, 45, 71] =
        some [Spec.SW.Col.pair 65 65, Spec.SW.Col.gap2 67, Spec.SW.Col.pair 71 71] ∧
      Spec.SW.score (schemeOf a) [Spec.SW.Col.pair 65 65, Spec.SW.Col.gap2 67, Spec.SW.Col.pair 71 71] = 7 ∧
      Spec.SW.gotohBest (schemeOf a) [65, 67, 71] [65, 71, 65, 71] = 7 := by
  decide

/-- 4: not optimal.  `AA` / `AC` (10, −1, −3, −0.5): reported 9 (×2 = 18) for `AA` / `AC`; `A` / `A`
alone scores 10 (×2 = 20). -/
example :
    let a := configure 2 [65, 65] [65, 67] (some (-6)) (some (-1)) (some (20, -2))
    scoreRows (align a false [65, 65] [65, 67]) = some (18, [65, 65], [65, 67]) ∧
      Spec.SW.gotohBest (schemeOf a) [65, 65] [65, 67] = 20 := by
  decide

end Gv.Props.C09
