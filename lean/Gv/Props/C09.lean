import Gv.Model.SW
import Gv.Spec.SW
namespace Gv.Props.C09
open Gv Gv.Model.SW

theorem placeholder : (1 : Nat) = 1 := rfl

end Gv.Props.C09
