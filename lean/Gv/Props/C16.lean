import Gv.Model.Phase
import Gv.Model.Facts
import Gv.Proofs.PoolCore
import Gv.Proofs.PhaseAlignNT
import Gv.Proofs.PhaseAlignMulti
import Gv.Proofs.PhaseAlignAA
/-!
# C16 — phasing

* framing relations (pure list facts about what `alignAgainstRefsAA` / `alignAgainstRefsNT` build from an
  alignment hit): `translate_drop`, `phase_codon_translates_to_aa`, `phase_nt_is_substring_at_position`,
  `phase_cutend_bounds`, `phase_nt_codon_in_frame`;
* the reference search: `longestORF_scan_is_longest` (a scan of every `ATG` returns a longest frame),
  `longestORF_regex_sound` (the regular-expression search returns a genuine ATG-to-first-stop frame) and
  `longestORF_regex_not_longest` — the *negation* of "no input contains a longer one" for the search the
  unchanged code uses (non-overlapping matches), with the concrete witness;
* the worker pool (DESIGN §4.4, shared with C08): `pool_one_result_per_input`, `pool_results_closed`,
  `pool_schedule_independent`;
* what the T3 checks give: `phase_inputs_unmodified`, `instanceOfPool_closes_results`.

* the aligner behind phasing (`Gv.Model.PhaseAlign`: `ALIGN_ALGO_ATG`, `alignAgainstRefsNT`), from the C09 fill
  lemmas: `atg_verbatim_aligned_at_occurrence_partial`, `phase_nt_verbatim_trimmed_at_orf_start_partial` and its
  two instances (match/mismatch scores; default DNAfull scores on A/C/G/T); what the repaired code returns
  where the first shipped code panicked: `phase_nt_removed_is_untrimmed_input`,
  `phase_nt_without_positive_alignment_is_removed`, `phase_nt_hit_shorter_than_frame_shift_reports_error`;
  `atg_aligner_never_panics`;
  several references and either strand: `phase_nt_verbatim_multi_partial` (`Gv.Proofs.PhaseAlignMulti`).

* the translate mode, `alignAgainstRefsAA` (`Gv.Model.PhaseAlign.phaseAA`: selection over references × 3 or 6 frames,
  amino-acid positions converted to nucleotide positions, result assembly): `phase_aa_removed_is_untrimmed_input`,
  `phase_aa_never_panics`, `phase_aa_nt_is_substring_at_position`, `phase_aa_codon_translates_to_aa`,
  `phase_aa_ok_is_assembleAA` (helper development `Gv.Proofs.PhaseAlignAA`).

Partial: the clause "a sequence containing the reference ORF verbatim once is trimmed at its start" is proved
for the nucleotide mode (`phasent`), gap penalties
`gapopen ≤ gapextend < 0` and a diagonally dominant scoring scheme: ONE reference (every match/mismatch scheme with
`mismatch < match`, `0 < match`, one or both strands; DNAfull on A/C/G/T, forward strand), and SEVERAL references
with the occurrence on either strand (`phase_nt_verbatim_multi_partial`: the other references must not reach the
verbatim one's self-score, and the strands tried earlier hold no gap character) — not for the
translate mode (BLOSUM62 on the three or six translations), where it enters only as a `Hit`
and is checked on the implementation by the oracle predicate.  The Go memory model / scheduler are outside the model.
-/
namespace Gv.Props.C16
open Gv Gv.Model Gv.Model.Phase

/-! ## framing -/

private theorem codonsFrom_drop3 (code : List (List Byte × Byte)) :
    ∀ (k : Nat) (s : Seq), codonsFrom code (s.drop (3 * k)) = (codonsFrom code s).drop k := by
  intro k
  induction k with
  | zero => intro s; simp
  | succ k ih =>
    intro s
    match s with
    | [] => simp [codonsFrom]
    | [_] =>
      have : 3 * (k + 1) = (3 * k + 2) + 1 := by omega
      simp [codonsFrom, this]
    | [_, _] =>
      have : 3 * (k + 1) = (3 * k + 1) + 1 + 1 := by omega
      simp [codonsFrom, this]
    | a :: b :: c :: t =>
      have : 3 * (k + 1) = (3 * k) + 1 + 1 + 1 := by omega
      simp only [this, List.drop_succ_cons, codonsFrom]
      exact ih t

/-- **`translate (drop (f+3k) s) = drop k (translate f s)`**: reading from nucleotide `f + 3k` yields the
frame-`f` translation without its first `k` residues -/
theorem translate_drop (code : List (List Byte × Byte)) (s : Seq) (f k : Nat) :
    codonsFrom code (s.drop (f + 3 * k)) = (codonsFrom code (s.drop f)).drop k := by
  rw [← codonsFrom_drop3 code k (s.drop f), List.drop_drop]

private theorem codonsFrom_take3 (code : List (List Byte × Byte)) :
    ∀ (m : Nat) (s : Seq), codonsFrom code (s.take (3 * m)) = (codonsFrom code s).take m := by
  intro m
  induction m with
  | zero => intro s; simp [codonsFrom]
  | succ m ih =>
    intro s
    match s with
    | [] => simp [codonsFrom]
    | [_] =>
      have : 3 * (m + 1) = (3 * m + 2) + 1 := by omega
      simp [codonsFrom, this]
    | [_, _] =>
      have : 3 * (m + 1) = (3 * m + 1) + 1 + 1 := by omega
      simp [codonsFrom, this]
    | a :: b :: c :: t =>
      have : 3 * (m + 1) = (3 * m) + 1 + 1 + 1 := by omega
      simp only [this, List.take_succ_cons, codonsFrom]
      rw [ih t]

private theorem codonsFrom_length (code : List (List Byte × Byte)) : ∀ (n : Nat) (s : Seq), s.length ≤ n →
    (codonsFrom code s).length = s.length / 3 := by
  intro n
  induction n with
  | zero => intro s h; cases s <;> simp_all [codonsFrom]
  | succ n ih =>
    intro s h
    match s with
    | [] => simp [codonsFrom]
    | [_] => simp [codonsFrom]
    | [_, _] => simp [codonsFrom]
    | a :: b :: c :: t =>
      simp only [codonsFrom, List.length_cons]
      rw [ih t (by simp at h; omega)]
      omega

private theorem take_min_length {α : Type} (l : List α) (n : Nat) : l.take (min n l.length) = l.take n := by
  cases Nat.le_total n l.length with
  | inl h => rw [Nat.min_eq_left h]
  | inr h => rw [Nat.min_eq_right h, List.take_of_length_le h, List.take_of_length_le (Nat.le_refl _)]

/-- translate mode: **the codon sequence translates to the reported amino acids** (with and without
cut-end), for any hit -/
theorem phase_codon_translates_to_aa (code : List (List Byte × Byte)) (tmp : Seq) (h : Hit) (cutend : Bool) :
    (assembleAA code tmp h cutend).aa = some (codonsFrom code (assembleAA code tmp h cutend).codon) ∧
    (assembleAA code tmp h cutend).codon = (assembleAA code tmp h cutend).nt := by
  refine ⟨?_, rfl⟩
  cases cutend with
  | false =>
    simp only [assembleAA, slice, Bool.false_eq_true, if_false]
    have e1 : (List.drop (h.frame + h.seqstart * 3) tmp).take (tmp.length - (h.frame + h.seqstart * 3)) =
        List.drop (h.frame + h.seqstart * 3) tmp := List.take_of_length_le (by simp)
    have e2 : ∀ l : Seq, (l.drop h.seqstart).take (l.length - h.seqstart) = l.drop h.seqstart :=
      fun l => List.take_of_length_le (by simp)
    rw [e1, e2, Nat.mul_comm h.seqstart 3, translate_drop]
  | true =>
    simp only [assembleAA, slice, if_true]
    have e : h.frame + (h.seqend + 1) * 3 - (h.frame + h.seqstart * 3) = 3 * (h.seqend + 1 - h.seqstart) := by
      omega
    rw [e, codonsFrom_take3, Nat.mul_comm h.seqstart 3, translate_drop]

/-- **the trimmed nucleotides are the substring of the strand the hit lies on (the input, or its reverse
complement when allowed) that starts at the reported position** — translate mode -/
theorem phase_nt_is_substring_at_position (code : List (List Byte × Byte)) (s : Seq) (h : Hit) (cutend : Bool) :
    let r := assembleAA code (strandOf s h) h cutend
    slice (strandOf s h) r.position (r.position + r.nt.length) = r.nt ∧
    (h.rev = false → strandOf s h = s) ∧ (h.rev = true → strandOf s h = revcompIgnoringError s) := by
  refine ⟨?_, fun hr => by simp [strandOf, hr], fun hr => by simp [strandOf, hr]⟩
  simp only [assembleAA, slice, List.length_take, Nat.add_sub_cancel_left]
  exact take_min_length _ _

/-- the same for the nucleotide mode -/
theorem phase_nt_is_substring_at_position_nt (code : List (List Byte × Byte)) (s : Seq) (h : Hit) (cutend : Bool) :
    let r := assembleNT code (strandOf s h) h cutend
    slice (strandOf s h) r.position (r.position + r.nt.length) = r.nt := by
  simp only [assembleNT, slice, List.length_take, Nat.add_sub_cancel_left]
  exact take_min_length _ _

private theorem bufferTranslate_zero (code : List (List Byte × Byte)) (x p : Seq)
    (h : bufferTranslate code 0 x = some p) : p = codonsFrom code x := by
  unfold bufferTranslate at h
  by_cases h1 : (detectAlphabetSeq x != NUCLEOTIDS && detectAlphabetSeq x != BOTH) = true
  · simp [h1] at h
  · by_cases h2 : x.length < 3 + 0
    · simp [h1, h2] at h
    · simp [h1, h2] at h
      exact h.symm

/-- nucleotide mode: **the codon sequence is in frame with the trimmed nucleotides** (it is the trimmed
sequence without its first 0–2 residues) and the amino acids, when reported, are its translation -/
theorem phase_nt_codon_in_frame (code : List (List Byte × Byte)) (tmp : Seq) (h : Hit) (cutend : Bool) :
    let r := assembleNT code tmp h cutend
    (∃ k, k < 3 ∧ r.codon = r.nt.drop k) ∧ (∀ p, r.aa = some p → p = codonsFrom code r.codon) := by
  refine ⟨⟨(3 - h.frame % 3) % 3, Nat.mod_lt _ (by omega), ?_⟩, ?_⟩
  · simp only [assembleNT, slice]
    rw [List.drop_take, List.drop_drop]
    congr 1
    omega
  · intro p hp
    exact bufferTranslate_zero code _ p hp

/-- a hit as the aligner reports it in translate mode: positions of the translated frame -/
def ValidHitAA (code : List (List Byte × Byte)) (tmp : Seq) (h : Hit) : Prop :=
  h.frame < 3 ∧ h.seqstart ≤ h.seqend ∧ h.seqend < (codonsFrom code (tmp.drop h.frame)).length

/-- **cut-end bounds**: for a valid hit every Go slice expression of `alignAgainstRefsAA` is in range
(`start ≤ end ≤ len`), the trimmed sequence ends inside the input, has a whole number of codons when cut, and
the amino-acid slice is in range too -/
theorem phase_cutend_bounds (code : List (List Byte × Byte)) (tmp : Seq) (h : Hit) (cutend : Bool)
    (hv : ValidHitAA code tmp h) :
    let bs := h.frame + h.seqstart * 3
    let be := if cutend then h.frame + (h.seqend + 1) * 3 else tmp.length
    let seqaa := codonsFrom code (tmp.drop h.frame)
    let bea := if cutend then h.seqend + 1 else seqaa.length
    bs ≤ be ∧ be ≤ tmp.length ∧ h.seqstart ≤ bea ∧ bea ≤ seqaa.length ∧
    (assembleAA code tmp h cutend).nt.length = be - bs ∧
    (cutend = true → (assembleAA code tmp h cutend).nt.length = 3 * (h.seqend + 1 - h.seqstart)) := by
  obtain ⟨hf, hse, hlen⟩ := hv
  have hl := codonsFrom_length code _ (tmp.drop h.frame) (Nat.le_refl _)
  rw [hl] at hlen
  simp only [List.length_drop] at hlen hl
  have h3 : 3 * (h.seqend + 1) ≤ tmp.length - h.frame := by
    have := Nat.div_mul_le_self (tmp.length - h.frame) 3
    omega
  cases cutend with
  | true =>
    simp only [if_true, assembleAA, slice, List.length_take, List.length_drop]
    rw [hl]
    refine ⟨by omega, by omega, by omega, by omega, by omega, fun _ => by omega⟩
  | false =>
    simp only [Bool.false_eq_true, if_false, assembleAA, slice, List.length_take, List.length_drop]
    rw [hl]
    refine ⟨by omega, by omega, by omega, by omega, by omega, fun h => by simp at h⟩

/-! ## the reference: longest open reading frame -/

private def olen (o : Nat × Nat) : Nat := o.2 - o.1

private theorem pick_foldl : ∀ (ms : List (Nat × Nat)) (b : Option (Nat × Nat)),
    (∀ x, b = some x → ∃ y, ms.foldl pickStep b = some y ∧ olen x ≤ olen y) ∧
    (∀ o ∈ ms, ∃ y, ms.foldl pickStep b = some y ∧ olen o ≤ olen y) ∧
    (∀ y, ms.foldl pickStep b = some y → y ∈ ms ∨ b = some y) := by
  intro ms
  induction ms with
  | nil =>
    intro b
    refine ⟨fun x hx => ⟨x, by simpa using hx, Nat.le_refl _⟩, fun o ho => by simp at ho, fun y hy => Or.inr (by simpa using hy)⟩
  | cons m t ih =>
    intro b
    simp only [List.foldl_cons]
    cases b with
    | none =>
      obtain ⟨i1, i2, i3⟩ := ih (some m)
      refine ⟨fun x hx => by simp at hx, ?_, ?_⟩
      · intro o ho
        simp only [List.mem_cons] at ho
        cases ho with
        | inl e => subst e; exact i1 o rfl
        | inr e => exact i2 o e
      · intro y hy
        cases i3 y hy with
        | inl e => exact Or.inl (List.mem_cons_of_mem _ e)
        | inr e => simp at e; subst e; exact Or.inl (by simp)
    | some b0 =>
      by_cases hgt : m.2 - m.1 > b0.2 - b0.1
      · have hstep : pickStep (some b0) m = some m := by simp [pickStep, hgt]
        rw [hstep]
        obtain ⟨i1, i2, i3⟩ := ih (some m)
        refine ⟨?_, ?_, ?_⟩
        · intro x hx
          simp at hx; subst hx
          obtain ⟨y, hy, hle⟩ := i1 m rfl
          exact ⟨y, hy, by simp only [olen] at hle ⊢; omega⟩
        · intro o ho
          simp only [List.mem_cons] at ho
          cases ho with
          | inl e => subst e; exact i1 o rfl
          | inr e => exact i2 o e
        · intro y hy
          cases i3 y hy with
          | inl e => exact Or.inl (List.mem_cons_of_mem _ e)
          | inr e => simp at e; subst e; exact Or.inl (by simp)
      · have hstep : pickStep (some b0) m = some b0 := by simp [pickStep, hgt]
        rw [hstep]
        obtain ⟨i1, i2, i3⟩ := ih (some b0)
        refine ⟨?_, ?_, ?_⟩
        · intro x hx
          simp at hx; subst hx
          exact i1 b0 rfl
        · intro o ho
          simp only [List.mem_cons] at ho
          cases ho with
          | inl e =>
            subst e
            obtain ⟨y, hy, hle⟩ := i1 b0 rfl
            exact ⟨y, hy, by simp only [olen] at hle ⊢; omega⟩
          | inr e => exact i2 o e
        · intro y hy
          cases i3 y hy with
          | inl e => exact Or.inl (List.mem_cons_of_mem _ e)
          | inr e => exact Or.inr e

/-- the selection loop of `LongestORF` returns a member of the candidate list that no candidate exceeds -/
theorem pickLongest_max (ms : List (Nat × Nat)) (m : Nat × Nat) (h : pickLongest ms = some m) :
    m ∈ ms ∧ ∀ o ∈ ms, o.2 - o.1 ≤ m.2 - m.1 := by
  obtain ⟨_, i2, i3⟩ := pick_foldl ms none
  unfold pickLongest at h
  constructor
  · cases i3 m h with
    | inl e => exact e
    | inr e => simp at e
  · intro o ho
    obtain ⟨y, hy, hle⟩ := i2 o ho
    rw [h] at hy
    simp at hy; subst hy
    exact hle

/-- **a scan of every `ATG` returns a longest ATG-to-first-in-frame-stop frame**: no start position of the
sequence gives a longer one (this is the search of the proposed repair; the model uses it when the
regenerated fact says `LongestORF` does not use `regexp`) -/
theorem longestORF_scan_is_longest (s : Seq) (a b : Nat) (h : longestORFSeq none s = some (some (a, b))) :
    (a, b) ∈ allOrfs 0 (orfText s) ∧ ∀ o ∈ allOrfs 0 (orfText s), o.2 - o.1 ≤ b - a := by
  simp only [longestORFSeq, Option.some.injEq] at h
  exact pickLongest_max _ _ h

private theorem allOrfs_drop : ∀ (k pos : Nat) (s : Seq) (o : Nat × Nat),
    o ∈ allOrfs (pos + k) (s.drop k) → o ∈ allOrfs pos s := by
  intro k
  induction k with
  | zero => intro pos s o h; simpa using h
  | succ k ih =>
    intro pos s o h
    match s with
    | [] => simp [allOrfs] at h
    | a :: t =>
      have h' : o ∈ allOrfs (pos + 1 + k) (t.drop k) := by
        have e : pos + (k + 1) = pos + 1 + k := by omega
        simpa [e] using h
      have := ih (pos + 1) t o h'
      unfold allOrfs
      split
      · exact List.mem_cons_of_mem _ this
      · exact this

private theorem allMatches_sub : ∀ (fuel pos : Nat) (s : Seq) (o : Nat × Nat),
    o ∈ allMatches fuel pos s → o ∈ allOrfs pos s := by
  intro fuel
  induction fuel with
  | zero => intro pos s o h; simp [allMatches] at h
  | succ fuel ih =>
    intro pos s o h
    match s with
    | [] => simp [allMatches] at h
    | a :: t =>
      unfold allMatches at h
      unfold allOrfs
      cases hm : matchAt (a :: t) with
      | none =>
        simp only [hm] at h ⊢
        exact ih (pos + 1) t o h
      | some len =>
        simp only [hm, List.mem_cons] at h ⊢
        cases h with
        | inl e => exact Or.inl e
        | inr e =>
          right
          have h1 := ih (pos + len) ((a :: t).drop len) o e
          have h2 := allOrfs_drop len pos (a :: t) o h1
          -- o is an ORF of (a :: t) from pos; it is not the head one or it is: either way it is in the tail list
          -- unless it equals the head; handle through the definition
          unfold allOrfs at h2
          simp only [hm, List.mem_cons] at h2
          cases h2 with
          | inl e2 =>
            -- o = (pos, pos+len) would need a match starting at pos again: impossible since the rest starts at pos+len ≥ pos+1;
            -- but membership in the tail list is what we need, so derive it from h1 directly
            exfalso
            -- every element of allOrfs (pos+len) _ has first component ≥ pos+len
            have hge : ∀ (p : Nat) (u : Seq) (x : Nat × Nat), x ∈ allOrfs p u → p ≤ x.1 := by
              intro p u
              induction u generalizing p with
              | nil => intro x hx; simp [allOrfs] at hx
              | cons c v ihv =>
                intro x hx
                unfold allOrfs at hx
                split at hx
                · simp only [List.mem_cons] at hx
                  cases hx with
                  | inl e3 => subst e3; exact Nat.le_refl _
                  | inr e3 => have := ihv (p + 1) x e3; omega
                · have := ihv (p + 1) x hx; omega
            have := hge _ _ o h1
            rw [e2] at this
            simp only at this
            have hpos : 0 < len := by
              unfold matchAt at hm
              split at hm
              · simp at hm
                obtain ⟨v, _, hv⟩ := hm
                omega
              · simp at hm
            omega
          | inr e2 => exact e2

/-- the regular-expression search (the unchanged code) returns a genuine frame: an `ATG` followed by its
first in-frame stop — but see `longestORF_regex_not_longest` -/
theorem longestORF_regex_sound (s : Seq) (a b : Nat)
    (h : longestORFSeq (some theRegex) s = some (some (a, b))) : (a, b) ∈ allOrfs 0 (orfText s) := by
  simp only [longestORFSeq, BEq.rfl, if_true, Option.some.injEq] at h
  exact allMatches_sub _ _ _ _ (pickLongest_max _ _ h).1

/-- **the unchanged search does not return a longest frame**: on `GGATGTAATGAGATAA` the non-overlapping
matches give `(2, 8)` (`ATGTAA`) although the frame `(7, 16)` (`ATGAGATAA`) is longer.  This is the negation
of the property's clause "no input sequence contains a longer one" for the code as it is. -/
theorem longestORF_regex_not_longest :
    ∃ s : Seq, longestORFSeq (some theRegex) s = some (some (2, 8)) ∧ (7, 16) ∈ allOrfs 0 (orfText s) ∧
      longestORFSeq none s = some (some (7, 16)) :=
  ⟨[71, 71, 65, 84, 71, 84, 65, 65, 84, 71, 65, 71, 65, 84, 65, 65], by decide⟩

/-! ## the worker pool -/

open Gv.Model.Pool Gv.Proofs.PoolCore in
/-- **exactly one result per input sequence, for any worker count, capacity and schedule** (when no
alignment error occurs): after every maximal execution each input occurs among the results exactly as often
as among the inputs — once, for distinct inputs — and carries the sequential result -/
theorem pool_one_result_per_input {J V : Type} [DecidableEq J] (P : Params J V) (inputs : List J)
    (hnf : ∀ j ∈ inputs, P.fails j = false) (hcap : 0 < P.cap) (n : Nat) (hn : 0 < n) (c : Cfg J V)
    (hr : Reach P (init inputs n) c) (ht : Terminal P c) :
    (∀ x, (c.store.map Prod.fst).count x = inputs.count x) ∧
    (inputs.Nodup → ∀ x ∈ inputs, (c.store.map Prod.fst).count x = 1) ∧
    (∀ p ∈ c.store, p.2 = P.f p.1) := by
  obtain ⟨h1, _, h3, _⟩ := terminal_complete P inputs hnf hcap n hn c hr ht
  have hc := List.perm_iff_count.mp h1
  exact ⟨hc, fun hnd x hx => by rw [hc x, hnd.count]; simp [hx], h3⟩

open Gv.Model.Pool Gv.Proofs.PoolCore in
/-- **the result stream is always closed** — also when alignments fail — exactly once, after every worker
has returned, and nothing is sent afterwards (deferred `Done`: `doneOnFail`) -/
theorem pool_results_closed {J V : Type} [DecidableEq J] (P : Params J V) (inputs : List J)
    (hd : P.d.doneOnFail = true) (hcap : 0 < P.cap) (n : Nat) (hn : 0 < n) (c : Cfg J V)
    (hr : Reach P (init inputs n) c) :
    c.resClosed ≤ 1 ∧ (Terminal P c → c.resClosed = 1) ∧
    (c.resClosed = 1 → (∀ w, w < n → c.workers[w]? = some W.exited) ∧
      ∀ l c', step? P c l = some c' → c'.store = c.store) := by
  obtain ⟨h1, h2⟩ := closed_after_workers P inputs n hn c hr
  refine ⟨h1, fun ht => (terminal_shape P inputs (Or.inl hd) hcap n hn c hr ht).2.2.2.2.2.2, ?_⟩
  intro hc
  exact ⟨h2 hc, fun l c' hs => (no_store_after_close P inputs n hn c c' l hr hc hs).1⟩

open Gv.Model.Pool Gv.Proofs.PoolCore in
/-- **the set of results does not depend on the number of workers or their scheduling** -/
theorem pool_schedule_independent {J V : Type} [DecidableEq J] (f : J → V) (fails : J → Bool)
    (inputs : List J) (hnf : ∀ j ∈ inputs, fails j = false) (cap₁ cap₂ n₁ n₂ : Nat) (d₁ d₂ : Discipline)
    (hc₁ : 0 < cap₁) (hc₂ : 0 < cap₂) (hn₁ : 0 < n₁) (hn₂ : 0 < n₂) (c₁ c₂ : Cfg J V)
    (hr₁ : Reach ⟨f, fails, cap₁, d₁⟩ (init inputs n₁) c₁) (ht₁ : Terminal ⟨f, fails, cap₁, d₁⟩ c₁)
    (hr₂ : Reach ⟨f, fails, cap₂, d₂⟩ (init inputs n₂) c₂) (ht₂ : Terminal ⟨f, fails, cap₂, d₂⟩ c₂) :
    c₁.store.Perm c₂.store ∧ c₁.store.Perm (seqStore f inputs) := by
  have s₁ := terminal_store_perm ⟨f, fails, cap₁, d₁⟩ inputs hnf hc₁ n₁ hn₁ c₁ hr₁ ht₁
  have s₂ := terminal_store_perm ⟨f, fails, cap₂, d₂⟩ inputs hnf hc₂ n₂ hn₂ c₂ hr₂ ht₂
  exact ⟨s₁.trans s₂.symm, s₁⟩

/-! ## what the checks over the T3 facts give -/

open Gv.Model.Facts in
/-- `inputsUnmodified calls = true`: every call of a mutating `Sequence` method in the phasing functions has a
receiver that was last assigned from `Clone()` (a fresh copy), so no input sequence is written -/
theorem phase_inputs_unmodified (calls : List MutCall) (h : inputsUnmodified calls = true) :
    ∀ c ∈ calls, c.fresh = true := by
  simpa [inputsUnmodified] using h

open Gv.Model.Facts Gv.Model.Pool Gv.Proofs.PoolCore in
/-- a function that passes `instanceOfPool` closes its result stream on every maximal execution -/
theorem instanceOfPool_closes_results {J V : Type} [DecidableEq J] (F : Facts) (h : instanceOfPool F = true)
    (f : J → V) (fails : J → Bool) (cap : Nat) (hcap : 0 < cap) (inputs : List J) (n : Nat) (hn : 0 < n)
    (c : Cfg J V) (hr : Reach ⟨f, fails, cap, disciplineOf F⟩ (init inputs n) c)
    (ht : Terminal ⟨f, fails, cap, disciplineOf F⟩ c) : c.resClosed = 1 ∧ c.waited = true := by
  have hd : (disciplineOf F).doneOnFail = true := by
    simp only [instanceOfPool, poolRules, List.all_cons, List.all_nil, Bool.and_true, Bool.and_eq_true] at h
    obtain ⟨_, _, _, _, _, _, _, hdone, _⟩ := h
    simpa [disciplineOf, Facts.workersDone] using hdone
  have := terminal_shape ⟨f, fails, cap, disciplineOf F⟩ inputs (Or.inl hd) hcap n hn c hr ht
  exact ⟨this.2.2.2.2.2.2, this.2.2.2.2.2.1⟩

/-! ## the aligner behind phasing: a verbatim occurrence of the reference -/

section verbatim
open Gv.Model.SW Gv.Model.PhaseAlign Gv.Proofs.PhaseAlignSpec Gv.Proofs.PhaseAlign Gv.Proofs.PhaseAlignNT
open Gv.Proofs.PhaseAlignMulti (pairs strand)
open Gv.Props.C09 (schemeOf)

/-- **the `ALIGN_ALGO_ATG` aligner returns a verbatim occurrence as it is** (repaired `fillMatrix_SW`).
Hypotheses beyond the property (hence `_partial`): gap penalties `gapopen ≤ gapextend < 0`; the scoring scheme
is diagonally dominant on the residues involved (`Dom`: a residue of the reference scores positively against
itself and strictly less against any other residue of the sequence); the reference is non-empty and is a prefix
of no other suffix of the sequence.  Conclusion: unless `Alignment()` reports an error, both returned rows are
the reference, without gap or mismatch, the positions are those of the occurrence and the score is the
reference's self-score.  Proved from the C09 lemmas about the repaired fill (`cellR_brute`: every cell holds the
optimum over the alignments ending there; `brute_upper` / `brute_attained`). -/
theorem atg_verbatim_aligned_at_occurrence_partial (a : Aligner) (orf pre post : Seq)
    (hgap : a.gapopen ≤ a.gapextend ∧ a.gapextend < 0) (hne : orf ≠ [])
    (hdom : Dom (schemeOf a) orf (pre ++ orf ++ post))
    (honce : ∀ k, orf <+: (pre ++ orf ++ post).drop k → k = pre.length) :
    alignATG a true orf (pre ++ orf ++ post) = AtgOutcome.err ∨
    alignATG a true orf (pre ++ orf ++ post) = AtgOutcome.ok
      { score := W (schemeOf a) orf, start1 := 0, start2 := pre.length,
        end1 := (orf.length : Int) - 1, end2 := (pre.length : Int) + orf.length - 1,
        length := orf.length, nmatch := orf.length, nmismatch := 0, ngaps := 0,
        row1 := orf, row2 := orf } :=
  alignATG_verbatim a orf pre post hgap hne hdom honce

/-- **a sequence that contains the reference ORF verbatim once is trimmed exactly at that ORF's start**
— nucleotide mode (`alignAgainstRefsNT`), one reference, under the hypotheses of
`atg_verbatim_aligned_at_occurrence_partial` (and no gap character in the reference); when both strands are
searched (`reverse`), also: the scheme used for the reverse-complemented copy is dominant there and gives the
reference no greater self-score.  Unless an alignment error is reported, the reported position is the offset of
the occurrence, the trimmed nucleotides start with the reference (and are the reference when the end is cut),
the codon sequence is the trimmed sequence (frame 0), and the hit is on the forward strand. -/
theorem phase_nt_verbatim_trimmed_at_orf_start_partial (c : NTCfg) (code : List (List Byte × Byte))
    (orf pre post : Seq) (hfix : c.fixed = true)
    (hgap : c.gapopen ≤ c.gapextend ∧ c.gapextend < 0) (hne : orf ≠ []) (hng : GAP ∉ orf)
    (hdom : Dom (schemeOf (c.aligner orf (pre ++ orf ++ post))) orf (pre ++ orf ++ post))
    (honce : ∀ k, orf <+: (pre ++ orf ++ post).drop k → k = pre.length)
    (hrev : c.reverse = true →
      Dom (schemeOf (c.aligner orf (revcompIgnoringError (pre ++ orf ++ post)))) orf
          (revcompIgnoringError (pre ++ orf ++ post)) ∧
        W (schemeOf (c.aligner orf (revcompIgnoringError (pre ++ orf ++ post)))) orf
          ≤ W (schemeOf (c.aligner orf (pre ++ orf ++ post))) orf) :
    phaseNT c code [orf] (pre ++ orf ++ post) = NTOut.err ∨
    ∃ p, phaseNT c code [orf] (pre ++ orf ++ post)
        = NTOut.ok p ⟨false, 0, pre.length, pre.length + orf.length - 1⟩ ∧
      p.position = pre.length ∧ p.nt = (if c.cutend then orf else orf ++ post) ∧ p.codon = p.nt :=
  phaseNT_verbatim c code orf pre post hfix hgap hne hng hdom honce hrev

/-- instance: `SetAlignScores(match, mismatch)` with `0 < match`, `mismatch < match` — any residues, one or
both strands -/
theorem phase_nt_verbatim_trimmed_matchmismatch_partial (c : NTCfg) (code : List (List Byte × Byte))
    (orf pre post : Seq) (mt mm : Int) (hsc : c.scores = some (mt, mm)) (hpos : 0 < mt) (hlt : mm < mt)
    (hfix : c.fixed = true)
    (hgap : c.gapopen ≤ c.gapextend ∧ c.gapextend < 0) (hne : orf ≠ []) (hng : GAP ∉ orf)
    (honce : ∀ k, orf <+: (pre ++ orf ++ post).drop k → k = pre.length) :
    phaseNT c code [orf] (pre ++ orf ++ post) = NTOut.err ∨
    ∃ p, phaseNT c code [orf] (pre ++ orf ++ post)
        = NTOut.ok p ⟨false, 0, pre.length, pre.length + orf.length - 1⟩ ∧
      p.position = pre.length ∧ p.nt = (if c.cutend then orf else orf ++ post) ∧ p.codon = p.nt :=
  phaseNT_verbatim c code orf pre post hfix hgap hne hng
    (dom_of_scores c orf _ mt mm hsc hpos hlt _ _) honce
    (fun _ => ⟨dom_of_scores c orf _ mt mm hsc hpos hlt _ _,
      Int.le_of_eq (by rw [scheme_of_scores_eq c orf _ (pre ++ orf ++ post) mt mm hsc])⟩)

/-- instance: the phaser's default scoring (DNAfull chosen by `NewPwAligner`) on upper-case `A`, `C`, `G`, `T`
sequences, forward strand -/
theorem phase_nt_verbatim_trimmed_default_acgt_partial (c : NTCfg) (code : List (List Byte × Byte))
    (orf pre post : Seq) (hsc : c.scores = none) (ha : c.alphaFixed = true) (hden : 0 < c.den)
    (h1 : ∀ x ∈ orf, x ∈ ([65, 67, 71, 84] : List Byte))
    (h2 : ∀ y ∈ pre ++ orf ++ post, y ∈ ([65, 67, 71, 84] : List Byte))
    (hfix : c.fixed = true) (hrev : c.reverse = false)
    (hgap : c.gapopen ≤ c.gapextend ∧ c.gapextend < 0) (hne : orf ≠ [])
    (honce : ∀ k, orf <+: (pre ++ orf ++ post).drop k → k = pre.length) :
    phaseNT c code [orf] (pre ++ orf ++ post) = NTOut.err ∨
    ∃ p, phaseNT c code [orf] (pre ++ orf ++ post)
        = NTOut.ok p ⟨false, 0, pre.length, pre.length + orf.length - 1⟩ ∧
      p.position = pre.length ∧ p.nt = (if c.cutend then orf else orf ++ post) ∧ p.codon = p.nt := by
  obtain ⟨hm, hc, hd⟩ := aligner_default_dna c hsc ha orf (pre ++ orf ++ post) h1 h2
  have hng : GAP ∉ orf := fun h => by have := h1 _ h; revert this; decide
  exact phaseNT_verbatim c code orf pre post hfix hgap hne hng
    (dom_dnafull _ (by rw [hd]; exact hden) hm hc _ _ h1 h2) honce (fun h => by rw [hrev] at h; cases h)

/-- the premise "occurs exactly once" can be discharged by evaluating the oracle's search -/
theorem once_of_occurrences (orf seq : Seq) (p : Nat) (hne : orf ≠ []) (h : occurrences orf seq = [p]) :
    ∀ k, orf <+: seq.drop k → k = p :=
  Gv.Proofs.PhaseAlignNT.once_of_occurrences orf seq p hne h

set_option maxRecDepth 100000 in
/-- the hypotheses are satisfiable, and the conclusion is the non-error disjunct: default settings,
`ATGAAATAA` inside `CC…CC` -/
example :
    (∀ k, ([65, 84, 71, 65, 65, 65, 84, 65, 65] : Seq) <+:
        (([67, 67] : Seq) ++ [65, 84, 71, 65, 65, 65, 84, 65, 65] ++ [67, 67]).drop k → k = 2) ∧
    phaseNT {} Gen.standardcode [[65, 84, 71, 65, 65, 65, 84, 65, 65]]
        (([67, 67] : Seq) ++ [65, 84, 71, 65, 65, 65, 84, 65, 65] ++ [67, 67]) =
      NTOut.ok ⟨2, [65, 84, 71, 65, 65, 65, 84, 65, 65, 67, 67], [65, 84, 71, 65, 65, 65, 84, 65, 65, 67, 67],
        some [77, 75, 42]⟩ ⟨false, 0, 2, 10⟩ :=
  ⟨once_of_occurrences _ _ 2 (by decide) (by decide), by decide⟩

/-! ### several references, occurrence on either strand -/

/-- the order in which `alignAgainstRefsNT` tries its (reference, strand) pairs — `Gv.Proofs.PhaseAlignMulti.pairs`:
for each reference the forward strand (`false`), then with `reverse` the reverse-complemented copy (`true`);
`strand seq v` is the copy of the sequence the flag stands for.  `ntSelect`, the model's two nested loops, is one
pass of `ntStep` over that list (`Gv.Proofs.PhaseAlignMulti.ntSelect_eq_fold`). -/
theorem phase_nt_pairs_order (c : NTCfg) (r : Seq) (rest : List Seq) (seq : Seq) :
    pairs c [] = [] ∧
    pairs c (r :: rest) = (if c.reverse then [(r, false), (r, true)] else [(r, false)]) ++ pairs c rest ∧
    strand seq false = seq ∧ strand seq true = revcompIgnoringError seq := by
  refine ⟨rfl, ?_, rfl, rfl⟩
  simp [pairs, List.flatMap_cons]

/-- **the verbatim clause for SEVERAL references and an occurrence on EITHER strand** — nucleotide mode
(`alignAgainstRefsNT`), repaired aligner.  Let `pairs c orfs` be the (reference, strand) pairs in the order they are
tried.  Suppose the pair `(r, v)` at index `k` satisfies the single-reference premise of
`phase_nt_verbatim_trimmed_at_orf_start_partial` on its own strand `t = strand seq v`: gap penalties
`gapopen ≤ gapextend < 0`, `r` non-empty and without gap character, the scheme used for `(r, t)` diagonally
dominant, `r` occurs in `t` at offset `p` and at no other offset; and every other pair `(r', v')` at index `j` is
diagonally dominant on its strand with self-score `W … r' ≤ W … r` when `k < j` (tried later: a tie keeps the
earlier hit) and, when `j < k` (tried earlier: it must not reach the verbatim score), `W … r' < W … r` — or,
weaker than the informal statement asks, `W … r' ≤ W … r` and `r'` occurs nowhere on its strand (needed to apply
the theorem to an occurrence on the reverse strand at all: the same reference is tried on the forward strand
first, with the same self-score under match/mismatch scoring; `alignATG_score_lt`).  Hypothesis
BEYOND the informal statement, for the pairs tried EARLIER only: their strand holds no gap character `-` — without
it the statement is false (the reference `-` against a sequence containing `-` scores positively with an aligned
row `-`, on which the phaser's `for Seq2Ali()[i] == '-'` loop runs off the slice: `NTOut.panic`); with it the
aligned row always holds a residue (`alignATG_row2_has_residue`).
Conclusion: unless an alignment error is reported, the result is the occurrence — reported position `p`, trimmed
nucleotides `t.drop p` (`r` with cut-end), codon sequence = trimmed sequence (frame 0), and the hit is on the
strand `v` (`rev = v`).  Proved by induction over the list of pairs (`Gv.Proofs.PhaseAlignMulti`): before index
`k` the running best stays `< W … r` (`alignATG_score_le`), at `k` it becomes the occurrence (`alignATG_verbatim`),
afterwards no score is strictly greater. -/
theorem phase_nt_verbatim_multi_partial (c : NTCfg) (code : List (List Byte × Byte)) (orfs : List Seq) (seq : Seq)
    (k : Nat) (r : Seq) (v : Bool) (p : Nat)
    (hfix : c.fixed = true) (hgap : c.gapopen ≤ c.gapextend ∧ c.gapextend < 0)
    (hk : (pairs c orfs)[k]? = some (r, v))
    (hne : r ≠ []) (hng : GAP ∉ r)
    (hdom : Dom (schemeOf (c.aligner r (strand seq v))) r (strand seq v))
    (hocc : r <+: (strand seq v).drop p)
    (honce : ∀ q, r <+: (strand seq v).drop q → q = p)
    (hothers : ∀ j r' v', (pairs c orfs)[j]? = some (r', v') → j ≠ k →
      Dom (schemeOf (c.aligner r' (strand seq v'))) r' (strand seq v') ∧
      (j < k → GAP ∉ strand seq v' ∧
        (W (schemeOf (c.aligner r' (strand seq v'))) r' < W (schemeOf (c.aligner r (strand seq v))) r ∨
          (W (schemeOf (c.aligner r' (strand seq v'))) r' ≤ W (schemeOf (c.aligner r (strand seq v))) r ∧
            ∀ q, ¬ r' <+: (strand seq v').drop q))) ∧
      (k < j → W (schemeOf (c.aligner r' (strand seq v'))) r' ≤ W (schemeOf (c.aligner r (strand seq v))) r)) :
    phaseNT c code orfs seq = NTOut.err ∨
    ∃ ph, phaseNT c code orfs seq = NTOut.ok ph ⟨v, 0, p, p + r.length - 1⟩ ∧
      ph.position = p ∧ ph.nt = (if c.cutend then r else (strand seq v).drop p) ∧ ph.codon = ph.nt :=
  Gv.Proofs.PhaseAlignMulti.phaseNT_verbatim_multi c code orfs seq k r v p hfix hgap hk hne hng hdom hocc honce
    hothers

/-- both strands, `SetAlignScores(2, -1)` -/
private def exCfg : NTCfg := { reverse := true, scores := some (2, -1) }
/-- `ATGTAA` -/
private def exRef1 : Seq := [65, 84, 71, 84, 65, 65]
/-- `ATGAAATAA` -/
private def exRef2 : Seq := [65, 84, 71, 65, 65, 65, 84, 65, 65]
/-- `GGTTATTTCATGG`, the reverse complement of `CC ATGAAATAA CC` -/
private def exSeq : Seq := [71, 71, 84, 84, 65, 84, 84, 84, 67, 65, 84, 71, 71]

set_option maxRecDepth 100000 in
/-- the hypotheses are satisfiable on a two-reference input with the occurrence on the REVERSE strand (`ATGTAA`,
`ATGAAATAA` against `GGTTATTTCATGG`; pairs tried: `(ATGTAA, +)`, `(ATGTAA, -)`, `(ATGAAATAA, +)`, `(ATGAAATAA, -)`,
the verbatim one is the last: `k = 3`, offset 2 of the reverse-complemented copy), and the conclusion is the
non-error disjunct -/
example :
    -- the premises of `phase_nt_verbatim_multi_partial` for `k = 3`, `(r, v) = (exRef2, true)`, `p = 2` …
    (exCfg.fixed = true ∧ (exCfg.gapopen ≤ exCfg.gapextend ∧ exCfg.gapextend < 0) ∧
      (pairs exCfg [exRef1, exRef2])[3]? = some (exRef2, true) ∧ exRef2 ≠ [] ∧ GAP ∉ exRef2 ∧
      Dom (schemeOf (exCfg.aligner exRef2 (strand exSeq true))) exRef2 (strand exSeq true) ∧
      exRef2 <+: (strand exSeq true).drop 2 ∧
      (∀ q, exRef2 <+: (strand exSeq true).drop q → q = 2) ∧
      (∀ j r' v', (pairs exCfg [exRef1, exRef2])[j]? = some (r', v') → j ≠ 3 →
        Dom (schemeOf (exCfg.aligner r' (strand exSeq v'))) r' (strand exSeq v') ∧
        (j < 3 → GAP ∉ strand exSeq v' ∧
          (W (schemeOf (exCfg.aligner r' (strand exSeq v'))) r'
              < W (schemeOf (exCfg.aligner exRef2 (strand exSeq true))) exRef2 ∨
            (W (schemeOf (exCfg.aligner r' (strand exSeq v'))) r'
              ≤ W (schemeOf (exCfg.aligner exRef2 (strand exSeq true))) exRef2 ∧
              ∀ q, ¬ r' <+: (strand exSeq v').drop q))) ∧
        (3 < j → W (schemeOf (exCfg.aligner r' (strand exSeq v'))) r'
            ≤ W (schemeOf (exCfg.aligner exRef2 (strand exSeq true))) exRef2))) ∧
    -- … and the conclusion is the non-error disjunct: the hit is on the reverse-complemented copy
    phaseNT exCfg Gen.standardcode [exRef1, exRef2] exSeq =
      NTOut.ok ⟨2, [65, 84, 71, 65, 65, 65, 84, 65, 65, 67, 67], [65, 84, 71, 65, 65, 65, 84, 65, 65, 67, 67],
        some [77, 75, 42]⟩ ⟨true, 0, 2, 10⟩ := by
  have hp : pairs exCfg [exRef1, exRef2] =
      [(exRef1, false), (exRef1, true), (exRef2, false), (exRef2, true)] := by decide
  have hd : ∀ r' t s u, Dom (schemeOf (exCfg.aligner r' t)) s u :=
    fun r' t s u => dom_of_scores exCfg r' t 2 (-1) rfl (by decide) (by decide) s u
  -- "occurs nowhere" from the executable search
  have hnone : ∀ (r' t : Seq), r' ≠ [] → occurrences r' t = [] → ∀ q, ¬ r' <+: t.drop q := by
    intro r' t hne hocc q hq
    obtain ⟨post, hpost⟩ := hq
    have hlen : r'.length + post.length = t.length - q := by
      have := congrArg List.length hpost; simpa using this
    have hm : 0 < r'.length := List.length_pos_iff.mpr hne
    have hmem : q ∈ occurrences r' t := by
      simp only [occurrences, List.mem_filter, List.mem_range, occursAt, Bool.and_eq_true, decide_eq_true_eq,
        beq_iff_eq]
      refine ⟨by omega, by omega, ?_⟩
      simp only [Phase.slice, Nat.add_sub_cancel_left, ← hpost, List.take_left]
    rw [hocc] at hmem
    cases hmem
  refine ⟨⟨rfl, by decide, by decide, by decide, by decide, hd _ _ _ _, by decide,
    once_of_occurrences _ _ 2 (by decide) (by decide), ?_⟩, by decide⟩
  intro j r' v' hj hjk
  rw [hp] at hj
  refine ⟨hd _ _ _ _, ?_⟩
  match j, hj, hjk with
  | 0, hj, _ =>
    simp only [List.getElem?_cons_zero, Option.some.injEq, Prod.mk.injEq] at hj
    obtain ⟨rfl, rfl⟩ := hj
    exact ⟨fun _ => ⟨by decide, Or.inl (by decide)⟩, fun h => absurd h (by decide)⟩
  | 1, hj, _ =>
    simp only [List.getElem?_cons_succ, List.getElem?_cons_zero, Option.some.injEq, Prod.mk.injEq] at hj
    obtain ⟨rfl, rfl⟩ := hj
    exact ⟨fun _ => ⟨by decide, Or.inl (by decide)⟩, fun h => absurd h (by decide)⟩
  | 2, hj, _ =>
    -- the same reference on the forward strand: equal self-score, but it does not occur there
    simp only [List.getElem?_cons_succ, List.getElem?_cons_zero, Option.some.injEq, Prod.mk.injEq] at hj
    obtain ⟨rfl, rfl⟩ := hj
    exact ⟨fun _ => ⟨by decide, Or.inr ⟨by decide, hnone _ _ (by decide) (by decide)⟩⟩,
      fun h => absurd h (by decide)⟩
  | 3, _, hjk => exact absurd rfl hjk
  | j + 4, hj, _ => simp at hj

/-! ### no positive alignment, and a hit shorter than its frame shift

Before `proposed_fixes/c16-phaser-no-positive-alignment.diff` / `c16-phaser-frame-shift-bounds.diff` both were
run-time panics of the worker goroutine (nil dereference of `bestseq`; slice `[2:1]`).  The model mirrors the
repaired code. -/

/-- **a sequence that no reference aligns to with a positive score comes back as a removed result carrying the
untrimmed input** (position 0, nucleotides = codons = the input, no amino acids) — for all settings, references
and sequences: this is the only way `phaseNT` produces a removed result -/
theorem phase_nt_removed_is_untrimmed_input (c : NTCfg) (code : List (List Byte × Byte)) (orfs : List Seq)
    (seq : Seq) (p : Phased) (h : phaseNT c code orfs seq = NTOut.removed p) :
    p = ⟨0, seq, seq, some []⟩ := by
  simp only [phaseNT] at h
  split at h
  · simp at h
  · simp at h
  · split at h
    · simp only [NTOut.removed.injEq, noHit] at h; exact h.symm
    · repeat' split at h
      all_goals simp at h

set_option maxRecDepth 100000 in
/-- `ATG` against `CC`, default settings: no alignment anchored at the reference's start scores above 0; the
result is removed (the unrepaired code dereferenced the nil `bestseq`) -/
theorem phase_nt_without_positive_alignment_is_removed :
    phaseNT {} Gen.standardcode [[65, 84, 71]] [67, 67] = NTOut.removed ⟨0, [67, 67], [67, 67], some []⟩ := by
  decide

set_option maxRecDepth 100000 in
/-- `ATG` against `T` with `--gap-open -1`: the alignment `AT` / `-T` has one leading gap, so `phase = 2` exceeds
the one trimmed nucleotide; the codon sequence is empty and its translation is refused — an error is reported
(`aa = none`), as for every codon sequence shorter than a codon (the unrepaired code sliced `[2:1]`) -/
theorem phase_nt_hit_shorter_than_frame_shift_reports_error :
    phaseNT { gapopen := -2 } Gen.standardcode [[65, 84, 71]] [84] =
      NTOut.ok ⟨0, [84], [], none⟩ ⟨false, 1, 0, 0⟩ := by decide

/-- the repaired `ALIGN_ALGO_ATG` aligner never panics (index out of range), for all sequences and scores -/
theorem atg_aligner_never_panics (a : Aligner) (s1 s2 : Seq) : alignATG a true s1 s2 ≠ AtgOutcome.panic :=
  alignATG_never_panics a s1 s2

end verbatim

/-! ## the translate mode: `alignAgainstRefsAA` (selection loop + assembly)

`phaseAA c code orfsaa seq` is the complete model of `alignAgainstRefsAA` (`Gv.Model.PhaseAlign`): for every
reference protein and every reading frame (forward 0, 1, 2, then with `reverse` the three frames of the
reverse-complemented copy) the frame is translated, the reference is aligned against the translation with the
`ALIGN_ALGO_ATG` aligner, the first strictly best score wins, and the hit's amino-acid positions are converted to
nucleotide positions.  The theorems below hold for ALL settings, references and sequences. -/

section translate
open Gv.Model.PhaseAlign Gv.Proofs.PhaseAlignAA

/-- **the only removed result of the translate mode is the untrimmed input** (position 0, nucleotides = codons = the
input, no amino acids): `phaseAA` yields `removed` only through `noHitPhasedSequence`, i.e. when no frame of no strand
aligns to any reference with a positive score -/
theorem phase_aa_removed_is_untrimmed_input (c : NTCfg) (code : List (List Byte × Byte)) (orfsaa : List Seq)
    (seq : Seq) (p : Phased) (h : phaseAA c code orfsaa seq = NTOut.removed p) :
    p = ⟨0, seq, seq, some []⟩ :=
  (phaseAA_removed c code orfsaa seq p h).1

/-- **`alignAgainstRefsAA` on top of the repaired aligner never panics**: the aligner does not index out of range
(`atg_aligner_never_panics`) and each of the four slice expressions `[beststart:bestend]` (twice), `[beststartaa:bestendaa]`
is in range, because the aligner's positions lie inside the translated frame (`alignATG_ok_bounds`) and a frame of
`n` nucleotides translates to `n / 3` residues — for all settings, references and sequences -/
theorem phase_aa_never_panics (c : NTCfg) (hfix : c.fixed = true) (code : List (List Byte × Byte))
    (orfsaa : List Seq) (seq : Seq) : phaseAA c code orfsaa seq ≠ NTOut.panic :=
  phaseAA_no_panic c code orfsaa seq hfix

/-- the same for `Phase()` on nucleotide references (translated in frame 0 first) -/
theorem phase_aa_of_refs_never_panics (c : NTCfg) (hfix : c.fixed = true) (code : List (List Byte × Byte))
    (alphabet : Nat) (refs : List Seq) (seq : Seq) : phaseAAOfRefs c code alphabet refs seq ≠ some NTOut.panic := by
  unfold phaseAAOfRefs
  cases phaseRefsAA code alphabet refs with
  | none => simp
  | some orfsaa =>
    simp only [Option.map_some, ne_eq, Option.some.injEq]
    exact phaseAA_no_panic c code orfsaa seq hfix

/-- **every kept result of the translate mode: the trimmed nucleotides are the substring of the chosen strand that
starts at the reported position** — the strand is the input, or (only when both strands are searched) its
reverse-complemented copy; the position is `frame + 3·seqstart` with `frame < 3`; the substring ends inside the strand,
and at its very end unless the end is cut -/
theorem phase_aa_nt_is_substring_at_position (c : NTCfg) (code : List (List Byte × Byte)) (orfsaa : List Seq)
    (seq : Seq) (p : Phased) (h : Hit) (hp : phaseAA c code orfsaa seq = NTOut.ok p h) :
    slice (strandOf seq h) p.position (p.position + p.nt.length) = p.nt ∧
    (h.rev = false → strandOf seq h = seq) ∧
    (h.rev = true → strandOf seq h = revcompIgnoringError seq ∧ c.reverse = true) ∧
    h.frame < 3 ∧ p.position = h.frame + 3 * h.seqstart ∧
    p.position + p.nt.length ≤ (strandOf seq h).length ∧
    (c.cutend = false → p.position + p.nt.length = (strandOf seq h).length) := by
  obtain ⟨f1, f2, f3, _, f5, f6, _, f8, _⟩ := phaseAA_ok_facts c code orfsaa seq p h hp
  refine ⟨?_, fun hr => by simp [strandOf, hr], fun hr => ⟨by simp [strandOf, hr], f2 hr⟩, f1, f3, f5, f6⟩
  rcases f8 with rfl | ⟨_, hnt, _⟩
  · exact (phase_nt_is_substring_at_position code seq h c.cutend).1
  · rw [hnt]
    simp [slice]

/-- **every kept result of the translate mode: the codon sequence is the trimmed nucleotide sequence, and the reported
amino acids are exactly its frame-0 translation** — one residue per complete codon: the 1 or 2 nucleotides that may
follow the last complete codon (possible only without cut-end) stay in the nucleotide / codon sequences and have no
amino acid; with cut-end the trimmed sequence is a whole number of codons -/
theorem phase_aa_codon_translates_to_aa (c : NTCfg) (code : List (List Byte × Byte)) (orfsaa : List Seq)
    (seq : Seq) (p : Phased) (h : Hit) (hp : phaseAA c code orfsaa seq = NTOut.ok p h) :
    p.codon = p.nt ∧ p.aa = some (codonsFrom code p.codon) ∧ (c.cutend = true → p.nt.length % 3 = 0) := by
  obtain ⟨_, _, _, f4, _, _, f7, f8, _⟩ := phaseAA_ok_facts c code orfsaa seq p h hp
  refine ⟨f4, ?_, f7⟩
  rcases f8 with rfl | ⟨_, hnt, haa⟩
  · exact (phase_codon_translates_to_aa code (strandOf seq h) h c.cutend).1
  · rw [f4, hnt, haa]
    simp [codonsFrom]

/-- **with the repaired aligner every kept result IS `assembleAA` of a valid hit** (`ValidHitAA`: frame `0..2`,
`seqstart ≤ seqend < |translated frame|`), so `phase_cutend_bounds`, `phase_codon_translates_to_aa` and
`phase_nt_is_substring_at_position` apply to it as they stand: the repaired trace-back always aligns at least one
residue of the translation (it can leave the matrix through row 0 only by a diagonal step) -/
theorem phase_aa_ok_is_assembleAA (c : NTCfg) (hfix : c.fixed = true) (code : List (List Byte × Byte))
    (orfsaa : List Seq) (seq : Seq) (p : Phased) (h : Hit) (hp : phaseAA c code orfsaa seq = NTOut.ok p h) :
    p = assembleAA code (strandOf seq h) h c.cutend ∧ ValidHitAA code (strandOf seq h) h := by
  obtain ⟨f1, _, _, _, _, _, _, _, f9⟩ := phaseAA_ok_facts c code orfsaa seq p h hp
  obtain ⟨k1, k2, k3⟩ := f9 hfix
  exact ⟨k1, f1, k2, k3⟩

/-- `ATGAAACCCTAA` (translated by `Phase()` to `MKP*`) -/
private def aaRef : Seq := [65, 84, 71, 65, 65, 65, 67, 67, 67, 84, 65, 65]

set_option maxRecDepth 100000 in
/-- a hit in FRAME 1 of the forward strand: `C ATGAAACCCTAA CC`, default settings (BLOSUM62 chosen by `NewPwAligner`),
without and with cut-end -/
example :
    phaseAAOfRefs {} Gen.standardcode NUCLEOTIDS [aaRef] ([67] ++ aaRef ++ [67, 67]) =
      some (NTOut.ok ⟨1, aaRef ++ [67, 67], aaRef ++ [67, 67], some [77, 75, 80, 42]⟩ ⟨false, 1, 0, 3⟩) ∧
    phaseAAOfRefs { cutend := true } Gen.standardcode NUCLEOTIDS [aaRef] ([67] ++ aaRef ++ [67, 67]) =
      some (NTOut.ok ⟨1, aaRef, aaRef, some [77, 75, 80, 42]⟩ ⟨false, 1, 0, 3⟩) := by
  decide

set_option maxRecDepth 100000 in
/-- a hit on the REVERSE strand, frame 2: `GTTAGGGTTTCATGG` is the reverse complement of `CC ATGAAACCCTAA C` -/
example :
    phaseAAOfRefs { reverse := true } Gen.standardcode NUCLEOTIDS [aaRef]
        [71, 84, 84, 65, 71, 71, 71, 84, 84, 84, 67, 65, 84, 71, 71] =
      some (NTOut.ok ⟨2, aaRef ++ [67], aaRef ++ [67], some [77, 75, 80, 42]⟩ ⟨true, 2, 0, 3⟩) := by
  decide

set_option maxRecDepth 100000 in
/-- no frame scores above 0 (`MKP*` against the translations of `CCCCCC`… there `P` would match: take `GGGGGG`):
removed, untrimmed; a sequence of 4 nucleotides cannot be translated in frame 2: an error, after frames 0 and 1 were
aligned -/
example :
    phaseAAOfRefs {} Gen.standardcode NUCLEOTIDS [aaRef] [71, 71, 71, 71, 71, 71] =
      some (NTOut.removed ⟨0, [71, 71, 71, 71, 71, 71], [71, 71, 71, 71, 71, 71], some []⟩) ∧
    phaseAAOfRefs {} Gen.standardcode NUCLEOTIDS [aaRef] [65, 84, 71, 65] = some NTOut.err ∧
    phaseAAOfRefs {} Gen.standardcode NUCLEOTIDS [[65, 84]] [65, 84, 71, 65, 65, 65] = none := by
  decide

end translate

/-! ## non-vacuity -/

/-- `ATGAAATAG` embedded at offset 2 of the forward strand, frame 2, aligned residues 0..2, cut-end -/
example : assembleAA Gen.standardcode [67, 67, 65, 84, 71, 65, 65, 65, 84, 65, 71, 67] ⟨false, 2, 0, 2⟩ true =
    ⟨2, [65, 84, 71, 65, 65, 65, 84, 65, 71], [65, 84, 71, 65, 65, 65, 84, 65, 71], some [77, 75, 42]⟩ := by
  decide

example : ValidHitAA Gen.standardcode [67, 67, 65, 84, 71, 65, 65, 65, 84, 65, 71, 67] ⟨false, 2, 0, 2⟩ := by
  unfold ValidHitAA; decide

end Gv.Props.C16
