import Gv.Spec.Bag
/-! # C01 (placeholder; theorems follow) -/
namespace Gv.Props.C01
end Gv.Props.C01
