import Gv.Proofs.BagNames
import Gv.Proofs.BagIdentical
/-!
# C01 — containers stay rectangular, uniquely named and index-consistent

Property theorems about the implementation-shaped model `Gv.Model.Bag` (ordered rows with pointer
ids + a separate name index + cached alignment length, `lean/Gv/Model/Bag.lean`), for operation
histories of **any** length:

* `step_inv` / `run_inv` — the weak representation invariant, also after caller-made name collisions;
* `step_rect` / `run_rect` / `rows_have_reported_length` — rectangularity (and the kernel-checked
  violation `translate_three_frames_not_rect` of the excluded case; `compress_empty_unchanged`);
* `step_names_nodup` / `run_names_nodup` — names stay pairwise distinct unless the caller edits names;
* `step_refines` / `run_refines` — refinement to the plain-list reference model `Gv.Spec.stepOp`, for
  all 39 operations of the history language (`Unalign`, `RenameRegexp`, `SetAlphabet`,
  `ReverseComplementSequences`, `DiffWithFirst`, `ReplaceMatchChars`, `Mask`, `MaskOccurences` / `MaskUnique`, the general
  `RemoveCharacterSites`, `RemoveMajorityCharacterSites` and `Replace` with a regular expression included);
* `lookup_paths_agree`, `idByName_spec`, `byName_found_iff`, `obs_*` — the access paths agree;
* `add_wrong_length_rejected` — a sequence of the wrong length is rejected, state unchanged;
* `diffWithFirst_agrees_with_row_model` / `replaceMatchChars_agrees_with_row_model` — the container-level
  `DiffWithFirst` / `ReplaceMatchChars` are the row-level models of property C04 on every rectangular alignment.

* `identical_iff_same_records` / `identical_eq_identicalRows` / `identicalRows_spec` / `identical_symm` / `identical_refl` — what
  `seqbag.Identical` (`goalign identical`) decides: on uniquely named containers, "the same (name, sequence) records in any
  order", bytes compared as they are; `identical_not_symmetric_with_repeated_names`: the one-sided loop shows when names repeat.

Helper developments: `Gv/Proofs/Bag*.lean`.
-/
namespace Gv.Props.C01
open Gv Gv.Model Gv.Proofs.BagInv Gv.Proofs.BagAbs

/-- side condition on an operation's *arguments* in a given state: a shuffle is resolved to a genuine
permutation of the current positions (this is what `rand.Perm`-style shuffling produces) -/
def OpWF (b : Bag) : Op → Prop
  | .permute perm => IsPerm perm b.rows.length
  | _ => True

/-- every step of the history satisfies its side condition in the state it is applied to -/
def HistWF : Bag → List Op → Prop
  | _, [] => True
  | b, op :: t => OpWF b op ∧ HistWF (stepOp b op).1 t

/-- **One step keeps the representation invariant** — for every operation of the history language,
with arbitrary arguments, *including* renames that make two rows share a name. -/
theorem step_inv (b : Bag) (h : Inv b) (op : Op) (hw : OpWF b op) : Inv (stepOp b op).1 := by
  cases op with
  | add n s => exact inv_addSeq b h n s
  | ignore p => exact h.congr rfl rfl rfl
  | clear => exact inv_clear b
  | append rows =>
    simp only [stepOp]
    split
    · exact h
    · split
      · exact h
      · exact inv_addAllStop _ _ h
  | concat rows =>
    simp only [stepOp]
    split
    · exact h
    · split
      · exact h
      · exact inv_concat _ _ _ _ h
  | rename m => exact inv_renameWith _ b h
  | appendId id right =>
    simp only [stepOp, appendIdentifier]
    split
    · exact h
    · exact inv_renameWith _ b h
  | cleanNames => exact inv_renameWith _ b h
  | trimNames size => exact inv_trimNames size b h
  | trimAuto cur => exact inv_trimNamesAuto cur b h
  | sort => exact inv_sortRows b h
  | permute perm => exact inv_permuteRows perm b h hw
  | filter mn mx => exact inv_filterLength mn mx b
  | dedup g => exact inv_deduplicate g b
  | rmSeqs c num den ic ig iN =>
    simp only [stepOp]
    split
    · exact h
    · split
      · exact h
      · rename_i r hr
        exact inv_removeCharacterSeqs _ _ _ _ _ _ r hr
  | translate ph code => exact inv_translateBag ph code b h
  | clone =>
    simp only [stepOp]
    split
    · exact h
    · exact inv_clone b
  | sample nb perm =>
    simp only [stepOp]
    split
    · exact h
    · rename_i s hs
      exact inv_sample nb perm b s hs
  | toUpper => exact inv_mapSeqs _ b h
  | toLower => exact inv_mapSeqs _ b h
  | replace old new => exact inv_replaceBag old new b h
  | setChar i j c => exact inv_setSequenceChar i j c b h
  | trimSeqs n fs =>
    simp only [stepOp]
    split
    · exact h
    · split
      · exact h
      · rename_i r hr
        exact inv_trimSequences n fs b h r hr
  | autoAlpha => exact h.congr rfl rfl rfl
  | revcomp => exact inv_reverseComplement b h
  | replaceChar name site c =>
    simp only [stepOp]
    split
    · exact h
    · split
      · exact h
      · rename_i r hr
        exact inv_replaceChar name site c b h r hr
  | rmGapSites num den ends =>
    simp only [stepOp]
    split
    · exact h
    · split
      · exact h
      · rename_i r hr
        exact inv_removeGapSites _ ends b h r hr
  | compress =>
    simp only [stepOp]
    split
    · exact h
    · split
      · exact h
      · split
        · exact h
        · rename_i r hr
          exact inv_compressBag b h r hr
  | unalign =>
    simp only [stepOp]
    split
    · exact h
    · exact inv_unalign b
  | renameRe ok names =>
    simp only [stepOp]
    split
    · exact h
    · exact inv_renameRegexp names b h
  | setAlpha a => exact inv_setAlphabet a b h
  | revcompSeqs names => exact inv_reverseComplementSequences names b h
  | diffFirst =>
    simp only [stepOp]
    split
    · exact h
    · split
      · exact h
      · rename_i r hr; exact (sameShape_diffWithFirst hr).inv h
  | replaceMatch =>
    simp only [stepOp]
    split
    · exact h
    · split
      · exact h
      · rename_i r hr; exact (sameShape_replaceMatchChars hr).inv h
  | mask refseq start len mr nogap noref =>
    simp only [stepOp]
    split
    · exact h
    · split
      · exact h
      · rename_i r hr; exact (sameShape_maskBag hr).inv h
  | maskOcc refseq maxOcc mr =>
    simp only [stepOp]
    split
    · exact h
    · split
      · exact h
      · rename_i r hr; exact (sameShape_maskOccBag hr).inv h
  | rmCharSites cs num den ends ic ig iN rev =>
    simp only [stepOp]
    split
    · exact h
    · split
      · exact h
      · rename_i r hr
        exact inv_cleanSitesBag (isCleanFn_char _ cs ends ic ig iN rev) b h r hr
  | rmMajSites num den ends ig iN =>
    simp only [stepOp]
    split
    · exact h
    · split
      · exact h
      · rename_i r hr
        exact inv_cleanSitesBag (isCleanFn_maj _ ends ig iN) b h r hr
  | replaceRe ok seqs =>
    simp only [stepOp]
    split
    · exact h
    · exact inv_replaceRegexBag seqs b h

/-- **Every reachable state satisfies the invariant**: induction over histories of any length, from
any state satisfying it (in particular from the empty containers). -/
theorem run_inv (ops : List Op) (b : Bag) (h : Inv b) (hw : HistWF b ops) : Inv (finalState b ops) := by
  induction ops generalizing b with
  | nil => exact h
  | cons op t ih =>
    simp only [finalState, List.foldl_cons]
    exact ih _ (step_inv b h op hw.1) hw.2

theorem inv_of_empty_bag (alphabet : Nat) : Inv (newBag alphabet) := inv_newBag alphabet
theorem inv_of_empty_align (alphabet : Nat) : Inv (newAlign alphabet) := inv_newAlign alphabet

/-! ## what the invariant buys: the access paths agree -/

/-- names pairwise distinct -/
def NamesNodup (b : Bag) : Prop := (b.rows.map (·.name)).Nodup

private theorem find_unique {rows : List Row} (hn : (rows.map (·.name)).Nodup) {r : Row} (hr : r ∈ rows) :
    rows.find? (fun x => x.name == r.name) = some r := by
  induction rows with
  | nil => simp at hr
  | cons x t ih =>
    simp only [List.map_cons, List.nodup_cons] at hn
    rcases List.mem_cons.mp hr with rfl | hr
    · simp
    · have hne : ¬ x.name = r.name := by
        intro e; exact hn.1 (e ▸ List.mem_map_of_mem (f := (·.name)) hr)
      have : (x.name == r.name) = false := by simpa using hne
      simp [List.find?_cons, this, ih hn.2 hr]

/-- **Lookup by name through the index = the row found by scanning the rows in order**, whenever
names are pairwise distinct: the index path (`GetSequence`, `GetSequenceChar`, `GetSequenceByName`,
`SequenceByName`) and iteration can never disagree. -/
theorem lookup_paths_agree (b : Bag) (h : Inv b) (hn : NamesNodup b) (n : String) :
    getByName b n = b.rows.find? (fun r => r.name == n) := by
  unfold getByName
  cases hl : idxLookup n b.index with
  | some i =>
    obtain ⟨r, hr, e1, e2⟩ := h.idx_sound n i hl
    subst e1; subst e2
    simp only [Option.bind_some]
    rw [deref_of_mem h.ids_nodup hr, find_unique hn hr]
  | none =>
    simp only [Option.bind_none]
    symm
    apply List.find?_eq_none.mpr
    intro r hr hc
    have := h.idx_complete r hr
    have e : r.name = n := by simpa using hc
    rw [e, hl] at this
    simp at this

private theorem idByNameAux_spec (n : String) (rows : List Row) (k : Nat) :
    idByNameAux n rows k = match rows.findIdx? (fun r => r.name == n) with
      | some i => ((k + i : Nat) : Int)
      | none => -1 := by
  induction rows generalizing k with
  | nil => simp [idByNameAux]
  | cons x t ih =>
    simp only [idByNameAux, List.findIdx?_cons]
    split
    · simp
    · rw [ih]
      cases t.findIdx? (fun r => r.name == n) with
      | none => simp
      | some i =>
        simp only [Option.map_some]
        have : k + 1 + i = k + (i + 1) := by omega
        rw [this]

/-- the linear-scan path (`GetSequenceIdByName`) returns the position of that same row, `-1` iff absent -/
theorem idByName_spec (b : Bag) (n : String) :
    idByName b n = match b.rows.findIdx? (fun r => r.name == n) with
      | some i => (i : Int)
      | none => -1 := by
  unfold idByName
  rw [idByNameAux_spec]
  cases b.rows.findIdx? (fun r => r.name == n) <;> simp

/-- both by-name paths succeed on exactly the same names -/
theorem byName_found_iff (b : Bag) (h : Inv b) (n : String) :
    (getByName b n).isSome = true ↔ idByName b n ≠ -1 := by
  constructor
  · intro hs
    unfold getByName at hs
    cases hl : idxLookup n b.index with
    | none => simp [hl] at hs
    | some i =>
      obtain ⟨r, hr, _, e2⟩ := h.idx_sound n i hl
      rw [idByName_spec]
      cases hf : b.rows.findIdx? (fun r => r.name == n) with
      | some k => simp
      | none =>
        have := List.findIdx?_eq_none_iff.mp hf r hr
        simp [e2] at this
  · intro hne
    rw [idByName_spec] at hne
    cases hf : b.rows.findIdx? (fun r => r.name == n) with
    | none => simp [hf] at hne
    | some k =>
      obtain ⟨hk, hp⟩ := List.findIdx?_eq_some_iff_getElem.mp hf
      have hmem : b.rows[k] ∈ b.rows := List.getElem_mem hk
      have hname : b.rows[k].name = n := by simpa using hp.1
      have hc := h.idx_complete _ hmem
      rw [hname] at hc
      unfold getByName
      cases hl : idxLookup n b.index with
      | none => rw [hl] at hc; simp at hc
      | some i =>
        obtain ⟨r, hr, e1, _⟩ := h.idx_sound n i hl
        subst e1
        simp [deref_of_mem h.ids_nodup hr]

/-! ## rejecting a sequence of the wrong length -/

/-- **A sequence whose length differs from the alignment's is rejected with an error and the
alignment is left unchanged** (whenever it is actually added, i.e. not silently ignored by a
duplicate-name policy). -/
theorem add_wrong_length_rejected (b : Bag) (ha : b.isAlign = true) (n : String) (s : Seq)
    (hl : b.length ≠ -1) (hs : b.length ≠ (s.length : Int)) :
    addSeq b n s = (b, true) ∨ addSeq b n s = (b, false) := by
  rcases addSeqAs_cases b.isAlign b n s with e | e | e
  · exact Or.inr e
  · exact Or.inl e
  · exfalso
    -- the pushing branch is unreachable: its guard is exactly the length test
    unfold addSeqAs at e
    simp only [ha] at e
    split at e
    · simp [pushed] at e
      have := congrArg (fun x => x.rows.length) e
      simp at this
    · split at e
      · simp [pushed] at e
        have := congrArg (fun x => x.rows.length) e
        simp at this
      · split at e
        · simp at e
        · rename_i hg
          simp at hg
          exact hs (hg hl)

/-- and when no policy intervenes (the name is new) the outcome *is* the error -/
theorem add_wrong_length_error_of_new_name (b : Bag) (ha : b.isAlign = true) (n : String) (s : Seq)
    (hl : b.length ≠ -1) (hs : b.length ≠ (s.length : Int)) (hnew : idxLookup n b.index = none) :
    addSeq b n s = (b, true) := by
  unfold addSeq addSeqAs
  simp [hnew, ha, hl, hs]


/-! ## rectangularity: the cached length is the length of every row, `-1` iff there is no row -/

/-- side conditions under which rectangularity is claimed after a step: a shuffle is a genuine
permutation of the positions; `Translate` is asked for one frame, or for the three frames of an
alignment whose length is `≡ 2 (mod 3)` (known finding `align-translate-3frames-ragged`: for any other
length the three frames have different numbers of codons, see `translate_three_frames_not_rect`);
`Replace` (literal or with a regular expression) and `Concat` did not return an error (both end with a scan of the row
lengths and *report* a ragged result). -/
def RectOK (b : Bag) : Op → Prop
  | .permute perm => IsPerm perm b.rows.length
  | .translate ph _ => TranslateRectOK b ph
  | .replace old new => (stepOp b (.replace old new)).2 ≠ "err"
  | .replaceRe ok seqs => (stepOp b (.replaceRe ok seqs)).2 ≠ "err"
  | .concat rows => (stepOp b (.concat rows)).2 ≠ "err"
  | _ => True

def HistRectOK : Bag → List Op → Prop
  | _, [] => True
  | b, op :: t => RectOK b op ∧ HistRectOK (stepOp b op).1 t

/-- **One step keeps an alignment rectangular** — every operation of the history language, arbitrary
arguments, whatever the outcome (success or error) except for the two operations that report the
raggedness themselves. -/
theorem step_rect (b : Bag) (h : Rect b) (op : Op) (hw : RectOK b op) : Rect (stepOp b op).1 := by
  cases op with
  | add n s => exact rect_addSeq h n s
  | ignore p => exact h.congr rfl rfl rfl
  | clear => exact rect_clear b
  | append rows =>
    simp only [stepOp]
    split
    · exact h
    · split
      · exact h
      · exact rect_addAllStop _ h
  | concat rows =>
    simp only [RectOK, stepOp] at hw
    simp only [stepOp]
    split
    · exact h
    · split
      · exact h
      · rename_i h1 h2
        simp only [h1, h2] at hw
        apply rect_concat _ _ _ h
        revert hw
        cases (concat _ _ _ b).2 <;> simp
  | rename m => exact rect_renameWith _ h
  | appendId id right => exact rect_appendIdentifier id right h
  | cleanNames => exact rect_renameWith _ h
  | trimNames size => exact rect_trimNames size h
  | trimAuto cur => exact rect_trimNamesAuto cur h
  | sort => exact rect_sortRows h
  | permute perm => exact rect_permuteRows perm h hw
  | filter mn mx => exact rect_filterLength mn mx h
  | dedup g => exact rect_deduplicate g h
  | rmSeqs c num den ic ig iN =>
    simp only [stepOp]
    split
    · exact h
    · split
      · exact h
      · rename_i r hr
        exact rect_removeCharacterSeqs _ _ _ _ _ _ r hr
  | translate ph code => exact rect_translateBag ph code h hw
  | clone =>
    simp only [stepOp]
    split
    · exact h
    · exact rect_clone b
  | sample nb perm =>
    simp only [stepOp]
    split
    · exact h
    · rename_i s hs
      exact rect_sample nb perm b s hs
  | toUpper => exact rect_mapSeqs _ (by simp) h
  | toLower => exact rect_mapSeqs _ (by simp) h
  | replace old new =>
    simp only [RectOK, stepOp] at hw
    apply rect_replaceBag old new h
    revert hw
    cases (replaceBag old new b).2 <;> simp
  | setChar i j c => exact rect_setSequenceChar i j c h
  | trimSeqs n fs =>
    simp only [stepOp]
    split
    · exact h
    · split
      · exact h
      · rename_i r hr
        exact rect_trimSequences n fs h r hr
  | autoAlpha => exact h.congr rfl rfl rfl
  | revcomp => exact rect_reverseComplement h
  | replaceChar name site c =>
    simp only [stepOp]
    split
    · exact h
    · split
      · exact h
      · rename_i r hr
        exact rect_replaceChar name site c h r hr
  | rmGapSites num den ends =>
    simp only [stepOp]
    split
    · exact h
    · split
      · exact h
      · rename_i r hr
        exact rect_removeGapSites _ ends h r hr
  | compress =>
    simp only [stepOp]
    split
    · exact h
    · split
      · exact h
      · split
        · exact h
        · rename_i hne _ r hr
          exact rect_compressBag (by intro he; rw [he] at hne; exact hne rfl) r hr
  | unalign =>
    simp only [stepOp]
    split
    · exact h
    · exact rect_unalign b
  | renameRe ok names =>
    simp only [stepOp]
    split
    · exact h
    · exact rect_renameRegexp names h
  | setAlpha a => exact rect_setAlphabet a h
  | revcompSeqs names => exact rect_reverseComplementSequences names h
  | diffFirst =>
    simp only [stepOp]
    split
    · exact h
    · split
      · exact h
      · rename_i r hr; exact (sameShape_diffWithFirst hr).rect h
  | replaceMatch =>
    simp only [stepOp]
    split
    · exact h
    · split
      · exact h
      · rename_i r hr; exact (sameShape_replaceMatchChars hr).rect h
  | mask refseq start len mr nogap noref =>
    simp only [stepOp]
    split
    · exact h
    · split
      · exact h
      · rename_i r hr; exact (sameShape_maskBag hr).rect h
  | maskOcc refseq maxOcc mr =>
    simp only [stepOp]
    split
    · exact h
    · split
      · exact h
      · rename_i r hr; exact (sameShape_maskOccBag hr).rect h
  | rmCharSites cs num den ends ic ig iN rev =>
    simp only [stepOp]
    split
    · exact h
    · split
      · exact h
      · rename_i r hr
        exact rect_cleanSitesBag (isCleanFn_char _ cs ends ic ig iN rev) h r hr
  | rmMajSites num den ends ig iN =>
    simp only [stepOp]
    split
    · exact h
    · split
      · exact h
      · rename_i r hr
        exact rect_cleanSitesBag (isCleanFn_maj _ ends ig iN) h r hr
  | replaceRe ok seqs =>
    simp only [RectOK, stepOp] at hw
    simp only [stepOp]
    split
    · exact h
    · rename_i hok
      simp only [hok] at hw
      apply rect_replaceRegexBag seqs h
      revert hw
      cases (replaceRegexBag seqs b).2 <;> simp

/-- **Every reachable alignment is rectangular**: induction over histories of any length. -/
theorem run_rect (ops : List Op) (b : Bag) (h : Rect b) (hw : HistRectOK b ops) : Rect (finalState b ops) := by
  induction ops generalizing b with
  | nil => exact h
  | cons op t ih =>
    simp only [finalState, List.foldl_cons]
    exact ih _ (step_rect b h op hw.1) hw.2

theorem rect_of_empty_align (alphabet : Nat) : Rect (newAlign alphabet) := (good_newAlign alphabet).rect

/-- the kind of a container changes only through `Unalign`: a history without it leaves an alignment an
alignment and a sequence set a sequence set -/
theorem kind_preserved (ops : List Op) (b : Bag) (hne : ∀ op ∈ ops, op ≠ .unalign) :
    (finalState b ops).isAlign = b.isAlign := by
  induction ops generalizing b with
  | nil => rfl
  | cons op t ih =>
    simp only [finalState, List.foldl_cons]
    exact (ih _ (fun o ho => hne o (List.mem_cons_of_mem _ ho))).trans (isAlign_stepOp b op (hne op (by simp)))

/-- … and no history turns a plain sequence set into an alignment (`Unalign` goes one way) -/
theorem kind_only_decreases (ops : List Op) (b : Bag) (h : (finalState b ops).isAlign = true) :
    b.isAlign = true := by
  induction ops generalizing b with
  | nil => exact h
  | cons op t ih =>
    simp only [finalState, List.foldl_cons] at h
    exact isAlign_of_stepOp b op (ih _ h)

/-- `Unalign` (on an alphabet a sequence set can have) succeeds and yields a plain sequence set -/
theorem unalign_is_seqbag (b : Bag) (ha : seqBagAlphabetOK b.alphabet = true) :
    (stepOp b .unalign).1.isAlign = false ∧ (stepOp b .unalign).2 = "ok" := by
  simp only [stepOp, ha, Bool.not_true, Bool.false_eq_true, if_false]
  exact ⟨isAlign_unalign b, trivial⟩

/-- every row of an alignment reached by any history (now including `Unalign`, after which the object is a
plain sequence set and reports no length at all) has exactly the reported length, and the reported length is
`-1` exactly when there is no row -/
theorem rows_have_reported_length (alphabet : Nat) (ops : List Op) (hw : HistRectOK (newAlign alphabet) ops)
    (ha : (finalState (newAlign alphabet) ops).isAlign = true) :
    (∀ r ∈ (finalState (newAlign alphabet) ops).rows,
        (r.seq.length : Int) = (finalState (newAlign alphabet) ops).length) ∧
    ((finalState (newAlign alphabet) ops).length = -1 ↔ (finalState (newAlign alphabet) ops).rows = []) := by
  have h := run_rect ops _ (rect_of_empty_align alphabet) hw
  exact ⟨h.rows_len ha, h.length_eq_neg_one_iff ha⟩

/-- the statement for histories in the language before `Unalign` was added, unchanged: without an `Unalign`
the final object is an alignment and the conclusion holds outright -/
theorem rows_have_reported_length_aligned (alphabet : Nat) (ops : List Op) (hw : HistRectOK (newAlign alphabet) ops)
    (hne : ∀ op ∈ ops, op ≠ .unalign) :
    (∀ r ∈ (finalState (newAlign alphabet) ops).rows,
        (r.seq.length : Int) = (finalState (newAlign alphabet) ops).length) ∧
    ((finalState (newAlign alphabet) ops).length = -1 ↔ (finalState (newAlign alphabet) ops).rows = []) :=
  rows_have_reported_length alphabet ops hw (by rw [kind_preserved ops _ hne]; rfl)

/-- why `L ≡ 2 (mod 3)`: the frames 0, 1, 2 of `L ≥ 2` columns have `L/3`, `(L-1)/3`, `(L-2)/3` codons, all equal
exactly in that case -/
theorem three_frames_same_count_iff (L : Nat) (h : 2 ≤ L) :
    (L / 3 = (L - 1) / 3 ∧ (L - 1) / 3 = (L - 2) / 3) ↔ L % 3 = 2 := by omega

/-- the excluded case is a genuine violation (kernel-checked): the three frames of a 6-column
alignment have 2, 1 and 1 codons; `Translate` reports success and the cached length is 2 -/
def raggedStart : Bag := finalState (newAlign 1) [.add "a" [65, 67, 71, 84, 65, 67], .add "b" [71, 71, 71, 84, 84, 84]]

set_option maxRecDepth 100000 in
theorem translate_three_frames_not_rect :
    Rect raggedStart ∧ (stepOp raggedStart (.translate (-1) 0)).2 = "ok" ∧
    ¬ Rect (stepOp raggedStart (.translate (-1) 0)).1 := by
  refine ⟨⟨by decide, by decide⟩, by decide, ?_⟩
  intro h
  have := h.rows_len (by decide) ⟨3, "a_1", [82]⟩ (by decide)
  revert this
  decide



/-- `Compress` on an alignment without sequences leaves it as it is — cached length `-1`, so a sequence of any
length can still be added.  (Before the repair 99018fe of /repo it set the cached length to 0: the alignment
reported success and then rejected every sequence of positive length; the history `compress; add:x:ACG`
showed it, `fail:ragged-step1`.) -/
theorem compress_empty_unchanged :
    stepOp (newAlign 1) .compress = (newAlign 1, "ok[_]") ∧
    (stepOp (stepOp (newAlign 1) .compress).1 (.add "a" [65, 67, 71])).2 = "ok" := by
  refine ⟨rfl, by decide⟩

/-! ## names stay pairwise distinct unless the caller renames two rows to the same name -/

/-- **One step keeps the names pairwise distinct**, for every operation other than the caller's own
name edits (`NameEdit`: `Rename`, `RenameRegexp`, `AppendSeqIdentifier`, `CleanNames`, `TrimNames`, `TrimNamesAuto`):
insertion under every duplicate-name policy either ignores the row or renames it to a name not in use;
every rebuild goes through insertion (so does `Unalign`, into its new sequence set); `Concat` only adds rows
whose name is absent. -/
theorem step_names_nodup (b : Bag) (hi : Inv b) (hr : Rect b) (hn : NamesNodup b) (op : Op)
    (hne : ¬ NameEdit op) (hw : OpWF b op) : NamesNodup (stepOp b op).1 :=
  (ni_stepOp ⟨hi, hn⟩ hr op hne (fun perm e => by subst e; exact hw)).nodup

/-- … hence for every history without a name edit, from any state with distinct names (in particular
from the empty containers) -/
theorem run_names_nodup (ops : List Op) (b : Bag) (hi : Inv b) (hr : Rect b) (hn : NamesNodup b)
    (hne : ∀ op ∈ ops, ¬ NameEdit op) (hw : HistWF b ops) (hrw : HistRectOK b ops) :
    NamesNodup (finalState b ops) := by
  induction ops generalizing b with
  | nil => exact hn
  | cons op t ih =>
    simp only [finalState, List.foldl_cons]
    exact ih _ (step_inv b hi op hw.1) (step_rect b hr op hrw.1)
      (step_names_nodup b hi hr hn op (hne op (by simp)) hw.1)
      (fun o ho => hne o (List.mem_cons_of_mem _ ho)) hw.2 hrw.2

/-- **`Unalign` on pairwise distinct names**: the new sequence set shows exactly the old rows, in order, under
their names, each without its gap characters (the insertions have nothing to rename) -/
theorem unalign_rows_of_distinct_names (b : Bag) (hn : NamesNodup b) :
    pairs (unalign b) = (pairs b).map fun p => (p.1, p.2.filter fun c => c != GAP) := by
  have hnd : (((pairs b).map fun p => (p.1, degap p.2)).map Prod.fst).Nodup := by
    simpa [pairs, List.map_map, Function.comp_def, NamesNodup] using hn
  obtain ⟨b', -, hrun, -, k2, -⟩ := rebuild_into (newBag b.alphabet) rfl rfl _ hnd (by intro hh; cases hh)
  unfold unalign
  rw [hrun, k2]
  rfl

/-! ## refinement: the Go-shaped container is the plain list of (name, sequence) pairs

`abs` forgets ids, the name index, the allocation counter and the cached length.  `Good` is the strong
invariant (`Inv`, the index points to the *first* row of each name, `Rect`, an alignment's alphabet is
never `BOTH`).  `Spec.stepOp` is the reference model on plain lists (`Gv/Spec/Bag.lean`); it returns
`none` for the state where the documented meaning leaves it unspecified (a rebuild by re-insertion — other
than `Unalign`'s, which the reference states as insertions —, a
shuffle or a sample after the caller made two rows share a name; an operation that reported an error and
may leave anything behind; the three-frame translation of an alignment whose frames differ in length). -/

/-- side conditions on the arguments: the draws of `ShuffleSequences` / `Sample` are resolved to a
genuine permutation of the current positions (what `rand.Perm` produces) -/
def OpWFR (b : Bag) : Op → Prop
  | .permute perm => IsPerm perm b.rows.length
  | .sample _ perm => IsPerm perm b.rows.length
  | _ => True

/-- **One step refines the reference model** — every one of the 39 operations of the history
language (`add`, `ignore`, `clear`, `append`, `concat`, `rename`, `appendId`, `cleanNames`, `trimNames`,
`trimAuto`, `sort`, `permute`, `filter`, `dedup`, `rmSeqs`, `translate`, `clone`, `sample`, `toUpper`,
`toLower`, `replace`, `setChar`, `trimSeqs`, `autoAlpha`, `revcomp`, `replaceChar`, `rmGapSites`, `compress`,
`unalign`, `renameRe`, `setAlpha`, `revcompSeqs`, `diffFirst`, `replaceMatch`, `mask`, `maskOcc`, `rmCharSites`, `rmMajSites`, `replaceRe`), arbitrary arguments: whenever the reference
specifies the outcome of the operation on the observable content, the Go-shaped model yields exactly
that content (names, row order, residues, policy, alphabet, kind) and that status, and the strong
invariant holds again. -/
theorem step_refines (b : Bag) (h : Good b) (op : Op) (hw : OpWFR b op)
    (s' : Spec.SBag) (st : String) (hs : Spec.stepOp (abs b) op = (some s', st)) :
    abs (stepOp b op).1 = s' ∧ (stepOp b op).2 = st ∧ Good (stepOp b op).1 := by
  have : Refines b op := by
    cases op with
    | add n s => exact ref_add h n s
    | ignore p => exact ref_ignore h p
    | clear => exact ref_clear h
    | append rows => exact ref_append h rows
    | concat rows => exact ref_concat h rows
    | rename m => exact ref_rename h m
    | appendId id right => exact ref_appendId h id right
    | cleanNames => exact ref_cleanNames h
    | trimNames size => exact ref_trimNames h size
    | trimAuto cur => exact ref_trimAuto h cur
    | sort => exact ref_sort h
    | permute perm => exact ref_permute h perm hw
    | filter mn mx => exact ref_filter h mn mx
    | dedup g => exact ref_dedup h g
    | rmSeqs c num den ic ig iN => exact ref_rmSeqs h c num den ic ig iN
    | translate ph code => exact ref_translate h ph code
    | clone => exact ref_clone h
    | sample nb perm => exact ref_sample h nb perm hw
    | toUpper => exact ref_toUpper h
    | toLower => exact ref_toLower h
    | replace old new => exact ref_replace h old new
    | setChar i j c => exact ref_setChar h i j c
    | trimSeqs n fs => exact ref_trimSeqs h n fs
    | autoAlpha => exact ref_autoAlpha h
    | revcomp => exact ref_revcomp h
    | replaceChar name site c => exact ref_replaceChar h name site c
    | rmGapSites num den ends => exact ref_rmGapSites h num den ends
    | compress => exact ref_compress h
    | unalign => exact ref_unalign h
    | renameRe ok names => exact ref_renameRe h ok names
    | setAlpha a => exact ref_setAlpha h a
    | revcompSeqs names => exact ref_revcompSeqs h names
    | diffFirst => exact ref_diffFirst h
    | replaceMatch => exact ref_replaceMatch h
    | mask refseq start len mr nogap noref => exact ref_mask h refseq start len mr nogap noref
    | maskOcc refseq maxOcc mr => exact ref_maskOcc h refseq maxOcc mr
    | rmCharSites cs num den ends ic ig iN rev => exact ref_rmCharSites h cs num den ends ic ig iN rev
    | rmMajSites num den ends ig iN => exact ref_rmMajSites h num den ends ig iN
    | replaceRe ok seqs => exact ref_replaceRe h ok seqs
  exact this s' st hs

/-- the reference model run over a history: final content and the status of every step; `none` as
soon as one step is left unspecified -/
def specRun : Spec.SBag → List Op → Option (Spec.SBag × List String)
  | s, [] => some (s, [])
  | s, op :: t =>
    match Spec.stepOp s op with
    | (some s', st) => (specRun s' t).map fun r => (r.1, st :: r.2)
    | (none, _) => none

def HistWFR : Bag → List Op → Prop
  | _, [] => True
  | b, op :: t => OpWFR b op ∧ HistWFR (stepOp b op).1 t

/-- **Refinement for histories of any length** (induction): as far as the reference model specifies
the history, the Go-shaped model shows the same content after it and returned the same status at every
step; the strong invariant holds at the end. -/
theorem run_refines (ops : List Op) (b : Bag) (h : Good b) (hw : HistWFR b ops)
    (s' : Spec.SBag) (sts : List String) (hs : specRun (abs b) ops = some (s', sts)) :
    abs (finalState b ops) = s' ∧ (runOps b ops).map (·.2) = sts ∧ Good (finalState b ops) := by
  induction ops generalizing b sts with
  | nil =>
    simp only [specRun, Option.some.injEq, Prod.mk.injEq] at hs
    exact ⟨hs.1, by simpa [runOps] using hs.2, h⟩
  | cons op t ih =>
    simp only [specRun] at hs
    cases hstep : Spec.stepOp (abs b) op with
    | mk o st =>
      cases o with
      | none => simp [hstep] at hs
      | some s1 =>
        simp only [hstep, Option.map_eq_some_iff, Prod.mk.injEq] at hs
        obtain ⟨⟨r1, r2⟩, hr, e1, e2⟩ := hs
        simp only at e1 e2
        subst e1
        obtain ⟨g1, g2, g3⟩ := step_refines b h op hw.1 s1 st hstep
        obtain ⟨k1, k2, k3⟩ := ih (stepOp b op).1 g3 hw.2 r2
          (by rw [g1, hr])
        simp only [finalState, List.foldl_cons] at k1 k3 ⊢
        refine ⟨k1, ?_, k3⟩
        simp only [runOps, List.map_cons, g2, k2]
        exact e2

/-- `Good` holds for the empty containers every history starts from -/
theorem good_of_empty_bag (alphabet : Nat) : Good (newBag alphabet) := good_newBag alphabet
theorem good_of_empty_align (alphabet : Nat) : Good (newAlign alphabet) := good_newAlign alphabet

/-! ### what `abs` preserves: every observation of the harness is a function of the abstraction -/

/-- lookup by name through the index = the reference's "first row of that name" -/
theorem obs_byName (b : Bag) (h : Good b) (n : String) :
    (getByName b n).map (fun r => (r.name, r.seq)) = Spec.firstNamed n (abs b).rows := getByName_abs h n

/-- the linear-scan path = the position of the first row of that name in the abstraction -/
theorem obs_idByName (b : Bag) (n : String) :
    idByName b n = match (abs b).rows.findIdx? (fun r => r.1 == n) with
      | some i => (i : Int)
      | none => -1 := by
  rw [idByName_spec]
  simp [abs, pairs, List.findIdx?_map, Function.comp_def]

/-- the cached length of an alignment = the reference's length (first row, `-1` when empty) -/
theorem obs_length (b : Bag) (h : Good b) (ha : b.isAlign = true) : b.length = (abs b).length :=
  (h.rect.abs_length ha).symm

/-! ### the container-level `DiffWithFirst` / `ReplaceMatchChars` are the row-level models of property C04 -/

/-- **`DiffWithFirst` on a rectangular alignment: the container model (loop over the row pointers, in-place writes) never
panics, shows exactly the rows the C04 row-level model `Model.diffWithFirst` computes from the rows shown before, and keeps
ids, names, index, cached length and every row length** -/
theorem diffWithFirst_agrees_with_row_model (b : Bag) (h : Rect b) (ha : b.isAlign = true) :
    ∃ b', diffWithFirstBag b = some b' ∧ pairs b' = diffWithFirst (pairs b) ∧ SameShape b' b := by
  refine ⟨_, diffWithFirstBag_rect h ha, ?_, sameShape_diffWithFirst (diffWithFirstBag_rect h ha)⟩
  rw [pairs_againstFirst, againstFirst_diffSeq]

/-- **`ReplaceMatchChars` likewise** (the container reads the CACHED length, the row-level model the first row's: on a
rectangular alignment they are the same number) -/
theorem replaceMatchChars_agrees_with_row_model (b : Bag) (h : Rect b) (ha : b.isAlign = true) :
    ∃ b', replaceMatchCharsBag b = some b' ∧ pairs b' = replaceMatchChars (pairs b) ∧ SameShape b' b := by
  refine ⟨_, replaceMatchCharsBag_rect h ha, ?_, sameShape_replaceMatchChars (replaceMatchCharsBag_rect h ha)⟩
  rw [pairs_againstFirst, againstFirst_matchSeq]
  intro f hf
  have hmem : f ∈ pairs b := by
    cases hp : pairs b with
    | nil => rw [hp] at hf; simp at hf
    | cons x t => rw [hp] at hf; simp only [List.head?_cons, Option.mem_def, Option.some.injEq] at hf; subst hf; simp
  exact rect_pairs_len h ha f hmem

/-- the same for the history step: whenever the current object is a rectangular alignment, the step `diffFirst` /
`replaceMatch` succeeds and the rows shown afterwards are the C04 model's -/
theorem step_diffFirst_is_row_model (b : Bag) (h : Rect b) (ha : b.isAlign = true) :
    (stepOp b .diffFirst).2 = "ok" ∧ pairs (stepOp b .diffFirst).1 = diffWithFirst (pairs b) ∧
    (stepOp b .replaceMatch).2 = "ok" ∧ pairs (stepOp b .replaceMatch).1 = replaceMatchChars (pairs b) := by
  obtain ⟨b1, e1, p1, -⟩ := diffWithFirst_agrees_with_row_model b h ha
  obtain ⟨b2, e2, p2, -⟩ := replaceMatchChars_agrees_with_row_model b h ha
  simp only [stepOp, ha, Bool.not_true, Bool.false_eq_true, if_false, e1, e2]
  exact ⟨trivial, p1, trivial, p2⟩

-- the hypotheses of the agreement theorems are satisfiable: a rectangular alignment whose second row matches the first in two
-- places and already carries a point
def demoDiff : Bag := finalState (newAlign 1) [.add "a" [65, 67, 71, 84], .add "b" [65, 84, 71, 46]]
set_option maxRecDepth 100000 in
example : Rect demoDiff ∧ demoDiff.isAlign = true ∧
    pairs (stepOp demoDiff .diffFirst).1 = [("a", [65, 67, 71, 84]), ("b", [46, 84, 46, 46])] ∧
    pairs (stepOp demoDiff .replaceMatch).1 = [("a", [65, 67, 71, 84]), ("b", [65, 84, 71, 84])] :=
  ⟨⟨by decide, by decide⟩, by decide, by decide, by decide⟩

/-! ## non-vacuity -/

example : Inv (finalState (newAlign 1) [.add "a" [65, 67], .add "a" [71, 84], .rename [("a", "z"), ("a_0001", "z")], .sort, .dedup false]) :=
  run_inv _ _ (inv_newAlign 1) (by simp [HistWF, OpWF])

example : (finalState (newAlign 1) [.add "a" [65, 67], .add "a" [71, 84]]).rows.map (·.name) = ["a", "a_0001"] := by decide

-- a history with a renamed duplicate, a rename, a filter, a deduplication, a clone, a concatenation (one row
-- present in both, one only on the right) and a translation: the reference specifies every step, so the
-- refinement theorem applies to it and yields the equality of the final contents
def demoHist : List Op :=
  [.add "a" [65, 67, 71], .add "a" [71, 84, 84], .add "c" [65, 67, 71], .rename [("c", "b")],
   .filter 1 5, .dedup false, .clone, .concat [("a", [71, 71, 71]), ("z", [84, 84, 84])], .translate 0 0]

set_option maxRecDepth 100000 in
example : ∃ s' sts, specRun (abs (newAlign 1)) demoHist = some (s', sts) ∧
    abs (finalState (newAlign 1) demoHist) = s' ∧ (runOps (newAlign 1) demoHist).map (·.2) = sts := by
  have hsome : (specRun (abs (newAlign 1)) demoHist).isSome = true := by decide
  cases h : specRun (abs (newAlign 1)) demoHist with
  | none => rw [h] at hsome; cases hsome
  | some r =>
    have := run_refines demoHist _ (good_of_empty_align 1) (by simp [demoHist, HistWFR, OpWFR]) r.1 r.2 h
    exact ⟨r.1, r.2, rfl, this.1, this.2.1⟩

-- the operations shared with C06 / C13 and the by-name residue write in one history: reverse complement,
-- `ReplaceChar` through the index, `Compress` (two of the four columns are equal), a rename, then writes by the
-- old name, by the new name and outside the alignment
def demoHist2 : List Op :=
  [.add "b" [65, 67, 67, 65], .add "a" [71, 84, 84, 71], .revcomp, .replaceChar "a" 3 78, .compress,
   .rename [("a", "c")], .replaceChar "a" 0 65, .replaceChar "c" 2 65, .replaceChar "c" 3 65]

set_option maxRecDepth 100000 in
example : ∃ s' sts, specRun (abs (newAlign 1)) demoHist2 = some (s', sts) ∧
    abs (finalState (newAlign 1) demoHist2) = s' ∧ (runOps (newAlign 1) demoHist2).map (·.2) = sts ∧
    sts = ["ok", "ok", "ok", "ok", "ok[2+1+1]", "ok", "err", "ok", "err"] := by
  have hsome : (specRun (abs (newAlign 1)) demoHist2).isSome = true := by decide
  cases h : specRun (abs (newAlign 1)) demoHist2 with
  | none => rw [h] at hsome; cases hsome
  | some r =>
    have := run_refines demoHist2 _ (good_of_empty_align 1) (by simp [demoHist2, HistWFR, OpWFR]) r.1 r.2 h
    refine ⟨r.1, r.2, rfl, this.1, this.2.1, ?_⟩
    have h2 : (specRun (abs (newAlign 1)) demoHist2).map (·.2) = some ["ok", "ok", "ok", "ok", "ok[2+1+1]", "ok", "err", "ok", "err"] := by decide
    rw [h] at h2
    simpa using h2

-- site removal after a compression: within the rectangularity theorem (the alignment has sequences)
example : HistRectOK (newAlign 1) [.add "a" [65, 45, 45], .compress, .rmGapSites 1 2 true, .revcomp] :=
  ⟨trivial, trivial, trivial, trivial, trivial⟩

-- adding the same name three times under the default policy: the names stay distinct
example : NamesNodup (finalState (newAlign 1) [.add "a" [65], .add "a" [67], .add "a" [71], .dedup false]) :=
  run_names_nodup _ _ (inv_newAlign 1) (rect_of_empty_align 1) (by simp [NamesNodup, newAlign])
    (by simp [NameEdit]) (by simp [HistWF, OpWF]) (by simp [HistRectOK, RectOK])

-- three frames of a 5-column alignment (5 ≡ 2 mod 3) followed by a filter: within the rectangularity theorem
example : HistRectOK (newAlign 1) [.add "a" [65, 67, 71, 84, 65], .translate (-1) 0, .filter 1 5] :=
  ⟨trivial, Or.inr (by decide), trivial, trivial⟩

-- `Unalign` in a history: the alignment (one all-gap row, two rows made to share a name) becomes a sequence set
-- in which the second `a` has been renamed by the insertion; the history continues on that set (a sequence of
-- another length is accepted, `Append` is answered `na`); then `RenameRegexp` with the new names supplied makes
-- two rows share a name again, and the lookup by name finds the first of them; `SetAlphabet` to amino acids and
-- back to nucleotides (A, C, G, T fit both), then to an alphabet that cannot be given
def demoHist3 : List Op :=
  [.add "a" [65, 45, 67], .add "b" [45, 45, 45], .add "c" [45, 71, 71], .rename [("c", "a")], .unalign,
   .add "d" [65, 67, 71, 84], .append [("z", [65])], .renameRe true ["x", "y", "x", "d"], .renameRe false [],
   .setAlpha 0, .setAlpha 1, .setAlpha 2]

set_option maxRecDepth 100000 in
example : ∃ s' sts, specRun (abs (newAlign 1)) demoHist3 = some (s', sts) ∧
    abs (finalState (newAlign 1) demoHist3) = s' ∧ (runOps (newAlign 1) demoHist3).map (·.2) = sts ∧
    s'.rows = [("x", [65, 67]), ("y", []), ("x", [71, 71]), ("d", [65, 67, 71, 84])] ∧ s'.isAlign = false ∧
    sts = ["ok", "ok", "ok", "ok", "ok", "ok", "na", "ok[a=x,b=y,a_0001=x,d=d]", "err[]", "ok", "ok", "err"] := by
  have hsome : (specRun (abs (newAlign 1)) demoHist3).isSome = true := by decide
  cases h : specRun (abs (newAlign 1)) demoHist3 with
  | none => rw [h] at hsome; cases hsome
  | some r =>
    have := run_refines demoHist3 _ (good_of_empty_align 1) (by simp [demoHist3, HistWFR, OpWFR]) r.1 r.2 h
    have h2 : (specRun (abs (newAlign 1)) demoHist3).map (fun r => (r.1.rows, r.1.isAlign, r.2)) =
        some ([("x", [65, 67]), ("y", []), ("x", [71, 71]), ("d", [65, 67, 71, 84])], false,
          ["ok", "ok", "ok", "ok", "ok", "ok", "na", "ok[a=x,b=y,a_0001=x,d=d]", "err[]", "ok", "ok", "err"]) := by decide
    rw [h] at h2
    simp only [Option.map_some, Option.some.injEq, Prod.mk.injEq] at h2
    exact ⟨r.1, r.2, rfl, this.1, this.2.1, h2.1, h2.2.1, h2.2.2⟩

-- the rectangularity theorem applies to histories through `Unalign` (vacuously after it: no reported length)
example : HistRectOK (newAlign 1) [.add "a" [65, 45, 45], .unalign, .add "b" [65], .renameRe true ["b", "b"]] :=
  ⟨trivial, trivial, trivial, trivial, trivial⟩

-- names stay distinct through `Unalign` (no name edit in this history)
example : NamesNodup (finalState (newAlign 1) [.add "a" [65, 45], .add "a" [45, 67], .unalign, .add "a" [71]]) :=
  run_names_nodup _ _ (inv_newAlign 1) (rect_of_empty_align 1) (by simp [NamesNodup, newAlign])
    (by simp [NameEdit]) (by simp [HistWF, OpWF]) (by simp [HistRectOK, RectOK])

-- the in-place residue operations in a history: `ReverseComplementSequences` on a name given twice, an unknown name and
-- a second name; `DiffWithFirst` and back with `ReplaceMatchChars`; `Mask` of a window with the gap protected;
-- `MaskUnique` without reference
def demoHist4 : List Op :=
  [.add "a" [65, 67, 71, 84], .add "b" [65, 67, 45, 65], .add "c" [65, 84, 71, 84],
   .revcompSeqs ["a", "zz", "a", "b"], .revcompSeqs ["b"], .diffFirst, .replaceMatch,
   .mask "" 1 2 .ambig true false, .maskOcc "" 1 (.char 88)]

set_option maxRecDepth 100000 in
example : ∃ s' sts, specRun (abs (newAlign 1)) demoHist4 = some (s', sts) ∧
    abs (finalState (newAlign 1) demoHist4) = s' ∧ (runOps (newAlign 1) demoHist4).map (·.2) = sts ∧
    s'.rows = [("a", [65, 78, 78, 84]), ("b", [65, 78, 45, 88]), ("c", [65, 78, 78, 84])] ∧
    sts = ["ok", "ok", "ok", "ok", "ok", "ok", "ok", "ok", "ok"] := by
  have hsome : (specRun (abs (newAlign 1)) demoHist4).isSome = true := by decide
  cases h : specRun (abs (newAlign 1)) demoHist4 with
  | none => rw [h] at hsome; cases hsome
  | some r =>
    have := run_refines demoHist4 _ (good_of_empty_align 1) (by simp [demoHist4, HistWFR, OpWFR]) r.1 r.2 h
    have h2 : (specRun (abs (newAlign 1)) demoHist4).map (fun r => (r.1.rows, r.2)) =
        some ([("a", [65, 78, 78, 84]), ("b", [65, 78, 45, 88]), ("c", [65, 78, 78, 84])],
          ["ok", "ok", "ok", "ok", "ok", "ok", "ok", "ok", "ok"]) := by decide
    rw [h] at h2
    simp only [Option.map_some, Option.some.injEq, Prod.mk.injEq] at h2
    exact ⟨r.1, r.2, rfl, this.1, this.2.1, h2.1, h2.2⟩

-- the general site cleaning in a history: `RemoveCharacterSites` on the set {A, c} up to case, gaps not counted, in `ends`
-- mode (the leading run of two qualifying columns and the trailing all-gap column - nothing counts there - go, the
-- qualifying column in the middle stays); then `RemoveMajorityCharacterSites` at cutoff 1 (the constant column goes);
-- then the general form on the gap character (no gap is left)
def demoHist5 : List Op :=
  [.add "a" [65, 97, 71, 65, 84, 45], .add "b" [97, 67, 84, 99, 84, 45], .add "c" [45, 65, 71, 67, 84, 45],
   .rmCharSites [65, 99] 1 1 true true true false false, .rmMajSites 1 1 false false false,
   .rmCharSites [45] 0 1 false false false false false]

set_option maxRecDepth 100000 in
example : ∃ s' sts, specRun (abs (newAlign 1)) demoHist5 = some (s', sts) ∧
    abs (finalState (newAlign 1) demoHist5) = s' ∧ (runOps (newAlign 1) demoHist5).map (·.2) = sts := by
  have hsome : (specRun (abs (newAlign 1)) demoHist5).isSome = true := by decide
  cases h : specRun (abs (newAlign 1)) demoHist5 with
  | none => rw [h] at hsome; cases hsome
  | some r =>
    have := run_refines demoHist5 _ (good_of_empty_align 1) (by simp [demoHist5, HistWFR, OpWFR]) r.1 r.2 h
    exact ⟨r.1, r.2, rfl, this.1, this.2.1⟩

-- `Replace` with a regular expression, the new sequences supplied: a length-preserving one (every row of the alignment
-- keeps 3 residues), an expression that does not compile, then one that shortens a row - the alignment reports an error
-- and the reference stops specifying
def demoHist6 : List Op :=
  [.add "a" [65, 67, 71], .add "b" [65, 45, 84], .replaceRe true [[78, 67, 71], [78, 45, 84]], .replaceRe false []]

set_option maxRecDepth 100000 in
example : ∃ s' sts, specRun (abs (newAlign 1)) demoHist6 = some (s', sts) ∧
    abs (finalState (newAlign 1) demoHist6) = s' ∧ (runOps (newAlign 1) demoHist6).map (·.2) = sts ∧
    s'.rows = [("a", [78, 67, 71]), ("b", [78, 45, 84])] ∧ sts = ["ok", "ok", "ok", "err"] := by
  have hsome : (specRun (abs (newAlign 1)) demoHist6).isSome = true := by decide
  cases h : specRun (abs (newAlign 1)) demoHist6 with
  | none => rw [h] at hsome; cases hsome
  | some r =>
    have := run_refines demoHist6 _ (good_of_empty_align 1) (by simp [demoHist6, HistWFR, OpWFR]) r.1 r.2 h
    have h2 : (specRun (abs (newAlign 1)) demoHist6).map (fun r => (r.1.rows, r.2)) =
        some ([("a", [78, 67, 71]), ("b", [78, 45, 84])], ["ok", "ok", "ok", "err"]) := by decide
    rw [h] at h2
    simp only [Option.map_some, Option.some.injEq, Prod.mk.injEq] at h2
    exact ⟨r.1, r.2, rfl, this.1, this.2.1, h2.1, h2.2⟩

example : (stepOp (finalState (newAlign 1) demoHist6) (.replaceRe true [[78, 67], [78, 45, 84]])).2 = "err" ∧
    (Spec.stepOp (abs (finalState (newAlign 1) demoHist6)) (.replaceRe true [[78, 67], [78, 45, 84]])).1 = none := by
  decide

-- what the model shows after `demoHist5` (the cutoff test is float arithmetic: evaluated, not kernel-reduced)
#guard (runOps (newAlign 1) demoHist5).map (·.2) =
  ["ok", "ok", "ok", "ok[2,1,2+3+4,0+1+5]", "ok[0,1,0+1,2]", "ok[0,0,0+1,_]"]
#guard pairs (finalState (newAlign 1) demoHist5) = [("a", [71, 65]), ("b", [84, 99]), ("c", [71, 67])]

/-! ## `Identical` (`goalign identical`) -/

/-- the container-level model of `Identical` (lookup through `comp`'s name index) is the row-level one the command-line
oracle evaluates on the parsed files — for every `comp` satisfying the representation invariant -/
theorem identical_eq_identicalRows (a comp : Bag) (hc : Good comp) :
    identical a comp = identicalRows (pairs a) (pairs comp) :=
  Gv.Proofs.BagIdentical.identical_eq_rows a comp hc

/-- what the loop decides, whatever the names: as many rows, and every row of the receiver is the FIRST row of its name
in `comp`, with the same bytes -/
theorem identicalRows_spec (a c : List (String × Seq)) :
    identicalRows a c = true ↔ a.length = c.length ∧ ∀ r ∈ a, findRow r.1 c = some r.2 :=
  Gv.Proofs.BagIdentical.identicalRows_iff a c

private theorem pairs_fst (b : Bag) : (pairs b).map Prod.fst = b.rows.map (·.name) := by
  simp [pairs, List.map_map, Function.comp_def]

/-- **`Identical` decides "the same (name, sequence) records, in any order"** on containers whose names are pairwise
distinct (which the container guarantees unless the caller edits names: `run_names_nodup`): the naive definition — the
row lists are permutations of each other, sequences compared byte by byte (so case matters), nothing else looked at. -/
theorem identical_iff_same_records (a comp : Bag) (hc : Good comp) (hna : NamesNodup a) (hnc : NamesNodup comp) :
    identical a comp = true ↔ (pairs a).Perm (pairs comp) := by
  rw [identical_eq_identicalRows a comp hc]
  exact Gv.Proofs.BagIdentical.identicalRows_iff_perm _ _ (by rw [pairs_fst]; exact hna) (by rw [pairs_fst]; exact hnc)

/-- on uniquely named containers the answer does not depend on which one is the receiver -/
theorem identical_symm (a comp : Bag) (ha : Good a) (hc : Good comp) (hna : NamesNodup a) (hnc : NamesNodup comp) :
    identical a comp = identical comp a := by
  have h1 := identical_iff_same_records a comp hc hna hnc
  have h2 := identical_iff_same_records comp a ha hnc hna
  cases e1 : identical a comp <;> cases e2 : identical comp a <;> try rfl
  · exact absurd ((h1.mpr (h2.mp e2).symm)) (by simp [e1])
  · exact absurd ((h2.mpr (h1.mp e1).symm)) (by simp [e2])

/-- a uniquely named container is identical to itself, and to each of its reorderings -/
theorem identical_refl (a : Bag) (ha : Good a) (hna : NamesNodup a) : identical a a = true :=
  (identical_iff_same_records a a ha hna hna).mpr (List.Perm.refl _)

/-- the loop runs over the receiver only: when a name occurs twice in the receiver (caller-made renames) the two
directions disagree; and upper / lower case are different bytes -/
theorem identical_not_symmetric_with_repeated_names :
    identicalRows [("x", [65]), ("x", [65])] [("x", [65]), ("y", [67])] = true ∧
    identicalRows [("x", [65]), ("y", [67])] [("x", [65]), ("x", [65])] = false ∧
    identicalRows [("x", [65])] [("x", [97])] = false ∧
    identicalRows [("x", [65]), ("y", [67])] [("y", [67]), ("x", [65])] = true := by decide

end Gv.Props.C01
