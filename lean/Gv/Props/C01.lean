import Gv.Proofs.BagOps
import Gv.Spec.Bag
/-!
# C01 — containers stay rectangular, uniquely named and index-consistent

Property theorems about the implementation-shaped model `Gv.Model.Bag` (ordered rows with pointer
ids + a separate name index + cached alignment length, `lean/Gv/Model/Bag.lean`), for operation
histories of **any** length.
-/
namespace Gv.Props.C01
open Gv Gv.Model Gv.Proofs.BagInv

/-- side condition on an operation's *arguments* in a given state: a shuffle is resolved to a genuine
permutation of the current positions (this is what `rand.Perm`-style shuffling produces) -/
def OpWF (b : Bag) : Op → Prop
  | .permute perm => IsPerm perm b.rows.length
  | _ => True

/-- every step of the history satisfies its side condition in the state it is applied to -/
def HistWF : Bag → List Op → Prop
  | _, [] => True
  | b, op :: t => OpWF b op ∧ HistWF (stepOp b op).1 t

/-- **One step keeps the representation invariant** — for every operation of the history language,
with arbitrary arguments, *including* renames that make two rows share a name. -/
theorem step_inv (b : Bag) (h : Inv b) (op : Op) (hw : OpWF b op) : Inv (stepOp b op).1 := by
  cases op with
  | add n s => exact inv_addSeq b h n s
  | ignore p => exact h.congr rfl rfl rfl
  | clear => exact inv_clear b
  | append rows =>
    simp only [stepOp]
    split
    · exact h
    · split
      · exact h
      · exact inv_addAllStop _ _ h
  | concat rows =>
    simp only [stepOp]
    split
    · exact h
    · split
      · exact h
      · exact inv_concat _ _ _ _ h
  | rename m => exact inv_renameWith _ b h
  | appendId id right =>
    simp only [stepOp, appendIdentifier]
    split
    · exact h
    · exact inv_renameWith _ b h
  | cleanNames => exact inv_renameWith _ b h
  | trimNames size => exact inv_trimNames size b h
  | trimAuto cur => exact inv_trimNamesAuto cur b h
  | sort => exact inv_sortRows b h
  | permute perm => exact inv_permuteRows perm b h hw
  | filter mn mx => exact inv_filterLength mn mx b
  | dedup g => exact inv_deduplicate g b
  | rmSeqs c num den ic ig iN =>
    simp only [stepOp]
    split
    · exact h
    · split
      · exact h
      · rename_i r hr
        exact inv_removeCharacterSeqs _ _ _ _ _ _ r hr
  | translate ph code => exact inv_translateBag ph code b h
  | clone =>
    simp only [stepOp]
    split
    · exact h
    · exact inv_clone b
  | sample nb perm =>
    simp only [stepOp]
    split
    · exact h
    · rename_i s hs
      exact inv_sample nb perm b s hs
  | toUpper => exact inv_mapSeqs _ b h
  | toLower => exact inv_mapSeqs _ b h
  | replace old new => exact inv_replaceBag old new b h
  | setChar i j c => exact inv_setSequenceChar i j c b h
  | trimSeqs n fs =>
    simp only [stepOp]
    split
    · exact h
    · split
      · exact h
      · rename_i r hr
        exact inv_trimSequences n fs b h r hr
  | autoAlpha => exact h.congr rfl rfl rfl

/-- **Every reachable state satisfies the invariant**: induction over histories of any length, from
any state satisfying it (in particular from the empty containers). -/
theorem run_inv (ops : List Op) (b : Bag) (h : Inv b) (hw : HistWF b ops) : Inv (finalState b ops) := by
  induction ops generalizing b with
  | nil => exact h
  | cons op t ih =>
    simp only [finalState, List.foldl_cons]
    exact ih _ (step_inv b h op hw.1) hw.2

theorem inv_of_empty_bag (alphabet : Nat) : Inv (newBag alphabet) := inv_newBag alphabet
theorem inv_of_empty_align (alphabet : Nat) : Inv (newAlign alphabet) := inv_newAlign alphabet

/-! ## what the invariant buys: the access paths agree -/

/-- names pairwise distinct -/
def NamesNodup (b : Bag) : Prop := (b.rows.map (·.name)).Nodup

private theorem find_unique {rows : List Row} (hn : (rows.map (·.name)).Nodup) {r : Row} (hr : r ∈ rows) :
    rows.find? (fun x => x.name == r.name) = some r := by
  induction rows with
  | nil => simp at hr
  | cons x t ih =>
    simp only [List.map_cons, List.nodup_cons] at hn
    rcases List.mem_cons.mp hr with rfl | hr
    · simp
    · have hne : ¬ x.name = r.name := by
        intro e; exact hn.1 (e ▸ List.mem_map_of_mem (f := (·.name)) hr)
      have : (x.name == r.name) = false := by simpa using hne
      simp [List.find?_cons, this, ih hn.2 hr]

/-- **Lookup by name through the index = the row found by scanning the rows in order**, whenever
names are pairwise distinct: the index path (`GetSequence`, `GetSequenceChar`, `GetSequenceByName`,
`SequenceByName`) and iteration can never disagree. -/
theorem lookup_paths_agree (b : Bag) (h : Inv b) (hn : NamesNodup b) (n : String) :
    getByName b n = b.rows.find? (fun r => r.name == n) := by
  unfold getByName
  cases hl : idxLookup n b.index with
  | some i =>
    obtain ⟨r, hr, e1, e2⟩ := h.idx_sound n i hl
    subst e1; subst e2
    simp only [Option.bind_some]
    rw [deref_of_mem h.ids_nodup hr, find_unique hn hr]
  | none =>
    simp only [Option.bind_none]
    symm
    apply List.find?_eq_none.mpr
    intro r hr hc
    have := h.idx_complete r hr
    have e : r.name = n := by simpa using hc
    rw [e, hl] at this
    simp at this

private theorem idByNameAux_spec (n : String) (rows : List Row) (k : Nat) :
    idByNameAux n rows k = match rows.findIdx? (fun r => r.name == n) with
      | some i => ((k + i : Nat) : Int)
      | none => -1 := by
  induction rows generalizing k with
  | nil => simp [idByNameAux]
  | cons x t ih =>
    simp only [idByNameAux, List.findIdx?_cons]
    split
    · simp
    · rw [ih]
      cases t.findIdx? (fun r => r.name == n) with
      | none => simp
      | some i =>
        simp only [Option.map_some]
        have : k + 1 + i = k + (i + 1) := by omega
        rw [this]

/-- the linear-scan path (`GetSequenceIdByName`) returns the position of that same row, `-1` iff absent -/
theorem idByName_spec (b : Bag) (n : String) :
    idByName b n = match b.rows.findIdx? (fun r => r.name == n) with
      | some i => (i : Int)
      | none => -1 := by
  unfold idByName
  rw [idByNameAux_spec]
  cases b.rows.findIdx? (fun r => r.name == n) <;> simp

/-- both by-name paths succeed on exactly the same names -/
theorem byName_found_iff (b : Bag) (h : Inv b) (n : String) :
    (getByName b n).isSome = true ↔ idByName b n ≠ -1 := by
  constructor
  · intro hs
    unfold getByName at hs
    cases hl : idxLookup n b.index with
    | none => simp [hl] at hs
    | some i =>
      obtain ⟨r, hr, _, e2⟩ := h.idx_sound n i hl
      rw [idByName_spec]
      cases hf : b.rows.findIdx? (fun r => r.name == n) with
      | some k => simp
      | none =>
        have := List.findIdx?_eq_none_iff.mp hf r hr
        simp [e2] at this
  · intro hne
    rw [idByName_spec] at hne
    cases hf : b.rows.findIdx? (fun r => r.name == n) with
    | none => simp [hf] at hne
    | some k =>
      obtain ⟨hk, hp⟩ := List.findIdx?_eq_some_iff_getElem.mp hf
      have hmem : b.rows[k] ∈ b.rows := List.getElem_mem hk
      have hname : b.rows[k].name = n := by simpa using hp.1
      have hc := h.idx_complete _ hmem
      rw [hname] at hc
      unfold getByName
      cases hl : idxLookup n b.index with
      | none => rw [hl] at hc; simp at hc
      | some i =>
        obtain ⟨r, hr, e1, _⟩ := h.idx_sound n i hl
        subst e1
        simp [deref_of_mem h.ids_nodup hr]

/-! ## rejecting a sequence of the wrong length -/

/-- **A sequence whose length differs from the alignment's is rejected with an error and the
alignment is left unchanged** (whenever it is actually added, i.e. not silently ignored by a
duplicate-name policy). -/
theorem add_wrong_length_rejected (b : Bag) (ha : b.isAlign = true) (n : String) (s : Seq)
    (hl : b.length ≠ -1) (hs : b.length ≠ (s.length : Int)) :
    addSeq b n s = (b, true) ∨ addSeq b n s = (b, false) := by
  rcases addSeqAs_cases b.isAlign b n s with e | e | e
  · exact Or.inr e
  · exact Or.inl e
  · exfalso
    -- the pushing branch is unreachable: its guard is exactly the length test
    unfold addSeqAs at e
    simp only [ha] at e
    split at e
    · simp [pushed] at e
      have := congrArg (fun x => x.rows.length) e
      simp at this
    · split at e
      · simp [pushed] at e
        have := congrArg (fun x => x.rows.length) e
        simp at this
      · split at e
        · simp at e
        · rename_i hg
          simp at hg
          exact hs (hg hl)

/-- and when no policy intervenes (the name is new) the outcome *is* the error -/
theorem add_wrong_length_error_of_new_name (b : Bag) (ha : b.isAlign = true) (n : String) (s : Seq)
    (hl : b.length ≠ -1) (hs : b.length ≠ (s.length : Int)) (hnew : idxLookup n b.index = none) :
    addSeq b n s = (b, true) := by
  unfold addSeq addSeqAs
  simp [hnew, ha, hl, hs]

/-! ## non-vacuity -/

example : Inv (finalState (newAlign 1) [.add "a" [65, 67], .add "a" [71, 84], .rename [("a", "z"), ("a_0001", "z")], .sort, .dedup false]) :=
  run_inv _ _ (inv_newAlign 1) (by simp [HistWF, OpWF])

example : (finalState (newAlign 1) [.add "a" [65, 67], .add "a" [71, 84]]).rows.map (·.name) = ["a", "a_0001"] := by decide

end Gv.Props.C01
