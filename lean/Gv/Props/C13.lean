import Gv.Model.Compress
import Gv.Spec.Bag
import Gv.Spec.Dedup
import Gv.Proofs.DedupLoop
import Gv.Gen.KeyFacts
/-!
# C13 — de-duplication and site compression lose nothing but redundancy
-/
namespace Gv.Props.C13
open Gv Gv.Model

/-! ## the order on patterns -/

private theorem patLt_irrefl : ∀ p : List Byte, patLt p p = false := by
  intro p; induction p with
  | nil => rfl
  | cons a t ih => simp [patLt, ih]

private theorem patLt_trans : ∀ p q r : List Byte, patLt p q = true → patLt q r = true → patLt p r = true := by
  intro p
  induction p with
  | nil =>
    intro q r h1 h2
    cases q with
    | nil => simp [patLt] at h1
    | cons b q => cases r with
      | nil => simp [patLt] at h2
      | cons c r => simp [patLt]
  | cons a p ih =>
    intro q r h1 h2
    cases q with
    | nil => simp [patLt] at h1
    | cons b q =>
      cases r with
      | nil => simp [patLt] at h2
      | cons c r =>
        simp only [patLt] at h1 h2 ⊢
        simp only [UInt8.lt_iff_toNat_lt] at h1 h2 ⊢
        by_cases ab : a.toNat < b.toNat
        · by_cases bc : b.toNat < c.toNat
          · have : a.toNat < c.toNat := by omega
            simp [this]
          · by_cases cb : c.toNat < b.toNat
            · simp [bc, cb] at h2
            · have e : a.toNat < c.toNat := by omega
              simp [e]
        · by_cases ba : b.toNat < a.toNat
          · simp [ab, ba] at h1
          · simp only [ab, ba, if_false] at h1
            have eab : a.toNat = b.toNat := by omega
            by_cases bc : b.toNat < c.toNat
            · have : a.toNat < c.toNat := by omega
              simp [this]
            · by_cases cb : c.toNat < b.toNat
              · simp [bc, cb] at h2
              · simp only [bc, cb, if_false] at h2
                have e1 : ¬ a.toNat < c.toNat := by omega
                have e2 : ¬ c.toNat < a.toNat := by omega
                simp only [e1, e2, if_false]
                exact ih q r h1 h2

private theorem patLt_total : ∀ p q : List Byte, p ≠ q → patLt p q = true ∨ patLt q p = true := by
  intro p
  induction p with
  | nil => intro q h; cases q with
    | nil => exact absurd rfl h
    | cons b q => left; rfl
  | cons a p ih =>
    intro q h
    cases q with
    | nil => right; rfl
    | cons b q =>
      simp only [patLt, UInt8.lt_iff_toNat_lt]
      by_cases ab : a.toNat < b.toNat
      · left; simp [ab]
      · by_cases ba : b.toNat < a.toNat
        · right; simp [ba]
        · have e : a = b := UInt8.toNat_inj.mp (by omega)
          subst e
          have hpq : p ≠ q := fun e => h (by rw [e])
          simp only [ab, if_false]
          exact ih q hpq

/-- strictly increasing pattern table -/
def Sorted (tbl : List (List Byte × Nat)) : Prop := (tbl.map Prod.fst).Pairwise (fun a b => patLt a b = true)

private theorem keys_bumpPat (p : List Byte) (tbl : List (List Byte × Nat)) :
    ∀ k ∈ (bumpPat p tbl).map Prod.fst, k = p ∨ k ∈ tbl.map Prod.fst := by
  induction tbl with
  | nil => intro k hk; simp [bumpPat] at hk; exact Or.inl hk
  | cons e t ih =>
    obtain ⟨q, n⟩ := e
    intro k hk
    simp only [bumpPat] at hk
    split at hk
    · right; simpa using hk
    · split at hk
      · simp only [List.map_cons, List.mem_cons] at hk
        rcases hk with h | h | h
        · exact Or.inl h
        · right; simp [h]
        · right; simp only [List.map_cons, List.mem_cons]; exact Or.inr h
      · simp only [List.map_cons, List.mem_cons] at hk
        rcases hk with h | h
        · right; simp [h]
        · rcases ih k h with h | h
          · exact Or.inl h
          · right; simp only [List.map_cons, List.mem_cons]; exact Or.inr h

private theorem sorted_bumpPat (p : List Byte) (tbl : List (List Byte × Nat)) (h : Sorted tbl) : Sorted (bumpPat p tbl) := by
  induction tbl with
  | nil => simp [bumpPat, Sorted]
  | cons e t ih =>
    obtain ⟨q, n⟩ := e
    unfold Sorted at h ⊢
    simp only [List.map_cons, List.pairwise_cons] at h
    simp only [bumpPat]
    split
    · simpa using h
    · rename_i hne
      have hne' : p ≠ q := by simpa using hne
      split
      · rename_i hlt
        simp only [List.map_cons, List.pairwise_cons]
        refine ⟨?_, h⟩
        intro k hk
        simp only [List.mem_cons] at hk
        rcases hk with rfl | hk
        · exact hlt
        · exact patLt_trans p q k hlt (h.1 k hk)
      · rename_i hnlt
        have hqp : patLt q p = true := by
          rcases patLt_total p q hne' with h1 | h1
          · exact absurd h1 hnlt
          · exact h1
        simp only [List.map_cons, List.pairwise_cons]
        refine ⟨?_, ih h.2⟩
        intro k hk
        rcases keys_bumpPat p t k hk with rfl | hk
        · exact hqp
        · exact h.1 k hk

/-- expansion of a weighted table back into columns -/
def expand (tbl : List (List Byte × Nat)) : List (List Byte) := tbl.flatMap fun e => List.replicate e.2 e.1

private theorem expand_bumpPat (p : List Byte) (tbl : List (List Byte × Nat)) :
    (expand (bumpPat p tbl)).Perm (p :: expand tbl) := by
  induction tbl with
  | nil => simp [bumpPat, expand]
  | cons e t ih =>
    obtain ⟨q, n⟩ := e
    simp only [bumpPat]
    split
    · rename_i he
      have : p = q := by simpa using he
      subst this
      simp [expand, List.replicate_succ]
    · split
      · simp [expand]
      · have : expand ((q, n) :: bumpPat p t) = List.replicate n q ++ expand (bumpPat p t) := by simp [expand]
        rw [this]
        have h2 : expand ((q, n) :: t) = List.replicate n q ++ expand t := by simp [expand]
        rw [h2]
        exact ((List.Perm.append_left _ ih).trans List.perm_middle)

private theorem weights_bumpPat (p : List Byte) (tbl : List (List Byte × Nat)) :
    ((bumpPat p tbl).map Prod.snd).foldl (· + ·) 0 = (tbl.map Prod.snd).foldl (· + ·) 0 + 1 := by
  have hs : ∀ (l : List Nat) (a : Nat), l.foldl (· + ·) a = a + l.foldl (· + ·) 0 := by
    intro l; induction l with
    | nil => intro a; simp
    | cons x t ih => intro a; simp only [List.foldl_cons]; rw [ih (a + x), ih (0 + x)]; omega
  induction tbl with
  | nil => simp [bumpPat]
  | cons e t ih =>
    obtain ⟨q, n⟩ := e
    simp only [bumpPat]
    split
    · simp only [List.map_cons, List.foldl_cons]; rw [hs _ (0 + (n + 1)), hs _ (0 + n)]; omega
    · split
      · simp only [List.map_cons, List.foldl_cons]; rw [hs _ (0 + 1 + n), hs _ (0 + n)]; omega
      · simp only [List.map_cons, List.foldl_cons]; rw [hs _ (0 + n), hs (t.map Prod.snd) (0 + n), ih]; omega

/-- **Site compression loses nothing but redundancy**: the pattern table has pairwise distinct
(strictly increasing) patterns, its weights sum to the number of columns, and expanding every pattern
by its weight gives a permutation of the original columns — so any column-additive statistic (e.g. a
likelihood) is preserved. -/
theorem patternTable_spec (cols : List (List Byte)) :
    Sorted (patternTable cols) ∧
    ((patternTable cols).map Prod.fst).Nodup ∧
    ((patternTable cols).map Prod.snd).foldl (· + ·) 0 = cols.length ∧
    (expand (patternTable cols)).Perm cols := by
  have key : ∀ (cols : List (List Byte)) (acc : List (List Byte × Nat)), Sorted acc →
      Sorted (cols.foldl (fun a c => bumpPat c a) acc) ∧
      ((cols.foldl (fun a c => bumpPat c a) acc).map Prod.snd).foldl (· + ·) 0 = (acc.map Prod.snd).foldl (· + ·) 0 + cols.length ∧
      (expand (cols.foldl (fun a c => bumpPat c a) acc)).Perm (cols.reverse ++ expand acc) := by
    intro cols
    induction cols with
    | nil => intro acc h; simp [h]
    | cons c t ih =>
      intro acc h
      simp only [List.foldl_cons]
      obtain ⟨a1, a2, a3⟩ := ih (bumpPat c acc) (sorted_bumpPat c acc h)
      refine ⟨a1, ?_, ?_⟩
      · rw [a2, weights_bumpPat]; simp; omega
      · refine a3.trans ?_
        simp only [List.reverse_cons, List.append_assoc, List.singleton_append]
        exact List.Perm.append_left _ (expand_bumpPat c acc)
  obtain ⟨h1, h2, h3⟩ := key cols [] (by simp [Sorted])
  refine ⟨h1, ?_, by unfold patternTable; simpa using h2, ?_⟩
  · -- strictly increasing ⇒ distinct
    unfold Sorted at h1
    exact h1.imp (fun {a b} hab e => by rw [e, patLt_irrefl] at hab; cases hab)
  · have : (cols.reverse ++ expand []).Perm cols := by simp [expand, List.reverse_perm]
    exact h3.trans this

/-- a column-additive statistic is preserved by compression: Σ over columns = Σ weight × value over patterns -/
theorem additive_statistic_preserved (f : List Byte → Nat) (cols : List (List Byte)) :
    (cols.map f).foldl (· + ·) 0 = ((expand (patternTable cols)).map f).foldl (· + ·) 0 := by
  have hp := ((patternTable_spec cols).2.2.2).map f
  have hsum : ∀ (l1 l2 : List Nat), l1.Perm l2 → l1.foldl (· + ·) 0 = l2.foldl (· + ·) 0 := by
    intro l1 l2 h
    exact List.Perm.foldl_eq' h (fun x _ y _ z => by omega) 0
  exact (hsum _ _ hp).symm

/-! ## the model of `Compress()` itself -/

private theorem bumpPat_mem (p : List Byte) (tbl : List (List Byte × Nat)) :
    ∀ e ∈ bumpPat p tbl, (e.1 = p ∨ e.1 ∈ tbl.map Prod.fst) ∧ 0 < e.2 ∨ e ∈ tbl := by
  induction tbl with
  | nil => intro e he; simp [bumpPat] at he; subst he; simp
  | cons e0 t ih =>
    obtain ⟨q, n⟩ := e0
    intro e he
    simp only [bumpPat] at he
    split at he
    · rcases List.mem_cons.mp he with rfl | h
      · left; simp
      · right; exact List.mem_cons_of_mem _ h
    · split at he
      · rcases List.mem_cons.mp he with rfl | h
        · left; simp
        · right; exact h
      · rcases List.mem_cons.mp he with rfl | h
        · right; simp
        · rcases ih e h with ⟨h1, h2⟩ | h1
          · left; refine ⟨?_, h2⟩
            rcases h1 with h1 | h1
            · exact Or.inl h1
            · right; simp only [List.map_cons, List.mem_cons]; exact Or.inr h1
          · right; exact List.mem_cons_of_mem _ h1

/-- every entry of the pattern table is one of the columns and has a positive weight -/
theorem patternTable_mem (cols : List (List Byte)) : ∀ e ∈ patternTable cols, e.1 ∈ cols ∧ 0 < e.2 := by
  have key : ∀ (cols : List (List Byte)) (acc : List (List Byte × Nat)) (S : List (List Byte)),
      (∀ e ∈ acc, e.1 ∈ S ∧ 0 < e.2) →
      ∀ e ∈ cols.foldl (fun a c => bumpPat c a) acc, (e.1 ∈ S ∨ e.1 ∈ cols) ∧ 0 < e.2 := by
    intro cols
    induction cols with
    | nil => intro acc S h e he; exact ⟨Or.inl (h e he).1, (h e he).2⟩
    | cons c t ih =>
      intro acc S h e he
      simp only [List.foldl_cons] at he
      have h' : ∀ e ∈ bumpPat c acc, e.1 ∈ (c :: S) ∧ 0 < e.2 := by
        intro e he
        rcases bumpPat_mem c acc e he with ⟨h1, h2⟩ | h1
        · refine ⟨?_, h2⟩
          rcases h1 with h1 | h1
          · simp [h1]
          · obtain ⟨e', he', ee⟩ := List.mem_map.mp h1
            rw [← ee]; exact List.mem_cons_of_mem _ (h e' he').1
        · exact ⟨List.mem_cons_of_mem _ (h e h1).1, (h e h1).2⟩
      obtain ⟨a1, a2⟩ := ih (bumpPat c acc) (c :: S) h' e he
      refine ⟨?_, a2⟩
      rcases a1 with a1 | a1
      · rcases List.mem_cons.mp a1 with a1 | a1
        · right; simp [a1]
        · left; exact a1
      · right; exact List.mem_cons_of_mem _ a1
  intro e he
  have := key cols [] [] (by simp) e he
  simpa using this


/-- the columns of rows with (cached) length `L` -/
def columnsOf (rows : CRows) (L : Int) : List (List Byte) := (List.range L.toNat).map (columnAt rows)

private theorem zipIdx_getD (p : List Byte) (rows : CRows) (h : p.length = rows.length) :
    rows.zipIdx.map (fun ri => p.getD ri.2 0) = p := by
  apply List.ext_getElem (by simp [h])
  intro i h1 h2
  simp [List.getD_eq_getElem?_getD, h2]

private theorem weights_sum_eq (l : List Nat) : l.foldl (· + ·) 0 = l.sum := by
  have hs : ∀ (l : List Nat) (a : Nat), l.foldl (· + ·) a = a + l.sum := by
    intro l; induction l with
    | nil => intro a; simp
    | cons x t ih => intro a; simp only [List.foldl_cons, List.sum_cons]; rw [ih]; omega
  simpa using hs l 0

theorem compress_columns (rows : CRows) (L : Int) :
    columnsOf (compress rows L).1 (compress rows L).2.2 = (patternTable (columnsOf rows L)).map Prod.fst := by
  unfold compress columnsOf
  simp only [Int.toNat_natCast]
  apply List.ext_getElem (by simp)
  intro j h1 h2
  simp only [List.length_map, List.length_range] at h1 h2
  simp only [List.getElem_map, List.getElem_range, columnAt, List.map_map, Function.comp_def]
  have hmem := (patternTable_mem _ _ (List.getElem_mem h2)).1
  obtain ⟨j', _, e⟩ := List.mem_map.mp hmem
  have hlen : ((patternTable ((List.range L.toNat).map (columnAt rows)))[j]).1.length = rows.length := by
    rw [← e]; simp [columnAt]
  have := zipIdx_getD _ rows hlen
  rw [← this]
  apply List.map_congr_left
  intro ri _
  simp [List.getD_eq_getElem?_getD, h2]


private theorem count_expand_of_not_mem (p : List Byte) (tbl : List (List Byte × Nat)) (h : p ∉ tbl.map Prod.fst) :
    (expand tbl).count p = 0 := by
  rw [List.count_eq_zero]
  intro hm
  simp only [expand, List.mem_flatMap, List.mem_replicate] at hm
  obtain ⟨e, he, _, e2⟩ := hm
  exact h (List.mem_map.mpr ⟨e, he, e2.symm⟩)

private theorem count_expand (tbl : List (List Byte × Nat)) (hn : (tbl.map Prod.fst).Nodup) :
    ∀ e ∈ tbl, (expand tbl).count e.1 = e.2 := by
  induction tbl with
  | nil => simp
  | cons e0 t ih =>
    simp only [List.map_cons, List.nodup_cons] at hn
    have hx : expand (e0 :: t) = List.replicate e0.2 e0.1 ++ expand t := by simp [expand]
    intro e he
    rw [hx, List.count_append]
    rcases List.mem_cons.mp he with rfl | he
    · rw [count_expand_of_not_mem _ _ hn.1]; simp
    · have hne : e0.1 ≠ e.1 := fun h => hn.1 (h ▸ List.mem_map_of_mem (f := Prod.fst) he)
      rw [ih hn.2 e he, List.count_replicate]
      simp [hne]

/-- **Site compression loses nothing but redundancy** (the model `Model.compress` of `Compress()`): names
and row order are kept, every row gets the new length, there is one weight per new column; the new columns
are pairwise distinct; the weights are positive and sum to the original number of sites; expanding every
new column by its weight gives a rearrangement of the original columns; hence every new column occurs
among the original columns exactly as often as its weight says, and every original column is one of the
new columns. -/
theorem compress_spec (rows : CRows) (L : Int) :
    (compress rows L).1.map Prod.fst = rows.map Prod.fst ∧
    (∀ r ∈ (compress rows L).1, (r.2.length : Int) = (compress rows L).2.2) ∧
    ((compress rows L).2.1.length : Int) = (compress rows L).2.2 ∧
    (columnsOf (compress rows L).1 (compress rows L).2.2).Nodup ∧
    (compress rows L).2.1.sum = L.toNat ∧ (∀ w ∈ (compress rows L).2.1, 0 < w) ∧
    (expand ((columnsOf (compress rows L).1 (compress rows L).2.2).zip (compress rows L).2.1)).Perm (columnsOf rows L) ∧
    (∀ e ∈ (columnsOf (compress rows L).1 (compress rows L).2.2).zip (compress rows L).2.1,
        (columnsOf rows L).count e.1 = e.2) ∧
    (∀ c ∈ columnsOf rows L, c ∈ columnsOf (compress rows L).1 (compress rows L).2.2) := by
  have hc := compress_columns rows L
  obtain ⟨_, s2, s3, s4⟩ := patternTable_spec (columnsOf rows L)
  have hw : (compress rows L).2.1 = (patternTable (columnsOf rows L)).map Prod.snd := rfl
  have hz : (columnsOf (compress rows L).1 (compress rows L).2.2).zip (compress rows L).2.1 = patternTable (columnsOf rows L) := by
    rw [hc, hw]
    exact (List.zip_of_prod rfl rfl).symm
  refine ⟨?_, ?_, ?_, ?_, ?_, ?_, ?_, ?_, ?_⟩
  · simp only [compress, List.map_map, Function.comp_def]
    apply List.ext_getElem (by simp)
    intro i h1 h2
    simp
  · intro r hr
    simp only [compress, List.mem_map] at hr
    obtain ⟨ri, _, e⟩ := hr
    subst e
    simp [compress]
  · simp [compress]
  · rw [hc]; exact s2
  · rw [hw, ← weights_sum_eq, s3]; simp [columnsOf]
  · intro w hwm
    rw [hw] at hwm
    obtain ⟨e, he, ee⟩ := List.mem_map.mp hwm
    rw [← ee]; exact (patternTable_mem _ e he).2
  · rw [hz]; exact s4
  · rw [hz]
    intro e he
    rw [← s4.count_eq]
    exact count_expand _ s2 e he
  · intro c hcm
    rw [hc]
    have : c ∈ expand (patternTable (columnsOf rows L)) := s4.symm.subset hcm
    simp only [expand, List.mem_flatMap, List.mem_replicate] at this
    obtain ⟨e, he, _, e2⟩ := this
    exact List.mem_map.mpr ⟨e, he, e2.symm⟩


private theorem sum_map_expand (f : List Byte → Nat) (tbl : List (List Byte × Nat)) :
    ((expand tbl).map f).sum = (tbl.map fun e => e.2 * f e.1).sum := by
  induction tbl with
  | nil => simp [expand]
  | cons e t ih =>
    have hx : expand (e :: t) = List.replicate e.2 e.1 ++ expand t := by simp [expand]
    rw [hx, List.map_append, List.sum_append, ih]
    simp [List.map_replicate, List.sum_replicate_nat]

/-- **a column-additive statistic is preserved by `Compress()`**: the sum of `f` over the original columns
equals the weighted sum over the compressed columns -/
theorem compress_additive_statistic (f : List Byte → Nat) (rows : CRows) (L : Int) :
    ((columnsOf rows L).map f).sum =
      (((columnsOf (compress rows L).1 (compress rows L).2.2).zip (compress rows L).2.1).map fun e => e.2 * f e.1).sum := by
  have hp := (compress_spec rows L).2.2.2.2.2.2.1
  rw [← sum_map_expand]
  exact ((hp.map f).sum_nat).symm

/-! ## de-duplication (reference model of C01) -/

/-- rows kept by the reference de-duplication -/
def keptRows (key : Seq → Seq) (rows : List (String × Seq)) : List (String × Seq) :=
  (Spec.dedupRows key rows []).map fun g => (g.2.1, g.2.2.1)

private theorem dedupRows_keys (key : Seq → Seq) : ∀ (rows : List (String × Seq)) (acc : List (Seq × String × Seq × List String)),
    (acc.map Prod.fst).Nodup → (∀ g ∈ acc, g.1 = key g.2.2.1) →
    ((Spec.dedupRows key rows acc).map Prod.fst).Nodup ∧ (∀ g ∈ Spec.dedupRows key rows acc, g.1 = key g.2.2.1) ∧
    (∀ k ∈ acc.map Prod.fst, k ∈ (Spec.dedupRows key rows acc).map Prod.fst) ∧
    (∀ r ∈ rows, key r.2 ∈ (Spec.dedupRows key rows acc).map Prod.fst) := by
  intro rows
  induction rows with
  | nil => intro acc h1 h2; exact ⟨h1, h2, fun k hk => hk, by simp⟩
  | cons r t ih =>
    intro acc h1 h2
    simp only [Spec.dedupRows]
    split
    · rename_i hany
      -- same keys after updating the group
      have hk : (acc.map fun g => if g.1 == key r.2 then (g.1, g.2.1, g.2.2.1, g.2.2.2 ++ [r.1]) else g).map Prod.fst = acc.map Prod.fst := by
        rw [List.map_map]; apply List.map_congr_left; intro g _; simp only [Function.comp]; split <;> rfl
      have h2' : ∀ g ∈ (acc.map fun g => if g.1 == key r.2 then (g.1, g.2.1, g.2.2.1, g.2.2.2 ++ [r.1]) else g), g.1 = key g.2.2.1 := by
        intro g hg
        obtain ⟨g0, hg0, e⟩ := List.mem_map.mp hg
        split at e <;> (subst e; exact h2 g0 hg0)
      obtain ⟨a1, a2, a3, a4⟩ := ih _ (by rw [hk]; exact h1) h2'
      refine ⟨a1, a2, fun k hk' => a3 k (by rw [hk]; exact hk'), ?_⟩
      intro x hx
      rcases List.mem_cons.mp hx with rfl | hx
      · apply a3; rw [hk]
        simp only [List.any_eq_true, beq_iff_eq] at hany
        obtain ⟨g, hg, e⟩ := hany
        exact List.mem_map.mpr ⟨g, hg, e⟩
      · exact a4 x hx
    · rename_i hany
      have hnew : key r.2 ∉ acc.map Prod.fst := by
        intro hc
        obtain ⟨g, hg, e⟩ := List.mem_map.mp hc
        apply hany
        simp only [List.any_eq_true, beq_iff_eq]
        exact ⟨g, hg, e⟩
      obtain ⟨a1, a2, a3, a4⟩ := ih (acc ++ [(key r.2, r.1, r.2, [r.1])])
        (by simp only [List.map_append, List.map_cons, List.map_nil]
            exact List.nodup_append.mpr ⟨h1, by simp, by
              intro a ha b hb; simp only [List.mem_singleton] at hb; subst hb; intro e; subst e; exact hnew ha⟩)
        (by intro g hg; rcases List.mem_append.mp hg with hg | hg
            · exact h2 g hg
            · simp only [List.mem_singleton] at hg; subst hg; rfl)
      refine ⟨a1, a2, fun k hk' => a3 k (by simp [hk']), ?_⟩
      intro x hx
      rcases List.mem_cons.mp hx with rfl | hx
      · exact a3 _ (by simp)
      · exact a4 x hx

/-- **De-duplication keeps pairwise distinct sequences (under the comparison key), and every input
sequence has its representative among the kept ones.** -/
theorem dedup_distinct_and_complete (key : Seq → Seq) (rows : List (String × Seq)) :
    ((keptRows key rows).map fun r => key r.2).Nodup ∧
    ∀ r ∈ rows, key r.2 ∈ (keptRows key rows).map fun r => key r.2 := by
  obtain ⟨a1, a2, _, a4⟩ := dedupRows_keys key rows [] (by simp) (by simp)
  have e : (keptRows key rows).map (fun r => key r.2) = (Spec.dedupRows key rows []).map Prod.fst := by
    unfold keptRows
    rw [List.map_map]
    apply List.map_congr_left
    intro g hg
    simp only [Function.comp]
    exact (a2 g hg).symm
  rw [e]
  exact ⟨a1, a4⟩


/-! ## de-duplication: the Go-mirroring model `Model.deduplicate`

`Model.deduplicate` mirrors `seqbag.Deduplicate`: the container is cleared and re-filled through
`AddSequence` (name index, duplicate-name policy and renaming included), a map from compare-string to
group number and the `identical` slice of slices are maintained.  The theorems below are stated for every
container whose names are pairwise distinct — the standing assumption of the property ("uniquely named",
C01; the reference model of C01 leaves `Deduplicate` unspecified otherwise, because re-adding a repeated
name renames or drops the row) — every alphabet, every duplicate-name policy and both values of `nAsGap`. -/

open Gv.Spec Gv.Proofs.Dedup Gv.Proofs.BagInv

/-- the names of a container, in row order -/
def names (b : Bag) : List String := b.rows.map (·.name)

private theorem pairs_names (b : Bag) : (pairs b).map Prod.fst = names b := by
  simp [pairs, names, List.map_map, Function.comp_def]

/-- the model never reports an error, returns the rows and groups of the reference loop `Spec.dedupRows`,
and leaves policy, alphabet, kind and cached length alone -/
theorem dedup_model_eq_reference (g : Bool) (b : Bag) (hn : (names b).Nodup) :
    (deduplicate g b).2.1 = false ∧
    pairs (deduplicate g b).1 = (dedupRows (dedupKey b.alphabet g) (pairs b) []).map rowOf ∧
    (deduplicate g b).2.2 = (dedupRows (dedupKey b.alphabet g) (pairs b) []).map grpOf ∧
    SameSettings b (deduplicate g b).1 :=
  dedupLoop_eq_dedupRows b.alphabet g b.rows (clearBase b) [] [] [] (inv_clearBase b) rfl rfl rfl
    (by simp) (by simpa [names] using hn)

/-- meaning of `Spec.firstOccs` by positions: row `i` is kept iff no earlier row has its key -/
theorem firstOccs_mem_iff (key : Seq → Seq) (rows : List (String × Seq)) (hd : rows.Nodup) (i : Nat) (h : i < rows.length) :
    rows[i] ∈ firstOccs key rows ↔ ∀ j (hj : j < i), key (rows[j]'(by omega)).2 ≠ key rows[i].2 := by
  unfold firstOccs
  simp only [List.mem_map, List.mem_filter, Bool.not_eq_true', List.any_eq_false, beq_iff_eq, Prod.exists,
    exists_and_right, exists_eq_right]
  constructor
  · rintro ⟨k, hk, hall⟩ j hj
    obtain ⟨_, hk2, e⟩ := List.mem_zipIdx hk
    simp only [Nat.sub_zero, Nat.zero_add] at e hk2
    have hik : i = k := (List.getElem_inj hd).mp e
    subst hik
    exact hall _ (List.mem_take_iff_getElem.mpr ⟨j, by omega, rfl⟩)
  · intro hall
    refine ⟨i, ?_, ?_⟩
    · exact List.mem_zipIdx_iff_getElem?.mpr (by simp [h])
    · intro y hy
      obtain ⟨j, hj, e⟩ := List.mem_take_iff_getElem.mp hy
      subst e
      exact hall j (by omega)

/-- **De-duplication keeps, in original order, exactly the first occurrence of every distinct sequence**
(compared through `dedupKey`, i.e. optionally with N/X read as gaps): the rows of the result are
`Spec.firstOccs`; they form a subsequence of the input (order kept, names and residues untouched), their
keys are pairwise distinct, every input row has its key among them, and the row at position `i` is kept
iff no earlier row has the same key.  No error is reported and the settings are unchanged. -/
theorem dedup_keeps_first_occurrences_in_order (g : Bool) (b : Bag) (hn : (names b).Nodup) :
    (deduplicate g b).2.1 = false ∧
    pairs (deduplicate g b).1 = firstOccs (dedupKey b.alphabet g) (pairs b) ∧
    (pairs (deduplicate g b).1).Sublist (pairs b) ∧
    ((pairs (deduplicate g b).1).map fun x => dedupKey b.alphabet g x.2).Nodup ∧
    (∀ r ∈ pairs b, ∃ x ∈ pairs (deduplicate g b).1, dedupKey b.alphabet g x.2 = dedupKey b.alphabet g r.2) ∧
    (∀ i (h : i < (pairs b).length), (pairs b)[i] ∈ pairs (deduplicate g b).1 ↔
      ∀ j (hj : j < i), dedupKey b.alphabet g ((pairs b)[j]'(by omega)).2 ≠ dedupKey b.alphabet g (pairs b)[i].2) ∧
    SameSettings b (deduplicate g b).1 := by
  obtain ⟨h1, h2, _, h4⟩ := dedup_model_eq_reference g b hn
  rw [dedupRows_rows] at h2
  have hd : (pairs b).Nodup := by
    have : ((pairs b).map Prod.fst).Nodup := by rw [pairs_names]; exact hn
    exact List.Pairwise.of_map Prod.fst (fun a b h e => h (by rw [e])) this
  refine ⟨h1, h2, ?_, ?_, ?_, ?_, h4⟩
  · rw [h2]; exact firstOccs_sublist _ _
  · rw [h2]; exact firstOccs_keys_nodup _ _
  · intro r hr
    rw [h2]
    exact (firstOccs_key_iff _ _ _).mpr ⟨r, hr, rfl⟩
  · intro i h
    rw [h2]
    exact firstOccs_mem_iff _ _ hd i h

/-- **The reported groups partition the input names**: concatenated they are a rearrangement of the names
(every name in exactly one group, nothing else), and no group is empty. -/
theorem dedup_groups_partition_names (g : Bool) (b : Bag) (hn : (names b).Nodup) :
    ((deduplicate g b).2.2.flatten).Perm (names b) ∧ ((deduplicate g b).2.2.flatten).Nodup ∧
    ∀ grp ∈ (deduplicate g b).2.2, grp ≠ [] := by
  obtain ⟨_, _, h3, _⟩ := dedup_model_eq_reference g b hn
  have hp : ((deduplicate g b).2.2.flatten).Perm (names b) := by
    rw [h3, ← pairs_names]
    simpa using dedupRows_partition (dedupKey b.alphabet g) (pairs b) [] (by simp)
  refine ⟨hp, hp.nodup_iff.mpr hn, ?_⟩
  intro grp hgrp e
  rw [h3] at hgrp
  obtain ⟨x, hx, ex⟩ := List.mem_map.mp hgrp
  have := dedupRows_leader (dedupKey b.alphabet g) (pairs b) [] (by simp) x hx
  rw [ex, e] at this
  simp at this

/-- **Each group is led by its kept representative**: there is one group per kept row, in the same order;
the `k`-th group starts with the name of the `k`-th kept row and consists of the names of exactly the rows
having that row's key, in original order. -/
theorem dedup_group_led_by_kept (g : Bool) (b : Bag) (hn : (names b).Nodup) :
    (deduplicate g b).2.2.map List.head? = (pairs (deduplicate g b).1).map (fun x => some x.1) ∧
    (deduplicate g b).2.2 = (pairs (deduplicate g b).1).map (fun x =>
      ((pairs b).filter fun y => dedupKey b.alphabet g y.2 == dedupKey b.alphabet g x.2).map Prod.fst) := by
  obtain ⟨_, h2, h3, _⟩ := dedup_model_eq_reference g b hn
  constructor
  · rw [h2, h3, List.map_map, List.map_map]
    apply List.map_congr_left
    intro x hx
    exact dedupRows_leader (dedupKey b.alphabet g) (pairs b) [] (by simp) x hx
  · rw [h3, dedupRows_groups, h2, dedupRows_rows]
    rfl

/-- **De-duplication is idempotent**: a second pass (same `nAsGap`) keeps every row, name and residue,
reports one singleton group per row and no error. -/
theorem dedup_idempotent (g : Bool) (b : Bag) (hn : (names b).Nodup) :
    (deduplicate g (deduplicate g b).1).2.1 = false ∧
    pairs (deduplicate g (deduplicate g b).1).1 = pairs (deduplicate g b).1 ∧
    (deduplicate g (deduplicate g b).1).2.2 = (pairs (deduplicate g b).1).map (fun x => [x.1]) ∧
    SameSettings b (deduplicate g (deduplicate g b).1).1 := by
  obtain ⟨_, h2, h3, _, _, _, h4⟩ := dedup_keeps_first_occurrences_in_order g b hn
  have hn1 : (names (deduplicate g b).1).Nodup := by
    rw [← pairs_names]
    have := (h3.map Prod.fst)
    rw [pairs_names, pairs_names] at this
    rw [pairs_names]
    exact this.nodup hn
  obtain ⟨a1, a2, a3, a4⟩ := dedup_model_eq_reference g (deduplicate g b).1 hn1
  have hal : (deduplicate g b).1.alphabet = b.alphabet := h4.2.1
  rw [hal] at a2 a3
  have hd := dedupRows_distinct (dedupKey b.alphabet g) (pairs (deduplicate g b).1) []
    (by rw [h2]; simpa using firstOccs_keys_nodup (dedupKey b.alphabet g) (pairs b))
  rw [hd] at a2 a3
  refine ⟨a1, ?_, ?_, ?_⟩
  · rw [a2]; simp [rowOf, List.map_map, Function.comp_def]
  · rw [a3]; simp [grpOf, List.map_map, Function.comp_def]
  · obtain ⟨b1, b2, b3, b4⟩ := a4
    obtain ⟨c1, c2, c3, c4⟩ := h4
    exact ⟨b1.trans c1, b2.trans c2, b3.trans c3, b4.trans c4⟩

/-- **No assumption on the names** (any container whatsoever, policies NONE and IGNORE_SEQUENCE): even when a
caller's `Rename` has made names collide — re-adding then renames rows — the kept *sequences* are exactly the
first occurrences in original order, the groups are exactly the reference groups, and no error is reported.
(Under IGNORE_NAME rows with a repeated name are dropped: `dedup_repeated_names_dropped`.) -/
theorem dedup_sequences_any_names (g : Bool) (b : Bag) (hpol : b.policy ≠ IGNORE_NAME) :
    (deduplicate g b).2.1 = false ∧
    (pairs (deduplicate g b).1).map Prod.snd = (firstOccs (dedupKey b.alphabet g) (pairs b)).map Prod.snd ∧
    (deduplicate g b).2.2 = groupsOf (dedupKey b.alphabet g) (pairs b) ∧
    SameSettings b (deduplicate g b).1 := by
  obtain ⟨a1, a2, a3, a4⟩ := dedupLoop_seqs b.alphabet g b.rows (clearBase b) [] [] [] (by simpa [clearBase] using hpol)
    rfl (by simp) rfl rfl (by simp)
  refine ⟨a1, ?_, ?_, a4⟩
  · have e : (dedupRows (dedupKey b.alphabet g) (pairs b) []).map (fun e => e.2.2.1) =
        ((dedupRows (dedupKey b.alphabet g) (pairs b) []).map rowOf).map Prod.snd := by
      rw [List.map_map]; rfl
    rw [← dedupRows_rows, ← e]
    exact a2
  · rw [← dedupRows_groups]
    exact a3

/-- what the comparison key is: the sequence itself, or (with `nAsGap`) the sequence with every `N`
(nucleotides) resp. `X` (amino acids) replaced by a gap; other alphabets are compared literally -/
theorem dedupKey_spec (s : Seq) :
    (∀ a, dedupKey a false s = s) ∧
    dedupKey NUCLEOTIDS true s = s.map (fun c => if c = 78 then GAP else c) ∧
    dedupKey AMINOACIDS true s = s.map (fun c => if c = 88 then GAP else c) ∧
    (∀ a, a ≠ AMINOACIDS → a ≠ NUCLEOTIDS → dedupKey a true s = s) := by
  refine ⟨fun a => rfl, ?_, ?_, ?_⟩
  · simp [dedupKey, NUCLEOTIDS, AMINOACIDS]
  · simp [dedupKey, AMINOACIDS]
  · intro a h1 h2
    simp [dedupKey, h1, h2]

/-- with `nAsGap` two nucleotide sequences are identified iff they have the same length and agree at every
position up to exchanging `N` and `-` -/
theorem dedupKey_nt_eq_iff (s t : Seq) :
    dedupKey NUCLEOTIDS true s = dedupKey NUCLEOTIDS true t ↔
      s.length = t.length ∧ ∀ i (h1 : i < s.length) (h2 : i < t.length),
        s[i] = t[i] ∨ ((s[i] = 78 ∨ s[i] = GAP) ∧ (t[i] = 78 ∨ t[i] = GAP)) := by
  rw [(dedupKey_spec s).2.1, (dedupKey_spec t).2.1]
  constructor
  · intro h
    have hl : s.length = t.length := by simpa using congrArg List.length h
    refine ⟨hl, fun i h1 h2 => ?_⟩
    have := congrArg (fun l => l[i]?) h
    simp only [List.getElem?_map, List.getElem?_eq_getElem h1, List.getElem?_eq_getElem h2, Option.map_some,
      Option.some.injEq] at this
    by_cases a : s[i] = 78 <;> by_cases c : t[i] = 78 <;> simp_all
  · rintro ⟨hl, h⟩
    apply List.ext_getElem (by simpa using hl)
    intro i h1 h2
    simp only [List.length_map] at h1 h2
    simp only [List.getElem_map]
    rcases h i h1 h2 with e | ⟨e1, e2⟩
    · rw [e]
    · rcases e1 with e1 | e1 <;> rcases e2 with e2 | e2 <;> simp [e1, e2, GAP]

/-! ## non-vacuity -/

example : patternTable [[65, 84], [67, 71], [67, 71], [65, 84]] = [([65, 84], 2), ([67, 71], 2)] := by decide
example : compress [("a", [65, 67, 65, 65]), ("b", [84, 71, 84, 84])] 4 =
    ([("a", [65, 67]), ("b", [84, 71])], [3, 1], 2) := by decide
example : columnsOf [("a", [65, 67, 65, 65]), ("b", [84, 71, 84, 84])] 4 = [[65, 84], [67, 71], [65, 84], [65, 84]] := by decide
example : keptRows id [("a", [65]), ("b", [65]), ("c", [67])] = [("a", [65]), ("c", [67])] := by decide

/-- a nucleotide container with uniquely named rows `ACN, AC-, TTT, ACN, TTT` -/
def exBag : Bag :=
  (addAllStop (newAlign NUCLEOTIDS) [("a", [65, 67, 78]), ("b", [65, 67, 45]), ("c", [84, 84, 84]), ("d", [65, 67, 78]), ("e", [84, 84, 84])]).1

example : (names exBag).Nodup := by decide
-- literal comparison: `b` differs from `a`; with N-as-gap it joins `a`'s group
example : pairs (deduplicate false exBag).1 = [("a", [65, 67, 78]), ("b", [65, 67, 45]), ("c", [84, 84, 84])] ∧
    (deduplicate false exBag).2.2 = [["a", "d"], ["b"], ["c", "e"]] := by decide
example : pairs (deduplicate true exBag).1 = [("a", [65, 67, 78]), ("c", [84, 84, 84])] ∧
    (deduplicate true exBag).2.2 = [["a", "b", "d"], ["c", "e"]] := by decide
example : (deduplicate true (deduplicate true exBag).1).2.2 = [["a"], ["c"]] := by decide

/-- why the names must be pairwise distinct: after a caller's `Rename` has given every row the name `a`,
re-adding renames the kept rows (policy NONE) … -/
example : (renameWith (fun _ => "a") exBag).policy ≠ IGNORE_NAME := by decide

theorem dedup_repeated_names_renamed :
    pairs (deduplicate false (renameWith (fun _ => "a") exBag)).1 =
      [("a", [65, 67, 78]), ("a_0001", [65, 67, 45]), ("a_0002", [84, 84, 84])] ∧
    (deduplicate false (renameWith (fun _ => "a") exBag)).2.2 = [["a", "a"], ["a"], ["a", "a"]] := by decide

/-- … or silently drops rows with distinct sequences (policy IGNORE_NAME) while still reporting their groups -/
theorem dedup_repeated_names_dropped :
    pairs (deduplicate false { renameWith (fun _ => "a") exBag with policy := IGNORE_NAME }).1 = [("a", [65, 67, 78])] ∧
    (deduplicate false { renameWith (fun _ => "a") exBag with policy := IGNORE_NAME }).2.2 = [["a", "a"], ["a"], ["a", "a"]] := by
  decide

/-! ## the look-up tables are keyed by the content itself (T3 facts regenerated from the source)

The models of `Deduplicate` and `Compress` compare whole sequences / whole column patterns.  That is what the code does
only as long as its look-up table is keyed by the content (a Go `string` holding every byte): a table keyed by a digest
(`hash/*`, CRC, `maphash`, a hand-rolled sum) merges different contents that collide, which the correspondence check can
exhibit only for digests it holds collisions for (`driver/hashpairs.py`: seven 32-bit functions) and never for a 64-bit
one.  `tools/extract/keyfacts.go` regenerates, for both functions, the key type of every map they make, every call through
a package, every plain function call / conversion and the text of every look-up key; the theorem below is re-checked
against what the source says now. -/

/-- calls through packages that cannot digest a key: string surgery, error construction, the radix tree -/
def allowedPkgCalls : List String :=
  ["strings.ReplaceAll", "strings.Replace", "strings.ToUpper", "strings.Repeat", "fmt.Errorf", "errors.New", "radix.New"]

/-- builtins and conversions -/
def allowedPlainCalls : List String :=
  ["append", "len", "cap", "make", "new", "copy", "delete", "string", "uint8", "byte", "int", "min", "max"]

def keyedByContent (f : Gen.KeyFacts.Fn) : Bool :=
  f.mapKeyTypes.all (· == "string") && f.pkgCalls.all allowedPkgCalls.contains &&
    f.plainCalls.all allowedPlainCalls.contains && !f.lookupKeys.isEmpty

/-- **`Deduplicate` and `Compress` key their tables by the content**: every map they make has `string` keys, they call no
package and no helper that could replace the content by a digest, and they do look a key up. -/
theorem lookup_tables_keyed_by_content :
    Gen.KeyFacts.fns.map (·.name) = ["Deduplicate", "Compress"] ∧ Gen.KeyFacts.fns.all keyedByContent = true := by
  decide +kernel

/-- the predicate does tell the two situations apart: a table keyed by a 32-bit checksum is refused -/
example : keyedByContent ⟨"align/seqbag.go", "Deduplicate", ["uint32"], ["crc32.ChecksumIEEE"], ["string"], ["index:key"], 1⟩
    = false := by
  decide +kernel

end Gv.Props.C13
