import Gv.Model.Compress
import Gv.Spec.Bag
/-!
# C13 — de-duplication and site compression lose nothing but redundancy
-/
namespace Gv.Props.C13
open Gv Gv.Model

/-! ## the order on patterns -/

private theorem patLt_irrefl : ∀ p : List Byte, patLt p p = false := by
  intro p; induction p with
  | nil => rfl
  | cons a t ih => simp [patLt, ih]

private theorem patLt_trans : ∀ p q r : List Byte, patLt p q = true → patLt q r = true → patLt p r = true := by
  intro p
  induction p with
  | nil =>
    intro q r h1 h2
    cases q with
    | nil => simp [patLt] at h1
    | cons b q => cases r with
      | nil => simp [patLt] at h2
      | cons c r => simp [patLt]
  | cons a p ih =>
    intro q r h1 h2
    cases q with
    | nil => simp [patLt] at h1
    | cons b q =>
      cases r with
      | nil => simp [patLt] at h2
      | cons c r =>
        simp only [patLt] at h1 h2 ⊢
        simp only [UInt8.lt_iff_toNat_lt] at h1 h2 ⊢
        by_cases ab : a.toNat < b.toNat
        · by_cases bc : b.toNat < c.toNat
          · have : a.toNat < c.toNat := by omega
            simp [this]
          · by_cases cb : c.toNat < b.toNat
            · simp [bc, cb] at h2
            · have e : a.toNat < c.toNat := by omega
              simp [e]
        · by_cases ba : b.toNat < a.toNat
          · simp [ab, ba] at h1
          · simp only [ab, ba, if_false] at h1
            have eab : a.toNat = b.toNat := by omega
            by_cases bc : b.toNat < c.toNat
            · have : a.toNat < c.toNat := by omega
              simp [this]
            · by_cases cb : c.toNat < b.toNat
              · simp [bc, cb] at h2
              · simp only [bc, cb, if_false] at h2
                have e1 : ¬ a.toNat < c.toNat := by omega
                have e2 : ¬ c.toNat < a.toNat := by omega
                simp only [e1, e2, if_false]
                exact ih q r h1 h2

private theorem patLt_total : ∀ p q : List Byte, p ≠ q → patLt p q = true ∨ patLt q p = true := by
  intro p
  induction p with
  | nil => intro q h; cases q with
    | nil => exact absurd rfl h
    | cons b q => left; rfl
  | cons a p ih =>
    intro q h
    cases q with
    | nil => right; rfl
    | cons b q =>
      simp only [patLt, UInt8.lt_iff_toNat_lt]
      by_cases ab : a.toNat < b.toNat
      · left; simp [ab]
      · by_cases ba : b.toNat < a.toNat
        · right; simp [ba]
        · have e : a = b := UInt8.toNat_inj.mp (by omega)
          subst e
          have hpq : p ≠ q := fun e => h (by rw [e])
          simp only [ab, if_false]
          exact ih q hpq

/-- strictly increasing pattern table -/
def Sorted (tbl : List (List Byte × Nat)) : Prop := (tbl.map Prod.fst).Pairwise (fun a b => patLt a b = true)

private theorem keys_bumpPat (p : List Byte) (tbl : List (List Byte × Nat)) :
    ∀ k ∈ (bumpPat p tbl).map Prod.fst, k = p ∨ k ∈ tbl.map Prod.fst := by
  induction tbl with
  | nil => intro k hk; simp [bumpPat] at hk; exact Or.inl hk
  | cons e t ih =>
    obtain ⟨q, n⟩ := e
    intro k hk
    simp only [bumpPat] at hk
    split at hk
    · right; simpa using hk
    · split at hk
      · simp only [List.map_cons, List.mem_cons] at hk
        rcases hk with h | h | h
        · exact Or.inl h
        · right; simp [h]
        · right; simp only [List.map_cons, List.mem_cons]; exact Or.inr h
      · simp only [List.map_cons, List.mem_cons] at hk
        rcases hk with h | h
        · right; simp [h]
        · rcases ih k h with h | h
          · exact Or.inl h
          · right; simp only [List.map_cons, List.mem_cons]; exact Or.inr h

private theorem sorted_bumpPat (p : List Byte) (tbl : List (List Byte × Nat)) (h : Sorted tbl) : Sorted (bumpPat p tbl) := by
  induction tbl with
  | nil => simp [bumpPat, Sorted]
  | cons e t ih =>
    obtain ⟨q, n⟩ := e
    unfold Sorted at h ⊢
    simp only [List.map_cons, List.pairwise_cons] at h
    simp only [bumpPat]
    split
    · simpa using h
    · rename_i hne
      have hne' : p ≠ q := by simpa using hne
      split
      · rename_i hlt
        simp only [List.map_cons, List.pairwise_cons]
        refine ⟨?_, h⟩
        intro k hk
        simp only [List.mem_cons] at hk
        rcases hk with rfl | hk
        · exact hlt
        · exact patLt_trans p q k hlt (h.1 k hk)
      · rename_i hnlt
        have hqp : patLt q p = true := by
          rcases patLt_total p q hne' with h1 | h1
          · exact absurd h1 hnlt
          · exact h1
        simp only [List.map_cons, List.pairwise_cons]
        refine ⟨?_, ih h.2⟩
        intro k hk
        rcases keys_bumpPat p t k hk with rfl | hk
        · exact hqp
        · exact h.1 k hk

/-- expansion of a weighted table back into columns -/
def expand (tbl : List (List Byte × Nat)) : List (List Byte) := tbl.flatMap fun e => List.replicate e.2 e.1

private theorem expand_bumpPat (p : List Byte) (tbl : List (List Byte × Nat)) :
    (expand (bumpPat p tbl)).Perm (p :: expand tbl) := by
  induction tbl with
  | nil => simp [bumpPat, expand]
  | cons e t ih =>
    obtain ⟨q, n⟩ := e
    simp only [bumpPat]
    split
    · rename_i he
      have : p = q := by simpa using he
      subst this
      simp [expand, List.replicate_succ]
    · split
      · simp [expand]
      · have : expand ((q, n) :: bumpPat p t) = List.replicate n q ++ expand (bumpPat p t) := by simp [expand]
        rw [this]
        have h2 : expand ((q, n) :: t) = List.replicate n q ++ expand t := by simp [expand]
        rw [h2]
        exact ((List.Perm.append_left _ ih).trans List.perm_middle)

private theorem weights_bumpPat (p : List Byte) (tbl : List (List Byte × Nat)) :
    ((bumpPat p tbl).map Prod.snd).foldl (· + ·) 0 = (tbl.map Prod.snd).foldl (· + ·) 0 + 1 := by
  have hs : ∀ (l : List Nat) (a : Nat), l.foldl (· + ·) a = a + l.foldl (· + ·) 0 := by
    intro l; induction l with
    | nil => intro a; simp
    | cons x t ih => intro a; simp only [List.foldl_cons]; rw [ih (a + x), ih (0 + x)]; omega
  induction tbl with
  | nil => simp [bumpPat]
  | cons e t ih =>
    obtain ⟨q, n⟩ := e
    simp only [bumpPat]
    split
    · simp only [List.map_cons, List.foldl_cons]; rw [hs _ (0 + (n + 1)), hs _ (0 + n)]; omega
    · split
      · simp only [List.map_cons, List.foldl_cons]; rw [hs _ (0 + 1 + n), hs _ (0 + n)]; omega
      · simp only [List.map_cons, List.foldl_cons]; rw [hs _ (0 + n), hs (t.map Prod.snd) (0 + n), ih]; omega

/-- **Site compression loses nothing but redundancy**: the pattern table has pairwise distinct
(strictly increasing) patterns, its weights sum to the number of columns, and expanding every pattern
by its weight gives a permutation of the original columns — so any column-additive statistic (e.g. a
likelihood) is preserved. -/
theorem patternTable_spec (cols : List (List Byte)) :
    Sorted (patternTable cols) ∧
    ((patternTable cols).map Prod.fst).Nodup ∧
    ((patternTable cols).map Prod.snd).foldl (· + ·) 0 = cols.length ∧
    (expand (patternTable cols)).Perm cols := by
  have key : ∀ (cols : List (List Byte)) (acc : List (List Byte × Nat)), Sorted acc →
      Sorted (cols.foldl (fun a c => bumpPat c a) acc) ∧
      ((cols.foldl (fun a c => bumpPat c a) acc).map Prod.snd).foldl (· + ·) 0 = (acc.map Prod.snd).foldl (· + ·) 0 + cols.length ∧
      (expand (cols.foldl (fun a c => bumpPat c a) acc)).Perm (cols.reverse ++ expand acc) := by
    intro cols
    induction cols with
    | nil => intro acc h; simp [h]
    | cons c t ih =>
      intro acc h
      simp only [List.foldl_cons]
      obtain ⟨a1, a2, a3⟩ := ih (bumpPat c acc) (sorted_bumpPat c acc h)
      refine ⟨a1, ?_, ?_⟩
      · rw [a2, weights_bumpPat]; simp; omega
      · refine a3.trans ?_
        simp only [List.reverse_cons, List.append_assoc, List.singleton_append]
        exact List.Perm.append_left _ (expand_bumpPat c acc)
  obtain ⟨h1, h2, h3⟩ := key cols [] (by simp [Sorted])
  refine ⟨h1, ?_, by unfold patternTable; simpa using h2, ?_⟩
  · -- strictly increasing ⇒ distinct
    unfold Sorted at h1
    exact h1.imp (fun {a b} hab e => by rw [e, patLt_irrefl] at hab; cases hab)
  · have : (cols.reverse ++ expand []).Perm cols := by simp [expand, List.reverse_perm]
    exact h3.trans this

/-- a column-additive statistic is preserved by compression: Σ over columns = Σ weight × value over patterns -/
theorem additive_statistic_preserved (f : List Byte → Nat) (cols : List (List Byte)) :
    (cols.map f).foldl (· + ·) 0 = ((expand (patternTable cols)).map f).foldl (· + ·) 0 := by
  have hp := ((patternTable_spec cols).2.2.2).map f
  have hsum : ∀ (l1 l2 : List Nat), l1.Perm l2 → l1.foldl (· + ·) 0 = l2.foldl (· + ·) 0 := by
    intro l1 l2 h
    exact List.Perm.foldl_eq' h (fun x _ y _ z => by omega) 0
  exact (hsum _ _ hp).symm

/-! ## de-duplication (reference model of C01) -/

/-- rows kept by the reference de-duplication -/
def keptRows (key : Seq → Seq) (rows : List (String × Seq)) : List (String × Seq) :=
  (Spec.dedupRows key rows []).map fun g => (g.2.1, g.2.2.1)

private theorem dedupRows_keys (key : Seq → Seq) : ∀ (rows : List (String × Seq)) (acc : List (Seq × String × Seq × List String)),
    (acc.map Prod.fst).Nodup → (∀ g ∈ acc, g.1 = key g.2.2.1) →
    ((Spec.dedupRows key rows acc).map Prod.fst).Nodup ∧ (∀ g ∈ Spec.dedupRows key rows acc, g.1 = key g.2.2.1) ∧
    (∀ k ∈ acc.map Prod.fst, k ∈ (Spec.dedupRows key rows acc).map Prod.fst) ∧
    (∀ r ∈ rows, key r.2 ∈ (Spec.dedupRows key rows acc).map Prod.fst) := by
  intro rows
  induction rows with
  | nil => intro acc h1 h2; exact ⟨h1, h2, fun k hk => hk, by simp⟩
  | cons r t ih =>
    intro acc h1 h2
    simp only [Spec.dedupRows]
    split
    · rename_i hany
      -- same keys after updating the group
      have hk : (acc.map fun g => if g.1 == key r.2 then (g.1, g.2.1, g.2.2.1, g.2.2.2 ++ [r.1]) else g).map Prod.fst = acc.map Prod.fst := by
        rw [List.map_map]; apply List.map_congr_left; intro g _; simp only [Function.comp]; split <;> rfl
      have h2' : ∀ g ∈ (acc.map fun g => if g.1 == key r.2 then (g.1, g.2.1, g.2.2.1, g.2.2.2 ++ [r.1]) else g), g.1 = key g.2.2.1 := by
        intro g hg
        obtain ⟨g0, hg0, e⟩ := List.mem_map.mp hg
        split at e <;> (subst e; exact h2 g0 hg0)
      obtain ⟨a1, a2, a3, a4⟩ := ih _ (by rw [hk]; exact h1) h2'
      refine ⟨a1, a2, fun k hk' => a3 k (by rw [hk]; exact hk'), ?_⟩
      intro x hx
      rcases List.mem_cons.mp hx with rfl | hx
      · apply a3; rw [hk]
        simp only [List.any_eq_true, beq_iff_eq] at hany
        obtain ⟨g, hg, e⟩ := hany
        exact List.mem_map.mpr ⟨g, hg, e⟩
      · exact a4 x hx
    · rename_i hany
      have hnew : key r.2 ∉ acc.map Prod.fst := by
        intro hc
        obtain ⟨g, hg, e⟩ := List.mem_map.mp hc
        apply hany
        simp only [List.any_eq_true, beq_iff_eq]
        exact ⟨g, hg, e⟩
      obtain ⟨a1, a2, a3, a4⟩ := ih (acc ++ [(key r.2, r.1, r.2, [r.1])])
        (by simp only [List.map_append, List.map_cons, List.map_nil]
            exact List.nodup_append.mpr ⟨h1, by simp, by
              intro a ha b hb; simp only [List.mem_singleton] at hb; subst hb; intro e; subst e; exact hnew ha⟩)
        (by intro g hg; rcases List.mem_append.mp hg with hg | hg
            · exact h2 g hg
            · simp only [List.mem_singleton] at hg; subst hg; rfl)
      refine ⟨a1, a2, fun k hk' => a3 k (by simp [hk']), ?_⟩
      intro x hx
      rcases List.mem_cons.mp hx with rfl | hx
      · exact a3 _ (by simp)
      · exact a4 x hx

/-- **De-duplication keeps pairwise distinct sequences (under the comparison key), and every input
sequence has its representative among the kept ones.** -/
theorem dedup_distinct_and_complete (key : Seq → Seq) (rows : List (String × Seq)) :
    ((keptRows key rows).map fun r => key r.2).Nodup ∧
    ∀ r ∈ rows, key r.2 ∈ (keptRows key rows).map fun r => key r.2 := by
  obtain ⟨a1, a2, _, a4⟩ := dedupRows_keys key rows [] (by simp) (by simp)
  have e : (keptRows key rows).map (fun r => key r.2) = (Spec.dedupRows key rows []).map Prod.fst := by
    unfold keptRows
    rw [List.map_map]
    apply List.map_congr_left
    intro g hg
    simp only [Function.comp]
    exact (a2 g hg).symm
  rw [e]
  exact ⟨a1, a4⟩

/-! ## non-vacuity -/

example : patternTable [[65, 84], [67, 71], [67, 71], [65, 84]] = [([65, 84], 2), ([67, 71], 2)] := by decide
example : keptRows id [("a", [65]), ("b", [65]), ("c", [67])] = [("a", [65]), ("c", [67])] := by decide

end Gv.Props.C13
