import Gv.Model.Seq
import Gv.Spec.Genetic
/-!
# C06 — strand, case and un-align transforms are exact and reversible

Property theorems only (helper lemmas are local `private` facts about lists).  The complement
table is `Gv.Gen.complement_nuc_mapping`, regenerated from `align/const.go` on every run, so the
table theorems are re-checked against the source as it is now.
-/
namespace Gv.Props.C06
open Gv Gv.Model
set_option maxRecDepth 100000

/-! ## table facts (finite, by kernel evaluation over all 256 bytes) -/

/-- every residue of the C06 alphabet has a complement and complementing twice is the identity -/
theorem complement_involutive :
    ∀ c : Byte, c ∈ Spec.dnaAlphabet → (complementByte c).bind complementByte = some c := by
  decide

/-- the complement of an IUPAC code is the code of the complemented base set — an independent
derivation of the table from `Spec.iupacSet` -/
theorem complement_eq_iupac_set_complement :
    ∀ c : Byte, c ∈ Spec.dnaUpper →
      ∃ d, complementByte c = some d ∧
        (Spec.iupacSet d).isSome ∧
        Spec.sameSet ((Spec.iupacSet d).getD []) (((Spec.iupacSet c).getD []).map Spec.baseComp) = true := by
  decide

/-- case is preserved, and lower-case codes are complemented like their upper-case versions -/
theorem complement_preserves_case :
    ∀ c : Byte, c ∈ Spec.dnaAlphabet → ∀ d, complementByte c = some d →
      (Spec.isUpperAZ c = Spec.isUpperAZ d) ∧ (Spec.isLowerAZ c = Spec.isLowerAZ d) ∧
      complementByte (toUpper c) = some (toUpper d) := by
  decide

/-- gaps, points and stars are fixed by complementation -/
theorem complement_fixes_specials :
    complementByte GAP = some GAP ∧ complementByte POINT = some POINT ∧ complementByte OTHER = some OTHER := by
  decide

/-- the image of the alphabet stays in the alphabet -/
theorem complement_closed :
    ∀ c : Byte, c ∈ Spec.dnaAlphabet → ∀ d, complementByte c = some d → d ∈ Spec.dnaAlphabet := by
  decide

/-! ## sequences -/

private theorem complementSeq_ok (s : Seq) (h : ∀ b ∈ s, b ∈ Spec.dnaAlphabet) :
    ∃ t, complementSeq s = (t, false) ∧ t.length = s.length ∧
      (∀ b ∈ t, b ∈ Spec.dnaAlphabet) ∧ s.map complementByte = t.map some := by
  induction s with
  | nil => exact ⟨[], rfl, rfl, by simp, rfl⟩
  | cons c t ih =>
    have hc := h c (by simp)
    obtain ⟨t', ht', hl, hmem, hmap⟩ := ih (fun b hb => h b (by simp [hb]))
    have hinv := complement_involutive c hc
    cases hd : complementByte c with
    | none => simp [hd] at hinv
    | some d =>
      refine ⟨d :: t', ?_, by simp [hl], ?_, ?_⟩
      · simp [complementSeq, hd, ht']
      · intro b hb
        rcases List.mem_cons.mp hb with rfl | hb
        · exact complement_closed c hc _ hd
        · exact hmem b hb
      · simp [hd, hmap]

/-- On the C06 alphabet `revcomp` never fails and is exactly "reverse of the residue-wise
complement": length, gaps and case are preserved because the table preserves them. -/
theorem revcomp_spec (s : Seq) (h : ∀ b ∈ s, b ∈ Spec.dnaAlphabet) :
    ∃ t, revcompSeq s = (t, false) ∧ t.length = s.length ∧
      t.map some = (s.map complementByte).reverse ∧ (∀ b ∈ t, b ∈ Spec.dnaAlphabet) := by
  obtain ⟨t, ht, hl, hmem, hmap⟩ := complementSeq_ok s h
  refine ⟨t.reverse, ?_, by simp [hl], ?_, ?_⟩
  · simp [revcompSeq, ht]
  · rw [hmap]; simp
  · intro b hb; exact hmem b (by simpa using hb)

private theorem complementSeq_invol (s t : Seq) (h : ∀ b ∈ s, b ∈ Spec.dnaAlphabet)
    (hmap : s.map complementByte = t.map some) : t.map complementByte = s.map some := by
  induction s generalizing t with
  | nil => cases t <;> simp_all
  | cons c s ih =>
    cases t with
    | nil => simp at hmap
    | cons d t =>
      simp only [List.map_cons, List.cons.injEq] at hmap ⊢
      have hinv := complement_involutive c (h c (by simp))
      rw [hmap.1] at hinv
      exact ⟨by simpa using hinv, ih t (fun b hb => h b (by simp [hb])) hmap.2⟩

/-- Applying reverse-complement twice restores the original exactly. -/
theorem revcomp_involutive (s : Seq) (h : ∀ b ∈ s, b ∈ Spec.dnaAlphabet) :
    ∃ t, revcompSeq s = (t, false) ∧ revcompSeq t = (s, false) := by
  obtain ⟨t, ht, _, hmap, hmem⟩ := revcomp_spec s h
  obtain ⟨u, hu, _, hmap', _⟩ := revcomp_spec t hmem
  refine ⟨t, ht, ?_⟩
  rw [hu]
  have h1 : t.reverse.map some = s.map complementByte := by
    rw [List.map_reverse, hmap, List.reverse_reverse]
  have h2 := complementSeq_invol s t.reverse h h1.symm
  have : u.map some = s.map some := by
    rw [hmap', ← h2, List.map_reverse]
  have hinj : u = s := by
    have := congrArg (List.map (fun o : Option Byte => o.getD 0)) this
    simpa [List.map_map, Function.comp_def] using this
  rw [hinj]

/-- whole container: every row is reverse-complemented, names and order untouched, no failure -/
theorem revcompRows_spec (rows : List (String × Seq))
    (h : ∀ r ∈ rows, ∀ b ∈ r.2, b ∈ Spec.dnaAlphabet) :
    (revcompRows rows).2 = false ∧
    (revcompRows rows).1 = rows.map fun r => (r.1, (revcompSeq r.2).1) := by
  induction rows with
  | nil => simp [revcompRows]
  | cons r t ih =>
    obtain ⟨n, s⟩ := r
    obtain ⟨u, hu, _⟩ := revcomp_spec s (h (n, s) (by simp))
    have := ih (fun r hr => h r (by simp [hr]))
    simp [revcompRows, hu, this]

/-- named subset: rows whose name is not listed (or unknown names) are left untouched, and the
container keeps its names and order -/
theorem revcompNamed_frame (names : List String) (rows : List (String × Seq)) :
    ((revcompNamed names rows).1.map Prod.fst = rows.map Prod.fst) ∧
    ∀ r ∈ rows, r.1 ∉ names → r ∈ (revcompNamed names rows).1 := by
  induction names generalizing rows with
  | nil => simp [revcompNamed]
  | cons nm rest ih =>
    have upd_names : ∀ (f : Seq → Seq) (l : List (String × Seq)),
        (updateFirst nm f l).map Prod.fst = l.map Prod.fst := by
      intro f l; induction l with
      | nil => rfl
      | cons p t iht => obtain ⟨a, b⟩ := p; by_cases hh : a = nm <;> simp [updateFirst, hh, iht]
    have upd_other : ∀ (f : Seq → Seq) (l : List (String × Seq)) (r : String × Seq),
        r ∈ l → r.1 ≠ nm → r ∈ updateFirst nm f l := by
      intro f l r hr hne; induction l with
      | nil => simp at hr
      | cons p t iht =>
        obtain ⟨a, b⟩ := p
        rcases List.mem_cons.mp hr with rfl | hr
        · simp [updateFirst, hne]
        · by_cases hh : a = nm <;> simp [updateFirst, hh, hr, iht hr]
    simp only [revcompNamed]
    cases hf : findRow nm rows with
    | none =>
      refine ⟨(ih rows).1, fun r hr hn => (ih rows).2 r hr ?_⟩
      intro hc; exact hn (by simp [hc])
    | some s =>
      simp only []
      split
      · refine ⟨upd_names _ _, fun r hr hn => upd_other _ _ r hr ?_⟩
        intro hc; exact hn (by simp [hc])
      · refine ⟨by rw [(ih _).1, upd_names], fun r hr hn => (ih _).2 r (upd_other _ _ r hr ?_) ?_⟩
        · intro hc; exact hn (by simp [hc])
        · intro hc; exact hn (by simp [hc])

/-! ## case -/

theorem toUpper_idem : ∀ c : Byte, toUpper (toUpper c) = toUpper c := by decide
theorem toLower_idem : ∀ c : Byte, toLower (toLower c) = toLower c := by decide

/-- upper/lower-casing change nothing but letter case: folding the result equals folding the input,
and a byte that is not a letter is untouched -/
theorem case_only_changes_case : ∀ c : Byte,
    toLower (toUpper c) = toLower c ∧ toUpper (toLower c) = toUpper c ∧
    (¬ (Spec.isLowerAZ c) → toUpper c = c) ∧ (¬ (Spec.isUpperAZ c) → toLower c = c) := by decide

theorem toUpperRows_idem (rows : List (String × Seq)) : toUpperRows (toUpperRows rows) = toUpperRows rows := by
  simp [toUpperRows, List.map_map, Function.comp_def, toUpper_idem]

theorem toLowerRows_idem (rows : List (String × Seq)) : toLowerRows (toLowerRows rows) = toLowerRows rows := by
  simp [toLowerRows, List.map_map, Function.comp_def, toLower_idem]

/-- case changes never create or destroy a gap -/
theorem case_preserves_gap : ∀ c : Byte, (toUpper c = GAP ↔ c = GAP) ∧ (toLower c = GAP ↔ c = GAP) := by decide

/-! ## un-align -/

/-- un-aligning removes exactly the gap characters: the result has no gap and is the sub-list of
non-gap residues in order -/
theorem ungap_removes_exactly_gaps (s : Seq) :
    GAP ∉ ungap s ∧ ungap s = s.filter (fun b => b != GAP) ∧ (ungap s).length + s.count GAP = s.length := by
  refine ⟨by simp [ungap], rfl, ?_⟩
  induction s with
  | nil => rfl
  | cons c t ih =>
    by_cases hc : c = GAP
    · subst hc; simp [ungap] at ih ⊢; omega
    · have : (c != GAP) = true := by simpa using hc
      simp [ungap, this, hc] at ih ⊢; omega

theorem ungap_idem (s : Seq) : ungap (ungap s) = ungap s := by simp [ungap, List.filter_filter]

/-- the ungapped content is preserved by case changes -/
theorem ungap_commutes_case (s : Seq) :
    ungap (s.map toUpper) = (ungap s).map toUpper ∧ ungap (s.map toLower) = (ungap s).map toLower := by
  constructor <;> induction s with
  | nil => rfl
  | cons c t ih =>
    have := case_preserves_gap c
    by_cases hc : c = GAP
    · subst hc; simpa [ungap, toUpper, toLower, GAP] using ih
    · simp [ungap, List.filter_cons] at ih ⊢
      simp [hc, this.1, this.2, ih]

/-- the ungapped content is preserved by reverse-complementing: ungap ∘ revcomp = revcomp ∘ ungap -/
theorem ungap_commutes_revcomp (s : Seq) (h : ∀ b ∈ s, b ∈ Spec.dnaAlphabet) :
    ungap (revcompSeq s).1 = (revcompSeq (ungap s)).1 := by
  have hg : ∀ b ∈ ungap s, b ∈ Spec.dnaAlphabet := fun b hb => h b (by simp [ungap] at hb; exact hb.1)
  obtain ⟨t, ht, _, hmap, _⟩ := revcomp_spec s h
  obtain ⟨u, hu, _, hmap', _⟩ := revcomp_spec (ungap s) hg
  rw [ht, hu]
  -- compare through `map some`
  have key : ∀ (l : Seq), (∀ b ∈ l, b ∈ Spec.dnaAlphabet) → ∀ m : Seq, l.map complementByte = m.map some →
      (ungap l).map complementByte = (ungap m).map some := by
    intro l hl
    induction l with
    | nil => intro m hm; cases m <;> simp_all [ungap]
    | cons c l ih =>
      intro m hm
      cases m with
      | nil => simp at hm
      | cons d m =>
        simp only [List.map_cons, List.cons.injEq] at hm
        have ih' := ih (fun b hb => hl b (by simp [hb])) m hm.2
        have hfix : (c = GAP ↔ d = GAP) := by
          have hc := hl c (by simp)
          have h1 := complement_involutive c hc
          rw [hm.1] at h1
          constructor
          · intro e; subst e
            have := complement_fixes_specials.1; rw [this] at hm; simpa using hm.1.symm
          · intro e; subst e
            have := complement_fixes_specials.1
            simp only [Option.bind_some] at h1; rw [this] at h1; simpa using h1.symm
        by_cases hc : c = GAP
        · have hd := hfix.mp hc
          subst hc; subst hd
          simpa [ungap] using ih'
        · have hd : ¬ d = GAP := fun e => hc (hfix.mpr e)
          simp only [ungap] at ih' ⊢
          simp [hc, hd, hm.1, ih']
  have inj : ∀ a b : Seq, a.map some = b.map some → a = b := by
    intro a b hab
    have := congrArg (List.map (fun o : Option Byte => o.getD 0)) hab
    simpa [List.map_map, Function.comp_def] using this
  apply inj
  rw [hmap']
  have hmap2 : s.map complementByte = t.reverse.map some := by
    rw [← List.map_reverse] at hmap
    have := congrArg List.reverse hmap
    simpa using this.symm
  have := key s h t.reverse hmap2
  rw [this]
  simp [ungap, List.filter_reverse]

/-! ## non-vacuity: a concrete mixed-case IUPAC row with gaps satisfies the hypotheses -/

example : (∀ b ∈ ([65, 99, 45, 82, 121, 46, 42, 110] : Seq), b ∈ Spec.dnaAlphabet) ∧
    revcompSeq [65, 99, 45, 82, 121, 46, 42, 110] = ([110, 42, 46, 114, 89, 45, 103, 84], false) := by decide

/-- `U`/`u` are *outside* the C06 alphabet: the table maps U ↦ A, which is not involutive. -/
example : (complementByte 85).bind complementByte = some 84 := by decide

end Gv.Props.C06
