import Gv.Proofs.CodonCore0
import Gv.Proofs.CodonCore1
import Gv.Proofs.CodonCore2
/-!
# C05 — translation follows the genetic code for every codon, frame and ambiguity

`Gv.Gen.standardcode`, `vertebratemitocode`, `invertebratemitocode` and `IupacCode` are regenerated
from `align/const.go`; `Spec.ncbi*` are the NCBI tables transcribed independently.
-/
namespace Gv.Props.C05
open Gv Gv.Model Gv.Proofs.CodonCore
set_option maxRecDepth 100000

/-- `geneticCode` dispatches the three constants to the three tables, anything else is an error -/
theorem geneticCode_dispatch :
    geneticCode 0 = some (tbl 0) ∧ geneticCode 1 = some (tbl 1) ∧ geneticCode 2 = some (tbl 2) ∧
    ∀ c : Int, c ≠ 0 → c ≠ 1 → c ≠ 2 → geneticCode c = none := by
  refine ⟨by decide, by decide, by decide, ?_⟩
  intro c h0 h1 h2
  simp [geneticCode, Gen.c_GENETIC_CODE_STANDARD, Gen.c_GENETIC_CODE_VETEBRATE_MITO,
    Gen.c_GENETIC_CODE_INVETEBRATE_MITO, h0, h1, h2]

private theorem gen_rep (a b c : Byte) :
    genAllPossibleCodons a b c = genAllPossibleCodons (rep a) (rep b) (rep c) := by
  unfold genAllPossibleCodons
  rw [rep_lookup a, rep_lookup b, rep_lookup c]

private theorem model_rep (code : List (List Byte × Byte)) (a b c : Byte) :
    translateCodon code a b c = translateCodon code (rep a) (rep b) (rep c) := by
  unfold translateCodon
  rw [gen_rep a b c]

private theorem spec_rep (t : List Byte) (a b c : Byte) :
    Spec.translateCodon t a b c = Spec.translateCodon t (rep a) (rep b) (rep c) := by
  simp only [Spec.translateCodon, (rep_spec _).1, (rep_spec _).2]

/-- **Every codon, every byte**: the Go table-driven translation (after case folding and U→T,
with IUPAC expansion) equals the NCBI-table meaning: shared amino acid of all expansions, else X;
`---` ↦ `-`; anything else ↦ X. -/
theorem translateCodon_eq_spec (code : Nat) (hc : code ∈ [0, 1, 2]) (a b c : Byte) :
    translateCodon (tbl code) a b c = Spec.translateCodon (Spec.ncbi code) a b c := by
  rw [model_rep, spec_rep]
  have h0 := finite_core0 _ (rep_mem a) _ (rep_mem b) _ (rep_mem c)
  have h1 := finite_core1 _ (rep_mem a) _ (rep_mem b) _ (rep_mem c)
  have h2 := finite_core2 _ (rep_mem a) _ (rep_mem b) _ (rep_mem c)
  simp only [List.mem_cons, List.mem_nil_iff, or_false] at hc
  rcases hc with rfl | rfl | rfl
  · exact h0
  · exact h1
  · exact h2

/-! ## sequences and frames -/

private theorem codonsFrom_length (code) : ∀ (n : Nat) (s : Seq), s.length ≤ n →
    (codonsFrom code s).length = s.length / 3 := by
  intro n
  induction n with
  | zero => intro s h; cases s <;> simp_all [codonsFrom]
  | succ n ih =>
    intro s h
    match s with
    | [] => simp [codonsFrom]
    | [_] => simp [codonsFrom]
    | [_, _] => simp [codonsFrom]
    | a :: b :: c :: t =>
      simp only [codonsFrom, List.length_cons]
      rw [ih t (by simp at h; omega)]
      omega

/-- translation in frame `f` yields exactly ⌊(L − f)/3⌋ residues -/
theorem translate_length (codeId : Int) (f : Nat) (s p : Seq)
    (h : translateSeq f codeId s = some p) : p.length = (s.length - f) / 3 := by
  unfold translateSeq at h
  split at h
  · simp at h
  · rename_i code _
    unfold bufferTranslate at h
    simp only at h
    split at h
    · simp at h
    · split at h
      · simp at h
      · simp only [Option.some.injEq] at h
        subst h
        rw [codonsFrom_length code _ _ (Nat.le_refl _)]
        simp

/-- error iff the code is unknown, the residues are not nucleotide-compatible, or L < 3 + frame
(i.e. the result would be empty) -/
theorem translate_error_iff (codeId : Int) (f : Nat) (s : Seq) :
    translateSeq f codeId s = none ↔
      (geneticCode codeId = none ∨
       (detectAlphabetSeq s ≠ NUCLEOTIDS ∧ detectAlphabetSeq s ≠ BOTH) ∨ s.length < 3 + f) := by
  unfold translateSeq
  cases hg : geneticCode codeId with
  | none => simp
  | some code =>
    simp only [bufferTranslate]
    by_cases h1 : detectAlphabetSeq s = NUCLEOTIDS
    · by_cases h2 : s.length < 3 + f <;> simp [h1, h2]
    · by_cases h1' : detectAlphabetSeq s = BOTH
      · by_cases h2 : s.length < 3 + f <;> simp [h1', h2]
      · simp [h1, h1']

private theorem codonsFrom_get (code) : ∀ (n : Nat) (s : Seq), s.length ≤ n → ∀ i, 3 * i + 2 < s.length →
    (codonsFrom code s)[i]? = some (translateCodon code (s.getD (3 * i) 0) (s.getD (3 * i + 1) 0) (s.getD (3 * i + 2) 0)) := by
  intro n
  induction n with
  | zero => intro s h i hi; omega
  | succ n ih =>
    intro s h i hi
    match s with
    | [] => simp at hi
    | [_] => simp at hi
    | [_, _] => simp at hi; omega
    | a :: b :: c :: t =>
      cases i with
      | zero => simp [codonsFrom]
      | succ i =>
        simp only [codonsFrom, List.getElem?_cons_succ]
        rw [ih t (by simp at h; omega) i (by simp at hi; omega)]
        have e0 : 3 * (i + 1) = (3 * i) + 1 + 1 + 1 := by omega
        have e1 : 3 * (i + 1) + 1 = (3 * i + 1) + 1 + 1 + 1 := by omega
        have e2 : 3 * (i + 1) + 2 = (3 * i + 2) + 1 + 1 + 1 := by omega
        have g0 : (a :: b :: c :: t).getD (3 * (i + 1)) 0 = t.getD (3 * i) 0 := by
          rw [e0]; simp only [List.getD_cons_succ]
        have g1 : (a :: b :: c :: t).getD (3 * (i + 1) + 1) 0 = t.getD (3 * i + 1) 0 := by
          rw [e1]; simp only [List.getD_cons_succ]
        have g2 : (a :: b :: c :: t).getD (3 * (i + 1) + 2) 0 = t.getD (3 * i + 2) 0 := by
          rw [e2]; simp only [List.getD_cons_succ]
        rw [g0, g1, g2]

/-- the i-th residue is the translation of the i-th codon of the frame -/
theorem translate_residue (codeId : Int) (code) (hg : geneticCode codeId = some code) (f : Nat) (s p : Seq)
    (h : translateSeq f codeId s = some p) (i : Nat) (hi : i < p.length) :
    p[i]? = some (translateCodon code (s.getD (f + 3 * i) 0) (s.getD (f + 3 * i + 1) 0) (s.getD (f + 3 * i + 2) 0)) := by
  have hl := translate_length codeId f s p h
  unfold translateSeq at h
  rw [hg] at h
  unfold bufferTranslate at h
  simp only at h
  split at h
  · simp at h
  · split at h
    · simp at h
    · simp only [Option.some.injEq] at h
      subst h
      have hlen : 3 * i + 2 < (s.drop f).length := by simp; omega
      rw [codonsFrom_get code _ _ (Nat.le_refl _) i hlen]
      simp [List.getD_eq_getElem?_getD, List.getElem?_drop, Nat.add_assoc]

/-! ## non-vacuity -/

example : translateSeq 1 0 [65, 65, 84, 71, 78, 78, 78, 84, 65, 82, 45, 45, 45] = some [77, 88, 42, 45] := by
  decide

end Gv.Props.C05
