import Gv.Proofs.CodonCore0
import Gv.Proofs.CodonCore1
import Gv.Proofs.CodonCore2
import Gv.Proofs.TranslateAlign
import Gv.Proofs.TranslateRef
/-!
# C05 — translation follows the genetic code for every codon, frame and ambiguity

`Gv.Gen.standardcode`, `vertebratemitocode`, `invertebratemitocode` and `IupacCode` are regenerated
from `align/const.go`; `Spec.ncbi*` are the NCBI tables transcribed independently.
-/
namespace Gv.Props.C05
open Gv Gv.Model Gv.Proofs.CodonCore
set_option maxRecDepth 100000

/-- `geneticCode` dispatches the three constants to the three tables, anything else is an error -/
theorem geneticCode_dispatch :
    geneticCode 0 = some (tbl 0) ∧ geneticCode 1 = some (tbl 1) ∧ geneticCode 2 = some (tbl 2) ∧
    ∀ c : Int, c ≠ 0 → c ≠ 1 → c ≠ 2 → geneticCode c = none := by
  refine ⟨by decide, by decide, by decide, ?_⟩
  intro c h0 h1 h2
  simp [geneticCode, Gen.c_GENETIC_CODE_STANDARD, Gen.c_GENETIC_CODE_VETEBRATE_MITO,
    Gen.c_GENETIC_CODE_INVETEBRATE_MITO, h0, h1, h2]

private theorem gen_rep (a b c : Byte) :
    genAllPossibleCodons a b c = genAllPossibleCodons (rep a) (rep b) (rep c) := by
  unfold genAllPossibleCodons
  rw [rep_lookup a, rep_lookup b, rep_lookup c]

private theorem model_rep (code : List (List Byte × Byte)) (a b c : Byte) :
    translateCodon code a b c = translateCodon code (rep a) (rep b) (rep c) := by
  unfold translateCodon
  rw [gen_rep a b c]

private theorem spec_rep (t : List Byte) (a b c : Byte) :
    Spec.translateCodon t a b c = Spec.translateCodon t (rep a) (rep b) (rep c) := by
  simp only [Spec.translateCodon, (rep_spec _).1, (rep_spec _).2]

/-- **Every codon, every byte**: the Go table-driven translation (after case folding and U→T,
with IUPAC expansion) equals the NCBI-table meaning: shared amino acid of all expansions, else X;
`---` ↦ `-`; anything else ↦ X. -/
theorem translateCodon_eq_spec (code : Nat) (hc : code ∈ [0, 1, 2]) (a b c : Byte) :
    translateCodon (tbl code) a b c = Spec.translateCodon (Spec.ncbi code) a b c := by
  rw [model_rep, spec_rep]
  have h0 := finite_core0 _ (rep_mem a) _ (rep_mem b) _ (rep_mem c)
  have h1 := finite_core1 _ (rep_mem a) _ (rep_mem b) _ (rep_mem c)
  have h2 := finite_core2 _ (rep_mem a) _ (rep_mem b) _ (rep_mem c)
  simp only [List.mem_cons, List.mem_nil_iff, or_false] at hc
  rcases hc with rfl | rfl | rfl
  · exact h0
  · exact h1
  · exact h2

/-! ## sequences and frames -/

private theorem codonsFrom_length (code) : ∀ (n : Nat) (s : Seq), s.length ≤ n →
    (codonsFrom code s).length = s.length / 3 := by
  intro n
  induction n with
  | zero => intro s h; cases s <;> simp_all [codonsFrom]
  | succ n ih =>
    intro s h
    match s with
    | [] => simp [codonsFrom]
    | [_] => simp [codonsFrom]
    | [_, _] => simp [codonsFrom]
    | a :: b :: c :: t =>
      simp only [codonsFrom, List.length_cons]
      rw [ih t (by simp at h; omega)]
      omega

/-- translation in frame `f` yields exactly ⌊(L − f)/3⌋ residues -/
theorem translate_length (codeId : Int) (f : Nat) (s p : Seq)
    (h : translateSeq f codeId s = some p) : p.length = (s.length - f) / 3 := by
  unfold translateSeq at h
  split at h
  · simp at h
  · rename_i code _
    unfold bufferTranslate at h
    simp only at h
    split at h
    · simp at h
    · split at h
      · simp at h
      · simp only [Option.some.injEq] at h
        subst h
        rw [codonsFrom_length code _ _ (Nat.le_refl _)]
        simp

/-- error iff the code is unknown, the residues are not nucleotide-compatible, or L < 3 + frame
(i.e. the result would be empty) -/
theorem translate_error_iff (codeId : Int) (f : Nat) (s : Seq) :
    translateSeq f codeId s = none ↔
      (geneticCode codeId = none ∨
       (detectAlphabetSeq s ≠ NUCLEOTIDS ∧ detectAlphabetSeq s ≠ BOTH) ∨ s.length < 3 + f) := by
  unfold translateSeq
  cases hg : geneticCode codeId with
  | none => simp
  | some code =>
    simp only [bufferTranslate]
    by_cases h1 : detectAlphabetSeq s = NUCLEOTIDS
    · by_cases h2 : s.length < 3 + f <;> simp [h1, h2]
    · by_cases h1' : detectAlphabetSeq s = BOTH
      · by_cases h2 : s.length < 3 + f <;> simp [h1', h2]
      · simp [h1, h1']

private theorem codonsFrom_get (code) : ∀ (n : Nat) (s : Seq), s.length ≤ n → ∀ i, 3 * i + 2 < s.length →
    (codonsFrom code s)[i]? = some (translateCodon code (s.getD (3 * i) 0) (s.getD (3 * i + 1) 0) (s.getD (3 * i + 2) 0)) := by
  intro n
  induction n with
  | zero => intro s h i hi; omega
  | succ n ih =>
    intro s h i hi
    match s with
    | [] => simp at hi
    | [_] => simp at hi
    | [_, _] => simp at hi; omega
    | a :: b :: c :: t =>
      cases i with
      | zero => simp [codonsFrom]
      | succ i =>
        simp only [codonsFrom, List.getElem?_cons_succ]
        rw [ih t (by simp at h; omega) i (by simp at hi; omega)]
        have e0 : 3 * (i + 1) = (3 * i) + 1 + 1 + 1 := by omega
        have e1 : 3 * (i + 1) + 1 = (3 * i + 1) + 1 + 1 + 1 := by omega
        have e2 : 3 * (i + 1) + 2 = (3 * i + 2) + 1 + 1 + 1 := by omega
        have g0 : (a :: b :: c :: t).getD (3 * (i + 1)) 0 = t.getD (3 * i) 0 := by
          rw [e0]; simp only [List.getD_cons_succ]
        have g1 : (a :: b :: c :: t).getD (3 * (i + 1) + 1) 0 = t.getD (3 * i + 1) 0 := by
          rw [e1]; simp only [List.getD_cons_succ]
        have g2 : (a :: b :: c :: t).getD (3 * (i + 1) + 2) 0 = t.getD (3 * i + 2) 0 := by
          rw [e2]; simp only [List.getD_cons_succ]
        rw [g0, g1, g2]

/-- the i-th residue is the translation of the i-th codon of the frame -/
theorem translate_residue (codeId : Int) (code) (hg : geneticCode codeId = some code) (f : Nat) (s p : Seq)
    (h : translateSeq f codeId s = some p) (i : Nat) (hi : i < p.length) :
    p[i]? = some (translateCodon code (s.getD (f + 3 * i) 0) (s.getD (f + 3 * i + 1) 0) (s.getD (f + 3 * i + 2) 0)) := by
  have hl := translate_length codeId f s p h
  unfold translateSeq at h
  rw [hg] at h
  unfold bufferTranslate at h
  simp only at h
  split at h
  · simp at h
  · split at h
    · simp at h
    · simp only [Option.some.injEq] at h
      subst h
      have hlen : 3 * i + 2 < (s.drop f).length := by simp; omega
      rw [codonsFrom_get code _ _ (Nat.le_refl _) i hlen]
      simp [List.getD_eq_getElem?_getD, List.getElem?_drop, Nat.add_assoc]

/-! ## table facts used by the container-level theorems -/

private theorem ncbi_no_gap : ∀ code ∈ [0, 1, 2], ∀ e ∈ Spec.ncbi code, e ≠ 45 := by decide

private theorem expansions_ne_gap (tb : List Byte) (htb : ∀ e ∈ tb, e ≠ 45) (X Y Z : List Byte) :
    ∀ e ∈ Spec.expansions tb X Y Z, e ≠ 45 := by
  intro e he
  simp only [Spec.expansions, List.mem_flatMap, List.mem_map] at he
  obtain ⟨x, _, y, _, z, _, rfl⟩ := he
  unfold Spec.ncbiAA
  rw [List.getD_eq_getElem?_getD]
  cases h : tb[16 * Spec.baseIdx x + 4 * Spec.baseIdx y + Spec.baseIdx z]? with
  | none => decide
  | some v => exact htb v (List.mem_of_getElem? h)

private theorem spec_ne_gap (tb : List Byte) (htb : ∀ e ∈ tb, e ≠ 45) (a b c : Byte)
    (h : ¬ (a = 45 ∧ b = 45 ∧ c = 45)) : Spec.translateCodon tb a b c ≠ 45 := by
  unfold Spec.translateCodon
  rw [if_neg h]
  split
  · rename_i X Y Z _ _ _
    split
    · decide
    · rename_i aa rest he
      split
      · exact expansions_ne_gap tb htb X Y Z aa (by rw [he]; simp)
      · decide
  · decide

/-- the codon of three gaps is translated to a gap, under each of the three codes -/
theorem gap_codon (code : Nat) (hc : code ∈ [0, 1, 2]) : translateCodon (tbl code) GAP GAP GAP = GAP := by
  rw [translateCodon_eq_spec code hc]
  simp [Spec.translateCodon, GAP]

/-- **a gap comes out only of the codon of three gaps** (so the gaps of a translated row are exactly its
all-gap codons) -/
theorem codon_gap_iff (code : Nat) (hc : code ∈ [0, 1, 2]) (a b c : Byte) :
    translateCodon (tbl code) a b c = GAP ↔ (a = GAP ∧ b = GAP ∧ c = GAP) := by
  constructor
  · intro h
    rw [translateCodon_eq_spec code hc] at h
    by_cases hg : a = 45 ∧ b = 45 ∧ c = 45
    · exact hg
    · exact absurd h (spec_ne_gap _ (ncbi_no_gap code hc) a b c hg)
  · rintro ⟨rfl, rfl, rfl⟩
    exact gap_codon code hc

private theorem geneticCode_tbl (codeId : Int) (code : List (List Byte × Byte)) (h : geneticCode codeId = some code) :
    ∃ n, n ∈ [0, 1, 2] ∧ code = tbl n := by
  have hd := geneticCode_dispatch
  by_cases h0 : codeId = 0
  · subst h0; rw [hd.1] at h; exact ⟨0, by simp, by simpa using h.symm⟩
  · by_cases h1 : codeId = 1
    · subst h1; rw [hd.2.1] at h; exact ⟨1, by simp, by simpa using h.symm⟩
    · by_cases h2 : codeId = 2
      · subst h2; rw [hd.2.2.1] at h; exact ⟨2, by simp, by simpa using h.symm⟩
      · rw [hd.2.2.2 codeId h0 h1 h2] at h; simp at h

/-- what a successful `Sequence.Translate` returns -/
theorem translate_eq_codons (codeId : Int) (code) (hg : geneticCode codeId = some code) (f : Nat) (s p : Seq)
    (h : translateSeq f codeId s = some p) : p = codonsFrom code (s.drop f) ∧ 3 + f ≤ s.length := by
  unfold translateSeq at h
  rw [hg] at h
  simp only [Proofs.TranslateAlign.bufferTranslate_eq] at h
  split at h
  · rename_i hc
    simp only [Option.some.injEq] at h
    exact ⟨h.symm, hc.2⟩
  · simp at h

/-! ## CodonAlign -/

private theorem mapM_rows {α β : Type} (f : α → Option β) (l : List α) (out : List β) (h : l.mapM f = some out) :
    out.length = l.length ∧ ∀ (i : Nat) (a : α), l[i]? = some a → ∃ b, out[i]? = some b ∧ f a = some b := by
  induction l generalizing out with
  | nil =>
    simp at h
    subst h
    simp
  | cons a t ih =>
    rw [List.mapM_cons] at h
    cases ha : f a with
    | none => simp [ha] at h
    | some b =>
      cases ht : t.mapM f with
      | none => simp [ha, ht] at h
      | some bs =>
        simp [ha, ht] at h
        subst h
        have := ih bs ht
        refine ⟨by simp [this.1], ?_⟩
        intro i x hx
        cases i with
        | zero =>
          simp at hx; subst hx
          exact ⟨b, by simp, ha⟩
        | succ i =>
          simp at hx
          obtain ⟨b', h1, h2⟩ := this.2 i x hx
          exact ⟨b', by simpa using h1, h2⟩

/-- **`CodonAlign`, container level**: on success the result has as many rows as the protein alignment, and
its `i`-th row carries the name of the `i`-th protein row and is the codon-threaded form of the nucleotide
sequence of that name -/
theorem codonAlign_rows (alphaP alphaN : Nat) (prot nts out : List (String × Seq))
    (h : codonAlign alphaP alphaN prot nts = some out) :
    alphaP = AMINOACIDS ∧ alphaN = NUCLEOTIDS ∧ out.length = prot.length ∧
    ∀ (i : Nat) (r : String × Seq), prot[i]? = some r → ∃ nt b, findRow r.1 nts = some nt ∧ codonAlignRow r.2 nt = some b ∧
      out[i]? = some (r.1, b) := by
  unfold codonAlign at h
  by_cases h1 : alphaP = AMINOACIDS
  · by_cases h2 : alphaN = NUCLEOTIDS
    · subst h1; subst h2
      simp only [bne_self_eq_false, Bool.false_eq_true, if_false] at h
      have hm := mapM_rows _ _ _ h
      refine ⟨rfl, rfl, hm.1, ?_⟩
      intro i r hr
      obtain ⟨o, ho, hro⟩ := hm.2 i r hr
      cases hf : findRow r.1 nts with
      | none => simp [hf] at hro
      | some nt =>
        simp only [hf, Option.map_eq_some_iff] at hro
        obtain ⟨b, hb, rfl⟩ := hro
        exact ⟨nt, b, rfl, hb, ho⟩
    · have : (alphaN != NUCLEOTIDS) = true := by simpa using h2
      subst h1
      simp [this] at h
  · have : (alphaP != AMINOACIDS) = true := by simpa using h1
    simp [this] at h

/-- **the codon alignment is three times as long as the protein row** -/
theorem codonAlign_length (p nt b : Seq) (h : codonAlignRow p nt = some b) : b.length = 3 * p.length := by
  unfold codonAlignRow at h
  cases hc : codonThread p nt with
  | none => simp [hc] at h
  | some r =>
    obtain ⟨b', r'⟩ := r
    simp only [hc] at h
    split at h
    · simp only [Option.some.injEq] at h; subst h
      exact Proofs.TranslateAlign.codonThread_length p nt b' r' hc
    · simp at h

/-- **its ungapped form is the original nucleotides minus at most two trailing ones** (for nucleotide
sequences that contain no gap themselves; in general: the gaps of the nucleotides are counted as characters
while threading and disappear with the others when un-gapping) -/
theorem codonAlign_ungapped_rows (p nt b : Seq) (h : codonAlignRow p nt = some b) :
    ∃ used rest, nt = used ++ rest ∧ rest.length ≤ 2 ∧ ungap b = ungap used ∧
      ((∀ x ∈ nt, x ≠ GAP) → ungap b ++ rest = nt) := by
  unfold codonAlignRow at h
  cases hc : codonThread p nt with
  | none => simp [hc] at h
  | some r =>
    obtain ⟨b', r'⟩ := r
    simp only [hc] at h
    split at h
    · rename_i hr
      simp only [Option.some.injEq] at h; subst h
      obtain ⟨used, hu1, hu2⟩ := Proofs.TranslateAlign.codonThread_uses p nt b' r' hc
      refine ⟨used, r', hu1, hr, hu2, ?_⟩
      intro hn
      rw [hu2, Proofs.TranslateAlign.ungap_of_no_gap used (fun x hx => hn x (by rw [hu1]; simp [hx]))]
      exact hu1.symm
    · simp at h

/-- **`CodonAlign` accepts a row exactly when its nucleotide sequence holds three nucleotides per residue and at
most two more** -/
theorem codonAlign_error_iff (p nt : Seq) :
    codonAlignRow p nt = none ↔
      (nt.length < 3 * (ungap p).length ∨ 3 * (ungap p).length + 2 < nt.length) := by
  unfold codonAlignRow
  by_cases h : 3 * (ungap p).length ≤ nt.length
  · obtain ⟨b, hb⟩ := Proofs.TranslateAlign.codonThread_some p nt h
    rw [hb]
    simp only [List.length_drop]
    by_cases h2 : nt.length - 3 * (ungap p).length ≤ 2
    · rw [if_pos h2]; simp; omega
    · rw [if_neg h2]; simp; omega
  · rw [Proofs.TranslateAlign.codonThread_none p nt (by omega)]
    simp; omega

/-- **threading nucleotides onto a gapped copy of their own translation succeeds, and the codon alignment
translates back to that protein row**, under each of the three codes -/
theorem codonAlign_translates_back (codeId : Int) (nt p q : Seq)
    (ht : translateSeq 0 codeId nt = some q) (hp : ungap p = q) :
    ∃ b, codonAlignRow p nt = some b ∧ translateSeq 0 codeId b = some p := by
  cases hg : geneticCode codeId with
  | none => simp [translateSeq, hg] at ht
  | some code =>
    obtain ⟨n, hn, rfl⟩ := geneticCode_tbl codeId code hg
    have hq := translate_eq_codons codeId _ hg 0 nt q ht
    simp only [List.drop_zero] at hq
    obtain ⟨b, r, h1, h2, h3⟩ := Proofs.TranslateAlign.codonThread_back (tbl n) (gap_codon n hn) p nt (by rw [hp, hq.1])
    refine ⟨b, by simp [codonAlignRow, h1, h2], ?_⟩
    -- the protein row is not empty (its ungapped form is a non-empty translation)
    have hqlen : q.length ≥ 1 := by
      have := translate_length codeId 0 nt q ht
      omega
    have hplen : p.length ≥ 1 := by
      have : (ungap p).length ≤ p.length := List.length_filter_le _ _
      rw [hp] at this; omega
    have hblen := Proofs.TranslateAlign.codonThread_length p nt b r h1
    -- every character of the codon alignment may be a nucleotide
    have hnt : nt.all Proofs.TranslateAlign.ntOK = true := by
      unfold translateSeq at ht
      rw [hg] at ht
      simp only [Proofs.TranslateAlign.bufferTranslate_eq] at ht
      split at ht
      · rename_i hc; exact hc.1
      · simp at ht
    have hb : b.all Proofs.TranslateAlign.ntOK = true := by
      rw [List.all_eq_true] at hnt ⊢
      intro c hc
      rcases Proofs.TranslateAlign.codonThread_chars p nt b r h1 c hc with e | e
      · rw [e]; exact Proofs.TranslateAlign.gap_ntOK
      · exact hnt c e
    unfold translateSeq
    rw [hg]
    simp only [Proofs.TranslateAlign.bufferTranslate_eq]
    rw [if_pos ⟨hb, by omega⟩]
    simp [h3]

/-! ## TranslateByReference -/

private theorem byRef_unfold (alphabet phase : Nat) (codeId : Int) (refName : String) (rows out : List (String × Seq))
    (h : translateByReference alphabet phase codeId refName rows = some out) :
    ∃ refId code, findRowIdx refName rows 0 = some refId ∧ geneticCode codeId = some code ∧
      3 + phase ≤ (rows.getD refId ("", [])).2.length ∧
      out = rows.zipIdx.map fun x =>
        (x.1.1, if x.2 == refId then (refSegs code (rows.getD refId ("", [])).2.length ((rows.getD refId ("", [])).2.drop phase)).flatMap refChunk
                else compRow code (refSegs code (rows.getD refId ("", [])).2.length ((rows.getD refId ("", [])).2.drop phase)) (x.1.2.drop phase)) := by
  unfold translateByReference at h
  split at h
  · simp at h
  · split at h
    · simp at h
    · rename_i refId hid
      split at h
      · simp at h
      · split at h
        · simp at h
        · rename_i code hcode
          simp only [] at h
          split at h
          · simp at h
          · rename_i hlen
            simp only [Option.some.injEq] at h
            exact ⟨refId, code, hid, hcode, by omega, h.symm⟩

/-- **the result is rectangular** (every frame): same names in the same order, and all rows of one length -/
theorem byRef_rectangular (alphabet phase : Nat) (codeId : Int) (refName : String) (rows out : List (String × Seq))
    (h : translateByReference alphabet phase codeId refName rows = some out) :
    out.map Prod.fst = rows.map Prod.fst ∧ ∃ w, ∀ o ∈ out, o.2.length = w := by
  obtain ⟨refId, code, _, _, _, rfl⟩ := byRef_unfold alphabet phase codeId refName rows out h
  refine ⟨Proofs.TranslateRef.names_preserved _ rows 0, ?_⟩
  refine ⟨((refSegs code (rows.getD refId ("", [])).2.length ((rows.getD refId ("", [])).2.drop phase)).flatMap refChunk).length, ?_⟩
  intro o ho
  simp only [List.mem_map] at ho
  obtain ⟨x, _, rfl⟩ := ho
  simp only []
  split
  · rfl
  · exact Proofs.TranslateRef.compRow_length code _ (Proofs.TranslateRef.refSegs_len code _ _) _

private theorem findRowIdx_lt (name : String) (rows : List (String × Seq)) (k i : Nat)
    (h : findRowIdx name rows k = some i) : i < k + rows.length := by
  induction rows generalizing k with
  | nil => simp [findRowIdx] at h
  | cons r t ih =>
    obtain ⟨n, s⟩ := r
    unfold findRowIdx at h
    split at h
    · simp at h; simp; omega
    · have := ih (k + 1) h; simp; omega

/-- **without gaps, reference-guided translation is plain translation, in every frame**: when no row of the
alignment (all rows of one length) contains a gap, every row of the result is the codon-by-codon translation
of that row from `phase` on — which is what `Sequence.Translate` returns whenever it succeeds on that row.
The two also fail together on an alignment shorter than `3 + phase` (`byRef_short_is_error`): success here
implies `3 + phase ≤ L`, the length condition of plain translation. -/
theorem byRef_eq_translate_of_no_gaps (alphabet phase : Nat) (codeId : Int) (refName : String)
    (rows out : List (String × Seq)) (L : Nat)
    (hrect : ∀ r ∈ rows, r.2.length = L) (hnogap : ∀ r ∈ rows, ∀ x ∈ r.2, x ≠ GAP)
    (h : translateByReference alphabet phase codeId refName rows = some out) :
    ∃ code, geneticCode codeId = some code ∧ 3 + phase ≤ L ∧
      out = rows.map (fun r => (r.1, codonsFrom code (r.2.drop phase))) ∧
      ∀ r ∈ rows, ∀ p, translateSeq phase codeId r.2 = some p → (r.1, p) ∈ out := by
  obtain ⟨refId, code, hid, hcode, hlen3, rfl⟩ := byRef_unfold alphabet phase codeId refName rows out h
  have hlt := findRowIdx_lt refName rows 0 refId hid
  have hmem : rows.getD refId ("", []) ∈ rows := by
    rw [List.getD_eq_getElem?_getD, List.getElem?_eq_getElem (by omega)]
    exact List.getElem_mem _
  generalize hrefdef : rows.getD refId ("", []) = ref at hmem hlen3
  have hrl := hrect ref hmem
  have hrg := hnogap ref hmem
  have hseg := Proofs.TranslateRef.refSegs_nogap code ref.2.length (ref.2.drop phase)
    (by simp) (fun x hx => hrg x (List.mem_of_mem_drop hx))
  have hout : (rows.zipIdx.map fun x =>
      (x.1.1, if x.2 == refId then (refSegs code ref.2.length (ref.2.drop phase)).flatMap refChunk
              else compRow code (refSegs code ref.2.length (ref.2.drop phase)) (x.1.2.drop phase))) =
      rows.map (fun r => (r.1, codonsFrom code (r.2.drop phase))) := by
    have : (rows.zipIdx.map fun x =>
        (x.1.1, if x.2 == refId then (refSegs code ref.2.length (ref.2.drop phase)).flatMap refChunk
                else compRow code (refSegs code ref.2.length (ref.2.drop phase)) (x.1.2.drop phase))) =
        rows.zipIdx.map ((fun r => (r.1, codonsFrom code (r.2.drop phase))) ∘ Prod.fst) := by
      apply List.map_congr_left
      intro x hx
      have hxm : x.1 ∈ rows := List.fst_mem_of_mem_zipIdx hx
      have hxi : rows[x.2]? = some x.1 := List.mem_zipIdx_iff_getElem?.mp hx
      simp only [Function.comp]
      congr 1
      split
      · rename_i he
        have he' : x.2 = refId := by simpa using he
        -- the row at the reference index is the reference row
        have hxr : x.1 = ref := by
          rw [List.getD_eq_getElem?_getD, ← he', hxi] at hrefdef
          simpa using hrefdef
        rw [hxr]
        exact hseg.1
      · apply hseg.2
        · simp [hrect x.1 hxm, hrl]
        · intro c hc; exact hnogap x.1 hxm c (List.mem_of_mem_drop hc)
    rw [this, ← List.map_map, List.zipIdx_map_fst]
  refine ⟨code, hcode, by rw [← hrl]; exact hlen3, hout, ?_⟩
  intro r hr p hp
  rw [hout]
  have := translate_eq_codons codeId code hcode phase r.2 p hp
  rw [this.1]
  exact List.mem_map.mpr ⟨r, hr, rfl⟩

private theorem refSegs_short (code : List (List Byte × Byte)) (fuel : Nat) (rem : Seq) (h : rem.length < 3) :
    refSegs code fuel rem = [] := by
  cases fuel with
  | zero => rfl
  | succ fuel =>
    match rem, h with
    | [], _ => rfl
    | [_], _ => rfl
    | [_, _], _ => rfl
    | _ :: _ :: _ :: _, h => simp at h; omega

/-- **short alignments: both are errors** — on an alignment shorter than `3 + phase` plain translation fails for
every row and so does `TranslateByReference` (it returned rows without residues before the `fix:` commit) -/
theorem byRef_short_is_error (alphabet phase : Nat) (codeId : Int) (refName : String)
    (rows : List (String × Seq)) (hshort : ∀ r ∈ rows, r.2.length < 3 + phase) :
    translateByReference alphabet phase codeId refName rows = none ∧
    ∀ r ∈ rows, translateSeq phase codeId r.2 = none := by
  refine ⟨?_, ?_⟩
  · cases h : translateByReference alphabet phase codeId refName rows with
    | none => rfl
    | some out =>
      obtain ⟨refId, code, hid, _, hlen3, _⟩ := byRef_unfold alphabet phase codeId refName rows out h
      have hlt := findRowIdx_lt refName rows 0 refId hid
      have hmem : rows.getD refId ("", []) ∈ rows := by
        rw [List.getD_eq_getElem?_getD, List.getElem?_eq_getElem (by omega)]
        exact List.getElem_mem _
      have := hshort _ hmem
      omega
  · intro r hr
    rw [translate_error_iff]
    exact Or.inr (Or.inr (hshort r hr))

/-- a negative phase (the command line's "three frames" value −1 included) is an error, not a crash; otherwise
the `int` phase is used as it is -/
theorem byRef_negative_phase_is_error (alphabet : Nat) (phase : Int) (codeId : Int) (refName : String)
    (rows : List (String × Seq)) :
    (phase < 0 → translateByReferenceZ alphabet phase codeId refName rows = none) ∧
    (0 ≤ phase → translateByReferenceZ alphabet phase codeId refName rows =
      translateByReference alphabet phase.toNat codeId refName rows) := by
  unfold translateByReferenceZ
  constructor
  · intro h; simp [h]
  · intro h
    have : ¬ phase < 0 := by omega
    simp [this]

/-- **the reference row, gaps removed, is a prefix of the translation of the ungapped reference** read from
column `phase` on (for every gap placement; the walk stops at the first incomplete codon and drops nothing of
the reference in between) -/
theorem byRef_ref_row_prefix_from (alphabet phase : Nat) (codeId : Int) (refName : String) (rows out : List (String × Seq))
    (h : translateByReference alphabet phase codeId refName rows = some out) :
    ∃ code r o, geneticCode codeId = some code ∧ findRow refName rows = some r ∧ findRow refName out = some o ∧
      ungap o <+: codonsFrom code (ungap (r.drop phase)) := by
  obtain ⟨refId, code, hid, hcode, hlen3, rfl⟩ := byRef_unfold alphabet phase codeId refName rows out h
  obtain ⟨n, hn, rfl⟩ := geneticCode_tbl codeId code hcode
  have hf := Proofs.TranslateRef.findRow_byIdx refName
    ((refSegs (tbl n) (rows.getD refId ("", [])).2.length ((rows.getD refId ("", [])).2.drop phase)).flatMap refChunk)
    (fun s => compRow (tbl n) (refSegs (tbl n) (rows.getD refId ("", [])).2.length ((rows.getD refId ("", [])).2.drop phase)) (s.drop phase))
    rows 0 refId hid
  refine ⟨tbl n, (rows.getD refId ("", [])).2, _, hcode, ?_, hf.1, ?_⟩
  · simpa using hf.2
  · exact Proofs.TranslateRef.refRow_prefix (tbl n)
      (fun x y z hx _ _ hg => hx ((codon_gap_iff n hn x y z).mp hg).1)
      (rows.getD refId ("", [])).2.length ((rows.getD refId ("", [])).2.drop phase)

/-- **frame 0: the reference row, gaps removed, is a prefix of the translation of the ungapped reference** -/
theorem byRef_ref_row_prefix (alphabet : Nat) (codeId : Int) (refName : String) (rows out : List (String × Seq))
    (h : translateByReference alphabet 0 codeId refName rows = some out) :
    ∃ code r o, geneticCode codeId = some code ∧ findRow refName rows = some r ∧ findRow refName out = some o ∧
      ungap o <+: codonsFrom code (ungap r) := by
  simpa using byRef_ref_row_prefix_from alphabet 0 codeId refName rows out h

/-- `TranslateByReference` fails exactly for an empty or unknown reference name, a non-nucleotide alphabet, an
unknown genetic code, or an alignment (reference row) shorter than `3 + phase` -/
theorem byRef_error_iff (alphabet phase : Nat) (codeId : Int) (refName : String) (rows : List (String × Seq)) :
    translateByReference alphabet phase codeId refName rows = none ↔
      (refName = "" ∨ findRowIdx refName rows 0 = none ∨ (alphabet ≠ NUCLEOTIDS ∧ alphabet ≠ BOTH) ∨
       geneticCode codeId = none ∨
       ∃ refId, findRowIdx refName rows 0 = some refId ∧ (rows.getD refId ("", [])).2.length < 3 + phase) := by
  unfold translateByReference
  by_cases h0 : refName = ""
  · simp [h0]
  · have h0' : (refName == "") = false := by simpa using h0
    simp only [h0', Bool.false_eq_true, if_false, h0, false_or]
    cases h1 : findRowIdx refName rows 0 with
    | none => simp
    | some refId =>
      simp only [reduceCtorEq, false_or, Option.some.injEq, exists_eq_left']
      by_cases hl : (rows.getD refId ("", [])).2.length < 3 + phase
      · by_cases h2 : alphabet = NUCLEOTIDS
        · cases h3 : geneticCode codeId <;> simp [h2, hl, NUCLEOTIDS, BOTH]
        · by_cases h2' : alphabet = BOTH
          · cases h3 : geneticCode codeId <;> simp [h2', hl, NUCLEOTIDS, BOTH]
          · simp [h2, h2', hl]
      · by_cases h2 : alphabet = NUCLEOTIDS
        · cases h3 : geneticCode codeId <;> simp [h2, hl, NUCLEOTIDS, BOTH]
        · by_cases h2' : alphabet = BOTH
          · cases h3 : geneticCode codeId <;> simp [h2', hl, NUCLEOTIDS, BOTH]
          · simp [h2, h2', hl]

/-! ## three frames -/

private theorem mapM_named {α : Type} (nm : α → String) (g : α → Option Seq) (l : List α) (out : List (String × Seq))
    (h : l.mapM (fun x => (g x).map fun p => (nm x, p)) = some out) :
    out.map Prod.fst = l.map nm ∧ ∀ (i : Nat) (x : α), l[i]? = some x → ∃ p, g x = some p ∧ out[i]? = some (nm x, p) := by
  have hm := mapM_rows _ l out h
  refine ⟨?_, ?_⟩
  · apply List.ext_getElem?
    intro i
    simp only [List.getElem?_map]
    cases hl : l[i]? with
    | none =>
      have : out[i]? = none := by
        rw [List.getElem?_eq_none_iff] at hl ⊢
        omega
      simp [this]
    | some x =>
      obtain ⟨b, hb, hx⟩ := hm.2 i x hl
      simp only [Option.map_eq_some_iff] at hx
      obtain ⟨p, _, rfl⟩ := hx
      simp [hb]
  · intro i x hx
    obtain ⟨b, hb, hf⟩ := hm.2 i x hx
    simp only [Option.map_eq_some_iff] at hf
    obtain ⟨p, hp, rfl⟩ := hf
    exact ⟨p, hp, hb⟩

/-- **translation in the three frames** (`phase = −1`): three rows per input row, in row order then frame order,
named `<name>_0`, `<name>_1`, `<name>_2`, the `k`-th of them being the translation of the row in frame `k` -/
theorem three_frames_names_and_count (alphabet : Nat) (codeId : Int) (rows out : List (String × Seq))
    (h : translateFrames alphabet (-1) codeId rows = some out) :
    out.length = 3 * rows.length ∧
    out.map Prod.fst = rows.flatMap (fun r => [r.1 ++ "_" ++ toString 0, r.1 ++ "_" ++ toString 1, r.1 ++ "_" ++ toString 2]) ∧
    ∀ (i : Nat) (r : String × Seq), rows[i]? = some r → ∀ k, k < 3 →
      ∃ p, translateSeq k codeId r.2 = some p ∧ out[3 * i + k]? = some (r.1 ++ "_" ++ toString k, p) := by
  unfold translateFrames at h
  cases hg : geneticCode codeId with
  | none => simp [hg] at h
  | some code =>
    simp only [hg] at h
    split at h
    · simp at h
    · have hm := mapM_named (fun x : String × Nat × Seq => x.1) (fun x => translateSeq x.2.1 codeId x.2.2) _ out h
      have hfl : (rows.flatMap fun r => (framesOf (-1)).map fun f => (frameName (-1) r.1 f, f, r.2)) =
          rows.flatMap fun r => [(r.1 ++ "_" ++ toString 0, 0, r.2), (r.1 ++ "_" ++ toString 1, 1, r.2), (r.1 ++ "_" ++ toString 2, 2, r.2)] := by
        have e1 : framesOf (-1) = [0, 1, 2] := rfl
        have e2 : ∀ (n : String) (f : Nat), frameName (-1) n f = n ++ "_" ++ toString f := fun _ _ => rfl
        simp only [e1, e2, List.map_cons, List.map_nil]
      rw [hfl] at hm
      have hlen : ∀ (l : List (String × Seq)),
          (l.flatMap fun r => [(r.1 ++ "_" ++ toString 0, 0, r.2), (r.1 ++ "_" ++ toString 1, 1, r.2), (r.1 ++ "_" ++ toString 2, 2, r.2)]).length = 3 * l.length := by
        intro l
        induction l with
        | nil => rfl
        | cons a t ih =>
          simp only [List.flatMap_cons, List.length_append, List.length_cons, List.length_nil, ih]; omega
      have hget : ∀ (l : List (String × Seq)) (i : Nat) (r : String × Seq), l[i]? = some r → ∀ k, k < 3 →
          (l.flatMap fun r => [(r.1 ++ "_" ++ toString 0, 0, r.2), (r.1 ++ "_" ++ toString 1, 1, r.2), (r.1 ++ "_" ++ toString 2, 2, r.2)])[3 * i + k]? =
            some (r.1 ++ "_" ++ toString k, k, r.2) := by
        intro l
        induction l with
        | nil => intro i r hr; simp at hr
        | cons a t ih =>
          intro i r hr k hk
          cases i with
          | zero =>
            simp at hr; subst hr
            match k, hk with
            | 0, _ => rfl
            | 1, _ => rfl
            | 2, _ => rfl
          | succ i =>
            simp at hr
            have := ih i r hr k hk
            simp only [List.flatMap_cons]
            have e : 3 * (i + 1) + k = (3 * i + k) + 3 := by omega
            rw [e]
            simpa using this
      refine ⟨?_, ?_, ?_⟩
      · have := congrArg List.length hm.1
        simp only [List.length_map] at this
        rw [this, hlen]
      · rw [hm.1]
        generalize rows = l
        induction l with
        | nil => rfl
        | cons a t ih =>
          simp only [List.flatMap_cons, List.map_append, List.map_cons, List.map_nil, ih]
      · intro i r hr k hk
        obtain ⟨p, hp, ho⟩ := hm.2 (3 * i + k) _ (hget rows i r hr k hk)
        exact ⟨p, hp, ho⟩

/-- one frame (`phase ≥ 0`): one row per input row, same names, the translation of the row in that frame -/
theorem one_frame_names_and_count (alphabet : Nat) (phase : Nat) (codeId : Int) (rows out : List (String × Seq))
    (h : translateFrames alphabet (phase : Int) codeId rows = some out) :
    out.map Prod.fst = rows.map Prod.fst ∧
    ∀ (i : Nat) (r : String × Seq), rows[i]? = some r →
      ∃ p, translateSeq phase codeId r.2 = some p ∧ out[i]? = some (r.1, p) := by
  unfold translateFrames at h
  cases hg : geneticCode codeId with
  | none => simp [hg] at h
  | some code =>
    simp only [hg] at h
    split at h
    · simp at h
    · have hph : ((phase : Int) == -1) = false := by
        simp only [beq_eq_false_iff_ne, ne_eq]; omega
      have hfl : (rows.flatMap fun r => (framesOf (phase : Int)).map fun f => (frameName (phase : Int) r.1 f, f, r.2)) =
          rows.map fun r => (r.1, phase, r.2) := by
        simp only [framesOf, frameName, hph, Bool.false_eq_true, if_false, Int.toNat_natCast, List.map_cons, List.map_nil]
        generalize rows = l
        induction l with
        | nil => rfl
        | cons a t ih => simp [List.flatMap_cons, ih]
      rw [hfl] at h
      have hm := mapM_named (fun x : String × Nat × Seq => x.1) (fun x => translateSeq x.2.1 codeId x.2.2) _ out h
      refine ⟨by rw [hm.1, List.map_map]; rfl, ?_⟩
      intro i r hr
      have : (rows.map fun r => (r.1, phase, r.2))[i]? = some (r.1, phase, r.2) := by simp [hr]
      obtain ⟨p, hp, ho⟩ := hm.2 i _ this
      exact ⟨p, hp, ho⟩

/-- `Alignment.Translate` caches the length of the first translated row (−1 without rows) -/
theorem alignTranslate_length (alphabet : Nat) (phase : Int) (codeId : Int) (rows out : List (String × Seq)) (len : Int)
    (h : alignTranslate alphabet phase codeId rows = some (out, len)) :
    translateFrames alphabet phase codeId rows = some out ∧
    (out = [] → len = -1) ∧ (∀ r t, out = r :: t → len = (r.2.length : Int)) := by
  unfold alignTranslate at h
  cases ht : translateFrames alphabet phase codeId rows with
  | none => simp [ht] at h
  | some o =>
    simp only [ht, Option.map_some, Option.some.injEq, Prod.mk.injEq] at h
    obtain ⟨h1, h2⟩ := h
    subst h1
    refine ⟨rfl, ?_, ?_⟩
    · intro e; subst e; exact h2.symm
    · intro r t e; subst e; exact h2.symm

/-! ## non-vacuity -/

example : translateSeq 1 0 [65, 65, 84, 71, 78, 78, 78, 84, 65, 82, 45, 45, 45] = some [77, 88, 42, 45] := by
  decide

/-- protein rows `M-K*`, nucleotides `ATGAAATAGC` (one trailing base): threading, length, translating back -/
example : codonAlignRow [77, 45, 75, 42] [65, 84, 71, 65, 65, 65, 84, 65, 71, 67] =
    some [65, 84, 71, 45, 45, 45, 65, 65, 65, 84, 65, 71] := by decide
example : translateSeq 0 0 [65, 84, 71, 65, 65, 65, 84, 65, 71, 67] = some [77, 75, 42] ∧
    ungap [77, 45, 75, 42] = [77, 75, 42] ∧
    translateSeq 0 0 [65, 84, 71, 45, 45, 45, 65, 65, 65, 84, 65, 71] = some [77, 45, 75, 42] := by decide
example : codonAlignRow [77, 75] [65, 84, 71, 65, 65] = none ∧ codonAlignRow [77] [65, 84, 71, 65, 65, 65] = none := by decide

/-- reference `-AC--GTAC`, other row `TACTTGTAC`: the column in front of the first codon is dropped, the codon
`A C - - G` faces five nucleotides (frameshift: `X`), then `TAC` -/
example : translateByReference 1 0 0 "r" [("r", [45, 65, 67, 45, 45, 71, 84, 65, 67]), ("s", [84, 65, 67, 84, 84, 71, 84, 65, 67])] =
    some [("r", [84, 89]), ("s", [88, 89])] := by decide
/-- an insertion of a whole codon: reference `AC---GTAC`, other row `ACTTTGTAC` ↦ `T-Y` / `TLY` -/
example : translateByReference 1 0 0 "r" [("r", [65, 67, 45, 45, 45, 71, 84, 65, 67]), ("s", [65, 67, 84, 84, 84, 71, 84, 65, 67])] =
    some [("r", [84, 45, 89]), ("s", [84, 76, 89])] := by decide
/-- no gaps, frame 1 -/
example : translateByReference 1 1 0 "r" [("r", [65, 65, 84, 71, 65]), ("s", [67, 71, 67, 84, 84])] =
    some [("r", [77]), ("s", [65])] ∧ translateSeq 1 0 [67, 71, 67, 84, 84] = some [65] := by decide
/-- shorter than `3 + phase`: an error, like plain translation; a negative phase: an error -/
example : translateByReference 1 0 0 "r" [("r", [65, 67]), ("s", [65, 67])] = none ∧
    translateSeq 0 0 [65, 67] = none ∧
    translateByReferenceZ 1 (-1) 0 "r" [("r", [65, 67, 71]), ("s", [65, 67, 71])] = none := by decide
example : translateFrames 1 (-1) 0 [("a", [65, 84, 71, 65, 65])] = some [("a_0", [77]), ("a_1", [42]), ("a_2", [69])] := by
  decide

end Gv.Props.C05
