import Gv.Model.Fmt.Fasta
import Gv.Spec.Fmt
/-!
C03 — parsers terminate on every input with an error or a well-formed result.

Totality of every parser model is discharged by Lean's termination checker (the models are total
functions `List Byte → Outcome …`).  What remains to be proved per format is that the outcome is never
`panic` / `hang` and that a success is well formed (`Spec.Fmt.wellFormed`).
-/
namespace Gv.Props.C03
open Gv Gv.Model Gv.Model.Fmt

/-- the C03 predicate on a model outcome -/
def Good : Outcome Aln → Prop
  | .ok a => Spec.Fmt.wellFormed a.length a.rows = true
  | .error => True
  | .exit => True
  | .panic => False
  | .hang => False

instance : DecidablePred Good := fun o => by
  cases o <;> simp only [Good] <;> infer_instance

/-- `∀ bs o, Good (Fasta.parse false o bs)` is FALSE for the code as it is: `">a\n"` succeeds with
zero rows and length −1. -/
theorem fasta_outcome_counterexample :
    ¬ Good (Fasta.parse false {} [62, 97, 10]) := by
  have h : Fasta.parse false {} [62, 97, 10] = .ok ⟨1, -1, []⟩ := by
    simp [Fasta.parse, Fasta.parseBag, Fasta.lex, Fasta.scan, Fasta.skipEol, Fasta.loop, Fasta.body,
      Fasta.isEOL, Fasta.identChar, Fasta.afterRun, Fasta.GT, NL, CR, Fasta.stripSpaces, SP]
    decide
  rw [h]; decide

end Gv.Props.C03
