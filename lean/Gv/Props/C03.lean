import Gv.Proofs.FastaOutcome
/-!
C03 — parsers terminate on every input with an error or a well-formed result.

Totality of every parser model is discharged by Lean's termination checker (the models are total
functions `List Byte → Outcome …`).  What is proved per format is that the outcome is never
`panic` / `hang` and that a success is well formed (`Spec.Fmt.wellFormed`: non-empty, at least one
column, rectangular with the reported length, names pairwise distinct).

FASTA: the full statement `∀ bs o, Good (Fasta.parse false o bs)` is FALSE for the code as it is
(`fasta_outcome_counterexample`); proved instead: `fasta_outcome_partial` (everything except
non-emptiness, and zero rows only for the known empty-record shape) and `fasta_outcome_fixed` (the full
statement for the parser with the proposed patch; the oracle model switches to it when the regenerated
fact `Gen.FmtFacts.fasta_rejects_empty` says the patch is in the working tree).

Open (no model yet; judged on the implementation by the oracle predicate on every run, see `PARTIAL`
in driver/props/c03.py):
  theorem phylip_outcome / nexus_outcome / clustal_outcome / stockholm_outcome / partition_outcome
    (bs) (o) : match parse o bs with | .ok r => WellFormed r | .error | .exit => True | .panic | .hang => False
  — each FALSE for the code as it is (known_findings.jsonl lists the witnesses).
-/
namespace Gv.Props.C03
open Gv Gv.Model Gv.Model.Fmt Gv.Proofs.BagInv Gv.Proofs.FastaOutcome

/-- the C03 predicate on a model outcome -/
def Good : Outcome Aln → Prop
  | .ok a => Spec.Fmt.wellFormed a.length a.rows = true
  | .error => True
  | .exit => True
  | .panic => False
  | .hang => False

instance : DecidablePred Good := fun o => by
  cases o <;> simp only [Good] <;> infer_instance

/-- `∀ bs o, Good (Fasta.parse false o bs)` is FALSE for the code as it is: `">a\n"` succeeds with
zero rows and length −1. -/
theorem fasta_outcome_counterexample :
    ¬ Good (Fasta.parse false {} [62, 97, 10]) := by
  have h : Fasta.parse false {} [62, 97, 10] = .ok ⟨1, -1, []⟩ := by
    simp [Fasta.parse, Fasta.parseBag, Fasta.lex, Fasta.scan, Fasta.skipEol, Fasta.loop, Fasta.body,
      Fasta.isEOL, Fasta.identChar, Fasta.afterRun, Fasta.GT, NL, CR, Fasta.stripSpaces, SP]
    decide
  rw [h]; decide

/-- the witness has the known empty-record shape (non-vacuity of the last clause below) -/
example : EmptyRecords [62, 97, 10] := by
  intro s hs
  simp [Fasta.lex, Fasta.scan, Fasta.isEOL, Fasta.identChar, Fasta.afterRun, Fasta.GT, NL, CR, seqIdents] at hs

/-- **FASTA, code as it is** (also with the patch): for ALL byte strings and options the model parser
returns `ok` or `error` — never `panic`, `hang` or `exit` — and a success is rectangular with the
reported length, has pairwise distinct names, at least one column when it has a row, and has zero rows
only when no sequence line of the input holds a non-space byte (then the length is −1).
Missing for the full C03 statement: `a.rows ≠ []` (false, see the counter-example). -/
theorem fasta_outcome_partial (fix : Bool) (o : POpts) (bs : List Byte) :
    match Fasta.parse fix o bs with
    | .ok a => (∀ r ∈ a.rows, (r.2.length : Int) = a.length) ∧
               Spec.Fmt.distinct (a.rows.map (·.1)) = true ∧
               (a.rows ≠ [] → 1 ≤ a.length) ∧
               (a.rows = [] → a.length = -1 ∧ EmptyRecords bs)
    | .error => True
    | .exit | .panic | .hang => False := by
  unfold Fasta.parse
  cases hpb : Fasta.parseBag o.ignore bs with
  | none => simp
  | some b =>
    have hg := parseBag_good _ _ _ hpb
    by_cases hc : (fix && b.rows.isEmpty) = true
    · simp [hc]
    · cases hf : b.finish (normAlphabet o.alphabet) with
      | none => simp [hc, hf]
      | some a =>
        obtain ⟨hr, hl⟩ := finish_rows b _ a hf
        simp only [hc, hf, Bool.false_eq_true, ↓reduceIte]
        rw [hr, hl]
        refine ⟨hg.1.2.1, hg.1.2.2, hg.2, ?_⟩
        intro he
        exact ⟨hg.1.1 he, parseBag_zero_rows _ _ _ hpb he⟩

/-- **FASTA with the proposed patch** (`proposed_fixes/c03-fasta.diff`): the full C03 statement, for all
byte strings and all options. -/
theorem fasta_outcome_fixed (o : POpts) (bs : List Byte) : Good (Fasta.parse true o bs) := by
  unfold Fasta.parse
  cases hpb : Fasta.parseBag o.ignore bs with
  | none => simp [Good]
  | some b =>
    have hg := parseBag_good _ _ _ hpb
    by_cases hc : (true && b.rows.isEmpty) = true
    · simp [hc, Good]
    · cases hf : b.finish (normAlphabet o.alphabet) with
      | none => simp [hc, hf, Good]
      | some a =>
        obtain ⟨hr, hl⟩ := finish_rows b _ a hf
        have hne : b.rows ≠ [] := by intro e; simp [e] at hc
        have hcf : (true && b.rows.isEmpty) = false := by simpa using hc
        simp only [hcf, hf, Good, Bool.false_eq_true, ↓reduceIte]
        rw [hr, hl]
        exact wellFormed_of_inv b hg.1 hg.2 hne

/-- non-vacuity: the patched parser still accepts an ordinary file -/
example : Fasta.parse true {} [62, 97, 10, 65, 67, 10] = .ok ⟨1, 2, [([97], [65, 67])]⟩ := by
  simp [Fasta.parse, Fasta.parseBag, Fasta.lex, Fasta.scan, Fasta.skipEol, Fasta.loop, Fasta.body,
    Fasta.isEOL, Fasta.identChar, Fasta.afterRun, Fasta.GT, NL, CR, Fasta.stripSpaces, Fasta.noSpaces, SP,
    Bag.add, Bag.find]
  decide

end Gv.Props.C03
