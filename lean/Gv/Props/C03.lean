import Gv.Proofs.FastaOutcome
import Gv.Model.Fmt.Phylip
import Gv.Model.Fmt.Stockholm
import Gv.Model.Fmt.Clustal
import Gv.Model.Fmt.Nexus
import Gv.Model.Fmt.Partition
import Gv.Proofs.PartitionRange
import Gv.Proofs.StockholmOutcome
import Gv.Proofs.PhylipOutcome
import Gv.Proofs.ClustalOutcome
import Gv.Proofs.NexusOutcome
import Gv.Proofs.NexusNoHang
import Gv.Proofs.ClustalNoHang
import Gv.Proofs.PhylipNoHang
import Gv.Proofs.ClustalPos
import Gv.Proofs.PartitionOutcome
import Gv.Proofs.PhylipHeader
import Gv.Proofs.NexusHeader
import Gv.Proofs.PhylipMulti
import Gv.Proofs.Utf8Norm
import Gv.Proofs.Utf8Header
import Gv.Proofs.FastaRunes
/-!
C03 — parsers terminate on every input with an error or a well-formed result.

Totality of every parser model is discharged by Lean's termination checker (the models are total
functions `List Byte → Outcome …`).  What is proved per format is that the outcome is never
`panic` / `hang` and that a success is well formed (`Spec.Fmt.wellFormed`: non-empty, at least one
column, rectangular with the reported length, names pairwise distinct).

FASTA: the full statement `∀ bs o, Good (Fasta.parse false o bs)` is FALSE for the code as it is
(`fasta_outcome_counterexample`); proved instead: `fasta_outcome_partial` (everything except
non-emptiness, and zero rows only for the known empty-record shape) and `fasta_outcome_fixed` (the full
statement for the parser with the proposed patch; the oracle model switches to it when the regenerated
fact `Gen.FmtFacts.fasta_rejects_empty` says the patch is in the working tree).

Open (no model yet; judged on the implementation by the oracle predicate on every run, see `PARTIAL`
in driver/props/c03.py):
  theorem phylip_outcome / nexus_outcome / clustal_outcome / stockholm_outcome / partition_outcome
    (bs) (o) : match parse o bs with | .ok r => WellFormed r | .error | .exit => True | .panic | .hang => False
  — each FALSE for the code as it is (known_findings.jsonl lists the witnesses).
-/
namespace Gv.Props.C03
open Gv Gv.Model Gv.Model.Fmt Gv.Proofs.FmtBagInv Gv.Proofs.FastaOutcome

/-- the C03 predicate on a model outcome -/
def Good : Outcome Aln → Prop
  | .ok a => Spec.Fmt.wellFormed a.length a.rows = true
  | .error => True
  | .exit => True
  | .panic => False
  | .hang => False

instance : DecidablePred Good := fun o => by
  cases o <;> simp only [Good] <;> infer_instance

/-- `∀ bs o, Good (Fasta.parse false o bs)` is FALSE for the code as it is: `">a\n"` succeeds with
zero rows and length −1. -/
theorem fasta_outcome_counterexample :
    ¬ Good (Fasta.parse false {} [62, 97, 10]) := by
  have h : Fasta.parse false {} [62, 97, 10] = .ok ⟨1, -1, []⟩ := by
    simp [Fasta.parse, Fasta.parseBag, Fasta.lex, Fasta.scan, Fasta.skipEol, Fasta.loop, Fasta.body,
      Fasta.isEOL, Fasta.identChar, Fasta.afterRun, Fasta.GT, NL, CR, Fasta.stripSpaces, SP]
    decide
  rw [h]; decide

/-- the witness has the known empty-record shape (non-vacuity of the last clause below) -/
example : EmptyRecords [62, 97, 10] := by
  intro s hs
  simp [Fasta.lex, Fasta.scan, Fasta.isEOL, Fasta.identChar, Fasta.afterRun, Fasta.GT, NL, CR, seqIdents] at hs

/-- **FASTA, code as it is** (also with the patch): for ALL byte strings and options the model parser
returns `ok` or `error` — never `panic`, `hang` or `exit` — and a success is rectangular with the
reported length, has pairwise distinct names, at least one column when it has a row, and has zero rows
only when no sequence line of the input holds a non-space byte (then the length is −1).
Missing for the full C03 statement: `a.rows ≠ []` (false, see the counter-example). -/
theorem fasta_outcome_partial (fix : Bool) (o : POpts) (bs : List Byte) :
    match Fasta.parse fix o bs with
    | .ok a => (∀ r ∈ a.rows, (r.2.length : Int) = a.length) ∧
               Spec.Fmt.distinct (a.rows.map (·.1)) = true ∧
               (a.rows ≠ [] → 1 ≤ a.length) ∧
               (a.rows = [] → a.length = -1 ∧ EmptyRecords bs)
    | .error => True
    | .exit | .panic | .hang => False := by
  unfold Fasta.parse
  cases hpb : Fasta.parseBag o.ignore bs with
  | none => simp
  | some b =>
    have hg := parseBag_good _ _ _ hpb
    by_cases hc : (fix && b.rows.isEmpty) = true
    · simp [hc]
    · cases hf : b.finish (normAlphabet o.alphabet) with
      | none => simp [hc, hf]
      | some a =>
        obtain ⟨hr, hl⟩ := finish_rows b _ a hf
        simp only [hc, hf, Bool.false_eq_true, ↓reduceIte]
        rw [hr, hl]
        refine ⟨hg.1.2.1, hg.1.2.2, hg.2, ?_⟩
        intro he
        exact ⟨hg.1.1 he, parseBag_zero_rows _ _ _ hpb he⟩

/-- **FASTA with the proposed patch** (`proposed_fixes/c03-fasta.diff`): the full C03 statement, for all
byte strings and all options. -/
theorem fasta_outcome_fixed (o : POpts) (bs : List Byte) : Good (Fasta.parse true o bs) := by
  unfold Fasta.parse
  cases hpb : Fasta.parseBag o.ignore bs with
  | none => simp [Good]
  | some b =>
    have hg := parseBag_good _ _ _ hpb
    by_cases hc : (true && b.rows.isEmpty) = true
    · simp [hc, Good]
    · cases hf : b.finish (normAlphabet o.alphabet) with
      | none => simp [hc, hf, Good]
      | some a =>
        obtain ⟨hr, hl⟩ := finish_rows b _ a hf
        have hne : b.rows ≠ [] := by intro e; simp [e] at hc
        have hcf : (true && b.rows.isEmpty) = false := by simpa using hc
        simp only [hcf, hf, Good, Bool.false_eq_true, ↓reduceIte]
        rw [hr, hl]
        exact wellFormed_of_inv b hg.1 hg.2 hne

/-- non-vacuity: the patched parser still accepts an ordinary file -/
example : Fasta.parse true {} [62, 97, 10, 65, 67, 10] = .ok ⟨1, 2, [([97], [65, 67])]⟩ := by
  simp [Fasta.parse, Fasta.parseBag, Fasta.lex, Fasta.scan, Fasta.skipEol, Fasta.loop, Fasta.body,
    Fasta.isEOL, Fasta.identChar, Fasta.afterRun, Fasta.GT, NL, CR, Fasta.stripSpaces, Fasta.noSpaces, SP,
    Bag.add, Bag.find]
  decide

/-! ## The other parsers: the full outcome statement is FALSE for the code as it is

Each witness below is the minimal input of a finding recorded in `known_findings.jsonl`; the model
(with all repair facts `false` = the unchanged code) is evaluated by the kernel.  The second theorem
of each pair evaluates the model with the facts of the proposed patch: an explicit error. -/

set_option maxRecDepth 100000

/-- `# STOCKHOLM 1.0\n#` — markup on the last line: the markup loop never sees ENDOFLINE -/
theorem stockholm_counterexample_hang :
    Stockholm.parse false false {} [35, 32, 83, 84, 79, 67, 75, 72, 79, 76, 77, 32, 49, 46, 48, 10, 35] = .hang := by decide
/-- `# STOCKHOLM 1.0\n//` — success with zero rows (length −1 passes the `Length() == 0` test) -/
theorem stockholm_counterexample_empty :
    Stockholm.parse false false {} [35, 32, 83, 84, 79, 67, 75, 72, 79, 76, 77, 32, 49, 46, 48, 10, 47, 47] = .ok ⟨1, -1, []⟩ := by decide
theorem stockholm_patched_witnesses :
    Stockholm.parse true true {} [35, 32, 83, 84, 79, 67, 75, 72, 79, 76, 77, 32, 49, 46, 48, 10, 35] = .error ∧
    Stockholm.parse true true {} [35, 32, 83, 84, 79, 67, 75, 72, 79, 76, 77, 32, 49, 46, 48, 10, 47, 47] = .error := by decide

/-- `#NEXUS\n[` — unterminated comment: `consumeComment` spins at EOF -/
theorem nexus_counterexample_hang :
    Nexus.parse ⟨false, false, false, false, false, false, false⟩ {} [35, 78, 69, 88, 85, 83, 10, 91] = .hang := by decide
/-- a matrix row without residues: success with zero columns -/
theorem nexus_counterexample_zero_columns :
    Nexus.parse ⟨false, false, false, false, false, false, false⟩ {} [35, 78, 69, 88, 85, 83, 10, 98, 101, 103, 105, 110, 32, 100, 97, 116, 97, 59, 10, 109, 97, 116, 114, 105, 120, 10, 97, 32, 10, 59, 10, 101, 110, 100, 59, 10] = .ok ⟨1, 0, [([97], [])]⟩ := by decide
/-- `ntax=-1 nchar=-1` is accepted with one row of one column -/
theorem nexus_counterexample_minus_one :
    Nexus.parse ⟨false, false, false, false, false, false, false⟩ {} [35, 78, 69, 88, 85, 83, 10, 98, 101, 103, 105, 110, 32, 100, 97, 116, 97, 59, 10, 100, 105, 109, 101, 110, 115, 105, 111, 110, 115, 32, 110, 116, 97, 120, 61, 45, 49, 32, 110, 99, 104, 97, 114, 61, 45, 49, 59, 10, 109, 97, 116, 114, 105, 120, 10, 97, 32, 65, 10, 59, 10, 101, 110, 100, 59, 10] = .ok ⟨1, 1, [([97], [65])]⟩ := by decide
theorem nexus_patched_witnesses :
    Nexus.parse ⟨true, true, true, false, false, false, false⟩ {} [35, 78, 69, 88, 85, 83, 10, 91] = .error ∧
    Nexus.parse ⟨true, true, true, false, false, false, false⟩ {} [35, 78, 69, 88, 85, 83, 10, 98, 101, 103, 105, 110, 32, 100, 97, 116, 97, 59, 10, 109, 97, 116, 114, 105, 120, 10, 97, 32, 10, 59, 10, 101, 110, 100, 59, 10] = .error ∧
    Nexus.parse ⟨true, true, true, false, false, false, false⟩ {} [35, 78, 69, 88, 85, 83, 10, 98, 101, 103, 105, 110, 32, 100, 97, 116, 97, 59, 10, 100, 105, 109, 101, 110, 115, 105, 111, 110, 115, 32, 110, 116, 97, 120, 61, 45, 49, 32, 110, 99, 104, 97, 114, 61, 45, 49, 59, 10, 109, 97, 116, 114, 105, 120, 10, 97, 32, 65, 10, 59, 10, 101, 110, 100, 59, 10] = .error := by decide

/-- a second block with more rows than the first: `names[currentnbseqs]` out of range -/
theorem clustal_counterexample_panic :
    Clustal.parse false {} [67, 76, 85, 83, 84, 65, 76, 32, 87, 10, 10, 97, 32, 65, 67, 10, 32, 32, 42, 42, 10, 10, 97, 32, 65, 67, 10, 98, 32, 65, 67, 10] = .panic := by decide
theorem clustal_patched_witness :
    Clustal.parse true {} [67, 76, 85, 83, 84, 65, 76, 32, 87, 10, 10, 97, 32, 65, 67, 10, 32, 32, 42, 42, 10, 10, 97, 32, 65, 67, 10, 98, 32, 65, 67, 10] = .error := by decide

/-- `  99999999999999 10\n` — `make([]string, nbseq)`: makeslice panics -/
theorem phylip_counterexample_alloc_panic :
    Phylip.parse true {} [32, 32, 57, 57, 57, 57, 57, 57, 57, 57, 57, 57, 57, 57, 57, 57, 32, 49, 48, 10] = .panic := by decide
theorem phylip_patched_witness :
    Phylip.parse false {} [32, 32, 57, 57, 57, 57, 57, 57, 57, 57, 57, 57, 57, 57, 57, 57, 32, 49, 48, 10] = .error := by decide

/-- `M,p=2-10/9223372036854775807` over 10 sites — `i += modulo` wraps to a negative index -/
theorem partition_counterexample_overflow_panic :
    Partition.parse ⟨false, false⟩ 10 [77, 44, 112, 61, 50, 45, 49, 48, 47, 57, 50, 50, 51, 51, 55, 50, 48, 51, 54, 56, 53, 52, 55, 55, 53, 56, 48, 55] = .panic := by decide
theorem partition_patched_witness :
    Partition.parse ⟨true, true⟩ 10 [77, 44, 112, 61, 50, 45, 49, 48, 47, 57, 50, 50, 51, 51, 55, 50, 48, 51, 54, 56, 53, 52, 55, 55, 53, 56, 48, 55] =
      .ok ⟨10, [([112], [77])], [-1, 0, -1, -1, -1, -1, -1, -1, -1, -1]⟩ := by decide

/-! ## `AddRange` (partition parser back end) -/

open Gv.Proofs.PartitionRange in
/-- **`AddRange` with the overflow guard** (`if modulo > end-i { break }`, present in the working tree when
the regenerated fact `Gen.FmtFacts.partition_guards_step_overflow` is `true`; `r` = whether `start > end` is
rejected as well), for ALL `start`, `end`, `modulo` (64-bit wrap-around modelled explicitly by
`Partition.wrap64`): the result is an explicit error or a partition set whose map still covers exactly the
declared length with entries that are −1 or the index of a declared partition — never a panic (index out of
range), never a hang.  Without the guard the statement is false: `partition_counterexample_overflow_panic`. -/
theorem addRange_in_bounds (r : Bool) (ps : Partition.PSet) (h : PInv ps) (part model : Name)
    (start endI modulo : Int) :
    Partition.addRange r true ps part model start endI modulo = .error ∨
    ∃ ps', Partition.addRange r true ps part model start endI modulo = .ok ps' ∧ PInv ps' ∧
      ps'.length = ps.length :=
  addRange_guarded r ps h part model start endI modulo

/-- non-vacuity: the fresh partition set of any length below 2^63 satisfies the invariant -/
theorem newPSet_inv (len : Nat) (h : (len : Int) < 9223372036854775808) :
    Gv.Proofs.PartitionRange.PInv (Partition.newPSet len) := by
  refine ⟨by simp [Partition.newPSet], h, ?_⟩
  intro p hp
  simp [Partition.newPSet] at hp
  omega

/-! ## Stockholm: outcome theorems for ALL byte strings -/

open Gv.Proofs.StockholmOutcome in
/-- what a successful Stockholm parse looks like, from the loop invariant -/
private theorem stockholm_ok (m e : Bool) (o : POpts) (bs : List Byte) (a : Aln)
    (h : Stockholm.parse m e o bs = .ok a) :
    (a.rows ≠ [] → Spec.Fmt.wellFormed a.length a.rows = true) ∧ (a.rows = [] → e = false ∧ a.length = -1) := by
  unfold Stockholm.parse at h
  split at h
  · split at h
    · simp only at h
      split at h
      · simp at h
      · split at h
        · rename_i bag hloop
          have hinv := loop_ok_inv m _ _ _ bag (inv_empty _) hloop
          split at h
          · simp at h
          · rename_i hc
            simp only [Bool.or_eq_true, Bool.and_eq_true, beq_iff_eq, not_or, not_and] at hc
            cases hf : bag.finish (normAlphabet o.alphabet) with
            | none => simp [hf] at h
            | some a' =>
              simp [hf] at h; subst h
              obtain ⟨hr, hl⟩ := finish_rows bag _ a' hf
              rw [hr, hl]
              constructor
              · intro hne
                apply wellFormed_of_inv bag hinv _ hne
                intro _
                -- some row has the cached length, which is not 0
                cases hrows : bag.rows with
                | nil => exact absurd hrows hne
                | cons r t =>
                  have := hinv.2.1 r (by rw [hrows]; simp)
                  have h0 : bag.length ≠ 0 := hc.2
                  omega
              · intro he
                refine ⟨?_, hinv.1 he⟩
                cases e with
                | false => rfl
                | true => simp [he] at hc
        all_goals simp at h
    · simp at h
  · simp at h

open Gv.Proofs.StockholmOutcome in
/-- **Stockholm, both variants of each guard** (`m` = the markup loop stops at EOF, `e` = an empty result is
rejected): for ALL byte strings and options the model parser never panics and never exits; it can report
`hang` only without the markup repair; a success with rows is well formed, and a success WITHOUT rows
(length −1) is possible only without the emptiness repair.
Missing for the full C03 statement (for the code as it is): no hang and `a.rows ≠ []` — both false,
see `stockholm_counterexample_hang` / `stockholm_counterexample_empty`. -/
theorem stockholm_outcome_partial (m e : Bool) (o : POpts) (bs : List Byte) :
    match Stockholm.parse m e o bs with
    | .ok a => (a.rows ≠ [] → Spec.Fmt.wellFormed a.length a.rows = true) ∧
               (a.rows = [] → e = false ∧ a.length = -1)
    | .error => True
    | .hang => True
    | .exit | .panic => False := by
  cases hp : Stockholm.parse m e o bs with
  | ok a => exact stockholm_ok m e o bs a hp
  | error => trivial
  | hang => trivial
  | exit =>
    exfalso
    unfold Stockholm.parse at hp
    split at hp
    · split at hp
      · simp only at hp
        split at hp
        · simp at hp
        · split at hp
          · split at hp
            · simp at hp
            · split at hp <;> simp at hp
          · simp at hp
          · rename_i hl; exact (loop_kinds m _ _ _).2 hl
          · simp at hp
          · simp at hp
      · simp at hp
    · simp at hp
  | panic =>
    exfalso
    unfold Stockholm.parse at hp
    split at hp
    · split at hp
      · simp only at hp
        split at hp
        · simp at hp
        · split at hp
          · split at hp
            · simp at hp
            · split at hp <;> simp at hp
          · simp at hp
          · simp at hp
          · rename_i hl; exact (loop_kinds m _ _ _).1 hl
          · simp at hp
      · simp at hp
    · simp at hp

open Gv.Proofs.StockholmOutcome in
/-- **Stockholm with the proposed patch** (`proposed_fixes/c03-stockholm.diff`): the full C03 statement for
all byte strings and all options — an explicit error or a well-formed alignment; never a panic, never a
hang (the fuel of the model's loops is proved sufficient), never an empty success. -/
theorem stockholm_outcome_fixed (o : POpts) (bs : List Byte) : Good (Stockholm.parse true true o bs) := by
  cases hp : Stockholm.parse true true o bs with
  | ok a =>
    have := stockholm_ok true true o bs a hp
    simp only [Good]
    by_cases hne : a.rows = []
    · have := (this.2 hne).1; simp at this
    · exact this.1 hne
  | error => trivial
  | exit => trivial
  | panic => have := stockholm_outcome_partial true true o bs; rw [hp] at this; exact this
  | hang =>
    exfalso
    unfold Stockholm.parse at hp
    split at hp
    · split at hp
      · simp only at hp
        split at hp
        · simp at hp
        · split at hp
          · split at hp
            · simp at hp
            · split at hp <;> simp at hp
          · simp at hp
          · simp at hp
          · simp at hp
          · rename_i hl; exact loop_no_hang _ _ _ (by omega) hl
      · simp at hp
    · simp at hp

/-! ## Phylip: a success is well formed, for ALL byte strings, both modes, single and multiple -/

open Gv.Proofs.PhylipOutcome in
/-- **Phylip (strict and relaxed, every option, with or without the allocation repair)**: whenever the
model parser returns an alignment it is well formed — non-empty, at least one column, every row of the
reported length, names pairwise distinct (the header declares at least one sequence and a non-zero
length, the first block yields exactly that many rows, later blocks keep their number, and the final
loop checks every length).
Missing for the full C03 statement: the outcome is never `panic` / `hang` — false for the code as it is
(`phylip_counterexample_alloc_panic`), open for the patched parser (fuel sufficiency of the block loops). -/
theorem phylip_outcome_partial (af : Bool) (o : POpts) (bs : List Byte) :
    match Phylip.parse af o bs with
    | .ok (some a) => Spec.Fmt.wellFormed a.length a.rows = true
    | _ => True := by
  unfold Phylip.parse
  cases h : Phylip.parseOne af o { inp := bs } with
  | error e => cases e <;> simp [Phylip.toOutcome]
  | ok v =>
    obtain ⟨r, s'⟩ := v
    cases r with
    | aln a => simp only [Phylip.toOutcome]; exact parseOne_ok af o _ s' a h
    | eos => simp [Phylip.toOutcome]
    | slow => simp [Phylip.toOutcome]

open Gv.Proofs.PhylipOutcome in
/-- every alignment that `ParseMultiple` hands on is well formed -/
theorem phylip_multi_wellformed (af : Bool) (o : POpts) : ∀ (fuel : Nat) (s : Phylip.St) (acc : List Aln),
    (∀ a ∈ acc, Spec.Fmt.wellFormed a.length a.rows = true) →
    match Phylip.parseMulti af o fuel s acc with
    | .done als _ => ∀ a ∈ als, Spec.Fmt.wellFormed a.length a.rows = true
    | _ => True := by
  intro fuel
  induction fuel with
  | zero => intro s acc _; simp [Phylip.parseMulti]
  | succ f ih =>
    intro s acc hacc
    unfold Phylip.parseMulti
    cases h : Phylip.parseOne af o s with
    | error e => cases e <;> simp [hacc] <;> exact hacc
    | ok v =>
      obtain ⟨r, s'⟩ := v
      cases r with
      | aln a =>
        simp only
        apply ih
        intro x hx
        simp only [List.mem_append, List.mem_singleton] at hx
        cases hx with
        | inl hx => exact hacc x hx
        | inr hx => subst hx; exact parseOne_ok af o _ s' x h
      | eos => simpa using hacc
      | slow => simp

/-! ## Clustal -/

open Gv.Proofs.ClustalOutcome in
/-- **Clustal (with or without the row-index repair), all byte strings and options**: a success is a
non-empty rectangular alignment with pairwise distinct names.
Missing for the full C03 statement: "at least one column" (true, but it needs the loop invariant that
every sequence token is non-empty — open), and that the outcome is never `panic` / `hang` (false for the
unrepaired code: `clustal_counterexample_panic`; open for the repaired parser). -/
theorem clustal_outcome_partial (c : Bool) (o : POpts) (bs : List Byte) :
    match Clustal.parse c o bs with
    | .ok a => a.rows ≠ [] ∧ (∀ r ∈ a.rows, (r.2.length : Int) = a.length) ∧
               Spec.Fmt.distinct (a.rows.map (·.1)) = true
    | _ => True := by
  cases h : Clustal.parse c o bs with
  | ok a =>
    obtain ⟨rows, hb⟩ := parse_ok c o bs a h
    exact build_ok o rows a hb
  | _ => trivial

/-! ## Nexus -/

open Gv.Proofs.NexusOutcome in
/-- **Nexus (every combination of the repairs, all byte strings and options)**: a success is a non-empty
rectangular alignment with pairwise distinct names, and — once rows without residues are rejected
(`rejectsEmptyRows`, commit ccba43a) — with at least one column, i.e. well formed.
Missing for the full C03 statement: the outcome is never `panic` / `hang` (false without the comment
repair: `nexus_counterexample_hang`; open for the repaired parser: fuel sufficiency of the command
loops), and consistency with the declared `ntax` / `nchar` (checked by the oracle on every run). -/
theorem nexus_outcome_partial (f : Nexus.Facts) (o : POpts) (bs : List Byte) :
    match Nexus.parse f o bs with
    | .ok a => a.rows ≠ [] ∧ (∀ r ∈ a.rows, (r.2.length : Int) = a.length) ∧
               Spec.Fmt.distinct (a.rows.map (·.1)) = true ∧
               (f.rejectsEmptyRows = true → Spec.Fmt.wellFormed a.length a.rows = true)
    | _ => True := by
  cases h : Nexus.parse f o bs with
  | ok a =>
    obtain ⟨top, hb⟩ := parse_ok f o bs a h
    obtain ⟨h1, h2, h3, h4⟩ := build_ok f o top a hb
    refine ⟨h1, h2, h3, fun hf => ?_⟩
    have hpos := h4 hf
    unfold Spec.Fmt.wellFormed
    have e1 : a.rows.isEmpty = false := by
      cases hr : a.rows with
      | nil => exact absurd hr h1
      | cons _ _ => rfl
    have e3 : (a.rows.all fun r => (r.2.length : Int) == a.length) = true := by
      simp only [List.all_eq_true, beq_iff_eq]; exact h2
    simp [e1, hpos, e3, h3]
  | _ => trivial

/-! ## Partition parser: the full C03 statement for the code with the `AddRange` guard -/

open Gv.Proofs.PartitionOutcome Gv.Proofs.PartitionRange in
/-- **Partition parser, all byte strings, every declared length below 2^63** (with the overflow guard of
`AddRange`, commit df0dd4f; `r` = whether `start > end` is rejected as well, commit c4827bc): the outcome
is an explicit error or a partition map over exactly the declared length whose entries are −1 or the
index of a declared partition — never a panic, never a hang (the fuel of every loop of the model is
proved sufficient), never an exit. -/
theorem partition_outcome (r : Bool) (len : Nat) (hlen : (len : Int) < 9223372036854775808) (bs : List Byte) :
    match Partition.parse ⟨r, true⟩ len bs with
    | .ok ps => ps.length = len ∧ ps.parts.length = len ∧
                ∀ p ∈ ps.parts, -1 ≤ p ∧ p < (ps.names.length : Int)
    | .error => True
    | .exit | .panic | .hang => False := by
  have h := parse_acc ⟨r, true⟩ rfl len hlen bs
  revert h
  cases Partition.parse ⟨r, true⟩ len bs with
  | ok ps =>
    simp only [AccL]
    intro ⟨⟨h1, _, h3⟩, hl⟩
    exact ⟨hl, by rw [h1, hl], h3⟩
  | error => simp [AccL]
  | exit => simp [AccL]
  | panic => simp [AccL]
  | hang => simp [AccL]

/-! ## Never a panic (repaired parsers), for ALL byte strings -/

/-- Clustal with the bounds check of the row index (commit e77b337) never panics -/
theorem clustal_no_panic (o : POpts) (bs : List Byte) : Clustal.parse true o bs ≠ .panic :=
  Gv.Proofs.ClustalOutcome.parse_np o bs

/-- Phylip (strict and relaxed) without the allocation from the header count (commit 74f5867) never panics
(ASCII input; the rune-index panic of strict names on non-ASCII bytes, repaired by the same commit, lies
outside the ASCII models and is covered by the correspondence run) -/
theorem phylip_no_panic (o : POpts) (bs : List Byte) : Phylip.parse false o bs ≠ .panic := by
  unfold Phylip.parse
  cases h : Phylip.parseOne false o { inp := bs } with
  | ok v =>
    obtain ⟨r, s'⟩ := v
    cases r <;> simp [Phylip.toOutcome]
  | error e =>
    cases e <;> simp [Phylip.toOutcome]
    exact Gv.Proofs.PhylipOutcome.parseOne_np o _ h

/-- Nexus (every combination of the repairs) never panics and never exits -/
theorem nexus_no_panic (f : Nexus.Facts) (o : POpts) (bs : List Byte) :
    Nexus.parse f o bs ≠ .panic ∧ Nexus.parse f o bs ≠ .exit :=
  Gv.Proofs.NexusOutcome.parse_soft f o bs

/-- **Nexus with the comment and empty-row repairs** (commit ccba43a; whatever the other two facts): the full
C03 outcome statement for all byte strings and options — an explicit error or a well-formed alignment; never
a panic, never an exit, never a hang (the fuel of all eleven loops of the model is proved sufficient). -/
theorem nexus_outcome_fixed (f : Nexus.Facts) (hc : f.commentStopsAtEof = true) (he : f.rejectsEmptyRows = true)
    (o : POpts) (bs : List Byte) : Good (Nexus.parse f o bs) := by
  have h1 := nexus_outcome_partial f o bs
  have h2 := nexus_no_panic f o bs
  have h3 := Gv.Proofs.NexusNoHang.parse_nohang f hc o bs
  cases hp : Nexus.parse f o bs with
  | ok a => rw [hp] at h1; exact h1.2.2.2 he
  | error => trivial
  | exit => trivial
  | panic => exact absurd hp h2.1
  | hang => exact absurd hp h3

/-- Clustal (with or without the row-index repair) never hangs: the fuel of every loop of the model is proved
sufficient (measure: remaining bytes + 1 for a pushed-back token other than EOF) -/
theorem clustal_no_hang (c : Bool) (o : POpts) (bs : List Byte) : Clustal.parse c o bs ≠ .hang :=
  Gv.Proofs.ClustalNoHang.parse_nh c o bs

/-- **Clustal with the row-index repair** (commit e77b337), all byte strings and options: the outcome is an
explicit error, an exit with a message (lone `\r`), or a non-empty rectangular alignment with pairwise
distinct names — never a panic, never a hang.  (Still open for the full `Good`: "at least one column".) -/
theorem clustal_outcome_fixed_partial (o : POpts) (bs : List Byte) :
    match Clustal.parse true o bs with
    | .ok a => a.rows ≠ [] ∧ (∀ r ∈ a.rows, (r.2.length : Int) = a.length) ∧
               Spec.Fmt.distinct (a.rows.map (·.1)) = true
    | .error | .exit => True
    | .panic | .hang => False := by
  have h1 := clustal_outcome_partial true o bs
  have h2 := clustal_no_panic o bs
  have h3 := clustal_no_hang true o bs
  cases hp : Clustal.parse true o bs with
  | ok a => rw [hp] at h1; exact h1
  | error => trivial
  | exit => trivial
  | panic => exact absurd hp h2
  | hang => exact absurd hp h3

/-- Phylip (strict and relaxed) without the allocation from the header count never hangs: the fuel of every
loop of the model is proved sufficient (measure: remaining bytes + 1 for a pushed-back token other than
EOF; the block loop needs the fact that the first block yields at least one row) -/
theorem phylip_no_hang (o : POpts) (bs : List Byte) : Phylip.parse false o bs ≠ .hang := by
  unfold Phylip.parse
  cases h : Phylip.parseOne false o { inp := bs } with
  | ok v =>
    obtain ⟨r, s'⟩ := v
    cases r with
    | aln a => simp [Phylip.toOutcome]
    | eos => simp [Phylip.toOutcome]
    | slow => exact absurd h (Gv.Proofs.PhylipNoHang.parseOne_not_slow o _ s')
  | error e =>
    cases e <;> simp [Phylip.toOutcome]
    exact Gv.Proofs.PhylipNoHang.parseOne_nh false o _ h

/-- **Phylip (strict and relaxed) with the repairs of commit 74f5867**, all ASCII byte strings and options: the
full C03 outcome statement — an explicit error, an exit with a message (lone `\r`), the end-of-stream
marker, or a well-formed alignment; never a panic, never a hang. -/
theorem phylip_outcome_fixed (o : POpts) (bs : List Byte) :
    match Phylip.parse false o bs with
    | .ok (some a) => Spec.Fmt.wellFormed a.length a.rows = true
    | .ok none | .error | .exit => True
    | .panic | .hang => False := by
  have h1 := phylip_outcome_partial false o bs
  have h2 := phylip_no_panic o bs
  have h3 := phylip_no_hang o bs
  cases hp : Phylip.parse false o bs with
  | ok r =>
    cases r with
    | some a => rw [hp] at h1; exact h1
    | none => trivial
  | error => trivial
  | exit => trivial
  | panic => exact absurd hp h2
  | hang => exact absurd hp h3

/-- **Clustal with the row-index repair** (commit e77b337): the full C03 outcome statement for all byte strings
and options — an explicit error, an exit with a message (lone `\r`), or a well-formed alignment (non-empty, at
least one column since every sequence token of the lexer is non-empty, rectangular, distinct names); never a
panic, never a hang. -/
theorem clustal_outcome_fixed (o : POpts) (bs : List Byte) : Good (Clustal.parse true o bs) := by
  have h1 := clustal_outcome_fixed_partial o bs
  cases hp : Clustal.parse true o bs with
  | ok a =>
    rw [hp] at h1
    obtain ⟨hne, hrect, hdist⟩ := h1
    have hpos := Gv.Proofs.ClustalPos.parse_pos true o bs a hp
    simp only [Good]
    unfold Spec.Fmt.wellFormed
    have e1 : a.rows.isEmpty = false := by
      cases hr : a.rows with
      | nil => exact absurd hr hne
      | cons _ _ => rfl
    have e3 : (a.rows.all fun r => (r.2.length : Int) == a.length) = true := by
      simp only [List.all_eq_true, beq_iff_eq]; exact hrect
    simp [e1, hpos, e3, hdist]
  | error => trivial
  | exit => trivial
  | panic => rw [hp] at h1; exact h1
  | hang => rw [hp] at h1; exact h1

/-! ## Phylip: a success agrees with the counts of the header line; the end-of-stream marker needs a blank input -/

/-- **Phylip, counts as the parser read them** (strict and relaxed, every option, with or without the allocation
repair, ALL byte strings): a successful parse went through a header line `nbseq lenseq`, and the alignment handed back
has exactly `lenseq` columns and `nbseq` rows — at most `nbseq` rows under the two duplicate policies that drop rows
(IGNORE_NAME / IGNORE_SEQUENCE); under IGNORE_NONE duplicate names are renamed, never dropped: the `_%04d` search
always finds a free name (pigeonhole over `|rows| + 1` pairwise distinct candidates). -/
theorem phylip_counts_as_read (af : Bool) (o : POpts) (bs : List Byte) (a : Aln)
    (h : Phylip.parse af o bs = .ok (some a)) :
    ∃ n l sh, Phylip.header af { inp := bs } = .ok (.counts n l, sh) ∧
      a.length = l ∧ (a.rows.length : Int) ≤ n ∧ (normIgnore o.ignore = 0 → (a.rows.length : Int) = n) := by
  unfold Phylip.parse at h
  cases hp : Phylip.parseOne af o { inp := bs } with
  | error e => rw [hp] at h; cases e <;> simp [Phylip.toOutcome] at h
  | ok v =>
    obtain ⟨r, s'⟩ := v
    rw [hp] at h
    cases r with
    | aln a' =>
      simp only [Phylip.toOutcome, Outcome.ok.injEq, Option.some.injEq] at h
      subst h
      exact Gv.Proofs.PhylipHeader.parseOne_counts af o _ s' a' hp
    | eos => simp [Phylip.toOutcome] at h
    | slow => simp [Phylip.toOutcome] at h

/-- **Phylip, consistency with the declared counts**: whenever the deliberately naive header scanner of
`Spec/Fmt.lean` (first two decimal numbers of the file, independent of any lexer) finds counts `(dn, dl)` in the raw
bytes, a successful parse has `dl` columns and `dn` rows (at most `dn` under a duplicate policy that drops rows).
This is the `contradicts-header-nbseq` / `contradicts-header-length` clause of the oracle predicate, proved for the
model over ALL byte strings and options. -/
theorem phylip_header_consistent (af : Bool) (o : POpts) (bs : List Byte) :
    match Phylip.parse af o bs with
    | .ok (some a) =>
      match Spec.Fmt.declaredPhylip bs with
      | some (dn, dl) => Spec.Fmt.rowsOk (normIgnore o.ignore != 0) (a.rows.length : Int) dn = true ∧ a.length = dl
      | none => True
    | _ => True := by
  unfold Phylip.parse
  cases hp : Phylip.parseOne af o { inp := bs } with
  | error e => cases e <;> simp [Phylip.toOutcome]
  | ok v =>
    obtain ⟨r, s'⟩ := v
    cases r with
    | aln a => simp only [Phylip.toOutcome]; exact Gv.Proofs.PhylipHeader.parseOne_declared af o bs s' a hp
    | eos => simp [Phylip.toOutcome]
    | slow => simp [Phylip.toOutcome]

/-- **Phylip, end-of-stream marker**: `(nil, nil)` is returned only for an input that holds nothing but blanks up to
its first NUL (NUL is the lexers' in-band end-of-input marker: an input without NUL must be blank up to EOF) -/
theorem phylip_eos_blank (af : Bool) (o : POpts) (bs : List Byte) (h : Phylip.parse af o bs = .ok none) :
    Spec.Fmt.blankToNul bs = true := by
  unfold Phylip.parse at h
  cases hp : Phylip.parseOne af o { inp := bs } with
  | error e => rw [hp] at h; cases e <;> simp [Phylip.toOutcome] at h
  | ok v =>
    obtain ⟨r, s'⟩ := v
    rw [hp] at h
    cases r with
    | aln a' => simp [Phylip.toOutcome] at h
    | eos => exact Gv.Proofs.PhylipHeader.parseOne_eos_blank af o bs s' hp
    | slow => simp [Phylip.toOutcome] at h

/-- an input without NUL: blank up to EOF -/
theorem phylip_eos_blank_to_eof (af : Bool) (o : POpts) (bs : List Byte) (h0 : ∀ b ∈ bs, b ≠ 0)
    (h : Phylip.parse af o bs = .ok none) : bs.all Spec.Fmt.isBlank = true := by
  have := phylip_eos_blank af o bs h
  unfold Spec.Fmt.blankToNul at this
  have ht : ∀ l : List Byte, (∀ b ∈ l, b ≠ 0) → l.takeWhile (· != 0) = l := by
    intro l
    induction l with
    | nil => intro _; rfl
    | cons x t ih =>
      intro hl
      have hx : (x != 0) = true := by simpa using hl x (by simp)
      rw [List.takeWhile_cons, if_pos hx, ih (fun b hb => hl b (by simp [hb]))]
  rw [ht bs h0] at this
  exact this

/-- every alignment that `ParseMultiple` hands on went through a header line of its own and has the declared number
of columns and (at most / exactly) the declared number of rows -/
theorem phylip_multi_counts (af : Bool) (o : POpts) : ∀ (fuel : Nat) (s : Phylip.St) (acc : List Aln),
    (∀ a ∈ acc, ∃ s0 n l sh, Phylip.header af s0 = .ok (.counts n l, sh) ∧ a.length = l ∧ (a.rows.length : Int) ≤ n ∧
      (normIgnore o.ignore = 0 → (a.rows.length : Int) = n)) →
    match Phylip.parseMulti af o fuel s acc with
    | .done als _ => ∀ a ∈ als, ∃ s0 n l sh, Phylip.header af s0 = .ok (.counts n l, sh) ∧ a.length = l ∧
        (a.rows.length : Int) ≤ n ∧ (normIgnore o.ignore = 0 → (a.rows.length : Int) = n)
    | _ => True := by
  intro fuel
  induction fuel with
  | zero => intro s acc _; simp [Phylip.parseMulti]
  | succ f ih =>
    intro s acc hacc
    unfold Phylip.parseMulti
    cases h : Phylip.parseOne af o s with
    | error e => cases e <;> first | exact hacc | trivial
    | ok v =>
      obtain ⟨r, s'⟩ := v
      cases r with
      | aln a =>
        simp only
        apply ih
        intro x hx
        simp only [List.mem_append, List.mem_singleton] at hx
        cases hx with
        | inl hx => exact hacc x hx
        | inr hx =>
          subst hx
          obtain ⟨n, l, sh, hh⟩ := Gv.Proofs.PhylipHeader.parseOne_counts af o s s' x h
          exact ⟨s, n, l, sh, hh⟩
      | eos => exact hacc
      | slow => trivial

/-- **Phylip with the repairs of commit 74f5867, the complete C03 statement** over all ASCII byte strings and options:
an explicit error, an exit with a message (lone `\r`), the end-of-stream marker (then the input is blank up to its
first NUL), or an alignment that is well formed AND agrees with the counts declared in the header line; never a
panic, never a hang. -/
theorem phylip_outcome_full (o : POpts) (bs : List Byte) :
    match Phylip.parse false o bs with
    | .ok (some a) =>
      Spec.Fmt.wellFormed a.length a.rows = true ∧
      (match Spec.Fmt.declaredPhylip bs with
       | some (dn, dl) => Spec.Fmt.rowsOk (normIgnore o.ignore != 0) (a.rows.length : Int) dn = true ∧ a.length = dl
       | none => True)
    | .ok none => Spec.Fmt.blankToNul bs = true
    | .error | .exit => True
    | .panic | .hang => False := by
  have h1 := phylip_outcome_fixed o bs
  have h2 := phylip_header_consistent false o bs
  have h3 := phylip_eos_blank false o bs
  cases hp : Phylip.parse false o bs with
  | ok r =>
    cases r with
    | some a => rw [hp] at h1 h2; exact ⟨h1, h2⟩
    | none => exact h3 hp
  | error => trivial
  | exit => trivial
  | panic => rw [hp] at h1; exact h1
  | hang => rw [hp] at h1; exact h1

/-- non-vacuity: ` 2 3\na ACG\na A-T\n` (duplicate name, IGNORE_NONE: renamed, two rows as declared; IGNORE_NAME: one row) -/
example : Phylip.parse false {} [32, 50, 32, 51, 10, 97, 32, 65, 67, 71, 10, 97, 32, 65, 45, 84, 10] =
    .ok (some ⟨1, 3, [([97], [65, 67, 71]), ([97, 95, 48, 48, 48, 49], [65, 45, 84])]⟩) := by decide
example : Phylip.parse false { ignore := 1 } [32, 50, 32, 51, 10, 97, 32, 65, 67, 71, 10, 97, 32, 65, 45, 84, 10] =
    .ok (some ⟨1, 3, [([97], [65, 67, 71])]⟩) := by decide
example : Spec.Fmt.declaredPhylip [32, 50, 32, 51, 10, 97, 32, 65, 67, 71, 10, 97, 32, 65, 45, 84, 10] = some (2, 3) := by decide
/-- blanks, then NUL, then anything: the end-of-stream marker; ` \n x`: an error, not the marker -/
example : Phylip.parse false {} [32, 10, 0, 65] = .ok none ∧ Spec.Fmt.blankToNul [32, 10, 0, 65] = true := by decide
example : Phylip.parse false {} [32, 10, 32, 120] = .error := by decide

/-- **`ParseMultiple` on a whole input terminates** (with the repairs of commit 74f5867; every option, ALL byte
strings): the stream loop — fuel `|input| + 2`, as the oracle runs it — ends with the list of alignments handed on
(each well formed, `ok` = no error met) or with the exit of a lone `\r`; it never runs out of fuel (every `Parse`
that returns an alignment consumes at least two bytes: measure = remaining bytes + 1 for a pushed-back token), never
panics, never enters the machine-dependent allocation band. -/
theorem phylip_multi_outcome (o : POpts) (bs : List Byte) :
    match Phylip.parseMulti false o (bs.length + 2) { inp := bs } [] with
    | .done als _ => ∀ a ∈ als, Spec.Fmt.wellFormed a.length a.rows = true
    | .slow => False
    | .stop st => st = .exit := by
  have h1 := phylip_multi_wellformed false o (bs.length + 2) { inp := bs } [] (by simp)
  have h2 := Gv.Proofs.PhylipMulti.parseMulti_nh false o (bs.length + 2) { inp := bs } []
    (by have := Gv.Proofs.PhylipNoHang.ν_le ({ inp := bs } : Phylip.St); simp [Gv.Proofs.PhylipNoHang.ν])
  have h3 := Gv.Proofs.PhylipMulti.parseMulti_np o (bs.length + 2) { inp := bs } []
  cases hp : Phylip.parseMulti false o (bs.length + 2) { inp := bs } [] with
  | done als ok => rw [hp] at h1; exact h1
  | slow => exact absurd hp h3.2
  | stop st =>
    cases st with
    | exit => rfl
    | hang => exact absurd hp h2
    | panic => exact absurd hp h3.1
    | error =>
      -- an explicit error ends the loop with `done … false`, never with `stop error`
      exfalso
      have : ∀ (fuel : Nat) (s : Phylip.St) (acc : List Aln), Phylip.parseMulti false o fuel s acc ≠ .stop .error := by
        intro fuel
        induction fuel with
        | zero => intro s acc; simp [Phylip.parseMulti]
        | succ k ih =>
          intro s acc
          unfold Phylip.parseMulti
          cases h : Phylip.parseOne false o s with
          | error e => cases e <;> simp
          | ok v =>
            obtain ⟨r, s'⟩ := v
            cases r with
            | aln a => simp only; exact ih s' _
            | eos => simp
            | slow => simp
      exact this _ _ _ hp

/-- non-vacuity: two alignments in one stream -/
example : (match Phylip.parseMulti false {} 21 { inp := [32, 49, 32, 50, 10, 97, 32, 65, 67, 10, 32, 49, 32, 49, 10, 98, 32, 71, 10] } [] with
    | .done als ok => (als.map (·.rows), ok)
    | _ => ([], false)) = ([[([97], [65, 67])], [([98], [71])]], true) := by decide

/-! ## Nexus: a success agrees with the counts of the DIMENSIONS commands and with the TAXA block -/

/-- **Nexus, counts as the parser read them** (every combination of the repairs, ALL byte strings and options): a
successful parse went through the top-level loop with a DATA / CHARACTERS block `d`, and
* when `ntax` was declared (≠ −1, the "not declared" value) the matrix holds exactly `ntax` distinct names, and the
  alignment has that many rows — at most that many under a duplicate policy that drops rows;
* when `nchar` was declared the alignment has exactly `nchar` columns;
* with a TAXA block there is one row per label, and the `ntax` of that block (if declared) is the number of labels. -/
theorem nexus_counts_as_read (f : Nexus.Facts) (o : POpts) (bs : List Byte) (a : Aln)
    (h : Nexus.parse f o bs = .ok a) :
    ∃ top d, Nexus.topLoop f ((Nexus.sIW bs).2.length + 3) (Nexus.sIW bs).2 {} = .ok top ∧ top.data = some d ∧
      (d.ntax ≠ -1 → Spec.Fmt.rowsOk (normIgnore o.ignore != 0) (a.rows.length : Int) d.ntax = true) ∧
      (d.nchar ≠ -1 → a.length = d.nchar) ∧
      (∀ ls, top.taxlabels = some ls →
        a.rows.length = ls.length ∧ (top.taxantax = -1 ∨ top.taxantax = (ls.length : Int))) := by
  obtain ⟨top, _, htop, hb⟩ := Gv.Proofs.NexusHeader.parse_inv f o bs a h
  obtain ⟨d, hag⟩ := Gv.Proofs.NexusHeader.build_agrees f o top a hb
  refine ⟨top, d, htop, hag.data, ?_, hag.nchar, hag.taxa⟩
  intro hn
  have hm := hag.matrix_ntax hn
  unfold Spec.Fmt.rowsOk
  by_cases hi : normIgnore o.ignore = 0
  · have := hag.rows_eq hi
    simp [hi]; omega
  · have hi' : (normIgnore o.ignore != 0) = true := by simpa using hi
    have := hag.rows_le
    simp [hi']; omega

/-- **Nexus, consistency with the counts a naive scanner declares — partial**: MISSING is the agreement of the two
readings of the header, i.e. that the `ntax` / `nchar` the parser's DIMENSIONS loop ends with are the ones the
independent scanner `Spec.Fmt.declaredNexus` (comments stripped, commands split at `;`, `key = value` inside the
DATA / CHARACTERS block) reads off the raw bytes, and are not the "undeclared" value −1 (hypothesis `hread`; it is
checked on the implementation's results by the oracle predicate on every run, not proved: the parser tokenises, the
scanner works on text; the two known ways to break it — `ENDBLOCK` not ending a block, a `BEGIN` skipped inside an
unterminated block — are repaired: `nexus_endblock_ends_block`, `nexus_counterexample_nested_begin`).  Given it, the oracle's `contradicts-header-ntax` / `-nchar` clauses hold for every success. -/
theorem nexus_header_consistent_partial (f : Nexus.Facts) (o : POpts) (bs : List Byte) (a : Aln)
    (h : Nexus.parse f o bs = .ok a)
    (hread : ∀ top d, Nexus.topLoop f ((Nexus.sIW bs).2.length + 3) (Nexus.sIW bs).2 {} = .ok top → top.data = some d →
      (∀ dn, (Spec.Fmt.declaredNexus bs).1 = some dn → d.ntax = dn ∧ dn ≠ -1) ∧
      (∀ dl, (Spec.Fmt.declaredNexus bs).2 = some dl → d.nchar = dl ∧ dl ≠ -1)) :
    (match (Spec.Fmt.declaredNexus bs).1 with
     | some dn => Spec.Fmt.rowsOk (normIgnore o.ignore != 0) (a.rows.length : Int) dn = true
     | none => True) ∧
    (match (Spec.Fmt.declaredNexus bs).2 with
     | some dl => a.length = dl
     | none => True) := by
  obtain ⟨top, d, htop, hd, h1, h2, _⟩ := nexus_counts_as_read f o bs a h
  obtain ⟨r1, r2⟩ := hread top d htop hd
  constructor
  · cases hdn : (Spec.Fmt.declaredNexus bs).1 with
    | none => trivial
    | some dn =>
      obtain ⟨e, hne⟩ := r1 dn hdn
      simp only
      rw [← e]
      exact h1 (by rw [e]; exact hne)
  · cases hdl : (Spec.Fmt.declaredNexus bs).2 with
    | none => trivial
    | some dl =>
      obtain ⟨e, hne⟩ := r2 dl hdl
      simp only
      rw [← e]
      exact h2 (by rw [e]; exact hne)

/-- `#NEXUS begin data; dimensions ntax=9; endblock; begin trees; dimensions ntax=1; matrix a AC ; end;` -/
def nexusEndblockSample : List Byte := [35, 78, 69, 88, 85, 83, 10, 98, 101, 103, 105, 110, 32, 100, 97, 116, 97, 59, 10, 100, 105, 109, 101, 110, 115, 105, 111, 110, 115, 32, 110, 116, 97, 120, 61, 57, 59, 10, 101, 110, 100, 98, 108, 111, 99, 107, 59, 10, 98, 101, 103, 105, 110, 32, 116, 114, 101, 101, 115, 59, 10, 100, 105, 109, 101, 110, 115, 105, 111, 110, 115, 32, 110, 116, 97, 120, 61, 49, 59, 10, 109, 97, 116, 114, 105, 120, 10, 97, 32, 65, 67, 10, 59, 10, 101, 110, 100, 59, 10]

set_option maxRecDepth 100000 in
/-- **`ENDBLOCK` ends a block like `END`** (the standard synonym; lexer repair `case "END", "ENDBLOCK"`): the word is the
END token in either case, and the former witness — where the unrepaired parser skipped `endblock;` as an unsupported
command, stayed in the DATA block, let the second `dimensions` overwrite `ntax` and succeeded with ONE row although the
DATA block declares `ntax=9` — is now an explicit error (the DATA block, closed at `endblock;`, has no matrix; the
TREES block is skipped up to its `end;`). -/
theorem nexus_endblock_ends_block :
    (Nexus.classify [69, 78, 68, 66, 76, 79, 67, 75]).kind = .end_ ∧
    (Nexus.classify [101, 110, 100, 98, 108, 111, 99, 107]).kind = .end_ ∧
    Nexus.parse ⟨true, true, true, true, true, false, false⟩ {} nexusEndblockSample = .error ∧
    Spec.Fmt.declaredNexus nexusEndblockSample = (some 9, none) := by decide

/-- `#NEXUS begin data; dimensions ntax=9; begin trees; dimensions ntax=1; matrix a AC ; end;` (no END before the second BEGIN) -/
def nexusNestedBeginSample : List Byte := [35, 78, 69, 88, 85, 83, 10, 98, 101, 103, 105, 110, 32, 100, 97, 116, 97, 59, 10, 100, 105, 109, 101, 110, 115, 105, 111, 110, 115, 32, 110, 116, 97, 120, 61, 57, 59, 10, 98, 101, 103, 105, 110, 32, 116, 114, 101, 101, 115, 59, 10, 100, 105, 109, 101, 110, 115, 105, 111, 110, 115, 32, 110, 116, 97, 120, 61, 49, 59, 10, 109, 97, 116, 114, 105, 120, 10, 97, 32, 65, 67, 10, 59, 10, 101, 110, 100, 59, 10]

set_option maxRecDepth 100000 in
/-- **a `BEGIN` inside an unterminated block** (blocks do not nest).  Without the repair (`rejectsNestedBegin = false`:
the `BEGIN` is skipped as an unsupported command with a warning) the DATA block stays open and the second `dimensions`
overwrites `ntax`: the parse succeeds with ONE row, while the naive scanner — which opens a new block at every
`begin` — reads `ntax=9` for the DATA block: the reading hypothesis of `nexus_header_consistent_partial` fails.  With
the repair (`case BEGIN:` of `parseData` / `parseTaxa` is an error, proposed_fixes/c03-nexus-begin-inside-block.diff)
the file is an explicit error.  Reproduce on an unrepaired tree: `goalign reformat fasta --nexus -i <file>` (one
"unsupported command \"begin\" in block DATA" warning, then `>a / AC`). -/
theorem nexus_counterexample_nested_begin :
    Nexus.parse ⟨true, true, true, true, false, false, false⟩ {} nexusNestedBeginSample = .ok ⟨1, 2, [([97], [65, 67])]⟩ ∧
    Spec.Fmt.declaredNexus nexusNestedBeginSample = (some 9, none) ∧
    Nexus.parse ⟨true, true, true, true, true, false, false⟩ {} nexusNestedBeginSample = .error := by decide

/-- `#NEXUS\nbegin dAtA;;dimensions ntAx=3;mAtrix\nA A\n;end;` (an empty command after the block header) -/
def nexusEmptyCommandSample : List Byte := [35, 78, 69, 88, 85, 83, 10, 98, 101, 103, 105, 110, 32, 100, 65, 116, 65, 59, 59, 100, 105, 109, 101, 110, 115, 105, 111, 110, 115, 32, 110, 116, 65, 120, 61, 51, 59, 109, 65, 116, 114, 105, 120, 10, 65, 32, 65, 10, 59, 101, 110, 100, 59]

set_option maxRecDepth 100000 in
/-- **an empty command** (`;;`).  Without the repair (`emptyCommandIsNoOp = false`) the second `;` falls into the default
case of `parseData`, which skips an "unsupported command" up to the next `;` — and that swallows `dimensions ntAx=3;`: the
parser never reads the declared count and succeeds with ONE row although the DATA block declares `ntax=3` (found by the
thorough tier of the check: `fail:contradicts-header-ntax`).  With the repair (`case ENDOFCOMMAND:` does nothing, /repo
0d4b69d) the DIMENSIONS command is read and the file is an explicit error. -/
theorem nexus_counterexample_empty_command :
    Nexus.parse ⟨true, true, true, true, true, false, false⟩ {} nexusEmptyCommandSample = .ok ⟨1, 1, [([65], [65])]⟩ ∧
    Spec.Fmt.declaredNexus nexusEmptyCommandSample = (some 3, none) ∧
    Nexus.parse ⟨true, true, true, true, true, true, false⟩ {} nexusEmptyCommandSample = .error := by decide

/-- `#NEXUS\nbegin dAtA;dimensions nchAr=4;end;begin dAtA;mAtrix\nA A\n;end;` (two DATA blocks) -/
def nexusTwoDataBlocksSample : List Byte := [35, 78, 69, 88, 85, 83, 10, 98, 101, 103, 105, 110, 32, 100, 65, 116, 65, 59, 100, 105, 109, 101, 110, 115, 105, 111, 110, 115, 32, 110, 99, 104, 65, 114, 61, 52, 59, 101, 110, 100, 59, 98, 101, 103, 105, 110, 32, 100, 65, 116, 65, 59, 109, 65, 116, 114, 105, 120, 10, 65, 32, 65, 10, 59, 101, 110, 100, 59]

set_option maxRecDepth 100000 in
/-- **a second DATA block.**  Without the repair (`rejectsSecondDataBlock = false`) the second block silently replaces the
rows and the counts of the first: the file declares `nchar=4` and is accepted with ONE column (found by the command-level
Nexus generator of the check: `fail:contradicts-header-nchar`).  With the repair (/repo 5042531) it is an explicit error. -/
theorem nexus_counterexample_second_data_block :
    Nexus.parse ⟨true, true, true, true, true, true, false⟩ {} nexusTwoDataBlocksSample = .ok ⟨1, 1, [([65], [65])]⟩ ∧
    Spec.Fmt.declaredNexus nexusTwoDataBlocksSample = (none, some 4) ∧
    Nexus.parse ⟨true, true, true, true, true, true, true⟩ {} nexusTwoDataBlocksSample = .error := by decide

/-- non-vacuity: `#NEXUS begin data; dimensions ntax=2 nchar=3; format datatype=dna; matrix a ACG / b A-T ; end;` -/
def nexusSample : List Byte := [35, 78, 69, 88, 85, 83, 10, 98, 101, 103, 105, 110, 32, 100, 97, 116, 97, 59, 10, 100, 105, 109, 101, 110, 115, 105, 111, 110, 115, 32, 110, 116, 97, 120, 61, 50, 32, 110, 99, 104, 97, 114, 61, 51, 59, 10, 102, 111, 114, 109, 97, 116, 32, 100, 97, 116, 97, 116, 121, 112, 101, 61, 100, 110, 97, 59, 10, 109, 97, 116, 114, 105, 120, 10, 97, 32, 65, 67, 71, 10, 98, 32, 65, 45, 84, 10, 59, 10, 101, 110, 100, 59, 10]

set_option maxRecDepth 100000 in
example : Nexus.parse ⟨true, true, true, true, true, true, true⟩ {} nexusSample = .ok ⟨1, 3, [([97], [65, 67, 71]), ([98], [65, 45, 84])]⟩ ∧
    Spec.Fmt.declaredNexus nexusSample = (some 2, some 3) := by decide
-- the reading hypothesis of `nexus_header_consistent_partial` holds on it: the DIMENSIONS loop ends with (2, 3)
set_option maxRecDepth 100000 in
example : (match Nexus.topLoop ⟨true, true, true, true, true, true, true⟩ ((Nexus.sIW nexusSample).2.length + 3) (Nexus.sIW nexusSample).2 {} with
    | .ok top => top.data.map fun d => (d.ntax, d.nchar)
    | _ => none) = some (2, 3) := by decide

/-! ## ALL byte strings: the lexers read runes (`Model/Fmt/Utf8.lean`)

The parsers `X.parse` above work on the bytes the lexer holds after `ReadRune` / `WriteRune`; `X.parseBytes` is the
parser on the RAW input (`X.parse ∘ Utf8.norm`, plus the places where runes are counted or case-mapped again).  The
theorems above quantify over all byte strings already, so each of them holds for `parseBytes` as well: the statements
below are the C03 clauses for the raw input, without any ASCII restriction. -/

/-- on an ASCII input the raw-input parser is the ASCII model -/
theorem fasta_parseBytes_ascii (fix : Bool) (o : POpts) (bs : List Byte) (h : allAscii bs = true) :
    Fasta.parseBytes fix o bs = Fasta.parse fix o bs := by
  unfold Fasta.parseBytes; rw [Gv.Proofs.Utf8Norm.norm_of_ascii bs h]

/-- **FASTA on the raw input, code as it is** (also with the patch), ALL byte strings (bytes ≥ 128 included) and all
options: never `panic` / `hang` / `exit`; a success is rectangular IN BYTES AS WRITTEN with the reported length, names
pairwise distinct, at least one column when it has a row; zero rows only for the empty-record shape of what the lexer
read. -/
theorem fasta_outcome_bytes_partial (fix : Bool) (o : POpts) (bs : List Byte) :
    match Fasta.parseBytes fix o bs with
    | .ok a => (∀ r ∈ a.rows, (r.2.length : Int) = a.length) ∧
               Spec.Fmt.distinct (a.rows.map (·.1)) = true ∧
               (a.rows ≠ [] → 1 ≤ a.length) ∧
               (a.rows = [] → a.length = -1 ∧ EmptyRecords (Utf8.norm bs))
    | .error => True
    | .exit | .panic | .hang => False :=
  fasta_outcome_partial fix o (Utf8.norm bs)

/-- **FASTA on the raw input with the empty-result check**: the full C03 statement for ALL byte strings (bytes ≥ 128
included) and all options. -/
theorem fasta_outcome_bytes (o : POpts) (bs : List Byte) : Good (Fasta.parseBytes true o bs) :=
  fasta_outcome_fixed o (Utf8.norm bs)

/-- non-vacuity: `>a\nAC\xff\n>b\nAC€\n` succeeds with two rows of FIVE bytes (`\xff` is written back as `EF BF BD`) -/
example : Fasta.parseBytes true {} [62, 97, 10, 65, 67, 0xFF, 10, 62, 98, 10, 65, 67, 0xE2, 0x82, 0xAC, 10] =
    .ok ⟨3, 5, [([97], [65, 67, 0xEF, 0xBF, 0xBD]), ([98], [65, 67, 0xE2, 0x82, 0xAC])]⟩ := by
  have h : Utf8.norm [62, 97, 10, 65, 67, 0xFF, 10, 62, 98, 10, 65, 67, 0xE2, 0x82, 0xAC, 10] =
      [62, 97, 10, 65, 67, 0xEF, 0xBF, 0xBD, 10, 62, 98, 10, 65, 67, 0xE2, 0x82, 0xAC, 10] := by decide
  unfold Fasta.parseBytes; rw [h]
  simp [Fasta.parse, Fasta.parseBag, Fasta.lex, Fasta.scan, Fasta.skipEol, Fasta.loop, Fasta.body,
    Fasta.isEOL, Fasta.identChar, Fasta.afterRun, Fasta.GT, NL, CR, Fasta.stripSpaces, Fasta.noSpaces, SP,
    Bag.add, Bag.find]
  decide

/-! ### FASTA: the rune lexer IS the byte lexer on `Utf8.norm`

`Model/Fmt/FastaRunes.lean` mirrors `io/fasta/lexer.go` on runes (`read()` = next rune or rune 0, `unread`, literals written
with `WriteRune`).  The byte lexer `Fasta.scan` / `Fasta.lex`, on which `Fasta.parse` and all FASTA theorems are built, run
on `Utf8.norm bs` yields exactly the tokens of the rune lexer on `Utf8.runes bs` - proved, not argued. -/

/-- one `Scan`: for every list of runes, the byte lexer on the written runes returns the rune lexer's token (literal
written with `WriteRune`) and leaves the written rest -/
theorem fasta_rune_scan (rs : List Nat) :
    Fasta.scan (FastaRunes.enc rs) = ((FastaRunes.scanRunes rs).1.bytes, FastaRunes.enc (FastaRunes.scanRunes rs).2) :=
  Gv.Proofs.FastaRunes.scan_enc rs

/-- the whole token list, ALL byte strings: `Fasta.parseBytes` reads its input only through `Fasta.lex (Utf8.norm bs)`,
which is the token list of the rune lexer on the runes of the raw input -/
theorem fasta_rune_lexer (bs : List Byte) :
    Fasta.lex (Utf8.norm bs) =
      (FastaRunes.lexRunes ((Utf8.runes bs).length + 1) (Utf8.runes bs)).map FastaRunes.Tok.bytes :=
  Gv.Proofs.FastaRunes.lex_norm bs

/-- non-vacuity: `>a\nA\xff\n` - the rune lexer sees U+FFFD, the parser receives `EF BF BD` -/
example : FastaRunes.lexRunes 8 (Utf8.runes [62, 97, 10, 65, 0xFF, 10]) =
    [.start, .ident [97], .eol, .ident [65, 0xFFFD], .eol, .eof] := by decide

/-! ### Phylip, partition, Clustal, Stockholm, Nexus on the raw input -/

theorem phylip_parseBytes_ascii (af : Bool) (o : POpts) (bs : List Byte) (h : allAscii bs = true) :
    Phylip.parseBytes af o bs = Phylip.parse af o bs := by
  unfold Phylip.parseBytes; rw [Gv.Proofs.Utf8Norm.norm_of_ascii bs h]

/-- the naive header scanner and the blank-input test read the same thing off the raw input and off what the lexer
holds, ALL byte strings (the scanners read ASCII blanks, signs and digits and stop at the first other byte; `norm` keeps
every ASCII byte in place and writes bytes ≥ 0x80 for everything else) -/
theorem phylip_header_reading_raw (bs : List Byte) :
    Spec.Fmt.declaredPhylip (Utf8.norm bs) = Spec.Fmt.declaredPhylip bs ∧
    Spec.Fmt.blankToNul (Utf8.norm bs) = Spec.Fmt.blankToNul bs :=
  ⟨Gv.Proofs.Utf8Header.declaredPhylip_norm bs, Gv.Proofs.Utf8Header.blankToNul_norm bs⟩

/-- **Phylip (strict and relaxed) on the raw input, the complete C03 statement for ALL byte strings** (bytes ≥ 128
included; strict names are ten RUNES) and all options: an explicit error, an exit with a message, the end-of-stream marker
(then the RAW input is blank up to its first NUL), or an alignment that is well formed - rectangular in BYTES AS
WRITTEN - and agrees with the counts of the header line of the RAW input (the reading of the oracle predicate); never a
panic, never a hang. -/
theorem phylip_outcome_bytes (o : POpts) (bs : List Byte) :
    match Phylip.parseBytes false o bs with
    | .ok (some a) =>
      Spec.Fmt.wellFormed a.length a.rows = true ∧
      (match Spec.Fmt.declaredPhylip bs with
       | some (dn, dl) => Spec.Fmt.rowsOk (normIgnore o.ignore != 0) (a.rows.length : Int) dn = true ∧ a.length = dl
       | none => True)
    | .ok none => Spec.Fmt.blankToNul bs = true
    | .error | .exit => True
    | .panic | .hang => False := by
  have h := phylip_outcome_full o (Utf8.norm bs)
  rw [(phylip_header_reading_raw bs).1, (phylip_header_reading_raw bs).2] at h
  exact h

/-- **`ParseMultiple` on the raw input terminates**, ALL byte strings and options: alignments handed on are well formed;
no panic, no hang, no allocation band. -/
theorem phylip_multi_outcome_bytes (o : POpts) (bs : List Byte) :
    match Phylip.parseMultiBytes false o bs with
    | .done als _ => ∀ a ∈ als, Spec.Fmt.wellFormed a.length a.rows = true
    | .slow => False
    | .stop st => st = .exit :=
  phylip_multi_outcome o (Utf8.norm bs)

/-- non-vacuity: strict mode, a name field of ten runes (nine letters and `é` = `C3 A9`: eleven bytes), residues `A\xff`
written as four bytes, declared length 4 -/
example : Phylip.parseBytes false { strict := true } [32, 49, 32, 52, 10, 97, 98, 99, 100, 101, 102, 103, 104, 105, 0xC3, 0xA9, 65, 0xFF, 10] =
    .ok (some ⟨3, 4, [([97, 98, 99, 100, 101, 102, 103, 104, 105, 0xC3, 0xA9], [65, 0xEF, 0xBF, 0xBD])]⟩) := by
  decide

/-- **Partition parser on the raw input**, ALL byte strings, every declared length below 2^63 (with the `AddRange` guard) -/
theorem partition_outcome_bytes (r : Bool) (len : Nat) (hlen : (len : Int) < 9223372036854775808) (bs : List Byte) :
    match Partition.parseBytes ⟨r, true⟩ len bs with
    | .ok ps => ps.length = len ∧ ps.parts.length = len ∧
                ∀ p ∈ ps.parts, -1 ≤ p ∧ p < (ps.names.length : Int)
    | .error => True
    | .exit | .panic | .hang => False :=
  partition_outcome r len hlen (Utf8.norm bs)

/-- **Clustal (row-index repair) on the raw input**: the full C03 statement for ALL byte strings (no exception: the keyword
test of the model upper-cases rune-wise, U+0131 / U+017F included) and all options -/
theorem clustal_outcome_bytes (o : POpts) (bs : List Byte) : Good (Clustal.parseBytes true o bs) :=
  clustal_outcome_fixed o (Utf8.norm bs)

/-- the keyword is recognised through the fold runes: `cluſtal\n\na AC\n  *\n` (`ſ` = `C5 BF`) is a Clustal file -/
example : Clustal.parseBytes true {} [99, 108, 117, 0xC5, 0xBF, 116, 97, 108, 10, 10, 97, 32, 65, 67, 10, 32, 32, 42, 10] =
    .ok ⟨1, 2, [([97], [65, 67])]⟩ := by decide

/-- **Stockholm (patched) on the raw input**: likewise, ALL byte strings without exception -/
theorem stockholm_outcome_bytes (o : POpts) (bs : List Byte) : Good (Stockholm.parseBytes true true o bs) :=
  stockholm_outcome_fixed o (Utf8.norm bs)

/-- the header is recognised through the fold rune: `# ſtockholm 1.0\na AC\n//\n` (`ſ` = `C5 BF`) -/
example : Stockholm.parseBytes true true {} [35, 32, 0xC5, 0xBF, 116, 111, 99, 107, 104, 111, 108, 109, 32, 49, 46, 48, 10, 97, 32, 65, 67, 10, 47, 47, 10] =
    .ok ⟨1, 2, [([97], [65, 67])]⟩ := by decide

/-- **Nexus (comment and empty-row repairs) on the raw input**: likewise, ALL byte strings without exception -/
theorem nexus_outcome_bytes (f : Nexus.Facts) (hc : f.commentStopsAtEof = true) (he : f.rejectsEmptyRows = true)
    (o : POpts) (bs : List Byte) : Good (Nexus.parseBytes f o bs) :=
  nexus_outcome_fixed f hc he o (Utf8.norm bs)

/-- the keywords are recognised through the fold runes: `#NEXUſ\nbegın data;\nmatrıx\na AC\n;\nend;\n`
(`ſ` = `C5 BF`, `ı` = `C4 B1`) -/
example : Nexus.parseBytes ⟨true, true, true, true, true, true, true⟩ {}
    [35, 78, 69, 88, 85, 0xC5, 0xBF, 10, 98, 101, 103, 0xC4, 0xB1, 110, 32, 100, 97, 116, 97, 59, 10,
     109, 97, 116, 114, 0xC4, 0xB1, 120, 10, 97, 32, 65, 67, 10, 59, 10, 101, 110, 100, 59, 10] =
    .ok ⟨1, 2, [([97], [65, 67])]⟩ := by decide

/-- on an ASCII input the raw-input models are the ASCII models -/
theorem parseBytes_ascii_claim (bs : List Byte) (h : allAscii bs = true) :
    (∀ c o, Clustal.parseBytes c o bs = Clustal.parse c o bs) ∧
    (∀ m e o, Stockholm.parseBytes m e o bs = Stockholm.parse m e o bs) ∧
    (∀ f o, Nexus.parseBytes f o bs = Nexus.parse f o bs) ∧
    (∀ f len, Partition.parseBytes f len bs = Partition.parse f len bs) := by
  have hn := Gv.Proofs.Utf8Norm.norm_of_ascii bs h
  refine ⟨?_, ?_, ?_, ?_⟩
  · intro c o; simp [Clustal.parseBytes, hn]
  · intro m e o; simp [Stockholm.parseBytes, hn]
  · intro f o; simp [Nexus.parseBytes, hn]
  · intro f len; simp [Partition.parseBytes, hn]

end Gv.Props.C03
