import Gv.Proofs.PoolCore
import Gv.Model.Facts
/-!
# C08 (second half) — thread count and scheduling do not matter; the call returns, with the error

The theorems are about `Model.Pool` (DESIGN §4.4): *every* schedule, any number of workers `n > 0`, any
channel capacity `cap > 0`.  They are tied to `dna.DistMatrix` by the T3 facts: `Facts.instanceOfPool`
(the source has the pool's shape and the sound error-path discipline) and `Facts.raceFree` (lock-set +
happens-before) are evaluated by the driver on the regenerated `Gen.Facts.distMatrix` on every run; here
we prove what these two Boolean checks *give* (`raceFree_sound`, `instanceOfPool_discipline`,
`instanceOfPool_returns_error`), so that this file compiles whether or not the working tree passes them.

Outside the model (partial): the Go memory model and scheduler, pre-emption inside a step, what a
caller-supplied `DistModel` does internally, floating point (the values `f j` are opaque here — C07).
The first half of C08 (column permutation / replication / weights / reverse complement / row permutation)
is proved over the reals in `Props/C08Cols.lean` (a Mathlib module, kept apart from this core-only file) and
checked on the implementation by metamorphic pairs (`driver/props/c08_pool.py`).
-/
namespace Gv.Props.C08
open Gv.Model.Pool Gv.Model.Facts Gv.Proofs.PoolCore

variable {J V : Type} [DecidableEq J]

/-- **conservation**: in every reachable state each job is in exactly one of: still to send, in the
channel, held by a worker, stored, failed, drained; and every stored value is the job's value -/
theorem pool_conservation (P : Params J V) (jobs : List J) (n : Nat) (hn : 0 < n) (c : Cfg J V)
    (hr : Reach P (init jobs n) c) :
    (∀ x, (c.todo ++ c.chan ++ c.workers.filterMap holdingOf ++ c.store.map Prod.fst ++ c.failed ++
        c.dropped).count x = jobs.count x) ∧
    (∀ p ∈ c.store, p.2 = P.f p.1) ∧ c.workers.length = n := by
  have inv := reach_inv P jobs n hn c hr
  exact ⟨inv.conserve, fun p hp => (inv.values p hp).1, inv.len⟩

/-- **termination**: every step strictly decreases the measure `mu` … -/
theorem pool_step_decreases (P : Params J V) (c c' : Cfg J V) (l : Label)
    (hs : step? P c l = some c') : mu c' < mu c :=
  step_measure P c c' l hs

/-- … hence every schedule from the initial state has at most `4·|jobs| + n + 3` steps -/
theorem pool_terminates (P : Params J V) (jobs : List J) (n k : Nat) (c : Cfg J V)
    (h : ReachIn P (init jobs n) k c) : k ≤ 4 * jobs.length + n + 3 := by
  have := reachIn_measure P _ c k h
  rw [mu_init] at this
  omega

/-- **confluence**: if no evaluation fails, every maximal execution — any schedule, any worker count,
any capacity, any error-path discipline — ends with the store of the sequential loop (as a multiset),
the locked accumulator has seen every job exactly once, and the error slot is empty -/
theorem pool_confluent (f : J → V) (fails : J → Bool) (jobs : List J) (hnf : ∀ j ∈ jobs, fails j = false)
    (cap₁ cap₂ n₁ n₂ : Nat) (d₁ d₂ : Discipline)
    (hc₁ : 0 < cap₁) (hc₂ : 0 < cap₂) (hn₁ : 0 < n₁) (hn₂ : 0 < n₂) (c₁ c₂ : Cfg J V)
    (hr₁ : Reach ⟨f, fails, cap₁, d₁⟩ (init jobs n₁) c₁) (ht₁ : Terminal ⟨f, fails, cap₁, d₁⟩ c₁)
    (hr₂ : Reach ⟨f, fails, cap₂, d₂⟩ (init jobs n₂) c₂) (ht₂ : Terminal ⟨f, fails, cap₂, d₂⟩ c₂) :
    c₁.store.Perm c₂.store ∧ c₁.store.Perm (seqStore f jobs) ∧ c₁.acc.Perm c₂.acc ∧ c₁.acc.Perm jobs ∧
    c₁.err = none ∧ c₁.waited = true := by
  have s₁ := terminal_store_perm ⟨f, fails, cap₁, d₁⟩ jobs hnf hc₁ n₁ hn₁ c₁ hr₁ ht₁
  have s₂ := terminal_store_perm ⟨f, fails, cap₂, d₂⟩ jobs hnf hc₂ n₂ hn₂ c₂ hr₂ ht₂
  obtain ⟨_, a₁, _, e₁, _, _⟩ := terminal_complete ⟨f, fails, cap₁, d₁⟩ jobs hnf hc₁ n₁ hn₁ c₁ hr₁ ht₁
  obtain ⟨_, a₂, _, _, _, _⟩ := terminal_complete ⟨f, fails, cap₂, d₂⟩ jobs hnf hc₂ n₂ hn₂ c₂ hr₂ ht₂
  obtain ⟨_, _, _, _, _, w₁, _⟩ :=
    terminal_shape ⟨f, fails, cap₁, d₁⟩ jobs (Or.inr hnf) hc₁ n₁ hn₁ c₁ hr₁ ht₁
  exact ⟨s₁.trans s₂.symm, s₁, a₁.trans a₂.symm, a₁, e₁, w₁⟩

/-- the cell of job `j` in a store -/
def cell (st : List (J × V)) (j : J) : Option V := (st.find? (fun p => p.1 == j)).map Prod.snd

/-- **bit-identical matrix**: after any maximal execution without failure, the cell of every job holds
exactly the sequential value `f j` — for every schedule, worker count and capacity -/
theorem pool_cells_schedule_independent (P : Params J V) (jobs : List J)
    (hnf : ∀ j ∈ jobs, P.fails j = false) (hcap : 0 < P.cap) (n : Nat) (hn : 0 < n) (c : Cfg J V)
    (hr : Reach P (init jobs n) c) (ht : Terminal P c) :
    ∀ j ∈ jobs, cell c.store j = some (P.f j) := by
  obtain ⟨h1, _, h3, _⟩ := terminal_complete P jobs hnf hcap n hn c hr ht
  intro j hj
  have hm : j ∈ c.store.map Prod.fst := h1.mem_iff.mpr hj
  obtain ⟨p, hp, hpj⟩ := List.mem_map.mp hm
  unfold cell
  cases hf : c.store.find? (fun p => p.1 == j) with
  | none =>
    have := List.find?_eq_none.mp hf p hp
    simp [hpj] at this
  | some q =>
    have hq := List.find?_some hf
    have hqm := List.mem_of_find?_eq_some hf
    have : q.1 = j := by simpa using hq
    simp [h3 q hqm, this]

omit [DecidableEq J] in
/-- any commutative update applied under the mutex (`max`, the set of pairs to recompute) ends with the
same value whatever the order in which the workers took the lock -/
theorem pool_locked_fold_schedule_independent {β : Type} (g : β → J → β)
    (hg : ∀ x y z, g (g z x) y = g (g z y) x) (acc₁ acc₂ jobs : List J)
    (h₁ : acc₁.Perm jobs) (h₂ : acc₂.Perm jobs) (b : β) :
    acc₁.foldl g b = acc₂.foldl g b :=
  (h₁.trans h₂.symm).foldl_eq' (fun x _ y _ z => hg x y z) b

/-- **the error comes back, nobody is left waiting**: for a pool whose workers call `Done` on every
path and whose error slot is sticky, every maximal execution returns from `Wait`, every worker has
exited, the producer is not blocked (nothing left to send, channel empty and closed), and the error
slot is set *iff* some job's evaluation fails -/
theorem pool_error_is_returned_no_deadlock (P : Params J V) (jobs : List J) (hd : P.d = Discipline.sound)
    (hcap : 0 < P.cap) (n : Nat) (hn : 0 < n) (c : Cfg J V)
    (hr : Reach P (init jobs n) c) (ht : Terminal P c) :
    c.waited = true ∧ (c.err.isSome = true ↔ ∃ j ∈ jobs, P.fails j = true) ∧
    (∀ w, w < n → c.workers[w]? = some W.exited) ∧ c.todo = [] ∧ c.chan = [] ∧ c.closed = true := by
  have hdone : P.d.doneOnFail = true := by rw [hd]; rfl
  obtain ⟨h1, h2⟩ := terminal_error P jobs hd hcap n hn c hr ht
  obtain ⟨t1, t2, t3, t4, _, _, _⟩ := terminal_shape P jobs (Or.inl hdone) hcap n hn c hr ht
  exact ⟨h1, h2, t4, t1, t2, t3⟩

/-- **results closed exactly once, after all workers exited**: in every reachable state the result
channel has been closed at most once, and only when every worker has returned; no result is stored after
the close; and at every terminal state (sound `Done` discipline) it *has* been closed -/
theorem pool_results_closed_once (P : Params J V) (jobs : List J) (n : Nat) (hn : 0 < n) (c : Cfg J V)
    (hr : Reach P (init jobs n) c) :
    c.resClosed ≤ 1 ∧ (c.resClosed = 1 → ∀ w, w < n → c.workers[w]? = some W.exited) ∧
    (c.resClosed = 1 → ∀ l c', step? P c l = some c' → c'.store = c.store ∧ c'.resClosed = 1) ∧
    (P.d.doneOnFail = true → 0 < P.cap → Terminal P c → c.resClosed = 1) := by
  obtain ⟨h1, h2⟩ := closed_after_workers P jobs n hn c hr
  refine ⟨h1, h2, fun hc l c' hs => no_store_after_close P jobs n hn c c' l hr hc hs, ?_⟩
  intro hd hcap ht
  exact (terminal_shape P jobs (Or.inl hd) hcap n hn c hr ht).2.2.2.2.2.2

/-! ## the cells a job owns (the `ownCell` exemption of `Facts.raceFree`) -/

/-- half-matrix mode: the cells written for two jobs at different positions of the producer's list never
coincide (this also excludes a repeated job) — the assumption under which un-locked writes of
`outmatrix[sp.i][sp.j]`, `outmatrix[sp.j][sp.i]` by different workers do not race -/
theorem halfJobs_cells_disjoint (n : Nat) :
    (halfJobs n).Pairwise (fun p q => ∀ x, x ∈ cellsOf p → x ∈ cellsOf q → False) := by
  unfold halfJobs
  rw [List.pairwise_flatMap]
  constructor
  · intro i _
    rw [List.pairwise_map]
    apply List.Pairwise.filter
    apply List.Pairwise.imp _ List.pairwise_lt_range
    intro a b hab x hx hy
    simp only [cellsOf, List.mem_cons, List.mem_nil_iff, or_false] at hx hy
    rcases hx with rfl | rfl <;> rcases hy with h | h <;> simp only [Prod.mk.injEq] at h <;> omega
  · apply List.Pairwise.imp _ List.pairwise_lt_range
    intro i₁ i₂ hi x hx y hy z hz₁ hz₂
    simp only [List.mem_map, List.mem_filter, List.mem_range, decide_eq_true_eq] at hx hy
    obtain ⟨a, ⟨_, ha⟩, rfl⟩ := hx
    obtain ⟨b, ⟨_, hb⟩, rfl⟩ := hy
    simp only [cellsOf, List.mem_cons, List.mem_nil_iff, or_false] at hz₁ hz₂
    rcases hz₁ with rfl | rfl <;> rcases hz₂ with h | h <;> simp only [Prod.mk.injEq] at h <;> omega

/-- range mode with overlapping ranges (as `--range1 0:1 --range2 0:1`): the pairs `(0,1)` and `(1,0)` are both
jobs and own the *same* cells — two workers write them without a lock (reproduced by the race detector) -/
theorem rangeJobs_cells_overlap :
    ∃ p q, p ∈ rangeJobs 0 1 0 1 ∧ q ∈ rangeJobs 0 1 0 1 ∧ p ≠ q ∧ ∃ x, x ∈ cellsOf p ∧ x ∈ cellsOf q :=
  ⟨(0, 1), (1, 0), by decide, by decide, by decide, (0, 1), by decide, by decide⟩

/-- range mode with the deduplicating guard of the proposed repair: for *all* ranges, overlapping or not, no two
jobs own a common cell -/
theorem rangeJobsDedup_cells_disjoint (a b c d : Nat) :
    (rangeJobsDedup a b c d).Pairwise (fun p q => ∀ x, x ∈ cellsOf p → x ∈ cellsOf q → False) := by
  unfold rangeJobsDedup
  rw [List.pairwise_flatMap]
  constructor
  · intro i _
    rw [List.pairwise_map]
    apply List.Pairwise.filter
    apply List.Pairwise.imp _ List.pairwise_lt_range'
    intro j j' hjj x hx hy
    simp only [cellsOf, List.mem_cons, List.mem_nil_iff, or_false] at hx hy
    rcases hx with rfl | rfl <;> rcases hy with h | h <;> simp only [Prod.mk.injEq] at h <;> omega
  · apply List.Pairwise.imp_of_mem _ List.pairwise_lt_range'
    intro i₁ i₂ hm₁ hm₂ hi x hx y hy z hz₁ hz₂
    simp only [List.mem_range'_1] at hm₁ hm₂
    simp only [List.mem_map, List.mem_filter, List.mem_range'_1, Bool.not_eq_true', Bool.or_eq_false_iff,
      Bool.and_eq_false_iff, beq_eq_false_iff_ne, ne_eq, decide_eq_false_iff_not] at hx hy
    obtain ⟨j₁, ⟨hj₁, hne₁, hg₁⟩, rfl⟩ := hx
    obtain ⟨j₂, ⟨hj₂, hne₂, hg₂⟩, rfl⟩ := hy
    simp only [cellsOf, List.mem_cons, List.mem_nil_iff, or_false] at hz₁ hz₂
    rcases hz₁ with rfl | rfl <;> rcases hz₂ with h | h <;> simp only [Prod.mk.injEq] at h <;> omega

/-! ## the model mirrors the defects of the unchanged `DistMatrix` -/

/-- the discipline of the unchanged `DistMatrix`: the error `return` skips `wg.Done`, and every
successful `Distance` call overwrites the named result `err` -/
def asIs : Discipline := ⟨false, false⟩

/-- **the unchanged code can hang**: one worker, one job whose evaluation fails — the worker returns
without `Done`, `Wait` never returns, no step is enabled (deadlock) -/
theorem pool_asis_deadlocks :
    ∃ c : Cfg Nat Nat, Reach ⟨id, fun j => j == 0, 100, asIs⟩ (init [0] 1) c ∧
      Terminal ⟨id, fun j => j == 0, 100, asIs⟩ c ∧ c.waited = false ∧ c.wg = 1 := by
  refine ⟨run ⟨id, fun j => j == 0, 100, asIs⟩ (init [0] 1) [.produce, .recv 0, .fail 0, .close], ?_, ?_, ?_, ?_⟩
  · exact run_reach _ _ _ Reach.refl _
  · exact terminal_of_enabled_nil _ _ (by decide)
  · decide
  · decide

/-- with `Done` repaired but the error slot still overwritten by successful evaluations, the error can be
lost: two workers, job 0 fails, job 1 succeeds afterwards and clears the slot -/
theorem pool_error_lost_without_sticky :
    ∃ c : Cfg Nat Nat, Reach ⟨id, fun j => j == 0, 100, ⟨true, false⟩⟩ (init [0, 1] 2) c ∧
      Terminal ⟨id, fun j => j == 0, 100, ⟨true, false⟩⟩ c ∧ c.waited = true ∧ c.err = none ∧ c.failed = [0] := by
  refine ⟨run ⟨id, fun j => j == 0, 100, ⟨true, false⟩⟩ (init [0, 1] 2)
    [.produce, .produce, .close, .recv 0, .recv 1, .fail 0, .work 1, .lock 1, .exit 1, .wait, .closeRes], ?_, ?_, ?_, ?_, ?_⟩
  · exact run_reach _ _ _ Reach.refl _
  · exact terminal_of_enabled_nil _ _ (by decide)
  · decide
  · decide
  · decide

/-! ## what the two checks over the T3 facts give -/

/-- `raceFree F = true` means: any two accesses of the same variable, one of them a write, by goroutines
that may run in parallel (not ordered by `go`, `Done → Wait`, `close → range end → Done → Wait`, or
program order) hold a common mutex or go to cells owned by the jobs the workers received -/
theorem raceFree_sound (F : Facts) (h : raceFree F = true) :
    ∀ a ∈ F.accesses, ∀ b ∈ F.accesses, conflicting a b = true → parallel F a b = true →
      commonLock a b = true ∨ ownCells a b = true := by
  intro a ha b hb hc hp
  simp only [raceFree, List.all_eq_true] at h
  have := h a ha b hb
  simp only [racy, hc, hp, Bool.true_and, Bool.not_eq_true', Bool.and_eq_false_iff,
    Bool.not_eq_false'] at this
  exact this

/-- `instanceOfPool F = true` forces the sound error-path discipline … -/
theorem instanceOfPool_discipline (F : Facts) (h : instanceOfPool F = true) :
    disciplineOf F = Discipline.sound := by
  simp only [instanceOfPool, poolRules, List.all_cons, List.all_nil, Bool.and_true,
    Bool.and_eq_true] at h
  obtain ⟨_, _, _, _, _, _, _, hdone, _, _, _, hsticky, _⟩ := h
  simp only [disciplineOf, Discipline.sound, Facts.workersDone]
  rw [hdone, hsticky]

/-- … so for a function that passes `instanceOfPool`, every maximal execution of the pool with *its*
discipline returns from `Wait` with the error slot set iff an evaluation failed -/
theorem instanceOfPool_returns_error (F : Facts) (h : instanceOfPool F = true)
    (f : J → V) (fails : J → Bool) (cap : Nat) (hcap : 0 < cap) (jobs : List J) (n : Nat) (hn : 0 < n)
    (c : Cfg J V) (hr : Reach ⟨f, fails, cap, disciplineOf F⟩ (init jobs n) c)
    (ht : Terminal ⟨f, fails, cap, disciplineOf F⟩ c) :
    c.waited = true ∧ (c.err.isSome = true ↔ ∃ j ∈ jobs, fails j = true) :=
  terminal_error ⟨f, fails, cap, disciplineOf F⟩ jobs (instanceOfPool_discipline F h) hcap n hn c hr ht

/-! ## non-vacuity -/

/-- a concrete maximal execution (2 workers, 3 jobs, capacity 1) reaches a terminal state -/
example : enabled (⟨fun j => j * j, fun _ => false, 1, Discipline.sound⟩ : Params Nat Nat)
    (runRandom ⟨fun j => j * j, fun _ => false, 1, Discipline.sound⟩ 100 7 (init [1, 2, 3] 2)) = [] := by
  decide

end Gv.Props.C08
