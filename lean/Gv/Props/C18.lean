import Gv.Gen.NumericModels
/-! placeholder while the pipeline is brought up; replaced by the real theorems -/
namespace Gv.Props.C18
theorem placeholder : True := trivial
end Gv.Props.C18
