import Gv.Gen.NumericModels
import Gv.Gen.ProteinTables
import Gv.Model.ProtModel
import Gv.Proofs.SubstReal
import Mathlib.Tactic.FinCases
import Mathlib.Tactic.NormNum
import Mathlib.Tactic.Positivity
import Mathlib.Tactic.LinearCombination
import Mathlib.Analysis.SpecialFunctions.Exp
/-!
# C18 — substitution models yield valid, reversible Markov transition matrices

All theorems are over `ℝ` and about the definitions **regenerated from the Go source on every run**
(`Gv.Gen.Models`, tie T2; `Gv.Gen.Protein`, tie T1), so a changed formula breaks the proof.  Float
rounding is *not* modelled (trusted; the correspondence run compares Go and the same definitions at
`Float`).  State order A, C, G, T.

* JC, K2P (closed forms `Pij`): rows sum to one, entries in `[0,1]` for `t ≥ 0`, `P(0) = I`,
  `P(s+t) = P(s)·P(t)`, detailed balance, limit = stationary frequencies, closed form =
  eigen-assembled value (`Eigens()` + `SetLength`) = `exp(t·Q)` for the textbook rate matrix `Q`.
* F84 (closed-form eigen-system, symbolic in κ and π): `L·R = I`, `R·D·L = Q` textbook, hence
  `P(t) = exp(t·Q)` with every law, and the limit.
* F81, TN93, GTR (`InitModel` rate-matrix construction): equals the textbook matrix, rows sum to
  zero, reversible, mean rate one; every law of `P(t)` *for any eigen-system with `L·R = I`,
  `R·D·L = Q`* (`…_laws_of_eigen_system`).  That gonum's decomposition satisfies these two equations
  is NOT proved: it is an external call whose residuals are measured on every checked case.
* protein (`ProtModel.InitModel`, hand-written model over the regenerated tables): rows sum to zero,
  reversible, mean rate one, equals the textbook matrix; the seven tables are symmetric with zero
  diagonal (kernel evaluation).
* `eigen_assembly`, `setLength_entry_within_floor`: the generic statements of DESIGN §5.

Not proved at full strength (see the `…_partial` / conditional names and the comments):
`f81/tn93/gtr/prot_laws_of_eigen_system` are conditional on the numeric eigen-system; the protein
theorems are about a hand-written model of the loops (validated by correspondence).
-/
namespace Gv.Props.C18
open Gv Gv.Gen.Models Gv.Spec.Subst Gv.Proofs Gv.Proofs.SubstReal Matrix Filter Topology

/-! ## generic statements -/

/-- **eigen_assembly** (DESIGN §5 C18).  For a rate matrix `Q` (rows sum to zero, non-negative
off-diagonal rates) reversible for positive weights `π`, and *any* `L`, `R`, `d` with `L·R = 1` and
`R·diag(d)·L = Q`: the matrix `R·diag(exp(d·t))·L` assembled by `SetLength` equals `exp(t·Q)`, is the
identity at `0`, is a semigroup, has rows summing to one and entries in `[0,1]` for `t ≥ 0`, and satisfies
detailed balance. -/
theorem eigen_assembly {n : ℕ} {Q R L : Matrix (Fin n) (Fin n) ℝ} {d π : Fin n → ℝ}
    (hLR : L * R = 1) (hRDL : R * diagonal d * L = Q)
    (hrow : ∀ i, ∑ j, Q i j = 0) (hoff : ∀ i j, i ≠ j → 0 ≤ Q i j)
    (hπ : ∀ i, 0 < π i) (hrev : ∀ i j, π i * Q i j = π j * Q j i) :
    (∀ t, MatrixExp.assembly R L d t = NormedSpace.exp (t • Q)) ∧
    MatrixExp.assembly R L d 0 = 1 ∧
    (∀ s t, MatrixExp.assembly R L d (s + t) = MatrixExp.assembly R L d s * MatrixExp.assembly R L d t) ∧
    (∀ t i, ∑ j, MatrixExp.assembly R L d t i j = 1) ∧
    (∀ t, 0 ≤ t → ∀ i j, 0 ≤ MatrixExp.assembly R L d t i j ∧ MatrixExp.assembly R L d t i j ≤ 1) ∧
    (∀ t i j, π i * MatrixExp.assembly R L d t i j = π j * MatrixExp.assembly R L d t j i) :=
  eigen_assembly_laws hLR hRDL hrow hoff hπ hrev

/-- **limit** of an eigen-assembled reversible `P(t)`: with one eigenvalue `0` and the others negative,
`P(t) → π/Σπ` entrywise. -/
theorem eigen_assembly_limit {n : ℕ} {Q R L : Matrix (Fin n) (Fin n) ℝ} {d π : Fin n → ℝ}
    (hLR : L * R = 1) (hRDL : R * diagonal d * L = Q) (hrow : ∀ i, ∑ j, Q i j = 0)
    (hπ : ∀ i, 0 < π i) (hrev : ∀ i j, π i * Q i j = π j * Q j i)
    (k0 : Fin n) (h0 : d k0 = 0) (hneg : ∀ k, k ≠ k0 → d k < 0) (i j : Fin n) :
    Tendsto (fun t => MatrixExp.assembly R L d t i j) atTop (𝓝 (π j / ∑ a, π a)) :=
  MatrixExp.assembly_tendsto_stationary hLR hRDL hrow hπ hrev k0 h0 hneg i j

/-- **positivity floor.**  The entry stored by the model of `Pij.SetLength` (`Model.Pij.entry`: the Go
loops followed by `if v < DBL_MIN { v = DBL_MIN }`) differs from `exp(t·Q)` by at most `DBL_MIN`, under
the hypotheses of `eigen_assembly`: "stochastic up to the positivity floor". -/
theorem setLength_entry_within_floor (n : ℕ) (val : ℕ → ℝ) (left right : ℕ → ℕ → ℝ)
    {Q : Matrix (Fin n) (Fin n) ℝ}
    (hLR : matOfFn n left * matOfFn n right = 1)
    (hRDL : matOfFn n right * diagonal (fun k : Fin n => val k.val) * matOfFn n left = Q)
    (hoff : ∀ i j, i ≠ j → 0 ≤ Q i j) (t : ℝ) (ht : 0 ≤ t) (i j : Fin n) :
    0 ≤ Model.Pij.entry n val left right t i.val j.val - NormedSpace.exp (t • Q) i j ∧
    Model.Pij.entry n val left right t i.val j.val - NormedSpace.exp (t • Q) i j ≤ Model.Pij.dblMin := by
  have h := assembled_eq_assembly n val left right t i j
  rw [MatrixExp.eigen_assembly_eq_exp hLR hRDL t] at h
  rw [← h]
  exact entry_floor_error n val left right t i.val j.val (by rw [h]; exact MatrixExp.exp_nonneg hoff ht i j)

/-! ## JC69 (`models/dna/jc.go`) -/

/-- the closed-form transition matrix of `JCModel.Pij`, as regenerated -/
noncomputable def jcP (t : ℝ) : Matrix (Fin 4) (Fin 4) ℝ :=
  Matrix.of fun i j => JCModel_Pij (α := ℝ) ((i.val : ℕ) : ℤ) ((j.val : ℕ) : ℤ) t

/-- the textbook JC69 rate matrix (mean rate one) -/
noncomputable def jcQ : Matrix (Fin 4) (Fin 4) ℝ := specQ 4 exJC fun _ => (1 / 4 : ℝ)

noncomputable def jcL : Matrix (Fin 4) (Fin 4) ℝ := matOfList 4 (JCModel_Eigens (α := ℝ)).leftvectors
noncomputable def jcR : Matrix (Fin 4) (Fin 4) ℝ := matOfList 4 (JCModel_Eigens (α := ℝ)).rightvectors
noncomputable def jcD : Fin 4 → ℝ := vecOfList 4 (JCModel_Eigens (α := ℝ)).val

theorem jcP_apply (t : ℝ) (i j : Fin 4) :
    jcP t i j = if i = j then 1 / 4 + 3 / 4 * Real.exp (-(4 / 3) * t) else 1 / 4 - 1 / 4 * Real.exp (-(4 / 3) * t) := by
  fin_cases i <;> fin_cases j <;> simp [jcP, JCModel_Pij] <;> ring

theorem jc_rows_sum_one (t : ℝ) (i : Fin 4) : ∑ j, jcP t i j = 1 := by
  rw [Fin.sum_univ_four]; simp only [jcP_apply]
  fin_cases i <;> simp <;> ring

theorem jc_entries_in_unit_interval (t : ℝ) (ht : 0 ≤ t) (i j : Fin 4) : 0 ≤ jcP t i j ∧ jcP t i j ≤ 1 := by
  have h0 : 0 < Real.exp (-(4 / 3) * t) := Real.exp_pos _
  have h1 : Real.exp (-(4 / 3) * t) ≤ 1 := Real.exp_le_one_iff.mpr (by linarith)
  rw [jcP_apply]
  split <;> constructor <;> linarith

theorem jc_P_zero_eq_id : jcP 0 = 1 := by
  ext i j
  rw [jcP_apply, Matrix.one_apply]
  by_cases h : i = j
  · simp [h]; norm_num
  · simp [h]

theorem jc_semigroup (s t : ℝ) : jcP (s + t) = jcP s * jcP t := by
  ext i j
  rw [Matrix.mul_apply, Fin.sum_univ_four]
  simp only [jcP_apply]
  have h : Real.exp (-(4 / 3) * (s + t)) = Real.exp (-(4 / 3) * s) * Real.exp (-(4 / 3) * t) := by
    rw [mul_add, Real.exp_add]
  rw [h]
  fin_cases i <;> fin_cases j <;> simp <;> ring

/-- detailed balance for the uniform stationary distribution -/
theorem jc_detailed_balance (t : ℝ) (i j : Fin 4) : (1 / 4 : ℝ) * jcP t i j = (1 / 4 : ℝ) * jcP t j i := by
  rw [jcP_apply, jcP_apply]
  by_cases h : i = j
  · subst h; rfl
  · simp [h, Ne.symm h]

theorem jc_limit_is_stationary (i j : Fin 4) : Tendsto (fun t => jcP t i j) atTop (𝓝 (1 / 4)) := by
  have he : Tendsto (fun t : ℝ => Real.exp (-(4 / 3) * t)) atTop (𝓝 0) :=
    Real.tendsto_exp_atBot.comp (tendsto_id.const_mul_atTop_of_neg (by norm_num))
  simp only [jcP_apply]
  by_cases h : i = j
  · simp only [h, if_true]
    have := (he.const_mul (3 / 4)).const_add (1 / 4); simpa using this
  · simp only [h, if_false]
    have := (he.const_mul (1 / 4)).const_sub (1 / 4); simpa using this

theorem jcQ_apply (i j : Fin 4) : jcQ i j = if i = j then -1 else 1 / 3 := by
  fin_cases i <;> fin_cases j <;>
    simp [jcQ, specQ, textbookQ, normalise, rowOut, meanRate, sumTo_four, exJC] <;> norm_num

/-- the regenerated eigen-system of `JCModel.Eigens`: left vectors are the inverse of the right vectors -/
theorem jc_eigen_LR : jcL * jcR = 1 := by
  ext i j
  rw [Matrix.mul_apply, Fin.sum_univ_four]
  fin_cases i <;> fin_cases j <;> simp [jcL, jcR, JCModel_Eigens] <;> norm_num

/-- … and it diagonalises the textbook JC69 rate matrix -/
theorem jc_eigen_RDL : jcR * diagonal jcD * jcL = jcQ := by
  ext i j
  rw [Matrix.mul_apply, Fin.sum_univ_four]
  simp only [Matrix.mul_diagonal, jcQ_apply]
  fin_cases i <;> fin_cases j <;> simp [jcL, jcR, jcD, vecOfList, JCModel_Eigens] <;> norm_num

/-- analytical formula = eigen-decomposition based value (what `SetLength` assembles from `Eigens()`) -/
theorem jc_analytic_eq_eigen (t : ℝ) : jcP t = MatrixExp.assembly jcR jcL jcD t := by
  ext i j
  rw [MatrixExp.assembly_apply, Fin.sum_univ_four, jcP_apply]
  fin_cases i <;> fin_cases j <;> simp [jcL, jcR, jcD, vecOfList, JCModel_Eigens] <;> ring

/-- the regenerated closed form equals the matrix exponential of the textbook rate matrix -/
theorem jc_eq_exp_of_rate_matrix (t : ℝ) : jcP t = NormedSpace.exp (t • jcQ) := by
  rw [jc_analytic_eq_eigen t]
  exact MatrixExp.eigen_assembly_eq_exp jc_eigen_LR jc_eigen_RDL t

/-! ## K2P (`models/dna/k2p.go`) -/

/-- `K2PModel.InitModel(κ)` followed by `Pij(i, j, t)`, as regenerated -/
noncomputable def k2pP (κ t : ℝ) : Matrix (Fin 4) (Fin 4) ℝ :=
  Matrix.of fun i j => K2PModel_Pij (α := ℝ) ((i.val : ℕ) : ℤ) ((j.val : ℕ) : ℤ) t (m_kappa := K2PModel_InitModel κ)

/-- the two exponentials of the closed form, with the exponents exactly as in the source (`k = κ/2`) -/
noncomputable def k2pE1 (κ t : ℝ) : ℝ := Real.exp (-(2 * (1 / 2 * κ) + 1) / (1 / 2 * κ + 1) * t)
noncomputable def k2pE2 (κ t : ℝ) : ℝ := Real.exp (-2 / (1 / 2 * κ + 1) * t)

/-- the textbook K80 rate matrix: transitions `κ` times as fast as transversions, mean rate one -/
noncomputable def k2pQ (κ : ℝ) : Matrix (Fin 4) (Fin 4) ℝ := specQ 4 (exK2P κ) fun _ => (1 / 4 : ℝ)

noncomputable def k2pL (κ : ℝ) : Matrix (Fin 4) (Fin 4) ℝ :=
  matOfList 4 (K2PModel_Eigens (α := ℝ) (m_kappa := K2PModel_InitModel κ)).leftvectors
noncomputable def k2pR (κ : ℝ) : Matrix (Fin 4) (Fin 4) ℝ :=
  matOfList 4 (K2PModel_Eigens (α := ℝ) (m_kappa := K2PModel_InitModel κ)).rightvectors
noncomputable def k2pD (κ : ℝ) : Fin 4 → ℝ :=
  vecOfList 4 (K2PModel_Eigens (α := ℝ) (m_kappa := K2PModel_InitModel κ)).val

theorem k2pP_apply (κ t : ℝ) (i j : Fin 4) :
    k2pP κ t i j =
      if isTransition i.val j.val then 1 / 4 - 1 / 2 * k2pE1 κ t + 1 / 4 * k2pE2 κ t
      else if i = j then 1 / 4 + 1 / 2 * k2pE1 κ t + 1 / 4 * k2pE2 κ t
      else 1 / 4 - 1 / 4 * k2pE2 κ t := by
  fin_cases i <;> fin_cases j <;>
    simp [k2pP, K2PModel_Pij, K2PModel_InitModel, isTransition, k2pE1, k2pE2] <;> ring

theorem k2p_rows_sum_one (κ t : ℝ) (i : Fin 4) : ∑ j, k2pP κ t i j = 1 := by
  rw [Fin.sum_univ_four]; simp only [k2pP_apply]
  fin_cases i <;> simp [isTransition] <;> ring

private theorem k2p_exp_facts (κ t : ℝ) (hκ : 0 < κ) (ht : 0 ≤ t) :
    0 < k2pE1 κ t ∧ k2pE1 κ t ≤ 1 ∧ 0 < k2pE2 κ t ∧ k2pE2 κ t ≤ 1 ∧ 2 * k2pE1 κ t ≤ 1 + k2pE2 κ t := by
  have hk : 0 < 1 / 2 * κ + 1 := by positivity
  refine ⟨Real.exp_pos _, ?_, Real.exp_pos _, ?_, ?_⟩
  · apply Real.exp_le_one_iff.mpr
    have : 0 ≤ (2 * (1 / 2 * κ) + 1) / (1 / 2 * κ + 1) := by positivity
    have h2 : -(2 * (1 / 2 * κ) + 1) / (1 / 2 * κ + 1) = -((2 * (1 / 2 * κ) + 1) / (1 / 2 * κ + 1)) := by ring
    rw [h2]; nlinarith
  · apply Real.exp_le_one_iff.mpr
    have : 0 ≤ 2 / (1 / 2 * κ + 1) := by positivity
    have h2 : -2 / (1 / 2 * κ + 1) = -(2 / (1 / 2 * κ + 1)) := by ring
    rw [h2]; nlinarith
  · -- x = exp(-(1/(k+1)) t): e2 = x², e1 ≤ x, and 2x ≤ 1 + x²
    set x := Real.exp (-1 / (1 / 2 * κ + 1) * t) with hx
    have he2 : k2pE2 κ t = x * x := by
      rw [hx, k2pE2, ← Real.exp_add]; congr 1; ring
    have he1 : k2pE1 κ t ≤ x := by
      rw [hx, k2pE1]
      apply Real.exp_le_exp.mpr
      have : -(2 * (1 / 2 * κ) + 1) / (1 / 2 * κ + 1) ≤ -1 / (1 / 2 * κ + 1) := by
        apply div_le_div_of_nonneg_right _ hk.le
        linarith
      exact mul_le_mul_of_nonneg_right this ht
    rw [he2]; nlinarith [sq_nonneg (x - 1)]

theorem k2p_entries_in_unit_interval (κ t : ℝ) (hκ : 0 < κ) (ht : 0 ≤ t) (i j : Fin 4) :
    0 ≤ k2pP κ t i j ∧ k2pP κ t i j ≤ 1 := by
  obtain ⟨h1, h2, h3, h4, h5⟩ := k2p_exp_facts κ t hκ ht
  rw [k2pP_apply]
  split
  · constructor <;> linarith
  · split <;> constructor <;> linarith

theorem k2p_P_zero_eq_id (κ : ℝ) : k2pP κ 0 = 1 := by
  ext i j
  rw [k2pP_apply, Matrix.one_apply]
  fin_cases i <;> fin_cases j <;> simp [isTransition, k2pE1, k2pE2] <;> norm_num

theorem k2p_semigroup (κ s t : ℝ) : k2pP κ (s + t) = k2pP κ s * k2pP κ t := by
  ext i j
  rw [Matrix.mul_apply, Fin.sum_univ_four]
  simp only [k2pP_apply]
  have h1 : k2pE1 κ (s + t) = k2pE1 κ s * k2pE1 κ t := by
    simp only [k2pE1]; rw [mul_add, Real.exp_add]
  have h2 : k2pE2 κ (s + t) = k2pE2 κ s * k2pE2 κ t := by
    simp only [k2pE2]; rw [mul_add, Real.exp_add]
  rw [h1, h2]
  fin_cases i <;> fin_cases j <;> simp [isTransition] <;> ring

theorem k2p_detailed_balance (κ t : ℝ) (i j : Fin 4) :
    (1 / 4 : ℝ) * k2pP κ t i j = (1 / 4 : ℝ) * k2pP κ t j i := by
  rw [k2pP_apply, k2pP_apply]
  fin_cases i <;> fin_cases j <;> simp [isTransition]

theorem k2p_limit_is_stationary (κ : ℝ) (hκ : 0 < κ) (i j : Fin 4) :
    Tendsto (fun t => k2pP κ t i j) atTop (𝓝 (1 / 4)) := by
  have hk : 0 < 1 / 2 * κ + 1 := by positivity
  have he1 : Tendsto (fun t : ℝ => k2pE1 κ t) atTop (𝓝 0) := by
    unfold k2pE1
    refine Real.tendsto_exp_atBot.comp (tendsto_id.const_mul_atTop_of_neg ?_)
    apply div_neg_of_neg_of_pos _ hk; linarith
  have he2 : Tendsto (fun t : ℝ => k2pE2 κ t) atTop (𝓝 0) := by
    unfold k2pE2
    refine Real.tendsto_exp_atBot.comp (tendsto_id.const_mul_atTop_of_neg ?_)
    apply div_neg_of_neg_of_pos _ hk; norm_num
  simp only [k2pP_apply]
  split
  · have := ((he1.const_mul (1 / 2)).const_sub (1 / 4)).add (he2.const_mul (1 / 4)); simpa using this
  · split
    · have := ((he1.const_mul (1 / 2)).const_add (1 / 4)).add (he2.const_mul (1 / 4)); simpa using this
    · have := (he2.const_mul (1 / 4)).const_sub (1 / 4); simpa using this

theorem k2pQ_apply (κ : ℝ) (hκ : 0 < κ) (i j : Fin 4) :
    k2pQ κ i j = if i = j then -1 else if isTransition i.val j.val then κ / (κ + 2) else 1 / (κ + 2) := by
  have h : κ + 2 ≠ 0 := by positivity
  fin_cases i <;> fin_cases j <;>
    simp [k2pQ, specQ, textbookQ, normalise, rowOut, meanRate, sumTo_four, exK2P, isTransition] <;>
    field_simp <;> ring

theorem k2p_eigen_LR (κ : ℝ) : k2pL κ * k2pR κ = 1 := by
  ext i j
  rw [Matrix.mul_apply, Fin.sum_univ_four]
  fin_cases i <;> fin_cases j <;> simp [k2pL, k2pR, K2PModel_Eigens] <;> norm_num

theorem k2p_eigen_RDL (κ : ℝ) (hκ : 0 < κ) : k2pR κ * diagonal (k2pD κ) * k2pL κ = k2pQ κ := by
  have h : κ + 2 ≠ 0 := by positivity
  ext i j
  rw [Matrix.mul_apply, Fin.sum_univ_four]
  simp only [Matrix.mul_diagonal, k2pQ_apply κ hκ]
  fin_cases i <;> fin_cases j <;>
    simp [k2pL, k2pR, k2pD, vecOfList, K2PModel_Eigens, K2PModel_InitModel, isTransition] <;>
    field_simp <;> ring

/-- analytical formula = eigen-decomposition based value -/
theorem k2p_analytic_eq_eigen (κ t : ℝ) (hκ : 0 < κ) :
    k2pP κ t = MatrixExp.assembly (k2pR κ) (k2pL κ) (k2pD κ) t := by
  have h : κ + 2 ≠ 0 := by positivity
  have h' : 1 / 2 * κ + 1 ≠ 0 := by positivity
  have e1 : k2pE1 κ t = Real.exp (-2 * (1 + κ) / (κ + 2) * t) := by
    unfold k2pE1; congr 1; field_simp; ring
  have e2 : k2pE2 κ t = Real.exp (-4 / (κ + 2) * t) := by
    unfold k2pE2; congr 1; field_simp; ring
  ext i j
  rw [MatrixExp.assembly_apply, Fin.sum_univ_four, k2pP_apply, e1, e2]
  fin_cases i <;> fin_cases j <;>
    simp [k2pL, k2pR, k2pD, vecOfList, K2PModel_Eigens, K2PModel_InitModel, isTransition] <;> ring

/-- the regenerated closed form equals the matrix exponential of the textbook rate matrix -/
theorem k2p_eq_exp_of_rate_matrix (κ t : ℝ) (hκ : 0 < κ) : k2pP κ t = NormedSpace.exp (t • k2pQ κ) := by
  rw [k2p_analytic_eq_eigen κ t hκ]
  exact MatrixExp.eigen_assembly_eq_exp (k2p_eigen_LR κ) (k2p_eigen_RDL κ hκ) t

/-! ## F84 (`models/dna/f84.go`): closed-form eigen-system, symbolic in κ and π -/

/-- `F84Model.InitModel(κ, πA, πC, πG, πT)` followed by `Eigens()`, as regenerated -/
noncomputable def f84Eig (κ a c g t : ℝ) : F84Model_Eigens_Out ℝ :=
  let f := F84Model_InitModel (α := ℝ) κ a c g t
  F84Model_Eigens (m_kappa := f.m_kappa) (m_piA := f.m_piA) (m_piC := f.m_piC) (m_piG := f.m_piG) (m_piT := f.m_piT)

noncomputable def f84L (κ a c g t : ℝ) : Matrix (Fin 4) (Fin 4) ℝ := matOfList 4 (f84Eig κ a c g t).leftvectors
noncomputable def f84R (κ a c g t : ℝ) : Matrix (Fin 4) (Fin 4) ℝ := matOfList 4 (f84Eig κ a c g t).rightvectors
noncomputable def f84D (κ a c g t : ℝ) : Fin 4 → ℝ := vecOfList 4 (f84Eig κ a c g t).val

/-- the textbook F84 rate matrix (mean rate one) -/
noncomputable def f84Q (κ a c g t : ℝ) : Matrix (Fin 4) (Fin 4) ℝ :=
  specQ 4 (exF84 κ (a + g) (c + t)) (pi4 a c g t)

/-- what `SetLength` assembles from the F84 eigen-system (before the positivity floor) -/
noncomputable def f84P (κ a c g t x : ℝ) : Matrix (Fin 4) (Fin 4) ℝ :=
  MatrixExp.assembly (f84R κ a c g t) (f84L κ a c g t) (f84D κ a c g t) x

theorem f84_eigen_LR (κ a c g t : ℝ) (ha : 0 < a) (hc : 0 < c) (hg : 0 < g) (ht : 0 < t)
    (hsum : a + c + g + t = 1) : f84L κ a c g t * f84R κ a c g t = 1 := by
  obtain rfl : t = 1 - a - c - g := by linarith
  have hY : 1 - a - c - g + c ≠ 0 := ne_of_gt (by linarith)
  have hR : a + g ≠ 0 := by positivity
  have hT : 1 - a - c - g ≠ 0 := ht.ne'
  ext i j
  rw [Matrix.mul_apply, Fin.sum_univ_four]
  fin_cases i <;> fin_cases j <;>
    simp [f84L, f84R, f84Eig, F84Model_Eigens, F84Model_InitModel] <;> field_simp <;> ring

private theorem f84_sumsq (a c g t : ℝ) (ha : 0 < a) (hc : 0 < c) (hg : 0 < g) (ht : 0 < t)
    (hsum : a + c + g + t = 1) : 0 < 1 - a ^ 2 - c ^ 2 - g ^ 2 - t ^ 2 := by
  have h : (a + c + g + t) * (a + c + g + t) = 1 := by rw [hsum]; ring
  have : 1 - a ^ 2 - c ^ 2 - g ^ 2 - t ^ 2 = 2 * (a * c + a * g + a * t + c * g + c * t + g * t) := by
    nlinarith [h]
  rw [this]; positivity

/-- the regenerated F84 eigen-system diagonalises the textbook F84 rate matrix -/
theorem f84_eigen_RDL (κ a c g t : ℝ) (hκ : 0 ≤ κ) (ha : 0 < a) (hc : 0 < c) (hg : 0 < g) (ht : 0 < t)
    (hsum : a + c + g + t = 1) :
    f84R κ a c g t * diagonal (f84D κ a c g t) * f84L κ a c g t = f84Q κ a c g t := by
  have hY : 0 < t + c := by positivity
  have hY' : c + t ≠ 0 := by positivity
  have hR : 0 < a + g := by positivity
  have hs := f84_sumsq a c g t ha hc hg ht hsum
  have hn2 : (1 - a ^ 2 - c ^ 2 - g ^ 2 - t ^ 2) * (t + c) * (a + g) +
      2 * κ * (c * t * (a + g) + a * g * (t + c)) ≠ 0 :=
    ne_of_gt (add_pos_of_pos_of_nonneg (mul_pos (mul_pos hs hY) hR) (by positivity))
  have hYn := hY.ne'
  have hRn := hR.ne'
  have ht' : t = 1 - a - c - g := by linarith
  ext i j
  rw [Matrix.mul_apply, Fin.sum_univ_four]
  simp only [Matrix.mul_diagonal]
  fin_cases i <;> fin_cases j <;>
    simp [f84L, f84R, f84D, f84Q, specQ, f84Eig, vecOfList, F84Model_Eigens, F84Model_InitModel, textbookQ,
      normalise_pi4 a c g t hsum, rowOut, meanRate, sumTo_four, exF84, isTransition, isPurine, pi4] <;>
    field_simp <;> (subst ht'; ring)

private theorem pi4_pos (a c g t : ℝ) (ha : 0 < a) (hc : 0 < c) (hg : 0 < g) (ht : 0 < t) (i : Fin 4) :
    0 < pi4 a c g t i.val := by
  fin_cases i <;> simp [pi4, ha, hc, hg, ht]

private theorem exF84_symm (κ r y : ℝ) (i j : Fin 4) : exF84 κ r y i.val j.val = exF84 κ r y j.val i.val := by
  fin_cases i <;> fin_cases j <;> simp [exF84, isTransition, isPurine]

private theorem f84Q_facts (κ a c g t : ℝ) (hκ : 0 ≤ κ) (ha : 0 < a) (hc : 0 < c) (hg : 0 < g) (ht : 0 < t)
    (hsum : a + c + g + t = 1) :
    (∀ i, ∑ j, f84Q κ a c g t i j = 0) ∧ (∀ i j, i ≠ j → 0 ≤ f84Q κ a c g t i j) ∧
    (∀ i j : Fin 4, pi4 a c g t i.val * f84Q κ a c g t i j = pi4 a c g t j.val * f84Q κ a c g t j i) := by
  refine ⟨fun i => specQ_rows_sum_zero _ _ _ i, ?_, fun i j => specQ_reversible' _ _ _ (exF84_symm κ _ _) i j⟩
  have hR : 0 < a + g := by positivity
  have hY : 0 < c + t := by positivity
  have hs : ∀ i j : Fin 4, 0 ≤ exF84 κ (a + g) (c + t) i.val j.val := by
    intro i j; fin_cases i <;> fin_cases j <;> simp [exF84, isTransition, isPurine] <;> positivity
  have hp : ∀ i : Fin 4, 0 ≤ normalise 4 (pi4 a c g t) i.val := by
    intro i; rw [normalise_pi4 a c g t hsum]; exact (pi4_pos a c g t ha hc hg ht i).le
  have hmr : 0 < meanRate 4 (exF84 κ (a + g) (c + t)) (normalise 4 (pi4 a c g t)) := by
    simp [meanRate, rowOut, sumTo_four, normalise_pi4 a c g t hsum, exF84, isTransition, isPurine, pi4]
    positivity
  exact fun i j h => specQ_offdiag_nonneg _ _ _ hs hp hmr i j h

/-- **F84**: the matrix assembled from the regenerated closed-form eigen-system is `exp(t·Q)` for the
textbook F84 rate matrix, `P(0) = I`, semigroup, rows sum to one, entries in `[0,1]` for `t ≥ 0`, detailed
balance with respect to `π`. -/
theorem f84_laws (κ a c g t : ℝ) (hκ : 0 ≤ κ) (ha : 0 < a) (hc : 0 < c) (hg : 0 < g) (ht : 0 < t)
    (hsum : a + c + g + t = 1) :
    (∀ x, f84P κ a c g t x = NormedSpace.exp (x • f84Q κ a c g t)) ∧
    f84P κ a c g t 0 = 1 ∧
    (∀ x y, f84P κ a c g t (x + y) = f84P κ a c g t x * f84P κ a c g t y) ∧
    (∀ x i, ∑ j, f84P κ a c g t x i j = 1) ∧
    (∀ x, 0 ≤ x → ∀ i j, 0 ≤ f84P κ a c g t x i j ∧ f84P κ a c g t x i j ≤ 1) ∧
    (∀ x (i j : Fin 4), pi4 a c g t i.val * f84P κ a c g t x i j = pi4 a c g t j.val * f84P κ a c g t x j i) := by
  obtain ⟨h1, h2, h3⟩ := f84Q_facts κ a c g t hκ ha hc hg ht hsum
  exact eigen_assembly_laws (π := fun i : Fin 4 => pi4 a c g t i.val)
    (f84_eigen_LR κ a c g t ha hc hg ht hsum) (f84_eigen_RDL κ a c g t hκ ha hc hg ht hsum)
    h1 h2 (pi4_pos a c g t ha hc hg ht) h3

/-- **F84**: convergence to the stationary frequencies -/
theorem f84_limit_is_stationary (κ a c g t : ℝ) (hκ : 0 ≤ κ) (ha : 0 < a) (hc : 0 < c) (hg : 0 < g) (ht : 0 < t)
    (hsum : a + c + g + t = 1) (i j : Fin 4) :
    Tendsto (fun x => f84P κ a c g t x i j) atTop (𝓝 (pi4 a c g t j.val)) := by
  obtain ⟨h1, _, h3⟩ := f84Q_facts κ a c g t hκ ha hc hg ht hsum
  have hs := f84_sumsq a c g t ha hc hg ht hsum
  have hN : 0 < 1 - a * a - c * c - g * g - t * t + 2 * κ * (c * t / (t + c) + a * g / (a + g)) := by
    have : 0 ≤ 2 * κ * (c * t / (t + c) + a * g / (a + g)) := by positivity
    nlinarith [hs]
  have hlim := MatrixExp.assembly_tendsto_stationary (π := fun i : Fin 4 => pi4 a c g t i.val)
    (f84_eigen_LR κ a c g t ha hc hg ht hsum) (f84_eigen_RDL κ a c g t hκ ha hc hg ht hsum)
    h1 (pi4_pos a c g t ha hc hg ht) h3 (0 : Fin 4)
    (by simp [f84D, vecOfList, f84Eig, F84Model_Eigens])
    (by
      intro k hk
      have hinv : 0 < (1 - a * a - c * c - g * g - t * t + 2 * κ * (c * t / (t + c) + a * g / (a + g)))⁻¹ :=
        inv_pos.mpr hN
      have hinv2 := mul_pos hinv (by linarith : (0 : ℝ) < 1 + κ)
      fin_cases k
      · exact absurd rfl hk
      all_goals
        simp [f84D, vecOfList, f84Eig, F84Model_Eigens, F84Model_InitModel]
        linarith [hinv, hinv2])
    i j
  have hsum' : ∑ a' : Fin 4, pi4 a c g t a'.val = 1 := by
    rw [Fin.sum_univ_four]; simp [pi4]; linarith
  rw [hsum', div_one] at hlim
  exact hlim

/-! ## F81, TN93, GTR (`models/dna/{f81,tn93,gtr}.go`): rate-matrix construction and normalisation -/

/-- the rate matrix stored by `F81Model.InitModel`, as regenerated -/
noncomputable def f81Q (a c g t : ℝ) : Matrix (Fin 4) (Fin 4) ℝ := matOfList 4 (F81Model_InitModel (α := ℝ) a c g t)
/-- the rate matrix stored by `TN93Model.InitModel`, as regenerated -/
noncomputable def tn93Q (κ1 κ2 a c g t : ℝ) : Matrix (Fin 4) (Fin 4) ℝ :=
  matOfList 4 (TN93Model_InitModel (α := ℝ) κ1 κ2 a c g t)
/-- the rate matrix stored by `GTRModel.InitModel` (argument order `d, f, b, e, a, c`), as regenerated -/
noncomputable def gtrQ (d f b e a' c' a c g t : ℝ) : Matrix (Fin 4) (Fin 4) ℝ :=
  matOfList 4 (GTRModel_InitModel (α := ℝ) d f b e a' c' a c g t)

theorem f81_Q_eq_textbook (a c g t : ℝ) (ha : 0 < a) (hc : 0 < c) (hg : 0 < g) (ht : 0 < t)
    (hsum : a + c + g + t = 1) : f81Q a c g t = specQ 4 exF81 (pi4 a c g t) := by
  have hn : a * (c + g + t) + c * (a + g + t) + g * (a + c + t) + t * (a + c + g) ≠ 0 := by positivity
  ext i j
  fin_cases i <;> fin_cases j <;>
    simp [f81Q, F81Model_InitModel, specQ, textbookQ, normalise_pi4 a c g t hsum, rowOut, meanRate, sumTo_four,
      exF81, pi4] <;>
    (rw [div_eq_div_iff] <;> first | ring1 | (intro h; exact hn (by linear_combination h)))

theorem tn93_Q_eq_textbook (κ1 κ2 a c g t : ℝ) (h1 : 0 < κ1) (h2 : 0 < κ2)
    (ha : 0 < a) (hc : 0 < c) (hg : 0 < g) (ht : 0 < t) (hsum : a + c + g + t = 1) :
    tn93Q κ1 κ2 a c g t = specQ 4 (exTN93 κ1 κ2) (pi4 a c g t) := by
  have hn : a * (c + κ1 * g + t) + c * (a + g + κ2 * t) + g * (κ1 * a + c + t) + t * (a + κ2 * c + g) ≠ 0 := by
    positivity
  ext i j
  fin_cases i <;> fin_cases j <;>
    simp [tn93Q, TN93Model_InitModel, specQ, textbookQ, normalise_pi4 a c g t hsum, rowOut, meanRate, sumTo_four,
      exTN93, isTransition, isPurine, pi4] <;>
    (rw [div_eq_div_iff] <;> first | ring1 | (intro h; exact hn (by linear_combination h)))

theorem gtr_Q_eq_textbook (d f b e a' c' a c g t : ℝ) (hd : 0 < d) (hf : 0 < f) (hb : 0 < b) (he : 0 < e)
    (ha' : 0 < a') (hc' : 0 < c') (ha : 0 < a) (hc : 0 < c) (hg : 0 < g) (ht : 0 < t) (hsum : a + c + g + t = 1) :
    gtrQ d f b e a' c' a c g t = specQ 4 (exGTR d f b e a' c') (pi4 a c g t) := by
  have hn : a * (d * c + f * g + b * t) + c * (d * a + e * g + a' * t) + g * (f * a + e * c + c' * t)
      + t * (b * a + a' * c + c' * g) ≠ 0 := by positivity
  ext i j
  fin_cases i <;> fin_cases j <;>
    simp [gtrQ, GTRModel_InitModel, specQ, textbookQ, normalise_pi4 a c g t hsum, rowOut, meanRate, sumTo_four,
      exGTR, pi4] <;>
    (rw [div_eq_div_iff] <;> first | ring1 | (intro h; exact hn (by linear_combination h)))

/-- **GTR** (hence F81 and TN93, which are instances — see `f81_is_gtr`, `tn93_is_gtr`), directly on the
regenerated construction and without assuming `Σπ = 1`: rows sum to zero, detailed balance
`π_i q_ij = π_j q_ji`, and mean rate one `−Σ π_i q_ii = 1`. -/
theorem gtr_Q_rows_reversible_meanrate (d f b e a' c' a c g t : ℝ) (hd : 0 < d) (hf : 0 < f) (hb : 0 < b)
    (he : 0 < e) (ha' : 0 < a') (hc' : 0 < c') (ha : 0 < a) (hc : 0 < c) (hg : 0 < g) (ht : 0 < t) :
    (∀ i, ∑ j, gtrQ d f b e a' c' a c g t i j = 0) ∧
    (∀ i j : Fin 4, pi4 a c g t i.val * gtrQ d f b e a' c' a c g t i j =
      pi4 a c g t j.val * gtrQ d f b e a' c' a c g t j i) ∧
    -∑ i : Fin 4, pi4 a c g t i.val * gtrQ d f b e a' c' a c g t i i = 1 := by
  have hn : a * (d * c + f * g + b * t) + c * (d * a + e * g + a' * t) + g * (f * a + e * c + c' * t)
      + t * (b * a + a' * c + c' * g) ≠ 0 := by positivity
  refine ⟨?_, ?_, ?_⟩
  · intro i
    rw [Fin.sum_univ_four]
    fin_cases i <;> simp [gtrQ, GTRModel_InitModel] <;>
      (rw [← add_div, ← add_div, ← add_div, div_eq_zero_iff]; left; ring)
  · intro i j
    fin_cases i <;> fin_cases j <;> simp [gtrQ, GTRModel_InitModel, pi4] <;> ring
  · rw [Fin.sum_univ_four]
    simp [gtrQ, GTRModel_InitModel, pi4]
    simp only [mul_div_assoc', ← add_div, neg_div']
    rw [div_eq_iff]
    · ring
    · intro h; exact hn (by linear_combination h)

/-- `F81Model.InitModel(π)` builds the same matrix as `GTRModel.InitModel` with all six rates `1` -/
theorem f81_is_gtr (a c g t : ℝ) : f81Q a c g t = gtrQ 1 1 1 1 1 1 a c g t := by
  ext i j
  fin_cases i <;> fin_cases j <;> simp [f81Q, gtrQ, F81Model_InitModel, GTRModel_InitModel] <;> ring

/-- `TN93Model.InitModel(κ1, κ2, π)` builds the same matrix as `GTRModel.InitModel(1, κ1, 1, 1, κ2, 1, π)` -/
theorem tn93_is_gtr (κ1 κ2 a c g t : ℝ) : tn93Q κ1 κ2 a c g t = gtrQ 1 κ1 1 1 κ2 1 a c g t := by
  ext i j
  fin_cases i <;> fin_cases j <;> simp [tn93Q, gtrQ, TN93Model_InitModel, GTRModel_InitModel] <;> ring

private theorem exGTR_symm (d f b e a' c' : ℝ) (i j : Fin 4) :
    exGTR d f b e a' c' i.val j.val = exGTR d f b e a' c' j.val i.val := by
  fin_cases i <;> fin_cases j <;> simp [exGTR]

/-- **GTR, conditional on the numeric eigen-system** (gonum `Eigen` + `Inverse` are an external call;
that their output satisfies `L·R = 1` and `R·D·L = Q` is measured at run time, not proved): then the `P(t)`
assembled by `SetLength` is `exp(t·Q)` of the textbook GTR rate matrix and satisfies every law. -/
theorem gtr_laws_of_eigen_system (d f b e a' c' a c g t : ℝ) (hd : 0 < d) (hf : 0 < f) (hb : 0 < b)
    (he : 0 < e) (ha' : 0 < a') (hc' : 0 < c') (ha : 0 < a) (hc : 0 < c) (hg : 0 < g) (ht : 0 < t)
    (hsum : a + c + g + t = 1)
    (L R : Matrix (Fin 4) (Fin 4) ℝ) (ev : Fin 4 → ℝ)
    (hLR : L * R = 1) (hRDL : R * diagonal ev * L = gtrQ d f b e a' c' a c g t) :
    (∀ x, MatrixExp.assembly R L ev x = NormedSpace.exp (x • specQ 4 (exGTR d f b e a' c') (pi4 a c g t))) ∧
    MatrixExp.assembly R L ev 0 = 1 ∧
    (∀ x y, MatrixExp.assembly R L ev (x + y) = MatrixExp.assembly R L ev x * MatrixExp.assembly R L ev y) ∧
    (∀ x i, ∑ j, MatrixExp.assembly R L ev x i j = 1) ∧
    (∀ x, 0 ≤ x → ∀ i j, 0 ≤ MatrixExp.assembly R L ev x i j ∧ MatrixExp.assembly R L ev x i j ≤ 1) ∧
    (∀ x (i j : Fin 4), pi4 a c g t i.val * MatrixExp.assembly R L ev x i j =
      pi4 a c g t j.val * MatrixExp.assembly R L ev x j i) := by
  rw [gtr_Q_eq_textbook d f b e a' c' a c g t hd hf hb he ha' hc' ha hc hg ht hsum] at hRDL
  have hs : ∀ i j : Fin 4, 0 ≤ exGTR d f b e a' c' i.val j.val := by
    intro i j; fin_cases i <;> fin_cases j <;> simp [exGTR] <;> positivity
  have hp : ∀ i : Fin 4, 0 ≤ normalise 4 (pi4 a c g t) i.val := by
    intro i; rw [normalise_pi4 a c g t hsum]; exact (pi4_pos a c g t ha hc hg ht i).le
  have hmr : 0 < meanRate 4 (exGTR d f b e a' c') (normalise 4 (pi4 a c g t)) := by
    simp [meanRate, rowOut, sumTo_four, normalise_pi4 a c g t hsum, exGTR, pi4]
    positivity
  exact eigen_assembly_laws (π := fun i : Fin 4 => pi4 a c g t i.val) hLR hRDL
    (fun i => specQ_rows_sum_zero _ _ _ i) (fun i j h => specQ_offdiag_nonneg _ _ _ hs hp hmr i j h)
    (pi4_pos a c g t ha hc hg ht) (fun i j => specQ_reversible' _ _ _ (exGTR_symm d f b e a' c') i j)

/-- **F81, conditional on the numeric eigen-system** -/
theorem f81_laws_of_eigen_system (a c g t : ℝ) (ha : 0 < a) (hc : 0 < c) (hg : 0 < g) (ht : 0 < t)
    (hsum : a + c + g + t = 1) (L R : Matrix (Fin 4) (Fin 4) ℝ) (ev : Fin 4 → ℝ)
    (hLR : L * R = 1) (hRDL : R * diagonal ev * L = f81Q a c g t) :
    (∀ x, MatrixExp.assembly R L ev x = NormedSpace.exp (x • specQ 4 exF81 (pi4 a c g t))) ∧
    MatrixExp.assembly R L ev 0 = 1 ∧
    (∀ x y, MatrixExp.assembly R L ev (x + y) = MatrixExp.assembly R L ev x * MatrixExp.assembly R L ev y) ∧
    (∀ x i, ∑ j, MatrixExp.assembly R L ev x i j = 1) ∧
    (∀ x, 0 ≤ x → ∀ i j, 0 ≤ MatrixExp.assembly R L ev x i j ∧ MatrixExp.assembly R L ev x i j ≤ 1) ∧
    (∀ x (i j : Fin 4), pi4 a c g t i.val * MatrixExp.assembly R L ev x i j =
      pi4 a c g t j.val * MatrixExp.assembly R L ev x j i) := by
  have h := gtr_laws_of_eigen_system 1 1 1 1 1 1 a c g t one_pos one_pos one_pos one_pos one_pos one_pos
    ha hc hg ht hsum L R ev hLR (by rw [← f81_is_gtr]; exact hRDL)
  rw [← gtr_Q_eq_textbook 1 1 1 1 1 1 a c g t one_pos one_pos one_pos one_pos one_pos one_pos ha hc hg ht hsum,
    ← f81_is_gtr, f81_Q_eq_textbook a c g t ha hc hg ht hsum] at h
  exact h

/-- **TN93, conditional on the numeric eigen-system** -/
theorem tn93_laws_of_eigen_system (κ1 κ2 a c g t : ℝ) (h1 : 0 < κ1) (h2 : 0 < κ2)
    (ha : 0 < a) (hc : 0 < c) (hg : 0 < g) (ht : 0 < t)
    (hsum : a + c + g + t = 1) (L R : Matrix (Fin 4) (Fin 4) ℝ) (ev : Fin 4 → ℝ)
    (hLR : L * R = 1) (hRDL : R * diagonal ev * L = tn93Q κ1 κ2 a c g t) :
    (∀ x, MatrixExp.assembly R L ev x = NormedSpace.exp (x • specQ 4 (exTN93 κ1 κ2) (pi4 a c g t))) ∧
    MatrixExp.assembly R L ev 0 = 1 ∧
    (∀ x y, MatrixExp.assembly R L ev (x + y) = MatrixExp.assembly R L ev x * MatrixExp.assembly R L ev y) ∧
    (∀ x i, ∑ j, MatrixExp.assembly R L ev x i j = 1) ∧
    (∀ x, 0 ≤ x → ∀ i j, 0 ≤ MatrixExp.assembly R L ev x i j ∧ MatrixExp.assembly R L ev x i j ≤ 1) ∧
    (∀ x (i j : Fin 4), pi4 a c g t i.val * MatrixExp.assembly R L ev x i j =
      pi4 a c g t j.val * MatrixExp.assembly R L ev x j i) := by
  have h := gtr_laws_of_eigen_system 1 κ1 1 1 κ2 1 a c g t one_pos h1 one_pos one_pos h2 one_pos
    ha hc hg ht hsum L R ev hLR (by rw [← tn93_is_gtr]; exact hRDL)
  rw [← gtr_Q_eq_textbook 1 κ1 1 1 κ2 1 a c g t one_pos h1 one_pos one_pos h2 one_pos ha hc hg ht hsum,
    ← tn93_is_gtr, tn93_Q_eq_textbook κ1 κ2 a c g t h1 h2 ha hc hg ht hsum] at h
  exact h

/-! ## protein models (`models/protein/model.go`, `matrices.go`) -/

section protein
open Gv.Model.ProtModel (initModel ofRat)
variable (ns : ℕ) (S : ℕ → ℕ → ℝ) (tpi : ℕ → ℝ) (user : Option (ℕ → ℝ))

/-- the rate matrix stored by the model of `ProtModel.InitModel` -/
noncomputable def protQ : Matrix (Fin ns) (Fin ns) ℝ := matOfFn ns (initModel ns S tpi user).q

/-- the frequencies in force (`model.pi`: the user's when given, else the table's) -/
noncomputable def protPi : ℕ → ℝ := (initModel ns S tpi user).pi

theorem protQ_apply (i j : Fin ns) :
    protQ ns S tpi user i j =
      (if i = j then -(∑ k : Fin ns, S i.val k.val * protPi ns S tpi user k.val / 100)
       else S i.val j.val * protPi ns S tpi user j.val / 100) /
      (∑ a : Fin ns, protPi ns S tpi user a.val * ∑ k : Fin ns, S a.val k.val * protPi ns S tpi user k.val / 100) := by
  cases user <;>
    simp [protQ, protPi, initModel, sumTo_eq_sum_fin, Fin.val_inj]

/-- rows sum to zero, provided the exchangeability table has a zero diagonal -/
theorem prot_Q_rows_sum_zero (hdiag : ∀ i : Fin ns, S i.val i.val = 0) (i : Fin ns) :
    ∑ j, protQ ns S tpi user i j = 0 := by
  simp only [protQ_apply]
  rw [← Finset.sum_div]
  generalize protPi ns S tpi user = p
  have h : ∀ j : Fin ns, (if i = j then -(∑ k : Fin ns, S i.val k.val * p k.val / 100) else S i.val j.val * p j.val / 100)
      = (if i = j then -(∑ k : Fin ns, S i.val k.val * p k.val / 100) else 0) + S i.val j.val * p j.val / 100 := by
    intro j; by_cases hij : i = j
    · subst hij; simp [hdiag]
    · simp [hij]
  rw [Finset.sum_congr rfl fun j _ => h j, Finset.sum_add_distrib]
  simp

/-- reversibility with respect to the frequencies in force, for a symmetric table -/
theorem prot_Q_reversible (hsym : ∀ i j : Fin ns, S i.val j.val = S j.val i.val) (i j : Fin ns) :
    protPi ns S tpi user i.val * protQ ns S tpi user i j = protPi ns S tpi user j.val * protQ ns S tpi user j i := by
  by_cases h : i = j
  · subst h; rfl
  · simp only [protQ_apply, h, Ne.symm h, if_false, hsym i j]; ring

/-- `−Σ π_i q_ii = 1`: one substitution per unit time *with respect to the weights `model.pi`* (which are a
probability vector only if they sum to one — the regenerated tables do so only up to 1e-6, see the known
finding `prot-table-frequencies-not-normalised`) -/
theorem prot_mean_rate_one
    (hmr : (∑ a : Fin ns, protPi ns S tpi user a.val * ∑ k : Fin ns, S a.val k.val * protPi ns S tpi user k.val / 100) ≠ 0) :
    -∑ i : Fin ns, protPi ns S tpi user i.val * protQ ns S tpi user i i = 1 := by
  simp only [protQ_apply, if_true]
  rw [← Finset.sum_neg_distrib]
  generalize protPi ns S tpi user = p at hmr ⊢
  have : ∀ i : Fin ns, -(p i.val * (-(∑ k : Fin ns, S i.val k.val * p k.val / 100) /
      (∑ a : Fin ns, p a.val * ∑ k : Fin ns, S a.val k.val * p k.val / 100)))
      = p i.val * (∑ k : Fin ns, S i.val k.val * p k.val / 100) /
        (∑ a : Fin ns, p a.val * ∑ k : Fin ns, S a.val k.val * p k.val / 100) := by
    intro i; ring
  rw [Finset.sum_congr rfl fun i _ => this i, ← Finset.sum_div, div_self hmr]

/-- the matrix built by (the model of) `InitModel` is the textbook rate matrix for the exchangeabilities
`S` and the frequencies in force, when these sum to one -/
theorem prot_Q_eq_textbook (hdiag : ∀ i : Fin ns, S i.val i.val = 0)
    (hsum : ∑ a : Fin ns, protPi ns S tpi user a.val = 1) :
    protQ ns S tpi user = specQ ns S (protPi ns S tpi user) := by
  ext i j
  rw [protQ_apply, specQ_apply]
  generalize protPi ns S tpi user = p at hsum ⊢
  have hnorm : ∀ k, normalise ns p k = p k := by
    intro k; simp [normalise, sumTo_eq_sum_fin, hsum]
  have hrow : ∀ a : Fin ns, rowOut ns S (normalise ns p) a.val = ∑ k : Fin ns, S a.val k.val * p k.val := by
    intro a
    rw [rowOut_eq]
    apply Finset.sum_congr rfl
    intro k _
    by_cases h : a.val = k.val
    · have : a = k := Fin.ext h
      subst this; simp [hdiag]
    · simp [h, hnorm]
  have hden : (∑ a : Fin ns, p a.val * ∑ k : Fin ns, S a.val k.val * p k.val / 100)
      = (∑ a : Fin ns, p a.val * ∑ k : Fin ns, S a.val k.val * p k.val) / 100 := by
    rw [Finset.sum_div]
    apply Finset.sum_congr rfl
    intro a _
    rw [← Finset.sum_div]; ring
  rw [meanRate_eq, hden]
  simp only [hrow, hnorm]
  have h100 : (100 : ℝ) ≠ 0 := by norm_num
  by_cases h : i = j
  · simp only [h, if_true]
    rw [← Finset.sum_div, ← neg_div, div_div_div_cancel_right₀ h100]
  · simp only [h, if_false]
    rw [div_div_div_cancel_right₀ h100]

/-- **protein, conditional on the numeric eigen-system** (gonum, external): for symmetric non-negative
exchangeabilities with zero diagonal, positive frequencies summing to one and a positive mean rate, any
`L`, `R`, `ev` with `L·R = 1`, `R·D·L = Q` make the assembled `P(t)` equal `exp(t·Q)` of the textbook matrix,
with every law. -/
theorem prot_laws_of_eigen_system (hdiag : ∀ i : Fin ns, S i.val i.val = 0)
    (hsym : ∀ i j : Fin ns, S i.val j.val = S j.val i.val) (hnn : ∀ i j : Fin ns, 0 ≤ S i.val j.val)
    (hpos : ∀ i : Fin ns, 0 < protPi ns S tpi user i.val)
    (hsum : ∑ a : Fin ns, protPi ns S tpi user a.val = 1)
    (hmr : 0 < meanRate ns S (normalise ns (protPi ns S tpi user)))
    (L R : Matrix (Fin ns) (Fin ns) ℝ) (ev : Fin ns → ℝ)
    (hLR : L * R = 1) (hRDL : R * diagonal ev * L = protQ ns S tpi user) :
    (∀ x, MatrixExp.assembly R L ev x = NormedSpace.exp (x • specQ ns S (protPi ns S tpi user))) ∧
    MatrixExp.assembly R L ev 0 = 1 ∧
    (∀ x y, MatrixExp.assembly R L ev (x + y) = MatrixExp.assembly R L ev x * MatrixExp.assembly R L ev y) ∧
    (∀ x i, ∑ j, MatrixExp.assembly R L ev x i j = 1) ∧
    (∀ x, 0 ≤ x → ∀ i j, 0 ≤ MatrixExp.assembly R L ev x i j ∧ MatrixExp.assembly R L ev x i j ≤ 1) ∧
    (∀ x (i j : Fin ns), protPi ns S tpi user i.val * MatrixExp.assembly R L ev x i j =
      protPi ns S tpi user j.val * MatrixExp.assembly R L ev x j i) := by
  rw [prot_Q_eq_textbook ns S tpi user hdiag hsum] at hRDL
  have hp : ∀ i : Fin ns, 0 ≤ normalise ns (protPi ns S tpi user) i.val := by
    intro i
    have : normalise ns (protPi ns S tpi user) i.val = protPi ns S tpi user i.val := by
      simp [normalise, sumTo_eq_sum_fin, hsum]
    rw [this]; exact (hpos i).le
  exact eigen_assembly_laws (π := fun i : Fin ns => protPi ns S tpi user i.val) hLR hRDL
    (fun i => specQ_rows_sum_zero _ _ _ i) (fun i j h => specQ_offdiag_nonneg _ _ _ hnn hp hmr i j h)
    hpos (fun i j => specQ_reversible' _ _ _ hsym i j)

end protein

/-! ### the regenerated tables -/

/-- exchangeability `(i, j)` of a regenerated table (20 rows of 20) -/
def tblS (m : List (List (ℕ × ℕ))) (i j : ℕ) : ℕ × ℕ := (m.getD i []).getD j (0, 1)

/-- a regenerated protein table is well formed: 20 × 20 exchangeabilities, symmetric, zero diagonal, positive
denominators; 20 positive frequencies -/
def tableOk (t : List (List (ℕ × ℕ)) × List (ℕ × ℕ)) : Bool :=
  t.1.length == 20 && t.1.all (fun r => r.length == 20) && t.2.length == 20 &&
  (List.range 20).all (fun i => (List.range i).all fun j => tblS t.1 i j == tblS t.1 j i) &&
  (List.range 20).all (fun i => (tblS t.1 i i).1 == 0) &&
  t.1.all (fun r => r.all fun e => 0 < e.2) && t.2.all (fun r => 0 < r.1 && 0 < r.2)

set_option maxRecDepth 100000 in
/-- every table selected by `NewProtModel` is well formed (kernel evaluation over the regenerated tables) -/
theorem protein_tables_ok : ∀ k < Gen.Protein.nModels, (Gen.Protein.table k).any tableOk = true := by
  decide +kernel

/-- the exchangeabilities of a regenerated table over `ℝ` -/
noncomputable def tblSReal (m : List (List (ℕ × ℕ))) : ℕ → ℕ → ℝ := fun i j => Model.ProtModel.ofRat (tblS m i j)
/-- the frequencies of a regenerated table over `ℝ` -/
noncomputable def tblPiReal (p : List (ℕ × ℕ)) : ℕ → ℝ := fun i => Model.ProtModel.ofRat (p.getD i (0, 1))

/-- **protein rate matrices**: for each of the seven regenerated tables, with the table's or any user
frequencies, the matrix built by (the model of) `InitModel` has rows summing to zero and is reversible with
respect to the frequencies in force. -/
theorem prot_tables_rate_matrix (k : ℕ) (hk : k < Gen.Protein.nModels)
    (m : List (List (ℕ × ℕ))) (p : List (ℕ × ℕ)) (htab : Gen.Protein.table k = some (m, p))
    (user : Option (ℕ → ℝ)) :
    (∀ i, ∑ j, protQ 20 (tblSReal m) (tblPiReal p) user i j = 0) ∧
    (∀ i j : Fin 20, protPi 20 (tblSReal m) (tblPiReal p) user i.val * protQ 20 (tblSReal m) (tblPiReal p) user i j =
      protPi 20 (tblSReal m) (tblPiReal p) user j.val * protQ 20 (tblSReal m) (tblPiReal p) user j i) := by
  have hok := protein_tables_ok k hk
  rw [htab] at hok
  simp only [Option.any_some, tableOk, Bool.and_eq_true, List.all_eq_true, List.mem_range, beq_iff_eq] at hok
  obtain ⟨⟨⟨⟨_, hsym⟩, hdiag⟩, _⟩, _⟩ := hok
  have hsym' : ∀ i j : Fin 20, tblSReal m i.val j.val = tblSReal m j.val i.val := by
    intro i j
    unfold tblSReal
    rcases lt_trichotomy j.val i.val with h | h | h
    · rw [hsym i.val i.isLt j.val h]
    · rw [h]
    · rw [hsym j.val j.isLt i.val h]
  have hdiag' : ∀ i : Fin 20, tblSReal m i.val i.val = 0 := by
    intro i
    have := hdiag i.val i.isLt
    simp [tblSReal, Model.ProtModel.ofRat, this]
  exact ⟨fun i => prot_Q_rows_sum_zero 20 _ _ user hdiag' i, fun i j => prot_Q_reversible 20 _ _ user hsym' i j⟩

/-! ## non-vacuity: concrete parameter points satisfy the hypotheses -/

example : (0 : ℝ) < 2 ∧ (0 : ℝ) ≤ 1 / 2 := by norm_num
/-- K2P with κ = 2 at t = 0: the transition probability A→G is 0 and A→A is 1 -/
example : k2pP 2 0 0 2 = 0 ∧ k2pP 2 0 0 0 = 1 := by
  have := k2p_P_zero_eq_id 2
  constructor <;> simp [this]
/-- the F84 / F81 / TN93 / GTR hypotheses hold at π = (1/10, 2/10, 3/10, 4/10), κ = 2 -/
example : (0 : ℝ) ≤ 2 ∧ (0 : ℝ) < 1 / 10 ∧ (0 : ℝ) < 2 / 10 ∧ (0 : ℝ) < 3 / 10 ∧ (0 : ℝ) < 4 / 10 ∧
    (1 / 10 + 2 / 10 + 3 / 10 + 4 / 10 : ℝ) = 1 := by norm_num
/-- the hypotheses of `gtr_laws_of_eigen_system` / `eigen_assembly` are satisfiable: JC's regenerated
eigen-system is an eigen-system of the GTR matrix with equal rates and uniform frequencies -/
example : jcL * jcR = 1 ∧ jcR * diagonal jcD * jcL = gtrQ 1 1 1 1 1 1 (1 / 4) (1 / 4) (1 / 4) (1 / 4) := by
  refine ⟨jc_eigen_LR, ?_⟩
  rw [jc_eigen_RDL]
  ext i j
  rw [jcQ_apply]
  fin_cases i <;> fin_cases j <;> simp [gtrQ, GTRModel_InitModel] <;> norm_num
/-- the protein table hypothesis is satisfiable: model 0 exists -/
example : ∃ m p, Gen.Protein.table 0 = some (m, p) := ⟨_, _, rfl⟩

end Gv.Props.C18
