import Gv.Proofs.DistColsOps
/-!
# C08 (first half) — nucleotide distances depend only on the multiset of weighted columns

Theorems about the Go-mirroring model of `distance/dna/distance.go` (`Model/Dist.lean`: the pair
counters, `selectedSites`, `probaNt`, `Distance` of the seven models — whose closed forms
`Gv.Gen.*Distance` are regenerated from the Go source on every run, tie T2 — and the assembly of
`DistMatrix`), with weights in `ℝ` and exact sums.

An alignment is read as the list of its weighted columns `colsOf rows ws` (column content = the
residues top to bottom, weight = `weights[i]` or 1).  The master theorem
`distMatrix_depends_on_weighted_columns` says that `DistMatrix` is a function of
*x ↦ total weight of the columns with content x*, up to a common non-zero factor; column
permutation, `Concat` with itself, integer weights and explicit unit weights are instances.

Preconditions (`WF`): the rows have one length (an `align.Alignment` is rectangular by
construction) and the weight vector has an entry for every column (`weights[i]` panics otherwise).

Exempt (by the property, and necessarily — `internal_gaps_not_permutation_invariant`,
`internal_gaps_not_replication_invariant`): the internal-gap counter, i.e. `rawdist` / `pdist` with
`countgapmut = 1` (`usesInternalGaps_iff`).

Helper developments: `Proofs/DistCols*.lean`.
-/
namespace Gv.Props.C08
open Gv Gv.Model.Dist Gv.Proofs.DistCols

/-! ## the counters are weighted counts; `probaNt` is a normalised weighted sum -/

/-- `countMutations` over the reals: each of transitions, transversions, A↔G, C↔T, total is the total
weight of the sites picked by an indicator of (code, code, selected) -/
theorem countMutations_weighted_counts (l : List (Site ℝ)) :
    countMutations l = ⟨wsum iTs l, wsum iTv l, wsum iAG l, wsum iCT l, wsum iTot l⟩ :=
  countMutations_eq l

/-- `countDiffs` and `countDiffsWithGaps` over the reals, with and without `removeAmbiguous` -/
theorem countDiffs_weighted_counts (rmAmb : Bool) (l : List (Site ℝ)) :
    countDiffs rmAmb l = (wsum (iNb false) l, wsum (iDT false rmAmb) l) ∧
    countDiffsWithGaps rmAmb l = (wsum (iNb true) l, wsum (iDT true rmAmb) l) :=
  ⟨countDiffsGen_eq false rmAmb l, countDiffsGen_eq true rmAmb l⟩

/-- hence any permutation of the sites of a pair (columns with their weights and selection flags)
leaves the three order-free counters unchanged -/
theorem counters_perm_invariant (rmAmb : Bool) {l l' : List (Site ℝ)} (h : l'.Perm l) :
    countMutations l' = countMutations l ∧ countDiffs rmAmb l' = countDiffs rmAmb l ∧
    countDiffsWithGaps rmAmb l' = countDiffsWithGaps rmAmb l := by
  refine ⟨?_, ?_, ?_⟩
  · rw [countMutations_eq, countMutations_eq]
    simp only [wsum_perm _ h]
  · rw [(countDiffs_weighted_counts rmAmb l').1, (countDiffs_weighted_counts rmAmb l).1]
    simp only [wsum_perm _ h]
  · rw [(countDiffs_weighted_counts rmAmb l').2, (countDiffs_weighted_counts rmAmb l).2]
    simp only [wsum_perm _ h]

/-- the base frequencies: `probaNt` on the codes and selection of an alignment is the normalised sum
`Σ w • colF` over its weighted columns (unchanged and repaired denominator) -/
theorem probaNt_weighted_columns (overNuc rmGaps : Bool) (rows : List Seq) (ws : Option (List ℝ)) :
    probaNt overNuc (rows.map fun r => r.map codeOf) (selectedSites rows rmGaps) ws
      = normV (tot (colF overNuc rmGaps) (colsOf rows ws)) :=
  probaNt_eq_cols overNuc rmGaps rows ws

/-- the selection vector is a function of each column alone -/
theorem selectedSites_columnwise (rows : List Seq) (rmGaps : Bool) (ws : Option (List ℝ)) :
    selectedSites rows rmGaps = (colsOf rows ws).map fun c => selCol rmGaps c.1 :=
  selectedSites_eq_cols rows rmGaps ws

/-! ## the estimators only use ratios of counts -/

/-- every estimator regenerated from the source is unchanged when all its counts are multiplied by
`k ≠ 0`; the raw distance is multiplied by `k` -/
theorem estimators_homogeneous {k : ℝ} (hk : k ≠ 0) (g : Bool) (a b A B C πA πC πG πT d t p q p1 p2 : ℝ) :
    Gen.jcDistance g a (k * d) (k * t) = Gen.jcDistance g a d t ∧
    Gen.k2pDistance g a (k * p) (k * q) (k * t) = Gen.k2pDistance g a p q t ∧
    Gen.f81Distance g a b (k * d) (k * t) = Gen.f81Distance g a b d t ∧
    Gen.f84Distance g a A B C (k * p) (k * q) (k * t) = Gen.f84Distance g a A B C p q t ∧
    Gen.tn93Distance g a πA πC πG πT (k * p) (k * q) (k * p1) (k * p2) (k * t)
      = Gen.tn93Distance g a πA πC πG πT p q p1 p2 t ∧
    Gen.pdistDistance (k * d) (k * t) = Gen.pdistDistance d t ∧
    Gen.rawdistDistance (k * d) = k * Gen.rawdistDistance d :=
  ⟨jc_h hk g a d t, k2p_h hk g a p q t, f81_h hk g a b d t, f84_h hk g a A B C p q t,
   tn93_h hk g a πA πC πG πT p q p1 p2 t, pdist_h hk d t, raw_h k d⟩

/-! ## which options are exempt -/

/-- the internal-gap counter is used exactly by `rawdist` and `pdist` with `countgapmut = 1`
(read from the regenerated call data of the working tree) -/
theorem internal_gaps_exactly (m : DModel) (gapMode : Int) :
    usesInternalGaps m gapMode = true ↔ (m = .raw ∨ m = .pdist) ∧ gapMode = 1 :=
  usesInternalGaps_iff m gapMode

/-! ## master theorem and its instances -/

/-- **`DistMatrix` depends on the alignment only through the weight of every column content**, up to
a common factor `k ≠ 0` (`k = 1` for `rawdist`): all seven models, gamma or not, gap-site removal,
`removeAmbiguous`, gap counting modes 0 and 2, any ranges, unchanged and repaired variants -/
theorem distMatrix_depends_on_weighted_columns (c : Cfg ℝ) (ws' : Option (List ℝ)) (rows rows' : List Seq)
    (k : ℝ) (hk : k ≠ 0) (hwf : WF rows c.weights) (hwf' : WF rows' ws') (hn : rows'.length = rows.length)
    (hint : usesInternalGaps c.model c.gapMode = false) (hraw : c.model = .raw → k = 1)
    (heq : ColEquiv k (colsOf rows' ws') (colsOf rows c.weights)) (r1min r1max r2min r2max : Int) :
    distMatrix { c with weights := ws' } rows' r1min r1max r2min r2max = distMatrix c rows r1min r1max r2min r2max :=
  distMatrix_of_colEquiv c ws' rows rows' k hk hwf hwf' hn hint hraw heq r1min r1max r2min r2max

/-- pair level, including `rawdist`: every estimator is unchanged and the raw distance is multiplied by `k` -/
theorem pair_distance_depends_on_weighted_columns (c : Cfg ℝ) (ws' : Option (List ℝ)) (rows rows' : List Seq)
    (k : ℝ) (hk : k ≠ 0) (hwf : WF rows c.weights) (hwf' : WF rows' ws') (hn : rows'.length = rows.length)
    (hint : usesInternalGaps c.model c.gapMode = false)
    (heq : ColEquiv k (colsOf rows' ws') (colsOf rows c.weights)) (i j : Nat) :
    distance { c with weights := ws' } (initOf { c with weights := ws' } rows')
        ((initOf { c with weights := ws' } rows').codes.getD i []) ((initOf { c with weights := ws' } rows').codes.getD j [])
      = if c.model = .raw then
          (distance c (initOf c rows) ((initOf c rows).codes.getD i []) ((initOf c rows).codes.getD j [])).map (k * ·)
        else distance c (initOf c rows) ((initOf c rows).codes.getD i []) ((initOf c rows).codes.getD j []) :=
  pair_of_colEquiv c ws' rows rows' k hk hwf hwf' hn hint heq i j

/-- `initOf` is what `InitModel` returns (when every residue has an IUPAC code; otherwise it fails) -/
theorem initModel_is_initOf (c : Cfg ℝ) (rows : List Seq) :
    initModel c rows = if rows.all (fun r => r.all okByte) then some (initOf c rows) else none :=
  initModel_eq c rows

/-- **column permutation** (the columns move with their weights): same matrix -/
theorem distMatrix_column_perm (c : Cfg ℝ) (rows : List Seq) (p : List Nat)
    (hp : p.Perm (List.range (alnLen rows))) (hwf : WF rows c.weights)
    (hint : usesInternalGaps c.model c.gapMode = false) (r1min r1max r2min r2max : Int) :
    distMatrix { c with weights := permuteWeights p c.weights } (permuteCols p rows) r1min r1max r2min r2max
      = distMatrix c rows r1min r1max r2min r2max :=
  distMatrix_of_colEquiv c _ rows _ 1 one_ne_zero hwf (wf_permuteCols p rows c.weights hp)
    (by simp [permuteCols]) hint (fun _ => rfl)
    (colEquiv_of_perm (colsOf_permuteCols_perm p rows c.weights hp)) _ _ _ _

/-- non-vacuity: a permutation of three columns of `AC-` / `ARG` with weights 1, 2, 3 -/
example : [2, 0, 1].Perm (List.range (alnLen [[65, 67, 45], [65, 82, 71]])) ∧
    WF [[65, 67, 45], [65, 82, 71]] (some [1, 2, 3]) ∧
    permuteCols [2, 0, 1] [[65, 67, 45], [65, 82, 71]] = [[45, 65, 67], [71, 65, 82]] ∧
    permuteWeights [2, 0, 1] (some [1, 2, 3]) = some [3, 1, 2] := by
  refine ⟨by decide, ⟨by decide, ?_⟩, by decide, ?_⟩
  · intro v hv; cases hv; decide
  · simp [permuteWeights, pickCols]

/-- **replication** (`Concat` with itself, `k ≥ 1` copies, no weights): same matrix for every model
but `rawdist` -/
theorem distMatrix_replicate (c : Cfg ℝ) (rows : List Seq) (k : Nat) (hk : 0 < k) (hw : c.weights = none)
    (hrect : ∀ r ∈ rows, r.length = alnLen rows) (hint : usesInternalGaps c.model c.gapMode = false)
    (hraw : c.model ≠ .raw) (r1min r1max r2min r2max : Int) :
    distMatrix c (replicateCols k rows) r1min r1max r2min r2max = distMatrix c rows r1min r1max r2min r2max := by
  have hc : c = { c with weights := none } := by cases c; simp only at hw; subst hw; rfl
  have := distMatrix_of_colEquiv c none rows (replicateCols k rows) (k : ℝ)
    (by exact_mod_cast (Nat.pos_iff_ne_zero.mp hk)) (by rw [hw]; exact ⟨hrect, fun v hv => by cases hv⟩)
    (wf_replicateCols k rows hrect) (length_replicateCols k rows) hint (fun h => absurd h hraw)
    (by rw [hw]; exact colEquiv_replicate k hk rows hrect) r1min r1max r2min r2max
  rw [← hc] at this
  exact this

/-- **raw distances scale linearly with replication**: for `rawdist` each pair's distance on `k` copies
is `k` times the distance on one copy -/
theorem rawdist_replicate_linear (c : Cfg ℝ) (rows : List Seq) (k : Nat) (hk : 0 < k) (hw : c.weights = none)
    (hrect : ∀ r ∈ rows, r.length = alnLen rows) (hint : usesInternalGaps c.model c.gapMode = false)
    (hraw : c.model = .raw) (i j : Nat) :
    distance c (initOf c (replicateCols k rows)) ((initOf c (replicateCols k rows)).codes.getD i [])
        ((initOf c (replicateCols k rows)).codes.getD j [])
      = (distance c (initOf c rows) ((initOf c rows).codes.getD i []) ((initOf c rows).codes.getD j [])).map
          ((k : ℝ) * ·) := by
  have hc : c = { c with weights := none } := by cases c; simp only at hw; subst hw; rfl
  have := pair_of_colEquiv c none rows (replicateCols k rows) (k : ℝ)
    (by exact_mod_cast (Nat.pos_iff_ne_zero.mp hk)) (by rw [hw]; exact ⟨hrect, fun v hv => by cases hv⟩)
    (wf_replicateCols k rows hrect) (length_replicateCols k rows) hint
    (by rw [hw]; exact colEquiv_replicate k hk rows hrect) i j
  rw [← hc, if_pos hraw] at this
  exact this

/-- **replication = integer weights**: `k` copies without weights give the same matrix as one copy
with weight `k` on every column — every model, `rawdist` included -/
theorem distMatrix_replicate_eq_integer_weights (c : Cfg ℝ) (rows : List Seq) (k : Nat) (hk : 0 < k)
    (hw : c.weights = none) (hrect : ∀ r ∈ rows, r.length = alnLen rows)
    (hint : usesInternalGaps c.model c.gapMode = false) (r1min r1max r2min r2max : Int) :
    distMatrix c (replicateCols k rows) r1min r1max r2min r2max
      = distMatrix { c with weights := some (List.replicate (alnLen rows) (k : ℝ)) } rows r1min r1max r2min r2max := by
  have hc : c = { ({ c with weights := some (List.replicate (alnLen rows) (k : ℝ)) } : Cfg ℝ) with weights := none } := by
    cases c; simp only at hw; subst hw; rfl
  have hB : ColEquiv (k : ℝ) (colsOf rows (some (List.replicate (alnLen rows) (k : ℝ)))) (colsOf rows none) := by
    rw [← scaleWeights_none]; exact colEquiv_scaleWeights (k : ℝ) rows none
  have := distMatrix_of_colEquiv { c with weights := some (List.replicate (alnLen rows) (k : ℝ)) } none rows
    (replicateCols k rows) 1 one_ne_zero
    (by rw [← scaleWeights_none]; exact wf_scaleWeights (k : ℝ) rows none hrect)
    (wf_replicateCols k rows hrect) (length_replicateCols k rows) hint (fun _ => rfl)
    (colEquiv_of_both (colEquiv_replicate k hk rows hrect) hB) r1min r1max r2min r2max
  rw [← hc] at this
  exact this

/-- non-vacuity: two copies of `AC-` / `ARG` -/
example : replicateCols 2 [[65, 67, 45], [65, 82, 71]] = [[65, 67, 45, 65, 67, 45], [65, 82, 71, 65, 82, 71]] ∧
    (∀ r ∈ [[65, 67, 45], [65, 82, 71]], r.length = alnLen [[65, 67, 45], [65, 82, 71]]) := by
  constructor <;> decide

/-- **all weights multiplied by `k ≠ 0`** (a missing vector counts as unit weights): same matrix for
every model but `rawdist` -/
theorem distMatrix_scale_weights (c : Cfg ℝ) (rows : List Seq) (k : ℝ) (hk : k ≠ 0) (hwf : WF rows c.weights)
    (hint : usesInternalGaps c.model c.gapMode = false) (hraw : c.model ≠ .raw) (r1min r1max r2min r2max : Int) :
    distMatrix { c with weights := scaleWeights k (alnLen rows) c.weights } rows r1min r1max r2min r2max
      = distMatrix c rows r1min r1max r2min r2max :=
  distMatrix_of_colEquiv c _ rows rows k hk hwf (wf_scaleWeights k rows c.weights hwf.rect) rfl hint
    (fun h => absurd h hraw) (colEquiv_scaleWeights k rows c.weights) _ _ _ _

end Gv.Props.C08
