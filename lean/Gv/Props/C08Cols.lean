import Gv.Proofs.DistColsRevAll
/-!
# C08 (first half) — nucleotide distances depend only on the multiset of weighted columns

Theorems about the Go-mirroring model of `distance/dna/distance.go` (`Model/Dist.lean`: the pair
counters, `selectedSites`, `probaNt`, `Distance` of the seven models — whose closed forms
`Gv.Gen.*Distance` are regenerated from the Go source on every run, tie T2 — and the assembly of
`DistMatrix`), with weights in `ℝ` and exact sums.

An alignment is read as the list of its weighted columns `colsOf rows ws` (column content = the
residues top to bottom, weight = `weights[i]` or 1).  The master theorem
`distMatrix_depends_on_weighted_columns` says that `DistMatrix` is a function of
*x ↦ total weight of the columns with content x*, up to a common non-zero factor; column
permutation, `Concat` with itself, integer weights and explicit unit weights are instances.

Preconditions (`WF`): the rows have one length (an `align.Alignment` is rectangular by
construction) and the weight vector has an entry for every column (`weights[i]` panics otherwise).

Exempt from permutation / replication (by the property, and necessarily —
`internal_gaps_not_permutation_invariant`, `internal_gaps_not_replication_invariant`): the internal-gap
counter, i.e. `rawdist` / `pdist` with `countgapmut = 1` (`internal_gaps_exactly`).  It is *not* exempt
from the strand and row relations: complement, reversal (non-negative weights), unit weights and row
permutation are proved for it too.

Helper developments: `Proofs/DistCols*.lean`.
-/
namespace Gv.Props.C08Cols
open Gv Gv.Model.Dist Gv.Proofs.DistCols

/-! ## the counters are weighted counts; `probaNt` is a normalised weighted sum -/

/-- `countMutations` over the reals: each of transitions, transversions, A↔G, C↔T, total is the total
weight of the sites picked by an indicator of (code, code, selected) -/
theorem countMutations_weighted_counts (l : List (Site ℝ)) :
    countMutations l = ⟨wsum iTs l, wsum iTv l, wsum iAG l, wsum iCT l, wsum iTot l⟩ :=
  countMutations_eq l

/-- `countDiffs` and `countDiffsWithGaps` over the reals, with and without `removeAmbiguous` -/
theorem countDiffs_weighted_counts (rmAmb : Bool) (l : List (Site ℝ)) :
    countDiffs rmAmb l = (wsum (iNb false) l, wsum (iDT false rmAmb) l) ∧
    countDiffsWithGaps rmAmb l = (wsum (iNb true) l, wsum (iDT true rmAmb) l) :=
  ⟨countDiffsGen_eq false rmAmb l, countDiffsGen_eq true rmAmb l⟩

/-- hence any permutation of the sites of a pair (columns with their weights and selection flags)
leaves the three order-free counters unchanged -/
theorem counters_perm_invariant (rmAmb : Bool) {l l' : List (Site ℝ)} (h : l'.Perm l) :
    countMutations l' = countMutations l ∧ countDiffs rmAmb l' = countDiffs rmAmb l ∧
    countDiffsWithGaps rmAmb l' = countDiffsWithGaps rmAmb l := by
  refine ⟨?_, ?_, ?_⟩
  · rw [countMutations_eq, countMutations_eq]
    simp only [wsum_perm _ h]
  · rw [(countDiffs_weighted_counts rmAmb l').1, (countDiffs_weighted_counts rmAmb l).1]
    simp only [wsum_perm _ h]
  · rw [(countDiffs_weighted_counts rmAmb l').2, (countDiffs_weighted_counts rmAmb l).2]
    simp only [wsum_perm _ h]

/-- the base frequencies: `probaNt` on the codes and selection of an alignment is the normalised sum
`Σ w • colF` over its weighted columns (unchanged and repaired denominator) -/
theorem probaNt_weighted_columns (overNuc rmGaps : Bool) (rows : List Seq) (ws : Option (List ℝ)) :
    probaNt overNuc (rows.map fun r => r.map codeOf) (selectedSites rows rmGaps) ws
      = normV (tot (colF overNuc rmGaps) (colsOf rows ws)) :=
  probaNt_eq_cols overNuc rmGaps rows ws

/-- the selection vector is a function of each column alone -/
theorem selectedSites_columnwise (rows : List Seq) (rmGaps : Bool) (ws : Option (List ℝ)) :
    selectedSites rows rmGaps = (colsOf rows ws).map fun c => selCol rmGaps c.1 :=
  selectedSites_eq_cols rows rmGaps ws

/-! ## the estimators only use ratios of counts -/

/-- every estimator regenerated from the source is unchanged when all its counts are multiplied by
`k ≠ 0`; the raw distance is multiplied by `k` -/
theorem estimators_homogeneous {k : ℝ} (hk : k ≠ 0) (g : Bool) (a b A B C πA πC πG πT d t p q p1 p2 : ℝ) :
    Gen.jcDistance g a (k * d) (k * t) = Gen.jcDistance g a d t ∧
    Gen.k2pDistance g a (k * p) (k * q) (k * t) = Gen.k2pDistance g a p q t ∧
    Gen.f81Distance g a b (k * d) (k * t) = Gen.f81Distance g a b d t ∧
    Gen.f84Distance g a A B C (k * p) (k * q) (k * t) = Gen.f84Distance g a A B C p q t ∧
    Gen.tn93Distance g a πA πC πG πT (k * p) (k * q) (k * p1) (k * p2) (k * t)
      = Gen.tn93Distance g a πA πC πG πT p q p1 p2 t ∧
    Gen.pdistDistance (k * d) (k * t) = Gen.pdistDistance d t ∧
    Gen.rawdistDistance (k * d) = k * Gen.rawdistDistance d :=
  ⟨jc_h hk g a d t, k2p_h hk g a p q t, f81_h hk g a b d t, f84_h hk g a A B C p q t,
   tn93_h hk g a πA πC πG πT p q p1 p2 t, pdist_h hk d t, raw_h k d⟩

/-! ## which options are exempt -/

/-- the internal-gap counter is used exactly by `rawdist` and `pdist` with `countgapmut = 1`
(read from the regenerated call data of the working tree) -/
theorem internal_gaps_exactly (m : DModel) (gapMode : Int) :
    usesInternalGaps m gapMode = true ↔ (m = .raw ∨ m = .pdist) ∧ gapMode = 1 :=
  usesInternalGaps_iff m gapMode

/-! ## master theorem and its instances -/

/-- **`DistMatrix` depends on the alignment only through the weight of every column content**, up to
a common factor `k ≠ 0` (`k = 1` for `rawdist`): all seven models, gamma or not, gap-site removal,
`removeAmbiguous`, gap counting modes 0 and 2, any ranges, unchanged and repaired variants -/
theorem distMatrix_depends_on_weighted_columns (c : Cfg ℝ) (ws' : Option (List ℝ)) (rows rows' : List Seq)
    (k : ℝ) (hk : k ≠ 0) (hwf : WF rows c.weights) (hwf' : WF rows' ws') (hn : rows'.length = rows.length)
    (hint : usesInternalGaps c.model c.gapMode = false) (hraw : c.model = .raw → k = 1)
    (heq : ColEquiv k (colsOf rows' ws') (colsOf rows c.weights)) (r1min r1max r2min r2max : Int) :
    distMatrix { c with weights := ws' } rows' r1min r1max r2min r2max = distMatrix c rows r1min r1max r2min r2max :=
  distMatrix_of_colEquiv c ws' rows rows' k hk hwf hwf' hn hint hraw heq r1min r1max r2min r2max

/-- non-vacuity of the master theorem: the non-exempt option sets exist (every model with `countgapmut` 0 or 2,
the five corrected models with any value), and two presentations with `ColEquiv 2`: `AC` / `AG` with
weights 2, 4 against `CAA` / `GAA` with weights 2, 1, 1 (column `A/A` split in two) -/
example : (∀ m : DModel, usesInternalGaps m 0 = false ∧ usesInternalGaps m 2 = false) ∧
    usesInternalGaps .tn93 1 = false ∧
    ColEquiv 2 (colsOf [[65, 67], [65, 71]] (some [2, 4])) (colsOf [[67, 65, 65], [71, 65, 65]] (some [2, 0.5, 0.5])) := by
  refine ⟨fun m => by cases m <;> exact ⟨by decide, by decide⟩, by decide, ?_, ?_⟩
  · intro x
    have hr2 : List.range 2 = [0, 1] := by decide
    have hr3 : List.range 3 = [0, 1, 2] := by decide
    simp only [colsOf, alnLen, weightAt, List.headD_cons, List.length_cons, List.length_nil, Nat.zero_add,
      Nat.reduceAdd, hr2, hr3, List.map_cons, List.map_nil, List.getD_cons_zero, List.getD_cons_succ,
      List.mem_cons, List.mem_nil_iff, or_false]
    tauto
  · intro x
    simp only [colsOf, alnLen, weightAt, colWeight, List.headD_cons, List.length_cons, List.length_nil]
    have hr2 : List.range 2 = [0, 1] := by decide
    have hr3 : List.range 3 = [0, 1, 2] := by decide
    simp only [Nat.zero_add, Nat.reduceAdd, hr2, hr3, List.map_cons, List.map_nil, List.getD_cons_zero,
      List.getD_cons_succ, List.filter_cons, List.filter_nil]
    by_cases h1 : ([65, 65] : List Byte) = x <;> by_cases h2 : ([67, 71] : List Byte) = x <;>
      simp [h1, h2] <;> norm_num

/-- pair level, including `rawdist`: every estimator is unchanged and the raw distance is multiplied by `k` -/
theorem pair_distance_depends_on_weighted_columns (c : Cfg ℝ) (ws' : Option (List ℝ)) (rows rows' : List Seq)
    (k : ℝ) (hk : k ≠ 0) (hwf : WF rows c.weights) (hwf' : WF rows' ws') (hn : rows'.length = rows.length)
    (hint : usesInternalGaps c.model c.gapMode = false)
    (heq : ColEquiv k (colsOf rows' ws') (colsOf rows c.weights)) (i j : Nat) :
    distance { c with weights := ws' } (initOf { c with weights := ws' } rows')
        ((initOf { c with weights := ws' } rows').codes.getD i []) ((initOf { c with weights := ws' } rows').codes.getD j [])
      = if c.model = .raw then
          (distance c (initOf c rows) ((initOf c rows).codes.getD i []) ((initOf c rows).codes.getD j [])).map (k * ·)
        else distance c (initOf c rows) ((initOf c rows).codes.getD i []) ((initOf c rows).codes.getD j []) :=
  pair_of_colEquiv c ws' rows rows' k hk hwf hwf' hn hint heq i j

/-- `initOf` is what `InitModel` returns (when every residue has an IUPAC code; otherwise it fails) -/
theorem initModel_is_initOf (c : Cfg ℝ) (rows : List Seq) :
    initModel c rows = if rows.all (fun r => r.all okByte) then some (initOf c rows) else none :=
  initModel_eq c rows

/-- **column permutation** (the columns move with their weights): same matrix -/
theorem distMatrix_column_perm (c : Cfg ℝ) (rows : List Seq) (p : List Nat)
    (hp : p.Perm (List.range (alnLen rows))) (hwf : WF rows c.weights)
    (hint : usesInternalGaps c.model c.gapMode = false) (r1min r1max r2min r2max : Int) :
    distMatrix { c with weights := permuteWeights p c.weights } (permuteCols p rows) r1min r1max r2min r2max
      = distMatrix c rows r1min r1max r2min r2max :=
  distMatrix_of_colEquiv c _ rows _ 1 one_ne_zero hwf (wf_permuteCols p rows c.weights hp)
    (by simp [permuteCols]) hint (fun _ => rfl)
    (colEquiv_of_perm (colsOf_permuteCols_perm p rows c.weights hp)) _ _ _ _

/-- non-vacuity: a permutation of three columns of `AC-` / `ARG` with weights 1, 2, 3 -/
example : [2, 0, 1].Perm (List.range (alnLen [[65, 67, 45], [65, 82, 71]])) ∧
    WF [[65, 67, 45], [65, 82, 71]] (some [1, 2, 3]) ∧
    permuteCols [2, 0, 1] [[65, 67, 45], [65, 82, 71]] = [[45, 65, 67], [71, 65, 82]] ∧
    permuteWeights [2, 0, 1] (some [1, 2, 3]) = some [3, 1, 2] := by
  refine ⟨by decide, ⟨by decide, ?_⟩, by decide, ?_⟩
  · intro v hv; cases hv; decide
  · simp [permuteWeights, pickCols]

/-- **replication** (`Concat` with itself, `k ≥ 1` copies, no weights): same matrix for every model
but `rawdist` -/
theorem distMatrix_replicate (c : Cfg ℝ) (rows : List Seq) (k : Nat) (hk : 0 < k) (hw : c.weights = none)
    (hrect : ∀ r ∈ rows, r.length = alnLen rows) (hint : usesInternalGaps c.model c.gapMode = false)
    (hraw : c.model ≠ .raw) (r1min r1max r2min r2max : Int) :
    distMatrix c (replicateCols k rows) r1min r1max r2min r2max = distMatrix c rows r1min r1max r2min r2max := by
  have hc : c = { c with weights := none } := by cases c; simp only at hw; subst hw; rfl
  have := distMatrix_of_colEquiv c none rows (replicateCols k rows) (k : ℝ)
    (by exact_mod_cast (Nat.pos_iff_ne_zero.mp hk)) (by rw [hw]; exact ⟨hrect, fun v hv => by cases hv⟩)
    (wf_replicateCols k rows hrect) (length_replicateCols k rows) hint (fun h => absurd h hraw)
    (by rw [hw]; exact colEquiv_replicate k hk rows hrect) r1min r1max r2min r2max
  rw [← hc] at this
  exact this

/-- **raw distances scale linearly with replication**: for `rawdist` each pair's distance on `k` copies
is `k` times the distance on one copy -/
theorem rawdist_replicate_linear (c : Cfg ℝ) (rows : List Seq) (k : Nat) (hk : 0 < k) (hw : c.weights = none)
    (hrect : ∀ r ∈ rows, r.length = alnLen rows) (hint : usesInternalGaps c.model c.gapMode = false)
    (hraw : c.model = .raw) (i j : Nat) :
    distance c (initOf c (replicateCols k rows)) ((initOf c (replicateCols k rows)).codes.getD i [])
        ((initOf c (replicateCols k rows)).codes.getD j [])
      = (distance c (initOf c rows) ((initOf c rows).codes.getD i []) ((initOf c rows).codes.getD j [])).map
          ((k : ℝ) * ·) := by
  have hc : c = { c with weights := none } := by cases c; simp only at hw; subst hw; rfl
  have := pair_of_colEquiv c none rows (replicateCols k rows) (k : ℝ)
    (by exact_mod_cast (Nat.pos_iff_ne_zero.mp hk)) (by rw [hw]; exact ⟨hrect, fun v hv => by cases hv⟩)
    (wf_replicateCols k rows hrect) (length_replicateCols k rows) hint
    (by rw [hw]; exact colEquiv_replicate k hk rows hrect) i j
  rw [← hc, if_pos hraw] at this
  exact this

/-- **replication = integer weights**: `k` copies without weights give the same matrix as one copy
with weight `k` on every column — every model, `rawdist` included -/
theorem distMatrix_replicate_eq_integer_weights (c : Cfg ℝ) (rows : List Seq) (k : Nat) (hk : 0 < k)
    (hw : c.weights = none) (hrect : ∀ r ∈ rows, r.length = alnLen rows)
    (hint : usesInternalGaps c.model c.gapMode = false) (r1min r1max r2min r2max : Int) :
    distMatrix c (replicateCols k rows) r1min r1max r2min r2max
      = distMatrix { c with weights := some (List.replicate (alnLen rows) (k : ℝ)) } rows r1min r1max r2min r2max := by
  have hc : c = { ({ c with weights := some (List.replicate (alnLen rows) (k : ℝ)) } : Cfg ℝ) with weights := none } := by
    cases c; simp only at hw; subst hw; rfl
  have hB : ColEquiv (k : ℝ) (colsOf rows (some (List.replicate (alnLen rows) (k : ℝ)))) (colsOf rows none) := by
    rw [← scaleWeights_none]; exact colEquiv_scaleWeights (k : ℝ) rows none
  have := distMatrix_of_colEquiv { c with weights := some (List.replicate (alnLen rows) (k : ℝ)) } none rows
    (replicateCols k rows) 1 one_ne_zero
    (by rw [← scaleWeights_none]; exact wf_scaleWeights (k : ℝ) rows none hrect)
    (wf_replicateCols k rows hrect) (length_replicateCols k rows) hint (fun _ => rfl)
    (colEquiv_of_both (colEquiv_replicate k hk rows hrect) hB) r1min r1max r2min r2max
  rw [← hc] at this
  exact this

/-- non-vacuity: two copies of `AC-` / `ARG` -/
example : replicateCols 2 [[65, 67, 45], [65, 82, 71]] = [[65, 67, 45, 65, 67, 45], [65, 82, 71, 65, 82, 71]] ∧
    (∀ r ∈ [[65, 67, 45], [65, 82, 71]], r.length = alnLen [[65, 67, 45], [65, 82, 71]]) := by
  constructor <;> decide

/-- **all weights multiplied by `k ≠ 0`** (a missing vector counts as unit weights): same matrix for
every model but `rawdist` -/
theorem distMatrix_scale_weights (c : Cfg ℝ) (rows : List Seq) (k : ℝ) (hk : k ≠ 0) (hwf : WF rows c.weights)
    (hint : usesInternalGaps c.model c.gapMode = false) (hraw : c.model ≠ .raw) (r1min r1max r2min r2max : Int) :
    distMatrix { c with weights := scaleWeights k (alnLen rows) c.weights } rows r1min r1max r2min r2max
      = distMatrix c rows r1min r1max r2min r2max :=
  distMatrix_of_colEquiv c _ rows rows k hk hwf (wf_scaleWeights k rows c.weights hwf.rect) rfl hint
    (fun h => absurd h hraw) (colEquiv_scaleWeights k rows c.weights) _ _ _ _

/-- **explicit unit weights = no weights**: every model and every counting mode (internal gaps included) -/
theorem distMatrix_unit_weights (c : Cfg ℝ) (rows : List Seq) (hw : c.weights = none)
    (hrect : ∀ r ∈ rows, r.length = alnLen rows) (r1min r1max r2min r2max : Int) :
    distMatrix { c with weights := some (List.replicate (alnLen rows) (1 : ℝ)) } rows r1min r1max r2min r2max
      = distMatrix c rows r1min r1max r2min r2max :=
  distMatrix_unit c rows hw hrect r1min r1max r2min r2max

/-- the assembly of `DistMatrix` is a function of `InitModel` and of the pair distances, for every
interpretation of `float64` (no arithmetic is involved) -/
theorem distMatrix_function_of_pair_distances {α : Type} [RealLike α] (c c' : Cfg α) (rows rows' : List Seq)
    (r1min r1max r2min r2max : Int) (hv : c'.variant = c.variant) (hn : rows'.length = rows.length)
    (h : match initModel c rows, initModel c' rows' with
         | some ini, some ini' => ∀ i j, distance c' ini' (ini'.codes.getD i []) (ini'.codes.getD j [])
             = distance c ini (ini.codes.getD i []) (ini.codes.getD j [])
         | none, none => True
         | _, _ => False) :
    distMatrix c' rows' r1min r1max r2min r2max = distMatrix c rows r1min r1max r2min r2max :=
  distMatrix_congr c c' rows rows' r1min r1max r2min r2max hv hn h

/-! ## strand: complement and reverse complement -/

/-- on the 16 IUPAC codes the complement keeps compatibility, transitions and transversions and
exchanges A↔G with C↔T -/
theorem complement_preserves_classes : ∀ a : Code, a ≤ 15 → ∀ b : Code, b ≤ 15 →
    ntIUPACDifference (compCode a) (compCode b) = ntIUPACDifference a b ∧
    isTransversion (compCode a) (compCode b) = isTransversion a b ∧
    isTransition (compCode a) (compCode b) = isTransition a b ∧
    isAG (compCode a) (compCode b) = isCT a b ∧ isCT (compCode a) (compCode b) = isAG a b ∧
    (compCode a != compCode b) = (a != b) ∧ (isAG a b && isCT a b) = false :=
  compCode_pair

/-- the code of the complemented residue is the complement of the code (tables `complement_nuc_mapping`,
`iupacToInt`, `nt2index` regenerated from align/const.go) -/
theorem complement_residue_code : ∀ b : Byte, okByte b = true →
    codeOf (compByte b) = compCode (codeOf b) ∧ okByte (compByte b) = true ∧
    badForSelection (compByte b) = badForSelection b ∧ codeOf b ≤ 15 :=
  compByte_facts

/-- TN93, F84 and F81 as written in the source are symmetric under πA ↔ πT, πC ↔ πG, A↔G ↔ C↔T -/
theorem estimators_strand_symmetric (g : Bool) (a πA πC πG πT p q p1 p2 t : ℝ) :
    Gen.tn93Distance g a πT πG πC πA p q p2 p1 t = Gen.tn93Distance g a πA πC πG πT p q p1 p2 t ∧
    Gen.f84Init πT πG πC πA = Gen.f84Init πA πC πG πT ∧ Gen.f81Init πT πG πC πA = Gen.f81Init πA πC πG πT :=
  ⟨tn93_swap g a πA πC πG πT p q p1 p2 t, f84Init_swap πA πC πG πT, f81Init_swap πA πC πG πT⟩

/-- **complementing every residue** (column order kept): same matrix, every model, every counting mode.
`hok`: every residue has an IUPAC code — otherwise `DistMatrix` returns an error on `rows` -/
theorem distMatrix_complement (c : Cfg ℝ) (rows : List Seq) (hwf : WF rows c.weights)
    (hok : rows.all (fun r => r.all okByte) = true) (r1min r1max r2min r2max : Int) :
    distMatrix c (complementRows rows) r1min r1max r2min r2max = distMatrix c rows r1min r1max r2min r2max :=
  distMatrix_complementRows c rows hwf hok r1min r1max r2min r2max

/-- **reverse complement of the whole alignment** (the weights are reversed with their columns): same
matrix; counting modes 0 and 2, any real weights (mode 1: `distMatrix_reverse_complement_all_modes`) -/
theorem distMatrix_reverse_complement (c : Cfg ℝ) (rows : List Seq) (hwf : WF rows c.weights)
    (hok : rows.all (fun r => r.all okByte) = true) (hint : usesInternalGaps c.model c.gapMode = false)
    (r1min r1max r2min r2max : Int) :
    distMatrix { c with weights := reverseWeights (alnLen rows) c.weights } (revcompRows rows) r1min r1max r2min r2max
      = distMatrix c rows r1min r1max r2min r2max :=
  distMatrix_revcompRows c rows hwf hok hint r1min r1max r2min r2max

/-- the internal-gap counter reads the same from both ends: leading gap runs become trailing ones and are
ignored alike.  `hsel`: the selection is ignored / all-true, or only selects sites where both rows hold a
nucleotide (what `selectedSites` produces); weights non-negative (`math.Max` of the two trailing sums). -/
theorem internal_gaps_reversal_invariant (honour rmAmb : Bool) (l : List (Site ℝ)) (hw : ∀ s ∈ l, 0 ≤ s.w)
    (hlow : ∀ s ∈ l, s.a ≤ 15 ∧ s.b ≤ 15) (hsel : SelShape n1S n2S (actS honour) l) :
    countDiffsWithInternalGaps honour rmAmb l.reverse = countDiffsWithInternalGaps honour rmAmb l :=
  internalGaps_reverse honour rmAmb l hw hlow hsel

/-- non-vacuity: `-A-A` / `AAAA` with weights 1, 2, 3, 4 (codes 0 = gap, 1 = A), everything selected -/
example : let l : List (Site ℝ) := [⟨0, 1, true, 1⟩, ⟨1, 1, true, 2⟩, ⟨0, 1, true, 3⟩, ⟨1, 1, true, 4⟩]
    (∀ s ∈ l, 0 ≤ s.w) ∧ (∀ s ∈ l, s.a ≤ 15 ∧ s.b ≤ 15) ∧ SelShape n1S n2S (actS true) l := by
  refine ⟨?_, ?_, Or.inl ?_⟩
  · intro s hs
    simp only [List.mem_cons, List.mem_nil_iff, or_false] at hs
    rcases hs with rfl | rfl | rfl | rfl <;> norm_num
  · intro s hs
    simp only [List.mem_cons, List.mem_nil_iff, or_false] at hs
    rcases hs with rfl | rfl | rfl | rfl <;> exact ⟨by decide, by decide⟩
  · intro s hs
    simp only [List.mem_cons, List.mem_nil_iff, or_false] at hs
    rcases hs with rfl | rfl | rfl | rfl <;> simp [actS, n1S, n2S]

/-- **reversing the column order**, every counting mode (the internal-gap one included), non-negative weights -/
theorem distMatrix_reverse_columns (c : Cfg ℝ) (rows : List Seq) (hwf : WF rows c.weights)
    (hpos : ∀ v, c.weights = some v → ∀ x ∈ v, 0 ≤ x) (r1min r1max r2min r2max : Int) :
    distMatrix { c with weights := reverseWeights (alnLen rows) c.weights } (reverseRows rows) r1min r1max r2min r2max
      = distMatrix c rows r1min r1max r2min r2max :=
  distMatrix_reverseRows c rows hwf hpos r1min r1max r2min r2max

/-- **reverse complement of the whole alignment, every counting mode** (`countgapmut` 0, 1, 2), every model,
non-negative weights -/
theorem distMatrix_reverse_complement_all_modes (c : Cfg ℝ) (rows : List Seq) (hwf : WF rows c.weights)
    (hok : rows.all (fun r => r.all okByte) = true) (hpos : ∀ v, c.weights = some v → ∀ x ∈ v, 0 ≤ x)
    (r1min r1max r2min r2max : Int) :
    distMatrix { c with weights := reverseWeights (alnLen rows) c.weights } (revcompRows rows) r1min r1max r2min r2max
      = distMatrix c rows r1min r1max r2min r2max :=
  distMatrix_revcompRows_all c rows hwf hok hpos r1min r1max r2min r2max

/-- `revcompRows` is what the model of `ReverseComplement` (property C06) returns for each row when it succeeds -/
theorem revcompRows_is_ReverseComplement (s r : Seq) (h : Gv.Model.revcompSeq s = (r, false)) :
    r = (s.map compByte).reverse :=
  revcompSeq_ok s r h

/-- non-vacuity: `ACR-` / `aygt` has IUPAC codes everywhere; its reverse complement is `-YGT` / `acrt` -/
example : ([[65, 67, 82, 45], [97, 121, 103, 116]] : List Seq).all (fun r => r.all okByte) = true ∧
    revcompRows [[65, 67, 82, 45], [97, 121, 103, 116]] = [[45, 89, 71, 84], [97, 99, 114, 116]] ∧
    Gv.Model.revcompSeq [65, 67, 82, 45] = ([45, 89, 71, 84], false) := by
  refine ⟨by decide, by decide, by decide⟩

/-! ## rows -/

/-- **permuting the rows permutes the matrix**: `m'[i][j] = m[q i][q j]` (half-matrix mode; every
model and counting mode; over the reals `Distance` is symmetric in its two rows) -/
theorem distMatrix_row_perm (c : Cfg ℝ) (rows : List Seq) (q : List Nat) (hq : q.Perm (List.range rows.length))
    (hrect : ∀ r ∈ rows, r.length = alnLen rows) (m : List (List ℝ))
    (h : distMatrix c rows (-1) (-1) (-1) (-1) = some m) :
    ∃ m', distMatrix c (permuteRows q rows) (-1) (-1) (-1) (-1) = some m' ∧
      ∀ i j, i < rows.length → j < rows.length →
        (m'.getD i []).getD j 0 = (m.getD (q.getD i 0) []).getD (q.getD j 0) 0 :=
  distMatrix_permuteRows c rows q hq hrect m h

/-- the pair distance does not depend on the order of the two rows (all seven models, all counters) -/
theorem distance_symmetric (c : Cfg ℝ) (ini : Init ℝ) (s1 s2 : List Code) :
    distance c ini s2 s1 = distance c ini s1 s2 :=
  distance_symm c ini s1 s2

/-- non-vacuity: three rows in the order 2, 0, 1; the hypothesis `h` is satisfiable (`mat_raw_AgA` below
is a computed matrix) -/
example : [2, 0, 1].Perm (List.range ([[65], [67], [71]] : List Seq).length) ∧
    permuteRows [2, 0, 1] [[65], [67], [71]] = [[71], [65], [67]] := by
  constructor <;> decide

/-! ## the internal-gap counter is exempt — necessarily -/

/-- **column permutation changes the internal-gap distances**: `A-A` / `AAA` (rawdist, `countgapmut = 1`)
is at distance 1; with the columns in the order 0, 2, 1 (`AA-` / `AAA`) the gap is terminal and the
distance is 0.  The same for `pdist` (1/3 against 0). -/
theorem internal_gaps_not_permutation_invariant :
    usesInternalGaps (cfgIG .raw).model (cfgIG .raw).gapMode = true ∧
    [0, 2, 1].Perm (List.range (alnLen [[65, 45, 65], [65, 65, 65]])) ∧ WF [[65, 45, 65], [65, 65, 65]] none ∧
    permuteCols [0, 2, 1] [[65, 45, 65], [65, 65, 65]] = [[65, 65, 45], [65, 65, 65]] ∧
    distMatrix (cfgIG .raw) [[65, 45, 65], [65, 65, 65]] (-1) (-1) (-1) (-1) = some [[0, 1], [1, 0]] ∧
    distMatrix (cfgIG .raw) [[65, 65, 45], [65, 65, 65]] (-1) (-1) (-1) (-1) = some [[0, 0], [0, 0]] ∧
    distMatrix (cfgIG .pdist) [[65, 45, 65], [65, 65, 65]] (-1) (-1) (-1) (-1) = some [[0, 1 / 3], [1 / 3, 0]] ∧
    distMatrix (cfgIG .pdist) [[65, 65, 45], [65, 65, 65]] (-1) (-1) (-1) (-1) = some [[0, 0], [0, 0]] :=
  ⟨by decide, by decide, ⟨by decide, fun v hv => by cases hv⟩, by decide,
   mat_raw_AgA, mat_raw_AAg, mat_pdist_AgA, mat_pdist_AAg⟩

/-- **replication changes the internal-gap distances non-linearly**: `A-` / `AA` is at raw distance 0
(terminal gap), two copies `A-A-` / `AAAA` at distance 1, not `2 · 0` -/
theorem internal_gaps_not_replication_invariant :
    replicateCols 2 [[65, 45], [65, 65]] = [[65, 45, 65, 45], [65, 65, 65, 65]] ∧
    distMatrix (cfgIG .raw) [[65, 45], [65, 65]] (-1) (-1) (-1) (-1) = some [[0, 0], [0, 0]] ∧
    distMatrix (cfgIG .raw) (replicateCols 2 [[65, 45], [65, 65]]) (-1) (-1) (-1) (-1) = some [[0, 1], [1, 0]] := by
  have h : replicateCols 2 [[65, 45], [65, 65]] = [[65, 45, 65, 45], [65, 65, 65, 65]] := by decide
  exact ⟨h, mat_raw_Ag, by rw [h]; exact mat_raw_AgAg⟩

end Gv.Props.C08Cols
