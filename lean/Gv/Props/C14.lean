import Gv.Model.Stats
import Gv.Spec.Genetic
/-!
# C14 — column statistics and consensus match definitions and are deterministic

`maxLoop` is the selection loop of `MaxCharStats` run over the count entries in *some* order (Go
iterates a map: any order).  The theorems show the result does not depend on that order and is the
naive argmax with the smallest-byte tie rule.
-/
namespace Gv.Props.C14
open Gv Gv.Model
set_option maxRecDepth 100000

/-- one iteration of the selection loop -/
def maxStep (ig iN : Bool) (all allc : Byte) (st : Byte × Nat × Nat × Nat) (e : Byte × Nat) : Byte × Nat × Nat × Nat :=
  if !(ig && e.1 == GAP) && !(iN && (e.1 == all || e.1 == allc)) then
    if e.2 > st.2.2.2 || (e.2 == st.2.2.2 && e.1 < st.1) then (e.1, e.2, st.2.2.1 + e.2, e.2)
    else (st.1, st.2.1, st.2.2.1 + e.2, st.2.2.2)
  else st

theorem maxLoop_eq_foldl (ig iN : Bool) (all allc : Byte) (es : List (Byte × Nat)) (st : Byte × Nat × Nat × Nat) :
    maxLoop ig iN all allc es st = es.foldl (maxStep ig iN all allc) st := by
  induction es generalizing st with
  | nil => rfl
  | cons e t ih =>
    obtain ⟨k, v⟩ := e
    obtain ⟨o, oc, tot, mx⟩ := st
    simp only [maxLoop, List.foldl_cons, maxStep]
    split
    · split
      · exact ih _
      · exact ih _
    · exact ih _

/-- the selection step on an admissible entry, with the comparison on naturals -/
private theorem step_adm (o : Byte) (oc tot mx : Nat) (k : Byte) (v : Nat) :
    (if (decide (v > mx) || (v == mx && decide (k < o))) = true then ((k, v, tot + v, v) : Byte × Nat × Nat × Nat)
     else (o, oc, tot + v, mx)) =
    if v > mx ∨ (v = mx ∧ k.toNat < o.toNat) then (k, v, tot + v, v) else (o, oc, tot + v, mx) := by
  by_cases c : v > mx ∨ (v = mx ∧ k.toNat < o.toNat)
  · have : (decide (v > mx) || (v == mx && decide (k < o))) = true := by
      simp only [Bool.or_eq_true, decide_eq_true_eq, Bool.and_eq_true, beq_iff_eq, UInt8.lt_iff_toNat_lt]; exact c
    rw [if_pos this, if_pos c]
  · have : ¬ ((decide (v > mx) || (v == mx && decide (k < o))) = true) := by
      simp only [Bool.or_eq_true, decide_eq_true_eq, Bool.and_eq_true, beq_iff_eq, UInt8.lt_iff_toNat_lt]; exact c
    rw [if_neg this, if_neg c]


/-- two iterations on entries with different keys commute -/
private theorem maxStep_comm (ig iN : Bool) (all allc : Byte) (x y : Byte × Nat) (hxy : x.1 ≠ y.1)
    (z : Byte × Nat × Nat × Nat) :
    maxStep ig iN all allc (maxStep ig iN all allc z x) y = maxStep ig iN all allc (maxStep ig iN all allc z y) x := by
  obtain ⟨kx, vx⟩ := x
  obtain ⟨ky, vy⟩ := y
  obtain ⟨o, oc, tot, mx⟩ := z
  have hne : kx.toNat ≠ ky.toNat := fun e => hxy (UInt8.toNat_inj.mp e)
  unfold maxStep
  by_cases ax : (!(ig && kx == GAP) && !(iN && (kx == all || kx == allc))) = true <;>
  by_cases ay : (!(ig && ky == GAP) && !(iN && (ky == all || ky == allc))) = true
  · simp only [ax, ay, if_true]
    rw [step_adm o oc tot mx kx vx, step_adm o oc tot mx ky vy]
    by_cases c1 : vx > mx ∨ (vx = mx ∧ kx.toNat < o.toNat) <;>
    by_cases c2 : vy > mx ∨ (vy = mx ∧ ky.toNat < o.toNat)
    · rw [if_pos c1, if_pos c2]
      simp only []
      rw [step_adm kx vx (tot + vx) vx ky vy, step_adm ky vy (tot + vy) vy kx vx]
      by_cases c3 : vy > vx ∨ (vy = vx ∧ ky.toNat < kx.toNat) <;>
      by_cases c4 : vx > vy ∨ (vx = vy ∧ kx.toNat < ky.toNat)
      · exfalso; omega
      · rw [if_pos c3, if_neg c4]; simp only [Prod.mk.injEq, true_and, and_true]; omega
      · rw [if_neg c3, if_pos c4]; simp only [Prod.mk.injEq, true_and, and_true]; omega
      · exfalso; omega
    · rw [if_pos c1, if_neg c2]
      simp only []
      rw [step_adm kx vx (tot + vx) vx ky vy, step_adm o oc (tot + vy) mx kx vx]
      have c3 : ¬ (vy > vx ∨ (vy = vx ∧ ky.toNat < kx.toNat)) := by omega
      rw [if_neg c3, if_pos c1]; simp only [Prod.mk.injEq, true_and, and_true]; omega
    · rw [if_neg c1, if_pos c2]
      simp only []
      rw [step_adm o oc (tot + vx) mx ky vy, step_adm ky vy (tot + vy) vy kx vx]
      have c4 : ¬ (vx > vy ∨ (vx = vy ∧ kx.toNat < ky.toNat)) := by omega
      rw [if_pos c2, if_neg c4]; simp only [Prod.mk.injEq, true_and, and_true]; omega
    · rw [if_neg c1, if_neg c2]
      simp only []
      rw [step_adm o oc (tot + vx) mx ky vy, step_adm o oc (tot + vy) mx kx vx]
      rw [if_neg c2, if_neg c1]; simp only [Prod.mk.injEq, true_and, and_true]; omega
  · simp only [ax, ay, if_true, if_false, Bool.false_eq_true]
  · simp only [ax, ay, if_true, if_false, Bool.false_eq_true]
  · simp only [ax, ay, if_false, Bool.false_eq_true]


private theorem eq_of_key_eq : ∀ (l : List (Byte × Nat)), (l.map Prod.fst).Nodup →
    ∀ x ∈ l, ∀ y ∈ l, x.1 = y.1 → x = y := by
  intro l
  induction l with
  | nil => intro _ x hx; simp at hx
  | cons a t ih =>
    intro hn x hx y hy hk
    simp only [List.map_cons, List.nodup_cons] at hn
    rcases List.mem_cons.mp hx with hxa | hxt
    · rcases List.mem_cons.mp hy with hya | hyt
      · rw [hxa, hya]
      · exfalso; apply hn.1
        have := List.mem_map_of_mem (f := Prod.fst) hyt
        rw [← hk, hxa] at this; exact this
    · rcases List.mem_cons.mp hy with hya | hyt
      · exfalso; apply hn.1
        have := List.mem_map_of_mem (f := Prod.fst) hxt
        rw [hk, hya] at this; exact this
      · exact ih hn.2 x hxt y hyt hk

/-- **`MaxCharStats` is deterministic: whatever the order in which the (distinct-keyed) count entries
are visited, the selected character, its count and the total are the same.**  (With the former rule
`v > max` only, this is false: for a tie the first entry visited won.) -/
theorem maxLoop_perm (ig iN : Bool) (all allc : Byte) (e1 e2 : List (Byte × Nat)) (hp : e1.Perm e2)
    (hk : (e1.map Prod.fst).Nodup) (st : Byte × Nat × Nat × Nat) :
    maxLoop ig iN all allc e1 st = maxLoop ig iN all allc e2 st := by
  rw [maxLoop_eq_foldl, maxLoop_eq_foldl]
  apply List.Perm.foldl_eq' hp
  intro x hx y hy z
  by_cases e : x = y
  · subst e; rfl
  · apply maxStep_comm
    intro hkk
    -- equal keys in a list with distinct keys means equal entries
    exact e (eq_of_key_eq e1 hk x hx y hy hkk)

def Beats (a b : Byte × Nat) : Prop := a.2 > b.2 ∨ (a.2 = b.2 ∧ a.1.toNat < b.1.toNat)
def admissible (ig iN : Bool) (all allc : Byte) (e : Byte × Nat) : Bool :=
  !(ig && e.1 == GAP) && !(iN && (e.1 == all || e.1 == allc))

/-- invariant of the selection loop after the entries `done` -/
structure SelInv (ig iN : Bool) (all allc : Byte) (o0 : Byte) (n0 : Nat) (done : List (Byte × Nat))
    (st : Byte × Nat × Nat × Nat) : Prop where
  total : st.2.2.1 = ((done.filter (admissible ig iN all allc)).map Prod.snd).foldl (· + ·) 0
  none_yet : done.filter (admissible ig iN all allc) = [] → st.1 = o0 ∧ st.2.1 = n0 ∧ st.2.2.2 = 0
  best : done.filter (admissible ig iN all allc) ≠ [] →
    (st.1, st.2.1) ∈ done.filter (admissible ig iN all allc) ∧ st.2.2.2 = st.2.1 ∧
    ∀ e ∈ done.filter (admissible ig iN all allc), ¬ Beats e (st.1, st.2.1)

private theorem selInv_step (ig iN : Bool) (all allc : Byte) (o0 : Byte) (n0 : Nat) (done : List (Byte × Nat))
    (st : Byte × Nat × Nat × Nat) (e : Byte × Nat) (he : 0 < e.2)
    (h : SelInv ig iN all allc o0 n0 done st) :
    SelInv ig iN all allc o0 n0 (done ++ [e]) (maxStep ig iN all allc st e) := by
  obtain ⟨o, oc, tot, mx⟩ := st
  obtain ⟨k, v⟩ := e
  obtain ⟨h1, h2, h3⟩ := h
  simp only at h1 h2 h3 he
  by_cases ha : admissible ig iN all allc (k, v) = true
  · have ha' : (!(ig && k == GAP) && !(iN && (k == all || k == allc))) = true := ha
    have hstep : maxStep ig iN all allc (o, oc, tot, mx) (k, v) =
        if v > mx ∨ (v = mx ∧ k.toNat < o.toNat) then (k, v, tot + v, v) else (o, oc, tot + v, mx) := by
      unfold maxStep; simp only [ha', if_true]; exact step_adm o oc tot mx k v
    have hfil : (done ++ [(k, v)]).filter (admissible ig iN all allc) = done.filter (admissible ig iN all allc) ++ [(k, v)] := by
      simp [List.filter_append, ha]
    rw [hstep]
    by_cases hd : done.filter (admissible ig iN all allc) = []
    · obtain ⟨a1, a2, a3⟩ := h2 hd
      subst a1; subst a2; subst a3
      have c : v > 0 ∨ (v = 0 ∧ k.toNat < o.toNat) := Or.inl he
      rw [if_pos c]
      refine ⟨?_, ?_, ?_⟩ <;> simp only [hfil]
      · simp [hd, h1]
      · intro hh; simp [hd] at hh
      · intro _
        simp only [hd, List.nil_append, List.mem_singleton]
        refine ⟨trivial, trivial, ?_⟩
        intro x hx; subst hx
        unfold Beats; simp only []; omega
    · obtain ⟨b1, b2, b3⟩ := h3 hd
      by_cases c : v > mx ∨ (v = mx ∧ k.toNat < o.toNat)
      · rw [if_pos c]
        refine ⟨?_, ?_, ?_⟩ <;> simp only [hfil]
        · simp [List.foldl_append, h1]
        · intro hh; simp at hh
        · intro _
          refine ⟨by simp, trivial, ?_⟩
          intro x hx
          rcases List.mem_append.mp hx with hx | hx
          · have := b3 x hx
            unfold Beats at this ⊢
            simp only [] at this ⊢
            omega
          · simp only [List.mem_singleton] at hx; subst hx
            unfold Beats; simp only []; omega
      · rw [if_neg c]
        refine ⟨?_, ?_, ?_⟩ <;> simp only [hfil]
        · simp [List.foldl_append, h1]
        · intro hh; simp at hh
        · intro _
          refine ⟨by simp [b1], b2, ?_⟩
          intro x hx
          rcases List.mem_append.mp hx with hx | hx
          · exact b3 x hx
          · simp only [List.mem_singleton] at hx; subst hx
            unfold Beats; simp only []; omega
  · have hf : admissible ig iN all allc (k, v) = false := by simpa using ha
    have ha' : (!(ig && k == GAP) && !(iN && (k == all || k == allc))) = false := hf
    have hstep : maxStep ig iN all allc (o, oc, tot, mx) (k, v) = (o, oc, tot, mx) := by
      unfold maxStep; simp only [ha', Bool.false_eq_true, if_false]
    have hfil : (done ++ [(k, v)]).filter (admissible ig iN all allc) = done.filter (admissible ig iN all allc) := by
      simp [List.filter_append, hf]
    rw [hstep]
    refine ⟨?_, ?_, ?_⟩ <;> simp only [hfil]
    · exact h1
    · exact h2
    · exact h3

private theorem selInv_fold (ig iN : Bool) (all allc : Byte) (o0 : Byte) (n0 : Nat) :
    ∀ (es done : List (Byte × Nat)) (st : Byte × Nat × Nat × Nat), (∀ e ∈ es, 0 < e.2) →
      SelInv ig iN all allc o0 n0 done st →
      SelInv ig iN all allc o0 n0 (done ++ es) (es.foldl (maxStep ig iN all allc) st) := by
  intro es
  induction es with
  | nil => intro done st _ h; simpa using h
  | cons e t ih =>
    intro done st hp h
    have := ih (done ++ [e]) _ (fun x hx => hp x (by simp [hx])) (selInv_step ig iN all allc o0 n0 done st e (hp e (by simp)) h)
    simpa using this

/-- **The selected character is the naive argmax**: starting from `max = 0` with the initial values
`(o0, n0)`, after the loop — when some entry is admissible — the state holds an admissible entry that
no admissible entry beats (higher count, or same count and smaller byte); otherwise the initial values
are kept; `total` is the sum of the admissible counts. -/
theorem maxLoop_is_argmax (ig iN : Bool) (all allc : Byte) (es : List (Byte × Nat)) (hpos : ∀ e ∈ es, 0 < e.2)
    (o0 : Byte) (n0 : Nat) :
    SelInv ig iN all allc o0 n0 es (maxLoop ig iN all allc es (o0, n0, 0, 0)) := by
  rw [maxLoop_eq_foldl]
  have := selInv_fold ig iN all allc o0 n0 es [] (o0, n0, 0, 0) hpos ⟨by simp, by simp, by simp⟩
  simpa using this

/-! ## a site index outside the alignment is an error, not a crash -/

theorem charStatsSite_error_iff (rows : CRows) (L site : Int) :
    charStatsSite rows L site = none ↔ (site < 0 ∨ site ≥ L) := by
  unfold charStatsSite
  by_cases h : site < 0 ∨ site ≥ L
  · have : (decide (site < 0) || decide (site ≥ L)) = true := by simpa using h
    simp [this, h]
  · have : ¬ ((decide (site < 0) || decide (site ≥ L)) = true) := by simpa using h
    simp [this, h]

theorem entropy_error_iff (rows : CRows) (L site : Int) (rg : Bool) :
    entropy rows L site rg = none ↔ (site < 0 ∨ site ≥ L) := by
  unfold entropy
  by_cases h : site < 0 ∨ site ≥ L
  · have : (decide (site < 0) || decide (site ≥ L)) = true := by simpa using h
    simp [this, h]
  · have : ¬ ((decide (site < 0) || decide (site ≥ L)) = true) := by simpa using h
    constructor
    · intro hh
      rw [if_neg this] at hh
      simp only [] at hh
      split at hh <;> simp at hh
    · intro hh; exact absurd hh h

theorem charStatsSeq_error_iff (rows : CRows) (idx : Int) :
    charStatsSeq rows idx = none ↔ (idx < 0 ∨ idx ≥ rows.length) := by
  unfold charStatsSeq
  by_cases h : idx < 0 ∨ idx ≥ rows.length
  · have : (decide (idx < 0) || decide (idx ≥ (rows.length : Int))) = true := by simpa using h
    simp [this, h]
  · have : ¬ ((decide (idx < 0) || decide (idx ≥ (rows.length : Int))) = true) := by simpa using h
    simp only [this, if_false, h, iff_false]
    have hlt : idx.toNat < rows.length := by omega
    simp [List.getElem?_eq_getElem hlt]

/-! ## IUPAC compatibility -/

/-- the bit code of every IUPAC letter has exactly the bits of its base set (A=1, C=2, G=4, T=8) -/
theorem iupacToInt_matches_sets : ∀ c : Byte, ∀ s ∈ Spec.iupacSet c, c ≠ 85 → c ≠ 117 →
    ∃ code, nt2IndexIUPAC c = some code ∧
      ((code &&& 1 ≠ 0) = (s.contains 65)) ∧ ((code &&& 2 ≠ 0) = (s.contains 67)) ∧
      ((code &&& 4 ≠ 0) = (s.contains 71)) ∧ ((code &&& 8 ≠ 0) = (s.contains 84)) := by
  decide

/-- **IUPAC-compatible codes never count as a substitution**: two codes are "equal or compatible"
exactly when they are identical or share a base -/
theorem equalOrCompatible_spec : ∀ a ∈ List.range 16, ∀ b ∈ List.range 16,
    equalOrCompatible (UInt8.ofNat a) (UInt8.ofNat b) =
      some (a == b || (UInt8.ofNat a &&& UInt8.ofNat b) != 0) := by
  decide

theorem equalOrCompatible_error (a b : Byte) (h : a > 15 ∨ b > 15) : equalOrCompatible a b = none := by
  unfold equalOrCompatible
  have : (decide (a > 15) || decide (b > 15)) = true := by simpa using h
  simp [this]

/-! ## non-vacuity -/

example : maxLoop false false 78 110 [(65, 2), (67, 2), (71, 1)] (71, 5, 0, 0) = (65, 2, 5, 2) := by decide
example : maxLoop false false 78 110 [(67, 2), (71, 1), (65, 2)] (71, 5, 0, 0) = (65, 2, 5, 2) := by decide

end Gv.Props.C14
