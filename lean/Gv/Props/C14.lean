import Gv.Model.Stats
import Gv.Spec.Genetic
import Gv.Proofs.StatsSites
import Gv.Proofs.StatsUnique
import Gv.Proofs.StatsDiff
import Gv.Proofs.StatsMut
import Gv.Proofs.StatsMutAA
import Gv.Proofs.StatsMutAAEq
import Gv.Proofs.StatsProfile
import Gv.Proofs.StatsUniqueProf
import Gv.Proofs.FrameStats
/-!
# C14 — column statistics and consensus match definitions and are deterministic

`maxLoop` is the selection loop of `MaxCharStats` run over the count entries in *some* order (Go
iterates a map: any order).  The theorems show the result does not depend on that order and is the
naive argmax with the smallest-byte tie rule.

The second half states, for every counting statistic, that the model (`Gv.Model.Stats`: the loops of the Go
code with their accumulators, early exits and counter slices) equals its naive definition
(`Gv.Spec.Stats`: plain recounts) on **every** input; the developments are in `Gv.Proofs.Stats*`.
-/
namespace Gv.Props.C14
open Gv Gv.Model
set_option maxRecDepth 100000

/-- one iteration of the selection loop -/
def maxStep (ig iN : Bool) (all allc : Byte) (st : Byte × Nat × Nat × Nat) (e : Byte × Nat) : Byte × Nat × Nat × Nat :=
  if !(ig && e.1 == GAP) && !(iN && (e.1 == all || e.1 == allc)) then
    if e.2 > st.2.2.2 || (e.2 == st.2.2.2 && e.1 < st.1) then (e.1, e.2, st.2.2.1 + e.2, e.2)
    else (st.1, st.2.1, st.2.2.1 + e.2, st.2.2.2)
  else st

theorem maxLoop_eq_foldl (ig iN : Bool) (all allc : Byte) (es : List (Byte × Nat)) (st : Byte × Nat × Nat × Nat) :
    maxLoop ig iN all allc es st = es.foldl (maxStep ig iN all allc) st := by
  induction es generalizing st with
  | nil => rfl
  | cons e t ih =>
    obtain ⟨k, v⟩ := e
    obtain ⟨o, oc, tot, mx⟩ := st
    simp only [maxLoop, List.foldl_cons, maxStep]
    split
    · split
      · exact ih _
      · exact ih _
    · exact ih _

/-- the selection step on an admissible entry, with the comparison on naturals -/
private theorem step_adm (o : Byte) (oc tot mx : Nat) (k : Byte) (v : Nat) :
    (if (decide (v > mx) || (v == mx && decide (k < o))) = true then ((k, v, tot + v, v) : Byte × Nat × Nat × Nat)
     else (o, oc, tot + v, mx)) =
    if v > mx ∨ (v = mx ∧ k.toNat < o.toNat) then (k, v, tot + v, v) else (o, oc, tot + v, mx) := by
  by_cases c : v > mx ∨ (v = mx ∧ k.toNat < o.toNat)
  · have : (decide (v > mx) || (v == mx && decide (k < o))) = true := by
      simp only [Bool.or_eq_true, decide_eq_true_eq, Bool.and_eq_true, beq_iff_eq, UInt8.lt_iff_toNat_lt]; exact c
    rw [if_pos this, if_pos c]
  · have : ¬ ((decide (v > mx) || (v == mx && decide (k < o))) = true) := by
      simp only [Bool.or_eq_true, decide_eq_true_eq, Bool.and_eq_true, beq_iff_eq, UInt8.lt_iff_toNat_lt]; exact c
    rw [if_neg this, if_neg c]


/-- two iterations on entries with different keys commute -/
private theorem maxStep_comm (ig iN : Bool) (all allc : Byte) (x y : Byte × Nat) (hxy : x.1 ≠ y.1)
    (z : Byte × Nat × Nat × Nat) :
    maxStep ig iN all allc (maxStep ig iN all allc z x) y = maxStep ig iN all allc (maxStep ig iN all allc z y) x := by
  obtain ⟨kx, vx⟩ := x
  obtain ⟨ky, vy⟩ := y
  obtain ⟨o, oc, tot, mx⟩ := z
  have hne : kx.toNat ≠ ky.toNat := fun e => hxy (UInt8.toNat_inj.mp e)
  unfold maxStep
  by_cases ax : (!(ig && kx == GAP) && !(iN && (kx == all || kx == allc))) = true <;>
  by_cases ay : (!(ig && ky == GAP) && !(iN && (ky == all || ky == allc))) = true
  · simp only [ax, ay, if_true]
    rw [step_adm o oc tot mx kx vx, step_adm o oc tot mx ky vy]
    by_cases c1 : vx > mx ∨ (vx = mx ∧ kx.toNat < o.toNat) <;>
    by_cases c2 : vy > mx ∨ (vy = mx ∧ ky.toNat < o.toNat)
    · rw [if_pos c1, if_pos c2]
      simp only []
      rw [step_adm kx vx (tot + vx) vx ky vy, step_adm ky vy (tot + vy) vy kx vx]
      by_cases c3 : vy > vx ∨ (vy = vx ∧ ky.toNat < kx.toNat) <;>
      by_cases c4 : vx > vy ∨ (vx = vy ∧ kx.toNat < ky.toNat)
      · exfalso; omega
      · rw [if_pos c3, if_neg c4]; simp only [Prod.mk.injEq, true_and, and_true]; omega
      · rw [if_neg c3, if_pos c4]; simp only [Prod.mk.injEq, true_and, and_true]; omega
      · exfalso; omega
    · rw [if_pos c1, if_neg c2]
      simp only []
      rw [step_adm kx vx (tot + vx) vx ky vy, step_adm o oc (tot + vy) mx kx vx]
      have c3 : ¬ (vy > vx ∨ (vy = vx ∧ ky.toNat < kx.toNat)) := by omega
      rw [if_neg c3, if_pos c1]; simp only [Prod.mk.injEq, true_and, and_true]; omega
    · rw [if_neg c1, if_pos c2]
      simp only []
      rw [step_adm o oc (tot + vx) mx ky vy, step_adm ky vy (tot + vy) vy kx vx]
      have c4 : ¬ (vx > vy ∨ (vx = vy ∧ kx.toNat < ky.toNat)) := by omega
      rw [if_pos c2, if_neg c4]; simp only [Prod.mk.injEq, true_and, and_true]; omega
    · rw [if_neg c1, if_neg c2]
      simp only []
      rw [step_adm o oc (tot + vx) mx ky vy, step_adm o oc (tot + vy) mx kx vx]
      rw [if_neg c2, if_neg c1]; simp only [Prod.mk.injEq, true_and, and_true]; omega
  · simp only [ax, ay, if_true, if_false, Bool.false_eq_true]
  · simp only [ax, ay, if_true, if_false, Bool.false_eq_true]
  · simp only [ax, ay, if_false, Bool.false_eq_true]


private theorem eq_of_key_eq : ∀ (l : List (Byte × Nat)), (l.map Prod.fst).Nodup →
    ∀ x ∈ l, ∀ y ∈ l, x.1 = y.1 → x = y := by
  intro l
  induction l with
  | nil => intro _ x hx; simp at hx
  | cons a t ih =>
    intro hn x hx y hy hk
    simp only [List.map_cons, List.nodup_cons] at hn
    rcases List.mem_cons.mp hx with hxa | hxt
    · rcases List.mem_cons.mp hy with hya | hyt
      · rw [hxa, hya]
      · exfalso; apply hn.1
        have := List.mem_map_of_mem (f := Prod.fst) hyt
        rw [← hk, hxa] at this; exact this
    · rcases List.mem_cons.mp hy with hya | hyt
      · exfalso; apply hn.1
        have := List.mem_map_of_mem (f := Prod.fst) hxt
        rw [hk, hya] at this; exact this
      · exact ih hn.2 x hxt y hyt hk

/-- **`MaxCharStats` is deterministic: whatever the order in which the (distinct-keyed) count entries
are visited, the selected character, its count and the total are the same.**  (With the former rule
`v > max` only, this is false: for a tie the first entry visited won.) -/
theorem maxLoop_perm (ig iN : Bool) (all allc : Byte) (e1 e2 : List (Byte × Nat)) (hp : e1.Perm e2)
    (hk : (e1.map Prod.fst).Nodup) (st : Byte × Nat × Nat × Nat) :
    maxLoop ig iN all allc e1 st = maxLoop ig iN all allc e2 st := by
  rw [maxLoop_eq_foldl, maxLoop_eq_foldl]
  apply List.Perm.foldl_eq' hp
  intro x hx y hy z
  by_cases e : x = y
  · subst e; rfl
  · apply maxStep_comm
    intro hkk
    -- equal keys in a list with distinct keys means equal entries
    exact e (eq_of_key_eq e1 hk x hx y hy hkk)

def Beats (a b : Byte × Nat) : Prop := a.2 > b.2 ∨ (a.2 = b.2 ∧ a.1.toNat < b.1.toNat)
def admissible (ig iN : Bool) (all allc : Byte) (e : Byte × Nat) : Bool :=
  !(ig && e.1 == GAP) && !(iN && (e.1 == all || e.1 == allc))

/-- invariant of the selection loop after the entries `done` -/
structure SelInv (ig iN : Bool) (all allc : Byte) (o0 : Byte) (n0 : Nat) (done : List (Byte × Nat))
    (st : Byte × Nat × Nat × Nat) : Prop where
  total : st.2.2.1 = ((done.filter (admissible ig iN all allc)).map Prod.snd).foldl (· + ·) 0
  none_yet : done.filter (admissible ig iN all allc) = [] → st.1 = o0 ∧ st.2.1 = n0 ∧ st.2.2.2 = 0
  best : done.filter (admissible ig iN all allc) ≠ [] →
    (st.1, st.2.1) ∈ done.filter (admissible ig iN all allc) ∧ st.2.2.2 = st.2.1 ∧
    ∀ e ∈ done.filter (admissible ig iN all allc), ¬ Beats e (st.1, st.2.1)

private theorem selInv_step (ig iN : Bool) (all allc : Byte) (o0 : Byte) (n0 : Nat) (done : List (Byte × Nat))
    (st : Byte × Nat × Nat × Nat) (e : Byte × Nat) (he : 0 < e.2)
    (h : SelInv ig iN all allc o0 n0 done st) :
    SelInv ig iN all allc o0 n0 (done ++ [e]) (maxStep ig iN all allc st e) := by
  obtain ⟨o, oc, tot, mx⟩ := st
  obtain ⟨k, v⟩ := e
  obtain ⟨h1, h2, h3⟩ := h
  simp only at h1 h2 h3 he
  by_cases ha : admissible ig iN all allc (k, v) = true
  · have ha' : (!(ig && k == GAP) && !(iN && (k == all || k == allc))) = true := ha
    have hstep : maxStep ig iN all allc (o, oc, tot, mx) (k, v) =
        if v > mx ∨ (v = mx ∧ k.toNat < o.toNat) then (k, v, tot + v, v) else (o, oc, tot + v, mx) := by
      unfold maxStep; simp only [ha', if_true]; exact step_adm o oc tot mx k v
    have hfil : (done ++ [(k, v)]).filter (admissible ig iN all allc) = done.filter (admissible ig iN all allc) ++ [(k, v)] := by
      simp [List.filter_append, ha]
    rw [hstep]
    by_cases hd : done.filter (admissible ig iN all allc) = []
    · obtain ⟨a1, a2, a3⟩ := h2 hd
      subst a1; subst a2; subst a3
      have c : v > 0 ∨ (v = 0 ∧ k.toNat < o.toNat) := Or.inl he
      rw [if_pos c]
      refine ⟨?_, ?_, ?_⟩ <;> simp only [hfil]
      · simp [hd, h1]
      · intro hh; simp [hd] at hh
      · intro _
        simp only [hd, List.nil_append, List.mem_singleton]
        refine ⟨trivial, trivial, ?_⟩
        intro x hx; subst hx
        unfold Beats; simp only []; omega
    · obtain ⟨b1, b2, b3⟩ := h3 hd
      by_cases c : v > mx ∨ (v = mx ∧ k.toNat < o.toNat)
      · rw [if_pos c]
        refine ⟨?_, ?_, ?_⟩ <;> simp only [hfil]
        · simp [List.foldl_append, h1]
        · intro hh; simp at hh
        · intro _
          refine ⟨by simp, trivial, ?_⟩
          intro x hx
          rcases List.mem_append.mp hx with hx | hx
          · have := b3 x hx
            unfold Beats at this ⊢
            simp only [] at this ⊢
            omega
          · simp only [List.mem_singleton] at hx; subst hx
            unfold Beats; simp only []; omega
      · rw [if_neg c]
        refine ⟨?_, ?_, ?_⟩ <;> simp only [hfil]
        · simp [List.foldl_append, h1]
        · intro hh; simp at hh
        · intro _
          refine ⟨by simp [b1], b2, ?_⟩
          intro x hx
          rcases List.mem_append.mp hx with hx | hx
          · exact b3 x hx
          · simp only [List.mem_singleton] at hx; subst hx
            unfold Beats; simp only []; omega
  · have hf : admissible ig iN all allc (k, v) = false := by simpa using ha
    have ha' : (!(ig && k == GAP) && !(iN && (k == all || k == allc))) = false := hf
    have hstep : maxStep ig iN all allc (o, oc, tot, mx) (k, v) = (o, oc, tot, mx) := by
      unfold maxStep; simp only [ha', Bool.false_eq_true, if_false]
    have hfil : (done ++ [(k, v)]).filter (admissible ig iN all allc) = done.filter (admissible ig iN all allc) := by
      simp [List.filter_append, hf]
    rw [hstep]
    refine ⟨?_, ?_, ?_⟩ <;> simp only [hfil]
    · exact h1
    · exact h2
    · exact h3

private theorem selInv_fold (ig iN : Bool) (all allc : Byte) (o0 : Byte) (n0 : Nat) :
    ∀ (es done : List (Byte × Nat)) (st : Byte × Nat × Nat × Nat), (∀ e ∈ es, 0 < e.2) →
      SelInv ig iN all allc o0 n0 done st →
      SelInv ig iN all allc o0 n0 (done ++ es) (es.foldl (maxStep ig iN all allc) st) := by
  intro es
  induction es with
  | nil => intro done st _ h; simpa using h
  | cons e t ih =>
    intro done st hp h
    have := ih (done ++ [e]) _ (fun x hx => hp x (by simp [hx])) (selInv_step ig iN all allc o0 n0 done st e (hp e (by simp)) h)
    simpa using this

/-- **The selected character is the naive argmax**: starting from `max = 0` with the initial values
`(o0, n0)`, after the loop — when some entry is admissible — the state holds an admissible entry that
no admissible entry beats (higher count, or same count and smaller byte); otherwise the initial values
are kept; `total` is the sum of the admissible counts. -/
theorem maxLoop_is_argmax (ig iN : Bool) (all allc : Byte) (es : List (Byte × Nat)) (hpos : ∀ e ∈ es, 0 < e.2)
    (o0 : Byte) (n0 : Nat) :
    SelInv ig iN all allc o0 n0 es (maxLoop ig iN all allc es (o0, n0, 0, 0)) := by
  rw [maxLoop_eq_foldl]
  have := selInv_fold ig iN all allc o0 n0 es [] (o0, n0, 0, 0) hpos ⟨by simp, by simp, by simp⟩
  simpa using this

/-! ## a site index outside the alignment is an error, not a crash -/

theorem charStatsSite_error_iff (rows : CRows) (L site : Int) :
    charStatsSite rows L site = none ↔ (site < 0 ∨ site ≥ L) := by
  unfold charStatsSite
  by_cases h : site < 0 ∨ site ≥ L
  · have : (decide (site < 0) || decide (site ≥ L)) = true := by simpa using h
    simp [this, h]
  · have : ¬ ((decide (site < 0) || decide (site ≥ L)) = true) := by simpa using h
    simp [this, h]

theorem entropy_error_iff (rows : CRows) (L site : Int) (rg : Bool) :
    entropy rows L site rg = none ↔ (site < 0 ∨ site ≥ L) := by
  unfold entropy
  by_cases h : site < 0 ∨ site ≥ L
  · have : (decide (site < 0) || decide (site ≥ L)) = true := by simpa using h
    simp [this, h]
  · have : ¬ ((decide (site < 0) || decide (site ≥ L)) = true) := by simpa using h
    constructor
    · intro hh
      rw [if_neg this] at hh
      simp only [] at hh
      split at hh <;> simp at hh
    · intro hh; exact absurd hh h

theorem charStatsSeq_error_iff (rows : CRows) (idx : Int) :
    charStatsSeq rows idx = none ↔ (idx < 0 ∨ idx ≥ rows.length) := by
  unfold charStatsSeq
  by_cases h : idx < 0 ∨ idx ≥ rows.length
  · have : (decide (idx < 0) || decide (idx ≥ (rows.length : Int))) = true := by simpa using h
    simp [this, h]
  · have : ¬ ((decide (idx < 0) || decide (idx ≥ (rows.length : Int))) = true) := by simpa using h
    simp only [this, if_false, h, iff_false]
    have hlt : idx.toNat < rows.length := by omega
    simp [List.getElem?_eq_getElem hlt]

/-! ## IUPAC compatibility -/

/-- the bit code of every IUPAC letter has exactly the bits of its base set (A=1, C=2, G=4, T=8) -/
theorem iupacToInt_matches_sets : ∀ c : Byte, ∀ s ∈ Spec.iupacSet c, c ≠ 85 → c ≠ 117 →
    ∃ code, nt2IndexIUPAC c = some code ∧
      ((code &&& 1 ≠ 0) = (s.contains 65)) ∧ ((code &&& 2 ≠ 0) = (s.contains 67)) ∧
      ((code &&& 4 ≠ 0) = (s.contains 71)) ∧ ((code &&& 8 ≠ 0) = (s.contains 84)) := by
  decide

/-- **IUPAC-compatible codes never count as a substitution**: two codes are "equal or compatible"
exactly when they are identical or share a base -/
theorem equalOrCompatible_spec : ∀ a ∈ List.range 16, ∀ b ∈ List.range 16,
    equalOrCompatible (UInt8.ofNat a) (UInt8.ofNat b) =
      some (a == b || (UInt8.ofNat a &&& UInt8.ofNat b) != 0) := by
  decide

theorem equalOrCompatible_error (a b : Byte) (h : a > 15 ∨ b > 15) : equalOrCompatible a b = none := by
  unfold equalOrCompatible
  have : (decide (a > 15) || decide (b > 15)) = true := by simpa using h
  simp [this]

/-! ## every counting statistic equals its naive definition -/

/-- the sorted count list built by successive `bump`s is the naive count table (for every key function) -/
theorem countsBy_eq_countTable (f : Byte → Byte) (cs : List Byte) : countsBy f cs = Spec.countTable f cs :=
  Proofs.StatsCount.countsBy_eq f cs

/-- **`CharStats`** = for every byte value, the number of residues whose upper-case form it is -/
theorem charStats_eq_spec (rows : CRows) : charStats rows = Spec.charStats rows := by
  unfold charStats Spec.charStats
  rw [countsBy_eq_countTable, Proofs.StatsCount.upper_eq]

/-- **`UniqueCharacters`** = the byte values that are the upper-case form of some residue, increasing -/
theorem uniqueCharacters_eq_spec (rows : CRows) : uniqueCharacters rows = Spec.uniqueCharacters rows := by
  unfold uniqueCharacters Spec.uniqueCharacters
  rw [charStats_eq_spec]
  unfold Spec.charStats Spec.countTable
  rw [← Proofs.StatsCount.tab_allBytes, Proofs.StatsCount.tab_keys]
  apply List.filter_congr
  intro k _
  rw [Bool.eq_iff_iff]
  simp only [Spec.occ, gt_iff_lt, List.countP_pos_iff, decide_eq_true_eq, List.any_eq_true]

/-- **`CharStatsSeq(idx)`** = the count table of row `idx`, an error exactly outside `[0, n)` -/
theorem charStatsSeq_eq_spec (rows : CRows) (idx : Int) : charStatsSeq rows idx = Spec.charStatsSeq rows idx := by
  unfold charStatsSeq Spec.charStatsSeq
  by_cases h : idx < 0 ∨ idx ≥ rows.length
  · have h1 : (decide (idx < 0) || decide (idx ≥ (rows.length : Int))) = true := by simpa using h
    have h2 : ¬ (0 ≤ idx ∧ idx < (rows.length : Int)) := by omega
    rw [if_pos h1, if_neg h2]
  · have h1 : ¬ ((decide (idx < 0) || decide (idx ≥ (rows.length : Int))) = true) := by simpa using h
    have h2 : 0 ≤ idx ∧ idx < (rows.length : Int) := by omega
    rw [if_neg h1, if_pos h2]
    have hlt : idx.toNat < rows.length := by omega
    rw [List.getElem?_eq_getElem hlt, List.getD_eq_getElem?_getD, List.getElem?_eq_getElem hlt]
    simp only [Option.map_some, Option.getD_some]
    rw [countsBy_eq_countTable, Proofs.StatsCount.upper_eq]

/-- **`CharStatsSite(site)`** = the count table of column `site`, an error exactly outside `[0, L)` -/
theorem charStatsSite_eq_spec (rows : CRows) (L site : Int) :
    charStatsSite rows L site = Spec.charStatsSite rows L site := by
  unfold charStatsSite Spec.charStatsSite
  by_cases h : site < 0 ∨ site ≥ L
  · have h1 : (decide (site < 0) || decide (site ≥ L)) = true := by simpa using h
    have h2 : ¬ (0 ≤ site ∧ site < L) := by omega
    rw [if_pos h1, if_neg h2]
  · have h1 : ¬ ((decide (site < 0) || decide (site ≥ L)) = true) := by simpa using h
    have h2 : 0 ≤ site ∧ site < L := by omega
    rw [if_neg h1, if_pos h2, countsBy_eq_countTable, Proofs.StatsCount.upper_eq]
    rfl

/-- **`Entropy(site, removegaps)`**: the occurrence map built row after row holds the naive counts, so the value
is the sum `− Σ p log p` over the characters present in increasing order (same `Float` operations as the
definition; what `math.Log` rounds to is outside the model), NaN on an empty selection, an error exactly
outside `[0, L)` -/
theorem entropy_eq_spec (rows : CRows) (L site : Int) (rg : Bool) :
    entropy rows L site rg = Spec.entropy rows L site rg := by
  unfold entropy Spec.entropy
  by_cases h : site < 0 ∨ site ≥ L
  · have h1 : (decide (site < 0) || decide (site ≥ L)) = true := by simpa using h
    have h2 : ¬ (0 ≤ site ∧ site < L) := by omega
    rw [if_pos h1, if_neg h2]
  · have h1 : ¬ ((decide (site < 0) || decide (site ≥ L)) = true) := by simpa using h
    have h2 : 0 ≤ site ∧ site < L := by omega
    rw [if_neg h1, if_pos h2]
    simp only [countsBy_eq_countTable]
    have hc : ((columnAt rows site.toNat).filter fun s => s != OTHER && s != POINT && (!rg || s != GAP)) =
        (Spec.column rows site.toNat).filter fun s => s != 42 && s != 46 && (!rg || s != 45) := rfl
    rw [hc]
    by_cases h0 : ((Spec.column rows site.toNat).filter fun s => s != 42 && s != 46 && (!rg || s != 45)).length = 0
    · simp [h0]
    · have : (((Spec.column rows site.toNat).filter fun s => s != 42 && s != 46 && (!rg || s != 45)).length == 0) = false := by
        simpa using h0
      simp [h0, this]

/-- the per-site counts do not depend on the order of the rows -/
theorem charStatsSite_row_order_independent (rows rows' : CRows) (hp : rows.Perm rows') (L site : Int) :
    charStatsSite rows L site = charStatsSite rows' L site := by
  rw [charStatsSite_eq_spec, charStatsSite_eq_spec]
  unfold Spec.charStatsSite
  split
  · rw [Proofs.StatsCount.countTable_perm]
    exact hp.map _
  · rfl

/-- **`NbVariableSites`**: the early-exit loop over `charmap` counts exactly the sites holding two different
characters other than `-`, `.`, `*` -/
theorem nbVariableSites_eq_spec (rows : CRows) (L : Int) :
    nbVariableSites rows L = Spec.nbVariableSites rows L.toNat :=
  Proofs.StatsSites.nbVariableSites_eq rows L

/-- **`InformativeSites`**: the early-exit loop (stop as soon as two characters reached a count of two)
selects exactly the sites where at least two upper-cased characters occur at least twice among the
characters other than `-`, `.` and the wildcard -/
theorem informativeSites_eq_spec (rows : CRows) (L : Int) (alphabet : Nat) :
    informativeSites rows L alphabet = Spec.informativeSites rows L.toNat alphabet :=
  Proofs.StatsSites.informativeSites_eq rows L alphabet

/-- **`AvgAllelesPerSite`** is the quotient of: the number of distinct plain characters summed over the sites,
and the number of sites holding a plain character -/
theorem avgAllelesCounts_eq_spec (rows : CRows) (L : Int) :
    avgAllelesCounts rows L = Spec.allelesCounts rows L.toNat :=
  Proofs.StatsSites.avgAllelesCounts_eq rows L

/-- **`CountDifferences`** on an alignment without sequences returns two empty results (no crash) -/
theorem countDifferences_empty : countDifferences [] = ([], []) := rfl

/-- **`CountDifferences`, first result**: every kind of difference with the first row, in order of first
appearance -/
theorem countDifferences_all_eq_spec (rows : CRows) : (countDifferences rows).1 = Spec.allDiffs rows := by
  cases rows with
  | nil => rfl
  | cons f rest => exact Proofs.StatsDiff.countDifferences_all f rest

/-- **`CountDifferences`, second result**: one map per row other than the first; its keys are distinct (they
come in order of first appearance) and it holds, for every kind of difference, the number of positions where
that row differs from the first row in that way -/
theorem countDifferences_counts_eq_spec (f : String × Seq) (rest : CRows) :
    (countDifferences (f :: rest)).2.length = rest.length ∧
    ∀ i (hi : i < rest.length),
      (((countDifferences (f :: rest)).2.getD i []).map Prod.fst).Nodup ∧
      ∀ p, lookup p ((countDifferences (f :: rest)).2.getD i []) =
        if Spec.diffCount f.2 rest[i].2 p > 0 then some (Spec.diffCount f.2 rest[i].2 p) else none := by
  show (countDifferences1 f rest).2.length = rest.length ∧ _
  simp only [countDifferences]
  rw [Proofs.StatsDiff.countDifferences_rows]
  refine ⟨by simp, ?_⟩
  intro i hi
  have e : (rest.map fun r => Proofs.StatsDiff.tally (Spec.diffsOf f.2 r.2)).getD i [] =
      Proofs.StatsDiff.tally (Spec.diffsOf f.2 rest[i].2) := by
    simp [List.getD_eq_getElem?_getD, List.getElem?_map, List.getElem?_eq_getElem hi]
  rw [e]
  refine ⟨?_, ?_⟩
  · rw [Proofs.StatsDiff.keys_tally]
    exact Proofs.StatsDiff.firstOccurrences_nodup _
  · intro p
    exact Proofs.StatsDiff.lookup_tally _ p

/-- **`NumGapsUniquePerSequence(nil)`**: the counter slice filled site after site (with the scan that stops at
the second gap) holds, for every row, the number of sites where it has the only gap of the column -/
theorem numGapsUnique_eq_spec (rows : CRows) (L : Int) :
    numGapsUnique rows L = Spec.numGapsUnique rows L.toNat :=
  Proofs.StatsUnique.numGapsUnique_eq rows L

/-- **`NumMutationsUniquePerSequence(nil)`**: an index panic exactly when a column holds a byte ≥ 130;
otherwise, for every row, the number of sites where its character (neither gap nor wildcard) occurs once -/
theorem numMutationsUnique_eq_spec (rows : CRows) (L : Int) (alphabet : Nat) :
    numMutationsUnique rows L alphabet =
      if Spec.hasHighByte rows L.toNat then none else some (Spec.numMutationsUnique rows L.toNat alphabet) :=
  Proofs.StatsUnique.numMutationsUnique_eq rows L alphabet

/-- **IUPAC compatibility, on characters**: for two nucleotide characters (IUPAC letters in either case, `-`,
`*`, `X`, `.`) the test of the implementation on their `iupacToInt` codes answers "same base set, or a base
in common" -/
theorem equalOrCompatible_is_shared_base (c r : Byte)
    (hc : (Spec.ntBases c).isSome = true) (hr : (Spec.ntBases r).isSome = true) :
    (do let a ← nt2IndexIUPAC c; let b ← nt2IndexIUPAC r; equalOrCompatible a b) =
      some (Spec.compatible (Spec.basesOf c) (Spec.basesOf r)) := by
  have h := Proofs.StatsIupac.compat_eq c r hc hr
  have h1 := (Proofs.StatsIupac.fold_upper c).2.2.1
  have h2 := (Proofs.StatsIupac.fold_upper r).2.2.1
  rw [hc] at h1
  rw [hr] at h2
  unfold Proofs.StatsIupac.codeOf at h
  cases ha : nt2IndexIUPAC c with
  | none => rw [ha] at h1; simp at h1
  | some a =>
    cases hb : nt2IndexIUPAC r with
    | none => rw [hb] at h2; simp at h2
    | some b =>
      rw [ha, hb] at h
      simpa using h

/-- a character is known to `Nt2IndexIUPAC` exactly when it is a nucleotide character of the definition -/
theorem nt2IndexIUPAC_defined_iff (c : Byte) : (nt2IndexIUPAC c).isSome = (Spec.ntBases c).isSome :=
  ((Proofs.StatsIupac.fold_upper c).2.2.1).symm

/-- **`NumMutationsComparedToReferenceSequence`** = the number of positions whose query character is neither
a gap nor the wildcard and is incompatible with (nucleotides) / different from (otherwise) the reference
character; error exactly for different lengths or a non-nucleotide character in a nucleotide comparison.
In particular IUPAC-compatible characters, `N`/`X` and gaps in the query never count. -/
theorem numMutationsVsRef_eq_spec (alphabet : Nat) (s ref : Seq) :
    numMutationsVsRef alphabet s ref = Spec.numMutations alphabet s ref :=
  Proofs.StatsMut.numMutationsVsRef_eq alphabet s ref

/-- **`ListMutationsComparedToReferenceSequence`**: the scan with its insertion buffer and reference counter
lists, for every block of the pairwise alignment cut after each reference residue and numbered by reference
coordinate, one insertion holding all inserted characters and then the substitution (if any) -/
theorem listMutationsVsRef_eq_spec (alphabet : Nat) (s ref : Seq) :
    listMutationsVsRef alphabet s ref = Spec.mutationListVsRef alphabet s ref :=
  Proofs.StatsMut.listMutationsVsRef_eq alphabet s ref

/-- what is never listed / counted: a position whose query character is the wildcard or is
equal/compatible contributes no substitution (directly from the definition of a block's rendering) -/
theorem wildcard_or_compatible_is_no_substitution (all : Byte) (ins : List Byte) (c r : Byte) (eq : Bool) (p : Nat)
    (h : c = all ∨ eq = true) :
    Spec.renderBlock all ((ins, some (c, r, eq)), p) = if ins.isEmpty then [] else [(45, p, ins)] := by
  unfold Spec.renderBlock
  rcases h with h | h
  · subst h; simp
  · subst h; simp

/-! ## the codon-wise list (`ListMutationsComparedToReferenceSequence(alphabet, ref, true)`) -/

/-- the standard genetic code is always available: the call has no third way to fail -/
theorem standard_code_defined : geneticCode Gen.c_GENETIC_CODE_STANDARD = some Gen.standardcode := by decide

/-- **no crash, and an error exactly when the Go code returns one**: different lengths, or an alphabet other than
nucleotides (no character is refused: what is not a nucleotide code translates to `X`) -/
theorem listMutationsVsRefAA_error_iff (alphabet : Nat) (s ref : Seq) :
    listMutationsVsRefAA alphabet s ref = none ↔ (s.length ≠ ref.length ∨ alphabet ≠ 1) := by
  unfold listMutationsVsRefAA
  rw [standard_code_defined]
  by_cases hl : s.length = ref.length
  · by_cases ha : alphabet = 1
    · subst ha
      have : ((1 : Nat) != NUCLEOTIDS) = false := rfl
      simp [hl, this]
    · have : (alphabet != NUCLEOTIDS) = true := by
        simp only [bne_iff_ne, ne_eq]; exact ha
      simp [hl, this, ha]
  · have : (s.length != ref.length) = true := by simpa using hl
    simp [this, hl]

/-- the model and the naive definition (`Spec.aaMutations`) are defined on the same inputs -/
theorem listMutationsVsRefAA_defined_iff_spec (alphabet : Nat) (s ref : Seq) :
    listMutationsVsRefAA alphabet s ref = none ↔ Spec.aaMutations alphabet s ref = none := by
  rw [listMutationsVsRefAA_error_iff]
  unfold Spec.aaMutations
  by_cases hl : s.length = ref.length <;> by_cases ha : alphabet = 1 <;> simp [hl, ha]

/-- **every reported entry is justified**: it comes from a window of columns with `3 k` reference residues to its
left that is either a reference codon (first and last column hold a residue, three residues in all, any gaps between
them) - then it is what the loop body writes for the translation of that codon at position `k` - or three reference
gaps - then it is what the body writes for `-` at position `k − 1` (`Proofs.StatsMutAA.Justified`);
`aaEntry_reports_a_difference` says what the body writes -/
theorem listMutationsVsRefAA_entries_justified (s ref : Seq) (l : List (Byte × Int × List Byte))
    (h : listMutationsVsRefAA 1 s ref = some l) :
    ∀ e ∈ l, Proofs.StatsMutAA.Justified Gen.standardcode s ref e := by
  unfold listMutationsVsRefAA at h
  rw [standard_code_defined] at h
  have hn : ((1 : Nat) != NUCLEOTIDS) = false := rfl
  by_cases hl : (s.length != ref.length) = true
  · simp [hl] at h
  · simp only [hl, hn, Bool.false_eq_true, if_false, Option.some.injEq] at h
    subst h
    have := Proofs.StatsMutAA.loop_justified Gen.standardcode s ref ref.length 0 0 (by simp [ungap])
    simpa using this

/-- **what an entry says**: the reference amino acid and the position of its window; the alternative is `-` only when
the query has nothing but gaps in front of a reference codon, `/` only when the number of its residues there is not a
multiple of 3, else the translation of its residues three by three - and that translation is not the reference amino
acid alone (an unchanged codon is never listed) -/
theorem aaEntry_reports_a_difference (code : List (List Byte × Byte)) (refaa : Byte) (allgaps : Bool) (pos : Int)
    (q : Seq) (e : Byte × Int × List Byte) (he : e ∈ aaEntry code refaa allgaps pos q) :
    e.1 = refaa ∧ e.2.1 = pos ∧
    ((e.2.2 = [GAP] ∧ ungap q = [] ∧ allgaps = false) ∨
     (e.2.2 = [47] ∧ (ungap q).length % 3 ≠ 0) ∨
     (e.2.2 = codonsFrom code (ungap q) ∧ ungap q ≠ [] ∧ (ungap q).length % 3 = 0 ∧ e.2.2 ≠ [refaa])) :=
  Proofs.StatsMutAA.aaEntry_mem code refaa allgaps pos q e he

/-- **completeness - the model is the naive definition on every input**: the list written by the loop of the Go code
(walk over the reference with its skips of one or two gaps, its triples of reference gaps, the counter `aaidx`) is the
list of `Spec.aaMutations`: for every reference codon `k` (the residues `3k, 3k+1, 3k+2` of the reference, whatever gaps
lie between them) first the triples of gap columns that follow codon `k − 1` in which the query shows something, then
codon `k` itself when the query does not show its amino acid alone - nothing else, nothing missing, in this order.
(`Proofs.StatsMutAAEq.main`: induction over the walk; the translation is `Spec.translateCodon ncbi1` by C05.) -/
theorem listMutationsVsRefAA_eq_spec (alphabet : Nat) (s ref : Seq) :
    listMutationsVsRefAA alphabet s ref = Spec.aaMutations alphabet s ref := by
  unfold listMutationsVsRefAA Spec.aaMutations
  rw [standard_code_defined]
  by_cases hl : s.length = ref.length
  · by_cases ha : alphabet = 1
    · subst ha
      have hn : ((1 : Nat) != NUCLEOTIDS) = false := rfl
      have hl' : (s.length != ref.length) = false := by simpa using hl
      simp only [hn, Bool.false_eq_true, if_false, hl, ne_eq, not_true_eq_false]
      have hl'' : (ref.length != ref.length) = false := by simp
      simp only [hl'', Bool.false_eq_true, if_false]
      have hm := Proofs.StatsMutAAEq.main s ref ref.length 0 0 (by simp) (by omega)
        (by simpa using Proofs.StatsMutAAEq.resCols_eq ref) (by simp)
      simp only [List.drop_zero, Int.natCast_zero, Nat.sub_zero] at hm
      rw [hm, List.range_eq_range']
    · have : (alphabet != NUCLEOTIDS) = true := by
        simp only [bne_iff_ne, ne_eq]; exact ha
      simp [hl, this, ha]
  · have : (s.length != ref.length) = true := by simpa using hl
    simp [this, hl]

/-- an unchanged alignment lists nothing for a reference codon: the same residues in the window translate to the
reference amino acid -/
example : listMutationsVsRefAA 1 [65, 84, 71, 45, 45, 45, 71, 67, 65] [65, 84, 71, 45, 45, 45, 71, 67, 65] = some [] := by
  decide

/-- a substitution, an insertion of one codon after codon 0, a deletion and a frameshift; an insertion in front of the
first codon carries the position −1 -/
example : listMutationsVsRefAA 1 [65, 84, 65, 71, 71, 71, 45, 45, 45, 71, 67] [65, 84, 71, 45, 45, 45, 71, 67, 65, 71, 67] =
    some [(77, 0, [73]), (45, 0, [71]), (65, 1, [45])] := by decide
example : listMutationsVsRefAA 1 [65, 65, 65, 65, 84, 45] [45, 45, 45, 65, 84, 71] = some [(45, -1, [75]), (77, 0, [47])] := by decide

/-! ## `MaxCharStats` / `Consensus` on the actual count entries of a column -/

/-- the count entries of a column (Go: `mapstats`, here in order of first appearance) are the tally of the
upper-cased characters -/
theorem countUpper_eq_tally (col : List Byte) : countUpper col = Proofs.StatsDiff.tally (col.map toUpper) := by
  unfold countUpper Proofs.StatsDiff.tally
  rw [List.foldl_map]
  rfl

/-- their keys are distinct -/
theorem countUpper_keys_nodup (col : List Byte) : ((countUpper col).map Prod.fst).Nodup := by
  rw [countUpper_eq_tally, Proofs.StatsDiff.keys_tally]
  exact Proofs.StatsDiff.firstOccurrences_nodup _

/-- they hold the naive counts: for every byte value, the number of rows whose upper-cased character it is -/
theorem countUpper_lookup (col : List Byte) (k : Byte) :
    lookup k (countUpper col) =
      if Spec.occ Spec.upperCase col k > 0 then some (Spec.occ Spec.upperCase col k) else none := by
  rw [countUpper_eq_tally, Proofs.StatsDiff.lookup_tally]
  have : (col.map toUpper).count k = Spec.occ Spec.upperCase col k := by
    unfold Spec.occ
    rw [List.count_eq_countP, List.countP_map]
    rfl
  rw [this]

private theorem lookup_of_mem {l : List (Byte × Nat)} (hn : (l.map Prod.fst).Nodup) {k : Byte} {v : Nat}
    (h : (k, v) ∈ l) : lookup k l = some v := by
  induction l with
  | nil => simp at h
  | cons e t ih =>
    obtain ⟨k', v'⟩ := e
    simp only [List.map_cons, List.nodup_cons] at hn
    rcases List.mem_cons.mp h with e | e
    · simp only [Prod.mk.injEq] at e
      obtain ⟨rfl, rfl⟩ := e
      simp [lookup]
    · have hne : (k == k') = false := by
        simp only [beq_eq_false_iff_ne, ne_eq]
        intro hk; subst hk
        exact hn.1 (List.mem_map_of_mem (f := Prod.fst) e)
      simp only [lookup, hne, Bool.false_eq_true, if_false]
      exact ih hn.2 e

/-- every entry has a positive count -/
theorem countUpper_pos (col : List Byte) : ∀ e ∈ countUpper col, 0 < e.2 := by
  intro e he
  have h1 := lookup_of_mem (countUpper_keys_nodup col) (k := e.1) (v := e.2) he
  rw [countUpper_lookup] at h1
  split at h1
  · simp only [Option.some.injEq] at h1; omega
  · simp at h1

/-- **`MaxCharStats` at a site is deterministic**: whatever the order in which the map of counts of that
column is iterated, the character, its count and the total are those computed by the model -/
theorem maxCharSite_order_independent (alphabet : Nat) (ig iN : Bool) (col : List Byte) (es : List (Byte × Nat))
    (hp : es.Perm (countUpper col)) :
    let all : Byte := if alphabet == AMINOACIDS then 88 else 78
    let r := maxLoop ig iN all (toLower all) es (toUpper (col.headD 0), col.length, 0, 0)
    (r.1, r.2.1, r.2.2.1) = maxCharSite alphabet ig iN col := by
  intro all r
  unfold maxCharSite
  have hk : (es.map Prod.fst).Nodup := (hp.map Prod.fst).nodup_iff.mpr (countUpper_keys_nodup col)
  have := maxLoop_perm ig iN all (toLower all) es (countUpper col) hp hk (toUpper (col.headD 0), col.length, 0, 0)
  simp only [r, this]
  rfl

/-- **`MaxCharStats` at a site returns the naive majority**: when some character of the column is not
excluded, the result is a count entry that no admissible entry beats (higher count, or the same count and
a smaller byte) and `total` is the number of rows holding an admissible character; when every character is
excluded the first character (upper-cased) and the number of rows are returned -/
theorem maxCharSite_is_argmax (alphabet : Nat) (ig iN : Bool) (col : List Byte) :
    let all : Byte := if alphabet == AMINOACIDS then 88 else 78
    SelInv ig iN all (toLower all) (toUpper (col.headD 0)) col.length (countUpper col)
      (maxLoop ig iN all (toLower all) (countUpper col) (toUpper (col.headD 0), col.length, 0, 0)) := by
  intro all
  exact maxLoop_is_argmax ig iN all (toLower all) (countUpper col) (countUpper_pos col) _ _

/-! ## count profile -/

/-- `NewCountProfileFromAlignment` crashes (index into the 130-entry `names`) exactly when a residue is ≥ 130 -/
theorem countProfile_panic_iff (rows : CRows) (L : Int) :
    countProfile rows L = none ↔ ∃ r ∈ rows, ∃ c ∈ r.2, c ≥ 130 := by
  unfold countProfile
  by_cases h : rows.any (fun r => r.2.any fun c => c ≥ 130) = true
  · simp only [h, if_true, true_iff]
    simpa using h
  · have h' : rows.any (fun r => r.2.any fun c => c ≥ 130) = false := Bool.eq_false_iff.mpr h
    simp only [h', Bool.false_eq_true, if_false, reduceCtorEq, false_iff]
    intro hh; apply h; simpa using hh

/-- **the count profile is the naive per-site recount**: the header lists the characters in order of first
appearance (row after row, left to right); every character has one counter per site; a character is in the
profile exactly when it occurs in the alignment; its counter at site `j` is the number of rows holding it there -/
theorem countProfile_eq_spec (rows : CRows) (L : Int) (prof : List (Byte × List Nat))
    (h : countProfile rows L = some prof) :
    prof.map Prod.fst = Spec.profileHeader rows ∧
    (∀ q v, lookup q prof = some v → v.length = L.toNat) ∧
    (∀ q, (lookup q prof).isSome = true ↔ q ∈ rows.flatMap Prod.snd) ∧
    (∀ q j, j < L.toNat → ((lookup q prof).getD (List.replicate L.toNat 0)).getD j 0 = Spec.profileCountAt rows j q) := by
  unfold countProfile at h
  split at h
  · simp at h
  · simp only [Option.some.injEq] at h
    subst h
    exact Proofs.StatsProfile.profile_spec rows L.toNat

/-- **`Count(r, site)`** on that profile: an index panic for `r ≥ 130`, an error for a character that does not occur
or a site outside `[0, L)`, otherwise the number of rows holding `r` at that site -/
theorem profileCount_eq_spec (rows : CRows) (L : Int) (prof : List (Byte × List Nat))
    (h : countProfile rows L = some prof) (r : Byte) (site : Int) :
    profileCount prof r site = if r ≥ 130 then none else some (Spec.profileCount rows L.toNat r site) := by
  obtain ⟨_, h2, h3, h4⟩ := countProfile_eq_spec rows L prof h
  unfold profileCount Spec.profileCount
  by_cases hr : r ≥ 130
  · simp [hr]
  · simp only [hr, if_false, Option.some.injEq]
    cases hl : lookup r prof with
    | none =>
      have : ¬ r ∈ rows.flatMap Prod.snd := by
        intro hm
        have := (h3 r).mpr hm
        rw [hl] at this; simp at this
      simp [this]
    | some cs =>
      have hm : r ∈ rows.flatMap Prod.snd := (h3 r).mp (by rw [hl]; rfl)
      have hlen := h2 r cs hl
      simp only []
      by_cases hs : site < 0 ∨ site ≥ (cs.length : Int)
      · have h1 : (decide (site < 0) || decide (site ≥ (cs.length : Int))) = true := by simpa using hs
        have h5 : ¬ (r ∈ rows.flatMap Prod.snd ∧ 0 ≤ site ∧ site < (L.toNat : Int)) := by
          rw [hlen] at hs; omega
        rw [if_pos h1, if_neg h5]
      · have h1 : ¬ ((decide (site < 0) || decide (site ≥ (cs.length : Int))) = true) := by simpa using hs
        have h5 : r ∈ rows.flatMap Prod.snd ∧ 0 ≤ site ∧ site < (L.toNat : Int) := by
          rw [hlen] at hs; exact ⟨hm, by omega, by omega⟩
        rw [if_neg h1, if_pos h5]
        have := h4 r site.toNat (by rw [hlen] at hs; omega)
        rw [hl] at this
        simp only [Option.getD_some] at this
        rw [this]

/-- **`CountsAt(i)`**: an error exactly for a character index outside `[0, number of characters)` — never a crash -/
theorem profileCountsAt_error_iff (prof : List (Byte × List Nat)) (i : Int) :
    profileCountsAt prof i = none ↔ (i < 0 ∨ i ≥ prof.length) := by
  unfold profileCountsAt
  by_cases h : i < 0 ∨ i ≥ prof.length
  · have : (decide (i ≥ (prof.length : Int)) || decide (i < 0)) = true := by
      simp only [Bool.or_eq_true, decide_eq_true_eq]; omega
    simp [this, h]
  · have : ¬ ((decide (i ≥ (prof.length : Int)) || decide (i < 0)) = true) := by
      simp only [Bool.or_eq_true, decide_eq_true_eq]; omega
    simp only [this, if_false, h, iff_false]
    have hlt : i.toNat < prof.length := by omega
    simp [List.getElem?_eq_getElem hlt]

/-! ## unique gaps / mutations per sequence with a count profile -/

/-- **`NumGapsUniquePerSequence(profile)`**, the profile being `NewCountProfileFromAlignment` of a second alignment
`prows` (cached length `Lp`): the Go loops (no early exit; `numnew[j]++` at every gap the profile does not have;
`numuniques` / `numboth` for the only gap of a column) return an error exactly when the length check fails (the
profile holds a character and `Lp ≠ L`), and otherwise, for every row, the naive recounts of
`Spec.gapsWithProfileOf`: (gaps that are the only one of their column, gaps at sites where no profile row has a
gap, gaps that are both) -/
theorem numGapsUniqueProf_eq_spec (rows prows : CRows) (L Lp : Int) (prof : List (Byte × List Nat))
    (h : countProfile prows Lp = some prof) :
    numGapsUniqueProf rows L prof =
      if ((prows.flatMap Prod.snd).isEmpty || ((Lp.toNat : Int) == L)) then
        some ((List.range rows.length).map (fun i => (Spec.gapsWithProfileOf rows prows L.toNat i).1),
              (List.range rows.length).map (fun i => (Spec.gapsWithProfileOf rows prows L.toNat i).2.1),
              (List.range rows.length).map (fun i => (Spec.gapsWithProfileOf rows prows L.toNat i).2.2))
      else none :=
  Proofs.StatsUniqueProf.numGapsUniqueProf_eq rows prows L Lp.toNat prof
    (Proofs.StatsUniqueProf.profOf_of_countProfile prows Lp prof h)

/-- **`NumMutationsUniquePerSequence(profile)`**: an error exactly when the length check fails; else an index panic
exactly when one of the `L` columns holds a byte ≥ 130; otherwise, for every row, the naive recounts of
`Spec.mutationsWithProfileOf`: (characters — neither gap nor wildcard — occurring once in their column, characters
that no profile row has at that site, characters that are both) -/
theorem numMutationsUniqueProf_eq_spec (rows prows : CRows) (L Lp : Int) (alphabet : Nat) (prof : List (Byte × List Nat))
    (h : countProfile prows Lp = some prof) :
    numMutationsUniqueProf rows L alphabet prof =
      if !((prows.flatMap Prod.snd).isEmpty || ((Lp.toNat : Int) == L)) then some none
      else if Spec.hasHighByte rows L.toNat then none
      else some (some (
        (List.range rows.length).map (fun i => (Spec.mutationsWithProfileOf (Spec.wildcardOf alphabet) rows prows L.toNat i).1),
        (List.range rows.length).map (fun i => (Spec.mutationsWithProfileOf (Spec.wildcardOf alphabet) rows prows L.toNat i).2.1),
        (List.range rows.length).map (fun i => (Spec.mutationsWithProfileOf (Spec.wildcardOf alphabet) rows prows L.toNat i).2.2))) :=
  Proofs.StatsUniqueProf.numMutationsUniqueProf_eq rows prows L Lp.toNat alphabet prof
    (Proofs.StatsUniqueProf.profOf_of_countProfile prows Lp prof h)

/-- without a profile the first slice is what `NumGapsUniquePerSequence(nil)` returns: the profile only adds the
other two -/
theorem numGapsUniqueProf_first_eq_nil (rows prows : CRows) (L Lp : Int) (prof : List (Byte × List Nat))
    (h : countProfile prows Lp = some prof) (t : List Nat × List Nat × List Nat)
    (ht : numGapsUniqueProf rows L prof = some t) : t.1 = numGapsUnique rows L := by
  rw [numGapsUniqueProf_eq_spec rows prows L Lp prof h] at ht
  split at ht
  · simp only [Option.some.injEq] at ht
    subst ht
    rw [Proofs.StatsUnique.numGapsUnique_eq]
    rfl
  · simp at ht

/-! ## non-vacuity -/

private def exProws : CRows := [("p", [65, 45, 78, 45]), ("q", [65, 67, 78, 84])]
private def exGrows : CRows := [("a", [45, 45, 71, 45]), ("b", [65, 45, 45, 45]), ("c", [65, 67, 78, 45])]
example : countProfile exProws 4 = some [(65, [2, 0, 0, 0]), (45, [0, 1, 0, 1]), (78, [0, 0, 2, 0]), (67, [0, 1, 0, 0]),
    (84, [0, 0, 0, 1])] := by decide
example : numGapsUniqueProf exGrows 4 ((countProfile exProws 4).getD []) = some ([1, 1, 0], [1, 1, 0], [1, 1, 0]) := by decide
example : (List.range 3).map (Spec.gapsWithProfileOf exGrows exProws 4) = [(1, 1, 1), (1, 1, 1), (0, 0, 0)] := by decide
set_option maxRecDepth 100000 in
example : numMutationsUniqueProf exGrows 4 1 ((countProfile exProws 4).getD []) = some (some ([1, 0, 1], [1, 0, 0], [1, 0, 0])) := by
  decide
example : (List.range 3).map (Spec.mutationsWithProfileOf 78 exGrows exProws 4) = [(1, 1, 1), (0, 0, 0), (1, 0, 0)] := by decide
example : numGapsUniqueProf exGrows 4 ((countProfile exProws 4).getD []) ≠ none ∧
    numGapsUniqueProf [("a", [45])] 1 ((countProfile exProws 4).getD []) = none := by decide

example : maxLoop false false 78 110 [(65, 2), (67, 2), (71, 1)] (71, 5, 0, 0) = (65, 2, 5, 2) := by decide
example : maxLoop false false 78 110 [(67, 2), (71, 1), (65, 2)] (71, 5, 0, 0) = (65, 2, 5, 2) := by decide

/-- rows `AcN-`, `aGN-`, `CGT.`, `CCTA` (nucleotides) -/
def exRows : CRows := [("a", [65, 99, 78, 45]), ("b", [97, 71, 78, 45]), ("c", [67, 71, 84, 46]), ("d", [67, 67, 84, 65])]

example : maxCharSite 1 false false [65, 99, 67, 97] = (65, 2, 4) ∧ countUpper [65, 99, 67, 97] = [(65, 2), (67, 2)] := by decide
example : countProfile exRows 4 = some [(65, [1, 0, 0, 1]), (99, [0, 1, 0, 0]), (78, [0, 0, 2, 0]), (45, [0, 0, 0, 2]),
    (97, [1, 0, 0, 0]), (71, [0, 2, 0, 0]), (67, [2, 1, 0, 0]), (84, [0, 0, 2, 0]), (46, [0, 0, 0, 1])] := by decide
example : Spec.profileCount exRows 4 67 0 = some 2 ∧ Spec.profileCount exRows 4 67 4 = none ∧
    Spec.profileCount exRows 4 90 0 = none := by decide
example : charStatsSite exRows 4 1 = some [(67, 2), (71, 2)] := by decide
example : Spec.charStatsSite exRows 4 1 = some [(67, 2), (71, 2)] := by decide
example : charStatsSite exRows 4 4 = none ∧ charStatsSite exRows 4 (-1) = none := by decide
example : nbVariableSites exRows 4 = 3 ∧ Spec.nbVariableSites exRows 4 = 3 := by decide
example : informativeSites exRows 4 1 = [0, 1] ∧ Spec.informativeSites exRows 4 1 = [0, 1] := by decide
example : avgAllelesCounts exRows 4 = (9, 4) ∧ Spec.allelesCounts exRows 4 = (9, 4) := by decide
example : numGapsUnique exRows 4 = [0, 0, 0, 0] ∧
    numGapsUnique [("a", [45, 45]), ("b", [65, 45]), ("c", [65, 67])] 2 = [1, 0, 0] := by decide
example : numMutationsUnique exRows 4 1 = some [2, 1, 1, 2] ∧ Spec.numMutationsUnique exRows 4 1 = [2, 1, 1, 2] := by
  decide
example : numMutationsUnique [("a", [200])] 1 1 = none := by decide
example : (countDifferences exRows).1 = [(65, 97), (99, 71), (65, 67), (78, 84), (45, 46), (99, 67), (45, 65)] := by decide
example : Spec.allDiffs exRows = [(65, 97), (99, 71), (65, 67), (78, 84), (45, 46), (99, 67), (45, 65)] := by decide
/-- query `AR-NTTG` against reference `AC--T-A`: R/C incompatible; `N`, `T` inserted at coordinate 2; `T` inserted
at coordinate 3; G/A incompatible -/
example : listMutationsVsRef 1 [65, 82, 45, 78, 84, 84, 71] [65, 67, 45, 45, 84, 45, 65] =
    some [(67, 1, [82]), (45, 2, [78]), (45, 3, [84]), (65, 3, [71])] := by decide
example : Spec.mutationListVsRef 1 [65, 82, 45, 78, 84, 84, 71] [65, 67, 45, 45, 84, 45, 65] =
    some [(67, 1, [82]), (45, 2, [78]), (45, 3, [84]), (65, 3, [71])] := by decide
example : numMutationsVsRef 1 [65, 82, 45, 78, 84, 84, 71] [65, 67, 45, 45, 84, 45, 65] = some 3 := by decide
example : (Spec.ntBases 114).isSome = true ∧ (Spec.ntBases 89).isSome = true ∧
    Spec.compatible (Spec.basesOf 114) (Spec.basesOf 89) = false := by decide

/-! ### Frameshifts / Stops (`Gv.Model.FrameStats`, the statistics `goalign phasent` logs)

Error / panic conditions and shape exactly as in Go, and soundness of the reported coordinates.  That the loops
compute the documented meaning (`Gv.Spec.FrameStats`: the longest dephased part between two in-phase points; the
first stop codon of the residues of the row) is checked by the oracle on every answer of the implementation, not
proved. -/

/-- `Frameshifts` panics (index out of range on `a.seqs[0]`) exactly on an alignment without sequences -/
theorem frameshifts_panic_iff (rows : CRows) (flag : Bool) : frameshifts rows flag = none ↔ rows = [] := by
  cases rows <;> simp [frameshifts]

/-- one entry per row, the first one the zero value -/
theorem frameshifts_shape (rows : CRows) (flag : Bool) (l : List (Nat × Nat)) (h : frameshifts rows flag = some l) :
    l.length = rows.length ∧ l.head? = some (0, 0) := by
  cases rows with
  | nil => simp [frameshifts] at h
  | cons r t =>
    simp only [frameshifts, Option.some.injEq] at h
    subst h
    simp

private theorem zip_res_le (ref seq : Seq) :
    ((ref.zip seq).filter fun p => p.2 != GAP).length ≤ (seq.filter (· != GAP)).length := by
  induction ref generalizing seq with
  | nil => simp
  | cons a t ih =>
    cases seq with
    | nil => simp
    | cons c u =>
      have := ih u
      simp only [List.zip_cons_cons, List.filter_cons]
      by_cases hc : (c != GAP) = true
      · simp only [hc, ↓reduceIte, List.length_cons]; omega
      · simp only [hc, Bool.false_eq_true, ↓reduceIte]; exact this

/-- soundness of the reported coordinates: every entry is the zero value or an interval `[Start, End)` of MORE than
one residue, and `End` is at most the number of residues of the row (coordinates of the un-gapped row) -/
theorem frameshiftsRow_bounds (flag : Bool) (ref seq : Seq) :
    ((frameshiftsRow flag ref seq).1 = 0 ∧ (frameshiftsRow flag ref seq).2 = 0 ∨
      (frameshiftsRow flag ref seq).1 + 1 < (frameshiftsRow flag ref seq).2) ∧
    (frameshiftsRow flag ref seq).2 ≤ (seq.filter (· != GAP)).length := by
  have h := Gv.Proofs.FrameStats.fsLoop_inv flag (ref.zip seq) ⟨0, 0, 0, false, 0, 0⟩
    ⟨Nat.le_refl _, Nat.le_refl _, Or.inl ⟨rfl, rfl⟩⟩
  obtain ⟨⟨_, h2, h3⟩, h4⟩ := h
  have h5 := zip_res_le ref seq
  simp only [frameshiftsRow]
  refine ⟨h3, ?_⟩
  simp only [Nat.zero_add] at h4
  exact Nat.le_trans h2 (Nat.le_trans h4 h5)

/-- `Stops` answers an error exactly for a genetic code other than 0, 1, 2 - whatever the alignment -/
theorem stops_err_iff (rows : CRows) (flag : Bool) (code : Int) :
    stops rows flag code = .err ↔ ¬ (code = 0 ∨ code = 1 ∨ code = 2) := by
  unfold stops geneticCode
  by_cases h0 : code = 0
  · subst h0; cases rows <;> simp [Gen.c_GENETIC_CODE_STANDARD]
  · by_cases h1 : code = 1
    · subst h1; cases rows <;> simp [Gen.c_GENETIC_CODE_STANDARD, Gen.c_GENETIC_CODE_VETEBRATE_MITO]
    · by_cases h2 : code = 2
      · subst h2
        cases rows <;> simp [Gen.c_GENETIC_CODE_STANDARD, Gen.c_GENETIC_CODE_VETEBRATE_MITO, Gen.c_GENETIC_CODE_INVETEBRATE_MITO]
      · simp [Gen.c_GENETIC_CODE_STANDARD, Gen.c_GENETIC_CODE_VETEBRATE_MITO, Gen.c_GENETIC_CODE_INVETEBRATE_MITO, h0, h1, h2]

/-- `Stops` panics exactly for a known genetic code on an alignment without sequences (the code is looked up first) -/
theorem stops_panic_iff (rows : CRows) (flag : Bool) (code : Int) :
    stops rows flag code = .panic ↔ (code = 0 ∨ code = 1 ∨ code = 2) ∧ rows = [] := by
  unfold stops geneticCode
  by_cases h0 : code = 0
  · subst h0; cases rows <;> simp [Gen.c_GENETIC_CODE_STANDARD]
  · by_cases h1 : code = 1
    · subst h1; cases rows <;> simp [Gen.c_GENETIC_CODE_STANDARD, Gen.c_GENETIC_CODE_VETEBRATE_MITO]
    · by_cases h2 : code = 2
      · subst h2
        cases rows <;> simp [Gen.c_GENETIC_CODE_STANDARD, Gen.c_GENETIC_CODE_VETEBRATE_MITO, Gen.c_GENETIC_CODE_INVETEBRATE_MITO]
      · simp [Gen.c_GENETIC_CODE_STANDARD, Gen.c_GENETIC_CODE_VETEBRATE_MITO, Gen.c_GENETIC_CODE_INVETEBRATE_MITO, h0, h1, h2]


end Gv.Props.C14
