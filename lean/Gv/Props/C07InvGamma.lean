import Gv.Props.C07Inv
import Mathlib.Analysis.SpecialFunctions.Gamma.Basic
import Mathlib.Probability.Distributions.Gamma
/-!
# C07 ↔ C18, with rate heterogeneity: the gamma variants of the estimators

With site rates `r` drawn from a gamma distribution of shape `α` and mean one, the transition matrix seen by a
pair of sequences at distance `x` is the mixture `E_r[P(r·x)]`.  For an eigen-assembled
`P(x) = R·diag(e^{d_k x})·L` the mixture replaces every spectral weight `e^{d_k x}` by the moment generating
function of the gamma distribution, `(1 − d_k x/α)^{−α}` (`gamma_mgf`, proved here from Mathlib's Gamma
integral).  The theorems below are uniform in `g : Bool` (`false`: one rate, weights `e^{y}`, estimators with
`−ln`; `true`: gamma rates, weights `(1 − y/α)^{−α}`, estimators of Jin & Nei 1990): the published estimator
applied to the expected observables under `tnW g α …` returns the distance, for JC69, K80, F81, F84 and TN93.

`tnW false` is the `P(x)` of `Props/C07Inv.lean` (`tnW_false_eq_tnP`); that `tnW true` is entry by entry the
gamma integral of `P(r·x)` is `tnW_true_eq_integral`.
-/
namespace Gv.Props.C07InvGamma
open Gv Gv.Gen.Models Gv.Spec.Subst Gv.Spec.Published Gv.Proofs Gv.Proofs.SubstReal Gv.Proofs.DistReal
  Gv.Props.C18 Gv.Props.C07Inv Matrix MeasureTheory Set

/-! ## spectral weights and their inverse link -/

/-- `E[e^{y r}]`: `e^{y}` for one rate, `(1 − y/α)^{−α}` for gamma rates of shape `α`, mean one -/
noncomputable def wt (g : Bool) (al y : ℝ) : ℝ := if g then (1 - y / al) ^ (-al) else Real.exp y

theorem wt_zero (g : Bool) (al : ℝ) : wt g al 0 = 1 := by
  cases g <;> simp [wt]

theorem wt_pos (g : Bool) (al y : ℝ) (hal : 0 < al) (hy : y ≤ 0) : 0 < wt g al y := by
  cases g
  · exact Real.exp_pos _
  · simp only [wt, if_true]
    apply Real.rpow_pos_of_pos
    have : 0 ≤ -y / al := div_nonneg (by linarith) hal.le
    have : y / al = -(-y / al) := by ring
    linarith

/-- the link of the published formulas (`−ln x`, resp. `α (x^{−1/α} − 1)`) inverts the weight -/
theorem nl_wt (g : Bool) (al y : ℝ) (hal : 0 < al) (hy : y ≤ 0) : nl g al (wt g al y) = -y := by
  cases g
  · simp [nl, wt]
  · simp only [nl, wt, if_true]
    have hb : 0 ≤ 1 - y / al := by
      have : 0 ≤ -y / al := div_nonneg (by linarith) hal.le
      have : y / al = -(-y / al) := by ring
      linarith
    rw [← Real.rpow_mul hb]
    have : -al * (-1 / al) = 1 := by field_simp
    rw [this, Real.rpow_one]
    field_simp
    ring

/-- **moment generating function of the gamma distribution** (shape `α`, rate `α`: mean one) -/
theorem gamma_mgf (al y : ℝ) (hal : 0 < al) (hy : y < al) :
    ∫ r in Ioi (0 : ℝ), Real.exp (y * r) * ProbabilityTheory.gammaPDFReal al al r = (1 - y / al) ^ (-al) := by
  have hpos : 0 < al - y := by linarith
  have hcongr : ∀ r ∈ Ioi (0 : ℝ), Real.exp (y * r) * ProbabilityTheory.gammaPDFReal al al r
      = al ^ al / Real.Gamma al * (r ^ (al - 1) * Real.exp (-((al - y) * r))) := by
    intro r hr
    have hr0 : (0 : ℝ) ≤ r := le_of_lt hr
    simp only [ProbabilityTheory.gammaPDFReal, hr0, if_true]
    have : Real.exp (y * r) * Real.exp (-(al * r)) = Real.exp (-((al - y) * r)) := by
      rw [← Real.exp_add]; congr 1; ring
    calc Real.exp (y * r) * (al ^ al / Real.Gamma al * r ^ (al - 1) * Real.exp (-(al * r)))
        = al ^ al / Real.Gamma al * (r ^ (al - 1) * (Real.exp (y * r) * Real.exp (-(al * r)))) := by ring
      _ = _ := by rw [this]
  rw [setIntegral_congr_fun measurableSet_Ioi hcongr, integral_const_mul,
    Real.integral_rpow_mul_exp_neg_mul_Ioi hal hpos]
  have hG : Real.Gamma al ≠ 0 := (Real.Gamma_pos_of_pos hal).ne'
  have h1 : (1 / (al - y)) ^ al = ((al - y) ^ al)⁻¹ := by
    rw [one_div, Real.inv_rpow hpos.le]
  have h2 : (1 - y / al) ^ (-al) = al ^ al * ((al - y) ^ al)⁻¹ := by
    have : 1 - y / al = (al - y) / al := by field_simp
    rw [this, Real.rpow_neg (div_nonneg hpos.le hal.le), Real.div_rpow hpos.le hal.le, inv_div, div_eq_mul_inv]
  rw [h1, h2]
  field_simp

/-! ## the family with arbitrary spectral weights -/

/-- `R · diag(1, e₁, e₂, e₃) · L` with the eigenvectors of the Tamura–Nei family -/
noncomputable def tnA (e1 e2 e3 a c g t : ℝ) : Matrix (Fin 4) (Fin 4) ℝ :=
  tnR a c g t * diagonal (fun k : Fin 4 => ([1, e1, e2, e3] : List ℝ).getD k.val 0) * tnL a c g t

/-- the expected transition matrix at distance `x` with eigenvalues `0, d₁, d₂, d₃` (one rate, or gamma rates) -/
noncomputable def tnW (g : Bool) (al d1 d2 d3 a c g' t x : ℝ) : Matrix (Fin 4) (Fin 4) ℝ :=
  tnA (wt g al (d1 * x)) (wt g al (d2 * x)) (wt g al (d3 * x)) a c g' t

theorem tnP_eq_tnA (d1 d2 d3 a c g t x : ℝ) :
    tnP d1 d2 d3 a c g t x = tnA (Real.exp (d1 * x)) (Real.exp (d2 * x)) (Real.exp (d3 * x)) a c g t := by
  have h : (fun k : Fin 4 => Real.exp (tnD d1 d2 d3 k * x))
      = fun k : Fin 4 => ([1, Real.exp (d1 * x), Real.exp (d2 * x), Real.exp (d3 * x)] : List ℝ).getD k.val 0 := by
    funext k; fin_cases k <;> simp [tnD]
  unfold tnP tnA MatrixExp.assembly
  rw [h]

/-- with one rate, `tnW` is the `P(x)` of `Props/C07Inv.lean` -/
theorem tnW_false_eq_tnP (al d1 d2 d3 a c g t x : ℝ) : tnW false al d1 d2 d3 a c g t x = tnP d1 d2 d3 a c g t x := by
  rw [tnP_eq_tnA]; rfl

theorem tnA_apply (e1 e2 e3 a c g t : ℝ) (i j : Fin 4) :
    tnA e1 e2 e3 a c g t i j = tnR a c g t i 0 * tnL a c g t 0 j + tnR a c g t i 1 * e1 * tnL a c g t 1 j
      + tnR a c g t i 2 * e2 * tnL a c g t 2 j + tnR a c g t i 3 * e3 * tnL a c g t 3 j := by
  unfold tnA
  rw [Matrix.mul_apply, Fin.sum_univ_four]
  simp only [Matrix.mul_diagonal]
  simp

/-- **gamma rates are a mixture**: entry by entry, `tnW true` is the integral of `P(r·x)` against the gamma
density of shape `α` and mean one (for eigenvalues `d_k ≤ 0`, `x ≥ 0`) -/
theorem tnW_true_eq_integral (al d1 d2 d3 a c g t x : ℝ) (hal : 0 < al) (h1 : d1 ≤ 0) (h2 : d2 ≤ 0) (h3 : d3 ≤ 0)
    (hx : 0 ≤ x) (i j : Fin 4) :
    tnW true al d1 d2 d3 a c g t x i j =
      ∫ r in Ioi (0 : ℝ), tnP d1 d2 d3 a c g t (x * r) i j * ProbabilityTheory.gammaPDFReal al al r := by
  have hy : ∀ d : ℝ, d ≤ 0 → d * x < al := fun d hd => lt_of_le_of_lt (mul_nonpos_of_nonpos_of_nonneg hd hx) hal
  -- integrability of `e^{y r} · pdf(r)` on `(0, ∞)`: its integral is the (non-zero) m.g.f.
  have hint : ∀ y : ℝ, y < al →
      IntegrableOn (fun r => Real.exp (y * r) * ProbabilityTheory.gammaPDFReal al al r) (Ioi 0) := by
    intro y hy
    by_contra hni
    have h0 := integral_undef hni
    rw [gamma_mgf al y hal hy] at h0
    have hpos : 0 < 1 - y / al := by
      have : y / al < 1 := (div_lt_one hal).mpr hy
      linarith
    exact (Real.rpow_pos_of_pos hpos _).ne' h0
  have hone : IntegrableOn (fun r => ProbabilityTheory.gammaPDFReal al al r) (Ioi 0) := by
    have := hint 0 hal
    simpa using this
  have hone' : ∫ r in Ioi (0 : ℝ), ProbabilityTheory.gammaPDFReal al al r = 1 := by
    have := gamma_mgf al 0 hal hal
    simpa using this
  simp only [tnW, tnA_apply, wt, if_true]
  rw [← gamma_mgf al (d1 * x) hal (hy d1 h1), ← gamma_mgf al (d2 * x) hal (hy d2 h2),
    ← gamma_mgf al (d3 * x) hal (hy d3 h3)]
  simp only [tnP_eq_tnA, tnA_apply]
  have hfun : ∀ r : ℝ, (tnR a c g t i 0 * tnL a c g t 0 j + tnR a c g t i 1 * Real.exp (d1 * (x * r)) * tnL a c g t 1 j
        + tnR a c g t i 2 * Real.exp (d2 * (x * r)) * tnL a c g t 2 j
        + tnR a c g t i 3 * Real.exp (d3 * (x * r)) * tnL a c g t 3 j) * ProbabilityTheory.gammaPDFReal al al r
      = tnR a c g t i 0 * tnL a c g t 0 j * ProbabilityTheory.gammaPDFReal al al r
        + tnR a c g t i 1 * tnL a c g t 1 j * (Real.exp (d1 * x * r) * ProbabilityTheory.gammaPDFReal al al r)
        + tnR a c g t i 2 * tnL a c g t 2 j * (Real.exp (d2 * x * r) * ProbabilityTheory.gammaPDFReal al al r)
        + tnR a c g t i 3 * tnL a c g t 3 j * (Real.exp (d3 * x * r) * ProbabilityTheory.gammaPDFReal al al r) := by
    intro r; rw [mul_assoc d1, mul_assoc d2, mul_assoc d3]; ring
  simp only [hfun]
  have i0 := hone.const_mul (tnR a c g t i 0 * tnL a c g t 0 j)
  have i1 := (hint (d1 * x) (hy d1 h1)).const_mul (tnR a c g t i 1 * tnL a c g t 1 j)
  have i2 := (hint (d2 * x) (hy d2 h2)).const_mul (tnR a c g t i 2 * tnL a c g t 2 j)
  have i3 := (hint (d3 * x) (hy d3 h3)).const_mul (tnR a c g t i 3 * tnL a c g t 3 j)
  have i01 : Integrable (fun r => tnR a c g t i 0 * tnL a c g t 0 j * ProbabilityTheory.gammaPDFReal al al r
      + tnR a c g t i 1 * tnL a c g t 1 j * (Real.exp (d1 * x * r) * ProbabilityTheory.gammaPDFReal al al r))
      (volume.restrict (Ioi 0)) := i0.add i1
  have i012 : Integrable (fun r => tnR a c g t i 0 * tnL a c g t 0 j * ProbabilityTheory.gammaPDFReal al al r
      + tnR a c g t i 1 * tnL a c g t 1 j * (Real.exp (d1 * x * r) * ProbabilityTheory.gammaPDFReal al al r)
      + tnR a c g t i 2 * tnL a c g t 2 j * (Real.exp (d2 * x * r) * ProbabilityTheory.gammaPDFReal al al r))
      (volume.restrict (Ioi 0)) := i01.add i2
  rw [integral_add i012 i3, integral_add i01 i2, integral_add i0 i1,
    integral_const_mul, integral_const_mul, integral_const_mul, integral_const_mul, hone']
  ring

/-! ## expected observables and logarithm arguments for arbitrary weights -/

theorem tnA_expected (e1 e2 e3 a c g t : ℝ) (ha : 0 < a) (hc : 0 < c) (hg : 0 < g) (ht : 0 < t) :
    expTv (freq a c g t) (tnA e1 e2 e3 a c g t) = 2 * (a + g) * (c + t) * (1 - e3) ∧
    expAG (freq a c g t) (tnA e1 e2 e3 a c g t) = 2 * a * g / (a + g) * ((a + g) + (c + t) * e3 - e2) ∧
    expCT (freq a c g t) (tnA e1 e2 e3 a c g t) = 2 * c * t / (c + t) * ((c + t) + (a + g) * e3 - e1) := by
  have hR : a + g ≠ 0 := by positivity
  have hY : t + c ≠ 0 := by positivity
  have hY' : c + t ≠ 0 := by positivity
  have hg' := hg.ne'
  have ht' := ht.ne'
  rw [expTv_eq, expAG, expCT]
  simp only [tnA_apply]
  simp [freq, pi4, tnR, tnL, f84R, f84L, f84Eig, F84Model_Eigens, F84Model_InitModel]
  refine ⟨?_, ?_, ?_⟩ <;> field_simp <;> ring

/-- the three logarithm arguments of TN93 are the three weights -/
theorem tnA_tn93_args (e1 e2 e3 a c g t : ℝ) (ha : 0 < a) (hc : 0 < c) (hg : 0 < g) (ht : 0 < t)
    (hsum : a + c + g + t = 1) :
    tn93E1 a c g t (expTv (freq a c g t) (tnA e1 e2 e3 a c g t)) = e3 ∧
    tn93E2 a c g t (expAG (freq a c g t) (tnA e1 e2 e3 a c g t)) (expTv (freq a c g t) (tnA e1 e2 e3 a c g t)) = e2 ∧
    tn93E3 a c g t (expCT (freq a c g t) (tnA e1 e2 e3 a c g t)) (expTv (freq a c g t) (tnA e1 e2 e3 a c g t)) = e1 := by
  obtain ⟨hv, hag, hct⟩ := tnA_expected e1 e2 e3 a c g t ha hc hg ht
  rw [hv, hag, hct]
  have hR : a + g ≠ 0 := by positivity
  have hY : c + t ≠ 0 := by positivity
  have ha' := ha.ne'
  have hc' := hc.ne'
  have hg' := hg.ne'
  have ht' := ht.ne'
  unfold tn93E1 tn93E2 tn93E3
  real_like
  obtain rfl : t = 1 - a - c - g := by linarith
  refine ⟨?_, ?_, ?_⟩ <;> field_simp <;> ring

/-- the two logarithm arguments of F84 (`e₁ = e₂ = e`) -/
theorem tnA_f84_args (e e3 a c g t : ℝ) (ha : 0 < a) (hc : 0 < c) (hg : 0 < g) (ht : 0 < t)
    (hsum : a + c + g + t = 1) :
    1 - expTs (freq a c g t) (tnA e e e3 a c g t) / (2 * f84A a c g t)
      - (f84A a c g t - f84B a c g t) * expTv (freq a c g t) (tnA e e e3 a c g t) / (2 * f84A a c g t * f84C a c g t) = e ∧
    1 - expTv (freq a c g t) (tnA e e e3 a c g t) / (2 * f84C a c g t) = e3 := by
  obtain ⟨hv, hag, hct⟩ := tnA_expected e e e3 a c g t ha hc hg ht
  rw [expTs_eq, hv, hag, hct]
  have hR : a + g ≠ 0 := by positivity
  have hY : c + t ≠ 0 := by positivity
  have hAne : c * t * (a + g) + a * g * (c + t) ≠ 0 := by positivity
  have hRY : a + g + (c + t) = 1 := by linarith
  unfold f84A f84B f84C
  real_like
  constructor
  · clear hsum hv hag hct
    generalize a + g = R at *
    generalize c + t = Y at *
    obtain rfl : Y = 1 - R := by linarith
    have ht' := ht.ne'
    clear hc ha hg hRY
    obtain ⟨D, hD⟩ : ∃ D, D = c * t * R + a * g * (1 - R) := ⟨_, rfl⟩
    rw [← hD] at hAne
    obtain rfl : c = (D - a * g * (1 - R)) / (t * R) := by rw [hD]; field_simp; ring
    clear hD
    field_simp
    rw [show D - a * g * (1 - R) + a * g * (1 - R) = D by ring]
    field_simp
    ring
  · field_simp; ring

/-- F81 (`e₁ = e₂ = e₃ = e`): `1 − p/b = e` -/
theorem tnA_f81_arg (e a c g t : ℝ) (ha : 0 < a) (hc : 0 < c) (hg : 0 < g) (ht : 0 < t)
    (hsum : a + c + g + t = 1) :
    1 - expDiff (freq a c g t) (tnA e e e a c g t) / tajimaNeiB a c g t = e := by
  obtain ⟨hv, hag, hct⟩ := tnA_expected e e e a c g t ha hc hg ht
  have hb := (tajimaNeiB_pos a c g t ha hc hg ht hsum).ne'
  rw [expDiff_eq_ts_add_tv, expTs_eq, hv, hag, hct]
  have hR : a + g ≠ 0 := by positivity
  have hY : c + t ≠ 0 := by positivity
  unfold tajimaNeiB at hb ⊢
  real_like at hb ⊢
  have key : 2 * a * g / (a + g) * (a + g + (c + t) * e - e) + 2 * c * t / (c + t) * (c + t + (a + g) * e - e)
      + 2 * (a + g) * (c + t) * (1 - e) = (1 - (a * a + c * c + g * g + t * t)) * (1 - e) := by
    have ht' : t = 1 - a - c - g := by linarith
    field_simp
    subst ht'
    ring
  rw [key]
  generalize 1 - (a * a + c * c + g * g + t * t) = b at hb ⊢
  field_simp
  ring

/-! ## the estimators invert their models, with one rate (`g = false`) or gamma rates (`g = true`) -/

/-- **TN93** (Tamura & Nei 1993, and its gamma form) -/
theorem tn93_rates_invert (g : Bool) (al κ1 κ2 a c g' t x : ℝ) (hal : 0 < al) (h1 : 0 < κ1) (h2 : 0 < κ2)
    (ha : 0 < a) (hc : 0 < c) (hg : 0 < g') (ht : 0 < t) (hsum : a + c + g' + t = 1) (hx : 0 ≤ x) :
    let P := tnW g al (tn93D1 κ1 κ2 a c g' t) (tn93D2 κ1 κ2 a c g' t) (tn93D3 κ1 κ2 a c g' t) a c g' t x
    (if g then tn93Gamma al a c g' t (expAG (freq a c g' t) P) (expCT (freq a c g' t) P) (expTv (freq a c g' t) P)
     else tn93 a c g' t (expAG (freq a c g' t) P) (expCT (freq a c g' t) P) (expTv (freq a c g' t) P)) = x := by
  intro P
  have hP : P = tnA (wt g al (tn93D1 κ1 κ2 a c g' t * x)) (wt g al (tn93D2 κ1 κ2 a c g' t * x))
      (wt g al (tn93D3 κ1 κ2 a c g' t * x)) a c g' t := rfl
  clear_value P
  have hM := tn93Norm_pos κ1 κ2 a c g' t h1 h2 ha hc hg ht
  have hR : a + g' ≠ 0 := by positivity
  have hY : c + t ≠ 0 := by positivity
  have hform : (if g then tn93Gamma al a c g' t (expAG (freq a c g' t) P) (expCT (freq a c g' t) P) (expTv (freq a c g' t) P)
      else tn93 a c g' t (expAG (freq a c g' t) P) (expCT (freq a c g' t) P) (expTv (freq a c g' t) P))
      = tnK1 a g' * nl g al (tn93E2 a c g' t (expAG (freq a c g' t) P) (expTv (freq a c g' t) P))
        + tnK2 c t * nl g al (tn93E3 a c g' t (expCT (freq a c g' t) P) (expTv (freq a c g' t) P))
        + tnK3 a c g' t * nl g al (tn93E1 a c g' t (expTv (freq a c g' t) P)) := by
    cases g
    · simp only [Bool.false_eq_true, if_false]; exact tn93S_eq_nl al _ _ _ _ _ _ _
    · simp only [if_true]; exact tn93GammaS_eq_nl al _ _ _ _ _ _ _ hR hY hsum
  obtain ⟨e1, e2, e3⟩ := tnA_tn93_args (wt g al (tn93D1 κ1 κ2 a c g' t * x)) (wt g al (tn93D2 κ1 κ2 a c g' t * x))
    (wt g al (tn93D3 κ1 κ2 a c g' t * x)) a c g' t ha hc hg ht hsum
  rw [← hP] at e1 e2 e3
  have hd : ∀ n : ℝ, 0 ≤ n → -n / tn93Norm κ1 κ2 a c g' t * x ≤ 0 := by
    intro n hn
    have : 0 ≤ n / tn93Norm κ1 κ2 a c g' t * x := mul_nonneg (div_nonneg hn hM.le) hx
    have e : -n / tn93Norm κ1 κ2 a c g' t * x = -(n / tn93Norm κ1 κ2 a c g' t * x) := by ring
    linarith
  rw [hform, e1, e2, e3, nl_wt g al _ hal (by unfold tn93D2; exact hd _ (by positivity)),
    nl_wt g al _ hal (by unfold tn93D1; exact hd _ (by positivity)),
    nl_wt g al _ hal (by unfold tn93D3; exact hd 1 zero_le_one)]
  have hMne := hM.ne'
  unfold tnK1 tnK2 tnK3 tn93D1 tn93D2 tn93D3
  field_simp
  unfold tn93Norm
  ring

/-- **F84** (and its gamma form) -/
theorem f84_rates_invert (g : Bool) (al κ a c g' t x : ℝ) (hal : 0 < al) (hκ : 0 ≤ κ)
    (ha : 0 < a) (hc : 0 < c) (hg : 0 < g') (ht : 0 < t) (hsum : a + c + g' + t = 1) (hx : 0 ≤ x) :
    let P := tnW g al (-f84Norm κ a c g' t * (1 + κ)) (-f84Norm κ a c g' t * (1 + κ)) (-f84Norm κ a c g' t) a c g' t x
    (if g then f84Gamma al a c g' t (expTs (freq a c g' t) P) (expTv (freq a c g' t) P)
     else f84 a c g' t (expTs (freq a c g' t) P) (expTv (freq a c g' t) P)) = x := by
  intro P
  have hP : P = tnA (wt g al (-f84Norm κ a c g' t * (1 + κ) * x)) (wt g al (-f84Norm κ a c g' t * (1 + κ) * x))
      (wt g al (-f84Norm κ a c g' t * x)) a c g' t := rfl
  clear_value P
  have hN := f84Norm_pos κ a c g' t hκ ha hc hg ht hsum
  obtain ⟨e1, e3⟩ := tnA_f84_args (wt g al (-f84Norm κ a c g' t * (1 + κ) * x)) (wt g al (-f84Norm κ a c g' t * x))
    a c g' t ha hc hg ht hsum
  rw [← hP] at e1 e3
  rw [f84S_eq_nl g al, e1, e3,
    nl_wt g al _ hal (by have := mul_nonneg (mul_nonneg hN.le (by linarith : (0 : ℝ) ≤ 1 + κ)) hx; linarith),
    nl_wt g al _ hal (by have := mul_nonneg hN.le hx; linarith)]
  unfold f84Norm at hN ⊢
  unfold f84A f84B f84C
  real_like
  have hR : a + g' ≠ 0 := by positivity
  have hY : c + t ≠ 0 := by positivity
  have hden : 0 < 1 - a * a - c * c - g' * g' - t * t + 2 * κ * (c * t / (t + c) + a * g' / (a + g')) :=
    one_div_pos.mp hN
  clear hN
  rw [show t + c = c + t from add_comm t c] at hden ⊢
  obtain ⟨A, hA⟩ : ∃ A, A = c * t / (c + t) + a * g' / (a + g') := ⟨_, rfl⟩
  obtain ⟨Z, hZ⟩ : ∃ Z, Z = κ * A + (c * t + a * g') + (a + g') * (c + t) := ⟨_, rfl⟩
  have key : 1 - a * a - c * c - g' * g' - t * t + 2 * κ * (c * t / (c + t) + a * g' / (a + g')) = 2 * Z := by
    rw [hZ, hA]; linear_combination (-(a + c + g' + t + 1)) * hsum
  rw [key] at hden ⊢
  rw [← hA]
  have hZ0 : Z ≠ 0 := by linarith
  field_simp
  rw [hZ]; ring

/-- **F81 / Tajima–Nei** (and its gamma form) -/
theorem f81_rates_invert (g : Bool) (al a c g' t x : ℝ) (hal : 0 < al)
    (ha : 0 < a) (hc : 0 < c) (hg : 0 < g') (ht : 0 < t) (hsum : a + c + g' + t = 1) (hx : 0 ≤ x) :
    let P := tnW g al (-(1 / tajimaNeiB a c g' t)) (-(1 / tajimaNeiB a c g' t)) (-(1 / tajimaNeiB a c g' t)) a c g' t x
    (if g then f81Gamma al a c g' t (expDiff (freq a c g' t) P) else f81 a c g' t (expDiff (freq a c g' t) P)) = x := by
  intro P
  have hP : P = tnA (wt g al (-(1 / tajimaNeiB a c g' t) * x)) (wt g al (-(1 / tajimaNeiB a c g' t) * x))
      (wt g al (-(1 / tajimaNeiB a c g' t) * x)) a c g' t := rfl
  clear_value P
  have hb := tajimaNeiB_pos a c g' t ha hc hg ht hsum
  have e := tnA_f81_arg (wt g al (-(1 / tajimaNeiB a c g' t) * x)) a c g' t ha hc hg ht hsum
  rw [← hP] at e
  rw [f81S_eq_nl g al, e, nl_wt g al _ hal (by
    have := mul_nonneg (one_div_pos.mpr hb).le hx
    linarith)]
  field_simp

theorem freq_uniform : freq (1 / 4) (1 / 4) (1 / 4) (1 / 4) = uniform := by
  funext i; fin_cases i <;> simp [freq, pi4, uniform]

/-- **JC69** (and its gamma form): the family member with uniform frequencies and the three eigenvalues `−4/3` -/
theorem jc_rates_invert (g : Bool) (al x : ℝ) (hal : 0 < al) (hx : 0 ≤ x) :
    let P := tnW g al (-(4 / 3)) (-(4 / 3)) (-(4 / 3)) (1 / 4) (1 / 4) (1 / 4) (1 / 4) x
    (if g then jc69Gamma al (expDiff uniform P) else jc69 (expDiff uniform P)) = x := by
  intro P
  have hP : P = tnA (wt g al (-(4 / 3) * x)) (wt g al (-(4 / 3) * x)) (wt g al (-(4 / 3) * x))
      (1 / 4) (1 / 4) (1 / 4) (1 / 4) := rfl
  clear_value P
  have e := tnA_f81_arg (wt g al (-(4 / 3) * x)) (1 / 4) (1 / 4) (1 / 4) (1 / 4)
    (by norm_num) (by norm_num) (by norm_num) (by norm_num) (by norm_num)
  rw [← hP, freq_uniform] at e
  have hb : tajimaNeiB (1 / 4 : ℝ) (1 / 4) (1 / 4) (1 / 4) = 3 / 4 := by
    unfold tajimaNeiB; real_like; norm_num
  rw [hb] at e
  have e' : 1 - 4 / 3 * expDiff uniform P = wt g al (-(4 / 3) * x) := by rw [← e]; ring
  rw [jcS_eq_nl g al, e', nl_wt g al _ hal (by linarith)]
  ring

/-- with one rate this is the JC69 matrix of `models/dna/jc.go` -/
theorem jcP_eq_tnW (al x : ℝ) :
    jcP x = tnW false al (-(4 / 3)) (-(4 / 3)) (-(4 / 3)) (1 / 4) (1 / 4) (1 / 4) (1 / 4) x := by
  ext i j
  rw [jcP_apply]
  simp only [tnW, tnA_apply, wt, Bool.false_eq_true, if_false]
  fin_cases i <;> fin_cases j <;>
    simp [tnR, tnL, f84R, f84L, f84Eig, F84Model_Eigens, F84Model_InitModel] <;> ring

/-- **K80** (and its gamma form): uniform frequencies, eigenvalues of `models/dna/k2p.go` (`k = κ/2`) -/
theorem k2p_rates_invert (g : Bool) (al κ x : ℝ) (hal : 0 < al) (hκ : 0 < κ) (hx : 0 ≤ x) :
    let d1 := -(2 * (1 / 2 * κ) + 1) / (1 / 2 * κ + 1)
    let d3 := -2 / (1 / 2 * κ + 1)
    let P := tnW g al d1 d1 d3 (1 / 4) (1 / 4) (1 / 4) (1 / 4) x
    (if g then k80Gamma al (expTs uniform P) (expTv uniform P) else k80 (expTs uniform P) (expTv uniform P)) = x := by
  intro d1 d3 P
  have hP : P = tnA (wt g al (d1 * x)) (wt g al (d1 * x)) (wt g al (d3 * x)) (1 / 4) (1 / 4) (1 / 4) (1 / 4) := rfl
  clear_value P
  have hk : 0 < 1 / 2 * κ + 1 := by positivity
  obtain ⟨e1, e3⟩ := tnA_f84_args (wt g al (d1 * x)) (wt g al (d3 * x)) (1 / 4) (1 / 4) (1 / 4) (1 / 4)
    (by norm_num) (by norm_num) (by norm_num) (by norm_num) (by norm_num)
  rw [← hP, freq_uniform] at e1 e3
  have hA : f84A (1 / 4 : ℝ) (1 / 4) (1 / 4) (1 / 4) = 1 / 4 := by unfold f84A; real_like; norm_num
  have hB : f84B (1 / 4 : ℝ) (1 / 4) (1 / 4) (1 / 4) = 1 / 8 := by unfold f84B; real_like; norm_num
  have hC : f84C (1 / 4 : ℝ) (1 / 4) (1 / 4) (1 / 4) = 1 / 4 := by unfold f84C; real_like; norm_num
  rw [hA, hB, hC] at e1
  rw [hC] at e3
  have e1' : 1 - 2 * expTs uniform P - expTv uniform P = wt g al (d1 * x) := by rw [← e1]; ring
  have e3' : 1 - 2 * expTv uniform P = wt g al (d3 * x) := by rw [← e3]; ring
  have hd1 : d1 * x ≤ 0 := by
    have : 0 ≤ (2 * (1 / 2 * κ) + 1) / (1 / 2 * κ + 1) * x := mul_nonneg (by positivity) hx
    have e : d1 * x = -((2 * (1 / 2 * κ) + 1) / (1 / 2 * κ + 1) * x) := by simp only [d1]; ring
    linarith
  have hd3 : d3 * x ≤ 0 := by
    have : 0 ≤ 2 / (1 / 2 * κ + 1) * x := mul_nonneg (by positivity) hx
    have e : d3 * x = -(2 / (1 / 2 * κ + 1) * x) := by simp only [d3]; ring
    linarith
  rw [k80S_eq_nl g al, e1', e3', nl_wt g al _ hal hd1, nl_wt g al _ hal hd3]
  simp only [d1, d3]
  field_simp
  ring

/-- with one rate this is the K2P matrix of `models/dna/k2p.go` -/
theorem k2pP_eq_tnW (al κ x : ℝ) :
    k2pP κ x = tnW false al (-(2 * (1 / 2 * κ) + 1) / (1 / 2 * κ + 1)) (-(2 * (1 / 2 * κ) + 1) / (1 / 2 * κ + 1))
      (-2 / (1 / 2 * κ + 1)) (1 / 4) (1 / 4) (1 / 4) (1 / 4) x := by
  ext i j
  rw [k2pP_apply]
  simp only [tnW, tnA_apply, wt, Bool.false_eq_true, if_false, k2pE1, k2pE2]
  fin_cases i <;> fin_cases j <;>
    simp [tnR, tnL, f84R, f84L, f84Eig, F84Model_Eigens, F84Model_InitModel, isTransition] <;> ring

/-- the hypotheses are satisfiable and the gamma weight is a genuine probability weight: `α = 1/2`, `x = 1` -/
example : 0 < wt true (1 / 2) (-(4 / 3) * 1) ∧ wt true (1 / 2) (-(4 / 3) * 1) < 1 := by
  refine ⟨wt_pos true _ _ (by norm_num) (by norm_num), ?_⟩
  simp only [wt, if_true]
  apply Real.rpow_lt_one_of_one_lt_of_neg <;> norm_num

end Gv.Props.C07InvGamma
