import Gv.Proofs.SitesRefThm
import Gv.Proofs.SitesSplit
import Gv.Proofs.SitesInverse
/-!
# C04 — site extraction and coordinates address exactly the requested columns

Theorems about `lean/Gv/Model/Sites.lean` for all alignments and all integer arguments.
`Rect rows L`: every row has the cached length `L` (the C01 invariant of an alignment).  The vocabulary
(`Rect`, `nres`, `skipTo`, `window`, `seg`, `reinterleaveSeq`, `PartInv`) is in `Gv/Spec/Sites.lean`, the
longer developments in `Gv/Proofs/Sites*.lean`.
-/
namespace Gv.Props.C04
open Gv Gv.Model Gv.Spec.Sites Gv.Proofs.SitesRef


/-! ## range extraction -/

/-- **`SubAlign` succeeds iff the window lies inside the alignment** — every other argument,
including every boundary value and negative numbers, is an error (never a panic). -/
theorem subAlign_ok_iff (rows : SRows) (L st ln : Int) :
    (∃ r, subAlign rows L st ln = .ok r) ↔ (0 ≤ st ∧ 0 ≤ ln ∧ st + ln ≤ L) := by
  unfold subAlign
  constructor
  · intro ⟨r, h⟩
    split at h
    · cases h
    · split at h
      · cases h
      · split at h
        · cases h
        · rename_i h1 h2 h3
          simp only [Bool.or_eq_true, decide_eq_true_eq, not_or, Int.not_lt] at h1 h2 h3
          omega
  · intro ⟨h1, h2, h3⟩
    have c1 : ¬ ((decide (st < 0) || decide (st > L)) = true) := by simp; omega
    have c2 : ¬ (ln < 0) := by omega
    have c3 : ¬ ((decide (st + ln < 0) || decide (st + ln > L)) = true) := by simp; omega
    simp only [c1, c2, c3, if_false]
    exact ⟨_, rfl⟩

theorem subAlign_never_panics (rows : SRows) (L st ln : Int) : subAlign rows L st ln ≠ .panic := by
  unfold subAlign
  split
  · simp
  · split
    · simp
    · split <;> simp

/-- the extracted window: names and order unchanged, each row is exactly columns `st … st+ln-1` -/
theorem subAlign_rows (rows : SRows) (L st ln : Int) (r : SRows) (h : subAlign rows L st ln = .ok r) :
    r.map Prod.fst = rows.map Prod.fst ∧
    r = rows.map (fun x => (x.1, (x.2.drop st.toNat).take ln.toNat)) := by
  unfold subAlign at h
  split at h
  · cases h
  · split at h
    · cases h
    · split at h
      · cases h
      · simp only [Out.ok.injEq] at h
        subst h
        simp [List.map_map, Function.comp_def]

/-- with a rectangular alignment every extracted row has the requested length -/
theorem subAlign_lengths (rows : SRows) (L st ln : Int) (hr : Rect rows L) (r : SRows)
    (h : subAlign rows L st ln = .ok r) : ∀ x ∈ r, (x.2.length : Int) = ln := by
  have hok := (subAlign_ok_iff rows L st ln).mp ⟨r, h⟩
  rw [(subAlign_rows rows L st ln r h).2]
  intro x hx
  obtain ⟨y, hy, e⟩ := List.mem_map.mp hx
  subst e
  rcases hr with ⟨e, _⟩ | ⟨_, _, hl⟩
  · subst e; simp at hy
  · have := hl y hy
    simp only [List.length_take, List.length_drop]
    omega

/-- **prefix + window + suffix reproduce every row**: the complementary extractions of
`InverseCoordinates` concatenate back to the original -/
theorem prefix_window_suffix (s : Seq) (st ln : Nat) :
    s.take st ++ ((s.drop st).take ln ++ s.drop (st + ln)) = s := by
  rw [← List.drop_drop, List.take_append_drop, List.take_append_drop]

/-- `InverseCoordinates` returns exactly the prefix `[0, st)` (when non-empty) and the suffix
`[st+ln, L)` (when non-empty), and fails exactly when `SubAlign` fails -/
theorem inverseCoordinates_spec (L st ln : Int) :
    inverseCoordinates L st ln =
      if 0 ≤ st ∧ 0 ≤ ln ∧ st + ln ≤ L then
        .ok ((if st > 0 then [0] else []) ++ (if st + ln < L then [st + ln] else []),
             (if st > 0 then [st] else []) ++ (if st + ln < L then [L - (st + ln)] else []))
      else .err := by
  unfold inverseCoordinates
  by_cases h : 0 ≤ st ∧ 0 ≤ ln ∧ st + ln ≤ L
  · obtain ⟨h1, h2, h3⟩ := h
    have c1 : ¬ ((decide (st < 0) || decide (st > L)) = true) := by simp; omega
    have c2 : ¬ (ln < 0) := by omega
    have c3 : ¬ ((decide (st + ln < 0) || decide (st + ln > L)) = true) := by simp; omega
    simp only [c1, c2, c3, if_false, h1, h2, h3, and_self, if_true]
    by_cases a : st > 0 <;> by_cases b : st + ln < L <;> simp [a, b]
  · simp only [h, if_false]
    split
    · rfl
    · split
      · rfl
      · split
        · rfl
        · rename_i h1 h2 h3
          simp only [Bool.or_eq_true, decide_eq_true_eq, not_or, Int.not_lt] at h1 h2 h3
          exact absurd ⟨by omega, by omega, by omega⟩ h

/-! ## explicit site lists -/

/-- **`SelectSites` on a rectangular alignment succeeds iff every site is inside `[0, L)`, and never
panics** (in particular `site = L` is an error). -/
theorem selectSites_ok_iff (rows : SRows) (L : Int) (hr : Rect rows L) (sites : List Int) :
    (∃ r, selectSites rows L sites = .ok r) ↔ (∀ s ∈ sites, 0 ≤ s ∧ s < L) := by
  unfold selectSites
  constructor
  · intro ⟨r, h⟩
    split at h
    · cases h
    · rename_i h1
      intro s hs
      simp only [List.any_eq_true, Bool.or_eq_true, decide_eq_true_eq, not_exists, not_and, not_or, Int.not_lt] at h1
      have := h1 s hs
      omega
  · intro hall
    have c1 : ¬ (sites.any (fun s => decide (s < 0) || decide (s ≥ L)) = true) := by
      simp only [List.any_eq_true, Bool.or_eq_true, decide_eq_true_eq, not_exists, not_and, not_or]
      intro s hs; have := hall s hs; omega
    have c2 : ¬ (rows.any (fun r => sites.any fun s => decide (s.toNat ≥ r.2.length)) = true) := by
      simp only [List.any_eq_true, decide_eq_true_eq, not_exists, not_and]
      intro r hrm s hs
      rcases hr with ⟨e, _⟩ | ⟨_, _, hl⟩
      · subst e; simp at hrm
      · have := hl r hrm; have := hall s hs; omega
    simp only [c1, c2, if_false]
    exact ⟨_, rfl⟩

theorem selectSites_never_panics (rows : SRows) (L : Int) (hr : Rect rows L) (sites : List Int) :
    selectSites rows L sites ≠ .panic := by
  by_cases h : ∀ s ∈ sites, 0 ≤ s ∧ s < L
  · obtain ⟨r, e⟩ := (selectSites_ok_iff rows L hr sites).mpr h
    rw [e]; simp
  · unfold selectSites
    have : sites.any (fun s => decide (s < 0) || decide (s ≥ L)) = true := by
      simp only [List.any_eq_true, Bool.or_eq_true, decide_eq_true_eq]
      apply Classical.byContradiction
      intro hc
      apply h
      intro s hs
      apply Classical.byContradiction
      intro hn
      exact hc ⟨s, hs, by omega⟩
    simp [this]

/-- the selected columns, in the addressed order, repeats kept; names and row order unchanged -/
theorem selectSites_rows (rows : SRows) (L : Int) (sites : List Int) (r : SRows)
    (h : selectSites rows L sites = .ok r) :
    r = rows.map (fun x => (x.1, sites.map fun s => x.2.getD s.toNat 0)) ∧
    r.map Prod.fst = rows.map Prod.fst ∧ ∀ x ∈ r, x.2.length = sites.length := by
  unfold selectSites at h
  split at h
  · cases h
  · split at h
    · cases h
    · simp only [Out.ok.injEq] at h
      subst h
      refine ⟨rfl, by simp [List.map_map, Function.comp_def], ?_⟩
      intro x hx
      obtain ⟨y, _, e⟩ := List.mem_map.mp hx
      subst e; simp

/-- **`InversePositions` returns exactly the complement of the given sites, in increasing order.** -/
theorem inversePositions_complement (L : Int) (sites : List Int) (r : List Int)
    (h : inversePositions L sites = .ok r) :
    (∀ i : Int, i ∈ r ↔ (0 ≤ i ∧ i < L ∧ i ∉ sites)) ∧ r.Pairwise (· < ·) := by
  unfold inversePositions at h
  split at h
  · cases h
  · simp only [Out.ok.injEq] at h
    subst h
    constructor
    · intro i
      simp only [List.mem_map, List.mem_filter, List.mem_range, Bool.not_eq_true', List.contains_eq_mem,
        decide_eq_false_iff_not]
      constructor
      · rintro ⟨k, ⟨hk, hn⟩, rfl⟩
        refine ⟨by simp, ?_, hn⟩
        have : (Int.ofNat k) = (k : Int) := rfl
        rw [this]; omega
      · rintro ⟨h0, hl, hn⟩
        refine ⟨i.toNat, ⟨by omega, ?_⟩, by simp; omega⟩
        have : Int.ofNat i.toNat = i := by simp; omega
        rw [this]; exact hn
    · apply List.Pairwise.map (R := (· < ·))
      · intro a b hab; simp; exact hab
      · exact (List.pairwise_lt_range).sublist (List.filter_sublist)

theorem inversePositions_error_iff (L : Int) (sites : List Int) :
    inversePositions L sites = .err ↔ ∃ s ∈ sites, s < 0 ∨ s ≥ L := by
  unfold inversePositions
  constructor
  · intro h
    split at h
    · rename_i h1
      simp only [List.any_eq_true, Bool.or_eq_true, decide_eq_true_eq] at h1
      exact h1
    · cases h
  · intro ⟨s, hs, hb⟩
    have : sites.any (fun s => decide (s < 0) || decide (s ≥ L)) = true := by
      simp only [List.any_eq_true, Bool.or_eq_true, decide_eq_true_eq]
      exact ⟨s, hs, hb⟩
    simp [this]

/-! ## reference coordinates -/


/-- **Reference coordinates map to the smallest alignment window whose reference residues are exactly
the requested ones**: when `RefCoordinates(name, rs, rl)` succeeds with `(a, l)`, the reference row
`s` has exactly `rs` residues before column `a`, exactly `rl` residues inside `[a, a+l)`, and both the
first and the last column of the window hold a residue of the reference (so no smaller window works). -/
theorem refCoordinates_window (rows : SRows) (name : String) (rs rl a l : Int)
    (h : refCoordinates rows name rs rl = .ok (a, l, false)) :
    ∃ r, rows.find? (fun r => r.1 == name) = some r ∧ 0 ≤ a ∧ 1 ≤ l ∧ a + l ≤ r.2.length ∧
      r.2.getD a.toNat GAP ≠ GAP ∧ r.2.getD (a + l - 1).toNat GAP ≠ GAP ∧
      (nres (r.2.take a.toNat) : Int) = rs ∧ (nres ((r.2.drop a.toNat).take l.toNat) : Int) = rl := by
  unfold refCoordinates at h
  cases hf : rows.find? (fun r => r.1 == name) with
  | none => simp [hf] at h
  | some r =>
    simp only [hf] at h
    split at h
    · cases h
    · split at h
      · cases h
      · rename_i h1 h2
        have hrs : 0 ≤ rs := by omega
        have hrl : 0 < rl := by omega
        have hp1 := refLoop_phase1 rs.toNat rl.toNat (by omega) r.2 0 0 0 (by omega)
        have hng := refLoop_ngaps rs.toNat rl.toNat r.2 0 0 0 0
        generalize hres : refLoop rs.toNat rl.toNat r.2 0 0 0 0 = res at h hp1 hng
        obtain ⟨ng, as, al⟩ := res
        simp only [Nat.sub_zero, Nat.zero_add, Prod.mk.injEq] at hp1
        simp only [Out.ok.injEq, Prod.mk.injEq, decide_eq_false_iff_not, Int.not_lt] at h
        obtain ⟨ha, hl, he⟩ := h
        have hle : nres r.2 ≤ r.2.length := by unfold nres; exact List.length_filter_le _ _
        -- enough residues on the reference
        have henough : rs.toNat + rl.toNat ≤ nres r.2 := by
          rcases hng with hh | hh
          · simpa using hh
          · simp only [Nat.zero_add] at hh
            rw [hh] at he
            omega
        obtain ⟨s1, s2, s3⟩ := skipTo_spec rs.toNat r.2 (by omega)
        have hdrop : nres (r.2.drop (skipTo rs.toNat r.2)) = nres r.2 - rs.toNat := by
          have := nres_append (r.2.take (skipTo rs.toNat r.2)) (r.2.drop (skipTo rs.toNat r.2))
          rw [List.take_append_drop, s3] at this
          omega
        obtain ⟨p1, p2, p3, p4⟩ := spanOf_spec rl.toNat (r.2.drop (skipTo rs.toNat r.2)) (by omega) (by omega)
        rw [← hp1.1] at s1 s2 s3 p1 p2 p3 p4
        rw [← hp1.1] at hp1
        rw [← hp1.2] at p1 p2 p3 p4
        simp only [List.length_drop] at p2
        refine ⟨r, rfl, by omega, by omega, by omega, ?_, ?_, ?_, ?_⟩
        · rw [← ha]; simpa using s2
        · have : (a + l - 1).toNat = as + (al - 1) := by omega
          rw [this]
          rw [List.getD_eq_getElem?_getD, List.getElem?_drop] at p3
          rw [List.getD_eq_getElem?_getD]
          exact p3
        · rw [← ha]; simp [s3]; omega
        · rw [← ha, ← hl]; simp [p4]; omega

/-- `RefCoordinates` is an error exactly when the reference is unknown, the start is negative, the
length is not positive, or the request exceeds the ungapped reference -/
theorem refCoordinates_error_of_short (rows : SRows) (name : String) (rs rl : Int) (r : String × Seq)
    (hf : rows.find? (fun r => r.1 == name) = some r) (h0 : 0 ≤ rs) (h1 : 0 < rl)
    (hs : (nres r.2 : Int) < rs + rl) :
    ∃ a l, refCoordinates rows name rs rl = .ok (a, l, true) := by
  unfold refCoordinates
  simp only [hf]
  have c1 : ¬ rs < 0 := by omega
  have c2 : ¬ rl ≤ 0 := by omega
  simp only [c1, c2, if_false]
  have hng := refLoop_ngaps rs.toNat rl.toNat r.2 0 0 0 0
  generalize refLoop rs.toNat rl.toNat r.2 0 0 0 0 = res at hng
  obtain ⟨ng, as, al⟩ := res
  have hle : nres r.2 ≤ r.2.length := by unfold nres; exact List.length_filter_le _ _
  rcases hng with hh | hh
  · simp only [Nat.zero_add] at hh; omega
  · simp only [Nat.zero_add] at hh
    refine ⟨as, al, ?_⟩
    simp only [Out.ok.injEq, Prod.mk.injEq, true_and, decide_eq_true_eq]
    rw [hh]; omega

/-! ## reference coordinates: error characterisation, minimality, residues -/

/-- **`RefCoordinates` succeeds iff the reference exists, `0 ≤ rs`, `0 < rl` and the request fits in
the ungapped reference** (every other argument is an error; the function never panics). -/
theorem refCoordinates_ok_iff (rows : SRows) (name : String) (rs rl : Int) :
    (∃ a l, refCoordinates rows name rs rl = .ok (a, l, false)) ↔
      ∃ r, rows.find? (fun r => r.1 == name) = some r ∧ 0 ≤ rs ∧ 0 < rl ∧ rs + rl ≤ (nres r.2 : Int) := by
  constructor
  · rintro ⟨a, l, h⟩
    obtain ⟨r, hf, h0, h1⟩ := refCoordinates_inv _ _ _ _ _ h
    rw [refCoordinates_eval rows name rs rl r hf h0 h1] at h
    simp only [Out.ok.injEq, Prod.mk.injEq, decide_eq_false_iff_not, Int.not_lt] at h
    exact ⟨r, hf, h0, h1, h.2.2⟩
  · rintro ⟨r, hf, h0, h1, h2⟩
    rw [refCoordinates_eval rows name rs rl r hf h0 h1]
    have : ¬ ((nres r.2 : Int) < rs + rl) := by omega
    simp only [this, decide_false]
    exact ⟨_, _, rfl⟩

theorem refCoordinates_never_panics (rows : SRows) (name : String) (rs rl : Int) :
    refCoordinates rows name rs rl ≠ .panic := by
  unfold refCoordinates
  split
  · simp
  · split
    · simp
    · split <;> simp

/-- **No smaller window works**: every window `[a', a'+l')` of the reference row with the same
residues before it (`rs`) and inside it (`rl`) contains the window returned by `RefCoordinates`. -/
theorem refCoordinates_minimal (rows : SRows) (name : String) (rs rl a l : Int)
    (h : refCoordinates rows name rs rl = .ok (a, l, false)) :
    ∃ r, rows.find? (fun r => r.1 == name) = some r ∧
      ∀ a' l' : Nat, (nres (r.2.take a') : Int) = rs → (nres ((r.2.drop a').take l') : Int) = rl →
        (a' : Int) ≤ a ∧ a + l ≤ (a' : Int) + l' := by
  obtain ⟨r, hf, ha, hl, hal, g1, g2, n1, n2⟩ := refCoordinates_window rows name rs rl a l h
  refine ⟨r, hf, ?_⟩
  intro a' l' h1 h2
  have e : (a + l - 1).toNat = a.toNat + l.toNat - 1 := by omega
  rw [e] at g2
  have := window_minimal r.2 a.toNat l.toNat a' l' (by omega) (by omega) g1 g2 (by omega) (by omega)
  omega

/-- **The reference residues of the window are exactly the requested ones**: the window's residues
are the slice `[rs, rs+rl)` of the ungapped reference. -/
theorem refCoordinates_residues (rows : SRows) (name : String) (rs rl a l : Int)
    (h : refCoordinates rows name rs rl = .ok (a, l, false)) :
    ∃ r, rows.find? (fun r => r.1 == name) = some r ∧
      (seg r.2 (a, l)).filter (· != GAP) = ((r.2.filter (· != GAP)).drop rs.toNat).take rl.toNat := by
  obtain ⟨r, hf, ha, hl, hal, g1, g2, n1, n2⟩ := refCoordinates_window rows name rs rl a l h
  refine ⟨r, hf, ?_⟩
  unfold seg
  simp only []
  rw [window_residues]
  congr 2 <;> omega

/-- on a rectangular alignment the returned window can be cut out (`SubAlign`) and complemented
(`InverseCoordinates`): the coordinate functions compose without a range error -/
theorem refCoordinates_then_subAlign (rows : SRows) (L : Int) (name : String) (rs rl a l : Int) (hr : Rect rows L)
    (h : refCoordinates rows name rs rl = .ok (a, l, false)) :
    (∃ w, subAlign rows L a l = .ok w) ∧ (∃ c, inverseCoordinates L a l = .ok c) := by
  obtain ⟨r, hf, ha, hl, hal, _⟩ := refCoordinates_window rows name rs rl a l h
  have := rect_length hr (List.mem_of_find?_eq_some hf)
  have hv : 0 ≤ a ∧ 0 ≤ l ∧ a + l ≤ L := ⟨by omega, by omega, by omega⟩
  refine ⟨(subAlign_ok_iff rows L a l).mpr hv, ?_⟩
  rw [inverseCoordinates_spec, if_pos hv]
  exact ⟨_, rfl⟩

/-! ## reference sites -/

/-- **`RefSites` on a rectangular alignment succeeds iff the reference exists and every requested site
is a residue index of the ungapped reference** (`0 ≤ s < nres`), and never panics. -/
theorem refSites_ok_iff (rows : SRows) (L : Int) (hr : Rect rows L) (name : String) (sites : List Int) :
    (∃ out, refSites rows L name sites = .ok out) ↔
      ∃ r, rows.find? (fun r => r.1 == name) = some r ∧ ∀ s ∈ sites, 0 ≤ s ∧ s < (nres r.2 : Int) := by
  cases hf : rows.find? (fun r => r.1 == name) with
  | none => simp [refSites, hf]
  | some r =>
    rw [refSites_eval rows L name sites r hf]
    have hl := rect_length hr (List.mem_of_find?_eq_some hf)
    have hn := nres_le_length r.2
    constructor
    · rintro ⟨out, h⟩
      split at h
      · rename_i hall
        exact ⟨r, rfl, fun s hs => ⟨(hall s hs).1, (hall s hs).2.2⟩⟩
      · cases h
    · rintro ⟨r', e, hall⟩
      simp only [Option.some.injEq] at e
      subst e
      have : ∀ s ∈ sites, 0 ≤ s ∧ s < L ∧ s < (nres r.2 : Int) := by
        intro s hs; have := hall s hs; omega
      rw [if_pos this]
      exact ⟨_, rfl⟩

theorem refSites_never_panics (rows : SRows) (L : Int) (name : String) (sites : List Int) :
    refSites rows L name sites ≠ .panic := by
  unfold refSites
  split
  · simp
  · split
    · simp
    · simp only []
      split <;> simp

/-- **`RefSites` returns exactly the alignment positions of the requested reference residues, in
increasing order**: `p` is returned iff column `p` of the reference row holds a residue whose ungapped
index (the number of residues before it) is one of the requested sites; every requested site is
answered. -/
theorem refSites_spec (rows : SRows) (L : Int) (name : String) (sites : List Int) (out : List Int)
    (h : refSites rows L name sites = .ok out) :
    ∃ r, rows.find? (fun r => r.1 == name) = some r ∧
      out.Pairwise (· < ·) ∧
      (∀ p : Int, p ∈ out ↔ 0 ≤ p ∧ p < r.2.length ∧ r.2.getD p.toNat GAP ≠ GAP ∧
        ((nres (r.2.take p.toNat) : Nat) : Int) ∈ sites) ∧
      (∀ s ∈ sites, ((skipTo s.toNat r.2 : Nat) : Int) ∈ out) := by
  cases hf : rows.find? (fun r => r.1 == name) with
  | none => simp [refSites, hf] at h
  | some r =>
    rw [refSites_eval rows L name sites r hf] at h
    split at h
    · rename_i hall
      simp only [Out.ok.injEq] at h
      subst h
      refine ⟨r, rfl, refPositions_sorted sites r.2, mem_refPositions sites r.2, ?_⟩
      intro s hs
      have hb := hall s hs
      have hk : s.toNat < nres r.2 := by omega
      obtain ⟨q1, q2, q3⟩ := skipTo_spec s.toNat r.2 hk
      rw [mem_refPositions]
      refine ⟨by omega, by omega, by simpa using q2, ?_⟩
      simp only [Int.toNat_natCast]
      rw [q3]
      have : ((s.toNat : Nat) : Int) = s := by omega
      rw [this]; exact hs
    · cases h

/-- **`RefSites` on the contiguous request `rs, …, rs+rl-1` spans exactly the window of
`RefCoordinates(rs, rl)`**: `rl` positions, the first is the window start, the last is the window's
last column, all inside the window. -/
theorem refSites_of_refCoordinates (rows : SRows) (L : Int) (name : String) (rs rl a l : Int) (hr : Rect rows L)
    (h : refCoordinates rows name rs rl = .ok (a, l, false)) :
    ∃ out, refSites rows L name (window rs rl) = .ok out ∧ (out.length : Int) = rl ∧
      out.head? = some a ∧ out.getLast? = some (a + l - 1) ∧ ∀ p ∈ out, a ≤ p ∧ p < a + l :=
  Gv.Proofs.SitesRef.refSites_of_refCoordinates rows L name rs rl a l hr h

/-! ## diff to first / replace match characters -/

private theorem zip_restore (f o : Seq) (hl : f.length = o.length) (hp : POINT ∉ o) :
    ((f.zip ((f.zip o).map (fun p => if p.1 == p.2 then POINT else p.2) ++ o.drop f.length)).map
        (fun p => if p.1 != POINT && p.2 == POINT then p.1 else p.2) ++
      ((f.zip o).map (fun p => if p.1 == p.2 then POINT else p.2) ++ o.drop f.length).drop f.length) = o := by
  induction f generalizing o with
  | nil => cases o <;> simp_all
  | cons a f ih =>
    cases o with
    | nil => simp at hl
    | cons b o =>
      simp only [List.length_cons, Nat.add_right_cancel_iff] at hl
      have hpb : ¬ b = POINT := fun e => hp (by simp [e])
      have hpo : POINT ∉ o := fun e => hp (by simp [e])
      have := ih o hl hpo
      simp only [List.zip_cons_cons, List.map_cons, List.cons_append, List.length_cons, List.drop_succ_cons] at this ⊢
      rw [this]
      by_cases e : a = b
      · subst e
        simp [hpb]
      · have : (a == b) = false := by simpa using e
        simp [this, hpb]

/-- **Replacing match characters after a diff-to-first reproduces the original alignment**
(for alignments without `.`, whose rows all have the first row's length). -/
theorem diff_then_replace_id (rows : SRows) (hp : ∀ r ∈ rows, POINT ∉ r.2)
    (hl : ∀ f ∈ rows.head?, ∀ r ∈ rows, r.2.length = f.2.length) :
    replaceMatchChars (diffWithFirst rows) = rows := by
  match rows with
  | [] => rfl
  | [r] => rfl
  | f :: r2 :: rest =>
    have hf : ∀ r ∈ (r2 :: rest), r.2.length = f.2.length := fun r hr => hl f (by simp) r (by simp [hr])
    have hpp : ∀ r ∈ (r2 :: rest), POINT ∉ r.2 := fun r hr => hp r (by simp [hr])
    have one : ∀ x : String × Seq, x.2.length = f.2.length → POINT ∉ x.2 →
        (x.1, (f.2.zip ((f.2.zip x.2).map (fun p => if p.1 == p.2 then POINT else p.2) ++ x.2.drop f.2.length)).map
            (fun p => if p.1 != POINT && p.2 == POINT then p.1 else p.2) ++
          ((f.2.zip x.2).map (fun p => if p.1 == p.2 then POINT else p.2) ++ x.2.drop f.2.length).drop f.2.length) = x := by
      intro x h1 h2
      have := zip_restore f.2 x.2 h1.symm h2
      rw [this]
    simp only [diffWithFirst, List.map_cons, replaceMatchChars, List.map_map]
    congr 1
    congr 1
    · exact one r2 (hf r2 (by simp)) (hpp r2 (by simp))
    · have hf' : ∀ r ∈ rest, r.2.length = f.2.length := fun r hr => hf r (by simp [hr])
      have hpp' : ∀ r ∈ rest, POINT ∉ r.2 := fun r hr => hpp r (by simp [hr])
      clear hf hpp hl hp
      induction rest with
      | nil => rfl
      | cons x t ih =>
        simp only [List.map_cons, Function.comp]
        congr 1
        · exact one x (hf' x (by simp)) (hpp' x (by simp))
        · exact ih (fun r hr => hf' r (by simp [hr])) (fun r hr => hpp' r (by simp [hr]))

/-! ## partitions -/

/-- **`AddRange` never panics, for all integer `start`, `end`, `modulo`** (including a modulo close
to the largest integer), as long as the table has one entry per site -/
theorem addRange_never_panics (ps : PartSet) (hlen : (ps.parts.length : Int) = ps.length) (name : String)
    (start stop modulo : Int) : (addRange ps name start stop modulo).2 ≠ .panic := by
  unfold addRange
  split
  · simp
  · split
    · simp
    · split
      · simp
      · split
        · simp
        · rename_i h1 h2 h3 h4
          simp only []
          generalize (match ps.names.findIdx?   (· == name) with
            | some i => (ps.names, (i : Int)) | none => (ps.names ++ [name], (ps.names.length : Int))).2 = idx
          -- loop invariant: 0 ≤ i and the table keeps its length
          have key : ∀ (fuel : Nat) (i : Int) (parts : List Int), 0 ≤ i → (parts.length : Int) = ps.length →
              (addRangeLoop idx stop modulo fuel i parts).2 ≠ .panic := by
            intro fuel
            induction fuel with
            | zero => intro i parts _ _; simp [addRangeLoop]
            | succ f ih =>
              intro i parts hi hp
              simp only [addRangeLoop]
              split
              · simp
              · rename_i hgt
                have hlt : i.toNat < parts.length := by omega
                rw [List.getElem?_eq_getElem hlt]
                simp only []
                split
                · simp
                · split
                  · simp
                  · apply ih
                    · omega
                    · simp [hp]
          exact key _ _ _ (by omega) hlen

/-! ## complementary extractions reassemble the alignment -/

/-- **The windows returned by `InverseCoordinates` and the requested window tile `[0, L)`**: the
returned windows are non-empty, inside the alignment, ordered and disjoint, and a column lies in the
requested window iff it lies in none of them. -/
theorem inverseCoordinates_partition (L st ln : Int) (ss ls : List Int)
    (h : inverseCoordinates L st ln = .ok (ss, ls)) :
    ss.length = ls.length ∧
    (∀ w ∈ ss.zip ls, 0 ≤ w.1 ∧ 0 < w.2 ∧ w.1 + w.2 ≤ L) ∧
    (ss.zip ls).Pairwise (fun u v => u.1 + u.2 ≤ v.1) ∧
    (∀ i : Int, 0 ≤ i → i < L → ((st ≤ i ∧ i < st + ln) ↔ ¬ ∃ w ∈ ss.zip ls, w.1 ≤ i ∧ i < w.1 + w.2)) :=
  Gv.Proofs.SitesInverse.inverse_windows_tile L st ln ss ls h

/-- **Prefix + window + suffix concatenation reproduces the alignment**: on a rectangular alignment
every window returned by `InverseCoordinates` can be cut out with `SubAlign` (whose rows are the `seg`s,
`subAlign_rows`), and for every row the pieces before the requested window, the window, and the pieces
after it concatenate back to the row; the returned pieces alone are the row minus the window. -/
theorem inverse_windows_reassemble (rows : SRows) (L st ln : Int) (ss ls : List Int) (hr : Rect rows L)
    (h : inverseCoordinates L st ln = .ok (ss, ls)) :
    (∀ w ∈ ss.zip ls, ∃ p, subAlign rows L w.1 w.2 = .ok p) ∧
    (∃ p, subAlign rows L st ln = .ok p) ∧
    ∀ x ∈ rows,
      ((ss.zip ls).filter (fun w => decide (w.1 < st))).flatMap (seg x.2) ++ (seg x.2 (st, ln) ++
        ((ss.zip ls).filter (fun w => decide (w.1 ≥ st + ln))).flatMap (seg x.2)) = x.2 ∧
      (ss.zip ls).flatMap (seg x.2) = x.2.take st.toNat ++ x.2.drop (st + ln).toNat := by
  have tile := Gv.Proofs.SitesInverse.inverse_windows_tile L st ln ss ls h
  obtain ⟨h0, h1, h2, es, el⟩ := Gv.Proofs.SitesInverse.inverseCoordinates_eval L st ln ss ls h
  refine ⟨?_, (subAlign_ok_iff rows L st ln).mpr ⟨h0, h1, h2⟩, ?_⟩
  · intro w hw
    have := tile.2.1 w hw
    exact (subAlign_ok_iff rows L w.1 w.2).mpr ⟨by omega, by omega, by omega⟩
  · intro x hx
    have hl := rect_length hr hx
    have key := Gv.Proofs.SitesInverse.segs_windows x.2 L st ln h0 h1 h2 hl
    simp only [] at key
    rw [← es, ← el] at key
    have hsplit : (ss.zip ls) = (ss.zip ls).filter (fun w => decide (w.1 < st)) ++
        (ss.zip ls).filter (fun w => decide (w.1 ≥ st + ln)) := by
      subst es el
      by_cases a : st > 0 <;> by_cases b : st + ln < L
      · rw [if_pos a, if_pos b, if_pos a, if_pos b]
        have c1 : ¬ (st + ln < st) := by omega
        have c2 : ¬ (0 ≥ st + ln) := by omega
        simp [a, c1, c2]
      · rw [if_pos a, if_neg b, if_pos a, if_neg b]
        have c2 : ¬ (0 ≥ st + ln) := by omega
        simp [a, c2]
      · rw [if_neg a, if_pos b, if_neg a, if_pos b]
        have c1 : ¬ (st + ln < st) := by omega
        simp [c1]
      · rw [if_neg a, if_neg b, if_neg a, if_neg b]; simp
    constructor
    · rw [key.1, key.2]
      have := prefix_window_suffix x.2 st.toNat ln.toNat
      have e : (st + ln).toNat = st.toNat + ln.toNat := by omega
      rw [e]; unfold seg; exact this
    · conv => lhs; rw [hsplit]
      rw [List.flatMap_append, key.1, key.2]

/-- **`InversePositions` of a window is the expansion of the windows of `InverseCoordinates`**: both
complement functions address the same columns. -/
theorem inversePositions_of_window (L st ln : Int) (ss ls : List Int)
    (h : inverseCoordinates L st ln = .ok (ss, ls)) :
    inversePositions L (window st ln) = .ok ((ss.zip ls).flatMap fun (w : Int × Int) => window w.1 w.2) := by
  obtain ⟨h0, h1, h2, es, el⟩ := Gv.Proofs.SitesInverse.inverseCoordinates_eval L st ln ss ls h
  rw [Gv.Proofs.SitesInverse.inversePositions_window L st ln h0 h1 h2, es, el,
    Gv.Proofs.SitesInverse.flatMap_windows L st ln h0 h2]

/-- the complement of a valid site list can itself be selected: `SelectSites ∘ InversePositions`
never fails on a rectangular alignment -/
theorem selectSites_inversePositions_ok (rows : SRows) (L : Int) (hr : Rect rows L) (sites inv : List Int)
    (h : inversePositions L sites = .ok inv) : ∃ r, selectSites rows L inv = .ok r := by
  rw [selectSites_ok_iff rows L hr]
  intro s hs
  have := ((inversePositions_complement L sites inv h).1 s).mp hs
  exact ⟨this.1, this.2.1⟩

/-! ## transpose -/

/-- **`Transpose` turns the columns into rows**: `L` rows, row `j` is named `j` and holds column `j`
in sequence order; the result is rectangular of length "number of sequences". -/
theorem transpose_spec (rows : SRows) (L : Int) :
    (transpose rows L).length = L.toNat ∧
    (∀ j, j < L.toNat → (transpose rows L)[j]? = some (toString j, rows.map fun r => r.2.getD j 0)) ∧
    lenOf (transpose rows L) = (if 0 < L then (rows.length : Int) else -1) ∧
    (0 < L → Rect (transpose rows L) (rows.length : Int)) :=
  ⟨Gv.Proofs.SitesSplit.transpose_length rows L, Gv.Proofs.SitesSplit.transpose_row rows L,
   Gv.Proofs.SitesSplit.lenOf_transpose rows L, Gv.Proofs.SitesSplit.transpose_rect rows L⟩

/-- **Transposing twice reproduces the residues of a rectangular alignment** (with at least one
column): same number of rows, row `i` renamed `i` (names are site indices after a transposition), every
sequence unchanged.  An alignment without columns (`L ≤ 0`: empty, or rows of length 0) comes back
empty: see `transpose_twice_drops_zero_length_rows`. -/
theorem transpose_transpose (rows : SRows) (L : Int) (hr : Rect rows L) :
    let tt := transpose (transpose rows L) (lenOf (transpose rows L))
    (0 < L → tt.map Prod.snd = rows.map Prod.snd ∧
             tt.map Prod.fst = (List.range rows.length).map toString ∧ Rect tt L) ∧
    (L ≤ 0 → tt = []) := by
  refine ⟨?_, Gv.Proofs.SitesSplit.transpose_transpose_empty rows L⟩
  intro hL
  have e := Gv.Proofs.SitesSplit.transpose_transpose_eq rows L hr hL
  show _ ∧ _ ∧ Rect (transpose (transpose rows L) (lenOf (transpose rows L))) L
  rw [e]
  have hs : ((List.range rows.length).map fun i => (toString i, (rows.getD i ("", [])).2)).map Prod.snd = rows.map Prod.snd := by
    rw [List.map_map]
    conv => rhs; rw [← Gv.Proofs.SitesLists.map_getD_range rows ("", []), List.map_map]
    rfl
  refine ⟨hs, by simp [List.map_map, Function.comp_def], ?_⟩
  rcases hr with ⟨e0, e1⟩ | ⟨hne, h0, hl⟩
  · omega
  · right
    refine ⟨?_, h0, ?_⟩
    · intro hc
      have : ((List.range rows.length).map fun i => (toString i, (rows.getD i ("", [])).2)).length = 0 := by rw [hc]; rfl
      simp at this
      exact hne this
    · intro r hrm
      have : r.2 ∈ rows.map Prod.snd := by rw [← hs]; exact List.mem_map_of_mem hrm
      obtain ⟨y, hy, e⟩ := List.mem_map.mp this
      rw [← e]; exact hl y hy

/-- the boundary the statement above excludes, on the smallest input: one row of length 0 -/
theorem transpose_twice_drops_zero_length_rows :
    Rect [("a", [])] 0 ∧ transpose (transpose [("a", [])] 0) (lenOf (transpose [("a", [])] 0)) = [] :=
  ⟨Or.inr ⟨by simp, by omega, by simp⟩, by decide⟩

/-! ## split -/

/-- the partition table stays well formed: one entry per site, each unassigned or the index of a
registered name — for every sequence of `AddRange` calls (modulo/codon ranges included) -/
theorem newPartSet_partInv (L : Int) : PartInv (newPartSet L) := Gv.Proofs.SitesSplit.newPartSet_inv L

theorem addRange_partInv (ps : PartSet) (h : PartInv ps) (name : String) (start stop modulo : Int) :
    PartInv (addRange ps name start stop modulo).1 :=
  Gv.Proofs.SitesSplit.addRange_inv ps h name start stop modulo

/-- **Re-interleaving the blocks of a total partition gives back the alignment**: when `Split`
succeeds on a rectangular alignment with a well-formed table in which every site is assigned, there is
one block per partition name, every non-empty block keeps the names and the row order, and for every
sequence, taking site `j` from the block of `j`'s partition at the rank of `j` inside it rebuilds the
row. -/
theorem split_reinterleave_id (rows : SRows) (L : Int) (ps : PartSet) (blocks : List SRows)
    (hr : Rect rows L) (hinv : PartInv ps) (htot : ∀ p ∈ ps.parts, p ≠ -1)
    (h : split rows L ps = .ok blocks) :
    blocks.length = ps.names.length ∧
    (∀ b ∈ blocks, b = [] ∨ b.map Prod.fst = rows.map Prod.fst) ∧
    (∀ (ri : Nat) (hri : ri < rows.length),
      reinterleaveSeq ps.parts (blocks.map fun b => (b.getD ri ("", [])).2) = (rows[ri]).2) ∧
    ((List.range rows.length).map fun ri =>
      ((rows.getD ri ("", [])).1, reinterleaveSeq ps.parts (blocks.map fun b => (b.getD ri ("", [])).2))) = rows := by
  obtain ⟨a, b, c⟩ := Gv.Proofs.SitesSplit.split_reinterleave rows L ps blocks hr hinv htot h
  exact ⟨a, b, c, Gv.Proofs.SitesSplit.split_reinterleave_all rows L ps blocks hr hinv htot h⟩

/-- **Every block of `Split` is the selection of its partition's sites, in increasing order, names and
row order unchanged**: block `pi` is what `SelectSites` returns for the sites `j` with
`parts[j] = pi` (the empty alignment when the partition has no site). -/
theorem split_blocks (rows : SRows) (L : Int) (ps : PartSet) (blocks : List SRows) (hr : Rect rows L)
    (hinv : PartInv ps) (h : split rows L ps = .ok blocks) (pi : Nat) (hpi : pi < ps.names.length) :
    let cols := Gv.Proofs.SitesSplit.colsOf ps.parts pi
    cols.Pairwise (· < ·) ∧ (∀ j, j ∈ cols ↔ j < ps.parts.length ∧ ps.parts.getD j (-1) = (pi : Int)) ∧
    blocks[pi]? = some (if cols = [] then [] else rows.map fun r => (r.1, cols.map fun j => r.2.getD j 0)) ∧
    (cols ≠ [] → selectSites rows L (cols.map fun (j : Nat) => (j : Int)) = .ok (blocks.getD pi [])) := by
  obtain ⟨_, hlen, hb⟩ := Gv.Proofs.SitesSplit.split_eval rows L ps blocks h
  have hmem : ∀ j, j ∈ Gv.Proofs.SitesSplit.colsOf ps.parts pi ↔ j < ps.parts.length ∧ ps.parts.getD j (-1) = (pi : Int) := by
    intro j
    simp only [Gv.Proofs.SitesSplit.colsOf, List.mem_filter, List.mem_range, beq_iff_eq]
    rfl
  have hblk : blocks[pi]? = some (if Gv.Proofs.SitesSplit.colsOf ps.parts pi = [] then [] else
      rows.map fun r => (r.1, (Gv.Proofs.SitesSplit.colsOf ps.parts pi).map fun j => r.2.getD j 0)) := by
    rw [hb, List.getElem?_map, List.getElem?_range hpi]
    simp only [Option.map_some, List.isEmpty_iff]
  refine ⟨(List.pairwise_lt_range).sublist List.filter_sublist, hmem, hblk, ?_⟩
  intro hne
  rw [List.getD_eq_getElem?_getD, hblk, if_neg hne]
  simp only [Option.getD_some]
  have hsites : ∀ s ∈ (Gv.Proofs.SitesSplit.colsOf ps.parts pi).map (fun (j : Nat) => (j : Int)), 0 ≤ s ∧ s < L := by
    intro s hs
    obtain ⟨j, hj, rfl⟩ := List.mem_map.mp hs
    have := ((hmem j).mp hj).1
    have := hinv.1
    omega
  obtain ⟨r, hr2⟩ := (selectSites_ok_iff rows L hr _).mpr hsites
  rw [hr2, (selectSites_rows rows L _ r hr2).1]
  simp [List.map_map, Function.comp_def]

/-- `Split` never panics and fails exactly when there are fewer than two partitions or the table was
built for another length -/
theorem split_ok_iff (rows : SRows) (L : Int) (ps : PartSet) :
    (∃ b, split rows L ps = .ok b) ↔ (1 < ps.names.length ∧ ps.length = L) := by
  unfold split
  constructor
  · rintro ⟨b, h⟩
    split at h
    · cases h
    · split at h
      · cases h
      · rename_i h1 h2
        exact ⟨by omega, by simpa using h2⟩
  · rintro ⟨h1, h2⟩
    have c1 : ¬ (ps.names.length ≤ 1) := by omega
    have c2 : ¬ ((ps.length != L) = true) := by simp [h2]
    rw [if_neg c1, if_neg c2]
    exact ⟨_, rfl⟩

/-! ## non-vacuity -/

example : Rect [("a", [65, 45, 67]), ("b", [45, 45, 71])] 3 := Or.inr ⟨by simp, by omega, by simp⟩
example : subAlign [("a", [65, 45, 67])] 3 1 2 = .ok [("a", [45, 67])] := by decide
example : selectSites [("a", [65, 45, 67])] 3 [3] = .err := by decide
example : (addRange (newPartSet 6) "p" 2 5 9223372036854775807).2 = .ok () := by decide
example : refCoordinates [("ref", [45, 65, 67, 45, 45, 71, 84, 45])] "ref" 1 2 = .ok (2, 4, false) := by decide
example : refSites [("ref", [45, 65, 67, 45, 45, 71, 84, 45])] 8 "ref" [2, 0] = .ok [1, 5] := by decide
example : refSites [("ref", [45, 65, 67, 45, 45, 71, 84, 45])] 8 "ref" [4] = .err := by decide
-- the contiguous request 1,2 spans the window (2, 4) of `refCoordinates … 1 2` above
example : refSites [("ref", [45, 65, 67, 45, 45, 71, 84, 45])] 8 "ref" (window 1 2) = .ok [2, 5] := by decide
example : inverseCoordinates 8 2 4 = .ok ([0, 6], [2, 2]) ∧ inversePositions 8 (window 2 4) = .ok [0, 1, 6, 7] := by decide
example : transpose [("a", [65, 67, 45]), ("b", [71, 84, 65])] 3 = [("0", [65, 71]), ("1", [67, 84]), ("2", [45, 65])] := by decide
example : (transpose (transpose [("a", [65, 67, 45]), ("b", [71, 84, 65])] 3) 2).map Prod.snd = [[65, 67, 45], [71, 84, 65]] := by decide

/-- a codon partition of six sites, built with three `AddRange` calls of modulo 3 -/
def codon6 : PartSet := (addRange (addRange (addRange (newPartSet 6) "p1" 0 5 3).1 "p2" 1 5 3).1 "p3" 2 5 3).1
example : codon6.parts = [0, 1, 2, 0, 1, 2] := by decide
example : PartInv codon6 := addRange_partInv _ (addRange_partInv _ (addRange_partInv _ (newPartSet_partInv 6) ..) ..) ..
example : ∀ p ∈ codon6.parts, p ≠ -1 := by decide
example : split [("a", [65, 67, 71, 84, 45, 78]), ("b", [84, 84, 45, 45, 67, 67])] 6 codon6 =
    .ok [[("a", [65, 84]), ("b", [84, 45])], [("a", [67, 45]), ("b", [84, 67])], [("a", [71, 78]), ("b", [45, 67])]] := by decide
example : reinterleaveSeq codon6.parts [[65, 84], [67, 45], [71, 78]] = [65, 67, 71, 84, 45, 78] := by decide

end Gv.Props.C04
