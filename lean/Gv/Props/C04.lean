import Gv.Proofs.SitesRef
/-!
# C04 — site extraction and coordinates address exactly the requested columns

Theorems about `lean/Gv/Model/Sites.lean` for all alignments and all integer arguments.
`Rect rows L`: every row has the cached length `L` (the C01 invariant of an alignment).
-/
namespace Gv.Props.C04
open Gv Gv.Model Gv.Spec.Sites Gv.Proofs.SitesRef


/-! ## range extraction -/

/-- **`SubAlign` succeeds iff the window lies inside the alignment** — every other argument,
including every boundary value and negative numbers, is an error (never a panic). -/
theorem subAlign_ok_iff (rows : SRows) (L st ln : Int) :
    (∃ r, subAlign rows L st ln = .ok r) ↔ (0 ≤ st ∧ 0 ≤ ln ∧ st + ln ≤ L) := by
  unfold subAlign
  constructor
  · intro ⟨r, h⟩
    split at h
    · cases h
    · split at h
      · cases h
      · split at h
        · cases h
        · rename_i h1 h2 h3
          simp only [Bool.or_eq_true, decide_eq_true_eq, not_or, Int.not_lt] at h1 h2 h3
          omega
  · intro ⟨h1, h2, h3⟩
    have c1 : ¬ ((decide (st < 0) || decide (st > L)) = true) := by simp; omega
    have c2 : ¬ (ln < 0) := by omega
    have c3 : ¬ ((decide (st + ln < 0) || decide (st + ln > L)) = true) := by simp; omega
    simp only [c1, c2, c3, if_false]
    exact ⟨_, rfl⟩

theorem subAlign_never_panics (rows : SRows) (L st ln : Int) : subAlign rows L st ln ≠ .panic := by
  unfold subAlign
  split
  · simp
  · split
    · simp
    · split <;> simp

/-- the extracted window: names and order unchanged, each row is exactly columns `st … st+ln-1` -/
theorem subAlign_rows (rows : SRows) (L st ln : Int) (r : SRows) (h : subAlign rows L st ln = .ok r) :
    r.map Prod.fst = rows.map Prod.fst ∧
    r = rows.map (fun x => (x.1, (x.2.drop st.toNat).take ln.toNat)) := by
  unfold subAlign at h
  split at h
  · cases h
  · split at h
    · cases h
    · split at h
      · cases h
      · simp only [Out.ok.injEq] at h
        subst h
        simp [List.map_map, Function.comp_def]

/-- with a rectangular alignment every extracted row has the requested length -/
theorem subAlign_lengths (rows : SRows) (L st ln : Int) (hr : Rect rows L) (r : SRows)
    (h : subAlign rows L st ln = .ok r) : ∀ x ∈ r, (x.2.length : Int) = ln := by
  have hok := (subAlign_ok_iff rows L st ln).mp ⟨r, h⟩
  rw [(subAlign_rows rows L st ln r h).2]
  intro x hx
  obtain ⟨y, hy, e⟩ := List.mem_map.mp hx
  subst e
  rcases hr with ⟨e, _⟩ | ⟨_, _, hl⟩
  · subst e; simp at hy
  · have := hl y hy
    simp only [List.length_take, List.length_drop]
    omega

/-- **prefix + window + suffix reproduce every row**: the complementary extractions of
`InverseCoordinates` concatenate back to the original -/
theorem prefix_window_suffix (s : Seq) (st ln : Nat) :
    s.take st ++ ((s.drop st).take ln ++ s.drop (st + ln)) = s := by
  rw [← List.drop_drop, List.take_append_drop, List.take_append_drop]

/-- `InverseCoordinates` returns exactly the prefix `[0, st)` (when non-empty) and the suffix
`[st+ln, L)` (when non-empty), and fails exactly when `SubAlign` fails -/
theorem inverseCoordinates_spec (L st ln : Int) :
    inverseCoordinates L st ln =
      if 0 ≤ st ∧ 0 ≤ ln ∧ st + ln ≤ L then
        .ok ((if st > 0 then [0] else []) ++ (if st + ln < L then [st + ln] else []),
             (if st > 0 then [st] else []) ++ (if st + ln < L then [L - (st + ln)] else []))
      else .err := by
  unfold inverseCoordinates
  by_cases h : 0 ≤ st ∧ 0 ≤ ln ∧ st + ln ≤ L
  · obtain ⟨h1, h2, h3⟩ := h
    have c1 : ¬ ((decide (st < 0) || decide (st > L)) = true) := by simp; omega
    have c2 : ¬ (ln < 0) := by omega
    have c3 : ¬ ((decide (st + ln < 0) || decide (st + ln > L)) = true) := by simp; omega
    simp only [c1, c2, c3, if_false, h1, h2, h3, and_self, if_true]
    by_cases a : st > 0 <;> by_cases b : st + ln < L <;> simp [a, b]
  · simp only [h, if_false]
    split
    · rfl
    · split
      · rfl
      · split
        · rfl
        · rename_i h1 h2 h3
          simp only [Bool.or_eq_true, decide_eq_true_eq, not_or, Int.not_lt] at h1 h2 h3
          exact absurd ⟨by omega, by omega, by omega⟩ h

/-! ## explicit site lists -/

/-- **`SelectSites` on a rectangular alignment succeeds iff every site is inside `[0, L)`, and never
panics** (in particular `site = L` is an error). -/
theorem selectSites_ok_iff (rows : SRows) (L : Int) (hr : Rect rows L) (sites : List Int) :
    (∃ r, selectSites rows L sites = .ok r) ↔ (∀ s ∈ sites, 0 ≤ s ∧ s < L) := by
  unfold selectSites
  constructor
  · intro ⟨r, h⟩
    split at h
    · cases h
    · rename_i h1
      intro s hs
      simp only [List.any_eq_true, Bool.or_eq_true, decide_eq_true_eq, not_exists, not_and, not_or, Int.not_lt] at h1
      have := h1 s hs
      omega
  · intro hall
    have c1 : ¬ (sites.any (fun s => decide (s < 0) || decide (s ≥ L)) = true) := by
      simp only [List.any_eq_true, Bool.or_eq_true, decide_eq_true_eq, not_exists, not_and, not_or]
      intro s hs; have := hall s hs; omega
    have c2 : ¬ (rows.any (fun r => sites.any fun s => decide (s.toNat ≥ r.2.length)) = true) := by
      simp only [List.any_eq_true, decide_eq_true_eq, not_exists, not_and]
      intro r hrm s hs
      rcases hr with ⟨e, _⟩ | ⟨_, _, hl⟩
      · subst e; simp at hrm
      · have := hl r hrm; have := hall s hs; omega
    simp only [c1, c2, if_false]
    exact ⟨_, rfl⟩

theorem selectSites_never_panics (rows : SRows) (L : Int) (hr : Rect rows L) (sites : List Int) :
    selectSites rows L sites ≠ .panic := by
  by_cases h : ∀ s ∈ sites, 0 ≤ s ∧ s < L
  · obtain ⟨r, e⟩ := (selectSites_ok_iff rows L hr sites).mpr h
    rw [e]; simp
  · unfold selectSites
    have : sites.any (fun s => decide (s < 0) || decide (s ≥ L)) = true := by
      simp only [List.any_eq_true, Bool.or_eq_true, decide_eq_true_eq]
      apply Classical.byContradiction
      intro hc
      apply h
      intro s hs
      apply Classical.byContradiction
      intro hn
      exact hc ⟨s, hs, by omega⟩
    simp [this]

/-- the selected columns, in the addressed order, repeats kept; names and row order unchanged -/
theorem selectSites_rows (rows : SRows) (L : Int) (sites : List Int) (r : SRows)
    (h : selectSites rows L sites = .ok r) :
    r = rows.map (fun x => (x.1, sites.map fun s => x.2.getD s.toNat 0)) ∧
    r.map Prod.fst = rows.map Prod.fst ∧ ∀ x ∈ r, x.2.length = sites.length := by
  unfold selectSites at h
  split at h
  · cases h
  · split at h
    · cases h
    · simp only [Out.ok.injEq] at h
      subst h
      refine ⟨rfl, by simp [List.map_map, Function.comp_def], ?_⟩
      intro x hx
      obtain ⟨y, _, e⟩ := List.mem_map.mp hx
      subst e; simp

/-- **`InversePositions` returns exactly the complement of the given sites, in increasing order.** -/
theorem inversePositions_complement (L : Int) (sites : List Int) (r : List Int)
    (h : inversePositions L sites = .ok r) :
    (∀ i : Int, i ∈ r ↔ (0 ≤ i ∧ i < L ∧ i ∉ sites)) ∧ r.Pairwise (· < ·) := by
  unfold inversePositions at h
  split at h
  · cases h
  · simp only [Out.ok.injEq] at h
    subst h
    constructor
    · intro i
      simp only [List.mem_map, List.mem_filter, List.mem_range, Bool.not_eq_true', List.contains_eq_mem,
        decide_eq_false_iff_not]
      constructor
      · rintro ⟨k, ⟨hk, hn⟩, rfl⟩
        refine ⟨by simp, ?_, hn⟩
        have : (Int.ofNat k) = (k : Int) := rfl
        rw [this]; omega
      · rintro ⟨h0, hl, hn⟩
        refine ⟨i.toNat, ⟨by omega, ?_⟩, by simp; omega⟩
        have : Int.ofNat i.toNat = i := by simp; omega
        rw [this]; exact hn
    · apply List.Pairwise.map (R := (· < ·))
      · intro a b hab; simp; exact hab
      · exact (List.pairwise_lt_range).sublist (List.filter_sublist)

theorem inversePositions_error_iff (L : Int) (sites : List Int) :
    inversePositions L sites = .err ↔ ∃ s ∈ sites, s < 0 ∨ s ≥ L := by
  unfold inversePositions
  constructor
  · intro h
    split at h
    · rename_i h1
      simp only [List.any_eq_true, Bool.or_eq_true, decide_eq_true_eq] at h1
      exact h1
    · cases h
  · intro ⟨s, hs, hb⟩
    have : sites.any (fun s => decide (s < 0) || decide (s ≥ L)) = true := by
      simp only [List.any_eq_true, Bool.or_eq_true, decide_eq_true_eq]
      exact ⟨s, hs, hb⟩
    simp [this]

/-! ## reference coordinates -/


/-- **Reference coordinates map to the smallest alignment window whose reference residues are exactly
the requested ones**: when `RefCoordinates(name, rs, rl)` succeeds with `(a, l)`, the reference row
`s` has exactly `rs` residues before column `a`, exactly `rl` residues inside `[a, a+l)`, and both the
first and the last column of the window hold a residue of the reference (so no smaller window works). -/
theorem refCoordinates_window (rows : SRows) (name : String) (rs rl a l : Int)
    (h : refCoordinates rows name rs rl = .ok (a, l, false)) :
    ∃ r, rows.find? (fun r => r.1 == name) = some r ∧ 0 ≤ a ∧ 1 ≤ l ∧ a + l ≤ r.2.length ∧
      r.2.getD a.toNat GAP ≠ GAP ∧ r.2.getD (a + l - 1).toNat GAP ≠ GAP ∧
      (nres (r.2.take a.toNat) : Int) = rs ∧ (nres ((r.2.drop a.toNat).take l.toNat) : Int) = rl := by
  unfold refCoordinates at h
  cases hf : rows.find? (fun r => r.1 == name) with
  | none => simp [hf] at h
  | some r =>
    simp only [hf] at h
    split at h
    · cases h
    · split at h
      · cases h
      · rename_i h1 h2
        have hrs : 0 ≤ rs := by omega
        have hrl : 0 < rl := by omega
        have hp1 := refLoop_phase1 rs.toNat rl.toNat (by omega) r.2 0 0 0 (by omega)
        have hng := refLoop_ngaps rs.toNat rl.toNat r.2 0 0 0 0
        generalize hres : refLoop rs.toNat rl.toNat r.2 0 0 0 0 = res at h hp1 hng
        obtain ⟨ng, as, al⟩ := res
        simp only [Nat.sub_zero, Nat.zero_add, Prod.mk.injEq] at hp1
        simp only [Out.ok.injEq, Prod.mk.injEq, decide_eq_false_iff_not, Int.not_lt] at h
        obtain ⟨ha, hl, he⟩ := h
        have hle : nres r.2 ≤ r.2.length := by unfold nres; exact List.length_filter_le _ _
        -- enough residues on the reference
        have henough : rs.toNat + rl.toNat ≤ nres r.2 := by
          rcases hng with hh | hh
          · simpa using hh
          · simp only [Nat.zero_add] at hh
            rw [hh] at he
            omega
        obtain ⟨s1, s2, s3⟩ := skipTo_spec rs.toNat r.2 (by omega)
        have hdrop : nres (r.2.drop (skipTo rs.toNat r.2)) = nres r.2 - rs.toNat := by
          have := nres_append (r.2.take (skipTo rs.toNat r.2)) (r.2.drop (skipTo rs.toNat r.2))
          rw [List.take_append_drop, s3] at this
          omega
        obtain ⟨p1, p2, p3, p4⟩ := spanOf_spec rl.toNat (r.2.drop (skipTo rs.toNat r.2)) (by omega) (by omega)
        rw [← hp1.1] at s1 s2 s3 p1 p2 p3 p4
        rw [← hp1.1] at hp1
        rw [← hp1.2] at p1 p2 p3 p4
        simp only [List.length_drop] at p2
        refine ⟨r, rfl, by omega, by omega, by omega, ?_, ?_, ?_, ?_⟩
        · rw [← ha]; simpa using s2
        · have : (a + l - 1).toNat = as + (al - 1) := by omega
          rw [this]
          rw [List.getD_eq_getElem?_getD, List.getElem?_drop] at p3
          rw [List.getD_eq_getElem?_getD]
          exact p3
        · rw [← ha]; simp [s3]; omega
        · rw [← ha, ← hl]; simp [p4]; omega

/-- `RefCoordinates` is an error exactly when the reference is unknown, the start is negative, the
length is not positive, or the request exceeds the ungapped reference -/
theorem refCoordinates_error_of_short (rows : SRows) (name : String) (rs rl : Int) (r : String × Seq)
    (hf : rows.find? (fun r => r.1 == name) = some r) (h0 : 0 ≤ rs) (h1 : 0 < rl)
    (hs : (nres r.2 : Int) < rs + rl) :
    ∃ a l, refCoordinates rows name rs rl = .ok (a, l, true) := by
  unfold refCoordinates
  simp only [hf]
  have c1 : ¬ rs < 0 := by omega
  have c2 : ¬ rl ≤ 0 := by omega
  simp only [c1, c2, if_false]
  have hng := refLoop_ngaps rs.toNat rl.toNat r.2 0 0 0 0
  generalize refLoop rs.toNat rl.toNat r.2 0 0 0 0 = res at hng
  obtain ⟨ng, as, al⟩ := res
  have hle : nres r.2 ≤ r.2.length := by unfold nres; exact List.length_filter_le _ _
  rcases hng with hh | hh
  · simp only [Nat.zero_add] at hh; omega
  · simp only [Nat.zero_add] at hh
    refine ⟨as, al, ?_⟩
    simp only [Out.ok.injEq, Prod.mk.injEq, true_and, decide_eq_true_eq]
    rw [hh]; omega

/-! ## diff to first / replace match characters -/

private theorem zip_restore (f o : Seq) (hl : f.length = o.length) (hp : POINT ∉ o) :
    ((f.zip ((f.zip o).map (fun p => if p.1 == p.2 then POINT else p.2) ++ o.drop f.length)).map
        (fun p => if p.1 != POINT && p.2 == POINT then p.1 else p.2) ++
      ((f.zip o).map (fun p => if p.1 == p.2 then POINT else p.2) ++ o.drop f.length).drop f.length) = o := by
  induction f generalizing o with
  | nil => cases o <;> simp_all
  | cons a f ih =>
    cases o with
    | nil => simp at hl
    | cons b o =>
      simp only [List.length_cons, Nat.add_right_cancel_iff] at hl
      have hpb : ¬ b = POINT := fun e => hp (by simp [e])
      have hpo : POINT ∉ o := fun e => hp (by simp [e])
      have := ih o hl hpo
      simp only [List.zip_cons_cons, List.map_cons, List.cons_append, List.length_cons, List.drop_succ_cons] at this ⊢
      rw [this]
      by_cases e : a = b
      · subst e
        simp [hpb]
      · have : (a == b) = false := by simpa using e
        simp [this, hpb]

/-- **Replacing match characters after a diff-to-first reproduces the original alignment**
(for alignments without `.`, whose rows all have the first row's length). -/
theorem diff_then_replace_id (rows : SRows) (hp : ∀ r ∈ rows, POINT ∉ r.2)
    (hl : ∀ f ∈ rows.head?, ∀ r ∈ rows, r.2.length = f.2.length) :
    replaceMatchChars (diffWithFirst rows) = rows := by
  match rows with
  | [] => rfl
  | [r] => rfl
  | f :: r2 :: rest =>
    have hf : ∀ r ∈ (r2 :: rest), r.2.length = f.2.length := fun r hr => hl f (by simp) r (by simp [hr])
    have hpp : ∀ r ∈ (r2 :: rest), POINT ∉ r.2 := fun r hr => hp r (by simp [hr])
    have one : ∀ x : String × Seq, x.2.length = f.2.length → POINT ∉ x.2 →
        (x.1, (f.2.zip ((f.2.zip x.2).map (fun p => if p.1 == p.2 then POINT else p.2) ++ x.2.drop f.2.length)).map
            (fun p => if p.1 != POINT && p.2 == POINT then p.1 else p.2) ++
          ((f.2.zip x.2).map (fun p => if p.1 == p.2 then POINT else p.2) ++ x.2.drop f.2.length).drop f.2.length) = x := by
      intro x h1 h2
      have := zip_restore f.2 x.2 h1.symm h2
      rw [this]
    simp only [diffWithFirst, List.map_cons, replaceMatchChars, List.map_map]
    congr 1
    congr 1
    · exact one r2 (hf r2 (by simp)) (hpp r2 (by simp))
    · have hf' : ∀ r ∈ rest, r.2.length = f.2.length := fun r hr => hf r (by simp [hr])
      have hpp' : ∀ r ∈ rest, POINT ∉ r.2 := fun r hr => hpp r (by simp [hr])
      clear hf hpp hl hp
      induction rest with
      | nil => rfl
      | cons x t ih =>
        simp only [List.map_cons, Function.comp]
        congr 1
        · exact one x (hf' x (by simp)) (hpp' x (by simp))
        · exact ih (fun r hr => hf' r (by simp [hr])) (fun r hr => hpp' r (by simp [hr]))

/-! ## partitions -/

/-- **`AddRange` never panics, for all integer `start`, `end`, `modulo`** (including a modulo close
to the largest integer), as long as the table has one entry per site -/
theorem addRange_never_panics (ps : PartSet) (hlen : (ps.parts.length : Int) = ps.length) (name : String)
    (start stop modulo : Int) : (addRange ps name start stop modulo).2 ≠ .panic := by
  unfold addRange
  split
  · simp
  · split
    · simp
    · split
      · simp
      · split
        · simp
        · rename_i h1 h2 h3 h4
          simp only []
          generalize (match ps.names.findIdx?   (· == name) with
            | some i => (ps.names, (i : Int)) | none => (ps.names ++ [name], (ps.names.length : Int))).2 = idx
          -- loop invariant: 0 ≤ i and the table keeps its length
          have key : ∀ (fuel : Nat) (i : Int) (parts : List Int), 0 ≤ i → (parts.length : Int) = ps.length →
              (addRangeLoop idx stop modulo fuel i parts).2 ≠ .panic := by
            intro fuel
            induction fuel with
            | zero => intro i parts _ _; simp [addRangeLoop]
            | succ f ih =>
              intro i parts hi hp
              simp only [addRangeLoop]
              split
              · simp
              · rename_i hgt
                have hlt : i.toNat < parts.length := by omega
                rw [List.getElem?_eq_getElem hlt]
                simp only []
                split
                · simp
                · split
                  · simp
                  · apply ih
                    · omega
                    · simp [hp]
          exact key _ _ _ (by omega) hlen

/-! ## non-vacuity -/

example : Rect [("a", [65, 45, 67]), ("b", [45, 45, 71])] 3 := Or.inr ⟨by simp, by omega, by simp⟩
example : subAlign [("a", [65, 45, 67])] 3 1 2 = .ok [("a", [45, 67])] := by decide
example : selectSites [("a", [65, 45, 67])] 3 [3] = .err := by decide
example : (addRange (newPartSet 6) "p" 2 5 9223372036854775807).2 = .ok () := by decide
example : refCoordinates [("ref", [45, 65, 67, 45, 45, 71, 84, 45])] "ref" 1 2 = .ok (2, 4, false) := by decide

end Gv.Props.C04
