import Mathlib.Analysis.SpecialFunctions.Log.Basic
import Mathlib.Analysis.SpecialFunctions.Pow.Real
import Gv.Num
/-!
`RealLike` at `ℝ` (the regenerated numeric code is reasoned about here) and at `FVal`, an
IEEE-754-like interpretation with NaN and the two infinities (DESIGN §4.2): `log` of a negative
number and `0/0` are NaN, `x/0` is an infinity, every comparison with NaN is false.
Not modelled: rounding, overflow of finite results, signed zeros.
Imports Mathlib: never imported by the oracle.
-/
namespace Gv
open Classical

/- numerals of `ℝ` (and of every type with its own numerals) keep their usual meaning in the
modules that import this file; the generic numerals of `RealLike` are still used inside the
regenerated definitions, which were elaborated for an abstract `α` -/
attribute [instance 10] instOfNatOfRealLike

noncomputable instance instRealLikeReal : RealLike ℝ where
  toAdd := inferInstance
  toSub := inferInstance
  toMul := inferInstance
  toDiv := inferInstance
  toNeg := inferInstance
  log := Real.log
  exp := Real.exp
  pow := fun x y => x ^ y
  sqrt := Real.sqrt
  abs := fun x => |x|
  ltb := fun a b => decide (a < b)
  leb := fun a b => decide (a ≤ b)
  eqb := fun a b => decide (a = b)
  ofNat := fun n => (n : ℝ)

namespace RealR
theorem ofNat_def (n : ℕ) : (@OfNat.ofNat ℝ n (@instOfNatOfRealLike ℝ instRealLikeReal n)) = (n : ℝ) := rfl
theorem log_def (a : ℝ) : RealLike.log a = Real.log a := rfl
theorem exp_def (a : ℝ) : RealLike.exp a = Real.exp a := rfl
theorem pow_def (a b : ℝ) : RealLike.pow a b = a ^ b := rfl
theorem sqrt_def (a : ℝ) : RealLike.sqrt a = Real.sqrt a := rfl
theorem abs_def (a : ℝ) : RealLike.abs a = |a| := rfl
theorem ltb_def (a b : ℝ) : RealLike.ltb a b = decide (a < b) := rfl
theorem leb_def (a b : ℝ) : RealLike.leb a b = decide (a ≤ b) := rfl
theorem eqb_def (a b : ℝ) : RealLike.eqb a b = decide (a = b) := rfl
end RealR

/-- normalises a term built with the `RealLike ℝ` instance into ordinary real arithmetic -/
syntax "real_like" (Lean.Parser.Tactic.location)? : tactic
macro_rules
  | `(tactic| real_like $[$loc]?) => `(tactic|
    (simp only [RealR.ofNat_def, RealR.log_def, RealR.exp_def, RealR.pow_def, RealR.sqrt_def, RealR.abs_def,
       RealR.ltb_def, RealR.leb_def, RealR.eqb_def] $[$loc]?
     try simp only [Nat.cast_ofNat, Nat.cast_zero, Nat.cast_one] $[$loc]?
     try dsimp only [instRealLikeReal] $[$loc]?))

end Gv
