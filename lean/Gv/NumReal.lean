import Gv.Num
import Mathlib.Analysis.SpecialFunctions.Pow.Real
import Mathlib.Analysis.SpecialFunctions.Sqrt
/-!
`RealLike ℝ`: the interpretation of the regenerated numeric code (tie T2) over the real numbers, for the
proof modules.  Imports Mathlib — must never be imported by anything the oracle executable links.

The `simp` set `realLike` rewrites every operation of the generic code into the standard operation on
`ℝ`, so that `ring`, `field_simp`, `norm_num`, `positivity` apply.
-/
namespace Gv

-- The numerals of the generic code go through `RealLike.ofNat`.  Once `ℝ` is an instance, that generic
-- `OfNat` instance must not capture ordinary real numerals: lower its priority for every importer.
attribute [instance 10] instOfNatOfRealLike

noncomputable instance instRealLikeReal : RealLike ℝ where
  log := Real.log
  exp := Real.exp
  pow := fun x y => x ^ y
  sqrt := Real.sqrt
  abs := fun x => |x|
  ltb := fun a b => decide (a < b)
  leb := fun a b => decide (a ≤ b)
  eqb := fun a b => decide (a = b)
  ofNat := fun n => (n : ℝ)

namespace RealLike

@[simp] theorem real_log (x : ℝ) : RealLike.log x = Real.log x := rfl
@[simp] theorem real_exp (x : ℝ) : RealLike.exp x = Real.exp x := rfl
@[simp] theorem real_pow (x y : ℝ) : RealLike.pow x y = x ^ y := rfl
@[simp] theorem real_sqrt (x : ℝ) : RealLike.sqrt x = Real.sqrt x := rfl
@[simp] theorem real_abs (x : ℝ) : RealLike.abs x = |x| := rfl
@[simp] theorem real_ltb (a b : ℝ) : RealLike.ltb a b = decide (a < b) := rfl
@[simp] theorem real_leb (a b : ℝ) : RealLike.leb a b = decide (a ≤ b) := rfl
@[simp] theorem real_eqb (a b : ℝ) : RealLike.eqb a b = decide (a = b) := rfl
@[simp] theorem real_ofNat' (n : ℕ) : (RealLike.ofNat n : ℝ) = (n : ℝ) := rfl
/-- numerals of the generic code are the usual real numerals -/
@[simp] theorem real_ofNat (n : ℕ) [n.AtLeastTwo] :
    (@OfNat.ofNat ℝ n (Gv.instOfNatOfRealLike n)) = (OfNat.ofNat n : ℝ) := by
  exact (Nat.cast_ofNat : ((OfNat.ofNat n : ℕ) : ℝ) = OfNat.ofNat n)
@[simp] theorem real_zero : (@OfNat.ofNat ℝ 0 (Gv.instOfNatOfRealLike 0)) = (0 : ℝ) := by
  exact (Nat.cast_zero : ((0 : ℕ) : ℝ) = 0)
@[simp] theorem real_one : (@OfNat.ofNat ℝ 1 (Gv.instOfNatOfRealLike 1)) = (1 : ℝ) := by
  exact (Nat.cast_one : ((1 : ℕ) : ℝ) = 1)

end RealLike
end Gv
