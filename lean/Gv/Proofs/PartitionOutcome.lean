import Gv.Model.Fmt.Partition
import Gv.Proofs.PartitionRange
/-!
Partition parser (with the overflow guard of `AddRange`): for every byte string the outcome is an explicit
error or a partition set over the declared length — never a panic, never a hang (helper development for
`Props/C03.lean`).
-/
namespace Gv.Proofs.PartitionOutcome
open Gv Gv.Model Gv.Model.Fmt Gv.Model.Fmt.Partition Gv.Proofs.PartitionRange

theorem length_dropWhile_le {α} (p : α → Bool) : ∀ l : List α, (l.dropWhile p).length ≤ l.length
  | [] => by simp
  | x :: xs => by
    simp only [List.dropWhile]
    split
    · exact Nat.le_succ_of_le (length_dropWhile_le p xs)
    · simp

theorem afterRun_le (l : Seq) : (Phylip.afterRun l).length ≤ l.length := by
  unfold Phylip.afterRun; split
  · split <;> simp
  · simp

theorem scan_nil : scan [] = (.eof, []) := rfl

/-- every `Scan` on a non-empty input consumes at least one byte -/
theorem scan_shorter (c : Byte) (cs : Seq) : (scan (c :: cs)).2.length < (c :: cs).length := by
  unfold scan
  simp only [List.length_cons]
  split
  · simp only []; omega
  · split
    · cases cs with
      | nil => simp
      | cons x r =>
        split
        · rename_i r' he
          simp only [List.cons.injEq] at he
          rw [← he.2]; simp only [List.length_cons]; omega
        · simp only [List.length_cons]; omega
    · have hd := length_dropWhile_le (fun b => b == SP) (c :: cs)
      split
      · simp
      · rename_i d ds he
        rw [he] at hd
        have h2 := Nat.le_trans (afterRun_le (ds.dropWhile identChar)) (length_dropWhile_le identChar ds)
        simp only [List.length_cons] at hd
        repeat' split
        all_goals (simp only []; omega)

theorem scan_le (inp : Seq) : (scan inp).2.length ≤ inp.length := by
  cases inp with
  | nil => simp [scan]
  | cons c cs => exact Nat.le_of_lt (scan_shorter c cs)

/-- scanning the empty input gives EOF; otherwise the rest is strictly shorter -/
theorem scan_cases (inp : Seq) : (scan inp = (.eof, []) ∧ inp = []) ∨ (scan inp).2.length < inp.length := by
  cases inp with
  | nil => left; exact ⟨rfl, rfl⟩
  | cons c cs => right; exact scan_shorter c cs

/-- progress of the token stream relative to the input of the current loop iteration -/
def Rel (inp : Seq) (t : Tok) (i : Seq) : Prop := i.length < inp.length ∨ (i.length ≤ inp.length ∧ t = .eof)

theorem rel_le {inp : Seq} {t : Tok} {i : Seq} (h : Rel inp t i) : i.length ≤ inp.length := by
  cases h with
  | inl h => omega
  | inr h => exact h.1

theorem rel_scan (inp i : Seq) (h : i.length ≤ inp.length) : Rel inp (scan i).1 (scan i).2 := by
  cases scan_cases i with
  | inl e => right; rw [e.1]; simp
  | inr e => left; omega

theorem optRange_rel (inp : Seq) (start : Int) (t : Tok) (i : Seq) (h : Rel inp t i)
    (e : Int) (t' : Tok) (i' : Seq) (ho : optRange start t i = some (e, t', i')) : Rel inp t' i' := by
  unfold optRange at ho
  split at ho
  · split at ho
    · rename_i l2 inp2 hs
      simp at ho
      obtain ⟨_, rfl, rfl⟩ := ho
      have h2 : inp2.length ≤ i.length := by
        have := scan_le i; rw [hs] at this; exact this
      exact rel_scan inp inp2 (Nat.le_trans h2 (rel_le h))
    · simp at ho
  · simp at ho
    obtain ⟨_, rfl, rfl⟩ := ho
    exact h

theorem optModulo_rel (inp : Seq) (t : Tok) (i : Seq) (h : Rel inp t i)
    (e : Int) (t' : Tok) (i' : Seq) (ho : optModulo t i = some (e, t', i')) : Rel inp t' i' := by
  unfold optModulo at ho
  split at ho
  · split at ho
    · rename_i l2 inp2 hs
      simp at ho
      obtain ⟨_, rfl, rfl⟩ := ho
      have h2 : inp2.length ≤ i.length := by
        have := scan_le i; rw [hs] at this; exact this
      exact rel_scan inp inp2 (Nat.le_trans h2 (rel_le h))
    · simp at ho
  · simp at ho
    obtain ⟨_, rfl, rfl⟩ := ho
    exact h

/-- acceptable result of the interval loop -/
def AccI (ps : PSet) (n : Nat) : Outcome (Tok × Seq × PSet) → Prop
  | .ok (_, i, ps') => PInv ps' ∧ ps'.length = ps.length ∧ i.length ≤ n
  | .error => True
  | _ => False

theorem intervals_acc (f : Facts) (hf : f.guardsOverflow = true) (part model : Name) :
    ∀ (fuel : Nat) (tok : Tok) (inp : Seq) (ps : PSet), PInv ps →
      (inp.length + 2 ≤ fuel ∨ ((tok = .eol ∨ tok = .eof) ∧ 1 ≤ fuel)) →
      AccI ps inp.length (intervals f part model fuel tok inp ps) := by
  intro fuel
  induction fuel with
  | zero => intro tok inp ps _ h; omega
  | succ k ih =>
    intro tok inp ps hps hfuel
    unfold intervals
    by_cases hstop : (tok == .eol || tok == .eof) = true
    · simp only [hstop, if_true]; exact ⟨hps, rfl, Nat.le_refl _⟩
    · have hk : inp.length + 2 ≤ k + 1 := by
        cases hfuel with
        | inl h => exact h
        | inr h =>
          exfalso; apply hstop
          cases h.1 with
          | inl e => simp [e]
          | inr e => simp [e]
      simp only [hstop, Bool.false_eq_true, if_false]
      -- a generic step: after an `addRange`, continue with a token read from a suffix of `inp`
      have step : ∀ (ps' : PSet) (t : Tok) (i : Seq), PInv ps' → ps'.length = ps.length →
          (i.length < inp.length ∨ (i.length ≤ inp.length ∧ (t = .eol ∨ t = .eof))) →
          AccI ps inp.length (intervals f part model k t i ps') := by
        intro ps' t i hp hl hi
        have := ih t i ps' hp (by
          cases hi with
          | inl h => left; omega
          | inr h => right; exact ⟨h.2, by omega⟩)
        revert this
        cases intervals f part model k t i ps' with
        | ok v =>
          obtain ⟨t', i', p'⟩ := v
          simp only [AccI]
          intro ⟨a, b, c⟩
          refine ⟨a, by rw [b, hl], ?_⟩
          cases hi with
          | inl h => omega
          | inr h => omega
        | error => simp [AccI]
        | exit => simp [AccI]
        | panic => simp [AccI]
        | hang => simp [AccI]
      cases tok with
      | dec l =>
        simp only
        have hr1 := rel_scan inp inp (Nat.le_refl _)
        cases ho1 : optRange (intOf l) (scan inp).1 (scan inp).2 with
        | none => simp [AccI]
        | some v1 =>
          obtain ⟨endV, tok2, inp2⟩ := v1
          have hr2 := optRange_rel inp _ _ _ hr1 _ _ _ ho1
          simp only
          cases ho2 : optModulo tok2 inp2 with
          | none => simp [AccI]
          | some v2 =>
            obtain ⟨modulo, tok3, inp3⟩ := v2
            have hr3 := optModulo_rel inp _ _ hr2 _ _ _ ho2
            simp only
            rw [hf]
            rcases addRange_guarded f.rejectsStartAfterEnd ps hps part model
              (wrap64 (intOf l - 1)) (wrap64 (endV - 1)) modulo with he | ⟨ps', he, hp', hl'⟩
            · rw [he]; simp [AccI]
            · rw [he]
              simp only
              by_cases hsep : (tok3 == Tok.sep) = true
              · simp only [hsep, if_true]
                have := rel_scan inp inp3 (rel_le hr3)
                apply step ps' _ _ hp' hl'
                cases this with
                | inl h => left; exact h
                | inr h => right; exact ⟨h.1, Or.inr h.2⟩
              · simp only [hsep, Bool.false_eq_true, if_false]
                by_cases hend : (tok3 != Tok.eol && tok3 != Tok.eof) = true
                · simp [hend, AccI]
                · simp only [hend, Bool.false_eq_true, if_false]
                  apply step ps' _ _ hp' hl'
                  right
                  refine ⟨rel_le hr3, ?_⟩
                  simp only [Bool.and_eq_true, bne_iff_ne, ne_eq, not_and, Decidable.not_not] at hend
                  by_cases e1 : tok3 = Tok.eol
                  · exact Or.inl e1
                  · exact Or.inr (hend e1)
      | _ => simp [AccI]


/-- acceptable result of the main loop / of the parser -/
def AccL (len : Nat) : Outcome PSet → Prop
  | .ok ps' => PInv ps' ∧ ps'.length = len
  | .error => True
  | _ => False

theorem loop_acc (f : Facts) (hf : f.guardsOverflow = true) :
    ∀ (fuel : Nat) (tok : Tok) (inp : Seq) (ps : PSet), PInv ps →
      (inp.length + 2 ≤ fuel ∨ (tok = .eof ∧ 1 ≤ fuel)) →
      AccL ps.length (loop f fuel tok inp ps) := by
  intro fuel
  induction fuel with
  | zero => intro tok inp ps _ h; omega
  | succ k ih =>
    intro tok inp ps hps hfuel
    unfold loop
    by_cases hstop : (tok == .eof) = true
    · simp only [hstop, if_true]; exact ⟨hps, rfl⟩
    · have hk : inp.length + 2 ≤ k + 1 := by
        cases hfuel with
        | inl h => exact h
        | inr h => exfalso; apply hstop; simp [h.1]
      simp only [hstop, Bool.false_eq_true, if_false]
      -- the first token of the iteration
      rcases hs1 : scan inp with ⟨t1, i1⟩
      have hr1 : Rel inp t1 i1 := by have := rel_scan inp inp (Nat.le_refl _); rw [hs1] at this; exact this
      have cont : ∀ (t : Tok) (i : Seq) (ps' : PSet), PInv ps' → ps'.length = ps.length → Rel inp t i →
          AccL ps.length (loop f k t i ps') := by
        intro t i ps' hp hl hr
        have := ih t i ps' hp (by
          cases hr with
          | inl h => left; omega
          | inr h => right; exact ⟨h.2, by omega⟩)
        rw [hl] at this; exact this
      cases t1 with
      | ident model =>
        simp only
        -- the input was not empty (the token is not EOF), so the rest is strictly shorter
        have hlt : i1.length < inp.length := by
          cases hr1 with
          | inl h => exact h
          | inr h => simp at h
        rcases hs2 : scan i1 with ⟨t2, i2⟩
        have h2 : i2.length ≤ i1.length := by have := scan_le i1; rw [hs2] at this; exact this
        cases t2 <;> simp only [AccL]
        rcases hs3 : scan i2 with ⟨t3, i3⟩
        have h3 : i3.length ≤ i2.length := by have := scan_le i2; rw [hs3] at this; exact this
        cases t3 <;> simp only [AccL]
        rename_i partName
        rcases hs4 : scan i3 with ⟨t4, i4⟩
        have h4 : i4.length ≤ i3.length := by have := scan_le i3; rw [hs4] at this; exact this
        cases t4 <;> simp only [AccL]
        rcases hs5 : scan i4 with ⟨t5, i5⟩
        have h5 : i5.length ≤ i4.length := by have := scan_le i4; rw [hs5] at this; exact this
        simp only
        have hacc := intervals_acc f hf partName model (i5.length + 3) t5 i5 ps hps (Or.inl (by omega))
        revert hacc
        cases intervals f partName model (i5.length + 3) t5 i5 ps with
        | ok v =>
          obtain ⟨t6, i6, ps'⟩ := v
          simp only [AccI]
          intro ⟨hp', hl', h6⟩
          exact cont t6 i6 ps' hp' hl' (Or.inl (by omega))
        | error => simp [AccL]
        | exit => simp [AccI]
        | panic => simp [AccI]
        | hang => simp [AccI]
      | _ => simp only; exact cont _ _ ps hps rfl hr1

/-- **the partition parser with the `AddRange` overflow guard**: for every byte string and every declared
length below 2^63 the outcome is an explicit error or a partition set satisfying `PInv` over exactly the
declared length — never a panic, never a hang, never an exit. -/
theorem parse_acc (f : Facts) (hf : f.guardsOverflow = true) (len : Nat) (hlen : (len : Int) < 9223372036854775808)
    (bs : Seq) : AccL len (Partition.parse f len bs) := by
  unfold Partition.parse
  have hinv : PInv (newPSet len) := by
    refine ⟨by simp [newPSet], hlen, ?_⟩
    intro p hp
    simp [newPSet] at hp
    omega
  split
  · rename_i l _ _
    have := loop_acc f hf (bs.length + 3) (.ident l) bs (newPSet len) hinv (Or.inl (by omega))
    simpa [newPSet] using this
  · trivial

end Gv.Proofs.PartitionOutcome
