import Gv.Proofs.BagRef1
/-! Refinement, operation by operation (C01), part 2: renames, residue edits, sorting, shuffling. -/
namespace Gv.Proofs.BagAbs
open Gv Gv.Model Gv.Spec Gv.Proofs.BagInv

/-! ### renames (in-place edit of the names followed by `rebuildIndex`) -/

theorem good_renameWith (f : String → String) {b : Bag} (h : Good b) : Good (renameWith f b) :=
  ⟨inv_renameWith f b h.inv, idxFirst_rebuild _ _, rect_renameWith f h.rect, h.alpha.congr rfl rfl⟩

theorem abs_renameWith (f : String → String) (b : Bag) :
    abs (renameWith f b) = { abs b with rows := (abs b).rows.map fun r => (f r.1, r.2) } := by
  simp [abs, renameWith, pairs, List.map_map, Function.comp_def]

theorem ref_rename {b : Bag} (h : Good b) (m : List (String × String)) : Refines b (.rename m) := by
  refine refines_of rfl ?_
  intro s' e
  simp only [Option.some.injEq] at e; subst e
  exact ⟨abs_renameWith _ b, rfl, good_renameWith _ h⟩

theorem ref_cleanNames {b : Bag} (h : Good b) : Refines b .cleanNames := by
  refine refines_of rfl ?_
  intro s' e
  simp only [Option.some.injEq] at e; subst e
  exact ⟨abs_renameWith _ b, rfl, good_renameWith _ h⟩

theorem ref_appendId {b : Bag} (h : Good b) (id : String) (right : Bool) : Refines b (.appendId id right) := by
  refine refines_of rfl ?_
  intro s' e
  simp only [Option.some.injEq] at e; subst e
  simp only [Model.stepOp, appendIdentifier]
  by_cases hid : id.isEmpty = true
  · simp only [hid, if_true]
    refine ⟨?_, trivial, h⟩
    simp [abs]
  · simp only [hid, Bool.false_eq_true, if_false]
    exact ⟨abs_renameWith _ b, trivial, good_renameWith _ h⟩

/-! ### in-place residue edits -/

theorem good_mapSeqs (f : Seq → Seq) (hf : ∀ s, (f s).length = s.length) {b : Bag} (h : Good b) : Good (mapSeqs f b) :=
  h.transfer_seqs (by simp only [mapSeqs]; rw [keys_map_seq (fun r => f r.seq)]) rfl rfl rfl rfl (rect_mapSeqs f hf h.rect)

theorem abs_mapSeqs (f : Seq → Seq) (b : Bag) :
    abs (mapSeqs f b) = { abs b with rows := (abs b).rows.map fun r => (r.1, f r.2) } := by
  simp [abs, mapSeqs, pairs, List.map_map, Function.comp_def]

theorem ref_toUpper {b : Bag} (h : Good b) : Refines b .toUpper := by
  refine refines_of rfl ?_
  intro s' e
  simp only [Option.some.injEq] at e; subst e
  exact ⟨abs_mapSeqs _ b, rfl, good_mapSeqs _ (by simp) h⟩

theorem ref_toLower {b : Bag} (h : Good b) : Refines b .toLower := by
  refine refines_of rfl ?_
  intro s' e
  simp only [Option.some.injEq] at e; subst e
  exact ⟨abs_mapSeqs _ b, rfl, good_mapSeqs _ (by simp) h⟩

theorem ref_replace {b : Bag} (h : Good b) (old new : Seq) : Refines b (.replace old new) := by
  intro s' st e
  have hflag : (replaceBag old new b).2 =
      ((abs b).isAlign && ((abs b).rows.map fun r => (r.1, replaceAll old new r.2)).any
        (fun r => (r.2.length : Int) != (abs b).length)) := by
    simp only [replaceBag, abs_isAlign]
    by_cases ha : b.isAlign = true
    · simp only [ha, Bool.true_and, h.rect.abs_length ha]
      simp [mapSeqs, abs, pairs, List.any_map, Function.comp_def]
    · have : b.isAlign = false := by simpa using ha
      simp [this]
  simp only [Spec.stepOp] at e
  rw [← hflag] at e
  split at e
  · simp at e
  · rename_i hok
    simp only [Prod.mk.injEq, Option.some.injEq] at e
    obtain ⟨e1, e2⟩ := e
    subst e1 e2
    have hok' : (replaceBag old new b).2 = false := by simpa using hok
    refine ⟨abs_mapSeqs _ b, by simp [Model.stepOp, hok'], ?_⟩
    exact h.transfer_seqs (by simp only [Model.stepOp, replaceBag, mapSeqs]; rw [keys_map_seq (fun r => replaceAll old new r.seq)])
      rfl rfl rfl rfl (rect_replaceBag old new h.rect hok')

theorem ref_trimSeqs {b : Bag} (h : Good b) (n : Int) (fs : Bool) : Refines b (.trimSeqs n fs) := by
  intro s' st e
  simp only [Spec.stepOp, Model.stepOp, abs_isAlign] at e ⊢
  by_cases ha : b.isAlign = true
  · simp only [ha, Bool.not_true, Bool.false_eq_true, if_false, h.rect.abs_length ha] at e ⊢
    unfold trimSequences
    by_cases c1 : n < 0
    · simp only [c1, decide_true, Bool.true_or, if_true, Prod.mk.injEq, Option.some.injEq] at e ⊢
      exact ⟨e.1, by simpa using e.2, h⟩
    · by_cases c2 : n ≥ b.length
      · simp only [c1, c2, decide_true, decide_false, Bool.or_true, if_true, if_false, Prod.mk.injEq, Option.some.injEq] at e ⊢
        exact ⟨e.1, by simpa using e.2, h⟩
      · simp only [c1, c2, decide_false, Bool.or_false, Bool.false_eq_true, if_false, Prod.mk.injEq, Option.some.injEq] at e ⊢
        have hshort : (b.rows.any fun r => decide (r.seq.length < n.toNat)) = false := by
          simp only [List.any_eq_false, decide_eq_true_eq, Nat.not_lt]
          intro r hr
          have := h.rect.rows_len ha r hr
          omega
        have hns : ¬ (b.rows.any fun r => decide (r.seq.length < n.toNat)) = true := by rw [hshort]; simp
        rw [if_neg hns]
        obtain ⟨e1, e2⟩ := e
        subst e1 e2
        refine ⟨?_, by simp, ?_⟩
        · simp [abs, mapSeqs, pairs, List.map_map, Function.comp_def, ha]
        · have hr := rect_trimSequences n fs h.rect
            ({ mapSeqs (fun s => if fs then s.drop n.toNat else s.take (s.length - n.toNat)) b with length := b.length - n }, false)
            (by unfold trimSequences
                rw [if_neg (by simpa using c1), if_neg (by simpa using c2), if_neg hns])
          exact h.transfer_seqs (by simp only [mapSeqs]; rw [keys_map_seq (fun r => if fs then r.seq.drop n.toNat else r.seq.take (r.seq.length - n.toNat))])
            rfl rfl rfl rfl hr
  · have ha' : b.isAlign = false := by simpa using ha
    simp only [ha', Bool.not_false, if_true, Prod.mk.injEq, Option.some.injEq] at e ⊢
    exact ⟨e.1, e.2, h⟩

theorem ref_setChar {b : Bag} (h : Good b) (i j : Int) (c : Byte) : Refines b (.setChar i j c) := by
  intro s' st e
  simp only [Spec.stepOp, abs_rows, pairs, List.length_map, List.getElem?_map] at e
  simp only [Model.stepOp]
  by_cases c1 : (decide (i < 0) || decide (i ≥ (b.rows.length : Int))) = true
  · have hv : setSequenceChar i j c b = (b, true) := by unfold setSequenceChar; rw [if_pos c1]
    rw [if_pos c1] at e
    simp only [Prod.mk.injEq, Option.some.injEq] at e
    rw [hv]
    exact ⟨e.1, by simpa using e.2, h⟩
  · rw [if_neg c1] at e
    cases hr : b.rows[i.toNat]? with
    | none =>
      have hv : setSequenceChar i j c b = (b, true) := by unfold setSequenceChar; rw [if_neg c1]; simp only [hr]
      simp only [hr, Option.map_none, Prod.mk.injEq, Option.some.injEq] at e
      rw [hv]
      exact ⟨e.1, by simpa using e.2, h⟩
    | some r =>
      simp only [hr, Option.map_some] at e
      by_cases c2 : (decide (j < 0) || decide (j ≥ (r.seq.length : Int))) = true
      · have hv : setSequenceChar i j c b = (b, true) := by
          unfold setSequenceChar; rw [if_neg c1]; simp only [hr]; rw [if_pos c2]
        rw [if_pos c2] at e
        simp only [Prod.mk.injEq, Option.some.injEq] at e
        rw [hv]
        exact ⟨e.1, by simpa using e.2, h⟩
      · have hv : setSequenceChar i j c b =
            ({ b with rows := b.rows.set i.toNat { r with seq := setAt r.seq j.toNat c } }, false) := by
          unfold setSequenceChar; rw [if_neg c1]; simp only [hr]; rw [if_neg c2]
        rw [if_neg c2] at e
        simp only [Prod.mk.injEq, Option.some.injEq] at e
        obtain ⟨e1, e2⟩ := e
        subst e1 e2
        have hrect : Rect (setSequenceChar i j c b).1 := rect_setSequenceChar i j c h.rect
        rw [hv] at hrect ⊢
        refine ⟨?_, by simp, ?_⟩
        · simp [abs, pairs, List.map_set, setAt]
        · exact h.transfer_seqs (by simp only []; rw [keys_set _ _ _ _ hr]) rfl rfl rfl rfl hrect

/-! ### `Sort` (stable, by name) -/

theorem filter_mergeSort_stable (rows : List Row) (n : String) :
    (rows.mergeSort fun a c => decide (a.name ≤ c.name)).filter (fun r => r.name == n) =
      rows.filter (fun r => r.name == n) := by
  have htrans : ∀ (a b c : Row), decide (a.name ≤ b.name) = true → decide (b.name ≤ c.name) = true →
      decide (a.name ≤ c.name) = true := by
    intro a b c h1 h2
    simp only [decide_eq_true_eq] at *
    exact Std.le_trans h1 h2
  have htotal : ∀ (a b : Row), (decide (a.name ≤ b.name) || decide (b.name ≤ a.name)) = true := by
    intro a b
    simp only [Bool.or_eq_true, decide_eq_true_eq]
    exact Std.le_total
  have hpw : (rows.filter (fun r => r.name == n)).Pairwise (fun a c => decide (a.name ≤ c.name) = true) := by
    apply List.Pairwise.imp_of_mem (R := fun _ _ => True)
    · intro a c ha hc _
      have h1 : a.name = n := by simpa using (List.mem_filter.mp ha).2
      have h2 : c.name = n := by simpa using (List.mem_filter.mp hc).2
      simp only [h1, h2, decide_eq_true_eq]
      exact Std.le_refl n
    · exact List.pairwise_of_forall (fun _ _ => trivial)
  have hsub := List.sublist_mergeSort (le := fun (a c : Row) => decide (a.name ≤ c.name)) htrans htotal hpw List.filter_sublist
  have hsub2 := hsub.filter (fun r => r.name == n)
  rw [List.filter_filter] at hsub2
  simp only [Bool.and_self] at hsub2
  have hlen : ((rows.mergeSort fun a c => decide (a.name ≤ c.name)).filter (fun r => r.name == n)).length =
      (rows.filter (fun r => r.name == n)).length :=
    ((List.mergeSort_perm rows _).filter _).length_eq
  exact (hsub2.eq_of_length hlen.symm).symm

theorem find_eq_head_filter (p : Row → Bool) (rows : List Row) : rows.find? p = (rows.filter p).head? := by
  induction rows with
  | nil => rfl
  | cons r t ih =>
    by_cases h : p r = true
    · rw [List.find?_cons_of_pos h, List.filter_cons_of_pos h]; rfl
    · rw [List.find?_cons_of_neg h, List.filter_cons_of_neg h]; exact ih

theorem ref_sort {b : Bag} (h : Good b) : Refines b .sort := by
  refine refines_of rfl ?_
  intro s' e
  simp only [Option.some.injEq] at e; subst e
  refine ⟨?_, rfl, ⟨inv_sortRows b h.inv, ?_, rect_sortRows h.rect, h.alpha.congr rfl rfl⟩⟩
  · simp only [Model.stepOp, sortRows, abs, pairs]
    congr 1
    exact List.map_mergeSort (fun a _ c _ => rfl)
  · intro n
    simp only [Model.stepOp, sortRows]
    rw [h.first n, find_eq_head_filter, find_eq_head_filter, filter_mergeSort_stable]

/-! ### `ShuffleSequences` (a genuine permutation of the positions) -/

theorem ref_permute {b : Bag} (h : Good b) (perm : List Nat) (hp : IsPerm perm b.rows.length) :
    Refines b (.permute perm) := by
  intro s' st e
  simp only [Spec.stepOp] at e
  split at e
  · rename_i hnd
    simp only [Prod.mk.injEq, Option.some.injEq] at e
    obtain ⟨e1, e2⟩ := e
    subst e1 e2
    have hperm := permute_perm perm b.rows hp
    have hinv := inv_permuteRows perm b h.inv hp
    refine ⟨?_, rfl, ⟨hinv, ?_, rect_permuteRows perm h.rect hp, h.alpha.congr rfl rfl⟩⟩
    · simp only [Model.stepOp, permuteRows, abs, pairs]
      congr 1
      rw [List.map_filterMap]
      congr 1
      funext i
      simp [List.getElem?_map]
    · apply idxFirst_of_nodup hinv
      rw [abs_names] at hnd
      exact (hperm.map _).nodup_iff.mpr hnd
  · simp at e

end Gv.Proofs.BagAbs
