import Gv.Proofs.DistColsFreq
/-!
Helper development for property C08, first half — Part E: from the weighted counts to
`Distance` of every model and to `DistMatrix`.

`Scaled k l' l`: every weighted count of the site list `l'` is `k` times the one of `l`.  The
estimators regenerated from the Go source (`Gv.Gen.*Distance`, tie T2) only use ratios of counts, so
they do not move (`*_h`, proved by unfolding the generated text and cancelling `k`); `rawdist` returns
the count itself and is multiplied by `k`.  `usesInternalGaps` (read from the regenerated call data)
singles out the one counter that is *not* a weighted count: `countDiffsWithInternalGaps`.
-/
namespace Gv.Proofs.DistCols
open Gv Gv.Model.Dist

/-- same weighted counts up to the factor `k` -/
def Scaled (k : ℝ) (l' l : List (Site ℝ)) : Prop := ∀ ind, wsum ind l' = k * wsum ind l

def callsOf : DModel → List (String × List String) × String
  | .raw => (Gen.rawdistCalls, Gen.rawdistSwitchOn)
  | .pdist => (Gen.pdistCalls, Gen.pdistSwitchOn)
  | .jc => (Gen.jcCalls, Gen.jcSwitchOn)
  | .k2p => (Gen.k2pCalls, Gen.k2pSwitchOn)
  | .f81 => (Gen.f81Calls, Gen.f81SwitchOn)
  | .f84 => (Gen.f84Calls, Gen.f84SwitchOn)
  | .tn93 => (Gen.tn93Calls, Gen.tn93SwitchOn)

/-- does `Distance` of model `m` with `countgapmut = gm` call `countDiffsWithInternalGaps`?
(read from the regenerated call data) -/
def usesInternalGaps (m : DModel) (gm : Int) : Bool :=
  match selectCall (callsOf m).1 (callsOf m).2 gm with
  | some words => words.head? == some "countDiffsWithInternalGaps"
  | none => false

theorem runCounter_scaled (v : Variant) (f : Bool) (words : List String) (k : ℝ) (l' l : List (Site ℝ))
    (hw : (words.head? == some "countDiffsWithInternalGaps") = false) (h : Scaled k l' l) :
    runCounter v f words l' = (runCounter v f words l).map (fun r => r.map (k * ·)) := by
  unfold runCounter
  split
  · simp only [countMutations_eq, h _, Option.map_some, List.map]
  · rw [Option.map_map]
    dsimp only
    congr 1
    funext b
    simp only [Function.comp, countDiffs, countDiffsGen_eq, h _, List.map]
  · rw [Option.map_map]
    dsimp only
    congr 1
    funext b
    simp only [Function.comp, countDiffsWithGaps, countDiffsGen_eq, h _, List.map]
  · simp at hw
  · rfl

theorem pick_map (lhs : List String) (res : List ℝ) (g : ℝ → ℝ) : pick lhs (res.map g) = (pick lhs res).map g := by
  unfold pick
  induction lhs generalizing res with
  | nil => simp
  | cons x t ih =>
    cases res with
    | nil => simp
    | cons r rs =>
      simp only [List.map_cons, List.zip_cons_cons, List.filter_cons]
      split <;> simp [ih]

theorem jc_h {k : ℝ} (hk : k ≠ 0) (g : Bool) (a d t : ℝ) :
    Gen.jcDistance g a (k * d) (k * t) = Gen.jcDistance g a d t := by
  unfold Gen.jcDistance
  simp only [mul_div_mul_left _ _ hk]
theorem k2p_h {k : ℝ} (hk : k ≠ 0) (g : Bool) (a p q t : ℝ) :
    Gen.k2pDistance g a (k * p) (k * q) (k * t) = Gen.k2pDistance g a p q t := by
  unfold Gen.k2pDistance
  simp only [mul_div_mul_left _ _ hk]
theorem f81_h {k : ℝ} (hk : k ≠ 0) (g : Bool) (a b d t : ℝ) :
    Gen.f81Distance g a b (k * d) (k * t) = Gen.f81Distance g a b d t := by
  unfold Gen.f81Distance
  simp only [mul_div_mul_left _ _ hk]
theorem f84_h {k : ℝ} (hk : k ≠ 0) (g : Bool) (a A B C p q t : ℝ) :
    Gen.f84Distance g a A B C (k * p) (k * q) (k * t) = Gen.f84Distance g a A B C p q t := by
  unfold Gen.f84Distance
  simp only [mul_div_mul_left _ _ hk]
theorem tn93_h {k : ℝ} (hk : k ≠ 0) (g : Bool) (a πA πC πG πT p q p1 p2 t : ℝ) :
    Gen.tn93Distance g a πA πC πG πT (k * p) (k * q) (k * p1) (k * p2) (k * t)
      = Gen.tn93Distance g a πA πC πG πT p q p1 p2 t := by
  unfold Gen.tn93Distance
  simp only [mul_div_mul_left _ _ hk]
theorem pdist_h {k : ℝ} (hk : k ≠ 0) (d t : ℝ) : Gen.pdistDistance (k * d) (k * t) = Gen.pdistDistance d t := by
  unfold Gen.pdistDistance
  simp only [mul_div_mul_left _ _ hk]
theorem raw_h (k d : ℝ) : Gen.rawdistDistance (k * d) = k * Gen.rawdistDistance d := by
  unfold Gen.rawdistDistance
  rfl

set_option hygiene false in
/-- one model of `distance_scaled`: the call table, the switch, the bound results, the ambiguity flag -/
local macro "dist_scaled_case" calls:term "," sw:term "," lhs:term "," flag:term : tactic => `(tactic| (
  cases hsel : selectCall $calls $sw gapMode with
  | none => simp only [distance, hsel]; rfl
  | some words =>
    rw [hsel] at hint
    simp only at hint
    simp only [distance, hpi, hsel, Option.bind_eq_bind, Option.bind_some, bind, pure]
    rw [runCounter_scaled variant $flag words k _ _ hint h]
    cases hr : runCounter variant $flag words (sites s1 s2 ini.sel ws) with
    | none => rfl
    | some res =>
      simp only [Option.map_some, Option.bind_some, pick_map]
      rcases pick $lhs res with _ | ⟨a, _ | ⟨b, _ | ⟨c, _ | ⟨d, _ | ⟨e, _ | ⟨f, t⟩⟩⟩⟩⟩⟩ <;>
        simp [jc_h hk, k2p_h hk, f81_h hk, f84_h hk, tn93_h hk, pdist_h hk, raw_h]))

set_option linter.unusedSimpArgs false in
set_option linter.unusedVariables false in
/-- **a pair's distance is a function of the weighted counts**: when every weighted count of the sites is
multiplied by `k ≠ 0` the estimators (functions of ratios of counts) do not move, and the raw distance
is multiplied by `k`.  Not for the internal-gap counter. -/
theorem distance_scaled (c : Cfg ℝ) (ws' : Option (List ℝ)) (ini ini' : Init ℝ) (s1 s2 s1' s2' : List Code)
    (k : ℝ) (hk : k ≠ 0) (hint : usesInternalGaps c.model c.gapMode = false) (hpi : ini'.pi = ini.pi)
    (h : Scaled k (sites s1' s2' ini'.sel ws') (sites s1 s2 ini.sel c.weights)) :
    distance { c with weights := ws' } ini' s1' s2' =
      if c.model = .raw then (distance c ini s1 s2).map (k * ·) else distance c ini s1 s2 := by
  obtain ⟨model, rmGaps, gapMode, rmAmb, gamma, alpha, ws, variant⟩ := c
  unfold usesInternalGaps at hint
  cases model <;> simp only [callsOf] at hint <;> simp only [reduceCtorEq, if_false, if_true]
  · dist_scaled_case Gen.rawdistCalls, Gen.rawdistSwitchOn, Gen.rawdistCounterResults, false
  · dist_scaled_case Gen.pdistCalls, Gen.pdistSwitchOn, Gen.pdistCounterResults, rmAmb
  · dist_scaled_case Gen.jcCalls, Gen.jcSwitchOn, Gen.jcCounterResults, false
  · dist_scaled_case Gen.k2pCalls, Gen.k2pSwitchOn, Gen.k2pCounterResults, false
  · dist_scaled_case Gen.f81Calls, Gen.f81SwitchOn, Gen.f81CounterResults, false
  · dist_scaled_case Gen.f84Calls, Gen.f84SwitchOn, Gen.f84CounterResults, false
  · dist_scaled_case Gen.tn93Calls, Gen.tn93SwitchOn, Gen.tn93CounterResults, false

/-! ### the matrix -/

/-- `DistMatrix` only looks at the alignment through `InitModel` and the pair distances — for every
interpretation `α` of `float64` (no arithmetic law is used: also true of the IEEE-like `FVal`) -/
theorem distMatrix_congr {α : Type} [RealLike α] (c c' : Cfg α) (rows rows' : List Seq) (a b cc d : Int)
    (hv : c'.variant = c.variant) (hn : rows'.length = rows.length)
    (h : match initModel c rows, initModel c' rows' with
         | some ini, some ini' => ∀ i j, distance c' ini' (ini'.codes.getD i []) (ini'.codes.getD j [])
             = distance c ini (ini.codes.getD i []) (ini.codes.getD j [])
         | none, none => True
         | _, _ => False) :
    distMatrix c' rows' a b cc d = distMatrix c rows a b cc d := by
  unfold distMatrix
  cases hi : initModel c rows with
  | none =>
    cases hi' : initModel c' rows' with
    | none => rfl
    | some ini' => rw [hi, hi'] at h; exact absurd h id
  | some ini =>
    cases hi' : initModel c' rows' with
    | none => rw [hi, hi'] at h; exact absurd h id
    | some ini' =>
      rw [hi, hi'] at h
      simp only at h
      simp only [Option.bind_eq_bind, Option.bind_some, bind, pure, hn, hv]
      congr 1
      funext pairs
      congr 2
      funext p
      rw [h p.1 p.2]

/-- the two alignments have the same column contents, and the weight of each content is multiplied by `k` -/
def ColEquiv (k : ℝ) (cols' cols : List Col) : Prop :=
  (∀ x, x ∈ cols'.map Prod.fst ↔ x ∈ cols.map Prod.fst) ∧ ∀ x, colWeight x cols' = k * colWeight x cols

theorem normV_smul (k : ℝ) (hk : k ≠ 0) (v : V) : normV (k • v) = normV v := by
  obtain ⟨a, b, c, d, e⟩ := v
  simp only [normV, Prod.smul_mk, smul_eq_mul, mul_div_mul_left _ _ hk]

/-- the base frequencies `InitModel` stores (only F81, F84, TN93 estimate them) -/
noncomputable def piOf (c : Cfg ℝ) (rows : List Seq) (ws : Option (List ℝ)) : Freq ℝ :=
  if c.model == .f81 || c.model == .f84 || c.model == .tn93 then
    probaNt c.variant.freqOverNucleotides (rows.map fun r => r.map codeOf) (selectedSites rows c.rmGaps) ws
  else ⟨0, 0, 0, 0⟩

private theorem zero_real : (@OfNat.ofNat ℝ 0 (instOfNatOfRealLike 0)) = (0 : ℝ) := by
  real_like

theorem initModel_eq (c : Cfg ℝ) (rows : List Seq) :
    initModel c rows =
      if rows.all (fun r => r.all okByte) then
        some ⟨selectedSites rows c.rmGaps, rows.map fun r => r.map codeOf, piOf c rows c.weights⟩
      else none := by
  unfold initModel piOf
  rw [alignmentToCodes_eq]
  split
  · simp only [Option.bind_eq_bind, Option.bind_some, bind, pure, zero_real]
  · rfl

theorem scaled_nil (k : ℝ) : Scaled k [] [] := by
  intro ind
  simp

/-- what `InitModel` stores for a well-formed alignment whose residues all have a code -/
noncomputable def initOf (c : Cfg ℝ) (rows : List Seq) : Init ℝ :=
  ⟨selectedSites rows c.rmGaps, rows.map fun r => r.map codeOf, piOf c rows c.weights⟩

theorem allOk_of_colEquiv (ws ws' : Option (List ℝ)) (rows rows' : List Seq) (k : ℝ)
    (hwf : WF rows ws) (hwf' : WF rows' ws') (heq : ColEquiv k (colsOf rows' ws') (colsOf rows ws)) :
    rows'.all (fun r => r.all okByte) = rows.all (fun r => r.all okByte) := by
  rw [allOk_iff_cols rows' ws' hwf'.rect, allOk_iff_cols rows ws hwf.rect, Bool.eq_iff_iff]
  simp only [List.all_eq_true]
  constructor
  · intro h cl hcl
    obtain ⟨cl', hcl', hfst⟩ := List.mem_map.mp ((heq.1 cl.1).mpr (List.mem_map.mpr ⟨cl, hcl, rfl⟩))
    rw [← hfst]; exact h cl' hcl'
  · intro h cl hcl
    obtain ⟨cl', hcl', hfst⟩ := List.mem_map.mp ((heq.1 cl.1).mp (List.mem_map.mpr ⟨cl, hcl, rfl⟩))
    rw [← hfst]; exact h cl' hcl'

/-- **pair level**: same column contents with `k` times the weight each ⇒ every estimator is unchanged
and the raw distance is multiplied by `k` -/
theorem pair_of_colEquiv (c : Cfg ℝ) (ws' : Option (List ℝ)) (rows rows' : List Seq) (k : ℝ) (hk : k ≠ 0)
    (hwf : WF rows c.weights) (hwf' : WF rows' ws') (hn : rows'.length = rows.length)
    (hint : usesInternalGaps c.model c.gapMode = false)
    (heq : ColEquiv k (colsOf rows' ws') (colsOf rows c.weights)) (i j : Nat) :
    distance { c with weights := ws' } (initOf { c with weights := ws' } rows')
        ((initOf { c with weights := ws' } rows').codes.getD i []) ((initOf { c with weights := ws' } rows').codes.getD j [])
      = if c.model = .raw then
          (distance c (initOf c rows) ((initOf c rows).codes.getD i []) ((initOf c rows).codes.getD j [])).map (k * ·)
        else distance c (initOf c rows) ((initOf c rows).codes.getD i []) ((initOf c rows).codes.getD j []) := by
  have hpi : piOf { c with weights := ws' } rows' ws' = piOf c rows c.weights := by
    unfold piOf
    simp only
    split
    · rw [probaNt_eq_cols, probaNt_eq_cols, tot_of_colWeight _ k _ _ heq.2, normV_smul k hk]
    · rfl
  have hsc : Scaled k
      (sites ((rows'.map fun r => r.map codeOf).getD i []) ((rows'.map fun r => r.map codeOf).getD j [])
        (selectedSites rows' c.rmGaps) ws')
      (sites ((rows.map fun r => r.map codeOf).getD i []) ((rows.map fun r => r.map codeOf).getD j [])
        (selectedSites rows c.rmGaps) c.weights) := by
    by_cases hij : i < rows.length ∧ j < rows.length
    · rw [sites_eq_cols rows' ws' hwf' c.rmGaps i j (hn ▸ hij.1) (hn ▸ hij.2),
        sites_eq_cols rows c.weights hwf c.rmGaps i j hij.1 hij.2]
      intro ind
      rw [wsum_cols, wsum_cols, tot_of_colWeight _ k _ _ heq.2, smul_eq_mul]
    · rw [sites_out_of_range _ _ _ i j (by simpa [hn] using hij),
        sites_out_of_range _ _ _ i j (by simpa using hij)]
      exact scaled_nil k
  exact distance_scaled c ws' (initOf c rows) (initOf { c with weights := ws' } rows') _ _ _ _ k hk hint hpi hsc

/-- **master theorem**: the distance matrix depends on the alignment only through the weight of every
column content, up to a common factor `k ≠ 0` (`k = 1` for `rawdist`) -/
theorem distMatrix_of_colEquiv (c : Cfg ℝ) (ws' : Option (List ℝ)) (rows rows' : List Seq) (k : ℝ) (hk : k ≠ 0)
    (hwf : WF rows c.weights) (hwf' : WF rows' ws') (hn : rows'.length = rows.length)
    (hint : usesInternalGaps c.model c.gapMode = false) (hraw : c.model = .raw → k = 1)
    (heq : ColEquiv k (colsOf rows' ws') (colsOf rows c.weights)) (a b cc d : Int) :
    distMatrix { c with weights := ws' } rows' a b cc d = distMatrix c rows a b cc d := by
  apply distMatrix_congr c { c with weights := ws' } rows rows' a b cc d rfl hn
  rw [initModel_eq, initModel_eq, allOk_of_colEquiv c.weights ws' rows rows' k hwf hwf' heq]
  by_cases hall : rows.all (fun r => r.all okByte) = true
  · simp only [hall, if_true]
    intro i j
    refine (pair_of_colEquiv c ws' rows rows' k hk hwf hwf' hn hint heq i j).trans ?_
    by_cases hm : c.model = .raw
    · rw [if_pos hm, hraw hm]
      simp only [one_mul, Option.map_id']
      rfl
    · rw [if_neg hm]
      rfl
  · simp only [hall, Bool.false_eq_true, if_false]
