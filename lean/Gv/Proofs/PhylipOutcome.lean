import Gv.Model.Fmt.Phylip
import Gv.Proofs.FmtBagInv
/-!
Phylip parser: a successful parse is well formed (helper development for `Props/C03.lean`).
The do-blocks of the model are inverted by repeated case splitting on the hypothesis.
-/
namespace Gv.Proofs.PhylipOutcome
open Gv Gv.Model Gv.Model.Fmt Gv.Model.Fmt.Phylip Gv.Proofs.FmtBagInv

theorem header_counts (af : Bool) (s s' : St) (n l : Int) (h : header af s = .ok (.counts n l, s')) :
    1 ≤ n ∧ l ≠ 0 := by
  unfold header at h
  simp only [bind, Except.bind, pure, Except.pure] at h
  repeat' (split at h <;> try (simp at h))
  obtain ⟨⟨rfl, rfl⟩, _⟩ := h
  refine ⟨by omega, by assumption⟩

theorem firstBlock_length (strict : Bool) : ∀ (fuel n : Nat) (s s' : St) (acc rows : List XRow),
    firstBlock strict fuel n s acc = .ok (rows, s') → rows.length = acc.length + n := by
  intro fuel
  induction fuel with
  | zero =>
    intro n s s' acc rows h
    cases n with
    | zero => simp [firstBlock, pure, Except.pure] at h; simp [h.1]
    | succ n => simp [firstBlock] at h
  | succ f ih =>
    intro n s s' acc rows h
    cases n with
    | zero => simp [firstBlock, pure, Except.pure] at h; simp [h.1]
    | succ n =>
      unfold firstBlock at h
      simp only [bind, Except.bind, pure, Except.pure] at h
      repeat' (split at h <;> try (simp at h))
      all_goals (
        have := ih _ _ _ _ _ h
        simp at this
        omega)

theorem nextBlock_length : ∀ (rows : List XRow) (s s' : St) (acc rows' : List XRow),
    nextBlock rows s acc = .ok (rows', s') → rows'.length = acc.length + rows.length
  | [], s, s', acc, rows', h => by simp [nextBlock, pure, Except.pure] at h; simp [h.1]
  | (nm, q) :: rest, s, s', acc, rows', h => by
    unfold nextBlock at h
    simp only [bind, Except.bind, pure, Except.pure] at h
    repeat' (split at h <;> try (simp at h))
    all_goals (
      have := nextBlock_length rest _ _ _ _ h
      simp at this ⊢
      omega)

theorem blocks_length (lenseq : Int) : ∀ (fuel : Nat) (tok : Tok) (s s' : St) (rows rows' : List XRow),
    blocks lenseq fuel tok s rows = .ok (rows', s') → rows'.length = rows.length := by
  intro fuel
  induction fuel with
  | zero => intro tok s s' rows rows' h; simp [blocks] at h
  | succ f ih =>
    intro tok s s' rows rows' h
    unfold blocks at h
    split at h
    · simp only [bind, Except.bind, pure, Except.pure] at h
      repeat' (split at h <;> try (simp at h))
      all_goals (
        rename_i hnb _ _ _
        have h1 := ih _ _ _ _ _ h
        first
          | (have h2 := nextBlock_length _ _ _ _ _ hnb; simp at h2; omega)
          | skip)
    · simp [pure, Except.pure] at h; simp [h.1]

/-- `AddSequence` whose error is ignored -/
def addKeep (b : Bag) (r : XRow) : Bag := match b.add r.1 r.2 with | some b' => b' | none => b

def Good (b : Bag) : Prop := Inv b ∧ Pos b

theorem addKeep_good (b : Bag) (hb : Good b) (r : XRow) (hr : r.2 ≠ []) : Good (addKeep b r) := by
  unfold addKeep
  cases h : b.add r.1 r.2 with
  | none => exact hb
  | some b' => exact ⟨add_inv b hb.1 _ _ b' h, add_pos b hb.2 _ _ hr b' h⟩

theorem addKeep_ne (b : Bag) (r : XRow) (hb : b.rows ≠ []) : (addKeep b r).rows ≠ [] := by
  unfold addKeep
  cases h : b.add r.1 r.2 with
  | none => exact hb
  | some b' => exact add_rows_ne b _ _ b' h

theorem addKeep_first (i : Nat) (r : XRow) : (addKeep { ignore := i } r).rows ≠ [] := by
  unfold addKeep
  simp [Bag.add, Bag.find]

theorem foldl_good : ∀ (rows : List XRow) (b : Bag), Good b → (∀ r ∈ rows, r.2 ≠ []) →
    Good (rows.foldl addKeep b)
  | [], b, hb, _ => hb
  | r :: rs, b, hb, h => by
    simp only [List.foldl_cons]
    exact foldl_good rs _ (addKeep_good b hb r (h r (by simp))) (fun x hx => h x (by simp [hx]))

theorem foldl_ne : ∀ (rows : List XRow) (b : Bag), b.rows ≠ [] → (rows.foldl addKeep b).rows ≠ []
  | [], _, hb => hb
  | r :: rs, b, hb => by
    simp only [List.foldl_cons]
    exact foldl_ne rs _ (addKeep_ne b r hb)

/-- the final stage: rows that all have the (non-zero) declared length give a well-formed alignment -/
theorem build_ok (o : POpts) (lenseq : Int) (rows : List XRow) (a : Aln) (hne : rows ≠ []) (hl : lenseq ≠ 0)
    (h : build o lenseq rows = .ok a) : Spec.Fmt.wellFormed a.length a.rows = true := by
  unfold build at h
  split at h
  · simp at h
  · rename_i hall
    have hall' : ∀ r ∈ rows, (r.2.length : Int) = lenseq := by
      simpa using hall
    simp only at h
    split at h
    · simp at h
    · rename_i a' hf
      simp [pure, Except.pure] at h; subst h
      have hseq : ∀ r ∈ rows, r.2 ≠ [] := by
        intro r hr e
        have := hall' r hr
        rw [e] at this
        simp at this
        exact hl this.symm
      change (List.foldl addKeep { ignore := normIgnore o.ignore } rows).finish _ = some a' at hf
      have hg := foldl_good rows { ignore := normIgnore o.ignore } ⟨inv_empty _, fun hh => absurd rfl hh⟩ hseq
      have hn : (rows.foldl addKeep { ignore := normIgnore o.ignore }).rows ≠ [] := by
        cases rows with
        | nil => exact absurd rfl hne
        | cons r rs =>
          simp only [List.foldl_cons]
          exact foldl_ne rs _ (addKeep_first _ r)
      obtain ⟨hr, hlen⟩ := finish_rows _ _ a' hf
      rw [hr, hlen]
      exact wellFormed_of_inv _ hg.1 hg.2 hn

theorem body_ok (o : POpts) (n l : Int) (s s' : St) (a : Aln) (hn : 1 ≤ n) (hl : l ≠ 0)
    (h : body o n l s = .ok (a, s')) : Spec.Fmt.wellFormed a.length a.rows = true := by
  unfold body at h
  simp only [bind, Except.bind, pure, Except.pure] at h
  repeat' (split at h <;> try (simp at h))
  all_goals (
    obtain ⟨rfl, _⟩ := h
    have h1 := firstBlock_length _ _ _ _ _ _ _ (by assumption)
    have h2 := blocks_length _ _ _ _ _ _ _ (by assumption)
    apply build_ok o l _ _ _ hl (by assumption)
    intro e
    rw [e] at h2
    simp at h1 h2
    omega)

/-- a successful single parse is well formed -/
theorem parseOne_ok (af : Bool) (o : POpts) (s s' : St) (a : Aln)
    (h : parseOne af o s = .ok (.aln a, s')) : Spec.Fmt.wellFormed a.length a.rows = true := by
  unfold parseOne at h
  simp only [bind, Except.bind, pure, Except.pure] at h
  repeat' (split at h <;> try (simp at h))
  rename_i vh hhdr _ nb ls hfst _ va hbody
  obtain ⟨rfl, _⟩ := h
  have hh : header af s = .ok (.counts nb ls, vh.2) := by
    rw [hhdr]; cases vh; simp at hfst; simp [hfst]
  obtain ⟨h1, h2⟩ := header_counts _ _ _ _ _ hh
  have hb : body o nb ls vh.2 = .ok (va.1, va.2) := by rw [hbody]
  exact body_ok o _ _ _ _ _ h1 h2 hb

/-! ### without the allocation from the header count the parser never panics -/

section NoPanic

theorem scan_np (s : St) : s.scan ≠ .error .panic := by
  unfold St.scan
  split
  · simp
  · split <;> simp

theorem skipEols_np : ∀ (fuel : Nat) (s : St), skipEols fuel s ≠ .error .panic := by
  intro fuel
  induction fuel with
  | zero => intro s; simp [skipEols]
  | succ f ih =>
    intro s h
    unfold skipEols at h
    simp only [bind, Except.bind, pure, Except.pure] at h
    have := scan_np s
    have := ih
    repeat' (split at h <;> try (simp at h))
    all_goals simp_all

theorem scanWithEOL_np (s : St) : scanWithEOL s ≠ .error .panic := by
  intro h
  unfold scanWithEOL at h
  simp only [bind, Except.bind, pure, Except.pure] at h
  have := scan_np s
  have := skipEols_np
  repeat' (split at h <;> try (simp at h))
  all_goals simp_all

theorem skipLeading_np : ∀ (fuel : Nat) (s : St), skipLeading fuel s ≠ .error .panic := by
  intro fuel
  induction fuel with
  | zero => intro s; simp [skipLeading]
  | succ f ih =>
    intro s h
    unfold skipLeading at h
    simp only [bind, Except.bind, pure, Except.pure] at h
    have := scanWithEOL_np
    have := ih
    repeat' (split at h <;> try (simp at h))
    all_goals simp_all

theorem seqLine_np : ∀ (fuel : Nat) (t : Tok) (s : St) (acc : Seq), seqLine fuel t s acc ≠ .error .panic := by
  intro fuel
  induction fuel with
  | zero => intro t s acc; simp [seqLine]
  | succ f ih =>
    intro t s acc h
    unfold seqLine at h
    simp only [bind, Except.bind, pure, Except.pure] at h
    have := scan_np
    have := ih
    repeat' (split at h <;> try (simp at h))
    all_goals simp_all

theorem readName10_np (s : St) : readName10 s ≠ .error .panic := by
  intro h
  unfold readName10 at h
  simp only at h
  repeat' (split at h <;> try (simp [pure, Except.pure] at h))

theorem firstBlock_np (strict : Bool) : ∀ (fuel n : Nat) (s : St) (acc : List XRow),
    firstBlock strict fuel n s acc ≠ .error .panic := by
  intro fuel
  induction fuel with
  | zero => intro n s acc; cases n <;> simp [firstBlock, pure, Except.pure]
  | succ f ih =>
    intro n s acc h
    cases n with
    | zero => simp [firstBlock, pure, Except.pure] at h
    | succ n =>
      unfold firstBlock at h
      simp only [bind, Except.bind, pure, Except.pure] at h
      have := scan_np
      have := readName10_np
      have := seqLine_np
      have := ih
      repeat' (split at h <;> try (simp at h))
      all_goals simp_all

theorem nextBlock_np : ∀ (rows : List XRow) (s : St) (acc : List XRow), nextBlock rows s acc ≠ .error .panic
  | [], s, acc => by simp [nextBlock, pure, Except.pure]
  | (nm, q) :: rest, s, acc => by
    intro h
    unfold nextBlock at h
    simp only [bind, Except.bind, pure, Except.pure] at h
    have := scan_np
    have := seqLine_np
    have := nextBlock_np rest
    repeat' (split at h <;> try (simp at h))
    all_goals simp_all

theorem afterBlock_np (l : Int) (rows : List XRow) (s : St) : afterBlock l rows s ≠ .error .panic := by
  intro h
  unfold afterBlock at h
  simp only [bind, Except.bind, pure, Except.pure] at h
  have := scan_np
  have := scanWithEOL_np
  repeat' (split at h <;> try (simp at h))
  all_goals simp_all

theorem blocks_np (l : Int) : ∀ (fuel : Nat) (t : Tok) (s : St) (rows : List XRow),
    blocks l fuel t s rows ≠ .error .panic := by
  intro fuel
  induction fuel with
  | zero => intro t s rows; simp [blocks]
  | succ f ih =>
    intro t s rows h
    unfold blocks at h
    simp only [bind, Except.bind, pure, Except.pure] at h
    have := nextBlock_np
    have := afterBlock_np
    have := ih
    repeat' (split at h <;> try (simp at h))
    all_goals simp_all

theorem build_np (o : POpts) (l : Int) (rows : List XRow) : build o l rows ≠ .error .panic := by
  intro h
  unfold build at h
  repeat' (split at h <;> try (simp [pure, Except.pure] at h))

theorem body_np (o : POpts) (n l : Int) (s : St) : body o n l s ≠ .error .panic := by
  intro h
  unfold body at h
  simp only [bind, Except.bind, pure, Except.pure] at h
  have := firstBlock_np o.strict
  have := afterBlock_np
  have := blocks_np
  have := build_np
  repeat' (split at h <;> try (simp at h))
  all_goals simp_all

theorem header_np (s : St) : header false s ≠ .error .panic := by
  intro h
  unfold header at h
  simp only [bind, Except.bind, pure, Except.pure, alloc] at h
  have := scan_np
  have := skipLeading_np
  repeat' (split at h <;> try (simp at h))
  all_goals simp_all

theorem parseOne_np (o : POpts) (s : St) : parseOne false o s ≠ .error .panic := by
  intro h
  unfold parseOne at h
  simp only [bind, Except.bind, pure, Except.pure] at h
  have := header_np
  have := body_np
  repeat' (split at h <;> try (simp at h))
  all_goals simp_all

end NoPanic

end Gv.Proofs.PhylipOutcome
