import Gv.Model.Identical
import Gv.Proofs.BagRefExt3
/-!
`seqbag.Identical`: the container-level model is the row-level one (on every container satisfying the representation
invariant), and on containers with pairwise distinct names it decides "same records up to order".
-/
namespace Gv.Proofs.BagIdentical
open Gv Gv.Model Gv.Proofs.BagAbs

theorem findRow_eq_find (n : String) (c : List (String × Seq)) :
    findRow n c = (c.find? fun p => p.1 == n).map Prod.snd := by
  induction c with
  | nil => rfl
  | cons x t ih =>
    obtain ⟨m, s⟩ := x
    simp only [findRow, List.find?_cons]
    by_cases h : m = n
    · simp [h]
    · have : (m == n) = false := by simpa using h
      simp [this, ih]

theorem mem_of_findRow {n : String} {s : Seq} {c : List (String × Seq)} (h : findRow n c = some s) : (n, s) ∈ c := by
  induction c with
  | nil => simp [findRow] at h
  | cons x t ih =>
    obtain ⟨m, q⟩ := x
    simp only [findRow] at h
    by_cases hm : m = n
    · simp only [hm, beq_self_eq_true, if_true, Option.some.injEq] at h
      subst hm; subst h; exact List.mem_cons_self
    · have : (m == n) = false := by simpa using hm
      simp only [this, Bool.false_eq_true, if_false] at h
      exact List.mem_cons_of_mem _ (ih h)

theorem findRow_of_mem {n : String} {s : Seq} {c : List (String × Seq)} (hn : (c.map Prod.fst).Nodup)
    (h : (n, s) ∈ c) : findRow n c = some s := by
  induction c with
  | nil => cases h
  | cons x t ih =>
    obtain ⟨m, q⟩ := x
    simp only [List.map_cons, List.nodup_cons] at hn
    simp only [findRow]
    rcases List.mem_cons.mp h with e | e
    · cases e; simp
    · have hm : m ≠ n := by
        intro e'; apply hn.1; rw [e']; exact List.mem_map_of_mem (f := Prod.fst) e
      have : (m == n) = false := by simpa using hm
      simp only [this, Bool.false_eq_true, if_false]
      exact ih hn.2 e

/-- what the loop of `Identical` decides, read off the code: as many rows, and every row of the receiver is the FIRST
row of its name in `comp` with the same bytes -/
theorem identicalRows_iff (a c : List (String × Seq)) :
    identicalRows a c = true ↔ a.length = c.length ∧ ∀ r ∈ a, findRow r.1 c = some r.2 := by
  unfold identicalRows
  simp only [Bool.and_eq_true, beq_iff_eq, List.all_eq_true]
  constructor
  · rintro ⟨hl, h⟩
    refine ⟨hl, fun r hr => ?_⟩
    have := h r hr
    cases hf : findRow r.1 c with
    | none => rw [hf] at this; cases this
    | some s => rw [hf] at this; simp only [beq_iff_eq] at this; rw [this]
  · rintro ⟨hl, h⟩
    refine ⟨hl, fun r hr => ?_⟩
    rw [h r hr]; simp

/-- with distinct names in `comp`: as many rows and every record of the receiver is a record of `comp` -/
theorem identicalRows_iff_subset (a c : List (String × Seq)) (hc : (c.map Prod.fst).Nodup) :
    identicalRows a c = true ↔ a.length = c.length ∧ ∀ r ∈ a, r ∈ c := by
  rw [identicalRows_iff]
  constructor
  · rintro ⟨hl, h⟩; exact ⟨hl, fun r hr => mem_of_findRow (h r hr)⟩
  · rintro ⟨hl, h⟩; exact ⟨hl, fun r hr => findRow_of_mem hc (h r hr)⟩

theorem nodup_of_fst {l : List (String × Seq)} (h : (l.map Prod.fst).Nodup) : l.Nodup := by
  induction l with
  | nil => exact List.nodup_nil
  | cons x t ih =>
    simp only [List.map_cons, List.nodup_cons] at h ⊢
    exact ⟨fun hx => h.1 (List.mem_map_of_mem (f := Prod.fst) hx), ih h.2⟩

/-- pigeonhole: a duplicate-free list inside a list of the same length has all its elements -/
theorem subset_of_subset_length {α} [DecidableEq α] {a c : List α} (ha : a.Nodup) (hs : a ⊆ c)
    (hl : a.length = c.length) : c ⊆ a := by
  intro x hx
  apply Classical.byContradiction
  intro hxa
  have hsub : a ⊆ c.erase x := by
    intro y hy
    have hyx : y ≠ x := fun e => hxa (e ▸ hy)
    exact (List.mem_erase_of_ne hyx).2 (hs hy)
  have h1 := ha.length_le_of_subset hsub
  have h2 : (c.erase x).length = c.length - 1 := by rw [List.length_erase]; simp [hx]
  have h3 : 0 < c.length := List.length_pos_of_mem hx
  omega

/-- **with distinct names on both sides `Identical` decides "the same records, in any order"** -/
theorem identicalRows_iff_perm (a c : List (String × Seq)) (ha : (a.map Prod.fst).Nodup) (hc : (c.map Prod.fst).Nodup) :
    identicalRows a c = true ↔ a.Perm c := by
  rw [identicalRows_iff_subset a c hc]
  have na := nodup_of_fst ha
  have nc := nodup_of_fst hc
  constructor
  · rintro ⟨hl, h⟩
    rw [List.perm_ext_iff_of_nodup na nc]
    intro x
    exact ⟨fun hx => h x hx, fun hx => subset_of_subset_length na (fun y hy => h y hy) hl hx⟩
  · intro hp
    exact ⟨hp.length_eq, fun r hr => hp.subset hr⟩

/-- the container-level model (lookup through the name index) is the row-level one -/
theorem identical_eq_rows (a comp : Bag) (hc : Good comp) : identical a comp = identicalRows (pairs a) (pairs comp) := by
  unfold identical identicalRows
  rw [pairs_length, pairs_length]
  congr 1
  simp only [pairs, List.all_map]
  congr 1
  funext r
  simp only [Function.comp]
  have h := getByName_seq hc r.name
  rw [← findRow_eq_find] at h
  have e : findRow r.name (List.map (fun r => (r.name, r.seq)) comp.rows) = findRow r.name (pairs comp) := rfl
  rw [e, ← h]
  cases getByName comp r.name <;> rfl

end Gv.Proofs.BagIdentical
