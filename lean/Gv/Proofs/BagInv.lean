import Gv.Model.BagHist
/-!
Representation invariant of the container model (C01) and its preservation by the primitives.

`Inv` is the *weak* invariant that survives caller-made name collisions: the index is sound (a key
points to a row carrying that name) and complete (every row's name is a key); ids are distinct and
below the allocation counter.  With pairwise distinct names it pins the index down exactly
(`getByName_of_nodup`).
-/
namespace Gv.Proofs.BagInv
open Gv Gv.Model

structure Inv (b : Bag) : Prop where
  ids_nodup : (b.rows.map (·.id)).Nodup
  ids_lt : ∀ r ∈ b.rows, r.id < b.next
  idx_sound : ∀ n i, idxLookup n b.index = some i → ∃ r ∈ b.rows, r.id = i ∧ r.name = n
  idx_complete : ∀ r ∈ b.rows, (idxLookup r.name b.index).isSome = true

/-! ### index lemmas -/

theorem idxLookup_insert_self (n : String) (i : Nat) (l : List (String × Nat)) :
    idxLookup n (idxInsert n i l) = some i := by
  induction l with
  | nil => simp [idxInsert, idxLookup]
  | cons p t ih =>
    obtain ⟨k, v⟩ := p
    by_cases h : n = k
    · subst h; simp [idxInsert, idxLookup]
    · have h' : (n == k) = false := by simpa using h
      simp [idxInsert, idxLookup, h', ih]

theorem idxLookup_insert_other (n m : String) (i : Nat) (l : List (String × Nat)) (h : m ≠ n) :
    idxLookup m (idxInsert n i l) = idxLookup m l := by
  induction l with
  | nil =>
    have h' : (m == n) = false := by simpa using h
    simp [idxInsert, idxLookup, h']
  | cons p t ih =>
    obtain ⟨k, v⟩ := p
    by_cases hk : n = k
    · subst hk
      have h' : (m == n) = false := by simpa using h
      simp [idxInsert, idxLookup, h']
    · have hk' : (n == k) = false := by simpa using hk
      by_cases hm : m = k
      · subst hm; simp [idxInsert, idxLookup, hk']
      · have hm' : (m == k) = false := by simpa using hm
        simp [idxInsert, idxLookup, hk', hm', ih]

theorem idxLookup_append (n : String) (l₁ l₂ : List (String × Nat)) :
    idxLookup n (l₁ ++ l₂) = (idxLookup n l₁).or (idxLookup n l₂) := by
  induction l₁ with
  | nil => simp [idxLookup]
  | cons p t ih =>
    obtain ⟨k, v⟩ := p
    by_cases h : (n == k) = true
    · simp [idxLookup, h]
    · simp [idxLookup, h, ih]

theorem deref_some {i : Nat} {rows : List Row} {r : Row} (h : deref i rows = some r) :
    r ∈ rows ∧ r.id = i := by
  induction rows with
  | nil => simp [deref] at h
  | cons x t ih =>
    simp only [deref] at h
    split at h
    · rename_i hx
      simp at h; subst h
      exact ⟨by simp, by simpa using hx⟩
    · have := ih h
      exact ⟨List.mem_cons_of_mem _ this.1, this.2⟩

theorem deref_of_mem {rows : List Row} (hn : (rows.map (·.id)).Nodup) {r : Row} (hr : r ∈ rows) :
    deref r.id rows = some r := by
  induction rows with
  | nil => simp at hr
  | cons x t ih =>
    simp only [List.map_cons, List.nodup_cons] at hn
    rcases List.mem_cons.mp hr with rfl | hr
    · simp [deref]
    · have hne : ¬ (x.id = r.id) := by
        intro e
        exact hn.1 (e ▸ List.mem_map_of_mem (f := (·.id)) hr)
      have : (x.id == r.id) = false := by simpa using hne
      simp [deref, this, ih hn.2 hr]

/-! ### rebuildIndex establishes the index part of the invariant for any rows -/

theorem rebuildIndexAux_spec (rows : List Row) (idx : List (String × Nat)) (n : String) :
    idxLookup n (rebuildIndexAux rows idx) =
      (idxLookup n idx).or ((rows.find? (fun r => r.name == n)).map (·.id)) := by
  induction rows generalizing idx with
  | nil => simp [rebuildIndexAux]
  | cons r t ih =>
    simp only [rebuildIndexAux]
    cases hl : idxLookup r.name idx with
    | some v =>
      simp only []
      rw [ih]
      by_cases hn : r.name = n
      · subst hn; simp [hl]
      · have : (r.name == n) = false := by simpa using hn
        simp [List.find?_cons, this]
    | none =>
      simp only []
      rw [ih, idxLookup_append]
      by_cases hn : r.name = n
      · subst hn
        simp [hl, idxLookup, List.find?_cons]
      · have h1 : (r.name == n) = false := by simpa using hn
        have h2 : (n == r.name) = false := by simpa using (fun e => hn e.symm)
        simp [idxLookup, h2, List.find?_cons, h1, Option.or_assoc]

theorem rebuildIndex_spec (rows : List Row) (n : String) :
    idxLookup n (rebuildIndex rows) = (rows.find? (fun r => r.name == n)).map (·.id) := by
  simp [rebuildIndex, rebuildIndexAux_spec, idxLookup]

/-- after `rebuildIndex` the invariant holds whatever the names are (collisions included) -/
theorem inv_rebuild (b : Bag) (rows : List Row) (hn : (rows.map (·.id)).Nodup) (hl : ∀ r ∈ rows, r.id < b.next) :
    Inv { b with rows := rows, index := rebuildIndex rows } := by
  refine ⟨hn, hl, ?_, ?_⟩
  · intro n i h
    simp only [rebuildIndex_spec] at h
    cases hf : rows.find? (fun r => r.name == n) with
    | none => simp [hf] at h
    | some r =>
      simp [hf] at h
      exact ⟨r, List.mem_of_find?_eq_some hf, h, by simpa using List.find?_some hf⟩
  · intro r hr
    simp only [rebuildIndex_spec]
    cases hf : rows.find? (fun x => x.name == r.name) with
    | none =>
      have := List.find?_eq_none.mp hf r hr
      simp at this
    | some x => simp


/-! ### the invariant only looks at rows (ids, names), index and counter -/

def keys (rows : List Row) : List (Nat × String) := rows.map fun r => (r.id, r.name)

theorem mem_keys {rows : List Row} {r : Row} (h : r ∈ rows) : (r.id, r.name) ∈ keys rows :=
  List.mem_map.mpr ⟨r, h, rfl⟩

theorem of_mem_keys {rows : List Row} {i : Nat} {n : String} (h : (i, n) ∈ keys rows) :
    ∃ r ∈ rows, r.id = i ∧ r.name = n := by
  obtain ⟨r, hr, e⟩ := List.mem_map.mp h
  simp only [Prod.mk.injEq] at e
  exact ⟨r, hr, e.1, e.2⟩

theorem ids_of_keys (rows : List Row) : rows.map (·.id) = (keys rows).map Prod.fst := by
  simp [keys, List.map_map, Function.comp_def]

/-- same (id, name) pairs (as a multiset), same index, counter not smaller: invariant transfers -/
theorem Inv.transfer {b b' : Bag} (h : Inv b) (hk : (keys b'.rows).Perm (keys b.rows))
    (hi : b'.index = b.index) (hn : b.next ≤ b'.next) : Inv b' := by
  refine ⟨?_, ?_, ?_, ?_⟩
  · rw [ids_of_keys]
    have := h.ids_nodup
    rw [ids_of_keys] at this
    exact (hk.map Prod.fst).nodup_iff.mpr this
  · intro r hr
    obtain ⟨r0, hr0, e1, _⟩ := of_mem_keys (hk.subset (mem_keys hr))
    have := h.ids_lt r0 hr0
    omega
  · intro n i hl
    rw [hi] at hl
    obtain ⟨r, hr, e1, e2⟩ := h.idx_sound n i hl
    obtain ⟨r', hr', e1', e2'⟩ := of_mem_keys (hk.symm.subset (mem_keys hr))
    exact ⟨r', hr', e1'.trans e1, e2'.trans e2⟩
  · intro r hr
    obtain ⟨r0, hr0, _, e2⟩ := of_mem_keys (hk.subset (mem_keys hr))
    rw [hi, ← e2]
    exact h.idx_complete r0 hr0

theorem Inv.congr {b b' : Bag} (h : Inv b) (hr : b'.rows = b.rows) (hi : b'.index = b.index)
    (hn : b'.next = b.next) : Inv b' :=
  h.transfer (by rw [hr]) hi (by omega)

theorem inv_nil (b : Bag) : Inv { b with rows := [], index := [] } :=
  ⟨by simp, by simp, by simp [idxLookup], by simp⟩

theorem inv_newBag (a : Nat) : Inv (newBag a) := ⟨by simp [newBag], by simp [newBag], by simp [newBag, idxLookup], by simp [newBag]⟩
theorem inv_newAlign (a : Nat) : Inv (newAlign a) := ⟨by simp [newAlign], by simp [newAlign], by simp [newAlign, idxLookup], by simp [newAlign]⟩
theorem inv_clear (b : Bag) : Inv (clear b) := (inv_nil b).congr rfl rfl rfl
theorem inv_clearBase (b : Bag) : Inv (clearBase b) := (inv_nil b).congr rfl rfl rfl

/-! ### AddSequenceChar -/

/-- the state after pushing a row named `nm` -/
def pushed (f : Bool) (b : Bag) (nm : String) (s : Seq) : Bag :=
  { b with rows := b.rows ++ [⟨b.next, nm, s⟩], index := idxInsert nm b.next b.index,
           next := b.next + 1, length := if f then (s.length : Int) else b.length }

theorem addSeqAs_cases (f : Bool) (b : Bag) (n : String) (s : Seq) :
    (addSeqAs f b n s = (b, false)) ∨ (addSeqAs f b n s = (b, true)) ∨
    (addSeqAs f b n s = (pushed f b (freshName b.index n) s, false)) := by
  unfold addSeqAs pushed
  simp only []
  split
  · exact Or.inl rfl
  · split
    · exact Or.inl rfl
    · split
      · exact Or.inr (Or.inl rfl)
      · exact Or.inr (Or.inr rfl)

theorem inv_pushed (f : Bool) (b : Bag) (h : Inv b) (nm : String) (s : Seq) : Inv (pushed f b nm s) := by
  refine ⟨?_, ?_, ?_, ?_⟩
  · simp only [pushed, List.map_append, List.map_cons, List.map_nil]
    apply List.nodup_append.mpr
    refine ⟨h.ids_nodup, by simp, ?_⟩
    intro a ha c hc
    simp only [List.mem_singleton] at hc
    subst hc
    obtain ⟨r, hr, e⟩ := List.mem_map.mp ha
    have := h.ids_lt r hr
    omega
  · intro r hr
    simp only [pushed, List.mem_append, List.mem_singleton] at hr ⊢
    rcases hr with hr | rfl
    · have := h.ids_lt r hr; omega
    · simp
  · intro m i hl
    simp only [pushed] at hl ⊢
    by_cases hm : m = nm
    · subst hm
      rw [idxLookup_insert_self] at hl
      simp only [Option.some.injEq] at hl
      exact ⟨⟨b.next, m, s⟩, by simp, hl, rfl⟩
    · rw [idxLookup_insert_other _ _ _ _ hm] at hl
      obtain ⟨r, hr, e1, e2⟩ := h.idx_sound m i hl
      exact ⟨r, by simp [hr], e1, e2⟩
  · intro r hr
    simp only [pushed, List.mem_append, List.mem_singleton] at hr ⊢
    by_cases hm : r.name = nm
    · rw [hm, idxLookup_insert_self]; rfl
    · rw [idxLookup_insert_other _ _ _ _ hm]
      rcases hr with hr | rfl
      · exact h.idx_complete r hr
      · exact absurd rfl hm

theorem inv_addSeqAs (f : Bool) (b : Bag) (h : Inv b) (n : String) (s : Seq) : Inv (addSeqAs f b n s).1 := by
  rcases addSeqAs_cases f b n s with e | e | e <;> rw [e]
  · exact h
  · exact h
  · exact inv_pushed f b h _ s

theorem inv_addSeq (b : Bag) (h : Inv b) (n : String) (s : Seq) : Inv (addSeq b n s).1 := inv_addSeqAs _ b h n s
theorem inv_addSeqBase (b : Bag) (h : Inv b) (n : String) (s : Seq) : Inv (addSeqBase b n s).1 := inv_addSeqAs _ b h n s

theorem inv_addAllStop (l : List (String × Seq)) (b : Bag) (h : Inv b) : Inv (addAllStop b l).1 := by
  induction l generalizing b with
  | nil => exact h
  | cons p t ih =>
    obtain ⟨n, s⟩ := p
    simp only [addAllStop]
    split
    · exact inv_addSeq b h n s
    · exact ih _ (inv_addSeq b h n s)

theorem inv_addAllStopBase (l : List (String × Seq)) (b : Bag) (h : Inv b) : Inv (addAllStopBase b l).1 := by
  induction l generalizing b with
  | nil => exact h
  | cons p t ih =>
    obtain ⟨n, s⟩ := p
    simp only [addAllStopBase]
    split
    · exact inv_addSeqBase b h n s
    · exact ih _ (inv_addSeqBase b h n s)

theorem inv_addAllIgnore (l : List (String × Seq)) (b : Bag) (h : Inv b) : Inv (addAllIgnore b l) := by
  induction l generalizing b with
  | nil => exact h
  | cons p t ih =>
    obtain ⟨n, s⟩ := p
    exact ih _ (inv_addSeq b h n s)

/-! ### in-place sequence changes, renames, reorderings -/

theorem keys_map_seq (f : Row → Seq) (rows : List Row) :
    keys (rows.map fun r => { r with seq := f r }) = keys rows := by
  simp [keys, List.map_map, Function.comp_def]

theorem inv_mapSeqs (f : Seq → Seq) (b : Bag) (h : Inv b) : Inv (mapSeqs f b) :=
  h.transfer (by simp only [mapSeqs]; rw [keys_map_seq (fun r => f r.seq)]) rfl (Nat.le_refl _)

theorem inv_renameWith (f : String → String) (b : Bag) (h : Inv b) : Inv (renameWith f b) := by
  unfold renameWith
  apply inv_rebuild
  · simpa [List.map_map, Function.comp_def] using h.ids_nodup
  · intro r hr
    obtain ⟨r0, hr0, e⟩ := List.mem_map.mp hr
    subst e
    exact h.ids_lt r0 hr0

theorem inv_perm_rows (b : Bag) (h : Inv b) (rows : List Row) (hp : rows.Perm b.rows) :
    Inv { b with rows := rows } :=
  h.transfer (hp.map _) rfl (Nat.le_refl _)

theorem inv_sortRows (b : Bag) (h : Inv b) : Inv (sortRows b) :=
  inv_perm_rows b h _ (List.mergeSort_perm _ _)

end Gv.Proofs.BagInv
