import Gv.Model.Fmt.Clustal
import Gv.Proofs.FmtBagInv
/-!
Clustal parser: what a successful parse looks like (helper development for `Props/C03.lean`).
-/
namespace Gv.Proofs.ClustalOutcome
open Gv Gv.Model Gv.Model.Fmt Gv.Model.Fmt.Clustal Gv.Proofs.FmtBagInv

theorem foldlM_inv : ∀ (rows : List XRow) (b b' : Bag), Inv b →
    rows.foldlM (fun (b : Bag) r => b.add r.1 r.2) b = some b' → Inv b'
  | [], b, b', hb, h => by simp at h; subst h; exact hb
  | r :: rs, b, b', hb, h => by
    simp only [List.foldlM_cons, Option.bind_eq_bind] at h
    cases ha : b.add r.1 r.2 with
    | none => simp [ha] at h
    | some b1 =>
      simp only [ha, Option.bind_some] at h
      exact foldlM_inv rs b1 b' (add_inv b hb _ _ b1 ha) h

theorem foldlM_ne : ∀ (rows : List XRow) (b b' : Bag), (rows ≠ [] ∨ b.rows ≠ []) →
    rows.foldlM (fun (b : Bag) r => b.add r.1 r.2) b = some b' → b'.rows ≠ []
  | [], b, b', hne, h => by
    simp at h; subst h
    cases hne with
    | inl e => exact absurd rfl e
    | inr e => exact e
  | r :: rs, b, b', _, h => by
    simp only [List.foldlM_cons, Option.bind_eq_bind] at h
    cases ha : b.add r.1 r.2 with
    | none => simp [ha] at h
    | some b1 =>
      simp only [ha, Option.bind_some] at h
      exact foldlM_ne rs b1 b' (Or.inr (add_rows_ne b _ _ b1 ha)) h

/-- the final stage yields a non-empty, rectangular alignment with pairwise distinct names -/
theorem build_ok (o : POpts) (rows : List XRow) (a : Aln) (h : build o rows = .ok a) :
    a.rows ≠ [] ∧ (∀ r ∈ a.rows, (r.2.length : Int) = a.length) ∧
      Spec.Fmt.distinct (a.rows.map (·.1)) = true := by
  unfold build at h
  split at h
  · simp at h
  · rename_i hne
    split at h
    · simp at h
    · rename_i bag hfold
      split at h
      · simp at h
      · rename_i a' hf
        simp [pure, Except.pure] at h; subst h
        have hinv := foldlM_inv rows _ bag (inv_empty _) hfold
        have hn := foldlM_ne rows _ bag (Or.inl (by intro e; simp [e] at hne)) hfold
        obtain ⟨hr, hl⟩ := finish_rows bag _ a' hf
        rw [hr, hl]
        exact ⟨hn, hinv.2.1, hinv.2.2⟩

theorem parse_ok (c : Bool) (o : POpts) (bs : Seq) (a : Aln) (h : Clustal.parse c o bs = .ok a) :
    ∃ rows, build o rows = .ok a := by
  unfold Clustal.parse at h
  cases hp : parseR c o bs with
  | error e => rw [hp] at h; cases e <;> simp [toOutcome] at h
  | ok a' =>
    rw [hp] at h
    simp [toOutcome] at h; subst h
    unfold parseR at hp
    simp only [bind, Except.bind, pure, Except.pure] at hp
    repeat' (split at hp <;> try (simp at hp))
    exact ⟨_, hp⟩

end Gv.Proofs.ClustalOutcome
