import Gv.Model.Fmt.Clustal
import Gv.Proofs.FmtBagInv
/-!
Clustal parser: what a successful parse looks like (helper development for `Props/C03.lean`).
-/
namespace Gv.Proofs.ClustalOutcome
open Gv Gv.Model Gv.Model.Fmt Gv.Model.Fmt.Clustal Gv.Proofs.FmtBagInv

theorem foldlM_inv : ∀ (rows : List XRow) (b b' : Bag), Inv b →
    rows.foldlM (fun (b : Bag) r => b.add r.1 r.2) b = some b' → Inv b'
  | [], b, b', hb, h => by simp at h; subst h; exact hb
  | r :: rs, b, b', hb, h => by
    simp only [List.foldlM_cons, Option.bind_eq_bind] at h
    cases ha : b.add r.1 r.2 with
    | none => simp [ha] at h
    | some b1 =>
      simp only [ha, Option.bind_some] at h
      exact foldlM_inv rs b1 b' (add_inv b hb _ _ b1 ha) h

theorem foldlM_ne : ∀ (rows : List XRow) (b b' : Bag), (rows ≠ [] ∨ b.rows ≠ []) →
    rows.foldlM (fun (b : Bag) r => b.add r.1 r.2) b = some b' → b'.rows ≠ []
  | [], b, b', hne, h => by
    simp at h; subst h
    cases hne with
    | inl e => exact absurd rfl e
    | inr e => exact e
  | r :: rs, b, b', _, h => by
    simp only [List.foldlM_cons, Option.bind_eq_bind] at h
    cases ha : b.add r.1 r.2 with
    | none => simp [ha] at h
    | some b1 =>
      simp only [ha, Option.bind_some] at h
      exact foldlM_ne rs b1 b' (Or.inr (add_rows_ne b _ _ b1 ha)) h

/-- the final stage yields a non-empty, rectangular alignment with pairwise distinct names -/
theorem build_ok (o : POpts) (rows : List XRow) (a : Aln) (h : build o rows = .ok a) :
    a.rows ≠ [] ∧ (∀ r ∈ a.rows, (r.2.length : Int) = a.length) ∧
      Spec.Fmt.distinct (a.rows.map (·.1)) = true := by
  unfold build at h
  split at h
  · simp at h
  · rename_i hne
    split at h
    · simp at h
    · rename_i bag hfold
      split at h
      · simp at h
      · rename_i a' hf
        simp [pure, Except.pure] at h; subst h
        have hinv := foldlM_inv rows _ bag (inv_empty _) hfold
        have hn := foldlM_ne rows _ bag (Or.inl (by intro e; simp [e] at hne)) hfold
        obtain ⟨hr, hl⟩ := finish_rows bag _ a' hf
        rw [hr, hl]
        exact ⟨hn, hinv.2.1, hinv.2.2⟩

theorem parse_ok (c : Bool) (o : POpts) (bs : Seq) (a : Aln) (h : Clustal.parse c o bs = .ok a) :
    ∃ rows, build o rows = .ok a := by
  unfold Clustal.parse at h
  cases hp : parseR c o bs with
  | error e => rw [hp] at h; cases e <;> simp [toOutcome] at h
  | ok a' =>
    rw [hp] at h
    simp [toOutcome] at h; subst h
    unfold parseR at hp
    simp only [bind, Except.bind, pure, Except.pure] at hp
    repeat' (split at hp <;> try (simp at hp))
    exact ⟨_, hp⟩

/-! ### with the row-index check the parser never panics -/

section NoPanic
open Gv.Model.Fmt.Phylip (Stop R)

theorem scan_np (s : St) : s.scan ≠ .error .panic := by
  unfold St.scan
  split
  · simp
  · split <;> simp

theorem skipEols_np : ∀ (fuel : Nat) (s : St), skipEols fuel s ≠ .error .panic := by
  intro fuel
  induction fuel with
  | zero => intro s; simp [skipEols]
  | succ f ih =>
    intro s h
    unfold skipEols at h
    simp only [bind, Except.bind, pure, Except.pure] at h
    have := scan_np s
    have := ih
    repeat' (split at h <;> try (simp at h))
    all_goals simp_all

theorem scanWithEOL_np (s : St) : scanWithEOL s ≠ .error .panic := by
  intro h
  unfold scanWithEOL at h
  simp only [bind, Except.bind, pure, Except.pure] at h
  have := scan_np s
  have := skipEols_np
  repeat' (split at h <;> try (simp at h))
  all_goals simp_all

theorem skipLine_np : ∀ (fuel : Nat) (t : Tok) (s : St), skipLine fuel t s ≠ .error .panic := by
  intro fuel
  induction fuel with
  | zero => intro t s; simp [skipLine]
  | succ f ih =>
    intro t s h
    unfold skipLine at h
    simp only [bind, Except.bind, pure, Except.pure] at h
    have := scan_np
    have := ih
    repeat' (split at h <;> try (simp at h))
    all_goals simp_all

theorem skipHeader_np : ∀ (fuel : Nat) (t : Tok) (s : St), skipHeader fuel t s ≠ .error .panic := by
  intro fuel
  induction fuel with
  | zero => intro t s; simp [skipHeader]
  | succ f ih =>
    intro t s h
    unfold skipHeader at h
    simp only [bind, Except.bind, pure, Except.pure] at h
    have := scanWithEOL_np
    have := ih
    repeat' (split at h <;> try (simp at h))
    all_goals simp_all

theorem blockEnd_np (t : Tok) (s : St) (ls : LS) : blockEnd t s ls ≠ .error .panic := by
  intro h
  unfold blockEnd at h
  simp only [bind, Except.bind, pure, Except.pure] at h
  have := scan_np
  have := scanWithEOL_np
  have := skipLine_np
  repeat' (split at h <;> try (simp at h))
  all_goals simp_all

theorem row_np (t : Tok) (s : St) : row t s ≠ .error .panic := by
  intro h
  unfold row at h
  simp only [bind, Except.bind, pure, Except.pure] at h
  have := scan_np
  repeat' (split at h <;> try (simp at h))
  all_goals simp_all

theorem place_np (ls : LS) (n : Name) (q : Seq) : place true ls n q ≠ .error .panic := by
  intro h
  unfold place at h
  repeat' (split at h <;> try (simp [pure, Except.pure] at h))

theorem loop_np : ∀ (fuel : Nat) (t : Tok) (s : St) (ls : LS), loop true fuel t s ls ≠ .error .panic := by
  intro fuel
  induction fuel with
  | zero => intro t s ls; simp [loop]
  | succ f ih =>
    intro t s ls h
    unfold loop at h
    simp only [bind, Except.bind, pure, Except.pure] at h
    have := scan_np
    have := blockEnd_np
    have := row_np
    have := place_np
    have := ih
    repeat' (split at h <;> try (simp at h))
    all_goals simp_all

theorem build_np (o : POpts) (rows : List XRow) : build o rows ≠ .error .panic := by
  intro h
  unfold build at h
  repeat' (split at h <;> try (simp [pure, Except.pure] at h))

/-- with the bounds check of the row index the Clustal parser never panics -/
theorem parse_np (o : POpts) (bs : Seq) : Clustal.parse true o bs ≠ .panic := by
  intro h
  unfold Clustal.parse at h
  cases hp : parseR true o bs with
  | ok a => rw [hp] at h; simp [toOutcome] at h
  | error e =>
    rw [hp] at h
    cases e <;> simp [toOutcome] at h
    unfold parseR at hp
    simp only [bind, Except.bind, pure, Except.pure] at hp
    have := scan_np
    have := skipHeader_np
    have := loop_np
    have := build_np
    repeat' (split at hp <;> try (simp at hp))
    all_goals simp_all

end NoPanic

end Gv.Proofs.ClustalOutcome
