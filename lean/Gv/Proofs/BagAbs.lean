import Gv.Proofs.BagOps
import Gv.Spec.Bag
/-!
Abstraction function and the strong representation invariant used by the refinement proof of C01.

* `abs` forgets everything the Go container keeps beside the observable content: row ids (pointer
  identities), the name index, the allocation counter and the cached alignment length.
* `Rect`: the cached length of an alignment equals the length of every row, and is `-1` when there is
  no row (hence `-1` *iff* empty, `Rect.length_eq_neg_one_iff`).
* `IdxFirst`: the name index maps a name to the *first* row (in iteration order) carrying it, and to
  nothing when no row carries it.  This is what makes "lookup through the index" and "scan the rows"
  the same function, also after a caller made two rows share a name.
* `Good = Inv ∧ IdxFirst ∧ Rect ∧ AlphaOK` (an alignment's alphabet is never `BOTH`).
-/
namespace Gv.Proofs.BagAbs
open Gv Gv.Model Gv.Spec Gv.Proofs.BagInv

/-- the observable content of a container -/
def abs (b : Bag) : SBag :=
  { rows := pairs b, policy := b.policy, alphabet := b.alphabet, isAlign := b.isAlign }

@[simp] theorem abs_rows (b : Bag) : (abs b).rows = pairs b := rfl
@[simp] theorem abs_policy (b : Bag) : (abs b).policy = b.policy := rfl
@[simp] theorem abs_alphabet (b : Bag) : (abs b).alphabet = b.alphabet := rfl
@[simp] theorem abs_isAlign (b : Bag) : (abs b).isAlign = b.isAlign := rfl

theorem abs_names (b : Bag) : (abs b).names = b.rows.map (·.name) := by
  simp [SBag.names, pairs, List.map_map, Function.comp_def]

theorem pairs_length (b : Bag) : (pairs b).length = b.rows.length := by simp [pairs]

/-- rectangularity of an alignment (vacuous for a plain sequence set) -/
structure Rect (b : Bag) : Prop where
  rows_len : b.isAlign = true → ∀ r ∈ b.rows, (r.seq.length : Int) = b.length
  empty_len : b.isAlign = true → b.rows = [] → b.length = -1

theorem Rect.length_eq_neg_one_iff {b : Bag} (h : Rect b) (ha : b.isAlign = true) :
    b.length = -1 ↔ b.rows = [] := by
  constructor
  · intro hl
    cases hr : b.rows with
    | nil => rfl
    | cons r t =>
      have := h.rows_len ha r (by simp [hr])
      omega
  · exact h.empty_len ha

theorem Rect.of_not_align {b : Bag} (h : b.isAlign = false) : Rect b :=
  ⟨by simp [h], by simp [h]⟩

/-- the reference model's length (first row, `-1` when empty) is the cached one -/
theorem Rect.abs_length {b : Bag} (h : Rect b) (ha : b.isAlign = true) : (abs b).length = b.length := by
  unfold SBag.length
  cases hr : b.rows with
  | nil => simp [pairs, hr, h.empty_len ha hr]
  | cons r t =>
    have := h.rows_len ha r (by simp [hr])
    simp [pairs, hr, this]

/-- the index points to the first row of each name -/
def IdxFirst (b : Bag) : Prop :=
  ∀ n, idxLookup n b.index = (b.rows.find? (fun r => r.name == n)).map (·.id)

/-- an alignment never carries the alphabet `BOTH` (`NewAlign` turns it into `NUCLEOTIDS`, and so do
`Clone` and `Sample`, which go through `NewAlign`) -/
def AlphaOK (b : Bag) : Prop := b.isAlign = true → b.alphabet ≠ BOTH

structure Good (b : Bag) : Prop where
  inv : Inv b
  first : IdxFirst b
  rect : Rect b
  alpha : AlphaOK b

/-! ### `firstNamed` on the abstraction = `find?` on the rows -/

theorem firstNamed_pairs (n : String) (rows : List Row) :
    firstNamed n (rows.map fun r => (r.name, r.seq)) =
      (rows.find? (fun r => r.name == n)).map fun r => (r.name, r.seq) := by
  induction rows with
  | nil => simp [firstNamed]
  | cons r t ih =>
    simp only [List.map_cons, firstNamed, List.find?_cons]
    by_cases hc : r.name = n
    · simp [hc]
    · have : (r.name == n) = false := by simpa using hc
      simp [this, ih]

theorem deref_find {rows : List Row} (hn : (rows.map (·.id)).Nodup) {p : Row → Bool} {r : Row}
    (h : rows.find? p = some r) : deref r.id rows = some r :=
  deref_of_mem hn (List.mem_of_find?_eq_some h)

/-- **lookup by name through the index = first row of that name** -/
theorem getByName_eq_find {b : Bag} (h : Good b) (n : String) :
    getByName b n = b.rows.find? (fun r => r.name == n) := by
  unfold getByName
  rw [h.first n]
  cases hf : b.rows.find? (fun r => r.name == n) with
  | none => simp
  | some r => simp [deref_find h.inv.ids_nodup hf]

theorem getByName_abs {b : Bag} (h : Good b) (n : String) :
    (getByName b n).map (fun r => (r.name, r.seq)) = firstNamed n (abs b).rows := by
  rw [getByName_eq_find h, abs_rows, pairs, firstNamed_pairs]

theorem idxLookup_isSome {b : Bag} (h : Good b) (n : String) :
    (idxLookup n b.index).isSome = (firstNamed n (abs b).rows).isSome := by
  rw [h.first n, abs_rows, pairs, firstNamed_pairs]
  simp

theorem find_unique {rows : List Row} (hn : (rows.map (·.name)).Nodup) {r : Row} (hr : r ∈ rows) :
    rows.find? (fun x => x.name == r.name) = some r := by
  induction rows with
  | nil => simp at hr
  | cons x t ih =>
    simp only [List.map_cons, List.nodup_cons] at hn
    rcases List.mem_cons.mp hr with rfl | hr
    · simp
    · have hne : ¬ x.name = r.name := by
        intro e; exact hn.1 (e ▸ List.mem_map_of_mem (f := (·.name)) hr)
      have : (x.name == r.name) = false := by simpa using hne
      simp [List.find?_cons, this, ih hn.2 hr]

/-- with pairwise distinct names the weak invariant already pins the index down -/
theorem idxFirst_of_nodup {b : Bag} (h : Inv b) (hn : (b.rows.map (·.name)).Nodup) : IdxFirst b := by
  intro n
  cases hl : idxLookup n b.index with
  | some i =>
    obtain ⟨r, hr, e1, e2⟩ := h.idx_sound n i hl
    subst e1; subst e2
    have := find_unique hn hr
    simp [this]
  | none =>
    have : b.rows.find? (fun r => r.name == n) = none := by
      apply List.find?_eq_none.mpr
      intro r hr hc
      have := h.idx_complete r hr
      have e : r.name = n := by simpa using hc
      rw [e, hl] at this
      simp at this
    simp [this]

/-- `idxFirst` implies the soundness/completeness part of `Inv` -/
theorem inv_of_first {b : Bag} (hn : (b.rows.map (·.id)).Nodup) (hl : ∀ r ∈ b.rows, r.id < b.next)
    (hf : IdxFirst b) : Inv b := by
  refine ⟨hn, hl, ?_, ?_⟩
  · intro n i h
    rw [hf n] at h
    cases hq : b.rows.find? (fun r => r.name == n) with
    | none => simp [hq] at h
    | some r =>
      simp [hq] at h
      exact ⟨r, List.mem_of_find?_eq_some hq, h, by simpa using List.find?_some hq⟩
  · intro r hr
    rw [hf r.name]
    cases hq : b.rows.find? (fun x => x.name == r.name) with
    | none =>
      have := List.find?_eq_none.mp hq r hr
      simp at this
    | some x => simp

theorem idxFirst_rebuild (b : Bag) (rows : List Row) :
    IdxFirst { b with rows := rows, index := rebuildIndex rows } := by
  intro n; exact rebuildIndex_spec rows n

theorem good_newBag (a : Nat) : Good (newBag a) :=
  ⟨inv_newBag a, by intro n; simp [newBag, idxLookup], Rect.of_not_align rfl, by intro h; simp [newBag] at h⟩

theorem good_newAlign (a : Nat) : Good (newAlign a) :=
  ⟨inv_newAlign a, by intro n; simp [newAlign, idxLookup], ⟨by simp [newAlign], by simp [newAlign]⟩,
   by intro _; simp only [newAlign]; split <;> simp_all [BOTH, NUCLEOTIDS]⟩

end Gv.Proofs.BagAbs
