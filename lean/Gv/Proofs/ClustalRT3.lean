import Gv.Proofs.ClustalRT2
import Gv.Proofs.PhylipRT3
/-!
Clustal round trip, helper development, part 3: the writer's blocks, the loop over all blocks, the header
line, the end of `Parse`.
-/
namespace Gv.Proofs.ClustalRT
open Gv Gv.Model Gv.Model.Fmt Gv.Model.Fmt.Clustal
open Gv.Model.Fmt.Phylip (isWS identChar afterRun parseInt64 Stop R isDigit)
open Gv.Proofs.PhylipRT (Run Res identChar_facts isWS_SP identChar_SP identChar_NL take_all parseInt64_none)
open Gv.Proofs.FastaRT (addAll addAll_ok)

set_option maxRecDepth 100000

/-- Go's `CLUSTAL_LINE` -/
abbrev W : Nat := Gen.c_CLUSTAL_LINE.toNat

theorem W_pos : 0 < W := by decide

/-! ### the writer's blocks -/

theorem cons_aux (b1 b2 b3 : Bool) :
    ((if b1 then (42 : Byte) else if b2 then 58 else if b3 then 46 else SP) == NL) = false ∧
    ((if b1 then (42 : Byte) else if b2 then 58 else if b3 then 46 else SP) == CR) = false ∧
    ((if b1 then (42 : Byte) else if b2 then 58 else if b3 then 46 else SP) == 0) = false := by
  cases b1 <;> cases b2 <;> cases b3 <;> decide

theorem conservation_byte (a : Nat) (rows : List XRow) (p : Nat) :
    (conservation a rows p == NL) = false ∧ (conservation a rows p == CR) = false ∧
      (conservation a rows p == 0) = false := by
  unfold conservation
  exact cons_aux _ _ _

/-- the conservation line after its first blank -/
def consT (alphabet maxname L : Nat) (rows : List XRow) (cur : Nat) : Seq :=
  List.replicate (maxname + 2) SP ++
    (List.range (min (cur + W) L - cur)).map (fun k => conservation alphabet rows (cur + k))

theorem consT_noEol (alphabet maxname L : Nat) (rows : List XRow) (cur : Nat) :
    NoEol (SP :: consT alphabet maxname L rows cur) := by
  intro b hb
  simp only [consT, List.mem_cons, List.mem_append, List.mem_replicate, List.mem_map] at hb
  rcases hb with h | h | ⟨k, _, h⟩
  · subst h; decide
  · rw [h.2]; decide
  · subst h; exact conservation_byte _ _ _

theorem flatMap_congr' {β} (f g : XRow → List β) : ∀ (rows : List XRow), (∀ r ∈ rows, f r = g r) →
    rows.flatMap f = rows.flatMap g
  | [], _ => rfl
  | r :: rs, h => by
    simp only [List.flatMap_cons, h r (by simp), flatMap_congr' f g rs (fun x hx => h x (by simp [hx]))]

theorem blocksW_done (version : Seq) (alphabet maxname L : Nat) (rows : List XRow) (fw cur : Nat) (h : L ≤ cur) :
    blocksW version alphabet maxname L rows fw cur = [] := by
  cases fw with
  | zero => rfl
  | succ f => simp [blocksW]; omega

theorem blocksW_step (version : Seq) (alphabet maxname L : Nat) (rows : List XRow)
    (hmax : ∀ r ∈ rows, r.1.length ≤ maxname) (fw cur : Nat) (h : cur < L) :
    blocksW version alphabet maxname L rows (fw + 1) cur =
      (if cur > 0 then [NL] else []) ++ (rows.flatMap (rowText maxname L W cur) ++
        (SP :: consT alphabet maxname L rows cur ++ NL :: blocksW version alphabet maxname L rows fw (cur + W))) := by
  have hfm : (rows.flatMap fun r => r.1 ++ List.replicate (maxname + 3 - r.1.length) SP ++
      (r.2.drop cur).take (min (cur + W) L - cur) ++ [SP] ++ natDec (min (cur + W) L) ++ [NL]) =
      rows.flatMap (rowText maxname L W cur) := by
    apply flatMap_congr'
    intro r hr
    have := hmax r hr
    have e : maxname + 3 - r.1.length = (maxname + 2 - r.1.length) + 1 := by omega
    simp [rowText, rowTail, cseg, e, List.append_assoc]
  rw [blocksW]
  simp only [h, if_true, hfm]
  simp [consT, List.replicate_succ, List.append_assoc]

theorem flatMap_rowText_length (maxname L : Nat) (cur : Nat) : ∀ (rows : List XRow),
    rows.length ≤ (rows.flatMap (rowText maxname L W cur)).length
  | [] => by simp
  | r :: rs => by
    have ih := flatMap_rowText_length maxname L cur rs
    have : 1 ≤ (rowText maxname L W cur r).length := by
      simp only [rowText, rowTail, List.length_append, List.length_cons]; omega
    simp only [List.flatMap_cons, List.length_append, List.length_cons]
    omega

/-- what a row has accumulated after the block at `cur` -/
theorem take_step (L : Nat) (r : XRow) (hr : r.2.length = L) (cur : Nat) (hc : cur < L) :
    r.2.take cur ++ cseg L W cur r = r.2.take (cur + W) := by
  have h1 : cur + (min (cur + W) L - cur) = min (cur + W) L := by
    have := W_pos; omega
  rw [cseg, ← List.take_add, h1, ← hr]
  exact List.take_eq_take_min.symm

/-! ### all blocks after the first -/

section Loop
variable (c : Bool) (version : Seq) (alphabet maxname L : Nat) (r0 : XRow) (rs : List XRow)
  (hLmax : L ≤ 9223372036854775807) (hok : ∀ r ∈ r0 :: rs, RowOk L W r)
  (hmax : ∀ r ∈ r0 :: rs, r.1.length ≤ maxname)
include hLmax hok hmax

theorem blocks_loop : ∀ (fw cur fp k nb cu : Nat) (v : Seq), NoEol (SP :: v) → 0 < cur → L ≤ cur + fw →
    cu = rs.length + 1 → (nb = 0 ∨ cu = nb) →
    (SP :: v ++ NL :: blocksW version alphabet maxname L (r0 :: rs) fw cur).length + 2 ≤ fp →
    ∃ ls', loop c fp .eol ⟨SP :: v ++ NL :: blocksW version alphabet maxname L (r0 :: rs) fw cur, .eol, false⟩
        ⟨nb, cu, k, (r0 :: rs).map (fun r => (r.1, r.2.take cur))⟩ = .ok ls' ∧ ls'.rows = r0 :: rs := by
  intro fw
  induction fw with
  | zero =>
    intro cur fp k nb cu v hv hc hfw hcu hnb hfp
    obtain ⟨f, rfl⟩ : ∃ f, fp = f + 1 := ⟨fp - 1, by omega⟩
    have hlen : ∀ r ∈ r0 :: rs, r.2.length = L := fun r hr => (hok r hr).len
    rw [blocksW_done _ _ _ _ _ _ _ (by omega)]
    rw [loop_end c f v hv _ (by simp only; omega) (by simpa using hnb)]
    exact ⟨_, rfl, take_all L _ hlen cur (by omega)⟩
  | succ fw ih =>
    intro cur fp k nb cu v hv hc hfw hcu hnb hfp
    have hlen : ∀ r ∈ r0 :: rs, r.2.length = L := fun r hr => (hok r hr).len
    by_cases hend : L ≤ cur
    · obtain ⟨f, rfl⟩ : ∃ f, fp = f + 1 := ⟨fp - 1, by omega⟩
      rw [blocksW_done _ _ _ _ _ _ _ hend]
      rw [loop_end c f v hv _ (by simp only; omega) (by simpa using hnb)]
      exact ⟨_, rfl, take_all L _ hlen cur hend⟩
    · have hcl : cur < L := by omega
      have h0 := hok r0 (by simp)
      have hstep := blocksW_step version alphabet maxname L (r0 :: rs) hmax fw cur hcl
      simp only [hc, if_true, List.flatMap_cons] at hstep
      have hfl := flatMap_rowText_length maxname L cur rs
      rw [hstep] at hfp ⊢
      simp only [List.length_append, List.length_cons, List.length_nil] at hfp
      obtain ⟨f, rfl⟩ : ∃ f, fp = (f + rs.length) + 1 := ⟨fp - 1 - rs.length, by omega⟩
      have e1 : [NL] ++ (rowText maxname L W cur r0 ++ rs.flatMap (rowText maxname L W cur) ++
          (SP :: consT alphabet maxname L (r0 :: rs) cur ++
            NL :: blocksW version alphabet maxname L (r0 :: rs) fw (cur + W))) =
          NL :: (r0.1 ++ rowTail (maxname + 2 - r0.1.length) (cseg L W cur r0) (min (cur + W) L) ++
            (rs.flatMap (rowText maxname L W cur) ++ (SP :: consT alphabet maxname L (r0 :: rs) cur ++
              NL :: blocksW version alphabet maxname L (r0 :: rs) fw (cur + W)))) := by
        simp [rowText, List.append_assoc]
      rw [e1]
      rw [loop_next c (f + rs.length) v hv _ _ (by simp only; omega) (by simpa using hnb) r0.1 h0.name _ _
        (h0.seg cur hcl) _ (by omega) _
        (by
          have := place_later c cu k [] (rs.map (fun r => (r.1, r.2.take cur))) r0.1 (r0.2.take cur) (cseg L W cur r0)
          simpa using this)]
      have hlater := later_block_rows c maxname L W hLmax cur hcl rs (fun x hx => hok x (by simp [hx]))
        [(r0.1, r0.2.take cur ++ cseg L W cur r0)] cu k f
        (SP :: consT alphabet maxname L (r0 :: rs) cur ++
          NL :: blocksW version alphabet maxname L (r0 :: rs) fw (cur + W))
      simp only [List.length_cons, List.length_nil, Nat.zero_add, List.singleton_append] at hlater
      rw [hlater]
      have hrows : (r0.1, r0.2.take cur ++ cseg L W cur r0) ::
          rs.map (fun r => (r.1, r.2.take cur ++ cseg L W cur r)) =
          (r0 :: rs).map (fun r => (r.1, r.2.take (cur + W))) := by
        simp only [List.map_cons, take_step L r0 h0.len cur hcl]
        congr 1
        apply List.map_congr_left
        intro r hr
        rw [take_step L r (hlen r (by simp [hr])) cur hcl]
      rw [hrows]
      exact ih (cur + W) f (k + 1) cu (1 + rs.length) _ (consT_noEol alphabet maxname L (r0 :: rs) cur)
        (by omega) (by have := W_pos; omega) (by omega) (Or.inr (by omega))
        (by simp only [List.length_append, List.length_cons]; omega)

/-- **the main loop** on the blocks the writer lays out, entered with the first name pushed back -/
theorem loop_written (hL : 1 ≤ L) :
    ∃ ls', loop c
      ((rowTail (maxname + 2 - r0.1.length) (cseg L W 0 r0) (min (0 + W) L) ++
        (rs.flatMap (rowText maxname L W 0) ++ (SP :: consT alphabet maxname L (r0 :: rs) 0 ++
          NL :: blocksW version alphabet maxname L (r0 :: rs) L (0 + W)))).length + 3) .eol
      ⟨rowTail (maxname + 2 - r0.1.length) (cseg L W 0 r0) (min (0 + W) L) ++
        (rs.flatMap (rowText maxname L W 0) ++ (SP :: consT alphabet maxname L (r0 :: rs) 0 ++
          NL :: blocksW version alphabet maxname L (r0 :: rs) L (0 + W))), classify r0.1, true⟩ {} = .ok ls' ∧
      ls'.rows = r0 :: rs := by
  have h0 := hok r0 (by simp)
  have hlen : ∀ r ∈ r0 :: rs, r.2.length = L := fun r hr => (hok r hr).len
  have hfl := flatMap_rowText_length maxname L 0 rs
  generalize hfp : (rowTail (maxname + 2 - r0.1.length) (cseg L W 0 r0) (min (0 + W) L) ++
        (rs.flatMap (rowText maxname L W 0) ++ (SP :: consT alphabet maxname L (r0 :: rs) 0 ++
          NL :: blocksW version alphabet maxname L (r0 :: rs) L (0 + W)))).length + 3 = fp
  simp only [List.length_append, List.length_cons] at hfp
  obtain ⟨f, rfl⟩ : ∃ f, fp = (f + rs.length) + 1 := ⟨fp - 1 - rs.length, by omega⟩
  rw [loop_row c (f + rs.length) _ _ _ r0.1 h0.name _ _ (h0.seg 0 (by omega)) _ (by omega) _ _
    (st_scan_pushed _ _) (place_first c 0 0 [] r0.1 _)]
  rw [first_block_rows c maxname L W hLmax rs (fun x hx => hok x (by simp [hx])) (by omega)]
  have hrows : [] ++ [(r0.1, cseg L W 0 r0)] ++ rs.map (fun r => (r.1, cseg L W 0 r)) =
      (r0 :: rs).map (fun r => (r.1, r.2.take (0 + W))) := by
    have h1 : ∀ r : XRow, r.2.length = L → cseg L W 0 r = r.2.take (0 + W) := by
      intro r hr
      have := take_step L r hr 0 (by omega)
      simpa using this
    simp only [List.nil_append, List.cons_append, List.map_cons, h1 r0 h0.len]
    congr 1
    apply List.map_congr_left
    intro r hr
    rw [h1 r (hlen r (by simp [hr]))]
  rw [hrows]
  exact blocks_loop c version alphabet maxname L r0 rs hLmax hok hmax L (0 + W) f 0 0 (0 + 1 + rs.length) _
    (consT_noEol alphabet maxname L (r0 :: rs) 0) (by have := W_pos; omega) (by omega) (by omega) (Or.inl rfl)
    (by simp only [List.length_append, List.length_cons]; omega)

end Loop

end Gv.Proofs.ClustalRT
