import Gv.Model.Mask
/-!
C15: what the `MAJ` replacement is.  `Model.majorityChar` mirrors the scan `for c, num := range occurences
{ if num > max { rep = c; max = num } }` over the 130-entry table; here it is shown to return the lowest
byte among the most frequent ones.  Core-only.
-/
namespace Gv.Proofs.Majority
open Gv Gv.Model

def cand (col : List Byte) (k : Nat) : Byte × Nat := (UInt8.ofNat k, col.count (UInt8.ofNat k))
def step (best p : Byte × Nat) : Byte × Nat := if p.2 > best.2 then p else best
def bestUpTo (col : List Byte) (d : Byte) (n : Nat) : Byte × Nat := ((List.range n).map (cand col)).foldl step (d, 0)

theorem majorityChar_eq (col : List Byte) (d : Byte) : majorityChar col d = (bestUpTo col d 130).1 := rfl

theorem bestUpTo_succ (col : List Byte) (d : Byte) (n : Nat) :
    bestUpTo col d (n + 1) = step (bestUpTo col d n) (cand col n) := by
  simp [bestUpTo, List.range_succ, List.foldl_append]

theorem bestUpTo_inv (col : List Byte) (d : Byte) (n : Nat) :
    (∀ k, k < n → col.count (UInt8.ofNat k) ≤ (bestUpTo col d n).2) ∧
    (0 < (bestUpTo col d n).2 → ∃ k, k < n ∧ bestUpTo col d n = cand col k ∧
        ∀ k', k' < n → col.count (UInt8.ofNat k') = (bestUpTo col d n).2 → k ≤ k') ∧
    ((bestUpTo col d n).2 = 0 → bestUpTo col d n = (d, 0)) := by
  induction n with
  | zero => simp [bestUpTo]
  | succ n ih =>
    obtain ⟨a, b, c⟩ := ih
    rw [bestUpTo_succ]
    unfold step
    by_cases h : (cand col n).2 > (bestUpTo col d n).2
    · rw [if_pos h]
      have hc : (cand col n).2 = col.count (UInt8.ofNat n) := rfl
      refine ⟨?_, ?_, ?_⟩
      · intro k hk
        by_cases e : k = n
        · subst e; rw [hc]; exact Nat.le_refl _
        · have := a k (by omega); omega
      · intro _
        refine ⟨n, by omega, rfl, ?_⟩
        intro k' hk' e
        by_cases e' : k' = n
        · omega
        · have := a k' (by omega); omega
      · intro e; omega
    · rw [if_neg h]
      have hc : (cand col n).2 = col.count (UInt8.ofNat n) := rfl
      refine ⟨?_, ?_, c⟩
      · intro k hk
        by_cases e : k = n
        · subst e; omega
        · exact a k (by omega)
      · intro hp
        obtain ⟨k, hk, e1, e2⟩ := b hp
        refine ⟨k, by omega, e1, ?_⟩
        intro k' hk' e
        by_cases e' : k' = n
        · omega
        · exact e2 k' (by omega) e

/-- **the MAJ replacement is the most frequent residue, the lowest byte on ties**, whenever the column
holds a byte the 130-entry table can count -/
theorem majorityChar_spec (col : List Byte) (d : Byte) (h : ∃ c ∈ col, c.toNat < 130) :
    majorityChar col d ∈ col ∧ (majorityChar col d).toNat < 130 ∧
    (∀ c : Byte, c.toNat < 130 → col.count c ≤ col.count (majorityChar col d)) ∧
    (∀ c : Byte, c.toNat < 130 → col.count c = col.count (majorityChar col d) → majorityChar col d ≤ c) := by
  obtain ⟨a, b, _⟩ := bestUpTo_inv col d 130
  obtain ⟨c0, hc0, hlt0⟩ := h
  have hpos : 0 < (bestUpTo col d 130).2 := by
    have := a c0.toNat hlt0
    rw [UInt8.ofNat_toNat] at this
    have : 0 < col.count c0 := List.count_pos_iff.mpr hc0
    omega
  obtain ⟨k, hk, e1, e2⟩ := b hpos
  have hm : majorityChar col d = UInt8.ofNat k := by rw [majorityChar_eq, e1]; rfl
  have hcnt : (bestUpTo col d 130).2 = col.count (UInt8.ofNat k) := by rw [e1]; rfl
  have hkn : (UInt8.ofNat k).toNat = k := by
    rw [UInt8.toNat_ofNat']; omega
  rw [hm]
  refine ⟨?_, by omega, ?_, ?_⟩
  · apply List.count_pos_iff.mp; omega
  · intro c hc
    have := a c.toNat hc
    rw [UInt8.ofNat_toNat] at this
    omega
  · intro c hc e
    have := e2 c.toNat hc (by rw [UInt8.ofNat_toNat]; omega)
    rw [UInt8.le_iff_toNat_le, hkn]
    exact this

/-- with no countable byte in the column the incoming value is kept -/
theorem majorityChar_default (col : List Byte) (d : Byte) (h : ∀ c ∈ col, ¬ c.toNat < 130) : majorityChar col d = d := by
  obtain ⟨_, b, c⟩ := bestUpTo_inv col d 130
  rw [majorityChar_eq]
  by_cases hp : 0 < (bestUpTo col d 130).2
  · exfalso
    obtain ⟨k, hk, e1, _⟩ := b hp
    have hcnt : (bestUpTo col d 130).2 = col.count (UInt8.ofNat k) := by rw [e1]; rfl
    have hmem : UInt8.ofNat k ∈ col := by apply List.count_pos_iff.mp; omega
    have hkn : (UInt8.ofNat k).toNat = k := by
      rw [UInt8.toNat_ofNat']; omega
    exact h _ hmem (by omega)
  · rw [c (by omega)]

/-- the value does not depend on the incoming default as soon as something can be counted -/
theorem majorityChar_indep (col : List Byte) (d d' : Byte) (h : ∃ c ∈ col, c.toNat < 130) :
    majorityChar col d = majorityChar col d' := by
  obtain ⟨m1, l1, a1, t1⟩ := majorityChar_spec col d h
  obtain ⟨m2, l2, a2, t2⟩ := majorityChar_spec col d' h
  have e : col.count (majorityChar col d) = col.count (majorityChar col d') := by
    have := a1 _ l2; have := a2 _ l1; omega
  have h1 := t1 _ l2 e.symm
  have h2 := t2 _ l1 e
  rw [UInt8.le_iff_toNat_le] at h1 h2
  exact UInt8.toNat_inj.mp (by omega)

end Gv.Proofs.Majority
