import Gv.Proofs.BagAbs
/-!
Rectangularity (C01): the cached length of an alignment equals the length of every row and is `-1`
when there is no row.  Preservation by the primitives and by every operation; the statement for a
whole operation is in `Gv.Props.C01` (`step_rect`, `run_rect`).
-/
namespace Gv.Proofs.BagAbs
open Gv Gv.Model Gv.Proofs.BagInv

/-- all rows have `T` residues -/
def AllLen (T : Nat) (rows : List Row) : Prop := ∀ r ∈ rows, r.seq.length = T

/-- a state whose rows all have the same number of residues is rectangular once the cached length is
refreshed from the first row (`fixLength`, and the end of `Concat`) -/
theorem rect_of_allLen {b : Bag} {T : Nat} (h : AllLen T b.rows)
    (hl : b.isAlign = true → b.length = match b.rows with | r :: _ => (r.seq.length : Int) | [] => -1) : Rect b := by
  constructor
  · intro ha r hr
    rw [hl ha]
    cases hrows : b.rows with
    | nil => simp [hrows] at hr
    | cons x t =>
      have h1 := h r hr
      have h2 := h x (by simp [hrows])
      simp; omega
  · intro ha he
    rw [hl ha, he]

/-- rectangularity only looks at the row lengths, emptiness, the cached length and the kind -/
theorem Rect.transfer {b b' : Bag} (h : Rect b) (ha : b'.isAlign = b.isAlign) (hl : b'.length = b.length)
    (hr : ∀ r' ∈ b'.rows, ∃ r ∈ b.rows, r'.seq.length = r.seq.length) (he : b'.rows = [] → b.rows = []) : Rect b' := by
  constructor
  · intro ha' r' hr'
    obtain ⟨r, hr0, e⟩ := hr r' hr'
    rw [hl, e]
    exact h.rows_len (ha ▸ ha') r hr0
  · intro ha' he'
    rw [hl]
    exact h.empty_len (ha ▸ ha') (he he')

theorem Rect.congr {b b' : Bag} (h : Rect b) (ha : b'.isAlign = b.isAlign) (hl : b'.length = b.length)
    (hr : b'.rows.map (·.seq.length) = b.rows.map (·.seq.length)) : Rect b' := by
  refine h.transfer ha hl ?_ ?_
  · intro r' hr'
    have : r'.seq.length ∈ b.rows.map (·.seq.length) := hr ▸ List.mem_map_of_mem (f := (·.seq.length)) hr'
    obtain ⟨r, hr0, e⟩ := List.mem_map.mp this
    exact ⟨r, hr0, e.symm⟩
  · intro he
    have := congrArg List.length hr
    simp [he] at this
    exact List.eq_nil_of_length_eq_zero this.symm

theorem Rect.perm {b b' : Bag} (h : Rect b) (ha : b'.isAlign = b.isAlign) (hl : b'.length = b.length)
    (hp : b'.rows.Perm b.rows) : Rect b' := by
  refine h.transfer ha hl ?_ ?_
  · intro r' hr'; exact ⟨r', hp.subset hr', rfl⟩
  · intro he; rw [he] at hp; exact hp.symm.eq_nil

/-! ### AddSequenceChar -/

/-- the pushing branch is only reached when the length test passed -/
theorem addSeqAs_cases' (f : Bool) (b : Bag) (n : String) (s : Seq) :
    (addSeqAs f b n s = (b, false)) ∨ (addSeqAs f b n s = (b, true)) ∨
    (addSeqAs f b n s = (pushed f b (freshName b.index n) s, false) ∧
      (f = true → b.length = -1 ∨ b.length = (s.length : Int))) := by
  unfold addSeqAs pushed
  simp only []
  split
  · exact Or.inl rfl
  · split
    · exact Or.inl rfl
    · split
      · exact Or.inr (Or.inl rfl)
      · rename_i hg
        refine Or.inr (Or.inr ⟨rfl, ?_⟩)
        intro hf
        simp [hf] at hg
        by_cases e : b.length = -1
        · exact Or.inl e
        · exact Or.inr (hg e)

theorem rect_pushed_true {b : Bag} (h : Rect b) (ha : b.isAlign = true) (nm : String) (s : Seq)
    (hl : b.length = -1 ∨ b.length = (s.length : Int)) : Rect (pushed true b nm s) := by
  constructor
  · intro _ r hr
    simp only [pushed, List.mem_append, List.mem_singleton] at hr ⊢
    rcases hr with hr | rfl
    · have h1 := h.rows_len ha r hr
      rcases hl with hl | hl
      · have := (h.length_eq_neg_one_iff ha).mp hl
        rw [this] at hr; cases hr
      · simp only [if_true]; omega
    · simp
  · intro _ he
    simp [pushed] at he

/-- `align.AddSequenceChar` keeps an alignment rectangular, whatever the outcome -/
theorem rect_addSeq {b : Bag} (h : Rect b) (n : String) (s : Seq) : Rect (addSeq b n s).1 := by
  unfold addSeq
  rcases addSeqAs_cases' b.isAlign b n s with e | e | ⟨e, hl⟩ <;> rw [e]
  · exact h
  · exact h
  · by_cases ha : b.isAlign = true
    · rw [ha]; exact rect_pushed_true h ha _ _ (hl ha)
    · exact Rect.of_not_align (by simpa [pushed] using ha)

theorem rect_addAllStop (l : List (String × Seq)) {b : Bag} (h : Rect b) : Rect (addAllStop b l).1 := by
  induction l generalizing b with
  | nil => exact h
  | cons p t ih =>
    obtain ⟨n, s⟩ := p
    simp only [addAllStop]
    split
    · exact rect_addSeq h n s
    · exact ih (rect_addSeq h n s)

theorem rect_addAllIgnore (l : List (String × Seq)) {b : Bag} (h : Rect b) : Rect (addAllIgnore b l) := by
  induction l generalizing b with
  | nil => exact h
  | cons p t ih =>
    obtain ⟨n, s⟩ := p
    exact ih (rect_addSeq h n s)

theorem rect_clear (b : Bag) : Rect (clear b) := by
  constructor
  · intro _ r hr; simp [clear] at hr
  · intro ha _; simp only [clear] at ha ⊢; simp [ha]

/-! ### `seqbag.AddSequenceChar` reached from inside a `seqbag` method: the cached length is neither
checked nor refreshed; the rows added are rows of the former content -/

/-- every row has `T` residues and the cached length of an alignment is `T` (no claim when empty) -/
def RowsLen (T : Int) (b : Bag) : Prop := b.isAlign = true → b.length = T ∧ ∀ r ∈ b.rows, (r.seq.length : Int) = T

theorem rowsLen_addSeqBase {T : Int} {b : Bag} (h : RowsLen T b) (n : String) (s : Seq)
    (hs : b.isAlign = true → (s.length : Int) = T) : RowsLen T (addSeqBase b n s).1 := by
  unfold addSeqBase
  rcases addSeqAs_cases false b n s with e | e | e <;> rw [e]
  · exact h
  · exact h
  · intro ha
    have ha' : b.isAlign = true := by simpa [pushed] using ha
    obtain ⟨h1, h2⟩ := h ha'
    refine ⟨by simpa [pushed] using h1, ?_⟩
    intro r hr
    simp only [pushed, List.mem_append, List.mem_singleton] at hr
    rcases hr with hr | rfl
    · exact h2 r hr
    · exact hs ha'

theorem isAlign_addSeqAs (f : Bool) (b : Bag) (n : String) (s : Seq) : (addSeqAs f b n s).1.isAlign = b.isAlign := by
  rcases addSeqAs_cases f b n s with e | e | e <;> rw [e] <;> rfl

theorem isAlign_addAllStop (l : List (String × Seq)) (b : Bag) : (addAllStop b l).1.isAlign = b.isAlign := by
  induction l generalizing b with
  | nil => rfl
  | cons p t ih =>
    obtain ⟨n, s⟩ := p
    simp only [addAllStop]
    split
    · exact isAlign_addSeqAs _ b n s
    · rw [ih]; exact isAlign_addSeqAs _ b n s

theorem rowsLen_addAllStopBase {T : Int} (l : List (String × Seq)) {b : Bag} (h : RowsLen T b)
    (hs : b.isAlign = true → ∀ p ∈ l, (p.2.length : Int) = T) : RowsLen T (addAllStopBase b l).1 := by
  induction l generalizing b with
  | nil => exact h
  | cons p t ih =>
    obtain ⟨n, s⟩ := p
    simp only [addAllStopBase]
    have h1 := rowsLen_addSeqBase h n s (fun ha => hs ha (n, s) (by simp))
    split
    · exact h1
    · exact ih h1 (fun ha p hp => hs (by rw [← ha]; exact (isAlign_addSeqAs false b n s).symm) p (List.mem_cons_of_mem _ hp))

theorem rowsLen_clearBase {b : Bag} (T : Int) (h : b.isAlign = true → b.length = T) : RowsLen T (clearBase b) := by
  intro ha
  exact ⟨h ha, by intro r hr; simp [clearBase] at hr⟩

/-- a non-empty state with `RowsLen` is rectangular -/
theorem rect_of_rowsLen {T : Int} {b : Bag} (h : RowsLen T b) (hne : b.isAlign = true → b.rows = [] → b.length = -1) : Rect b := by
  constructor
  · intro ha r hr
    obtain ⟨h1, h2⟩ := h ha
    rw [h1]; exact h2 r hr
  · exact hne

theorem rect_resetLengthIfEmpty {T : Int} {b : Bag} (h : RowsLen T b) : Rect (resetLengthIfEmpty b) := by
  unfold resetLengthIfEmpty
  split
  · rename_i hc
    simp only [Bool.and_eq_true, List.isEmpty_iff] at hc
    constructor
    · intro _ r hr; rw [hc.2] at hr; cases hr
    · intro _ _; rfl
  · rename_i hc
    apply rect_of_rowsLen h
    intro ha he
    exfalso; apply hc
    simp [ha, he]

theorem rect_filterLength (mn mx : Int) {b : Bag} (h : Rect b) : Rect (filterLength mn mx b).1 := by
  unfold filterLength
  simp only []
  apply rect_resetLengthIfEmpty (T := b.length)
  apply rowsLen_addAllStopBase _ (rowsLen_clearBase _ (fun _ => rfl))
  intro ha p hp
  obtain ⟨r, hr, rfl⟩ := List.mem_map.mp hp
  exact h.rows_len ha r (List.mem_filter.mp hr).1

/-! ### Deduplicate: the first row is always kept, so the result is empty only if the input was -/

theorem addSeqBase_clear_nonempty (b : Bag) (n : String) (s : Seq) (he : b.index = []) :
    (addSeqBase b n s).2 = false ∧ (addSeqBase b n s).1.rows ≠ [] := by
  unfold addSeqBase addSeqAs
  simp [he, idxLookup, freshName]

theorem rows_ne_nil_addSeqAs (f : Bool) (b : Bag) (n : String) (s : Seq) (h : b.rows ≠ []) :
    (addSeqAs f b n s).1.rows ≠ [] := by
  rcases addSeqAs_cases f b n s with e | e | e <;> rw [e]
  · exact h
  · exact h
  · simp [pushed]

theorem dedupLoop_rows_ne_nil (alpha : Nat) (g : Bool) (l : List Row) (b : Bag) (h : b.rows ≠ [])
    (seen : List (Seq × Nat)) (groups : List (List String)) :
    (dedupLoop alpha g l b seen groups).1.rows ≠ [] := by
  induction l generalizing b seen groups with
  | nil => exact h
  | cons r t ih =>
    simp only [dedupLoop]
    split
    · split
      · exact rows_ne_nil_addSeqAs _ b _ _ h
      · exact ih _ (rows_ne_nil_addSeqAs _ b _ _ h) _ _
    · exact ih _ h _ _

theorem rowsLen_dedupLoop {T : Int} (alpha : Nat) (g : Bool) (l : List Row) (b : Bag) (h : RowsLen T b)
    (hs : b.isAlign = true → ∀ r ∈ l, (r.seq.length : Int) = T)
    (seen : List (Seq × Nat)) (groups : List (List String)) :
    RowsLen T (dedupLoop alpha g l b seen groups).1 := by
  induction l generalizing b seen groups with
  | nil => exact h
  | cons r t ih =>
    simp only [dedupLoop]
    have h1 := rowsLen_addSeqBase h r.name r.seq (fun ha => hs ha r (by simp))
    have hs1 : (addSeqBase b r.name r.seq).1.isAlign = true → ∀ x ∈ t, (x.seq.length : Int) = T := by
      intro ha x hx
      exact hs (by rw [← ha]; exact (isAlign_addSeqAs false b _ _).symm) x (List.mem_cons_of_mem _ hx)
    split
    · split
      · exact h1
      · exact ih _ h1 hs1 _ _
    · exact ih _ h (fun ha x hx => hs ha x (List.mem_cons_of_mem _ hx)) _ _

theorem isAlign_dedupLoop (alpha : Nat) (g : Bool) (l : List Row) (b : Bag)
    (seen : List (Seq × Nat)) (groups : List (List String)) :
    (dedupLoop alpha g l b seen groups).1.isAlign = b.isAlign := by
  induction l generalizing b seen groups with
  | nil => rfl
  | cons r t ih =>
    simp only [dedupLoop]
    split
    · split
      · exact isAlign_addSeqAs _ b _ _
      · rw [ih]; exact isAlign_addSeqAs _ b _ _
    · exact ih _ _ _

theorem rect_deduplicate (g : Bool) {b : Bag} (h : Rect b) : Rect (deduplicate g b).1 := by
  unfold deduplicate
  have hrl : RowsLen b.length (dedupLoop b.alphabet g b.rows (clearBase b) [] []).1 :=
    rowsLen_dedupLoop _ _ _ _ (rowsLen_clearBase _ (fun _ => rfl)) (fun ha r hr => h.rows_len ha r hr) _ _
  apply rect_of_rowsLen hrl
  intro ha he
  have ha0 : b.isAlign = true := by
    rw [isAlign_dedupLoop] at ha; exact ha
  cases hrows : b.rows with
  | nil =>
    simp only [dedupLoop, clearBase]
    exact h.empty_len ha0 hrows
  | cons r t =>
    exfalso
    rw [hrows] at he
    simp only [dedupLoop, List.find?_nil] at he
    have := addSeqBase_clear_nonempty (clearBase b) r.name r.seq rfl
    rw [this.1] at he
    simp only [Bool.false_eq_true, if_false] at he
    exact dedupLoop_rows_ne_nil _ _ _ _ this.2 _ _ he

end Gv.Proofs.BagAbs
