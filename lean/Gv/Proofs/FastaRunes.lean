import Gv.Model.Fmt.FastaRunes
import Gv.Proofs.Utf8Header
import Gv.Proofs.FastaRT
/-!
The rune lexer of FASTA (`Model/Fmt/FastaRunes.lean`, mirroring `io/fasta/lexer.go` on `ReadRune` / `WriteRune`) IS the
byte lexer `Fasta.scan` / `Fasta.lex` run on `Utf8.norm` of the input:

  `scan_enc`  : `Fasta.scan (enc rs) = ((scanRunes rs).1.bytes, enc (scanRunes rs).2)`     for every list of runes
  `lex_enc`   : `Fasta.lex (enc rs) = (lexRunes (rs.length + 1) rs).map Tok.bytes`
  `lex_norm`  : `Fasta.lex (Utf8.norm bs) = (lexRunes … (Utf8.runes bs)).map Tok.bytes`     for every byte string

(`enc` = every rune written with `WriteRune`; `Utf8.norm bs = enc (Utf8.runes bs)` by definition.)  The proof uses only:
a rune < 0x80 is written as that one byte, a rune ≥ 0x80 as a non-empty run of bytes ≥ 0x80, and the classes of the lexer
(`\n`, `\r`, NUL, `>`) are ASCII.
-/
namespace Gv.Proofs.FastaRunes
open Gv Gv.Model Gv.Model.Fmt Gv.Model.Fmt.Utf8 Gv.Model.Fmt.FastaRunes Gv.Proofs.Utf8Norm
open Gv.Proofs.Utf8Header (encodeRune_ne_nil)

theorem encodeRune_small (r : Nat) (h : r < 128) : encodeRune r = [UInt8.ofNat r] := by
  simp [encodeRune, h]

theorem enc_cons (r : Nat) (t : List Nat) : enc (r :: t) = encodeRune r ++ enc t := by
  simp [enc]

theorem enc_nil : enc [] = [] := rfl

/-! ### the classes on bytes and on runes -/

set_option maxRecDepth 100000 in
theorem byte_hi : ∀ b : Byte, ¬ b < 0x80 →
    Fasta.isEOL b = false ∧ (b == 0) = false ∧ (b == Fasta.GT) = false ∧ Fasta.identChar b = true := by decide

theorem rune_small : ∀ r : Nat, r < 128 →
    Fasta.isEOL (UInt8.ofNat r) = isEOL r ∧ ((UInt8.ofNat r : Byte) == 0) = (r == 0) ∧
    ((UInt8.ofNat r : Byte) == Fasta.GT) = (r == 62) ∧ Fasta.identChar (UInt8.ofNat r) = identRune r := by decide

theorem rune_hi (r : Nat) (h : 128 ≤ r) : isEOL r = false ∧ (r == 0) = false ∧ (r == 62) = false ∧ identRune r = true := by
  have e10 : r ≠ 10 := by omega
  have e13 : r ≠ 13 := by omega
  have e0 : r ≠ 0 := by omega
  have e62 : r ≠ 62 := by omega
  simp [isEOL, identRune, e10, e13, e0, e62]

/-! ### runs -/

theorem takeWhile_append_all {α} (p : α → Bool) (E X : List α) (h : ∀ b ∈ E, p b = true) :
    (E ++ X).takeWhile p = E ++ X.takeWhile p ∧ (E ++ X).dropWhile p = X.dropWhile p := by
  induction E with
  | nil => simp
  | cons a t ih =>
    have ha : p a = true := h a (by simp)
    have ht := ih (fun b hb => h b (by simp [hb]))
    simp [ha, ht.1, ht.2]

/-- a class that holds every byte ≥ 0x80 and every rune ≥ 0x80 (identifier runes) -/
theorem run_true (p : Byte → Bool) (q : Nat → Bool) (h1 : ∀ r, r < 128 → p (UInt8.ofNat r) = q r)
    (h2 : ∀ r, 128 ≤ r → q r = true) (h3 : ∀ b : Byte, ¬ b < 0x80 → p b = true) :
    ∀ rs : List Nat, (enc rs).takeWhile p = enc (rs.takeWhile q) ∧ (enc rs).dropWhile p = enc (rs.dropWhile q)
  | [] => by simp [enc]
  | r :: t => by
    have ih := run_true p q h1 h2 h3 t
    rw [enc_cons]
    by_cases hr : r < 128
    · rw [encodeRune_small r hr]
      cases hq : q r with
      | true =>
        have hp : p (UInt8.ofNat r) = true := by rw [h1 r hr, hq]
        simp only [List.singleton_append, List.takeWhile_cons, List.dropWhile_cons, hp, hq, if_true, enc_cons,
          encodeRune_small r hr, ih.1, ih.2, and_self]
      | false =>
        have hp : p (UInt8.ofNat r) = false := by rw [h1 r hr, hq]
        simp only [List.singleton_append, List.takeWhile_cons, List.dropWhile_cons, hp, hq, Bool.false_eq_true, if_false,
          enc_nil, enc_cons, encodeRune_small r hr, and_self]
    · have hr' : 128 ≤ r := Nat.le_of_not_lt hr
      have hq := h2 r hr'
      have hall : ∀ b ∈ encodeRune r, p b = true := fun b hb => h3 b (encodeRune_big r hr' b hb)
      obtain ⟨a1, a2⟩ := takeWhile_append_all p (encodeRune r) (enc t) hall
      simp only [a1, a2, List.takeWhile_cons, List.dropWhile_cons, hq, if_true, enc_cons, ih.1, ih.2, and_self]

/-- a class that holds no byte ≥ 0x80 and no rune ≥ 0x80 (end-of-line runes) -/
theorem run_false (p : Byte → Bool) (q : Nat → Bool) (h1 : ∀ r, r < 128 → p (UInt8.ofNat r) = q r)
    (h2 : ∀ r, 128 ≤ r → q r = false) (h3 : ∀ b : Byte, ¬ b < 0x80 → p b = false) :
    ∀ rs : List Nat, (enc rs).dropWhile p = enc (rs.dropWhile q)
  | [] => by simp [enc]
  | r :: t => by
    have ih := run_false p q h1 h2 h3 t
    rw [enc_cons]
    by_cases hr : r < 128
    · rw [encodeRune_small r hr]
      cases hq : q r with
      | true =>
        have hp : p (UInt8.ofNat r) = true := by rw [h1 r hr, hq]
        simp only [List.singleton_append, List.dropWhile_cons, hp, hq, if_true, ih]
      | false =>
        have hp : p (UInt8.ofNat r) = false := by rw [h1 r hr, hq]
        simp only [List.singleton_append, List.dropWhile_cons, hp, hq, Bool.false_eq_true, if_false, enc_cons,
          encodeRune_small r hr]
    · have hr' : 128 ≤ r := Nat.le_of_not_lt hr
      have hq := h2 r hr'
      cases hE : encodeRune r with
      | nil => exact absurd hE (encodeRune_ne_nil r)
      | cons e es =>
        have he : p e = false := h3 e (encodeRune_big r hr' e (by rw [hE]; simp))
        simp only [List.cons_append, List.dropWhile_cons, he, hq, Bool.false_eq_true, if_false, enc_cons, hE]

theorem afterRun_enc : ∀ rs : List Nat, Fasta.afterRun (enc rs) = enc (afterRun rs)
  | [] => rfl
  | r :: t => by
    rw [enc_cons]
    by_cases hr : r < 128
    · rw [encodeRune_small r hr]
      have h0 := (rune_small r hr).2.1
      cases hz : (r == 0) with
      | true => simp only [List.singleton_append, Fasta.afterRun, afterRun, h0, hz, if_true]
      | false =>
        simp only [List.singleton_append, Fasta.afterRun, afterRun, h0, hz, Bool.false_eq_true, if_false, enc_cons,
          encodeRune_small r hr]
    · have hr' : 128 ≤ r := Nat.le_of_not_lt hr
      cases hE : encodeRune r with
      | nil => exact absurd hE (encodeRune_ne_nil r)
      | cons e es =>
        have he := (byte_hi e (encodeRune_big r hr' e (by rw [hE]; simp))).2.1
        simp only [List.cons_append, Fasta.afterRun, afterRun, he, (rune_hi r hr').2.1, Bool.false_eq_true, if_false,
          enc_cons, hE]

/-! ### one `Scan` -/

/-- **one `Scan` of the rune lexer = one `scan` of the byte lexer on the written runes**, every list of runes -/
theorem scan_enc : ∀ rs : List Nat, Fasta.scan (enc rs) = ((scanRunes rs).1.bytes, enc (scanRunes rs).2)
  | [] => rfl
  | r :: t => by
    have hE := run_false Fasta.isEOL isEOL (fun r h => (rune_small r h).1) (fun r h => (rune_hi r h).1)
      (fun b h => (byte_hi b h).1) t
    have hI := run_true Fasta.identChar identRune (fun r h => (rune_small r h).2.2.2) (fun r h => (rune_hi r h).2.2.2)
      (fun b h => (byte_hi b h).2.2.2) t
    rw [enc_cons]
    by_cases hr : r < 128
    · obtain ⟨s1, s2, s3, _⟩ := rune_small r hr
      rw [encodeRune_small r hr]
      simp only [List.singleton_append, Fasta.scan, scanRunes, s1, s2, s3]
      cases isEOL r with
      | true => simp only [if_true, Tok.bytes, hE, afterRun_enc]
      | false =>
        cases (r == 0) with
        | true => simp only [Bool.false_eq_true, if_false, if_true, Tok.bytes]
        | false =>
          cases (r == 62) with
          | true => simp only [Bool.false_eq_true, if_false, if_true, Tok.bytes]
          | false =>
            simp only [Bool.false_eq_true, if_false, Tok.bytes, hI.1, hI.2, afterRun_enc, enc_cons, encodeRune_small r hr,
              List.singleton_append]
    · have hr' : 128 ≤ r := Nat.le_of_not_lt hr
      obtain ⟨q1, q2, q3, _⟩ := rune_hi r hr'
      cases hEn : encodeRune r with
      | nil => exact absurd hEn (encodeRune_ne_nil r)
      | cons e es =>
        have hbig : ∀ b ∈ e :: es, ¬ b < 0x80 := by rw [← hEn]; exact encodeRune_big r hr'
        obtain ⟨b1, b2, b3, _⟩ := byte_hi e (hbig e (by simp))
        have hall : ∀ b ∈ es, Fasta.identChar b = true := fun b hb => (byte_hi b (hbig b (by simp [hb]))).2.2.2
        obtain ⟨a1, a2⟩ := takeWhile_append_all Fasta.identChar es (enc t) hall
        simp only [List.cons_append, Fasta.scan, scanRunes, b1, b2, b3, q1, q2, q3, Bool.false_eq_true, if_false, Tok.bytes,
          a1, a2, hI.1, hI.2, afterRun_enc, enc_cons, hEn]

/-! ### the token list -/

theorem afterRun_le (l : List Nat) : (afterRun l).length ≤ l.length := by
  unfold afterRun; split
  · split <;> simp
  · simp

theorem scanRunes_shorter (c : Nat) (cs : List Nat) : (scanRunes (c :: cs)).2.length ≤ cs.length := by
  have h1 := Fasta.length_dropWhile_le isEOL cs
  have h2 := Fasta.length_dropWhile_le identRune cs
  have h3 := afterRun_le (cs.dropWhile identRune)
  have h4 := afterRun_le (cs.dropWhile isEOL)
  simp only [scanRunes]
  split
  · simp only []; omega
  · split
    · simp only []; omega
    · split <;> simp only [] <;> omega

theorem lex_enc_aux : ∀ (fuel : Nat) (rs : List Nat), rs.length < fuel →
    Fasta.lex (enc rs) = (lexRunes fuel rs).map Tok.bytes
  | 0, _, h => by omega
  | fuel + 1, [], _ => by
    simp only [enc_nil, lexRunes, scanRunes, List.map_cons, List.map_nil, Tok.bytes]
    rw [Fasta.lex]
  | fuel + 1, r :: t, h => by
    have hs := scan_enc (r :: t)
    have hlen := scanRunes_shorter r t
    have ih := lex_enc_aux fuel (scanRunes (r :: t)).2 (by simp only [List.length_cons] at h; omega)
    cases hE : enc (r :: t) with
    | nil =>
      rw [enc_cons] at hE
      exact absurd (List.append_eq_nil_iff.mp hE).1 (encodeRune_ne_nil r)
    | cons c cs =>
      rw [hE] at hs
      rw [Gv.Proofs.FastaRT.lex_cons, hs]
      simp only [lexRunes]
      rcases hsc : scanRunes (r :: t) with ⟨tk, rest⟩
      rw [hsc] at ih
      cases tk with
      | eof => simp [Tok.bytes]
      | start => simp [Tok.bytes, ih]
      | eol => simp [Tok.bytes, ih]
      | ident l => simp [Tok.bytes, ih]

/-- the token list of the byte lexer on the written runes = the token list of the rune lexer, every list of runes -/
theorem lex_enc (rs : List Nat) : Fasta.lex (enc rs) = (lexRunes (rs.length + 1) rs).map Tok.bytes :=
  lex_enc_aux (rs.length + 1) rs (Nat.lt_succ_self _)

/-- **the rune lexer on the raw input = the byte lexer on `Utf8.norm` of the input**, ALL byte strings -/
theorem lex_norm (bs : List Byte) :
    Fasta.lex (Utf8.norm bs) = (lexRunes ((Utf8.runes bs).length + 1) (Utf8.runes bs)).map Tok.bytes :=
  lex_enc (Utf8.runes bs)

end Gv.Proofs.FastaRunes
