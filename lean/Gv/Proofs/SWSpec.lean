import Gv.Spec.SW
/-!
Helper development for C09: the reference computations of `Gv.Spec.SW` mean what they should.

* `enumAnchored` enumerates exactly the anchored column lists (`mem_enumAnchored`);
* `bruteFrom` is an upper bound on, and is attained by, the score of anchored column lists
  (`brute_upper`, `brute_attained`);
* the Gotoh rows are the table of `bruteFrom` over all pairs of suffixes (`gotohRows_eq`).
-/
namespace Gv.Spec.SW
open Gv

/-! ### small facts -/

theorem le_maxList {x : Int} {l : List Int} (h : x ∈ l) : x ≤ maxList l := by
  unfold maxList
  suffices ∀ (l : List Int) (a : Int), (x ≤ a ∨ x ∈ l) → x ≤ l.foldl max a from this l 0 (Or.inr h)
  intro l
  induction l with
  | nil => intro a h; rcases h with h | h; exact h; simp at h
  | cons y t ih =>
    intro a h
    simp only [List.foldl_cons]
    apply ih
    rcases h with h | h
    · left; exact Int.le_trans h (Int.le_max_left _ _)
    · rcases List.mem_cons.mp h with e | h
      · left; subst e; exact Int.le_max_right _ _
      · right; exact h

theorem maxList_mem (l : List Int) : maxList l = 0 ∨ maxList l ∈ l := by
  unfold maxList
  suffices ∀ (l : List Int) (a : Int), l.foldl max a = a ∨ l.foldl max a ∈ l from this l 0
  intro l
  induction l with
  | nil => intro a; left; rfl
  | cons y t ih =>
    intro a
    simp only [List.foldl_cons]
    rcases ih (max a y) with h | h
    · rw [h]
      rcases Int.le_total a y with hay | hya
      · right; rw [Int.max_eq_right hay]; simp
      · left; exact Int.max_eq_left hya
    · right; exact List.mem_cons_of_mem _ h

theorem maxList_nonneg (l : List Int) : 0 ≤ maxList l := by
  unfold maxList
  suffices ∀ (l : List Int) (a : Int), a ≤ l.foldl max a from this l 0
  intro l
  induction l with
  | nil => intro a; exact Int.le_refl _
  | cons y t ih => intro a; exact Int.le_trans (Int.le_max_left a y) (ih _)

theorem suffixes_cons_self {α} (l : List α) : ∃ r, suffixes l = l :: r := by
  cases l with
  | nil => exact ⟨[], rfl⟩
  | cons a t => exact ⟨suffixes t, rfl⟩

theorem drop_mem_suffixes {α} (l : List α) (p : Nat) : l.drop p ∈ suffixes l := by
  induction l generalizing p with
  | nil => simp [suffixes]
  | cons a t ih =>
    cases p with
    | zero => simp [suffixes]
    | succ p => simp only [List.drop_succ_cons, suffixes]; exact List.mem_cons_of_mem _ (ih p)

theorem mem_suffixes {α} {l s : List α} (h : s ∈ suffixes l) : ∃ p, p ≤ l.length ∧ s = l.drop p := by
  induction l with
  | nil => simp [suffixes] at h; exact ⟨0, Nat.le_refl _, by simp [h]⟩
  | cons a t ih =>
    simp only [suffixes, List.mem_cons] at h
    rcases h with h | h
    · exact ⟨0, Nat.zero_le _, by simp [h]⟩
    · obtain ⟨p, hp, e⟩ := ih h
      exact ⟨p + 1, by simp; omega, by simp [e]⟩

/-! ### the enumeration is exact -/

theorem nil_mem_enumAnchored (s t : Seq) : [] ∈ enumAnchored s t := by
  cases s with
  | nil => cases t <;> simp [enumAnchored, enum0]
  | cons a s => cases t <;> simp [enumAnchored, enumInner]

theorem anchored_nil (s t : Seq) : Anchored s t [] := by
  simp [Anchored, proj1, proj2]

theorem mem_map_cons_iff {α} (c d : α) (rest : List α) (l : List (List α)) :
    (c :: rest) ∈ l.map (d :: ·) ↔ c = d ∧ rest ∈ l := by
  simp only [List.mem_map, List.cons.injEq]
  constructor
  · rintro ⟨x, hx, rfl, rfl⟩; exact ⟨rfl, hx⟩
  · rintro ⟨rfl, h⟩; exact ⟨rest, h, rfl, rfl⟩

theorem enumAnchored_nil_nil : enumAnchored [] [] = [[]] := rfl
theorem enumAnchored_nil_cons (b : Byte) (t : Seq) :
    enumAnchored [] (b :: t) = [] :: (enumAnchored [] t).map (Col.gap1 b :: ·) := rfl
theorem enumAnchored_cons_nil (a : Byte) (s : Seq) :
    enumAnchored (a :: s) [] = [] :: (enumAnchored s []).map (Col.gap2 a :: ·) := rfl
theorem enumAnchored_cons_cons (a b : Byte) (s t : Seq) :
    enumAnchored (a :: s) (b :: t) =
      [] :: ((enumAnchored s t).map (Col.pair a b :: ·) ++ (enumAnchored s (b :: t)).map (Col.gap2 a :: ·)
             ++ (enumAnchored (a :: s) t).map (Col.gap1 b :: ·)) := rfl

/-- completeness and soundness of the brute-force enumeration -/
theorem mem_enumAnchored (cols : List Col) : ∀ (s t : Seq), cols ∈ enumAnchored s t ↔ Anchored s t cols := by
  induction cols with
  | nil => intro s t; exact ⟨fun _ => anchored_nil s t, fun _ => nil_mem_enumAnchored s t⟩
  | cons c rest ih =>
    intro s t
    have ih' : ∀ s t, rest ∈ enumAnchored s t ↔ (proj1 rest <+: s ∧ proj2 rest <+: t) := ih
    cases s with
    | nil =>
      cases t with
      | nil => rw [enumAnchored_nil_nil]; cases c <;> simp [Anchored, proj1, proj2]
      | cons b' t' =>
        rw [enumAnchored_nil_cons]
        cases c <;>
          simp [mem_map_cons_iff, Anchored, proj1, proj2, List.cons_prefix_cons, ih', and_left_comm]
    | cons a' s' =>
      cases t with
      | nil =>
        rw [enumAnchored_cons_nil]
        cases c <;>
          simp [mem_map_cons_iff, Anchored, proj1, proj2, List.cons_prefix_cons, ih', and_assoc]
      | cons b' t' =>
        rw [enumAnchored_cons_cons]
        cases c <;>
          simp [mem_map_cons_iff, Anchored, proj1, proj2, List.cons_prefix_cons, ih', and_assoc, and_left_comm]

/-! ### the recursive search bounds, and is attained by, anchored column lists -/

variable (S : Scheme)

theorem bruteFrom_nil_nil (prev : St) : bruteFrom S [] [] prev = 0 := rfl
theorem bruteFrom_nil_cons (b : Byte) (t : Seq) (prev : St) :
    bruteFrom S [] (b :: t) prev = max 0 (gapCost S prev .y + bruteFrom S [] t .y) := rfl
theorem bruteFrom_cons_nil (a : Byte) (s : Seq) (prev : St) :
    bruteFrom S (a :: s) [] prev = max 0 (gapCost S prev .x + bruteFrom S s [] .x) := rfl
theorem bruteFrom_cons_cons (a b : Byte) (s t : Seq) (prev : St) :
    bruteFrom S (a :: s) (b :: t) prev =
      max 0 (max3 (S.sub a b + bruteFrom S s t .m)
                  (gapCost S prev .x + bruteFrom S s (b :: t) .x)
                  (gapCost S prev .y + bruteFrom S (a :: s) t .y)) := rfl

theorem bruteFrom_nonneg (s t : Seq) (prev : St) : 0 ≤ bruteFrom S s t prev := by
  cases s <;> cases t
  · exact Int.le_refl _
  · rw [bruteFrom_nil_cons]; exact Int.le_max_left _ _
  · rw [bruteFrom_cons_nil]; exact Int.le_max_left _ _
  · rw [bruteFrom_cons_cons]; exact Int.le_max_left _ _

theorem brute_upper (cols : List Col) : ∀ (s t : Seq) (prev : St), Anchored s t cols →
    scoreFrom S prev cols ≤ bruteFrom S s t prev := by
  induction cols with
  | nil => intro s t prev _; exact bruteFrom_nonneg S s t prev
  | cons c rest ih =>
    intro s t prev h
    cases c with
    | pair a b =>
      cases s with
      | nil => simp [Anchored, proj1] at h
      | cons a' s' =>
        cases t with
        | nil => simp [Anchored, proj2] at h
        | cons b' t' =>
          simp only [Anchored, proj1, proj2, List.cons_prefix_cons] at h
          obtain ⟨⟨rfl, h1⟩, rfl, h2⟩ := h
          have := ih s' t' .m ⟨h1, h2⟩
          rw [bruteFrom_cons_cons]
          simp only [scoreFrom, colScore, Col.kind, max3]
          omega
    | gap2 a =>
      cases s with
      | nil => simp [Anchored, proj1] at h
      | cons a' s' =>
        simp only [Anchored, proj1, proj2, List.cons_prefix_cons] at h
        obtain ⟨⟨rfl, h1⟩, h2⟩ := h
        have := ih s' t .x ⟨h1, h2⟩
        cases t with
        | nil =>
          rw [bruteFrom_cons_nil]
          simp only [scoreFrom, colScore, Col.kind]
          omega
        | cons b' t' =>
          rw [bruteFrom_cons_cons]
          simp only [scoreFrom, colScore, Col.kind, max3]
          omega
    | gap1 b =>
      cases t with
      | nil => simp [Anchored, proj2] at h
      | cons b' t' =>
        simp only [Anchored, proj1, proj2, List.cons_prefix_cons] at h
        obtain ⟨h1, rfl, h2⟩ := h
        have := ih s t' .y ⟨h1, h2⟩
        cases s with
        | nil =>
          rw [bruteFrom_nil_cons]
          simp only [scoreFrom, colScore, Col.kind]
          omega
        | cons a' s' =>
          rw [bruteFrom_cons_cons]
          simp only [scoreFrom, colScore, Col.kind, max3]
          omega

theorem brute_attained : ∀ (s t : Seq) (prev : St),
    ∃ cols, Anchored s t cols ∧ scoreFrom S prev cols = bruteFrom S s t prev := by
  intro s
  induction s with
  | nil =>
    intro t
    induction t with
    | nil => intro prev; exact ⟨[], anchored_nil _ _, rfl⟩
    | cons b t iht =>
      intro prev
      obtain ⟨cy, hy, ey⟩ := iht .y
      rw [bruteFrom_nil_cons]
      by_cases hc : gapCost S prev .y + bruteFrom S [] t .y ≤ 0
      · exact ⟨[], anchored_nil _ _, by simp only [scoreFrom]; omega⟩
      · refine ⟨Col.gap1 b :: cy, ?_, ?_⟩
        · simp_all [Anchored, proj1, proj2, List.cons_prefix_cons]
        · simp only [scoreFrom, colScore, Col.kind, ey]; omega
  | cons a s ihs =>
    intro t
    induction t with
    | nil =>
      intro prev
      obtain ⟨cx, hx, ex⟩ := ihs [] .x
      rw [bruteFrom_cons_nil]
      by_cases hc : gapCost S prev .x + bruteFrom S s [] .x ≤ 0
      · exact ⟨[], anchored_nil _ _, by simp only [scoreFrom]; omega⟩
      · refine ⟨Col.gap2 a :: cx, ?_, ?_⟩
        · simp_all [Anchored, proj1, proj2, List.cons_prefix_cons]
        · simp only [scoreFrom, colScore, Col.kind, ex]; omega
    | cons b t iht =>
      intro prev
      obtain ⟨cm, hm, em⟩ := ihs t .m
      obtain ⟨cx, hx, ex⟩ := ihs (b :: t) .x
      obtain ⟨cy, hy, ey⟩ := iht .y
      rw [bruteFrom_cons_cons]
      generalize hA : S.sub a b + bruteFrom S s t .m = A at *
      generalize hB : gapCost S prev .x + bruteFrom S s (b :: t) .x = B at *
      generalize hC : gapCost S prev .y + bruteFrom S (a :: s) t .y = C at *
      have hsel : max 0 (max3 A B C) = 0 ∨ max 0 (max3 A B C) = A ∨ max 0 (max3 A B C) = B ∨
          max 0 (max3 A B C) = C := by
        simp only [max3]; omega
      rcases hsel with h | h | h | h
      · exact ⟨[], anchored_nil _ _, by simp only [scoreFrom]; omega⟩
      · refine ⟨Col.pair a b :: cm, ?_, ?_⟩
        · simp_all [Anchored, proj1, proj2, List.cons_prefix_cons]
        · simp only [scoreFrom, colScore, Col.kind, em]; omega
      · refine ⟨Col.gap2 a :: cx, ?_, ?_⟩
        · simp_all [Anchored, proj1, proj2, List.cons_prefix_cons]
        · simp only [scoreFrom, colScore, Col.kind, ex]; omega
      · refine ⟨Col.gap1 b :: cy, ?_, ?_⟩
        · simp_all [Anchored, proj1, proj2, List.cons_prefix_cons]
        · simp only [scoreFrom, colScore, Col.kind, ey]; omega

/-! ### the Gotoh rows are the table of `bruteFrom` over all pairs of suffixes -/

theorem suffixes_headD {α} (l d : List α) : (suffixes l).headD d = l := by
  cases l <;> rfl

theorem gotohRow0_eq (t : Seq) :
    gotohRow0 S t = (suffixes t).map fun t' => Trip.ofFn (bruteFrom S [] t') := by
  induction t with
  | nil => rfl
  | cons b t ih =>
    simp only [gotohRow0, suffixes, List.map_cons]
    rw [ih]
    congr 1
    obtain ⟨r, hr⟩ := suffixes_cons_self t
    simp only [hr, List.map_cons, List.headD_cons, Trip.ofFn, bruteFrom_nil_cons]

theorem gotohRow_eq (a : Byte) (s : Seq) (t : Seq) :
    gotohRow S a t ((suffixes t).map fun t' => Trip.ofFn (bruteFrom S s t')) =
      (suffixes t).map fun t' => Trip.ofFn (bruteFrom S (a :: s) t') := by
  induction t with
  | nil =>
    simp only [gotohRow, suffixes, List.map_cons, List.map_nil, List.headD_cons, Trip.ofFn, bruteFrom_cons_nil]
  | cons b t ih =>
    simp only [gotohRow, suffixes, List.map_cons, List.drop_succ_cons, List.drop_zero, List.headD_cons]
    rw [ih]
    congr 1
    obtain ⟨r, hr⟩ := suffixes_cons_self t
    simp only [hr, List.map_cons, List.headD_cons, Trip.ofFn, bruteFrom_cons_cons]

theorem gotohRows_eq (s t : Seq) :
    gotohRows S s t = (suffixes s).map fun s' => (suffixes t).map fun t' => Trip.ofFn (bruteFrom S s' t') := by
  induction s with
  | nil => simp only [gotohRows, suffixes, List.map_cons, List.map_nil, gotohRow0_eq]
  | cons a s ih =>
    simp only [gotohRows, suffixes, List.map_cons]
    rw [ih]
    congr 1
    obtain ⟨r, hr⟩ := suffixes_cons_self s
    simp only [hr, List.map_cons, List.headD_cons]
    exact gotohRow_eq S a s t

/-- the Gotoh optimum is the best `bruteFrom` value over all pairs of suffixes -/
theorem gotohBest_eq (s1 s2 : Seq) :
    gotohBest S s1 s2 =
      maxList ((suffixes s1).flatMap fun s => (suffixes s2).map fun t => bruteFrom S s t .m) := by
  simp only [gotohBest, gotohRows_eq, List.flatMap_map, List.map_map]
  rfl

theorem gotoh_upper {s1 s2 : Seq} {p1 p2 : Nat} {cols : List Col} (h : IsLocal s1 s2 p1 p2 cols) :
    score S cols ≤ gotohBest S s1 s2 := by
  rw [gotohBest_eq]
  refine Int.le_trans (brute_upper S cols _ _ .m h.2.2) (le_maxList ?_)
  simp only [List.mem_flatMap, List.mem_map]
  exact ⟨s1.drop p1, drop_mem_suffixes s1 p1, s2.drop p2, drop_mem_suffixes s2 p2, rfl⟩

theorem gotoh_attained (s1 s2 : Seq) :
    ∃ p1 p2 cols, IsLocal s1 s2 p1 p2 cols ∧ score S cols = gotohBest S s1 s2 := by
  rw [gotohBest_eq]
  rcases maxList_mem ((suffixes s1).flatMap fun s => (suffixes s2).map fun t => bruteFrom S s t .m) with h | h
  · exact ⟨0, 0, [], ⟨Nat.zero_le _, Nat.zero_le _, anchored_nil _ _⟩, by rw [h]; rfl⟩
  · simp only [List.mem_flatMap, List.mem_map] at h
    obtain ⟨s, hs, t, ht, e⟩ := h
    obtain ⟨p1, hp1, rfl⟩ := mem_suffixes hs
    obtain ⟨p2, hp2, rfl⟩ := mem_suffixes ht
    obtain ⟨cols, hc, ec⟩ := brute_attained S (s1.drop p1) (s2.drop p2) .m
    exact ⟨p1, p2, cols, ⟨hp1, hp2, hc⟩, by rw [← e]; exact ec⟩

/-! ### the same two facts for the enumeration -/

theorem enum_upper {s1 s2 : Seq} {p1 p2 : Nat} {cols : List Col} (h : IsLocal s1 s2 p1 p2 cols) :
    score S cols ≤ enumBest S s1 s2 := by
  refine le_maxList ?_
  simp only [List.mem_flatMap, List.mem_map]
  exact ⟨s1.drop p1, drop_mem_suffixes s1 p1, s2.drop p2, drop_mem_suffixes s2 p2, cols,
    (mem_enumAnchored cols _ _).mpr h.2.2, rfl⟩

theorem enum_attained (s1 s2 : Seq) :
    ∃ p1 p2 cols, IsLocal s1 s2 p1 p2 cols ∧ score S cols = enumBest S s1 s2 := by
  rcases maxList_mem ((suffixes s1).flatMap fun s => (suffixes s2).flatMap fun t =>
    (enumAnchored s t).map (score S)) with h | h
  · exact ⟨0, 0, [], ⟨Nat.zero_le _, Nat.zero_le _, anchored_nil _ _⟩, by unfold enumBest; rw [h]; rfl⟩
  · simp only [List.mem_flatMap, List.mem_map] at h
    obtain ⟨s, hs, t, ht, cols, hc, e⟩ := h
    obtain ⟨p1, hp1, rfl⟩ := mem_suffixes hs
    obtain ⟨p2, hp2, rfl⟩ := mem_suffixes ht
    exact ⟨p1, p2, cols, ⟨hp1, hp2, (mem_enumAnchored cols _ _).mp hc⟩, by unfold enumBest; rw [← e]⟩

/-! ### reversal: the affine score and the anchoring are symmetric -/

omit S in
theorem proj1_append (l1 l2 : List Col) : proj1 (l1 ++ l2) = proj1 l1 ++ proj1 l2 := by
  induction l1 with
  | nil => rfl
  | cons c t ih => cases c <;> simp [proj1, ih]

omit S in
theorem proj2_append (l1 l2 : List Col) : proj2 (l1 ++ l2) = proj2 l1 ++ proj2 l2 := by
  induction l1 with
  | nil => rfl
  | cons c t ih => cases c <;> simp [proj2, ih]

omit S in
theorem proj1_reverse (l : List Col) : proj1 l.reverse = (proj1 l).reverse := by
  induction l with
  | nil => rfl
  | cons c t ih => cases c <;> simp [proj1, proj1_append, ih]

omit S in
theorem proj2_reverse (l : List Col) : proj2 l.reverse = (proj2 l).reverse := by
  induction l with
  | nil => rfl
  | cons c t ih => cases c <;> simp [proj2, proj2_append, ih]

/-- kind of the last column, `prev` when there is none -/
def lastKind (prev : St) : List Col → St
  | [] => prev
  | c :: t => lastKind c.kind t

omit S in
theorem lastKind_append_singleton (prev : St) (l : List Col) (c : Col) : lastKind prev (l ++ [c]) = c.kind := by
  induction l generalizing prev with
  | nil => rfl
  | cons d t ih => simp [lastKind, ih]

theorem scoreFrom_append_singleton (prev : St) (l : List Col) (c : Col) :
    scoreFrom S prev (l ++ [c]) = scoreFrom S prev l + colScore S (lastKind prev l) c := by
  induction l generalizing prev with
  | nil => simp [scoreFrom, lastKind]
  | cons d t ih => simp only [List.cons_append, scoreFrom, lastKind, ih]; omega

/-- kind of the first column, `m` when there is none -/
def firstKind : List Col → St
  | [] => .m
  | c :: _ => c.kind

omit S in
theorem lastKind_reverse (l : List Col) : lastKind .m l.reverse = firstKind l := by
  cases l with
  | nil => rfl
  | cons c t => simp [List.reverse_cons, lastKind_append_singleton, firstKind]

/-- entering a column list from state `k` instead of `m` only changes the price of its first column -/
theorem scoreFrom_eq_score (k : St) (l : List Col) :
    scoreFrom S k l = score S l +
      (match l with | [] => 0 | d :: _ => colScore S k d - colScore S .m d) := by
  cases l with
  | nil => simp [score, scoreFrom]
  | cons d t => simp only [score, scoreFrom]; omega

/-- the affine-gap score does not depend on the reading direction -/
theorem score_reverse (l : List Col) : score S l.reverse = score S l := by
  induction l with
  | nil => rfl
  | cons c t ih =>
    rw [List.reverse_cons]
    show scoreFrom S .m (t.reverse ++ [c]) = _
    rw [scoreFrom_append_singleton, lastKind_reverse]
    show score S t.reverse + _ = _
    rw [ih]
    show _ = colScore S .m c + scoreFrom S c.kind t
    rw [scoreFrom_eq_score S c.kind t]
    cases t with
    | nil => simp [firstKind]; omega
    | cons d t' =>
      simp only [firstKind]
      cases c <;> cases d <;> simp [colScore, Col.kind, gapCost] <;> omega

omit S in
/-- a suffix of a prefix of `s` is a prefix of a suffix of `s` -/
theorem suffix_of_take {α} {l s : List α} {e : Nat} (h : l <:+ s.take e) :
    ∃ p, p ≤ s.length ∧ l <+: s.drop p := by
  obtain ⟨k, hk⟩ := h
  refine ⟨k.length, ?_, ?_⟩
  · have := congrArg List.length hk
    simp only [List.length_append, List.length_take] at this
    omega
  · have hs : s = k ++ l ++ s.drop e := by rw [hk]; exact (List.take_append_drop e s).symm
    refine ⟨s.drop e, ?_⟩
    conv => rhs; rw [hs]
    simp [List.append_assoc]

omit S in
/-- a prefix of a suffix of `s` is a suffix of a prefix of `s` -/
theorem prefix_of_drop {α} {l s : List α} {p : Nat} (hp : p ≤ s.length) (h : l <+: s.drop p) :
    l <:+ s.take (p + l.length) := by
  obtain ⟨r, hr⟩ := h
  refine ⟨s.take p, ?_⟩
  have hs : s.take p ++ (l ++ r) = s := by rw [hr]; exact List.take_append_drop p s
  generalize hk : s.take p = k at hs ⊢
  have hkl : k.length = p := by rw [← hk]; simp [List.length_take]; omega
  subst hs
  rw [← hkl, List.take_length_add_append, List.take_left]

omit S in
/-- a column list anchored at the reversed prefixes `(s1.take e1).reverse`, `(s2.take e2).reverse`
is, read backwards, a local alignment of `s1`, `s2` -/
theorem local_of_anchored_reverse {s1 s2 : Seq} {e1 e2 : Nat} {cols : List Col}
    (h : Anchored (s1.take e1).reverse (s2.take e2).reverse cols) :
    ∃ p1 p2, IsLocal s1 s2 p1 p2 cols.reverse := by
  have a1 : (proj1 cols.reverse) <:+ s1.take e1 := by
    rw [proj1_reverse]; exact List.reverse_prefix.mp (by simpa using h.1)
  have a2 : (proj2 cols.reverse) <:+ s2.take e2 := by
    rw [proj2_reverse]; exact List.reverse_prefix.mp (by simpa using h.2)
  obtain ⟨p1, hp1, h1⟩ := suffix_of_take a1
  obtain ⟨p2, hp2, h2⟩ := suffix_of_take a2
  exact ⟨p1, p2, hp1, hp2, h1, h2⟩

omit S in
/-- conversely a local alignment read backwards is anchored at the reversed prefixes that end where
it ends -/
theorem anchored_reverse_of_local {s1 s2 : Seq} {p1 p2 : Nat} {cols : List Col}
    (h : IsLocal s1 s2 p1 p2 cols) :
    Anchored (s1.take (p1 + (proj1 cols).length)).reverse (s2.take (p2 + (proj2 cols).length)).reverse
      cols.reverse := by
  constructor
  · rw [proj1_reverse]; exact List.reverse_prefix.mpr (prefix_of_drop h.1 h.2.2.1)
  · rw [proj2_reverse]; exact List.reverse_prefix.mpr (prefix_of_drop h.2.1 h.2.2.2)

end Gv.Spec.SW
