import Gv.Proofs.BagExt
import Gv.Proofs.BagExt2
import Gv.Props.C15
/-!
C01, operations that only rewrite residues in place (`ReverseComplementSequences`, `DiffWithFirst`,
`ReplaceMatchChars`, `Mask`, `MaskUnique` / `MaskOccurences`): ids, names, index, counter, kind, alphabet, cached
length and the length of every row stay (`SameShape`); invariant, rectangularity and kind follow at once.
-/
namespace Gv.Proofs.BagAbs
open Gv Gv.Model Gv.Proofs.BagInv

/-- `b'` differs from `b` at most in the residues of its rows -/
structure SameShape (b' b : Bag) : Prop where
  keys : keys b'.rows = keys b.rows
  index : b'.index = b.index
  next : b'.next = b.next
  isAlign : b'.isAlign = b.isAlign
  alphabet : b'.alphabet = b.alphabet
  length : b'.length = b.length
  policy : b'.policy = b.policy
  lens : b'.rows.map (·.seq.length) = b.rows.map (·.seq.length)

theorem SameShape.refl (b : Bag) : SameShape b b := ⟨rfl, rfl, rfl, rfl, rfl, rfl, rfl, rfl⟩

theorem SameShape.trans {a b c : Bag} (h1 : SameShape a b) (h2 : SameShape b c) : SameShape a c :=
  ⟨h1.keys.trans h2.keys, h1.index.trans h2.index, h1.next.trans h2.next, h1.isAlign.trans h2.isAlign,
   h1.alphabet.trans h2.alphabet, h1.length.trans h2.length, h1.policy.trans h2.policy, h1.lens.trans h2.lens⟩

theorem SameShape.inv {b' b : Bag} (s : SameShape b' b) (h : Inv b) : Inv b' :=
  h.transfer (by rw [s.keys]) s.index (by rw [s.next]; exact Nat.le_refl _)

theorem SameShape.rect {b' b : Bag} (s : SameShape b' b) (h : Rect b) : Rect b' :=
  h.congr s.isAlign s.length s.lens

theorem SameShape.rows_length {b' b : Bag} (s : SameShape b' b) : b'.rows.length = b.rows.length := by
  simpa using congrArg List.length s.lens

/-! ### writing a buffer through a pointer -/

theorem keys_setSeqById (i : Nat) (s : Seq) (rows : List Row) : keys (setSeqById i s rows) = keys rows := by
  simp only [keys, setSeqById, List.map_map]
  apply List.map_congr_left
  intro r _
  simp only [Function.comp]; split <;> rfl

theorem lens_setSeqById (i : Nat) (s : Seq) (rows : List Row)
    (h : ∀ r ∈ rows, r.id = i → s.length = r.seq.length) :
    (setSeqById i s rows).map (·.seq.length) = rows.map (·.seq.length) := by
  simp only [setSeqById, List.map_map]
  apply List.map_congr_left
  intro r hr
  simp only [Function.comp]
  split
  · rename_i e; exact h r hr (by simpa using e)
  · rfl

theorem sameShape_setSeqById (b : Bag) (i : Nat) (s : Seq) (h : ∀ r ∈ b.rows, r.id = i → s.length = r.seq.length) :
    SameShape { b with rows := setSeqById i s b.rows } b :=
  ⟨keys_setSeqById i s b.rows, rfl, rfl, rfl, rfl, rfl, rfl, lens_setSeqById i s b.rows h⟩

theorem deref_some {i : Nat} {rows : List Row} {r : Row} (h : deref i rows = some r) : r ∈ rows ∧ r.id = i := by
  induction rows with
  | nil => simp [deref] at h
  | cons x t ih =>
    simp only [deref] at h
    split at h
    · rename_i e
      simp only [Option.some.injEq] at h; subst h
      exact ⟨by simp, by simpa using e⟩
    · exact ⟨List.mem_cons_of_mem _ (ih h).1, (ih h).2⟩

/-- the row a by-name lookup returns is a row of the container (whatever the state of the index) -/
theorem getByName_mem {b : Bag} {n : String} {r : Row} (h : getByName b n = some r) : r ∈ b.rows := by
  unfold getByName at h
  cases hl : idxLookup n b.index with
  | none => simp [hl] at h
  | some i => simp only [hl, Option.bind_some] at h; exact (deref_some h).1

/-- writing a buffer of the length of some row into the rows of one pointer identity keeps an alignment rectangular
(all its rows have one length) -/
theorem rect_setSeqById {b : Bag} (h : Rect b) (i : Nat) (s : Seq) {r : Row} (hr : r ∈ b.rows)
    (hs : s.length = r.seq.length) : Rect { b with rows := setSeqById i s b.rows } := by
  by_cases ha : b.isAlign = true
  · refine h.congr rfl rfl (lens_setSeqById i s b.rows ?_)
    intro x hx _
    have h1 := h.rows_len ha x hx
    have h2 := h.rows_len ha r hr
    omega
  · exact Rect.of_not_align (by simpa using ha)

/-! ### `ReverseComplementSequences` -/

theorem sameShape_revcompNamedBag (names : List String) (b : Bag) (h : Inv b) :
    SameShape (revcompNamedBag names b).1 b := by
  induction names generalizing b with
  | nil => exact SameShape.refl b
  | cons nm rest ih =>
    simp only [revcompNamedBag]
    split
    · exact ih b h
    · rename_i r hr
      have hmem := getByName_mem hr
      have hs : SameShape { b with rows := setSeqById r.id (revcompSeq r.seq).1 b.rows } b := by
        apply sameShape_setSeqById
        intro x hx e
        have : x = r := by
          have h1 := deref_of_mem h.ids_nodup hx
          have h2 := deref_of_mem h.ids_nodup hmem
          rw [e, h2] at h1
          exact (Option.some.inj h1).symm
        rw [this, revcompSeq_length]
      split
      · exact hs
      · exact (ih _ (hs.inv h)).trans hs

theorem sameShape_reverseComplementSequences (names : List String) (b : Bag) (h : Inv b) :
    SameShape (reverseComplementSequences names b).1 b := by
  unfold reverseComplementSequences
  split
  · exact SameShape.refl b
  · exact sameShape_revcompNamedBag names b h

theorem inv_reverseComplementSequences (names : List String) (b : Bag) (h : Inv b) :
    Inv (reverseComplementSequences names b).1 := (sameShape_reverseComplementSequences names b h).inv h

theorem rect_revcompNamedBag (names : List String) {b : Bag} (h : Rect b) : Rect (revcompNamedBag names b).1 := by
  induction names generalizing b with
  | nil => exact h
  | cons nm rest ih =>
    simp only [revcompNamedBag]
    split
    · exact ih h
    · rename_i r hr
      have hs := rect_setSeqById h r.id (revcompSeq r.seq).1 (getByName_mem hr) (revcompSeq_length r.seq)
      split
      · exact hs
      · exact ih hs

theorem rect_reverseComplementSequences (names : List String) {b : Bag} (h : Rect b) :
    Rect (reverseComplementSequences names b).1 := by
  unfold reverseComplementSequences
  split
  · exact h
  · exact rect_revcompNamedBag names h

theorem isAlign_revcompNamedBag (names : List String) (b : Bag) : (revcompNamedBag names b).1.isAlign = b.isAlign := by
  induction names generalizing b with
  | nil => rfl
  | cons nm rest ih =>
    simp only [revcompNamedBag]
    split
    · exact ih b
    · split
      · rfl
      · exact ih _

theorem isAlign_reverseComplementSequences (names : List String) (b : Bag) :
    (reverseComplementSequences names b).1.isAlign = b.isAlign := by
  unfold reverseComplementSequences
  split
  · rfl
  · exact isAlign_revcompNamedBag names b

/-! ### sequences written back row by row (`withSeqs`) -/

theorem sameShape_withSeqs (b : Bag) (ps : List (String × Seq)) (hn : ps.map Prod.fst = b.rows.map (·.name))
    (hl : ps.map (·.2.length) = b.rows.map (·.seq.length)) :
    SameShape { b with rows := withSeqs b.rows ps } b := by
  have hlen := length_of_names hn
  refine ⟨keys_withSeqs _ _ hlen, rfl, rfl, rfl, rfl, rfl, rfl, ?_⟩
  have e : (withSeqs b.rows ps).map (·.seq.length) = ((withSeqs b.rows ps).map (·.seq)).map List.length := by
    simp [List.map_map, Function.comp_def]
  simp only []
  rw [e, seqs_withSeqs _ _ hlen, ← hl]
  simp [List.map_map, Function.comp_def]

theorem pairs_lens (b : Bag) : (pairs b).map (·.2.length) = b.rows.map (·.seq.length) := by
  simp [pairs, List.map_map, Function.comp_def]

/-! ### `DiffWithFirst`, `ReplaceMatchChars` -/

theorem againstFirst_names (g : Seq → Seq → Seq) (l : List (String × Seq)) :
    (againstFirst g l).map Prod.fst = l.map Prod.fst := by
  cases l with
  | nil => rfl
  | cons r0 rest => simp [againstFirst, List.map_map, Function.comp_def]

theorem againstFirst_lens (g : Seq → Seq → Seq) (hg : ∀ f o, (g f o).length = o.length) (l : List (String × Seq)) :
    (againstFirst g l).map (·.2.length) = l.map (·.2.length) := by
  cases l with
  | nil => rfl
  | cons r0 rest => simp [againstFirst, List.map_map, Function.comp_def, hg]

theorem diffSeq_length (f o : Seq) : (diffSeq f o).length = o.length := by simp [diffSeq]
theorem matchSeq_length (L : Nat) (f o : Seq) : (matchSeq L f o).length = o.length := by simp [matchSeq]

theorem sameShape_againstFirst (g : Seq → Seq → Seq) (hg : ∀ f o, (g f o).length = o.length) (b : Bag) :
    SameShape { b with rows := withSeqs b.rows (againstFirst g (pairs b)) } b :=
  sameShape_withSeqs b _ ((againstFirst_names g _).trans (pairs_names b))
    ((againstFirst_lens g hg _).trans (pairs_lens b))

theorem sameShape_diffWithFirst {b r : Bag} (h : diffWithFirstBag b = some r) : SameShape r b := by
  unfold diffWithFirstBag at h
  split at h
  · cases h
  · simp only [Option.some.injEq] at h; subst h
    exact sameShape_againstFirst _ diffSeq_length b

theorem sameShape_replaceMatchChars {b r : Bag} (h : replaceMatchCharsBag b = some r) : SameShape r b := by
  unfold replaceMatchCharsBag at h
  split at h
  · cases h
  · simp only [Option.some.injEq] at h; subst h
    exact sameShape_againstFirst _ (matchSeq_length _) b

/-! ### `Mask`, `MaskOccurences` -/

theorem maskWithRef_names_lens {rows : CRows} {L : Int} {alphabet : Nat} {refseq : String} {start len : Int}
    {mr : MaskRep} {nogap noref : Bool} {found : Option Seq} {out : CRows}
    (h : maskWithRef rows L alphabet refseq start len mr nogap noref found = some out) :
    out.map Prod.fst = rows.map Prod.fst ∧ out.map (·.2.length) = rows.map (·.2.length) := by
  unfold maskWithRef at h
  split at h
  · cases h
  · split at h
    · cases h
    · split at h
      · cases h
      · simp only [] at h
        split at h
        · cases h
        · simp only [Option.some.injEq] at h; subst h
          constructor <;> simp [List.map_map, Function.comp_def]

theorem sameShape_maskBag {refseq : String} {start len : Int} {mr : MaskRep} {nogap noref : Bool} {b : Bag}
    {r : Bag × Bool} (h : maskBag refseq start len mr nogap noref b = some r) : SameShape r.1 b := by
  unfold maskBag at h
  split at h
  · simp only [Option.some.injEq] at h; subst h; exact SameShape.refl b
  · rename_i ps hps
    simp only [] at h
    split at h
    · cases h
    · simp only [Option.some.injEq] at h; subst h
      obtain ⟨hn, hl⟩ := maskWithRef_names_lens hps
      exact sameShape_withSeqs b ps (hn.trans (pairs_names b)) (hl.trans (pairs_lens b))

theorem maskOccWithRef_names_len {rows : CRows} {L : Int} {alphabet : Nat} {refseq : String} {maxOcc : Int}
    {mr : MaskRep} {found : Option Seq} {out : CRows}
    (h : maskOccWithRef rows L alphabet refseq maxOcc mr found = some out) :
    out.map Prod.fst = rows.map Prod.fst ∧ ∀ p ∈ out, p.2.length = L.toNat := by
  unfold maskOccWithRef at h
  split at h
  · cases h
  · simp only [] at h
    split at h
    · cases h
    · rename_i refs _
      simp only [Option.some.injEq] at h; subst h
      have hcols : ∀ (l : List Nat) (rep : Byte),
          (maskOccLoop rows refseq refs maxOcc (mr == .maj) l rep).length = l.length := by
        intro l
        induction l with
        | nil => intro _; rfl
        | cons i t ih => intro rep; simp [maskOccLoop, ih]
      constructor
      · rw [List.map_map]
        have e : ∀ (f : (String × Seq) × Nat → Seq),
            (List.map (Prod.fst ∘ fun (x : (String × Seq) × Nat) => (x.1.1, f x)) rows.zipIdx) =
              (rows.zipIdx.map Prod.fst).map Prod.fst := by
          intro f; rw [List.map_map]; rfl
        rw [e, List.zipIdx_map_fst]
      · intro p hp
        obtain ⟨x, _, rfl⟩ := List.mem_map.mp hp
        simp [hcols]

theorem keepTails_names (L : Nat) (rows : List Row) (ps : List (String × Seq)) (hl : ps.length = rows.length) :
    (keepTails L rows ps).map Prod.fst = ps.map Prod.fst := by
  induction rows generalizing ps with
  | nil => cases ps <;> simp_all [keepTails]
  | cons r t ih =>
    cases ps with
    | nil => simp at hl
    | cons p ps =>
      have := ih ps (by simpa using hl)
      simp only [keepTails, List.zipWith_cons_cons, List.map_cons] at this ⊢
      rw [this]

theorem keepTails_lens (L : Nat) (rows : List Row) (ps : List (String × Seq)) (hl : ps.length = rows.length)
    (hp : ∀ p ∈ ps, p.2.length = L) (hr : ∀ r ∈ rows, L ≤ r.seq.length) :
    (keepTails L rows ps).map (·.2.length) = rows.map (·.seq.length) := by
  induction rows generalizing ps with
  | nil => cases ps <;> simp_all [keepTails]
  | cons r t ih =>
    cases ps with
    | nil => simp at hl
    | cons p ps =>
      have := ih ps (by simpa using hl) (fun q hq => hp q (List.mem_cons_of_mem _ hq))
        (fun q hq => hr q (List.mem_cons_of_mem _ hq))
      simp only [keepTails, List.zipWith_cons_cons, List.map_cons] at this ⊢
      rw [this]
      have h1 := hp p (by simp)
      have h2 := hr r (by simp)
      simp [h1]; omega

theorem keepTails_exact (L : Nat) (rows : List Row) (ps : List (String × Seq)) (hl : ps.length = rows.length)
    (hr : ∀ r ∈ rows, r.seq.length = L) : keepTails L rows ps = ps := by
  induction rows generalizing ps with
  | nil => cases ps <;> simp_all [keepTails]
  | cons r t ih =>
    cases ps with
    | nil => simp at hl
    | cons p ps =>
      have := ih ps (by simpa using hl) (fun q hq => hr q (List.mem_cons_of_mem _ hq))
      simp only [keepTails, List.zipWith_cons_cons] at this ⊢
      rw [this]
      have h2 := hr r (by simp)
      simp [← h2]

theorem sameShape_maskOccBag {refseq : String} {maxOcc : Int} {mr : MaskRep} {b : Bag}
    {r : Bag × Bool} (h : maskOccBag refseq maxOcc mr b = some r) : SameShape r.1 b := by
  unfold maskOccBag at h
  split at h
  · simp only [Option.some.injEq] at h; subst h; exact SameShape.refl b
  · rename_i ps hps
    split at h
    · cases h
    · rename_i hshort
      simp only [Option.some.injEq] at h; subst h
      obtain ⟨hn, hl⟩ := maskOccWithRef_names_len hps
      have hlen : ps.length = b.rows.length := length_of_names (hn.trans (pairs_names b))
      have hge : ∀ r ∈ b.rows, b.length.toNat ≤ r.seq.length := by
        intro r hr
        have : ¬ (decide (r.seq.length < b.length.toNat) = true) := fun hc =>
          hshort (List.any_eq_true.mpr ⟨r, hr, hc⟩)
        simpa using this
      exact sameShape_withSeqs b _ ((keepTails_names _ _ _ hlen).trans (hn.trans (pairs_names b)))
        (keepTails_lens _ _ _ hlen hl hge)

end Gv.Proofs.BagAbs
