import Gv.Proofs.BagRect3
import Gv.Proofs.BagExt
import Gv.Proofs.BagExt2
import Gv.Proofs.BagExt3
import Gv.Proofs.BagExt4
/-! No operation other than `Unalign` changes the kind (alignment / plain sequence set) of a container, and
`Unalign` only turns an alignment into a plain sequence set (C01). -/
namespace Gv.Proofs.BagAbs
open Gv Gv.Model Gv.Proofs.BagInv

theorem isAlign_addAllStopBase (l : List (String × Seq)) (b : Bag) : (addAllStopBase b l).1.isAlign = b.isAlign := by
  induction l generalizing b with
  | nil => rfl
  | cons p t ih =>
    obtain ⟨n, s⟩ := p
    simp only [addAllStopBase]
    exact ite_fst (P := fun x => x.isAlign = b.isAlign) (isAlign_addSeqAs _ b n s) (by rw [ih]; exact isAlign_addSeqAs _ b n s)

theorem isAlign_resetLengthIfEmpty (b : Bag) : (resetLengthIfEmpty b).isAlign = b.isAlign := by
  unfold resetLengthIfEmpty; split <;> rfl

theorem isAlign_appendToSequence (nm : String) (s : Seq) (b : Bag) : (appendToSequence nm s b).1.isAlign = b.isAlign := by
  unfold appendToSequence; split <;> rfl

theorem isAlign_concatLoop2 (alen : Nat) (l : List (String × Seq)) (b : Bag) : (concatLoop2 alen l b).1.isAlign = b.isAlign := by
  induction l generalizing b with
  | nil => rfl
  | cons p t ih =>
    obtain ⟨n, s⟩ := p
    simp only [concatLoop2]
    have h1 : (if (getByName b n).isSome = true then b else (addSeq b n (List.replicate alen GAP)).1).isAlign = b.isAlign := by
      split
      · rfl
      · exact isAlign_addSeqAs _ _ _ _
    exact ite_fst (P := fun x => x.isAlign = b.isAlign) ((isAlign_appendToSequence _ _ _).trans h1)
      (by rw [ih]; exact (isAlign_appendToSequence _ _ _).trans h1)

theorem isAlign_concat (other : List (String × Seq)) (clen : Int) (ca : Nat) (b : Bag) :
    (concat other clen ca b).1.isAlign = b.isAlign := by
  unfold concat
  split
  · rfl
  · simp only []
    have h1 : ∀ (l : List Row) (acc : Bag × Bool), acc.1.isAlign = b.isAlign →
        (l.foldl (fun (acc : Bag × Bool) r =>
          if acc.2 then acc
          else if (other.find? fun p => p.1 == r.name).isSome then acc
          else appendToSequence r.name (List.replicate clen.toNat GAP) acc.1) acc).1.isAlign = b.isAlign := by
      intro l
      induction l with
      | nil => intro acc ha; exact ha
      | cons r t ih =>
        intro acc ha
        simp only [List.foldl_cons]
        apply ih
        split
        · exact ha
        · split
          · exact ha
          · exact (isAlign_appendToSequence _ _ _).trans ha
    have hs1 := h1 b.rows (b, false) rfl
    apply ite_fst (P := fun x => x.isAlign = b.isAlign) hs1
    have hs2 := (isAlign_concatLoop2 b.length.toNat other _).trans hs1
    exact ite_fst (P := fun x => x.isAlign = b.isAlign) hs2 hs2

theorem isAlign_stepOp (b : Bag) (op : Op) (hne : op ≠ .unalign) : (stepOp b op).1.isAlign = b.isAlign := by
  cases op with
  | unalign => exact absurd rfl hne
  | renameRe ok names => simp only [stepOp]; split <;> rfl
  | setAlpha a => exact (setAlphabet_fields a b).2.2.2.1
  | revcompSeqs names => exact isAlign_reverseComplementSequences names b
  | diffFirst =>
    simp only [stepOp]
    split
    · rfl
    · split
      · rfl
      · rename_i r hr; exact (sameShape_diffWithFirst hr).isAlign
  | replaceMatch =>
    simp only [stepOp]
    split
    · rfl
    · split
      · rfl
      · rename_i r hr; exact (sameShape_replaceMatchChars hr).isAlign
  | mask refseq start len mr nogap noref =>
    simp only [stepOp]
    split
    · rfl
    · split
      · rfl
      · rename_i r hr; exact (sameShape_maskBag hr).isAlign
  | maskOcc refseq maxOcc mr =>
    simp only [stepOp]
    split
    · rfl
    · split
      · rfl
      · rename_i r hr; exact (sameShape_maskOccBag hr).isAlign
  | rmCharSites cs num den ends ic ig iN rev =>
    simp only [stepOp]
    split
    · rfl
    · split
      · rfl
      · rename_i r hr
        exact (cleanSitesBag_fields (isCleanFn_char _ cs ends ic ig iN rev) hr).2.2.2.1
  | rmMajSites num den ends ig iN =>
    simp only [stepOp]
    split
    · rfl
    · split
      · rfl
      · rename_i r hr
        exact (cleanSitesBag_fields (isCleanFn_maj _ ends ig iN) hr).2.2.2.1
  | replaceRe ok seqs => simp only [stepOp]; split <;> rfl
  | add n s => exact isAlign_addSeqAs _ b n s
  | ignore p => rfl
  | clear => rfl
  | append rows =>
    simp only [stepOp]
    split
    · rfl
    · split
      · rfl
      · exact isAlign_addAllStop _ b
  | concat rows =>
    simp only [stepOp]
    split
    · rfl
    · split
      · rfl
      · exact isAlign_concat _ _ _ b
  | rename m => rfl
  | appendId id right => simp only [stepOp, appendIdentifier]; split <;> rfl
  | cleanNames => rfl
  | trimNames size =>
    simp only [stepOp, trimNames]
    exact ite_fst (P := fun x => x.isAlign = b.isAlign) rfl rfl
  | trimAuto cur => rfl
  | sort => rfl
  | permute perm => rfl
  | filter mn mx =>
    simp only [stepOp, filterLength]
    rw [isAlign_resetLengthIfEmpty, isAlign_addAllStopBase]; rfl
  | dedup g =>
    simp only [stepOp, deduplicate]
    rw [isAlign_dedupLoop]; rfl
  | rmSeqs c num den ic ig iN =>
    simp only [stepOp]
    split
    · rfl
    · split
      · rfl
      · rename_i r hr
        unfold removeCharacterSeqs at hr
        simp only [] at hr
        split at hr
        · simp at hr
        · simp only [Option.some.injEq] at hr; subst hr
          simp only []
          rw [isAlign_addAllIgnore]; rfl
  | translate ph code =>
    simp only [stepOp, translateBag]
    split
    · exact isAlign_fixLength b
    · split
      · exact isAlign_fixLength b
      · have e := isAlign_translateRows (by assumption) (if ph == -1 then [0, 1, 2] else [ph.toNat]) (ph == -1) b.rows (clearBase b)
        exact ite_fst (P := fun x => x.isAlign = b.isAlign) ((isAlign_fixLength _).trans e) ((isAlign_fixLength _).trans e)
  | clone =>
    simp only [stepOp]
    split
    · rfl
    · simp only [clone]
      rw [isAlign_addAllStop]
      by_cases ha : b.isAlign = true
      · simp [ha, newAlign]
      · have : b.isAlign = false := by simpa using ha
        simp [this, newBag]
  | sample nb perm =>
    simp only [stepOp]
    split
    · rfl
    · rename_i s hs
      unfold sample at hs
      split at hs
      · simp at hs
      · simp only [] at hs
        split at hs
        · rename_i ha
          unfold seqBagToAlignment at hs
          split at hs
          · simp at hs
          · simp only [Option.some.injEq] at hs; subst hs; exact ha.symm
        · rename_i ha
          simp only [Option.some.injEq] at hs; subst hs
          rw [isAlign_addAllIgnore]
          simp only [newBag]
          simpa using ha
  | toUpper => rfl
  | toLower => rfl
  | replace old new => rfl
  | setChar i j c =>
    simp only [stepOp, setSequenceChar]
    split
    · rfl
    · split
      · rfl
      · split <;> rfl
  | trimSeqs n fs =>
    simp only [stepOp]
    split
    · rfl
    · split
      · rfl
      · rename_i r hr
        unfold trimSequences at hr
        split at hr
        · simp only [Option.some.injEq] at hr; subst hr; rfl
        · split at hr
          · simp only [Option.some.injEq] at hr; subst hr; rfl
          · split at hr
            · simp at hr
            · simp only [Option.some.injEq] at hr; subst hr; rfl
  | autoAlpha => rfl
  | revcomp => exact (reverseComplement_fields b).2.2.1
  | replaceChar name site c =>
    simp only [stepOp]
    split
    · rfl
    · split
      · rfl
      · rename_i r hr
        exact isAlign_replaceChar name site c b r hr
  | rmGapSites num den ends =>
    simp only [stepOp]
    split
    · rfl
    · split
      · rfl
      · rename_i r hr
        exact (removeGapSites_fields hr).2.2.2.1
  | compress =>
    simp only [stepOp]
    split
    · rfl
    · split
      · rfl
      · split
        · rfl
        · rename_i r hr
          exact (compressBag_fields hr).2.2.2.1

/-- `Unalign` yields a plain sequence set (or, on an alphabet for which none exists, leaves the object alone) -/
theorem isAlign_stepOp_unalign (b : Bag) :
    (stepOp b .unalign).1.isAlign = false ∨ (stepOp b .unalign).1 = b := by
  simp only [stepOp]
  split
  · exact Or.inr rfl
  · exact Or.inl (isAlign_unalign b)

/-- no operation turns a plain sequence set into an alignment -/
theorem isAlign_of_stepOp (b : Bag) (op : Op) (h : (stepOp b op).1.isAlign = true) : b.isAlign = true := by
  by_cases hne : op = .unalign
  · subst hne
    rcases isAlign_stepOp_unalign b with e | e
    · rw [e] at h; cases h
    · rw [e] at h; exact h
  · rw [isAlign_stepOp b op hne] at h; exact h

end Gv.Proofs.BagAbs
