import Gv.Model.Fmt.Common
import Gv.Model.Fmt.Phylip
/-!
Decimal printing and parsing are inverse: `strconv.ParseInt(fmt.Sprintf("%d", n), 10, 64) = n`
for every `n < 2^63` (used by the round-trip proofs of the formats whose header carries counts).
-/
namespace Gv.Proofs.Decimal
open Gv Gv.Model.Fmt Gv.Model.Fmt.Phylip

theorem digit_byte : ∀ k : Fin 10, (48 + UInt8.ofNat k.val).toNat = 48 + k.val ∧
    isDigit (48 + UInt8.ofNat k.val) = true := by decide

theorem foldl_dec (l : List Byte) : ∀ a : Nat,
    l.foldl (fun a d => a * 10 + (d.toNat - 48)) a = a * 10 ^ l.length + l.foldl (fun a d => a * 10 + (d.toNat - 48)) 0 := by
  induction l with
  | nil => intro a; simp
  | cons d t ih =>
    intro a
    simp only [List.foldl_cons, List.length_cons]
    rw [ih (a * 10 + (d.toNat - 48)), ih (0 * 10 + (d.toNat - 48))]
    rw [Nat.pow_succ]
    simp only [Nat.zero_mul, Nat.zero_add]
    rw [Nat.add_mul, Nat.mul_assoc, Nat.add_assoc, Nat.mul_comm (10 ^ t.length) 10]

theorem decVal_cons (d : Byte) (t : List Byte) : decVal (d :: t) = (d.toNat - 48) * 10 ^ t.length + decVal t := by
  unfold decVal
  simp only [List.foldl_cons, Nat.zero_mul, Nat.zero_add]
  exact foldl_dec t _

/-- the digit loop: value, digits only, non-empty -/
theorem digitsAux_spec : ∀ (fuel n : Nat) (acc : List Byte), n < fuel → acc.all isDigit = true →
    decVal (digitsAux fuel n acc) = n * 10 ^ acc.length + decVal acc ∧
    (digitsAux fuel n acc).all isDigit = true ∧ digitsAux fuel n acc ≠ [] := by
  intro fuel
  induction fuel with
  | zero => intro n acc h; omega
  | succ k ih =>
    intro n acc h hacc
    have hd := digit_byte ⟨n % 10, Nat.mod_lt _ (by omega)⟩
    simp only at hd
    unfold digitsAux
    simp only
    split
    · rename_i hlt
      refine ⟨?_, by simp [hd.2, hacc], by simp⟩
      rw [decVal_cons, hd.1]
      have hm : n % 10 = n := Nat.mod_eq_of_lt hlt
      have e : 48 + n % 10 - 48 = n := by omega
      rw [e]
    · rename_i hge
      have hk : n / 10 < k := by omega
      obtain ⟨h1, h2, h3⟩ := ih (n / 10) ((48 + UInt8.ofNat (n % 10)) :: acc) hk (by simp [hd.2, hacc])
      refine ⟨?_, h2, h3⟩
      rw [h1, decVal_cons, hd.1]
      simp only [List.length_cons, Nat.pow_succ]
      have := Nat.div_add_mod n 10
      have e : 48 + n % 10 - 48 = n % 10 := by omega
      rw [e]
      calc n / 10 * (10 ^ acc.length * 10) + (n % 10 * 10 ^ acc.length + decVal acc)
          = (10 * (n / 10) + n % 10) * 10 ^ acc.length + decVal acc := by
            rw [Nat.add_mul, Nat.mul_comm (10 ^ acc.length) 10, ← Nat.mul_assoc, Nat.mul_comm (n / 10) 10]
            omega
        _ = n * 10 ^ acc.length + decVal acc := by rw [this]

theorem natDec_spec (n : Nat) : decVal (natDec n) = n ∧ (natDec n).all isDigit = true ∧ natDec n ≠ [] := by
  have := digitsAux_spec (n + 1) n [] (by omega) (by simp)
  simpa [natDec, decVal] using this

/-- `ParseInt` of a printed natural number below 2^63 -/
theorem parseInt64_natDec (n : Nat) (h : n ≤ 9223372036854775807) : parseInt64 (natDec n) = some (n : Int) := by
  obtain ⟨hv, hd, hne⟩ := natDec_spec n
  unfold parseInt64
  cases hs : natDec n with
  | nil => exact absurd hs hne
  | cons c t =>
    rw [hs] at hd hv
    have hc : isDigit c = true := by simp at hd; exact hd.1
    have c45 : c ≠ 45 := by intro e; subst e; simp [isDigit] at hc
    have c43 : c ≠ 43 := by intro e; subst e; simp [isDigit] at hc
    split
    rename_i neg ds hm
    split at hm
    · rename_i t' he; simp at he; exact absurd he.1 c45
    · rename_i t' he; simp at he; exact absurd he.1 c43
    · simp only [Prod.mk.injEq] at hm
      obtain ⟨rfl, rfl⟩ := hm
      simp [hd, hv, h]

end Gv.Proofs.Decimal
