import Gv.Proofs.BagFresh
import Gv.Proofs.BagRect
/-!
Refinement of `AddSequenceChar` (C01): under `Good`, the Go-shaped insertion (index lookup, policy,
renaming loop over the index keys, length test against the *cached* length) is the reference insertion
(first row of that name, renaming over the row names, length test against the first row).
-/
namespace Gv.Proofs.BagAbs
open Gv Gv.Model Gv.Spec Gv.Proofs.BagInv Gv.Proofs.BagFresh

/-- the part of the abstraction that insertion depends on (everything but the alphabet) -/
structure Sim (b : Bag) (s : SBag) : Prop where
  rows : s.rows = pairs b
  policy : s.policy = b.policy
  isAlign : s.isAlign = b.isAlign

theorem sim_abs (b : Bag) : Sim b (abs b) := ⟨rfl, rfl, rfl⟩

theorem Sim.eq_abs {b : Bag} {s : SBag} (h : Sim b s) (ha : s.alphabet = b.alphabet) : s = abs b := by
  cases s; simp only [abs] at *
  obtain ⟨h1, h2, h3⟩ := h
  simp only at h1 h2 h3 ha
  subst h1 h2 h3 ha; rfl

theorem mem_names_iff_firstNamed (n : String) (rows : List (String × Seq)) :
    (rows.map Prod.fst).contains n = (firstNamed n rows).isSome := by
  induction rows with
  | nil => simp [firstNamed]
  | cons r t ih =>
    simp only [List.map_cons, List.contains_cons, firstNamed]
    by_cases h : r.1 = n
    · simp [h]
    · have h1 : (r.1 == n) = false := by simpa using h
      have h2 : (n == r.1) = false := by simpa using (fun e => h (Eq.symm e))
      simp only [h1, h2, Bool.false_or]
      exact ih

/-- index keys = row names -/
theorem idx_keys_names {b : Bag} (h : Good b) {s : SBag} (hs : Sim b s) (c : String) :
    (idxLookup c b.index).isSome = s.names.contains c := by
  rw [idxLookup_isSome h, SBag.names, mem_names_iff_firstNamed, hs.rows]; rfl

theorem first_pushed {f : Bool} {b : Bag} (h : IdxFirst b) (nm : String) (s : Seq)
    (hfree : idxLookup nm b.index = none) : IdxFirst (pushed f b nm s) := by
  intro m
  simp only [pushed, List.find?_append]
  by_cases hm : m = nm
  · subst hm
    rw [idxLookup_insert_self]
    have : b.rows.find? (fun r => r.name == m) = none := by
      have := h m
      rw [hfree] at this
      cases hq : b.rows.find? (fun r => r.name == m) with
      | none => rfl
      | some r => rw [hq] at this; simp at this
    simp [this]
  · rw [idxLookup_insert_other _ _ _ _ hm, h m]
    have : (nm == m) = false := by simpa using (fun e => hm (Eq.symm e))
    cases hq : b.rows.find? (fun r => r.name == m) <;> simp [this]

/-- pushing a row whose name is not an index key keeps `Good` (rectangularity: the caller's length
test passed) -/
theorem good_pushed {b : Bag} (h : Good b) (nm : String) (s : Seq) (hfree : idxLookup nm b.index = none)
    (hl : b.isAlign = true → b.length = -1 ∨ b.length = (s.length : Int)) : Good (pushed b.isAlign b nm s) := by
  refine ⟨inv_pushed _ b h.inv nm s, first_pushed h.first nm s hfree, ?_, h.alpha⟩
  by_cases ha : b.isAlign = true
  · rw [ha]; exact rect_pushed_true h.rect ha nm s (hl ha)
  · exact Rect.of_not_align (by simpa [pushed] using ha)

theorem pairs_pushed (f : Bool) (b : Bag) (nm : String) (s : Seq) : pairs (pushed f b nm s) = pairs b ++ [(nm, s)] := by
  simp [pairs, pushed]

def seqMatches (ex : Option (String × Seq)) (q : Seq) : Bool :=
  match ex with | some r => r.2 == q | none => false

theorem spec_add_eq (b : SBag) (name : String) (s : Seq) : Spec.add b name s =
    (if (firstNamed name b.rows).isSome && b.policy == IGNORE_NAME then (b, false)
     else if b.policy == IGNORE_SEQUENCE && seqMatches (firstNamed name b.rows) s then (b, false)
     else if b.isAlign && b.rows ≠ [] && b.length != (s.length : Int) then (b, true)
     else ({ b with rows := b.rows ++ [(Spec.freshName b.names name, s)] }, false)) := by
  unfold Spec.add seqMatches; rfl

theorem add_ref {b : Bag} (h : Good b) {s : SBag} (hs : Sim b s) (n : String) (q : Seq) :
    Sim (addSeq b n q).1 (Spec.add s n q).1 ∧ (addSeq b n q).2 = (Spec.add s n q).2 ∧ Good (addSeq b n q).1 ∧
    (Spec.add s n q).1.alphabet = s.alphabet ∧ (addSeq b n q).1.alphabet = b.alphabet := by
  have F1 : (idxLookup n b.index).isSome = (firstNamed n s.rows).isSome := by
    rw [idxLookup_isSome h, hs.rows]; rfl
  have F2 : sameSeqOpt (getByName b n) q = seqMatches (firstNamed n s.rows) q := by
    rw [hs.rows, pairs, firstNamed_pairs, getByName_eq_find h]
    cases b.rows.find? (fun r => r.name == n) <;> simp [sameSeqOpt, seqMatches]
  have F3 : freshName b.index n = Spec.freshName s.names n := freshName_eq _ _ (idx_keys_names h hs) n
  have F4 : idxLookup (freshName b.index n) b.index = none := freshName_free _ _
  have hpush : addSeqAs b.isAlign b n q = (pushed b.isAlign b (freshName b.index n) q, false) →
      (b.isAlign = true → b.length = -1 ∨ b.length = (q.length : Int)) →
      Sim (addSeqAs b.isAlign b n q).1 { s with rows := s.rows ++ [(Spec.freshName s.names n, q)] } ∧
      Good (addSeqAs b.isAlign b n q).1 ∧ (addSeqAs b.isAlign b n q).1.alphabet = b.alphabet := by
    intro e hl
    rw [e]
    refine ⟨⟨?_, hs.policy, hs.isAlign⟩, good_pushed h _ q F4 hl, rfl⟩
    simp only [pairs_pushed, hs.rows, F3]
  unfold addSeq
  rw [spec_add_eq]
  -- the two policy tests
  by_cases c1 : ((firstNamed n s.rows).isSome && s.policy == IGNORE_NAME) = true
  · have : addSeqAs b.isAlign b n q = (b, false) := by
      unfold addSeqAs; simp only []; rw [F1, ← hs.policy, if_pos c1]
    rw [this, if_pos c1]
    exact ⟨hs, rfl, h, rfl, rfl⟩
  · rw [if_neg c1]
    by_cases c2 : (s.policy == IGNORE_SEQUENCE && seqMatches (firstNamed n s.rows) q) = true
    · have : addSeqAs b.isAlign b n q = (b, false) := by
        unfold addSeqAs; simp only []; rw [F1, F2, ← hs.policy, if_neg c1]
        have : ((firstNamed n s.rows).isSome && s.policy == IGNORE_SEQUENCE &&
            seqMatches (firstNamed n s.rows) q) = true := by
          revert c2; cases firstNamed n s.rows <;> simp [seqMatches]
        rw [if_pos this]
      rw [this, if_pos c2]
      exact ⟨hs, rfl, h, rfl, rfl⟩
    · rw [if_neg c2]
      have c2' : ¬ ((firstNamed n s.rows).isSome && s.policy == IGNORE_SEQUENCE &&
            seqMatches (firstNamed n s.rows) q) = true := by
        revert c2; cases firstNamed n s.rows <;> simp [seqMatches]
      -- the length test: cached length vs first row
      by_cases ha : b.isAlign = true
      · have hlen := h.rect.abs_length ha
        have hne := h.rect.length_eq_neg_one_iff ha
        have hsl : s.length = b.length := by
          rw [← hlen]; unfold SBag.length; rw [hs.rows]; rfl
        have hsr : s.rows = [] ↔ b.rows = [] := by rw [hs.rows]; simp [pairs]
        by_cases c3 : (s.isAlign && decide (s.rows ≠ []) && s.length != (q.length : Int)) = true
        · have : addSeqAs b.isAlign b n q = (b, true) := by
            unfold addSeqAs; simp only []; rw [F1, F2, ← hs.policy, if_neg c1, if_neg c2']
            have : (b.isAlign && b.length != -1 && b.length != (q.length : Int)) = true := by
              simp only [hs.isAlign, ha, Bool.true_and, hsl, Bool.and_eq_true, decide_eq_true_eq, bne_iff_ne, ne_eq] at c3 ⊢
              refine ⟨?_, c3.2⟩
              intro e; exact c3.1 (hsr.mpr (hne.mp e))
            rw [if_pos this]
          rw [this, if_pos c3]
          exact ⟨hs, rfl, h, rfl, rfl⟩
        · rw [if_neg c3]
          have hl : b.length = -1 ∨ b.length = (q.length : Int) := by
            simp only [hs.isAlign, ha, Bool.true_and, hsl, Bool.and_eq_true, decide_eq_true_eq, bne_iff_ne, ne_eq,
              not_and, Decidable.not_not] at c3
            by_cases e : b.length = -1
            · exact Or.inl e
            · exact Or.inr (c3 (fun e' => e (hne.mpr (hsr.mp e'))))
          have e : addSeqAs b.isAlign b n q = (pushed b.isAlign b (freshName b.index n) q, false) := by
            unfold addSeqAs pushed; simp only []; rw [F1, F2, ← hs.policy, if_neg c1, if_neg c2']
            have : ¬ (b.isAlign && b.length != -1 && b.length != (q.length : Int)) = true := by
              simp only [ha, Bool.true_and, Bool.and_eq_true, bne_iff_ne, ne_eq, not_and, Decidable.not_not]
              intro e; rcases hl with hl | hl
              · exact absurd hl e
              · exact hl
            rw [if_neg this]
          obtain ⟨g1, g2, g3⟩ := hpush e (fun _ => hl)
          exact ⟨g1, by rw [e], g2, rfl, g3⟩
      · have c3 : ¬ (s.isAlign && decide (s.rows ≠ []) && s.length != (q.length : Int)) = true := by
          simp [hs.isAlign, ha]
        rw [if_neg c3]
        have e : addSeqAs b.isAlign b n q = (pushed b.isAlign b (freshName b.index n) q, false) := by
          unfold addSeqAs pushed; simp only []; rw [F1, F2, ← hs.policy, if_neg c1, if_neg c2']
          have : ¬ (b.isAlign && b.length != -1 && b.length != (q.length : Int)) = true := by simp [ha]
          rw [if_neg this]
        obtain ⟨g1, g2, g3⟩ := hpush e (fun hh => absurd hh ha)
        exact ⟨g1, by rw [e], g2, rfl, g3⟩

theorem addAllStop_ref (l : List (String × Seq)) {b : Bag} (h : Good b) {s : SBag} (hs : Sim b s) :
    Sim (addAllStop b l).1 (Spec.addAllStop s l).1 ∧ (addAllStop b l).2 = (Spec.addAllStop s l).2 ∧
    Good (addAllStop b l).1 ∧ (Spec.addAllStop s l).1.alphabet = s.alphabet ∧ (addAllStop b l).1.alphabet = b.alphabet := by
  induction l generalizing b s with
  | nil => exact ⟨hs, rfl, h, rfl, rfl⟩
  | cons p t ih =>
    obtain ⟨n, q⟩ := p
    obtain ⟨g1, g2, g3, g4, g5⟩ := add_ref h hs n q
    simp only [Model.addAllStop, Spec.addAllStop]
    rw [← g2]
    split
    · exact ⟨g1, g2, g3, g4, g5⟩
    · obtain ⟨k1, k2, k3, k4, k5⟩ := ih g3 g1
      exact ⟨k1, k2, k3, k4.trans g4, k5.trans g5⟩

/-! ### adding rows whose names are new: the rows are appended as they are

This is what `Clone`, `FilterLength`, `Deduplicate`, `RemoveCharacterSeqs`, `Translate` and `Sample`
do after `Clear()` / on a fresh object. -/

theorem addSeqAs_fresh (f : Bool) (b : Bag) (n : String) (q : Seq) (hn : idxLookup n b.index = none)
    (hl : f = true → b.length = -1 ∨ b.length = (q.length : Int)) :
    addSeqAs f b n q = (pushed f b n q, false) := by
  unfold addSeqAs pushed
  simp only [hn, Option.isSome_none, Bool.false_and, Bool.false_eq_true, if_false, Model.freshName]
  have : ¬ (f && b.length != -1 && b.length != (q.length : Int)) = true := by
    cases f with
    | false => simp
    | true =>
      simp only [Bool.true_and, Bool.and_eq_true, bne_iff_ne, ne_eq, not_and, Decidable.not_not]
      intro e; rcases hl rfl with hl | hl
      · exact absurd hl e
      · exact hl
  rw [if_neg this]

def pushAll (f : Bool) (b : Bag) (l : List (String × Seq)) : Bag := l.foldl (fun b p => pushed f b p.1 p.2) b

/-- index and rows of a container: weak invariant and first-row index -/
structure GI (b : Bag) : Prop where
  inv : Inv b
  first : IdxFirst b

theorem Good.gi {b : Bag} (h : Good b) : GI b := ⟨h.inv, h.first⟩

/-- names of `l` pairwise distinct and none of them an index key -/
def FreshIn (b : Bag) (l : List (String × Seq)) : Prop :=
  (l.map Prod.fst).Nodup ∧ ∀ p ∈ l, idxLookup p.1 b.index = none

/-- the length test of `align.AddSequenceChar` passes for every row of `l` -/
def LenOK (f : Bool) (b : Bag) (l : List (String × Seq)) : Prop :=
  f = true → ∃ T : Nat, (b.length = -1 ∨ b.length = (T : Int)) ∧ ∀ p ∈ l, p.2.length = T

theorem freshIn_tail {b : Bag} {f : Bool} {n : String} {q : Seq} {t : List (String × Seq)} (h : FreshIn b ((n, q) :: t)) :
    FreshIn (pushed f b n q) t := by
  obtain ⟨h1, h2⟩ := h
  simp only [List.map_cons, List.nodup_cons] at h1
  refine ⟨h1.2, ?_⟩
  intro p hp
  have hne : p.1 ≠ n := by
    intro e; exact h1.1 (e ▸ List.mem_map_of_mem (f := Prod.fst) hp)
  simp only [pushed]
  rw [idxLookup_insert_other _ _ _ _ hne]
  exact h2 p (List.mem_cons_of_mem _ hp)

theorem lenOK_tail {b : Bag} {f : Bool} {n : String} {q : Seq} {t : List (String × Seq)} (h : LenOK f b ((n, q) :: t)) :
    LenOK f (pushed f b n q) t := by
  intro hf
  obtain ⟨T, _, h2⟩ := h hf
  refine ⟨T, Or.inr ?_, fun p hp => h2 p (List.mem_cons_of_mem _ hp)⟩
  have := h2 (n, q) (by simp)
  simp only [pushed, hf, if_true]
  simp only at this
  omega

theorem lenOK_head {b : Bag} {f : Bool} {n : String} {q : Seq} {t : List (String × Seq)} (h : LenOK f b ((n, q) :: t)) :
    f = true → b.length = -1 ∨ b.length = (q.length : Int) := by
  intro hf
  obtain ⟨T, h1, h2⟩ := h hf
  have := h2 (n, q) (by simp)
  simp only at this
  rw [this]; exact h1

theorem gi_pushed {f : Bool} {b : Bag} (h : GI b) (n : String) (q : Seq) (hn : idxLookup n b.index = none) :
    GI (pushed f b n q) := ⟨inv_pushed f b h.inv n q, first_pushed h.first n q hn⟩

theorem pushAll_spec (f : Bool) (l : List (String × Seq)) {b : Bag} (h : GI b) (hf : FreshIn b l) :
    GI (pushAll f b l) ∧ pairs (pushAll f b l) = pairs b ++ l ∧ (pushAll f b l).policy = b.policy ∧
    (pushAll f b l).alphabet = b.alphabet ∧ (pushAll f b l).isAlign = b.isAlign := by
  induction l generalizing b with
  | nil => exact ⟨h, by simp [pushAll], rfl, rfl, rfl⟩
  | cons p t ih =>
    obtain ⟨n, q⟩ := p
    have hn := hf.2 (n, q) (by simp)
    obtain ⟨k1, k2, k3, k4, k5⟩ := ih (gi_pushed (f := f) h n q hn) (freshIn_tail hf)
    refine ⟨k1, ?_, k3, k4, k5⟩
    show pairs (pushAll f (pushed f b n q) t) = _
    rw [k2, pairs_pushed]; simp

theorem addAllStopBase_fresh (l : List (String × Seq)) {b : Bag} (hf : FreshIn b l) :
    addAllStopBase b l = (pushAll false b l, false) := by
  induction l generalizing b with
  | nil => rfl
  | cons p t ih =>
    obtain ⟨n, q⟩ := p
    have e := addSeqAs_fresh false b n q (hf.2 (n, q) (by simp)) (by simp)
    simp only [addAllStopBase, addSeqBase, e, Bool.false_eq_true, if_false]
    exact ih (freshIn_tail hf)

theorem addAllStop_fresh (l : List (String × Seq)) {b : Bag} (hf : FreshIn b l) (hl : LenOK b.isAlign b l) :
    Model.addAllStop b l = (pushAll b.isAlign b l, false) := by
  induction l generalizing b with
  | nil => rfl
  | cons p t ih =>
    obtain ⟨n, q⟩ := p
    have e := addSeqAs_fresh b.isAlign b n q (hf.2 (n, q) (by simp)) (lenOK_head hl)
    simp only [Model.addAllStop, addSeq, e, Bool.false_eq_true, if_false]
    exact ih (b := pushed b.isAlign b n q) (freshIn_tail hf) (lenOK_tail hl)

theorem addAllIgnore_fresh (l : List (String × Seq)) {b : Bag} (hf : FreshIn b l) (hl : LenOK b.isAlign b l) :
    Model.addAllIgnore b l = pushAll b.isAlign b l := by
  induction l generalizing b with
  | nil => rfl
  | cons p t ih =>
    obtain ⟨n, q⟩ := p
    have e := addSeqAs_fresh b.isAlign b n q (hf.2 (n, q) (by simp)) (lenOK_head hl)
    simp only [Model.addAllIgnore, addSeq, e]
    exact ih (b := pushed b.isAlign b n q) (freshIn_tail hf) (lenOK_tail hl)

/-- on an empty index every list with pairwise distinct names is fresh -/
theorem freshIn_of_nil {b : Bag} (he : b.index = []) {l : List (String × Seq)} (hn : (l.map Prod.fst).Nodup) : FreshIn b l :=
  ⟨hn, by intro p _; simp [he, idxLookup]⟩

theorem gi_nil (b : Bag) : GI { b with rows := [], index := [] } := ⟨inv_nil b, by intro n; simp [idxLookup]⟩

end Gv.Proofs.BagAbs
