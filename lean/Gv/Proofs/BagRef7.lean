import Gv.Proofs.BagRef6
/-!
Refinement (C01), part 7: `Concat`, building blocks.  Names stay pairwise distinct under insertion;
`appendToSequence` (through the index) extends exactly the row of that name.
-/
namespace Gv.Proofs.BagAbs
open Gv Gv.Model Gv.Spec Gv.Proofs.BagInv Gv.Proofs.BagFresh

/-- weak invariant + pairwise distinct names (then the index is exact, `idxFirst_of_nodup`) -/
structure NI (b : Bag) : Prop where
  inv : Inv b
  nodup : (b.rows.map (·.name)).Nodup

theorem NI.gi {b : Bag} (h : NI b) : GI b := ⟨h.inv, idxFirst_of_nodup h.inv h.nodup⟩

theorem idxLookup_none_iff {b : Bag} (h : Inv b) (n : String) :
    idxLookup n b.index = none ↔ n ∉ b.rows.map (·.name) := by
  constructor
  · intro hl hm
    obtain ⟨r, hr, e⟩ := List.mem_map.mp hm
    have := h.idx_complete r hr
    rw [e, hl] at this
    cases this
  · intro hm
    cases hl : idxLookup n b.index with
    | none => rfl
    | some i =>
      obtain ⟨r, hr, _, e2⟩ := h.idx_sound n i hl
      exact absurd (List.mem_map.mpr ⟨r, hr, e2⟩) hm

/-- insertion never creates a duplicate name -/
theorem ni_addSeqAs (f : Bool) {b : Bag} (h : NI b) (n : String) (s : Seq) : NI (addSeqAs f b n s).1 := by
  refine ⟨inv_addSeqAs f b h.inv n s, ?_⟩
  rcases addSeqAs_cases f b n s with e | e | e <;> rw [e]
  · exact h.nodup
  · exact h.nodup
  · simp only [pushed, List.map_append, List.map_cons, List.map_nil]
    apply List.nodup_append.mpr
    refine ⟨h.nodup, by simp, ?_⟩
    intro a ha c hc
    simp only [List.mem_singleton] at hc
    subst hc
    exact fun e => (idxLookup_none_iff h.inv _).mp (freshName_free b.index n) (e ▸ ha)

theorem ni_addAllStop (l : List (String × Seq)) {b : Bag} (h : NI b) : NI (Model.addAllStop b l).1 := by
  induction l generalizing b with
  | nil => exact h
  | cons p t ih =>
    obtain ⟨n, s⟩ := p
    simp only [Model.addAllStop]
    split
    · exact ni_addSeqAs _ h n s
    · exact ih (ni_addSeqAs _ h n s)

theorem ni_newAlign (a : Nat) : NI (newAlign a) := ⟨inv_newAlign a, by simp [newAlign]⟩

/-! ### `appendToSequence` -/

theorem nodup_map_inj {α β : Type} {f : α → β} {l : List α} (h : (l.map f).Nodup) {x y : α}
    (hx : x ∈ l) (hy : y ∈ l) (e : f x = f y) : x = y := by
  induction l with
  | nil => cases hx
  | cons a t ih =>
    simp only [List.map_cons, List.nodup_cons] at h
    rcases List.mem_cons.mp hx with rfl | hx' <;> rcases List.mem_cons.mp hy with rfl | hy'
    · rfl
    · exact absurd (e ▸ List.mem_map_of_mem (f := f) hy') h.1
    · exact absurd (e ▸ List.mem_map_of_mem (f := f) hx') h.1
    · exact ih h.2 hx' hy'

/-- extend the row(s) named `n` -/
def updRows (n : String) (s : Seq) (rows : List Row) : List Row :=
  rows.map fun x => if x.name == n then { x with seq := x.seq ++ s } else x

theorem keys_updRows (n : String) (s : Seq) (rows : List Row) : keys (updRows n s rows) = keys rows := by
  simp only [keys, updRows, List.map_map]
  apply List.map_congr_left
  intro r _
  simp only [Function.comp]; split <;> rfl

theorem names_updRows (n : String) (s : Seq) (rows : List Row) : (updRows n s rows).map (·.name) = rows.map (·.name) := by
  have := congrArg (List.map Prod.snd) (keys_updRows n s rows)
  simpa [keys, List.map_map, Function.comp_def] using this

theorem appendToSequence_named {b : Bag} (h : NI b) (n : String) (s : Seq) (hn : n ∈ b.rows.map (·.name)) :
    appendToSequence n s b = ({ b with rows := updRows n s b.rows }, false) := by
  obtain ⟨r, hr, hrn⟩ := List.mem_map.mp hn
  have hfind : b.rows.find? (fun x => x.name == n) = some r := by rw [← hrn]; exact find_unique h.nodup hr
  have hl : idxLookup n b.index = some r.id := by rw [h.gi.first n, hfind]; rfl
  unfold appendToSequence
  simp only [hl, updRows]
  congr 2
  apply List.map_congr_left
  intro x hx
  by_cases hxr : x = r
  · subst hxr; simp [hrn]
  · have h1 : (x.id == r.id) = false := by
      have : x.id ≠ r.id := by
        intro e
        have := nodup_map_inj h.inv.ids_nodup hx hr e
        exact hxr this
      simpa using this
    have h2 : (x.name == n) = false := by
      have : x.name ≠ n := by
        intro e
        have := nodup_map_inj h.nodup hx hr (e.trans hrn.symm)
        exact hxr this
      simpa using this
    simp [h1, h2]

theorem ni_updRows {b : Bag} (h : NI b) (n : String) (s : Seq) : NI { b with rows := updRows n s b.rows } :=
  ⟨h.inv.transfer (by simp only []; rw [keys_updRows]) rfl (Nat.le_refl _), by simp only []; rw [names_updRows]; exact h.nodup⟩

end Gv.Proofs.BagAbs
