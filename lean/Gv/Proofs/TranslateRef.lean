import Gv.Proofs.TranslateAlign
/-!
C05: `TranslateByReference` — every row receives the same number of characters; without gaps the result is
the plain translation of every row; in frame 0 the reference row, gaps removed, is a prefix of the
translation of the ungapped reference.  Parametric in the code table (table facts are hypotheses,
discharged in `Props/C05.lean`).
-/
namespace Gv.Proofs.TranslateRef
open Gv Gv.Model Gv.Proofs.TranslateAlign
set_option linter.unusedSimpArgs false

theorem codonsFrom_length (code : List (List Byte × Byte)) : ∀ (n : Nat) (s : Seq), s.length ≤ n →
    (codonsFrom code s).length = s.length / 3 := by
  intro n
  induction n with
  | zero => intro s h; cases s <;> simp_all [codonsFrom]
  | succ n ih =>
    intro s h
    match s with
    | [] => simp [codonsFrom]
    | [_] => simp [codonsFrom]
    | [_, _] => simp [codonsFrom]
    | a :: b :: c :: t =>
      simp only [codonsFrom, List.length_cons]
      rw [ih t (by simp at h; omega)]
      omega

/-! ### skipping reference gaps -/

theorem skipGaps_spec (m : Nat) (s : Seq) :
    s = List.replicate (skipGaps m s).1 GAP ++ (skipGaps m s).2 ∧
    ∀ c t, (skipGaps m s).2 = c :: t → (c :: t).length ≥ m → c ≠ GAP := by
  induction s with
  | nil => simp [skipGaps]
  | cons c t ih =>
    unfold skipGaps
    by_cases h : ((c :: t).length ≥ m && c == GAP) = true
    · simp only [h, if_true]
      have hc : c = GAP := by
        simp only [Bool.and_eq_true, beq_iff_eq] at h; exact h.2
      refine ⟨?_, ih.2⟩
      rw [List.replicate_succ, List.cons_append, ← ih.1, hc]
    · simp only [h, Bool.false_eq_true, if_false, List.replicate_zero, List.nil_append, true_and]
      intro c' t' e hl
      simp only [List.cons.injEq] at e
      obtain ⟨e1, e2⟩ := e
      subst e1; subst e2
      intro hg
      apply h
      simp only [Bool.and_eq_true, decide_eq_true_eq, beq_iff_eq]
      exact ⟨hl, hg⟩

theorem skipGaps_head_ne (m : Nat) (c : Byte) (t : Seq) (h : c ≠ GAP) : skipGaps m (c :: t) = (0, c :: t) := by
  have : (c == GAP) = false := by simpa using h
  simp [skipGaps, this]

theorem ungap_replicate_append (k : Nat) (s : Seq) : ungap (List.replicate k GAP ++ s) = ungap s := by
  induction k with
  | zero => simp
  | succ k ih =>
    rw [List.replicate_succ, List.cons_append]
    unfold ungap at ih ⊢
    rw [List.filter_cons]
    simp [ih]

theorem ungap_replicate (k : Nat) : ungap (List.replicate k GAP) = [] := by
  have := ungap_replicate_append k []
  rw [List.append_nil] at this
  rw [this]; rfl

theorem ungap_cons_ne (c : Byte) (s : Seq) (h : c ≠ GAP) : ungap (c :: s) = c :: ungap s := by
  unfold ungap
  rw [List.filter_cons]
  have : (c != GAP) = true := by simpa using h
  simp [this]

theorem ungap_append (a b : Seq) : ungap (a ++ b) = ungap a ++ ungap b := by
  simp [ungap]

/-! ### the segments -/

theorem refSegs_len (code : List (List Byte × Byte)) (fuel : Nat) (rem : Seq) :
    ∀ s ∈ refSegs code fuel rem, s.len ≥ 3 := by
  induction fuel generalizing rem with
  | zero => simp [refSegs]
  | succ fuel ih =>
    match rem with
    | [] => simp [refSegs]
    | [_] => simp [refSegs]
    | [_, _] => simp [refSegs]
    | a :: b :: c :: t =>
      unfold refSegs
      split
      · intro s hs
        rcases List.mem_cons.mp hs with e | e
        · subst e; simp
        · exact ih t s e
      · simp only []
        split
        · split
          · simp
          · split
            · split
              · simp
              · split
                · intro s hs
                  rcases List.mem_cons.mp hs with e | e
                  · subst e; simp
                  · exact ih _ s e
                · simp
            · simp
        · simp

theorem refChunk_length (s : RefSeg) (h : s.len ≥ 3) : (refChunk s).length = s.naa := by
  unfold refChunk RefSeg.naa
  simp
  omega

theorem compChunk_length (code : List (List Byte × Byte)) (naa : Nat) (chunk : Seq) (h : chunk.length / 3 ≤ naa) :
    (compChunk code naa chunk).length = naa := by
  unfold compChunk
  simp only []
  split
  · simp
  · split
    · simp
    · rw [List.length_append, List.length_replicate, codonsFrom_length code _ _ (Nat.le_refl _)]
      have : (chunk.filter (· != GAP)).length ≤ chunk.length := List.length_filter_le _ _
      have : (chunk.filter (· != GAP)).length / 3 ≤ chunk.length / 3 := Nat.div_le_div_right this
      omega

/-- **every row grows by the same amount**: the number of characters a row receives depends on the segments only -/
theorem compRow_length (code : List (List Byte × Byte)) (segs : List RefSeg) (hs : ∀ s ∈ segs, s.len ≥ 3) (row : Seq) :
    (compRow code segs row).length = (segs.flatMap refChunk).length := by
  induction segs generalizing row with
  | nil => simp [compRow]
  | cons s ss ih =>
    simp only [compRow, List.length_append, List.flatMap_cons]
    rw [ih (fun x hx => hs x (by simp [hx])), refChunk_length s (hs s (by simp))]
    congr 1
    apply compChunk_length
    unfold RefSeg.naa
    apply Nat.div_le_div_right
    rw [List.length_take]
    omega

/-! ### no gaps: plain translation -/

theorem refSegs_nogap (code : List (List Byte × Byte)) (fuel : Nat) (rem : Seq) (hf : rem.length ≤ fuel)
    (hg : ∀ x ∈ rem, x ≠ GAP) :
    (refSegs code fuel rem).flatMap refChunk = codonsFrom code rem ∧
    ∀ row : Seq, row.length = rem.length → (∀ x ∈ row, x ≠ GAP) →
      compRow code (refSegs code fuel rem) row = codonsFrom code row := by
  induction fuel generalizing rem with
  | zero =>
    have : rem = [] := List.eq_nil_of_length_eq_zero (by omega)
    subst this
    refine ⟨by simp [refSegs, codonsFrom], ?_⟩
    intro row hl _
    have : row = [] := List.eq_nil_of_length_eq_zero (by simpa using hl)
    subst this
    simp [refSegs, compRow, codonsFrom]
  | succ fuel ih =>
    match rem, hf, hg with
    | [], _, _ =>
      refine ⟨by simp [refSegs, codonsFrom], ?_⟩
      intro row hl _
      have : row = [] := List.eq_nil_of_length_eq_zero (by simpa using hl)
      subst this
      simp [refSegs, compRow, codonsFrom]
    | [a], _, _ =>
      refine ⟨by simp [refSegs, codonsFrom], ?_⟩
      intro row hl _
      match row, hl with
      | [_], _ => simp [refSegs, compRow, codonsFrom]
    | [a, b], _, _ =>
      refine ⟨by simp [refSegs, codonsFrom], ?_⟩
      intro row hl _
      match row, hl with
      | [_, _], _ => simp [refSegs, compRow, codonsFrom]
    | a :: b :: c :: t, hf, hg =>
      have ha : a ≠ GAP := hg a (by simp)
      have hb : b ≠ GAP := hg b (by simp)
      have hc : c ≠ GAP := hg c (by simp)
      have ha' : (a == GAP) = false := by simpa using ha
      have hseg : refSegs code (fuel + 1) (a :: b :: c :: t) =
          ⟨0, 3, translateCodon code a b c⟩ :: refSegs code fuel t := by
        conv => lhs; unfold refSegs
        simp only [ha', Bool.false_and, Bool.false_eq_true, if_false]
        rw [skipGaps_head_ne 3 a _ ha]
        simp only [List.length_cons]
        rw [if_neg (by omega), skipGaps_head_ne 2 b _ hb]
        simp only [List.length_cons]
        rw [if_neg (by omega), skipGaps_head_ne 1 c _ hc]
        simp
      have iht := ih t (by simp at hf; omega) (fun x hx => hg x (by simp [hx]))
      rw [hseg]
      refine ⟨?_, ?_⟩
      · simp only [List.flatMap_cons, refChunk, RefSeg.naa, codonsFrom, iht.1]
        simp
      · intro row hl hrow
        match row, hl, hrow with
        | a' :: b' :: c' :: t', hl, hrow =>
          have ha2 : (a' != GAP) = true := by simpa using hrow a' (by simp)
          have hb2 : (b' != GAP) = true := by simpa using hrow b' (by simp)
          have hc2 : (c' != GAP) = true := by simpa using hrow c' (by simp)
          simp only [compRow, List.drop_zero, List.take_succ_cons, List.take_zero, List.drop_succ_cons,
            compChunk, RefSeg.naa, List.filter_cons, ha2, hb2, hc2, if_true, List.filter_nil, codonsFrom]
          rw [iht.2 t' (by simp at hl; omega) (fun x hx => hrow x (by simp [hx]))]
          simp [codonsFrom]

/-! ### the reference row is a prefix of the translation of the ungapped reference -/

theorem refRow_prefix (code : List (List Byte × Byte))
    (hne : ∀ x y z, x ≠ GAP → y ≠ GAP → z ≠ GAP → translateCodon code x y z ≠ GAP)
    (fuel : Nat) (rem : Seq) :
    ungap ((refSegs code fuel rem).flatMap refChunk) <+: codonsFrom code (ungap rem) := by
  induction fuel generalizing rem with
  | zero => simp [refSegs, ungap]
  | succ fuel ih =>
    match rem with
    | [] => simp [refSegs, ungap]
    | [_] => simp [refSegs, ungap]
    | [_, _] => simp [refSegs, ungap]
    | a :: b :: c :: t =>
      unfold refSegs
      split
      · rename_i hall
        simp only [Bool.and_eq_true, beq_iff_eq] at hall
        obtain ⟨⟨h1, h2⟩, h3⟩ := hall
        subst h1; subst h2; subst h3
        have e1 : ungap (GAP :: GAP :: GAP :: t) = ungap t := by
          have := ungap_replicate_append 3 t
          simpa [List.replicate] using this
        rw [e1, List.flatMap_cons, ungap_append]
        have e2 : ungap (refChunk ⟨0, 3, GAP⟩) = [] := by
          simp [refChunk, RefSeg.naa, ungap]
        rw [e2, List.nil_append]
        exact ih t
      · simp only []
        have s0 := skipGaps_spec 3 (a :: b :: c :: t)
        generalize skipGaps 3 (a :: b :: c :: t) = r0 at s0 ⊢
        obtain ⟨k0, q0⟩ := r0
        simp only at s0 ⊢
        match q0, s0 with
        | [], _ => simp [ungap]
        | x :: rest, s0 =>
          simp only []
          split
          · simp [ungap]
          · rename_i hrest
            have hx : x ≠ GAP := s0.2 x rest rfl (by simp; omega)
            have s1 := skipGaps_spec 2 rest
            generalize skipGaps 2 rest = r1 at s1 ⊢
            obtain ⟨k1, q1⟩ := r1
            simp only at s1 ⊢
            match q1, s1 with
            | [], _ => simp [ungap]
            | y :: rest2, s1 =>
              simp only []
              split
              · simp [ungap]
              · rename_i hrest2
                have hy : y ≠ GAP := s1.2 y rest2 rfl (by simp; omega)
                have s2 := skipGaps_spec 1 rest2
                generalize skipGaps 1 rest2 = r2 at s2 ⊢
                obtain ⟨k2, q2⟩ := r2
                simp only at s2 ⊢
                match q2, s2 with
                | [], _ => simp [ungap]
                | z :: t', s2 =>
                  simp only []
                  have hz : z ≠ GAP := s2.2 z t' rfl (by simp)
                  have hrem : ungap (a :: b :: c :: t) = x :: y :: z :: ungap t' := by
                    rw [s0.1, ungap_replicate_append, ungap_cons_ne x _ hx, s1.1, ungap_replicate_append,
                      ungap_cons_ne y _ hy, s2.1, ungap_replicate_append, ungap_cons_ne z _ hz]
                  rw [hrem, List.flatMap_cons, ungap_append]
                  have htc := hne x y z hx hy hz
                  have e2 : ungap (refChunk ⟨k0, k1 + k2 + 3, translateCodon code x y z⟩) = [translateCodon code x y z] := by
                    unfold refChunk
                    rw [ungap_cons_ne _ _ htc, ungap_replicate]
                  rw [e2]
                  simp only [codonsFrom, List.singleton_append]
                  exact List.prefix_cons_inj _ |>.mpr (ih t')

/-! ### the container -/

theorem findRowIdx_ge (name : String) (rows : List (String × Seq)) (k i : Nat)
    (h : findRowIdx name rows k = some i) : k ≤ i := by
  induction rows generalizing k with
  | nil => simp [findRowIdx] at h
  | cons r t ih =>
    obtain ⟨n, s⟩ := r
    unfold findRowIdx at h
    split at h
    · simp at h; omega
    · have := ih (k + 1) h; omega

/-- the row addressed by the reference name before and after: the first row of that name -/
theorem findRow_byIdx (name : String) (A : Seq) (B : Seq → Seq) (rows : List (String × Seq)) (k i : Nat)
    (h : findRowIdx name rows k = some i) :
    findRow name ((rows.zipIdx k).map fun x => (x.1.1, if x.2 == i then A else B x.1.2)) = some A ∧
    findRow name rows = some (rows.getD (i - k) ("", [])).2 := by
  induction rows generalizing k with
  | nil => simp [findRowIdx] at h
  | cons r t ih =>
    obtain ⟨n, s⟩ := r
    unfold findRowIdx at h
    by_cases hn : (n == name) = true
    · simp only [hn, if_true, Option.some.injEq] at h
      subst h
      simp [findRow, hn]
    · simp only [hn, Bool.false_eq_true, if_false] at h
      have hge := findRowIdx_ge name t (k + 1) i h
      have := ih (k + 1) h
      simp only [List.zipIdx_cons, List.map_cons, findRow, hn, Bool.false_eq_true, if_false]
      refine ⟨this.1, ?_⟩
      rw [this.2]
      have e : i - k = (i - (k + 1)) + 1 := by omega
      rw [e, List.getD_cons_succ]

theorem names_preserved (F : (String × Seq) × Nat → Seq) (rows : List (String × Seq)) (k : Nat) :
    ((rows.zipIdx k).map fun x => (x.1.1, F x)).map Prod.fst = rows.map Prod.fst := by
  induction rows generalizing k with
  | nil => rfl
  | cons r t ih => simp [List.zipIdx_cons, ih]

end Gv.Proofs.TranslateRef
